/-
C07 — grid numbering and connectivity form a consistent bijection.

Model: `DarsiaModel.Grid` (generic dimension: `shape : List Nat`; cells in Fortran order; faces of axis `a` are the
multi-indices of `shape - e_a`, numbered `offset a + encF`).  Every theorem is about the MODEL on every shape list; the code
builds grids only for shapes accepted by `gridGuard` (1–3 axes, all extents ≥ 1 — numpy raises for an extent 0, the
constructor for other dimensions), so model values outside the guard (e.g. `numFaces [0, 3] = 0`) describe nothing the code
computes.  The literal corner tables are re-tabulated from the running code (DarsiaGen.GridTables).
-/
import DarsiaModel.Grid
import DarsiaGen.GridTables
import DarsiaProofs.Grid
import DarsiaProofs.FV
import DarsiaModel.GridFromImage
import Mathlib.Tactic.FieldSimp
import Mathlib.Data.List.Nodup
namespace Darsia.C07
open Darsia

/-- Cell numbering is a bijection between the box of multi-indices and `[0, numCells)`. -/
theorem cells_numbered_once (shape : List Nat) :
    (∀ c, c < numCells shape → inBox shape (decF shape c) = true ∧ encF shape (decF shape c) = c) ∧
    (∀ idx, inBox shape idx = true → encF shape idx < numCells shape ∧ decF shape (encF shape idx) = idx) :=
  ⟨fun c h => ⟨decF_inBox shape c h, encF_decF shape c h⟩,
   fun idx h => ⟨encF_lt shape idx h, decF_encF shape idx h⟩⟩

/-- Every face is numbered exactly once: (axis, multi-index in the face box of that axis) ↔ `[0, numFaces)` is a
bijection, with `faceAxis`/`faceIdx` as the inverse of `faceNum`. -/
theorem faces_numbered_once (shape : List Nat) :
    (∀ f, f < numFaces shape →
      faceAxis shape f < shape.length ∧ inBox (fshape shape (faceAxis shape f)) (faceIdx shape f) = true ∧
        faceNum shape (faceAxis shape f) (faceIdx shape f) = f) ∧
    (∀ a idx, a < shape.length → inBox (fshape shape a) idx = true →
      faceNum shape a idx < numFaces shape ∧ faceAxis shape (faceNum shape a idx) = a ∧
        faceIdx shape (faceNum shape a idx) = idx) :=
  ⟨fun f h => ⟨(faceAxis_spec shape f h).1, faceIdx_inBox shape f h, faceNum_faceIdx shape f h⟩,
   fun a idx ha hb => ⟨faceNum_lt shape idx a ha hb, faceAxis_faceNum shape idx a ha hb, faceIdx_faceNum shape idx a ha hb⟩⟩

/-- `faces[a]` (the code's list `offset a + arange(num_faces_per_axis[a])`) is exactly the set of face numbers whose
normal axis is `a`. -/
theorem faces_of_axis (shape : List Nat) (a f : Nat) (ha : a < shape.length) :
    f ∈ facesOf shape a ↔ (f < numFaces shape ∧ faceAxis shape f = a) := by
  simp only [facesOf, List.mem_map, List.mem_range]
  constructor
  · rintro ⟨k, hk, rfl⟩
    have h1 : offset shape a ≤ offset shape a + k := by omega
    have h2 : offset shape a + k < offset shape (a + 1) := by simp only [offset]; omega
    have h3 := offset_mono shape (show a + 1 ≤ shape.length by omega)
    have hlt : offset shape a + k < numFaces shape := by unfold numFaces; omega
    have sp := faceAxis_spec shape _ hlt
    exact ⟨hlt, axis_unique shape _ _ _ sp.2.1 sp.2.2 h1 h2⟩
  · rintro ⟨hf, rfl⟩
    have sp := faceAxis_spec shape f hf
    refine ⟨f - offset shape (faceAxis shape f), ?_, by omega⟩
    have : offset shape (faceAxis shape f + 1) = offset shape (faceAxis shape f) + nfa shape (faceAxis shape f) := rfl
    omega

/-- Face counts follow from the shape: `(n_a - 1) · Π_{b≠a} n_b` per axis, and their sum in total. -/
theorem num_faces_formula (shape : List Nat) :
    (∀ a, a < shape.length → nfa shape a = (shape.getD a 0 - 1) * prodL (shape.eraseIdx a)) ∧
    numFaces shape = ((List.range shape.length).map (nfa shape)).sum := by
  refine ⟨fun a ha => prodL_fshape shape a ha, ?_⟩
  unfold numFaces
  generalize shape.length = d
  induction d with
  | zero => simp [offset]
  | succ d ih => simp [offset, List.range_succ, ih]

/-- Each face joins exactly two cells that are neighbours along the face's normal axis, listed in increasing order:
`conn f = (encF idx, encF (idx + e_a))`, both cells exist, the second is the first plus the stride of axis `a`
(hence larger), and their multi-indices differ by exactly `e_a`. -/
theorem conn_neighbors (shape : List Nat) (f : Nat) (hf : f < numFaces shape) :
    conn shape f = (encF shape (faceIdx shape f), encF shape (bump (faceIdx shape f) (faceAxis shape f))) ∧
    (conn shape f).1 < numCells shape ∧ (conn shape f).2 < numCells shape ∧
    (conn shape f).2 = (conn shape f).1 + stride shape (faceAxis shape f) ∧
    (conn shape f).1 < (conn shape f).2 ∧
    decF shape (conn shape f).2 = bump (decF shape (conn shape f).1) (faceAxis shape f) := by
  have sp := faceAxis_spec shape f hf
  have hb := faceIdx_inBox shape f hf
  have hlo := inBox_of_fshape shape _ _ sp.1 hb
  have hhi := inBox_bump shape _ _ sp.1 hb
  have hlen := inBox_length _ _ hlo
  have e := encF_bump shape (faceIdx shape f) (faceAxis shape f) sp.1 hlen
  have l1 := encF_lt shape _ hlo
  have l2 := encF_lt shape _ hhi
  have hs := stride_pos shape (faceAxis shape f) (by omega)
  refine ⟨rfl, l1, l2, e, ?_, ?_⟩
  · show encF shape _ < encF shape _
    omega
  · show decF shape (encF shape _) = bump (decF shape (encF shape _)) _
    rw [decF_encF _ _ hhi, decF_encF _ _ hlo]

/-- The cell-to-face lookup is the exact inverse of the face-to-cell connectivity: the upper face (side 1) of cell
`c` along axis `a` is `f` iff `f` is a face of axis `a` whose first cell is `c`; the lower face (side 0) is `f` iff
`f` is a face of axis `a` whose second cell is `c`. -/
theorem rev_conn_inverse (shape : List Nat) (a c f : Nat) (ha : a < shape.length) (hc : c < numCells shape) :
    (rev shape a c 1 = (f : Int) ↔ (f < numFaces shape ∧ faceAxis shape f = a ∧ (conn shape f).1 = c)) ∧
    (rev shape a c 0 = (f : Int) ↔ (f < numFaces shape ∧ faceAxis shape f = a ∧ (conn shape f).2 = c)) := by
  have hidx := decF_inBox shape c hc
  have hec := encF_decF shape c hc
  constructor
  · simp only [rev, Nat.one_ne_zero, if_false]
    constructor
    · intro h
      split at h
      · rename_i hlt
        have hb := (inBox_fshape shape (decF shape c) a ha).2 ⟨hidx, hlt⟩
        have : faceNum shape a (decF shape c) = f := by exact_mod_cast h
        subst this
        refine ⟨faceNum_lt shape _ a ha hb, faceAxis_faceNum shape _ a ha hb, ?_⟩
        show encF shape (faceIdx shape _) = c
        rw [faceIdx_faceNum shape _ a ha hb, hec]
      · omega
    · rintro ⟨hf, rfl, h3⟩
      have hb := faceIdx_inBox shape f hf
      have hlo := inBox_of_fshape shape _ _ ha hb
      have hd : decF shape c = faceIdx shape f := by
        rw [← h3]; exact decF_encF _ _ hlo
      rw [hd, if_pos ((inBox_fshape shape _ _ ha).1 hb).2, faceNum_faceIdx shape f hf]
  · simp only [rev, if_true]
    constructor
    · intro h
      split at h
      · rename_i h1
        have hb := inBox_unbump shape (decF shape c) a ha hidx h1
        have : faceNum shape a (unbump (decF shape c) a) = f := by exact_mod_cast h
        subst this
        refine ⟨faceNum_lt shape _ a ha hb, faceAxis_faceNum shape _ a ha hb, ?_⟩
        show encF shape (bump (faceIdx shape _) (faceAxis shape _)) = c
        rw [faceIdx_faceNum shape _ a ha hb, faceAxis_faceNum shape _ a ha hb, bump_unbump _ _ h1, hec]
      · omega
    · rintro ⟨hf, rfl, h3⟩
      have hb := faceIdx_inBox shape f hf
      have hhi := inBox_bump shape _ _ ha hb
      have hlen : faceAxis shape f < (faceIdx shape f).length := by
        rw [inBox_length _ _ (inBox_of_fshape shape _ _ ha hb)]; exact ha
      have hd : decF shape c = bump (faceIdx shape f) (faceAxis shape f) := by
        rw [← h3]; exact decF_encF _ _ hhi
      have h1 : 1 ≤ (decF shape c).getD (faceAxis shape f) 0 := by
        rw [hd, getD_bump_self _ _ hlen]; omega
      rw [if_pos h1, hd, unbump_bump, faceNum_faceIdx shape f hf]

/-- **The tables as the code builds them.** `connectivity` assembled the way `Grid._setup` does it — zeros, then per axis
and column one assignment `connectivity[faces[a], side] = ravel(cell_index[shifted slice], "F")` (`connTable`) — is
entry by entry the pointwise `conn`; so every statement about `conn` is a statement about the constructed array. -/
theorem conn_table_eq (shape : List Nat) (f : Nat) (hf : f < numFaces shape) :
    (connTable shape 0).length = numFaces shape ∧ (connTable shape 1).length = numFaces shape ∧
    (connTable shape 0).getD f 0 = (conn shape f).1 ∧ (connTable shape 1).getD f 0 = (conn shape f).2 :=
  ⟨connFold_length shape 0 _, connFold_length shape 1 _, (connTable_eq shape f hf).1, (connTable_eq shape f hf).2⟩

/-- `reverse_connectivity[a]` assembled the way the code does it — all `-1`, then
`rev[a, ravel(cell_index[1: along a]), 0] = faces[a]` and `rev[a, ravel(cell_index[:-1 along a]), 1] = faces[a]`
(`revTable`) — is entry by entry the pointwise `rev`. -/
theorem rev_table_eq (shape : List Nat) (a c : Nat) (ha : a < shape.length) (hc : c < numCells shape) :
    (revTable shape a 0).getD c (-1) = rev shape a c 0 ∧ (revTable shape a 1).getD c (-1) = rev shape a c 1 :=
  revTable_eq shape a c ha hc

/-- hence the constructed cell-to-face table is the exact inverse of the constructed face-to-cell table -/
theorem rev_table_inverse (shape : List Nat) (a c f : Nat) (ha : a < shape.length) (hc : c < numCells shape) :
    ((revTable shape a 1).getD c (-1) = (f : Int) ↔
      (f < numFaces shape ∧ faceAxis shape f = a ∧ (connTable shape 0).getD f 0 = c)) ∧
    ((revTable shape a 0).getD c (-1) = (f : Int) ↔
      (f < numFaces shape ∧ faceAxis shape f = a ∧ (connTable shape 1).getD f 0 = c)) := by
  obtain ⟨r0, r1⟩ := revTable_eq shape a c ha hc
  obtain ⟨i1, i0⟩ := rev_conn_inverse shape a c f ha hc
  rw [r0, r1]
  constructor
  · rw [i1]
    constructor
    · rintro ⟨h1, h2, h3⟩; exact ⟨h1, h2, by rw [(connTable_eq shape f h1).1]; exact h3⟩
    · rintro ⟨h1, h2, h3⟩; exact ⟨h1, h2, by rw [← (connTable_eq shape f h1).1]; exact h3⟩
  · rw [i0]
    constructor
    · rintro ⟨h1, h2, h3⟩; exact ⟨h1, h2, by rw [(connTable_eq shape f h1).2]; exact h3⟩
    · rintro ⟨h1, h2, h3⟩; exact ⟨h1, h2, by rw [← (connTable_eq shape f h1).2]; exact h3⟩

/-- 'no face' (`-1`) is reported exactly on the outer boundary: below iff the cell is in the first layer along the
axis, above iff it is in the last layer. -/
theorem rev_none_iff_boundary (shape : List Nat) (a c : Nat) (ha : a < shape.length) (hc : c < numCells shape) :
    (rev shape a c 0 = -1 ↔ (decF shape c).getD a 0 = 0) ∧
    (rev shape a c 1 = -1 ↔ (decF shape c).getD a 0 + 1 = shape.getD a 0) := by
  have hlt := inBox_getD_lt shape _ a ha (decF_inBox shape c hc)
  constructor
  · simp only [rev, if_true]
    split <;> omega
  · simp only [rev, Nat.one_ne_zero, if_false]
    split <;> omega

/-- (near-definitional: `exteriorFaces` is defined, like in the code, as the faces of the axis that are not interior) Interior and
exterior faces partition the faces of each axis; `faces_nodup` adds that no face is listed twice. -/
theorem interior_exterior_partition (shape : List Nat) (a : Nat) :
    (∀ f, f ∈ interiorFaces shape a → f ∈ facesOf shape a) ∧
    (∀ f, f ∈ exteriorFaces shape a → f ∈ facesOf shape a) ∧
    (∀ f, f ∈ facesOf shape a → (f ∈ interiorFaces shape a ∨ f ∈ exteriorFaces shape a)) ∧
    (∀ f, ¬ (f ∈ interiorFaces shape a ∧ f ∈ exteriorFaces shape a)) := by
  refine ⟨?_, ?_, ?_, ?_⟩
  · intro f hf
    simp only [interiorFaces, boxF, List.mem_map, List.mem_filter, List.mem_range] at hf
    obtain ⟨idx, ⟨⟨k, hk, rfl⟩, _⟩, rfl⟩ := hf
    simp only [facesOf, List.mem_map, List.mem_range]
    exact ⟨k, hk, by simp [faceNum, encF_decF _ _ hk]⟩
  · intro f hf
    exact (List.mem_filter.1 hf).1
  · intro f hf
    by_cases h : f ∈ interiorFaces shape a
    · exact Or.inl h
    · refine Or.inr (List.mem_filter.2 ⟨hf, ?_⟩)
      simpa using h
  · rintro f ⟨h1, h2⟩
    have := (List.mem_filter.1 h2).2
    simp [h1] at this

/-- no face is listed twice in `faces[a]`, `interior_faces[a]`, `exterior_faces[a]` -/
theorem faces_nodup (shape : List Nat) (a : Nat) :
    (facesOf shape a).Nodup ∧ (interiorFaces shape a).Nodup ∧ (exteriorFaces shape a).Nodup := by
  have h1 : (facesOf shape a).Nodup :=
    List.Nodup.map (fun x y h => by simpa using h) List.nodup_range
  refine ⟨h1, ?_, List.Nodup.filter _ h1⟩
  have e : interiorFaces shape a =
      ((List.range (nfa shape a)).filter fun k => isInterior shape a (decF (fshape shape a) k)).map fun k => offset shape a + k := by
    simp only [interiorFaces, boxF, List.filter_map, List.map_map]
    refine List.map_congr_left fun k hk => ?_
    have hk' : k < nfa shape a := List.mem_range.1 (List.mem_filter.1 hk).1
    simp [faceNum, encF_decF _ _ hk']
  rw [e]
  exact List.Nodup.map (fun x y h => by simpa using h) (List.Nodup.filter _ List.nodup_range)

/-- In two and more dimensions the interior faces are exactly the faces all of whose tangential neighbour faces
exist, i.e. for every other axis `b` both cells of the face have a lower and an upper face along `b`.
(In 1-D the code slices along the normal axis instead; there are no tangential axes.) -/
theorem interior_iff_tangential_complete (shape idx : List Nat) (a : Nat) (hd : shape.length ≠ 1)
    (ha : a < shape.length) (hb : inBox (fshape shape a) idx = true) :
    isInterior shape a idx = true ↔
      ∀ b, b < shape.length → b ≠ a → ∀ side, side < 2 →
        rev shape b (conn shape (faceNum shape a idx)).1 side ≠ -1 ∧
        rev shape b (conn shape (faceNum shape a idx)).2 side ≠ -1 := by
  have hlo := inBox_of_fshape shape _ _ ha hb
  have hhi := inBox_bump shape _ _ ha hb
  have hc1 : (conn shape (faceNum shape a idx)).1 = encF shape idx := by
    show encF shape (faceIdx shape _) = _
    rw [faceIdx_faceNum shape idx a ha hb]
  have hc2 : (conn shape (faceNum shape a idx)).2 = encF shape (bump idx a) := by
    show encF shape (bump (faceIdx shape _) (faceAxis shape _)) = _
    rw [faceIdx_faceNum shape idx a ha hb, faceAxis_faceNum shape idx a ha hb]
  rw [hc1, hc2]
  simp only [isInterior, interiorAxes, if_neg hd, List.all_eq_true, List.mem_filter, List.mem_range,
    Bool.and_eq_true, decide_eq_true_eq, ne_eq, decide_not, Bool.not_eq_eq_eq_not, Bool.not_true,
    decide_eq_false_iff_not, and_imp]
  constructor
  · intro h b hbl hba side hs
    have hb' := h b hbl hba
    rw [getD_fshape_ne shape a b hba] at hb'
    have r1 := rev_none_iff_boundary shape b (encF shape idx) hbl (encF_lt _ _ hlo)
    have r2 := rev_none_iff_boundary shape b (encF shape (bump idx a)) hbl (encF_lt _ _ hhi)
    rw [decF_encF _ _ hlo] at r1
    rw [decF_encF _ _ hhi, getD_bump_ne idx a b hba] at r2
    have : side = 0 ∨ side = 1 := by omega
    rcases this with rfl | rfl
    · exact ⟨fun e => by have := r1.1.1 e; omega, fun e => by have := r2.1.1 e; omega⟩
    · exact ⟨fun e => by have := r1.2.1 e; omega, fun e => by have := r2.2.1 e; omega⟩
  · intro h b hbl hba
    rw [getD_fshape_ne shape a b hba]
    have r1 := rev_none_iff_boundary shape b (encF shape idx) hbl (encF_lt _ _ hlo)
    rw [decF_encF _ _ hlo] at r1
    have hlt := inBox_getD_lt shape idx b hbl hlo
    have h0 := (h b hbl hba 0 (by omega)).1
    have h1 := (h b hbl hba 1 (by omega)).1
    constructor
    · rcases Nat.eq_zero_or_pos (idx.getD b 0) with e | e
      · exact absurd (r1.1.2 e) h0
      · exact e
    · rcases Nat.lt_or_ge (idx.getD b 0 + 1) (shape.getD b 0) with e | e
      · exact e
      · exact absurd (r1.2.2 (by omega)) h1

/-- **1-D convention of the code, as it is**: `interior_faces[0] = face_index[0][1:-1]` slices the normal axis itself (there
are no tangential axes), so the interior faces of the grid `[n]` are the faces `1 … n-3`: all but the first and the last.
This is a different notion from the ≥ 2-D one (`interior_iff_tangential_complete`). -/
theorem interior_1d (n k : Nat) : k ∈ interiorFaces [n] 0 ↔ (1 ≤ k ∧ k + 3 ≤ n) := by
  have hfs : fshape [n] 0 = [n - 1] := rfl
  have henc : ∀ i, encF [n - 1] [i] = i := by intro i; simp [encF]
  simp only [interiorFaces, hfs, boxF, prodL, List.mem_map, List.mem_filter, List.mem_range, Nat.mul_one]
  constructor
  · rintro ⟨idx, ⟨⟨j, hj, rfl⟩, hint⟩, rfl⟩
    simp only [decF] at hint ⊢
    simp [isInterior, interiorAxes, hfs, Nat.mod_eq_of_lt hj] at hint
    simp [faceNum, offset, hfs, henc, Nat.mod_eq_of_lt hj]
    omega
  · rintro ⟨h1, h2⟩
    refine ⟨[k], ⟨⟨k, by omega, by simp [decF, Nat.mod_eq_of_lt (by omega : k < n - 1)]⟩, ?_⟩, ?_⟩
    · simp [isInterior, interiorAxes, hfs]; omega
    · simp [faceNum, offset, hfs, henc]

/-- the guard is exactly "1 to 3 axes, all extents positive, one voxel size per axis" -/
theorem grid_guard_ok (shape : List Nat) (h : List Rat) :
    gridGuard shape h = .ok () ↔
      (h.length = shape.length ∧ 1 ≤ shape.length ∧ shape.length ≤ 3 ∧ ∀ n ∈ shape, n ≠ 0) := by
  unfold gridGuard
  by_cases h1 : h.length < shape.length ∧ 2 ≤ shape.length
  · rw [if_pos h1]; constructor
    · intro e; cases e
    · rintro ⟨e, _⟩; omega
  rw [if_neg h1]
  by_cases h2 : h.length ≠ shape.length
  · rw [if_pos h2]; constructor
    · intro e; cases e
    · rintro ⟨e, _⟩; exact absurd e h2
  rw [if_neg h2]
  by_cases hz : 2 ≤ shape.countP (fun n => n == 0)
  · rw [if_pos hz]; constructor
    · intro e; cases e
    · rintro ⟨_, _, _, hne⟩
      have : shape.countP (fun n => n == 0) = 0 := List.countP_eq_zero.2 fun n hn => by simpa using hne n hn
      omega
  rw [if_neg hz]
  by_cases h3 : shape.length = 0 ∨ 3 < shape.length
  · rw [if_pos h3]; constructor
    · intro e; cases e
    · rintro ⟨_, a, b, _⟩; omega
  rw [if_neg h3]
  by_cases h4 : shape.any (fun n => n == 0) = true
  · rw [if_pos h4]; constructor
    · intro e; cases e
    · rintro ⟨_, _, _, hz⟩
      obtain ⟨n, hn, e⟩ := List.any_eq_true.1 h4
      exact absurd (by simpa using e) (hz n hn)
  · rw [if_neg h4]
    refine ⟨fun _ => ⟨by omega, by omega, by omega, fun n hn e => h4 (List.any_eq_true.2 ⟨n, hn, by simp [e]⟩)⟩, fun _ => rfl⟩

theorem voxelSize_cons (D : Rat) (Ds : List Rat) (n : Nat) (ns : List Nat) (k : Nat) :
    (List.range (k + 1)).map (fun p => listGetD (D :: Ds) p 0 / ((listGetD (n :: ns) p 0 : Nat) : Rat)) =
      (D / (n : Rat)) :: (List.range k).map (fun p => listGetD Ds p 0 / ((listGetD ns p 0 : Nat) : Rat)) := by
  rw [List.range_succ_eq_map]
  simp [listGetD, List.map_map, Function.comp_def]

theorem vol_times_cells : ∀ (dims : List Rat) (shape : List Nat), dims.length = shape.length → (∀ n ∈ shape, 0 < n) →
    prodR ((List.range shape.length).map fun p => listGetD dims p 0 / ((listGetD shape p 0 : Nat) : Rat)) *
      ((prodL shape : Nat) : Rat) = prodR dims
  | [], [], _, _ => by simp [prodR, prodL]
  | [], _ :: _, h, _ => by simp at h
  | _ :: _, [], h, _ => by simp at h
  | D :: Ds, n :: ns, h, hp => by
    have ih := vol_times_cells Ds ns (by simpa using h) (fun m hm => hp m (by simp [hm]))
    have hn : ((n : Nat) : Rat) ≠ 0 := by
      have := hp n (by simp); exact_mod_cast this.ne'
    rw [List.length_cons, voxelSize_cons]
    simp only [prodR, prodL]
    push_cast
    rw [← ih]
    field_simp

/-- **`generate_grid`**: for an image geometry with one positive extent and one length per axis (1–3 axes; nothing is assumed of
the origin, which `generate_grid` does not read) the derived grid is accepted by the constructor guard, has the image's voxel
shape, and its voxel volume times its number of cells is the physical volume of the image, `Π dimensions`. -/
theorem generate_grid_volume (cs : CS) (hs : cs.shape.length = cs.dim.toNat) (hd : cs.dims.length = cs.dim.toNat)
    (hp : ∀ s ∈ cs.shape, 0 < s) :
    gridGuard (generateGrid cs).1 (generateGrid cs).2 = .ok () ∧ (generateGrid cs).1 = cs.shape ∧
    vol (generateGrid cs).2 * ((numCells (generateGrid cs).1 : Nat) : Rat) = prodR cs.dims := by
  have hlen : cs.voxelSize.length = cs.shape.length := by simp [CS.voxelSize, hs]
  have hdim : 1 ≤ cs.dim.toNat ∧ cs.dim.toNat ≤ 3 := by cases cs.dim <;> simp [Dim.toNat]
  refine ⟨?_, rfl, ?_⟩
  · rw [grid_guard_ok]
    have e : (generateGrid cs).1.length = cs.dim.toNat := hs
    refine ⟨hlen, by rw [e]; exact hdim.1, by rw [e]; exact hdim.2, fun n hn => ?_⟩
    have := hp n hn; omega
  · simp only [generateGrid, vol, numCells, CS.voxelSize, CS.h]
    rw [← hs]
    exact vol_times_cells cs.dims cs.shape (by rw [hd, hs]) hp

/-- non-vacuity: a 4×2 image of size 2×3 — the state the `gengrid` driver op builds -/
example : let cs : CS := { dim := .d2, shape := [4, 2], dims := [2, 3], origin := [0, 0] }
    generateGrid cs = ([4, 2], [1/2, 3/2]) ∧ vol (generateGrid cs).2 * ((numCells (generateGrid cs).1 : Nat) : Rat) = 6 := by
  decide +kernel

/-- The corner indices recorded for a face (tables re-tabulated from the running code) denote reference-cell corners
that lie on that face: in the lower neighbour (side 0) the face is the side `x_a = 1`, in the upper neighbour (side 1)
the side `x_a = 0`; each list has `2^(dim-1)` distinct entries that are valid corner numbers. -/
theorem corners_on_face :
    ∀ dim ∈ [1, 2, 3], ∀ a ∈ List.range dim, ∀ side ∈ [0, 1],
      (Gen.cornerIdx dim a side).length = 2 ^ (dim - 1) ∧ (Gen.cornerIdx dim a side).Nodup ∧
      ∀ k ∈ Gen.cornerIdx dim a side, k < (Gen.cellCorners dim).length ∧
        ((Gen.cellCorners dim).getD k []).getD a 2 = 1 - side := by decide

/-- the reference cell has `2^dim` distinct corners with coordinates 0/1 in every direction -/
theorem reference_cell_corners :
    ∀ dim ∈ [1, 2, 3], (Gen.cellCorners dim).length = 2 ^ dim ∧ (Gen.cellCorners dim).Nodup ∧
      ∀ p ∈ Gen.cellCorners dim, p.length = dim ∧ ∀ x ∈ p, x ≤ 1 := by decide

/-! ### non-vacuity -/

example : numFaces [3, 2] = 7 ∧ conn [3, 2] 5 = (1, 4) ∧ rev [3, 2] 1 1 1 = 5 ∧ rev [3, 2] 1 4 0 = 5 ∧
    rev [3, 2] 0 0 0 = -1 := by decide
example : interiorFaces [3, 4] 0 = [2, 3, 4, 5] ∧ exteriorFaces [3, 4] 0 = [0, 1, 6, 7] := by decide
example : isInterior [3, 4] 0 [0, 1] = true ∧ inBox (fshape [3, 4] 0) [0, 1] = true := by decide
example : connTable [3, 2] 0 = [0, 1, 3, 4, 0, 1, 2] ∧ connTable [3, 2] 1 = [1, 2, 4, 5, 3, 4, 5] ∧
    revTable [3, 2] 1 0 = [-1, -1, -1, 4, 5, 6] := by decide
/-- single-cell axes are covered: a 1×3 grid has faces only along axis 1 -/
example : nfa [1, 3] 0 = 0 ∧ nfa [1, 3] 1 = 2 ∧ faceAxis [1, 3] 0 = 1 ∧ conn [1, 3] 1 = (1, 2) := by decide

end Darsia.C07
