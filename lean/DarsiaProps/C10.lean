/-
C10 — every correction honours the copy / in-place / array / series contract.

PARTIAL: the theorems are about the shared workflow `BaseCorrection.__call__` for an arbitrary *pure*
`correct_array` f, optional `correct_array_series`, and declared metadata update g. Full statement of the
property: "for each correction class … without overwrite leaves the input untouched and returns an image of the
same kind whose pixel data equals the correction applied to the raw array and whose metadata is the input's plus
the declared updates; with overwrite it modifies and returns the very same object with the same result; on a
series the result equals applying the correction to each slice; neutral parameters leave pixel values
unchanged." What is missing from the proof and only observed on the implementation by the check: that each
concrete `correct_array` is pure (does not mutate or alias its argument, has no history dependence) and that
neutral parameters make it the identity on pixel values.
-/
import DarsiaModel.Correction
import DarsiaModel.Corrections
import DarsiaProofs.Corrections
import DarsiaProps.C09
import DarsiaModel.CorrHeap
import DarsiaModel.Corrections2
import DarsiaProofs.CorrHeap
namespace Darsia.C10
open Darsia.Correction

variable {Arr Meta : Type}

/-- (definitional unfolding of the specification-level model `Corr.callImage`; the operational counterparts are the
`heap_*` theorems below.) copy mode: the input object is untouched, the result is a new object of the same kind with data
`f` applied and metadata = input's overridden by the declared update. -/
theorem copy_mode_partial (c : Corr Arr Meta) (o : Obj Arr Meta) (fresh : Nat) (h : fresh ≠ o.tag) :
    let r := c.callImage o false fresh
    r.2 = o ∧ r.1.tag ≠ o.tag ∧ r.1.kind = o.kind ∧ r.1.data = c.onData o.data ∧
      r.1.md = c.upd o.md (c.g o.md) := by
  simp [Corr.callImage, h]

/-- (definitional unfolding, see above.) overwrite mode: the very same object is returned (and is the input afterwards), with the same
data and metadata as copy mode would have produced. -/
theorem overwrite_mode_partial (c : Corr Arr Meta) (o : Obj Arr Meta) (fresh : Nat) :
    let r := c.callImage o true fresh
    r.1 = r.2 ∧ r.1.tag = o.tag ∧ r.1.kind = o.kind ∧
      r.1.data = (c.callImage o false fresh).1.data ∧ r.1.md = (c.callImage o false fresh).1.md := by
  simp [Corr.callImage]

/-- a series is corrected slice by slice (unless the class declares a whole-series routine): same number of
slices, slice t of the result is `f` of slice t of the input. -/
theorem series_per_slice_partial (c : Corr Arr Meta) (h : c.fSeries = none) (sl : List Arr) :
    ∃ out, c.onData (.series sl) = .series out ∧ out.length = sl.length ∧
      ∀ t (ht : t < sl.length) (ht' : t < out.length), out[t] = c.f sl[t] := by
  refine ⟨sl.map c.f, ?_, by simp, ?_⟩
  · simp [Corr.onData, h]
  · intro t ht ht'; simp

/-- (definitional, `rfl`.) arrays: result = `correct_array` of the array, whatever the overwrite flag; the operational
statement incl. the copy is `heap_array_copy_untouched`. -/
theorem array_mode_def (c : Corr Arr Meta) (a : Arr) (ow : Bool) : c.callArray a ow = c.f a := rfl

/-- neutral parameters (f = id, no whole-series routine): pixel data unchanged, for single images and series,
in both modes. -/
theorem neutral_is_identity_partial (c : Corr Arr Meta) (hf : c.f = id) (hs : c.fSeries = none)
    (o : Obj Arr Meta) (ow : Bool) (fresh : Nat) : (c.callImage o ow fresh).1.data = o.data := by
  have : c.onData o.data = o.data := by
    cases hd : o.data with
    | single a => simp [Corr.onData, hf]
    | series sl => simp [Corr.onData, hs, hf]
  cases ow <;> simp [Corr.callImage, this]

/-- (definitional unfolding; no DarSIA class defines `correct_array_series`, so this branch is tied by the toy correction only.)
the whole-series routine, when declared, takes precedence over the per-slice loop. -/
theorem series_routine_precedence (c : Corr Arr Meta) (fs : List Arr → List Arr) (h : c.fSeries = some fs)
    (sl : List Arr) : c.onData (.series sl) = .series (fs sl) := by
  simp [Corr.onData, h]

/-! non-vacuity: a non-trivial correction on a two-slice series -/
example : (({ f := fun a : Nat => a + 1, fSeries := none, g := fun m : Nat => m, upd := fun _ u => u } :
    Corr Nat Nat).callImage ⟨7, .scalar, .series [1, 2], 0⟩ false 8).1.data = .series [2, 3] := by decide
example : (({ f := fun a : Nat => a + 1, fSeries := none, g := fun m : Nat => m, upd := fun _ u => u } :
    Corr Nat Nat).callImage ⟨7, .scalar, .series [1, 2], 0⟩ true 8).1.tag = 7 := by decide

/-! ## Round 2: concrete corrections (DarSIA's own index logic) — purity, neutrality, series, as theorems about the
concrete models of `DarsiaModel.Corrections` (no `_partial`: the array function itself is modelled and tied exactly). -/

section concrete
open Darsia.Corrections Darsia.Affine Darsia.Warp

/-- TypeCorrection reads only its argument: arrays that agree (dtype, shape, values in the box) convert to arrays
that agree — including skimage's data-dependent "fits without scaling" branch (uint16 → uint8). -/
theorem type_pure (t : DT) (a b : TArr) (h : a.agree b) : (typeCorr t a).agree (typeCorr t b) := by
  obtain ⟨hd, hs⟩ := h
  have hm := maxVal_congr _ _ hs
  obtain ⟨h0, h1, hv⟩ := hs
  refine ⟨rfl, h0, h1, ?_⟩
  intro i j hi0 hi1 hj0 hj1
  simp only [typeCorr, hd, hm, hv i j hi0 hi1 hj0 hj1]

/-- neutral TypeCorrection (target = the array's own dtype) is the identity. -/
theorem type_neutral (a : TArr) : (typeCorr a.dt a).agree a := by
  refine ⟨rfl, rfl, rfl, ?_⟩
  intro i j _ _ _ _
  simp only [typeCorr, convVal]
  cases a.dt <;> rfl

/-- conversion to float and back is the identity on uint8 / uint16 payloads (the scaling is exact). -/
theorem type_roundtrip_u8 (x : Int) (h0 : 0 ≤ x) (h1 : x ≤ 255) (fits : Bool) :
    convVal .f64 .u8 fits (convVal .u8 .f64 fits (x : Rat)) = (x : Rat) := by
  simp only [convVal]
  have e : ((x : Rat) / 255 * 255) = (x : Rat) := by field_simp
  have r : rintRat (x : Rat) = x := by
    unfold rintRat
    simp only [floor_int, sub_self]
    rw [if_pos (by unfold half; norm_num)]
  rw [e, r, clipInt]; congr 1; omega

/-- TranslationCorrection (whole pixels): pure, zero translation and the inactive flag are the identity. -/
theorem trans_pure (active : Bool) (tx ty : Int) (a b : TArr) (h : a.agree b) :
    (transCorrInt active tx ty a).agree (transCorrInt active tx ty b) := by
  cases active
  · simpa [transCorrInt] using h
  · obtain ⟨hd, h0, h1, hv⟩ := h
    refine ⟨hd, h0, h1, ?_⟩
    intro i j hi0 hi1 hj0 hj1
    simp only [transCorrInt, if_true, shift2, ← h0, ← h1]
    split
    · rename_i hc; exact hv _ _ hc.1 hc.2.1 hc.2.2.1 hc.2.2.2
    · rfl

theorem trans_neutral (active : Bool) (a : TArr) : (transCorrInt active 0 0 a).agree a := by
  cases active
  · exact TArr.agree_refl a
  · refine ⟨rfl, rfl, rfl, ?_⟩
    intro i j hi0 hi1 hj0 hj1
    simp only [transCorrInt, if_true, shift2, sub_zero]
    rw [if_pos ⟨hi0, hi1, hj0, hj1⟩]

theorem trans_inactive_def (tx ty : Int) (a : TArr) : transCorrInt false tx ty a = a := rfl

/-- an active whole-pixel translation IS the zero-filled shift by (ty, tx) rows / columns. -/
theorem trans_is_shift_def (tx ty : Int) (a : TArr) (i j : Int) :
    (transCorrInt true tx ty a).arr.get i j = shift2 0 a.arr.n0 a.arr.n1 ty tx a.arr.get i j := rfl

/-- inactive DriftCorrection returns its argument. -/
theorem drift_inactive_def (a : TArr) : driftInactive a = a := rfl

/-- RotationCorrection's warp reads only values inside the box (the clip keeps every source index inside),
for any anchor and any matrix. -/
theorem rot2_pure (anchor : V2 Rat) (Rinv : M2 Rat) (a b : TArr) (h : a.agree b) :
    (rotCorr2 anchor Rinv a).agree (rotCorr2 anchor Rinv b) := by
  obtain ⟨_, h0, h1, hv⟩ := h
  refine ⟨rfl, h0, h1, ?_⟩
  intro i j hi0 hi1 hj0 hj1
  replace hi1 : i < (a.arr.n0 : Int) := hi1
  replace hj1 : j < (a.arr.n1 : Int) := hj1
  simp only [rotCorr2, rotSrc2, ← h0, ← h1]
  have hn0 : 0 < a.arr.n0 := by omega
  have hn1 : 0 < a.arr.n1 := by omega
  exact hv _ _ (clipInt_bounds _ _ hn0).1 (clipInt_bounds _ _ hn0).2 (clipInt_bounds _ _ hn1).1
    (clipInt_bounds _ _ hn1).2

/-- zero angle (R_inv = I), any rational anchor: pixel values unchanged (the result is declared float64). -/
theorem rot2_neutral (anchor : V2 Rat) (a : TArr) :
    (rotCorr2 anchor (rot2Inv 1 0) a).dt = .f64 ∧ (rotCorr2 anchor (rot2Inv 1 0) a).arr.agree a.arr := by
  refine ⟨rfl, rfl, rfl, ?_⟩
  intro i j hi0 hi1 hj0 hj1
  replace hi1 : i < (a.arr.n0 : Int) := hi1
  replace hj1 : j < (a.arr.n1 : Int) := hj1
  simp only [rotCorr2, rotSrc2, rot2Inv, M2.mulVec, V2.add, V2.sub]
  have e0 : anchor.x + (1 * ((i : Rat) - anchor.x) + 0 * ((j : Rat) - anchor.y)) = (i : Rat) := by ring
  have e1 : anchor.y + (-0 * ((i : Rat) - anchor.x) + 1 * ((j : Rat) - anchor.y)) = (j : Rat) := by ring
  rw [e0, e1, trunc_int, trunc_int, clipInt_id i _ hi0 hi1, clipInt_id j _ hj0 hj1]

theorem rot3_pure (anchor : V3 Rat) (Rinv : M3 Rat) (a b : TArr3) (h : a.agree b) :
    (rotCorr3 anchor Rinv a).agree (rotCorr3 anchor Rinv b) := by
  obtain ⟨_, h0, h1, h2, hv⟩ := h
  refine ⟨rfl, h0, h1, h2, ?_⟩
  intro i j k hi0 hi1 hj0 hj1 hk0 hk1
  replace hi1 : i < (a.arr.n0 : Int) := hi1
  replace hj1 : j < (a.arr.n1 : Int) := hj1
  replace hk1 : k < (a.arr.n2 : Int) := hk1
  simp only [rotCorr3, rotSrc3, ← h0, ← h1, ← h2]
  have hn0 : 0 < a.arr.n0 := by omega
  have hn1 : 0 < a.arr.n1 := by omega
  have hn2 : 0 < a.arr.n2 := by omega
  exact hv _ _ _ (clipInt_bounds _ _ hn0).1 (clipInt_bounds _ _ hn0).2 (clipInt_bounds _ _ hn1).1
    (clipInt_bounds _ _ hn1).2 (clipInt_bounds _ _ hn2).1 (clipInt_bounds _ _ hn2).2

theorem rot3_neutral (anchor : V3 Rat) (a : TArr3) :
    (rotCorr3 anchor (rotationInv ([] : List (Factor Rat))) a).arr.agree a.arr := by
  refine ⟨rfl, rfl, rfl, ?_⟩
  intro i j k hi0 hi1 hj0 hj1 hk0 hk1
  replace hi1 : i < (a.arr.n0 : Int) := hi1
  replace hj1 : j < (a.arr.n1 : Int) := hj1
  replace hk1 : k < (a.arr.n2 : Int) := hk1
  simp only [rotCorr3, rotSrc3, rotationInv, rotationLoop, List.foldl_nil, M3.one, M3.mulVec, V3.add, V3.sub]
  have e0 : anchor.x + (1 * ((i : Rat) - anchor.x) + 0 * ((j : Rat) - anchor.y) + 0 * ((k : Rat) - anchor.z))
      = (i : Rat) := by ring
  have e1 : anchor.y + (0 * ((i : Rat) - anchor.x) + 1 * ((j : Rat) - anchor.y) + 0 * ((k : Rat) - anchor.z))
      = (j : Rat) := by ring
  have e2 : anchor.z + (0 * ((i : Rat) - anchor.x) + 0 * ((j : Rat) - anchor.y) + 1 * ((k : Rat) - anchor.z))
      = (k : Rat) := by ring
  rw [e0, e1, e2, trunc_int, trunc_int, trunc_int, clipInt_id i _ hi0 hi1, clipInt_id j _ hj0 hj1,
    clipInt_id k _ hk0 hk1]

/-- TransformationCorrection reads only values inside the source box (guard: the array has the shape of the source
coordinate system — otherwise the real code indexes out of range or reads other voxels). -/
theorem transf_pure (mode : Mode) (T : Affine2 Rat) (csS csD : CS2) (rnd : Rounding) (a b : TArr)
    (h : a.agree b) (hs0 : a.arr.n0 = csS.n0) (hs1 : a.arr.n1 = csS.n1) :
    (transfCorr mode T csS csD rnd a).agree (transfCorr mode T csS csD rnd b) := by
  obtain ⟨hd, _, _, hv⟩ := h
  refine ⟨hd, rfl, rfl, ?_⟩
  intro i j _ _ _ _
  simp only [transfCorr, warp2]
  split
  · rename_i hvld
    simp only [CS2.valid, Bool.and_eq_true, decide_eq_true_eq] at hvld
    exact hv _ _ hvld.1.1.1 (by rw [hs0]; exact hvld.1.1.2) hvld.1.2 (by rw [hs1]; exact hvld.2)
  · rfl

/-- identity map, same system: pixel values and dtype unchanged (all modes, either rounding). -/
theorem transf_neutral (mode : Mode) (cs : CS2) (rnd : Rounding) (h0 : cs.h0 ≠ 0) (h1 : cs.h1 ≠ 0) (a : TArr)
    (hs0 : a.arr.n0 = cs.n0) (hs1 : a.arr.n1 = cs.n1) :
    (transfCorr mode (Affine2.mk' ⟨0, 0⟩ 1 1 0) cs cs rnd a).agree a := by
  refine ⟨rfl, hs0.symm, hs1.symm, ?_⟩
  intro i j hi0 hi1 hj0 hj1
  exact C09.warp_identity_2d 0 rnd mode cs h0 h1 a.arr.get i j hi0 hj0 hi1 hj1

/-- (constant-cache induction: with FIXED parameters and systems the cache is `mkCache` by definition, so every step is `rfl`;
the statement that matters - the cache follows parameter changes - is `C09.warp_cache_tracks_parameters`.) the per-object warp
cache is transparent for array histories: a call returns exactly what a fresh object returns. -/
theorem transf_cache_transparent (mode : Mode) (T : Affine2 Rat) (csS csD : CS2) (rnd : Rounding)
    (hs : List TArr) (a : TArr) :
    transfRun mode T csS csD rnd none hs a = transfCorr mode T csS csD rnd a := by
  have step : ∀ (st : Option Cache) (x : TArr), (st = none ∨ st = some (mkCache mode T csS csD rnd)) →
      (transfStep mode T csS csD rnd st x).1 = some (mkCache mode T csS csD rnd) ∧
      (transfStep mode T csS csD rnd st x).2 = transfCorr mode T csS csD rnd x := by
    intro st x h
    rcases h with rfl | rfl <;> exact ⟨rfl, rfl⟩
  have gen : ∀ (st : Option Cache), (st = none ∨ st = some (mkCache mode T csS csD rnd)) →
      transfRun mode T csS csD rnd st hs a = transfCorr mode T csS csD rnd a := by
    induction hs with
    | nil => intro st h; exact (step st a h).2
    | cons x xs ih => intro st h; simp only [transfRun]; exact ih _ (Or.inr (step st x h).1)
  exact gen none (Or.inl rfl)

/-- (definitional: the same unfolding of the specification-level model `Corr.callImage` as the `_partial` theorems; the
operational statements are the `heap_*` theorems.) the shared workflow with a concrete array function `f` (no whole-series routine, no declared metadata update):
a series is corrected slice by slice with that very `f`, copy mode leaves the input untouched, overwrite mode returns
the same object with the same data; metadata unchanged. Instantiate `f` with `typeCorr t`, `transCorrInt …`,
`rotCorr2 …`, `driftInactive`, `transfCorr …`. -/
theorem concrete_workflow {Meta : Type} (f : TArr → TArr) (o : Correction.Obj TArr Meta) (fresh : Nat)
    (h : fresh ≠ o.tag) :
    ((plainCorr f).callImage o false fresh).2 = o ∧
    ((plainCorr f).callImage o false fresh).1.tag ≠ o.tag ∧
    ((plainCorr f).callImage o true fresh).1.tag = o.tag ∧
    ((plainCorr f).callImage o true fresh).1.data = ((plainCorr f).callImage o false fresh).1.data ∧
    ((plainCorr f).callImage o false fresh).1.md = o.md ∧
    ((plainCorr f).callImage o false fresh).1.data =
      (match o.data with | .single a => .single (f a) | .series sl => .series (sl.map f)) := by
  refine ⟨by simp [Correction.Corr.callImage], by simp [Correction.Corr.callImage, h],
    by simp [Correction.Corr.callImage], by simp [Correction.Corr.callImage],
    by simp [Correction.Corr.callImage, plainCorr], ?_⟩
  cases hd : o.data <;> simp [Correction.Corr.callImage, Correction.Corr.onData, plainCorr, hd]

/-- (trivial: `List.getElem_map` plus the hypothesis.) neutral concrete corrections through the workflow: every slice of the
result agrees with the input slice. -/
theorem concrete_neutral_series (f : TArr → TArr) (hf : ∀ a, (f a).agree a) (sl : List TArr) :
    ∀ t (ht : t < sl.length), ((sl.map f)[t]'(by simpa using ht)).agree sl[t] := by
  intro t ht; simp only [List.getElem_map]; exact hf _

example : (typeCorr .u8 ⟨.u16, ⟨1, 2, fun _ j => if j = 0 then 1000 else 7⟩⟩).arr.get 0 0 = 3 := by decide +kernel
example : (typeCorr .u8 ⟨.u16, ⟨1, 2, fun _ j => if j = 0 then 100 else 7⟩⟩).arr.get 0 0 = 100 := by decide +kernel
example : (rotCorr2 ⟨1, 1⟩ (rot2Inv 0 1) ⟨.u8, ⟨3, 3, fun i j => 3 * i + j⟩⟩).arr.get 0 0 = 2 := by decide +kernel

end concrete

/-! ## Round 3: operational workflow on a heap — `correct_array` may write through its argument -/

section heap
open Darsia.CorrHeap

variable {Meta : Type}

theorem bufOfList_toList (l : List Slice) : (bufOfList l).toList = l := by
  apply List.ext_getElem
  · simp [Buf.toList, bufOfList]
  · intro i h1 h2
    simp [Buf.toList, bufOfList, List.getD_eq_getElem?_getD, List.getElem?_eq_getElem h2]

/-- copy mode on a SERIES, views taken from the working copy (the code now): the input buffer is untouched for EVERY
`correct_array`, pure or not. -/
theorem heap_copy_series_input_untouched (e : Eff) (g : Meta → Meta) (upd : Meta → Meta → Meta) (h : Heap)
    (o : Obj Meta) (fresh : Nat) (hs : o.series = true) (hv : o.buf < h.next) :
    (CorrHeap.callImage .work e g upd h o false fresh).1.buf o.buf = h.buf o.buf := by
  have ha := alloc_spec h (h.buf o.buf)
  have hne : o.buf ≠ h.next := by omega
  simp only [CorrHeap.callImage, workOf, dataStep, hs, if_true, Bool.false_eq_true, if_false]
  have hl := sliceLoop_spec e (h.alloc (h.buf o.buf)).1 (h.alloc (h.buf o.buf)).2
    (((h.alloc (h.buf o.buf)).1.buf (h.alloc (h.buf o.buf)).2).len)
  rw [ha.1] at hl ⊢
  have hn : (sliceLoop e (h.alloc (h.buf o.buf)).1 h.next ((h.alloc (h.buf o.buf)).1.buf h.next).len).1.next = h.next + 1 := by
    rw [hl.1]; rfl
  rw [(alloc_spec _ _).2.2 o.buf (by rw [hn]; omega), hl.2.1 o.buf hne, ha.2.2 o.buf hne]

/-- copy mode on a SERIES, views taken from `image.img` itself (the tree before the fix): the input is untouched IF AND
ONLY IF `correct_array` leaves the contents of every slice it is handed as they are — the real condition hidden behind
the purity assumption of the `_partial` theorems. -/
theorem heap_copy_series_original_iff (e : Eff) (g : Meta → Meta) (upd : Meta → Meta → Meta) (h : Heap)
    (o : Obj Meta) (fresh : Nat) (hs : o.series = true) (hv : o.buf < h.next) :
    (∀ k, k < (h.buf o.buf).len →
        ((CorrHeap.callImage .original e g upd h o false fresh).1.buf o.buf).get k = (h.buf o.buf).get k) ↔
    (∀ k, k < (h.buf o.buf).len → e.after ((h.buf o.buf).get k) = (h.buf o.buf).get k) := by
  have ha := alloc_spec h (h.buf o.buf)
  have hne : o.buf ≠ h.next := by omega
  have h1b : (h.alloc (h.buf o.buf)).1.buf o.buf = h.buf o.buf := ha.2.2 o.buf hne
  have hl := sliceLoop_spec e (h.alloc (h.buf o.buf)).1 o.buf (((h.alloc (h.buf o.buf)).1.buf o.buf).len)
  have hn : (sliceLoop e (h.alloc (h.buf o.buf)).1 o.buf ((h.alloc (h.buf o.buf)).1.buf o.buf).len).1.next = h.next + 1 := by
    rw [hl.1]; rfl
  have key : ∀ k, ((CorrHeap.callImage .original e g upd h o false fresh).1.buf o.buf).get k
      = if k < (h.buf o.buf).len then e.after ((h.buf o.buf).get k) else (h.buf o.buf).get k := by
    intro k
    simp only [CorrHeap.callImage, workOf, dataStep, hs, if_true, Bool.false_eq_true, if_false]
    rw [(alloc_spec _ _).2.2 o.buf (by rw [hn]; omega), hl.2.2.2.1 k, h1b]
  constructor
  · intro hyp k hk; have := hyp k hk; rw [key k, if_pos hk] at this; exact this
  · intro hyp k hk; rw [key k, if_pos hk]; exact hyp k hk

/-- an in-place `correct_array` (writes x ↦ x + 1 into its argument) separates the two: with views of the original the
input series is modified in copy mode. -/
theorem heap_original_views_leak :
    let h : Heap := ⟨1, fun _ => bufOfList [[1, 2], [3, 4]]⟩
    let e : Eff := ⟨fun x => x, some (fun x => x.map (· + 1)), .fresh⟩
    let o : Obj Nat := ⟨7, 0, true, 0⟩
    ((CorrHeap.callImage .original e id (fun m _ => m) h o false 8).1.buf 0).toList = [[2, 3], [4, 5]] ∧
    ((CorrHeap.callImage .work e id (fun m _ => m) h o false 8).1.buf 0).toList = [[1, 2], [3, 4]] := by
  decide

/-- copy mode on a single image: `correct_array` only ever sees the copy, the input buffer is untouched. -/
theorem heap_copy_single_input_untouched (src : SliceSrc) (e : Eff) (g : Meta → Meta) (upd : Meta → Meta → Meta)
    (h : Heap) (o : Obj Meta) (fresh : Nat) (hs : o.series = false) (hv : o.buf < h.next) :
    (CorrHeap.callImage src e g upd h o false fresh).1.buf o.buf = h.buf o.buf ∧
    (CorrHeap.callImage src e g upd h o false fresh).2.1.buf ≠ o.buf := by
  have ha := alloc_spec h (h.buf o.buf)
  have hne : o.buf ≠ h.next := by omega
  have hr := runCA_spec e (h.alloc (h.buf o.buf)).1 (h.alloc (h.buf o.buf)).2 0
  rw [ha.1] at hr
  simp only [CorrHeap.callImage, workOf, dataStep, hs, Bool.false_eq_true, if_false, ha.1]
  cases e.ret with
  | arg => exact ⟨by rw [hr.2.1 o.buf hne, ha.2.2 o.buf hne], by simpa using hne.symm⟩
  | fresh =>
    have hn : (runCA e (h.alloc (h.buf o.buf)).1 h.next 0).1.next = h.next + 1 := by rw [hr.1]; rfl
    refine ⟨?_, ?_⟩
    · simp only []
      rw [(alloc_spec _ _).2.2 o.buf (by rw [hn]; omega), hr.2.1 o.buf hne, ha.2.2 o.buf hne]
    · simp only [(alloc_spec _ _).1, hn]; omega

/-- the data of a corrected series is `np.stack` of `correct_array` on the slices in order — computed from the ORIGINAL
contents, whichever buffer the views are taken from, in copy and in overwrite mode. -/
theorem heap_series_per_slice (src : SliceSrc) (e : Eff) (g : Meta → Meta) (upd : Meta → Meta → Meta) (h : Heap)
    (o : Obj Meta) (ow : Bool) (fresh : Nat) (hs : o.series = true) (hv : o.buf < h.next) :
    ((CorrHeap.callImage src e g upd h o ow fresh).1.buf (CorrHeap.callImage src e g upd h o ow fresh).2.1.buf).toList
      = (h.buf o.buf).toList.map e.result := by
  have ha := alloc_spec h (h.buf o.buf)
  have hne : o.buf ≠ h.next := by omega
  have fin : ∀ (h1 : Heap) (b : Nat), h1.buf b = h.buf o.buf →
      (((sliceLoop e h1 b (h1.buf b).len).1.alloc (bufOfList (sliceLoop e h1 b (h1.buf b).len).2)).1.buf
        ((sliceLoop e h1 b (h1.buf b).len).1.alloc (bufOfList (sliceLoop e h1 b (h1.buf b).len).2)).2).toList
        = (h.buf o.buf).toList.map e.result := by
    intro h1 b hb
    rw [(alloc_spec _ _).1, (alloc_spec _ _).2.1, bufOfList_toList, (sliceLoop_spec e h1 b _).2.2.2.2, hb]
    simp [Buf.toList, List.map_map, Function.comp_def]
  cases ow <;> cases src <;>
    simp only [CorrHeap.callImage, workOf, dataStep, hs, if_true, Bool.false_eq_true, if_false]
  · exact fin _ _ (ha.2.2 o.buf hne)
  · rw [ha.1]; exact fin _ _ ha.2.1
  · exact fin _ _ rfl
  · exact fin _ _ rfl

/-- identity of the returned object: overwrite returns the input object itself (and it is the input afterwards), copy
mode returns a new object and the input OBJECT record (tag, buffer id, metadata) is as before. -/
theorem heap_object_identity (src : SliceSrc) (e : Eff) (g : Meta → Meta) (upd : Meta → Meta → Meta) (h : Heap)
    (o : Obj Meta) (fresh : Nat) :
    (CorrHeap.callImage src e g upd h o true fresh).2.1 = (CorrHeap.callImage src e g upd h o true fresh).2.2 ∧
    (CorrHeap.callImage src e g upd h o true fresh).2.1.tag = o.tag ∧
    (CorrHeap.callImage src e g upd h o false fresh).2.2 = o ∧
    (CorrHeap.callImage src e g upd h o false fresh).2.1.tag = fresh ∧
    (CorrHeap.callImage src e g upd h o false fresh).2.1.md = upd o.md (g o.md) := by
  simp [CorrHeap.callImage]

/-- `correction(array)` without overwrite: the array is copied first, so the caller's array is untouched for EVERY
`correct_array`, and the returned array is never the caller's array. -/
theorem heap_array_copy_untouched (e : CorrHeap.Eff) (h : CorrHeap.Heap) (b : Nat) (hv : b < h.next) :
    (CorrHeap.callArray e h b false).1.buf b = h.buf b ∧ (CorrHeap.callArray e h b false).2 ≠ b := by
  open CorrHeap in
  have ha := alloc_spec h (h.buf b)
  have hne : b ≠ h.next := by omega
  have hr := runCA_spec e (h.alloc (h.buf b)).1 (h.alloc (h.buf b)).2 0
  rw [ha.1] at hr
  simp only [callArray, Bool.false_eq_true, if_false, ha.1]
  cases e.ret with
  | arg => exact ⟨by rw [hr.2.1 b hne, ha.2.2 b hne], by simpa using hne.symm⟩
  | fresh =>
    have hn : (runCA e (h.alloc (h.buf b)).1 h.next 0).1.next = h.next + 1 := by rw [hr.1]; rfl
    refine ⟨?_, ?_⟩
    · simp only []
      rw [(alloc_spec _ _).2.2 b (by rw [hn]; omega), hr.2.1 b hne, ha.2.2 b hne]
    · simp only [(alloc_spec _ _).1, hn]; omega

/-- with overwrite the correction works on the caller's array itself: an in-place `correct_array` is visible there. -/
theorem heap_array_overwrite_in_place (e : CorrHeap.Eff) (h : CorrHeap.Heap) (b : Nat) (w : CorrHeap.Slice → CorrHeap.Slice)
    (hw : e.w = some w) (hr : e.ret = .arg) :
    (CorrHeap.callArray e h b true).2 = b ∧
    ((CorrHeap.callArray e h b true).1.buf b).get 0 = w ((h.buf b).get 0) := by
  open CorrHeap in
  have hs := runCA_spec e h b 0
  simp only [callArray, if_true, hr]
  exact ⟨trivial, by rw [hs.2.2.2.1 0]; simp [Eff.after, hw]⟩

section raising
open Darsia.Corrections

/-- guard of the raising path: where every value is in skimage's accepted range the conversion succeeds and is
`typeCorr`; otherwise it is a ValueError (never a silently clipped result). -/
theorem type_guard (t : DT) (a : TArr) :
    (a.arr.allIn (convOk a.dt t) = true → typeCorrE t a = .ok (typeCorr t a)) ∧
    (a.arr.allIn (convOk a.dt t) = false → typeCorrE t a = .error .value) := by
  constructor <;> intro h <;> simp [typeCorrE, h]

/-- integer sources and float targets never raise. -/
theorem type_never_raises_from_int (t : DT) (a : TArr) (h : a.dt ≠ .f64 ∨ t = .f64) :
    typeCorrE t a = .ok (typeCorr t a) := by
  have : a.arr.allIn (convOk a.dt t) = true := by
    simp only [Arr2.allIn, List.all_eq_true]
    intro i _ j _
    rcases h with h | h
    · cases hd : a.dt <;> cases t <;> simp_all [convOk]
    · subst h; cases a.dt <;> simp [convOk]
  simp [typeCorrE, this]

example : (Arr2.allIn ⟨1, 1, fun _ _ => 3/2⟩ (convOk .f64 .u8)) = false := by decide +kernel

end raising

end heap

/-! ## Round 4: curvature, illumination, active drift -/

section round4
open Darsia.Corrections Darsia.Affine Darsia.Warp

theorem Arr2.agree_trans {β} {a b c : Arr2 β} (h1 : a.agree b) (h2 : b.agree c) : a.agree c := by
  obtain ⟨a0, a1, av⟩ := h1
  obtain ⟨b0, b1, bv⟩ := h2
  refine ⟨a0.trans b0, a1.trans b1, fun i j hi0 hi1 hj0 hj1 => ?_⟩
  rw [av i j hi0 hi1 hj0 hj1]
  exact bv i j hi0 (by rw [← a0]; exact hi1) hj0 (by rw [← a1]; exact hj1)

/-- zero bulge and stretch (any centre offsets): `_transform_coordinates` is the identity on pixel coordinates. -/
theorem transformCoords_neutral (c : BS) (hc : c.neutral) (Nx Ny : Nat) (x y : Rat) :
    transformCoords c Nx Ny x y = (x, y) := by
  obtain ⟨h1, h2, h3, h4⟩ := hc
  simp only [transformCoords, h1, h2, h3, h4]
  refine Prod.ext ?_ ?_ <;> simp <;> ring

theorem stage_neutral (interp : Interp) (hI : InterpExact interp) (c : BS) (hc : c.neutral) (F : Arr2 Rat) :
    (stageBS interp c F).agree F := by
  refine ⟨rfl, rfl, fun i j hi0 hi1 hj0 hj1 => ?_⟩
  simp only [stageBS, transformCoords_neutral c hc]
  exact hI F i j hi0 hi1 hj0 hj1

theorem stage_congr (interp : Interp) (hL : InterpLocal interp) (c : BS) (F G : Arr2 Rat) (h : F.agree G) :
    (stageBS interp c F).agree (stageBS interp c G) := by
  refine ⟨h.1, h.2.1, fun i j _ _ _ _ => ?_⟩
  simp only [stageBS, h.1, h.2.1]
  exact hL F G h _ _

/-- the whole stage pipeline with a neutral config leaves a coordinate field as it is. -/
theorem curvField_neutral (interp : Interp) (hI : InterpExact interp) (hL : InterpLocal interp)
    (crop : Arr2 Rat → Arr2 Rat) (cfg : CurvCfg) (hn : cfg.neutral) (F : Arr2 Rat) :
    (curvField interp crop cfg F).agree F := by
  obtain ⟨hi, hc, hb, hs⟩ := hn
  have opt : ∀ (o : Option BS), (∀ c, o = some c → c.neutral) → ∀ G : Arr2 Rat, (optStage interp o G).agree G := by
    intro o ho G
    cases o with
    | none => exact Arr2.agree_refl G
    | some c => exact stage_neutral interp hI c (ho c rfl) G
  have optc : ∀ (o : Option BS) (G H : Arr2 Rat), G.agree H → (optStage interp o G).agree (optStage interp o H) := by
    intro o G H h
    cases o with
    | none => exact h
    | some c => exact stage_congr interp hL c G H h
  simp only [curvField, hc, Bool.false_eq_true, if_false]
  exact Arr2.agree_trans (opt _ hs _) (Arr2.agree_trans (opt _ hb _) (opt _ hi _))

/-- NEUTRAL ⇒ IDENTITY for CurvatureCorrection (zero bulge / stretch in every entry, no crop), for any interpolation routine
that is exact at in-range integer positions and local. -/
theorem curv_neutral (interp : Interp) (hI : InterpExact interp) (hL : InterpLocal interp)
    (crop : Arr2 Rat → Arr2 Rat) (cfg : CurvCfg) (hn : cfg.neutral) (a : Arr2 Rat) :
    (curvCorr interp crop cfg a).agree a := by
  have hy := curvField_neutral interp hI hL crop cfg hn ⟨a.n0, a.n1, fun i _ => (i : Rat)⟩
  have hx := curvField_neutral interp hI hL crop cfg hn ⟨a.n0, a.n1, fun _ j => (j : Rat)⟩
  refine ⟨hx.1, hx.2.1, fun i j hi0 hi1 hj0 hj1 => ?_⟩
  have hi1' : i < (a.n0 : Int) := by have := hx.1; simp only [curvCorr, curvApply, curvGrid] at hi1; rw [this] at hi1; exact hi1
  have hj1' : j < (a.n1 : Int) := by have := hx.2.1; simp only [curvCorr, curvApply, curvGrid] at hj1; rw [this] at hj1; exact hj1
  simp only [curvCorr, curvApply, curvGrid]
  rw [hy.2.2 i j hi0 (by rw [hy.1]; exact hi1') hj0 (by rw [hy.2.1]; exact hj1'),
    hx.2.2 i j hi0 (by rw [hx.1]; exact hi1') hj0 (by rw [hx.2.1]; exact hj1')]
  exact hI a i j hi0 hi1' hj0 hj1'

/-- PURITY of CurvatureCorrection (fresh object): the grid depends on the shape only, the values only through the (local)
interpolation routine. -/
theorem curv_pure (interp : Interp) (hL : InterpLocal interp) (crop : Arr2 Rat → Arr2 Rat) (cfg : CurvCfg)
    (a b : Arr2 Rat) (h : a.agree b) : (curvCorr interp crop cfg a).agree (curvCorr interp crop cfg b) := by
  simp only [curvCorr, h.1, h.2.1]
  refine ⟨rfl, rfl, fun i j _ _ _ _ => ?_⟩
  simp only [curvApply]
  exact hL a b h _ _

/-- the grid cache is transparent: after ANY history of calls (arrays of any shapes) the object returns what a fresh
object returns. -/
theorem curv_cache_transparent (interp : Interp) (crop : Arr2 Rat → Arr2 Rat) (cfg : CurvCfg)
    (hs : List (Arr2 Rat)) (a : Arr2 Rat) :
    curvRun interp crop cfg none hs a = curvCorr interp crop cfg a := by
  have step : ∀ (st : Option CurvCache) (x : Arr2 Rat),
      (st = none ∨ ∃ m0 m1, st = some (m0, m1, curvGrid interp crop cfg m0 m1)) →
      (curvStep interp crop cfg st x).1 = some (x.n0, x.n1, curvGrid interp crop cfg x.n0 x.n1) ∧
      (curvStep interp crop cfg st x).2 = curvCorr interp crop cfg x := by
    intro st x h
    rcases h with rfl | ⟨m0, m1, rfl⟩
    · exact ⟨rfl, rfl⟩
    · simp only [curvStep, curvCorr]
      by_cases hm : m0 = x.n0 ∧ m1 = x.n1
      · simp [hm.1, hm.2]
      · simp [hm]
  have gen : ∀ (st : Option CurvCache), (st = none ∨ ∃ m0 m1, st = some (m0, m1, curvGrid interp crop cfg m0 m1)) →
      curvRun interp crop cfg st hs a = curvCorr interp crop cfg a := by
    induction hs with
    | nil => intro st h; exact (step st a h).2
    | cons x xs ih =>
      intro st h
      simp only [curvRun]
      exact ih _ (Or.inr ⟨x.n0, x.n1, (step st x h).1⟩)
  exact gen none (Or.inl rfl)

/-- a stored cache (memory or file) is always the grid of the shape it is labelled with -/
def GoodCache (interp : Interp) (crop : Arr2 Rat → Arr2 Rat) (cfg : CurvCfg) (c : Option CurvCache) : Prop :=
  c = none ∨ ∃ m0 m1, c = some (m0, m1, curvGrid interp crop cfg m0 m1)

/-- with the FILE cache (`use_cache`), too: whatever objects wrote the file before and whatever this or other objects were
applied to (any shapes), a call returns what a fresh object without any cache returns. -/
theorem curv_filecache_transparent (interp : Interp) (crop : Arr2 Rat → Arr2 Rat) (cfg : CurvCfg)
    (hs : List (Bool × Arr2 Rat)) (fresh : Bool) (a : Arr2 Rat) :
    curvRunFile interp crop cfg (none, none) hs fresh a = curvCorr interp crop cfg a := by
  have step : ∀ (st : Option CurvCache × Option CurvCache) (f : Bool) (x : Arr2 Rat),
      GoodCache interp crop cfg st.1 → GoodCache interp crop cfg st.2 →
      GoodCache interp crop cfg (curvStepFile interp crop cfg st f x).1.1 ∧
      GoodCache interp crop cfg (curvStepFile interp crop cfg st f x).1.2 ∧
      (curvStepFile interp crop cfg st f x).2 = curvCorr interp crop cfg x := by
    intro st f x h1 h2
    have hm : GoodCache interp crop cfg (memAfterLoad st f) := by
      unfold memAfterLoad
      cases f
      · simp only [Bool.false_eq_true, if_false]
        rcases h1 with h | ⟨m0, m1, h⟩
        · rw [h]; exact h2
        · rw [h]; exact Or.inr ⟨m0, m1, rfl⟩
      · simpa using h2
    simp only [curvStepFile]
    generalize memAfterLoad st f = mem at hm ⊢
    rcases hm with rfl | ⟨m0, m1, rfl⟩
    · exact ⟨Or.inr ⟨_, _, rfl⟩, Or.inr ⟨_, _, rfl⟩, rfl⟩
    · by_cases hmm : m0 = x.n0 ∧ m1 = x.n1
      · simp only [hmm, and_self, if_true]
        exact ⟨by rw [← hmm.1, ← hmm.2]; exact Or.inr ⟨m0, m1, rfl⟩, h2, by simp [curvCorr, hmm.1, hmm.2]⟩
      · simp only [hmm, if_false]
        exact ⟨Or.inr ⟨_, _, rfl⟩, Or.inr ⟨_, _, rfl⟩, rfl⟩
  have gen : ∀ (st : Option CurvCache × Option CurvCache), GoodCache interp crop cfg st.1 → GoodCache interp crop cfg st.2 →
      curvRunFile interp crop cfg st hs fresh a = curvCorr interp crop cfg a := by
    induction hs with
    | nil => intro st h1 h2; exact (step st fresh a h1 h2).2.2
    | cons p ps ih =>
      intro st h1 h2
      obtain ⟨f, x⟩ := p
      simp only [curvRunFile]
      exact ih _ (step st f x h1 h2).1 (step st f x h1 h2).2.1
  exact gen (none, none) (Or.inl rfl) (Or.inl rfl)

/-- DEFECT of the tree before the fix, as a theorem: re-using the first array's grid gives a 1 × 1 result for a 1 × 2 array
after a 1 × 1 array. -/
theorem curv_cache_stale_witness :
    (curvStepOld interpNearest id ⟨none, false, none, none⟩
      (curvStepOld interpNearest id ⟨none, false, none, none⟩ none ⟨1, 1, fun _ _ => 5⟩).1 ⟨1, 2, fun _ j => j⟩).2.n1 = 1 ∧
    (curvCorr interpNearest id ⟨none, false, none, none⟩ ⟨1, 2, fun _ j => j⟩).n1 = 2 := by
  constructor <;> rfl

/-- `_adapt_config` keeps a neutral config neutral, for every resize factor. -/
theorem adapt_neutral (f : Rat) (cfg : CurvCfg) (hn : cfg.neutral) : (adaptCfg f cfg).neutral := by
  obtain ⟨hi, hc, hb, hs⟩ := hn
  have hbul : ∀ c : BS, c.neutral → (adaptBulge f c).neutral := by
    intro c ⟨h1, h2, h3, h4⟩; exact ⟨by simp [adaptBulge, h1], h2, by simp [adaptBulge, h3], h4⟩
  have hstr : ∀ c : BS, c.neutral → (adaptStretch f c).neutral := by
    intro c ⟨h1, h2, h3, h4⟩; exact ⟨h1, by simp [adaptStretch, h2], h3, by simp [adaptStretch, h4]⟩
  refine ⟨?_, hc, ?_, ?_⟩
  · intro c hcc; cases hci : cfg.init with
    | none => simp [adaptCfg, hci] at hcc
    | some c0 => simp [adaptCfg, hci] at hcc; subst hcc; exact hbul c0 (hi c0 hci)
  · intro c hcc; cases hci : cfg.bulge with
    | none => simp [adaptCfg, hci] at hcc
    | some c0 => simp [adaptCfg, hci] at hcc; subst hcc; exact hbul c0 (hb c0 hci)
  · intro c hcc; cases hci : cfg.stretch with
    | none => simp [adaptCfg, hci] at hcc
    | some c0 => simp [adaptCfg, hci] at hcc; subst hcc; exact hstr c0 (hs c0 hci)

/-- the nearest-sample routine (`order = 0`) satisfies both contracts. -/
theorem interpNearest_contracts : InterpExact interpNearest ∧ InterpLocal interpNearest := by
  constructor
  · intro F i j hi0 hi1 hj0 hj1
    have a0 : (0 : Rat) ≤ (i : Rat) := by exact_mod_cast hi0
    have a1 : (i : Rat) ≤ (F.n0 : Rat) - 1 := by
      have : i + 1 ≤ (F.n0 : Int) := by omega
      have : ((i + 1 : Int) : Rat) ≤ ((F.n0 : Int) : Rat) := by exact_mod_cast this
      push_cast at this; linarith
    have b0 : (0 : Rat) ≤ (j : Rat) := by exact_mod_cast hj0
    have b1 : (j : Rat) ≤ (F.n1 : Rat) - 1 := by
      have : j + 1 ≤ (F.n1 : Int) := by omega
      have : ((j + 1 : Int) : Rat) ≤ ((F.n1 : Int) : Rat) := by exact_mod_cast this
      push_cast at this; linarith
    simp only [interpNearest, interpNearestShift, add_zero, ite_self, floor_int_add_half]
    rw [if_pos ⟨a0, a1, b0, b1⟩, clipInt_id i _ hi0 hi1, clipInt_id j _ hj0 hj1]
  · intro F G h r c
    simp only [interpNearest, interpNearestShift, add_zero, ite_self, ← h.1, ← h.2.1]
    split
    · rename_i hc
      have hn0 : 0 < F.n0 := by
        have : (0 : Rat) ≤ (F.n0 : Rat) - 1 := le_trans hc.1 hc.2.1
        have : (1 : Rat) ≤ (F.n0 : Rat) := by linarith
        exact_mod_cast this
      have hn1 : 0 < F.n1 := by
        have : (0 : Rat) ≤ (F.n1 : Rat) - 1 := le_trans hc.2.2.1 hc.2.2.2
        have : (1 : Rat) ≤ (F.n1 : Rat) := by linarith
        exact_mod_cast this
      exact h.2.2 _ _ (clipInt_bounds _ _ hn0).1 (clipInt_bounds _ _ hn0).2 (clipInt_bounds _ _ hn1).1 (clipInt_bounds _ _ hn1).2
    · rfl

/-- the linear routine (`order = 1`, the default of CurvatureCorrection) satisfies both contracts as well: it is exact at
in-range integer positions and reads only samples inside the array. -/
theorem interpLinear_contracts : InterpExact interpLinear ∧ InterpLocal interpLinear := by
  constructor
  · intro F i j hi0 hi1 hj0 hj1
    have a0 : (0 : Rat) ≤ (i : Rat) := by exact_mod_cast hi0
    have a1 : (i : Rat) ≤ (F.n0 : Rat) - 1 := by
      have : ((i + 1 : Int) : Rat) ≤ ((F.n0 : Int) : Rat) := by exact_mod_cast (by omega : i + 1 ≤ (F.n0 : Int))
      push_cast at this; linarith
    have b0 : (0 : Rat) ≤ (j : Rat) := by exact_mod_cast hj0
    have b1 : (j : Rat) ≤ (F.n1 : Rat) - 1 := by
      have : ((j + 1 : Int) : Rat) ≤ ((F.n1 : Int) : Rat) := by exact_mod_cast (by omega : j + 1 ≤ (F.n1 : Int))
      push_cast at this; linarith
    simp only [interpLinear, interpLinearShift, add_zero, ite_self, floor_int, sub_self]
    rw [if_pos ⟨a0, a1, b0, b1⟩, clipInt_id i _ hi0 hi1, clipInt_id j _ hj0 hj1]
    ring
  · intro F G h r c
    simp only [interpLinear, interpLinearShift, add_zero, ite_self, ← h.1, ← h.2.1]
    split
    · rename_i hc
      have hn0 : 0 < F.n0 := by
        have : (1 : Rat) ≤ (F.n0 : Rat) := by linarith [le_trans hc.1 hc.2.1]
        exact_mod_cast this
      have hn1 : 0 < F.n1 := by
        have : (1 : Rat) ≤ (F.n1 : Rat) := by linarith [le_trans hc.2.2.1 hc.2.2.2]
        exact_mod_cast this
      have g : ∀ a b : Int, F.get (clipInt a 0 ((F.n0 : Int) - 1)) (clipInt b 0 ((F.n1 : Int) - 1))
          = G.get (clipInt a 0 ((F.n0 : Int) - 1)) (clipInt b 0 ((F.n1 : Int) - 1)) := fun a b =>
        h.2.2 _ _ (clipInt_bounds _ _ hn0).1 (clipInt_bounds _ _ hn0).2 (clipInt_bounds _ _ hn1).1 (clipInt_bounds _ _ hn1).2
      simp only [g]
    · rfl

/-- IlluminationCorrection reads only its argument (and its fixed scaling images). -/
theorem illum_pure (rgb : Bool) (scal : Nat → Int → Int → Rat) (a b : Arr2C) (h : a.agree b) :
    (illumCorr rgb scal a).agree (illumCorr rgb scal b) := by
  obtain ⟨hd, h0, h1, hv⟩ := h
  refine ⟨hd, h0, h1, fun i j hi0 hi1 hj0 hj1 ch hch => ?_⟩
  simp only [illumCorr, hd, hv i j hi0 hi1 hj0 hj1 ch hch]

/-- unit scaling ⇒ pixel values unchanged (float images: always; integer images: integer payloads). -/
theorem illum_neutral (rgb : Bool) (scal : Nat → Int → Int → Rat) (a : Arr2C)
    (hs : ∀ k i j, scal k i j = 1)
    (hint : a.dt ≠ .f64 → ∀ i j ch, ∃ n : Int, a.get i j ch = (n : Rat)) :
    (illumCorr rgb scal a).agree a := by
  refine ⟨rfl, rfl, rfl, fun i j _ _ _ _ ch _ => ?_⟩
  simp only [illumCorr, hs, mul_one]
  cases hd : a.dt with
  | f64 => rfl
  | u8 => obtain ⟨n, hn⟩ := hint (by simp [hd]) i j ch; simp only [storeAs, hn, trunc_int]
  | u16 => obtain ⟨n, hn⟩ := hint (by simp [hd]) i j ch; simp only [storeAs, hn, trunc_int]

/-- colour-space handling: every colour space but "rgb" scales all three channels with `local_scaling[0]`. -/
theorem illum_scalar_colourspace (scal : Nat → Int → Int → Rat) (a : Arr2C) (i j : Int) (ch : Nat) :
    (illumCorr false scal a).get i j ch = storeAs a.dt (a.get i j ch * scal 0 i j) := rfl

/-- active DriftCorrection: pure given a translation estimate that reads only its argument; zero estimate on a base of the
same shape ⇒ identity; no intact translation ⇒ ValueError. -/
theorem drift_active (est : TArr → Option (Int × Int)) (b0 b1 : Nat) (a b : TArr) (h : a.agree b)
    (hest : est a = est b) :
    (match driftActive est b0 b1 a, driftActive est b0 b1 b with
     | .ok x, .ok y => x.agree y
     | .error e, .error e' => e = e'
     | _, _ => False) ∧
    (est a = some (0, 0) → b0 = a.arr.n0 → b1 = a.arr.n1 → ∃ x, driftActive est b0 b1 a = .ok x ∧ x.agree a) ∧
    (est a = none → driftActive est b0 b1 a = .error .value) := by
  obtain ⟨hd, h0, h1, hv⟩ := h
  refine ⟨?_, ?_, ?_⟩
  · simp only [driftActive, ← hest]
    cases est a with
    | none => rfl
    | some t =>
      obtain ⟨tx, ty⟩ := t
      refine ⟨hd, rfl, rfl, fun i j _ _ _ _ => ?_⟩
      simp only [shift2, ← h0, ← h1]
      split
      · rename_i hc; exact hv _ _ hc.1 hc.2.1 hc.2.2.1 hc.2.2.2
      · rfl
  · intro he hb0 hb1
    subst hb0 hb1
    refine ⟨⟨a.dt, ⟨a.arr.n0, a.arr.n1, shift2 0 a.arr.n0 a.arr.n1 0 0 a.arr.get⟩⟩, by simp only [driftActive, he], rfl, rfl, rfl,
      fun i j hi0 hi1 hj0 hj1 => ?_⟩
    simp only [shift2, sub_zero]
    rw [if_pos ⟨hi0, hi1, hj0, hj1⟩]
  · intro he; simp only [driftActive, he]

end round4

/-! ## Round 6: inactive corrections and their other options -/

section round6
open Darsia.Corrections

/-- (near-definitional: the model of the inactive path does not read the options.) an INACTIVE ColorCorrection ignores every
other option - clip, white balancing, colour-balancing mode, balancing branch - and leaves float pixel values as they are,
also outside [0, 1] and negative ones. -/
theorem colour_inactive_ignores_options (o o' : ColourOpts) (a : TArr) :
    colourInactive o a = colourInactive o' a ∧
    (a.dt = .f64 → (colourInactive o a).arr.agree a.arr) := by
  refine ⟨rfl, fun h => ⟨rfl, rfl, fun i j _ _ _ _ => ?_⟩⟩
  simp only [colourInactive, h, convVal]

end round6

end Darsia.C10
