/-
C10 — every correction honours the copy / in-place / array / series contract.

PARTIAL: the theorems are about the shared workflow `BaseCorrection.__call__` for an arbitrary *pure*
`correct_array` f, optional `correct_array_series`, and declared metadata update g. Full statement of the
property: "for each correction class … without overwrite leaves the input untouched and returns an image of the
same kind whose pixel data equals the correction applied to the raw array and whose metadata is the input's plus
the declared updates; with overwrite it modifies and returns the very same object with the same result; on a
series the result equals applying the correction to each slice; neutral parameters leave pixel values
unchanged." What is missing from the proof and only observed on the implementation by the check: that each
concrete `correct_array` is pure (does not mutate or alias its argument, has no history dependence) and that
neutral parameters make it the identity on pixel values.
-/
import DarsiaModel.Correction
namespace Darsia.C10
open Darsia.Correction

variable {Arr Meta : Type}

/-- copy mode: the input object is untouched, the result is a new object of the same kind with data
`f` applied and metadata = input's overridden by the declared update. -/
theorem copy_mode_partial (c : Corr Arr Meta) (o : Obj Arr Meta) (fresh : Nat) (h : fresh ≠ o.tag) :
    let r := c.callImage o false fresh
    r.2 = o ∧ r.1.tag ≠ o.tag ∧ r.1.kind = o.kind ∧ r.1.data = c.onData o.data ∧
      r.1.md = c.upd o.md (c.g o.md) := by
  simp [Corr.callImage, h]

/-- overwrite mode: the very same object is returned (and is the input afterwards), with the same
data and metadata as copy mode would have produced. -/
theorem overwrite_mode_partial (c : Corr Arr Meta) (o : Obj Arr Meta) (fresh : Nat) :
    let r := c.callImage o true fresh
    r.1 = r.2 ∧ r.1.tag = o.tag ∧ r.1.kind = o.kind ∧
      r.1.data = (c.callImage o false fresh).1.data ∧ r.1.md = (c.callImage o false fresh).1.md := by
  simp [Corr.callImage]

/-- a series is corrected slice by slice (unless the class declares a whole-series routine): same number of
slices, slice t of the result is `f` of slice t of the input. -/
theorem series_per_slice_partial (c : Corr Arr Meta) (h : c.fSeries = none) (sl : List Arr) :
    ∃ out, c.onData (.series sl) = .series out ∧ out.length = sl.length ∧
      ∀ t (ht : t < sl.length) (ht' : t < out.length), out[t] = c.f sl[t] := by
  refine ⟨sl.map c.f, ?_, by simp, ?_⟩
  · simp [Corr.onData, h]
  · intro t ht ht'; simp

/-- arrays: result = `correct_array` of the array, whatever the overwrite flag. -/
theorem array_mode_partial (c : Corr Arr Meta) (a : Arr) (ow : Bool) : c.callArray a ow = c.f a := rfl

/-- neutral parameters (f = id, no whole-series routine): pixel data unchanged, for single images and series,
in both modes. -/
theorem neutral_is_identity_partial (c : Corr Arr Meta) (hf : c.f = id) (hs : c.fSeries = none)
    (o : Obj Arr Meta) (ow : Bool) (fresh : Nat) : (c.callImage o ow fresh).1.data = o.data := by
  have : c.onData o.data = o.data := by
    cases hd : o.data with
    | single a => simp [Corr.onData, hf]
    | series sl => simp [Corr.onData, hs, hf]
  cases ow <;> simp [Corr.callImage, this]

/-- the whole-series routine, when declared, takes precedence over the per-slice loop. -/
theorem series_routine_precedence (c : Corr Arr Meta) (fs : List Arr → List Arr) (h : c.fSeries = some fs)
    (sl : List Arr) : c.onData (.series sl) = .series (fs sl) := by
  simp [Corr.onData, h]

/-! non-vacuity: a non-trivial correction on a two-slice series -/
example : (({ f := fun a : Nat => a + 1, fSeries := none, g := fun m : Nat => m, upd := fun _ u => u } :
    Corr Nat Nat).callImage ⟨7, .scalar, .series [1, 2], 0⟩ false 8).1.data = .series [2, 3] := by decide
example : (({ f := fun a : Nat => a + 1, fSeries := none, g := fun m : Nat => m, upd := fun _ u => u } :
    Corr Nat Nat).callImage ⟨7, .scalar, .series [1, 2], 0⟩ true 8).1.tag = 7 := by decide

end Darsia.C10
