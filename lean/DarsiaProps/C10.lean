/-
C10 — every correction honours the copy / in-place / array / series contract.

PARTIAL: the theorems are about the shared workflow `BaseCorrection.__call__` for an arbitrary *pure*
`correct_array` f, optional `correct_array_series`, and declared metadata update g. Full statement of the
property: "for each correction class … without overwrite leaves the input untouched and returns an image of the
same kind whose pixel data equals the correction applied to the raw array and whose metadata is the input's plus
the declared updates; with overwrite it modifies and returns the very same object with the same result; on a
series the result equals applying the correction to each slice; neutral parameters leave pixel values
unchanged." What is missing from the proof and only observed on the implementation by the check: that each
concrete `correct_array` is pure (does not mutate or alias its argument, has no history dependence) and that
neutral parameters make it the identity on pixel values.
-/
import DarsiaModel.Correction
import DarsiaModel.Corrections
import DarsiaProofs.Corrections
import DarsiaProps.C09
namespace Darsia.C10
open Darsia.Correction

variable {Arr Meta : Type}

/-- copy mode: the input object is untouched, the result is a new object of the same kind with data
`f` applied and metadata = input's overridden by the declared update. -/
theorem copy_mode_partial (c : Corr Arr Meta) (o : Obj Arr Meta) (fresh : Nat) (h : fresh ≠ o.tag) :
    let r := c.callImage o false fresh
    r.2 = o ∧ r.1.tag ≠ o.tag ∧ r.1.kind = o.kind ∧ r.1.data = c.onData o.data ∧
      r.1.md = c.upd o.md (c.g o.md) := by
  simp [Corr.callImage, h]

/-- overwrite mode: the very same object is returned (and is the input afterwards), with the same
data and metadata as copy mode would have produced. -/
theorem overwrite_mode_partial (c : Corr Arr Meta) (o : Obj Arr Meta) (fresh : Nat) :
    let r := c.callImage o true fresh
    r.1 = r.2 ∧ r.1.tag = o.tag ∧ r.1.kind = o.kind ∧
      r.1.data = (c.callImage o false fresh).1.data ∧ r.1.md = (c.callImage o false fresh).1.md := by
  simp [Corr.callImage]

/-- a series is corrected slice by slice (unless the class declares a whole-series routine): same number of
slices, slice t of the result is `f` of slice t of the input. -/
theorem series_per_slice_partial (c : Corr Arr Meta) (h : c.fSeries = none) (sl : List Arr) :
    ∃ out, c.onData (.series sl) = .series out ∧ out.length = sl.length ∧
      ∀ t (ht : t < sl.length) (ht' : t < out.length), out[t] = c.f sl[t] := by
  refine ⟨sl.map c.f, ?_, by simp, ?_⟩
  · simp [Corr.onData, h]
  · intro t ht ht'; simp

/-- arrays: result = `correct_array` of the array, whatever the overwrite flag. -/
theorem array_mode_partial (c : Corr Arr Meta) (a : Arr) (ow : Bool) : c.callArray a ow = c.f a := rfl

/-- neutral parameters (f = id, no whole-series routine): pixel data unchanged, for single images and series,
in both modes. -/
theorem neutral_is_identity_partial (c : Corr Arr Meta) (hf : c.f = id) (hs : c.fSeries = none)
    (o : Obj Arr Meta) (ow : Bool) (fresh : Nat) : (c.callImage o ow fresh).1.data = o.data := by
  have : c.onData o.data = o.data := by
    cases hd : o.data with
    | single a => simp [Corr.onData, hf]
    | series sl => simp [Corr.onData, hs, hf]
  cases ow <;> simp [Corr.callImage, this]

/-- the whole-series routine, when declared, takes precedence over the per-slice loop. -/
theorem series_routine_precedence (c : Corr Arr Meta) (fs : List Arr → List Arr) (h : c.fSeries = some fs)
    (sl : List Arr) : c.onData (.series sl) = .series (fs sl) := by
  simp [Corr.onData, h]

/-! non-vacuity: a non-trivial correction on a two-slice series -/
example : (({ f := fun a : Nat => a + 1, fSeries := none, g := fun m : Nat => m, upd := fun _ u => u } :
    Corr Nat Nat).callImage ⟨7, .scalar, .series [1, 2], 0⟩ false 8).1.data = .series [2, 3] := by decide
example : (({ f := fun a : Nat => a + 1, fSeries := none, g := fun m : Nat => m, upd := fun _ u => u } :
    Corr Nat Nat).callImage ⟨7, .scalar, .series [1, 2], 0⟩ true 8).1.tag = 7 := by decide

/-! ## Round 2: concrete corrections (DarSIA's own index logic) — purity, neutrality, series, as theorems about the
concrete models of `DarsiaModel.Corrections` (no `_partial`: the array function itself is modelled and tied exactly). -/

section concrete
open Darsia.Corrections Darsia.Affine Darsia.Warp

/-- TypeCorrection reads only its argument: arrays that agree (dtype, shape, values in the box) convert to arrays
that agree — including skimage's data-dependent "fits without scaling" branch (uint16 → uint8). -/
theorem type_pure (t : DT) (a b : TArr) (h : a.agree b) : (typeCorr t a).agree (typeCorr t b) := by
  obtain ⟨hd, hs⟩ := h
  have hm := maxVal_congr _ _ hs
  obtain ⟨h0, h1, hv⟩ := hs
  refine ⟨rfl, h0, h1, ?_⟩
  intro i j hi0 hi1 hj0 hj1
  simp only [typeCorr, hd, hm, hv i j hi0 hi1 hj0 hj1]

/-- neutral TypeCorrection (target = the array's own dtype) is the identity. -/
theorem type_neutral (a : TArr) : (typeCorr a.dt a).agree a := by
  refine ⟨rfl, rfl, rfl, ?_⟩
  intro i j _ _ _ _
  simp only [typeCorr, convVal]
  cases a.dt <;> rfl

/-- conversion to float and back is the identity on uint8 / uint16 payloads (the scaling is exact). -/
theorem type_roundtrip_u8 (x : Int) (h0 : 0 ≤ x) (h1 : x ≤ 255) (fits : Bool) :
    convVal .f64 .u8 fits (convVal .u8 .f64 fits (x : Rat)) = (x : Rat) := by
  simp only [convVal]
  have e : ((x : Rat) / 255 * 255) = (x : Rat) := by field_simp
  have r : rintRat (x : Rat) = x := by
    unfold rintRat
    simp only [floor_int, sub_self]
    rw [if_pos (by unfold half; norm_num)]
  rw [e, r, clipInt]; congr 1; omega

/-- TranslationCorrection (whole pixels): pure, zero translation and the inactive flag are the identity. -/
theorem trans_pure (active : Bool) (tx ty : Int) (a b : TArr) (h : a.agree b) :
    (transCorrInt active tx ty a).agree (transCorrInt active tx ty b) := by
  cases active
  · simpa [transCorrInt] using h
  · obtain ⟨hd, h0, h1, hv⟩ := h
    refine ⟨hd, h0, h1, ?_⟩
    intro i j hi0 hi1 hj0 hj1
    simp only [transCorrInt, if_true, shift2, ← h0, ← h1]
    split
    · rename_i hc; exact hv _ _ hc.1 hc.2.1 hc.2.2.1 hc.2.2.2
    · rfl

theorem trans_neutral (active : Bool) (a : TArr) : (transCorrInt active 0 0 a).agree a := by
  cases active
  · exact TArr.agree_refl a
  · refine ⟨rfl, rfl, rfl, ?_⟩
    intro i j hi0 hi1 hj0 hj1
    simp only [transCorrInt, if_true, shift2, sub_zero]
    rw [if_pos ⟨hi0, hi1, hj0, hj1⟩]

theorem trans_inactive_identity (tx ty : Int) (a : TArr) : transCorrInt false tx ty a = a := rfl

/-- an active whole-pixel translation IS the zero-filled shift by (ty, tx) rows / columns. -/
theorem trans_is_shift (tx ty : Int) (a : TArr) (i j : Int) :
    (transCorrInt true tx ty a).arr.get i j = shift2 0 a.arr.n0 a.arr.n1 ty tx a.arr.get i j := rfl

/-- inactive DriftCorrection returns its argument. -/
theorem drift_inactive_identity (a : TArr) : driftInactive a = a := rfl

/-- RotationCorrection's warp reads only values inside the box (the clip keeps every source index inside),
for any anchor and any matrix. -/
theorem rot2_pure (anchor : V2 Rat) (Rinv : M2 Rat) (a b : TArr) (h : a.agree b) :
    (rotCorr2 anchor Rinv a).agree (rotCorr2 anchor Rinv b) := by
  obtain ⟨_, h0, h1, hv⟩ := h
  refine ⟨rfl, h0, h1, ?_⟩
  intro i j hi0 hi1 hj0 hj1
  replace hi1 : i < (a.arr.n0 : Int) := hi1
  replace hj1 : j < (a.arr.n1 : Int) := hj1
  simp only [rotCorr2, rotSrc2, ← h0, ← h1]
  have hn0 : 0 < a.arr.n0 := by omega
  have hn1 : 0 < a.arr.n1 := by omega
  exact hv _ _ (clipInt_bounds _ _ hn0).1 (clipInt_bounds _ _ hn0).2 (clipInt_bounds _ _ hn1).1
    (clipInt_bounds _ _ hn1).2

/-- zero angle (R_inv = I), any rational anchor: pixel values unchanged (the result is declared float64). -/
theorem rot2_neutral (anchor : V2 Rat) (a : TArr) :
    (rotCorr2 anchor (rot2Inv 1 0) a).dt = .f64 ∧ (rotCorr2 anchor (rot2Inv 1 0) a).arr.agree a.arr := by
  refine ⟨rfl, rfl, rfl, ?_⟩
  intro i j hi0 hi1 hj0 hj1
  replace hi1 : i < (a.arr.n0 : Int) := hi1
  replace hj1 : j < (a.arr.n1 : Int) := hj1
  simp only [rotCorr2, rotSrc2, rot2Inv, M2.mulVec, V2.add, V2.sub]
  have e0 : anchor.x + (1 * ((i : Rat) - anchor.x) + 0 * ((j : Rat) - anchor.y)) = (i : Rat) := by ring
  have e1 : anchor.y + (-0 * ((i : Rat) - anchor.x) + 1 * ((j : Rat) - anchor.y)) = (j : Rat) := by ring
  rw [e0, e1, trunc_int, trunc_int, clipInt_id i _ hi0 hi1, clipInt_id j _ hj0 hj1]

theorem rot3_pure (anchor : V3 Rat) (Rinv : M3 Rat) (a b : TArr3) (h : a.agree b) :
    (rotCorr3 anchor Rinv a).agree (rotCorr3 anchor Rinv b) := by
  obtain ⟨_, h0, h1, h2, hv⟩ := h
  refine ⟨rfl, h0, h1, h2, ?_⟩
  intro i j k hi0 hi1 hj0 hj1 hk0 hk1
  replace hi1 : i < (a.arr.n0 : Int) := hi1
  replace hj1 : j < (a.arr.n1 : Int) := hj1
  replace hk1 : k < (a.arr.n2 : Int) := hk1
  simp only [rotCorr3, rotSrc3, ← h0, ← h1, ← h2]
  have hn0 : 0 < a.arr.n0 := by omega
  have hn1 : 0 < a.arr.n1 := by omega
  have hn2 : 0 < a.arr.n2 := by omega
  exact hv _ _ _ (clipInt_bounds _ _ hn0).1 (clipInt_bounds _ _ hn0).2 (clipInt_bounds _ _ hn1).1
    (clipInt_bounds _ _ hn1).2 (clipInt_bounds _ _ hn2).1 (clipInt_bounds _ _ hn2).2

theorem rot3_neutral (anchor : V3 Rat) (a : TArr3) :
    (rotCorr3 anchor (rotationInv ([] : List (Factor Rat))) a).arr.agree a.arr := by
  refine ⟨rfl, rfl, rfl, ?_⟩
  intro i j k hi0 hi1 hj0 hj1 hk0 hk1
  replace hi1 : i < (a.arr.n0 : Int) := hi1
  replace hj1 : j < (a.arr.n1 : Int) := hj1
  replace hk1 : k < (a.arr.n2 : Int) := hk1
  simp only [rotCorr3, rotSrc3, rotationInv, rotationLoop, List.foldl_nil, M3.one, M3.mulVec, V3.add, V3.sub]
  have e0 : anchor.x + (1 * ((i : Rat) - anchor.x) + 0 * ((j : Rat) - anchor.y) + 0 * ((k : Rat) - anchor.z))
      = (i : Rat) := by ring
  have e1 : anchor.y + (0 * ((i : Rat) - anchor.x) + 1 * ((j : Rat) - anchor.y) + 0 * ((k : Rat) - anchor.z))
      = (j : Rat) := by ring
  have e2 : anchor.z + (0 * ((i : Rat) - anchor.x) + 0 * ((j : Rat) - anchor.y) + 1 * ((k : Rat) - anchor.z))
      = (k : Rat) := by ring
  rw [e0, e1, e2, trunc_int, trunc_int, trunc_int, clipInt_id i _ hi0 hi1, clipInt_id j _ hj0 hj1,
    clipInt_id k _ hk0 hk1]

/-- TransformationCorrection reads only values inside the source box (guard: the array has the shape of the source
coordinate system — otherwise the real code indexes out of range or reads other voxels). -/
theorem transf_pure (mode : Mode) (T : Affine2 Rat) (csS csD : CS2) (rnd : Rounding) (a b : TArr)
    (h : a.agree b) (hs0 : a.arr.n0 = csS.n0) (hs1 : a.arr.n1 = csS.n1) :
    (transfCorr mode T csS csD rnd a).agree (transfCorr mode T csS csD rnd b) := by
  obtain ⟨hd, _, _, hv⟩ := h
  refine ⟨hd, rfl, rfl, ?_⟩
  intro i j _ _ _ _
  simp only [transfCorr, warp2]
  split
  · rename_i hvld
    simp only [CS2.valid, Bool.and_eq_true, decide_eq_true_eq] at hvld
    exact hv _ _ hvld.1.1.1 (by rw [hs0]; exact hvld.1.1.2) hvld.1.2 (by rw [hs1]; exact hvld.2)
  · rfl

/-- identity map, same system: pixel values and dtype unchanged (all modes, either rounding). -/
theorem transf_neutral (mode : Mode) (cs : CS2) (rnd : Rounding) (h0 : cs.h0 ≠ 0) (h1 : cs.h1 ≠ 0) (a : TArr)
    (hs0 : a.arr.n0 = cs.n0) (hs1 : a.arr.n1 = cs.n1) :
    (transfCorr mode (Affine2.mk' ⟨0, 0⟩ 1 1 0) cs cs rnd a).agree a := by
  refine ⟨rfl, hs0.symm, hs1.symm, ?_⟩
  intro i j hi0 hi1 hj0 hj1
  exact C09.warp_identity_2d 0 rnd mode cs h0 h1 a.arr.get i j hi0 hj0 hi1 hj1

/-- the per-object warp cache is transparent: after ANY history of calls on the same object (cache empty at
first), a call returns exactly what a fresh object returns. -/
theorem transf_cache_transparent (mode : Mode) (T : Affine2 Rat) (csS csD : CS2) (rnd : Rounding)
    (hs : List TArr) (a : TArr) :
    transfRun mode T csS csD rnd none hs a = transfCorr mode T csS csD rnd a := by
  have step : ∀ (st : Option Cache) (x : TArr), (st = none ∨ st = some (mkCache mode T csS csD rnd)) →
      (transfStep mode T csS csD rnd st x).1 = some (mkCache mode T csS csD rnd) ∧
      (transfStep mode T csS csD rnd st x).2 = transfCorr mode T csS csD rnd x := by
    intro st x h
    rcases h with rfl | rfl <;> exact ⟨rfl, rfl⟩
  have gen : ∀ (st : Option Cache), (st = none ∨ st = some (mkCache mode T csS csD rnd)) →
      transfRun mode T csS csD rnd st hs a = transfCorr mode T csS csD rnd a := by
    induction hs with
    | nil => intro st h; exact (step st a h).2
    | cons x xs ih => intro st h; simp only [transfRun]; exact ih _ (Or.inr (step st x h).1)
  exact gen none (Or.inl rfl)

/-- the shared workflow with a concrete array function `f` (no whole-series routine, no declared metadata update):
a series is corrected slice by slice with that very `f`, copy mode leaves the input untouched, overwrite mode returns
the same object with the same data; metadata unchanged. Instantiate `f` with `typeCorr t`, `transCorrInt …`,
`rotCorr2 …`, `driftInactive`, `transfCorr …`. -/
theorem concrete_workflow {Meta : Type} (f : TArr → TArr) (o : Correction.Obj TArr Meta) (fresh : Nat)
    (h : fresh ≠ o.tag) :
    ((plainCorr f).callImage o false fresh).2 = o ∧
    ((plainCorr f).callImage o false fresh).1.tag ≠ o.tag ∧
    ((plainCorr f).callImage o true fresh).1.tag = o.tag ∧
    ((plainCorr f).callImage o true fresh).1.data = ((plainCorr f).callImage o false fresh).1.data ∧
    ((plainCorr f).callImage o false fresh).1.md = o.md ∧
    ((plainCorr f).callImage o false fresh).1.data =
      (match o.data with | .single a => .single (f a) | .series sl => .series (sl.map f)) := by
  refine ⟨by simp [Correction.Corr.callImage], by simp [Correction.Corr.callImage, h],
    by simp [Correction.Corr.callImage], by simp [Correction.Corr.callImage],
    by simp [Correction.Corr.callImage, plainCorr], ?_⟩
  cases hd : o.data <;> simp [Correction.Corr.callImage, Correction.Corr.onData, plainCorr, hd]

/-- neutral concrete corrections through the workflow: every slice of the result agrees with the input slice. -/
theorem concrete_neutral_series (f : TArr → TArr) (hf : ∀ a, (f a).agree a) (sl : List TArr) :
    ∀ t (ht : t < sl.length), ((sl.map f)[t]'(by simpa using ht)).agree sl[t] := by
  intro t ht; simp only [List.getElem_map]; exact hf _

example : (typeCorr .u8 ⟨.u16, ⟨1, 2, fun _ j => if j = 0 then 1000 else 7⟩⟩).arr.get 0 0 = 3 := by decide +kernel
example : (typeCorr .u8 ⟨.u16, ⟨1, 2, fun _ j => if j = 0 then 100 else 7⟩⟩).arr.get 0 0 = 100 := by decide +kernel
example : (rotCorr2 ⟨1, 1⟩ (rot2Inv 0 1) ⟨.u8, ⟨3, 3, fun i j => 3 * i + j⟩⟩).arr.get 0 0 = 2 := by decide +kernel

end concrete

end Darsia.C10
