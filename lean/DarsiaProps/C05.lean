/-
C05 — computed Wasserstein distances behave like an optimal-transport cost.

Model: `DarsiaModel.Transport` (discrete Beckmann problem on the finite-volume model of C06/C07).  Two layers:
* ℚ-layer (`cost`, `IsSeminorm N` with a RATIONAL-valued `N`, rational quadrature nodes): the algebra of the cost functional and of
  the constraint, and statements about a minimum `IsMin` — whose existence is proved only for identical distributions
  (`min_zero_of_equal`); `min_symm`, `min_smul`, `min_weight_smul`, `ge_min` are conditional on a minimum being given.
  The Euclidean norm is not rational-valued, so this layer covers it only on single-component vectors (`normAxis`, thin grids).
* ℝ-layer (`costR`, `IsSeminormR`, real nodes; instance `euclid` = the norm the code uses): `first_moment_bound*`,
  `potential_lower_bound` — these are the statements that hold for the Euclidean cost the code computes, all three L1 modes.
What is proved is about the cost functional, the constraint and bounds valid for EVERY mass-conserving flux; that the iterative
solvers return the cost of a mass-conserving flux, reach a minimum, or are equivariant is NOT proved (observed by the oracle).
-/
import DarsiaModel.Transport
import DarsiaGen.TransportDispatch
import DarsiaProofs.Transport
import DarsiaProofs.TransportQuad
import DarsiaProofs.TransportEmd
import DarsiaProps.C15
namespace Darsia.C05
open Darsia Darsia.Quad

variable {N : (Nat → Rat) → Rat}

/-- the cost of any flux is non-negative (non-negative quadrature weights and cell volume) -/
theorem cost_nonneg (hN : IsSeminorm N) (shape : List Nat) (h : List Rat) (nq : Nat) (wq : Nat → Rat)
    (ptq : Nat → List Rat) (wgt : List Nat → Nat → Rat) (U : Nat → Rat)
    (hv : 0 ≤ vol h) (hw : ∀ q, q < nq → 0 ≤ wq q) : 0 ≤ cost N shape h nq wq ptq wgt U := by
  unfold cost transportDensity
  refine sumTo_nonneg _ _ fun c _ => mul_nonneg hv (sumTo_nonneg _ _ fun q hq => mul_nonneg (hw q hq) (hN.nonneg _))

/-- the cost is absolutely homogeneous in the flux … -/
theorem cost_smul (hN : IsSeminorm N) (shape : List Nat) (h : List Rat) (nq : Nat) (wq : Nat → Rat)
    (ptq : Nat → List Rat) (wgt : List Nat → Nat → Rat) (U : Nat → Rat) (s : Rat) :
    cost N shape h nq wq ptq wgt (fun f => s * U f) = |s| * cost N shape h nq wq ptq wgt U :=
  cost_smul_aux hN shape h nq wq ptq wgt U s

/-- … in particular even: reversing the flux does not change the cost … -/
theorem cost_neg (hN : IsSeminorm N) (shape : List Nat) (h : List Rat) (nq : Nat) (wq : Nat → Rat)
    (ptq : Nat → List Rat) (wgt : List Nat → Nat → Rat) (U : Nat → Rat) :
    cost N shape h nq wq ptq wgt (fun f => - U f) = cost N shape h nq wq ptq wgt U := by
  have := cost_smul hN shape h nq wq ptq wgt U (-1)
  simp only [neg_mul, one_mul, abs_neg, abs_one] at this
  exact this

/-- … and it scales linearly with a constant factor on the cell weight. -/
theorem cost_weight_smul (hN : IsSeminorm N) (shape : List Nat) (h : List Rat) (nq : Nat) (wq : Nat → Rat)
    (ptq : Nat → List Rat) (wgt : List Nat → Nat → Rat) (U : Nat → Rat) (k : Rat) (hk : 0 ≤ k) :
    cost N shape h nq wq ptq (fun i a => k * wgt i a) U = k * cost N shape h nq wq ptq wgt U := by
  rw [cost_wsmul_aux hN, abs_of_nonneg hk]

/-- the zero flux conserves mass for identical distributions and costs nothing -/
theorem feasible_zero (hN : IsSeminorm N) (shape : List Nat) (h : List Rat) (nq : Nat) (wq : Nat → Rat)
    (ptq : Nat → List Rat) (wgt : List Nat → Nat → Rat) :
    Feasible shape h (fun _ => 0) (fun _ => 0) ∧ cost N shape h nq wq ptq wgt (fun _ => 0) = 0 := by
  constructor
  · intro c _
    have := divApply_smul shape h (fun _ => 0) 0 c
    simp only [zero_mul, mul_zero] at this ⊢
    exact this
  · have := cost_smul hN shape h nq wq ptq wgt (fun _ => 0) 0
    simp only [zero_mul, abs_zero] at this
    exact this

/-- swapping source and destination: the reversed flux conserves mass for the reversed difference -/
theorem feasible_neg (shape : List Nat) (h : List Rat) (f U : Nat → Rat) (hF : Feasible shape h f U) :
    Feasible shape h (fun c => - f c) (fun g => - U g) := by
  intro c hc
  have := divApply_smul shape h U (-1) c
  simp only [neg_mul, one_mul] at this
  rw [this, hF c hc]; ring

/-- scaling both masses: the scaled flux conserves mass for the scaled difference -/
theorem feasible_smul (shape : List Nat) (h : List Rat) (f U : Nat → Rat) (s : Rat) (hF : Feasible shape h f U) :
    Feasible shape h (fun c => s * f c) (fun g => s * U g) := by
  intro c hc
  rw [divApply_smul, hF c hc]; ring

/-- any mass-conserving flux costs at least the minimum: a reported distance that is the cost of a mass-conserving
flux (converged or not) is never below the true discrete minimum -/
theorem ge_min (shape : List Nat) (h : List Rat) (nq : Nat) (wq : Nat → Rat) (ptq : Nat → List Rat)
    (wgt : List Nat → Nat → Rat) (f : Nat → Rat) (m : Rat) (U : Nat → Rat)
    (hm : IsMin N shape h nq wq ptq wgt f m) (hF : Feasible shape h f U) :
    m ≤ cost N shape h nq wq ptq wgt U := hm.2 U hF

/-- identical distributions: the minimum is zero -/
theorem min_zero_of_equal (hN : IsSeminorm N) (shape : List Nat) (h : List Rat) (nq : Nat) (wq : Nat → Rat)
    (ptq : Nat → List Rat) (wgt : List Nat → Nat → Rat) (hv : 0 ≤ vol h) (hw : ∀ q, q < nq → 0 ≤ wq q) :
    IsMin N shape h nq wq ptq wgt (fun _ => 0) 0 :=
  ⟨⟨fun _ => 0, feasible_zero hN shape h nq wq ptq wgt⟩, fun V _ => cost_nonneg hN shape h nq wq ptq wgt V hv hw⟩

/-- the minimum is unchanged when source and destination are swapped -/
theorem min_symm (hN : IsSeminorm N) (shape : List Nat) (h : List Rat) (nq : Nat) (wq : Nat → Rat)
    (ptq : Nat → List Rat) (wgt : List Nat → Nat → Rat) (f : Nat → Rat) (m : Rat)
    (hm : IsMin N shape h nq wq ptq wgt f m) : IsMin N shape h nq wq ptq wgt (fun c => - f c) m := by
  obtain ⟨⟨U, hU, hc⟩, hmin⟩ := hm
  refine ⟨⟨fun g => - U g, feasible_neg shape h f U hU, by rw [cost_neg hN, hc]⟩, fun V hV => ?_⟩
  have h1 := feasible_neg shape h _ V hV
  simp only [neg_neg] at h1
  have := hmin _ h1
  rwa [cost_neg hN] at this

/-- the minimum scales linearly when both masses are multiplied by a positive constant -/
theorem min_smul (hN : IsSeminorm N) (shape : List Nat) (h : List Rat) (nq : Nat) (wq : Nat → Rat)
    (ptq : Nat → List Rat) (wgt : List Nat → Nat → Rat) (f : Nat → Rat) (m s : Rat) (hs : 0 < s)
    (hm : IsMin N shape h nq wq ptq wgt f m) : IsMin N shape h nq wq ptq wgt (fun c => s * f c) (s * m) := by
  obtain ⟨⟨U, hU, hc⟩, hmin⟩ := hm
  refine ⟨⟨fun g => s * U g, feasible_smul shape h f U s hU, by rw [cost_smul hN, hc, abs_of_pos hs]⟩, fun V hV => ?_⟩
  have h1 := feasible_smul shape h _ V s⁻¹ hV
  have e : (fun c => s⁻¹ * (s * f c)) = f := by
    funext c; rw [← mul_assoc, inv_mul_cancel₀ hs.ne', one_mul]
  rw [e] at h1
  have h2 := hmin _ h1
  rw [cost_smul hN, abs_of_pos (inv_pos.2 hs)] at h2
  have := mul_le_mul_of_nonneg_left h2 hs.le
  rwa [← mul_assoc, mul_inv_cancel₀ hs.ne', one_mul] at this

/-- the minimum scales linearly with a positive constant cell weight -/
theorem min_weight_smul (hN : IsSeminorm N) (shape : List Nat) (h : List Rat) (nq : Nat) (wq : Nat → Rat)
    (ptq : Nat → List Rat) (wgt : List Nat → Nat → Rat) (f : Nat → Rat) (m k : Rat) (hk : 0 < k)
    (hm : IsMin N shape h nq wq ptq wgt f m) :
    IsMin N shape h nq wq ptq (fun i a => k * wgt i a) f (k * m) := by
  obtain ⟨⟨U, hU, hc⟩, hmin⟩ := hm
  refine ⟨⟨U, hU, by rw [cost_weight_smul hN _ _ _ _ _ _ _ _ hk.le, hc]⟩, fun V hV => ?_⟩
  rw [cost_weight_smul hN _ _ _ _ _ _ _ _ hk.le]
  exact mul_le_mul_of_nonneg_left (hmin V hV) hk.le

/-- 1-D grids: mass conservation leaves no freedom — every mass-conserving flux is the prefix sum of the mass
difference, whatever method or mobility option produced it … -/
theorem unique_flux_1d (n : Nat) (h0 : Rat) (f U : Nat → Rat) (hF : Feasible [n] [h0] f U) :
    ∀ g, g + 1 < n → U g = uniqueFlux1d h0 f g := by
  intro g
  induction g with
  | zero =>
    intro hg
    have := hF 0 (by simp [numCells, prodL]; omega)
    rw [div_1d n h0 U 0 (by omega)] at this
    simp [hg, vol, prodR] at this
    simp [uniqueFlux1d, sumTo, this]
  | succ g ih =>
    intro hg
    have := hF (g + 1) (by simp [numCells, prodL]; omega)
    rw [div_1d n h0 U (g + 1) (by omega)] at this
    simp [hg, vol, prodR] at this
    have ih' := ih (by omega)
    show U (g + 1) = sumTo (g + 1) (fun j => h0 * f j) + h0 * f (g + 1)
    unfold uniqueFlux1d at ih'
    linarith

/-- … and that flux does conserve mass whenever the two distributions have equal total mass. -/
theorem unique_flux_1d_feasible (n : Nat) (h0 : Rat) (f : Nat → Rat) (hsum : sumTo n f = 0) :
    Feasible [n] [h0] f (uniqueFlux1d h0 f) := by
  intro c hc
  have hc' : c < n := by simpa [numCells, prodL] using hc
  rw [div_1d n h0 _ c hc']
  have hS : sumTo n (fun j => h0 * f j) = 0 := by rw [sumTo_mul_left, hsum]; ring
  simp only [vol, prodR, uniqueFlux1d, mul_one]
  rcases Nat.lt_or_ge (c + 1) n with h1 | h1
  · rw [if_pos h1]
    rcases Nat.eq_zero_or_pos c with rfl | h2
    · simp [sumTo]
    · rw [if_pos (show 1 ≤ c from h2), show c - 1 + 1 = c by omega]; simp [sumTo]
  · rw [if_neg (by omega)]
    have hn : n = c + 1 := by omega
    subst hn
    simp only [sumTo] at hS
    rcases Nat.eq_zero_or_pos c with rfl | h2
    · simp only [sumTo, zero_add] at hS
      simp only [Nat.le_zero_eq, Nat.one_ne_zero, if_false]
      linarith
    · rw [if_pos (show 1 ≤ c from h2), show c - 1 + 1 = c by omega]; linarith

/-- **Thin grids** (one cell thick in every direction but `a`: n×1, 1×n, n×1×1, 1×n×1, 1×1×n, and 1-D): faces along
single-cell axes do not exist, so mass conservation determines the flux — two mass-conserving fluxes for the same mass
difference agree on every face (generic dimension, positive face area). -/
theorem unique_flux_thin (shape : List Nat) (h : List Rat) (a : Nat) (f U V : Nat → Rat) (ht : Thin shape a)
    (harea : area h a ≠ 0) (hU : Feasible shape h f U) (hV : Feasible shape h f V) :
    ∀ g, g < numFaces shape → U g = V g := by
  intro g hg
  have hW : ∀ c, c < numCells shape → divApply shape h (fun g => U g + (-1) * V g) c = 0 := by
    intro c hc
    rw [divApply_add, divApply_smul, hU c hc, hV c hc]; ring
  have this : U g + (-1) * V g = 0 := divfree_thin_zero shape h _ a ht harea hW g hg
  linarith

/-- … hence every mass-conserving flux has the same cost there, for every norm, quadrature rule and cell weight:
whatever method or mobility option produced a mass-conserving flux, its cost is the cost of the unique one. -/
theorem thin_cost_unique (shape : List Nat) (h : List Rat) (a : Nat) (f U V : Nat → Rat) (nq : Nat)
    (wq : Nat → Rat) (ptq : Nat → List Rat) (wgt : List Nat → Nat → Rat) (ht : Thin shape a)
    (harea : area h a ≠ 0) (hU : Feasible shape h f U) (hV : Feasible shape h f V) :
    cost N shape h nq wq ptq wgt U = cost N shape h nq wq ptq wgt V :=
  cost_congr N shape h nq wq ptq wgt U V (unique_flux_thin shape h a f U V ht harea hU hV)

/-- the decidable thinness test used by the driver is sound -/
theorem thinB_sound (shape : List Nat) (a : Nat) (h : thinB shape a = true) : Thin shape a := by
  simp only [thinB, Bool.and_eq_true, decide_eq_true_eq, List.all_eq_true, List.mem_range, Bool.or_eq_true,
    beq_iff_eq] at h
  exact ⟨h.1, fun b hb hne => (h.2 b hb).resolve_left hne⟩

/-- the unified front-end, on the NINE spellings that are tabulated from the running code (three documented names, one other
capitalisation of each, three foreign strings): documented methods reach distinct back-ends, the foreign strings are rejected
with `NotImplementedError`.  (A finite sample of the string argument, not a statement about all strings.) -/
theorem dispatch_total :
    Gen.Transport.dispatch .newton = .ok .newton ∧ Gen.Transport.dispatch .bregman = .ok .bregman ∧ Gen.Transport.dispatch .cv2emd = .ok .emd ∧
    Gen.Transport.dispatch .newtonCap = .ok .newton ∧ Gen.Transport.dispatch .bregmanUpper = .ok .bregman ∧
    Gen.Transport.dispatch .cv2emdUpper = .ok .emd ∧
    (∀ m ∈ [Gen.Transport.Method.sinkhorn, .emd, .empty], Gen.Transport.dispatch m = .error .notImpl) := by decide

/-- OpenCV back-end, single-cell move, rescaling formula only (`cv2.EMD`, the normalisation and the float32 signature are not
modelled): conjunct 1 unfolds the definition (result² = mass² · distance², mass = value · cell volume); conjuncts 2–3: symmetric
under reversing the move, quadratic (result linear) in the value. -/
theorem emd_single_move (value dy dx : Rat) (drow dcol : Int) (s : Rat) :
    emdSingleSq value dy dx drow dcol = (value * dy * dx) ^ 2 * ((dcol * dx) ^ 2 + (drow * dy) ^ 2) ∧
    emdSingleSq value dy dx (-drow) (-dcol) = emdSingleSq value dy dx drow dcol ∧
    emdSingleSq (s * value) dy dx drow dcol = s ^ 2 * emdSingleSq value dy dx drow dcol := by
  refine ⟨?_, ?_, ?_⟩ <;> simp only [emdSingleSq] <;> push_cast <;> ring

/-! ### OpenCV back-end: `EMD.__call__` around an abstract `cv2.EMD` satisfying the transport-metric contract `IsW1` -/

/-- single-cell move: `EMD` returns mass × Euclidean distance in physical units (mass = value · cell volume, positions
`(col·dx, row·dy)`); uses only the point-mass clause of the contract -/
theorem emd_call_single_move {n : Nat} {pos : Nat → Rat × Rat} {E} (hE : IsW1 n pos E) (vol v : Rat) (i j : Nat)
    (hi : i < n) (hj : j < n) (hv : v ≠ 0) :
    emdCall E n vol (fun k => if k = i then v else 0) (fun k => if k = j then v else 0) =
      dist2 (pos i) (pos j) * ((v * vol : Rat) : ℝ) := by
  unfold emdCall
  rw [emdWeight_single n i v hi hv, emdWeight_single n j v hj hv, hE.point i j hi hj]
  have : emdIntegral n (fun k => if k = i then v else 0) = v := by
    unfold emdIntegral; exact sumTo_ite_eq n i (fun _ => v) hi
  rw [this]

/-- symmetry for images of EXACTLY equal total sum. (The code's `_compatibility_check` only asserts `allclose(sum_1, sum_2, atol=1e-6)`
and rescales by the first image's sum: for sums that differ within that tolerance the two call orders differ by the same relative
amount — outside this theorem.) -/
theorem emd_call_symm {n : Nat} {pos : Nat → Rat × Rat} {E} (hE : IsW1 n pos E) (vol : Rat) (a b : Nat → Rat)
    (hab : emdIntegral n a = emdIntegral n b) : emdCall E n vol a b = emdCall E n vol b a := by
  unfold emdCall; rw [hE.symm, hab]

/-- linear scaling in the masses: the normalised signatures do not change, the rescaling factor does (no assumption on `E`) -/
theorem emd_call_smul (E : (Nat → Rat) → (Nat → Rat) → ℝ) (n : Nat) (vol : Rat) (a b : Nat → Rat) (s : Rat) (hs : s ≠ 0) :
    emdCall E n vol (fun k => s * a k) (fun k => s * b k) = ((s : Rat) : ℝ) * emdCall E n vol a b := by
  unfold emdCall
  rw [emdWeight_smul n a s hs, emdWeight_smul n b s hs]
  have : emdIntegral n (fun k => s * a k) = s * emdIntegral n a := by unfold emdIntegral; exact sumTo_mul_left n s a
  rw [this]; push_cast; ring

/-- first-moment bound for non-negative images of equal positive sum: displacement of the first moment (positions
`(col·dx, row·dy)`) × cell volume ≤ `EMD` -/
theorem emd_call_first_moment {n : Nat} {pos : Nat → Rat × Rat} {E} (hE : IsW1 n pos E) (vol : Rat) (a b : Nat → Rat)
    (hv : 0 ≤ vol) (ha : ∀ k, k < n → 0 ≤ a k) (hb : ∀ k, k < n → 0 ≤ b k) (hI : 0 < emdIntegral n a)
    (hab : emdIntegral n a = emdIntegral n b) :
    Real.sqrt (((momX n pos a - momX n pos b : Rat) : ℝ) ^ 2 + ((momY n pos a - momY n pos b : Rat) : ℝ) ^ 2) *
        ((vol : Rat) : ℝ) ≤ emdCall E n vol a b :=
  emdCall_first_moment hE vol a b hv ha hb hI hab

/-- the signature the code builds (`_img_to_sig` of the normalised image): one row per pixel in row-major order, weight =
pixel / sum, then `col·del_x`, `row·del_y` with `del_y, del_x = voxel_size`; weights sum to 1 for a non-zero total -/
theorem sig_construction (R C : Nat) (dy dx : Rat) (a : Nat → Rat) (hI : emdIntegral (R * C) a ≠ 0) :
    (sigOf R C dy dx a).length = R * C ∧
    (∀ r c, r < R → c < C → (sigOf R C dy dx a).getD (r * C + c) (0, 0, 0) =
      (a (r * C + c) / emdIntegral (R * C) a, (c : Rat) * dx, (r : Rat) * dy)) ∧
    sumTo (R * C) (emdWeight (R * C) a) = 1 := by
  refine ⟨by simp [sigOf], fun r c hr hc => ?_, ?_⟩
  · have hk : r * C + c < R * C := by
      calc r * C + c < r * C + C := by omega
        _ = (r + 1) * C := by ring
        _ ≤ R * C := Nat.mul_le_mul_right _ hr
    have h1 : (r * C + c) % C = c := by rw [Nat.mul_comm, Nat.mul_add_mod]; exact Nat.mod_eq_of_lt hc
    have h2 : (r * C + c) / C = r := by
      rw [Nat.mul_comm, Nat.mul_add_div (by omega)]; simp [Nat.div_eq_of_lt hc]
    simp only [sigOf, List.getD_eq_getElem?_getD, List.getElem?_map, List.getElem?_range hk, Option.map_some,
      Option.getD_some, emdWeight, emdPos, h1, h2]
  · show sumTo (R * C) (fun k => a k / emdIntegral (R * C) a) = 1
    rw [sumTo_div]; exact div_self hI

/-- the contract `IsW1` is satisfiable (non-vacuity): the displacement of the first moment itself meets all three clauses -/
theorem isW1_satisfiable (n : Nat) (pos : Nat → Rat × Rat) :
    IsW1 n pos (fun s t => Real.sqrt (((momX n pos s - momX n pos t : Rat) : ℝ) ^ 2 +
      ((momY n pos s - momY n pos t : Rat) : ℝ) ^ 2)) := by
  have hx : ∀ i, i < n → momX n pos (fun k => if k = i then 1 else 0) = (pos i).1 := by
    intro i hi
    unfold momX
    rw [sumTo_congr (g := fun k => if k = i then (pos k).1 else 0) (fun k _ => by by_cases h : k = i <;> simp [h])]
    exact sumTo_ite_eq n i (fun k => (pos k).1) hi
  have hy : ∀ i, i < n → momY n pos (fun k => if k = i then 1 else 0) = (pos i).2 := by
    intro i hi
    unfold momY
    rw [sumTo_congr (g := fun k => if k = i then (pos k).2 else 0) (fun k _ => by by_cases h : k = i <;> simp [h])]
    exact sumTo_ite_eq n i (fun k => (pos k).2) hi
  refine ⟨fun s t => ?_, fun i j hi hj => ?_, fun s t _ _ _ _ => le_refl _⟩
  · congr 1
    push_cast; ring
  · simp only [hx i hi, hx j hj, hy i hi, hy j hj, dist2]

/-! ### first-moment bound (real quadrature nodes, Euclidean norm) -/

/-- **First-moment bound**, abstract form: for every seminorm, every rule with non-negative weights of total 1 whose
first moments are ½ (integrates linears exactly on the unit cell), every mass-conserving flux `U` (`div U = vol·f`) and
constant cell weight `k`: `|k| · N(Σ_c x_c · vol · f_c) ≤ cost(U)`, `x_c` = physical cell centres (`xcoord`). -/
theorem first_moment_bound {N : (ℕ → ℝ) → ℝ} (hN : IsSeminormR N) (shape : List Nat) (h : List Rat)
    (hl : h.length = shape.length) (hv : 0 ≤ vol h) (t : List (List ℝ × ℝ)) (ht : CellRuleFacts t shape.length)
    (k : ℝ) (f U : Nat → Rat) (hF : Feasible shape h f U) :
    |k| * N (fun a => ((sumTo (numCells shape) (fun c => xcoord h a (decF shape c) * (vol h * f c)) : Rat) : ℝ)) ≤
      costR N shape h t k U := by
  rw [costR_weight hN]
  exact mul_le_mul_of_nonneg_left
    (first_moment_bound_aux hN shape h hl hv t ht.nonneg ht.total ht.first f U hF) (abs_nonneg k)

/-- table obligation (re-evaluated on the tables extracted from the current source): every point of every accepted
Gauss table and of the corner tables has `dim` coordinates -/
theorem rule_point_lengths :
    (∀ p ∈ Gen.accepted, ptsLengthOk (Gen.rule p.1 p.2) p.1 = true) ∧
    (∀ dim ∈ Gen.cornerDims, ptsLengthOk (Gen.corners dim) dim = true) := by decide

/-- the rules `transport_density` selects are among the proved ones: order 0 (CONSTANT_CELL_PROJECTION) and the
`"max"` alias (RAVIART_THOMAS) in every dimension 1–3; corners (CONSTANT_SUBCELL_PROJECTION) in 1–3 -/
theorem selected_rules_accepted :
    ∀ dim ∈ [1, 2, 3], (dim, 0) ∈ Gen.accepted ∧ dim ∈ Gen.cornerDims ∧
      ∃ o, Gen.maxOrder dim = some o ∧ (dim, o) ∈ Gen.accepted := by decide

/-- the hypothesis on the quadrature rule holds for `gauss_reference_cell(dim, order)` of every accepted table (C15) … -/
theorem gauss_cell_rule_facts : ∀ p ∈ Gen.accepted, ∃ r, Gen.rule p.1 p.2 = .ok r ∧
    CellRuleFacts r.toUnitCell.real p.1 := by
  intro p hp
  obtain ⟨r, hr, hs⟩ := C15.gauss_reference_cell_exact p hp
  exact ⟨r, hr, cellRuleFacts_of_unitSpec hs (by omega) (ptsLengthOk_sound (rule_point_lengths.1 p hp) hr)⟩

/-- … and for `reference_cell_corners(dim)`. -/
theorem corner_rule_facts : ∀ dim ∈ Gen.cornerDims, ∃ r, Gen.corners dim = .ok r ∧ CellRuleFacts r.real dim := by
  intro dim hd
  obtain ⟨r, hr, hs⟩ := C15.corner_rule_multilinear dim hd
  exact ⟨r, hr, cellRuleFacts_of_cornerSpec hs (ptsLengthOk_sound (rule_point_lengths.2 dim hd) hr)⟩

/-- **First-moment bound in the norm the code uses**: Euclidean norm per quadrature point, Gauss rule of any accepted
order on the unit cell (in particular order 0 and `"max"`): the Euclidean length of the displacement of the first moment,
times the constant cell weight, is at most the cost of any mass-conserving flux. -/
theorem first_moment_bound_gauss : ∀ p ∈ Gen.accepted, ∃ r, Gen.rule p.1 p.2 = .ok r ∧
    ∀ (shape : List Nat) (h : List Rat) (k : ℝ) (f U : Nat → Rat), shape.length = p.1 → h.length = p.1 →
      0 ≤ vol h → Feasible shape h f U →
      |k| * euclid p.1 (fun a => ((sumTo (numCells shape) (fun c => xcoord h a (decF shape c) * (vol h * f c)) : Rat) : ℝ)) ≤
        costR (euclid p.1) shape h r.toUnitCell.real k U := by
  intro p hp
  obtain ⟨r, hr, hf⟩ := gauss_cell_rule_facts p hp
  refine ⟨r, hr, fun shape h k f U hs hl hv hF => ?_⟩
  exact first_moment_bound (euclid_isSeminormR p.1) shape h (by omega) hv _ (by rw [hs]; exact hf) k f U hF

/-- … and for the corner rule (CONSTANT_SUBCELL_PROJECTION). -/
theorem first_moment_bound_corners : ∀ dim ∈ Gen.cornerDims, ∃ r, Gen.corners dim = .ok r ∧
    ∀ (shape : List Nat) (h : List Rat) (k : ℝ) (f U : Nat → Rat), shape.length = dim → h.length = dim →
      0 ≤ vol h → Feasible shape h f U →
      |k| * euclid dim (fun a => ((sumTo (numCells shape) (fun c => xcoord h a (decF shape c) * (vol h * f c)) : Rat) : ℝ)) ≤
        costR (euclid dim) shape h r.real k U := by
  intro dim hd
  obtain ⟨r, hr, hf⟩ := corner_rule_facts dim hd
  refine ⟨r, hr, fun shape h k f U hs hl hv hF => ?_⟩
  exact first_moment_bound (euclid_isSeminormR dim) shape h (by omega) hv _ (by rw [hs]; exact hf) k f U hF

/-- **Weak duality (certificate for the brute-force minimum).** A Kantorovich potential `p` (one value per cell) and a
cell field `g` with `Σ_a g_{c,a}² ≤ 1` in every cell, coupled on every face by `½(g_lo + g_hi)·vol = −area·(p_hi − p_lo)`
(the mean of `g` across the face is minus the difference quotient of `p`), give `Σ_c p_c·vol·f_c ≤ cost(U)` for EVERY
mass-conserving flux `U` — Euclidean norm per quadrature point, any rule with the `CellRuleFacts` (all three L1 modes).
Hence a reported distance that is the cost of a mass-conserving flux can never be below such a certified bound. -/
theorem potential_lower_bound (shape : List Nat) (h : List Rat) (hv : 0 ≤ vol h) (t : List (List ℝ × ℝ))
    (ht : CellRuleFacts t shape.length) (f U p : Nat → Rat) (g : Nat → Nat → Rat) (hF : Feasible shape h f U)
    (hc : ∀ k, k < numFaces shape → vol h * (1 / 2) *
        (g (conn shape k).1 (faceAxis shape k) + g (conn shape k).2 (faceAxis shape k)) =
        -(area h (faceAxis shape k) * (p (conn shape k).2 - p (conn shape k).1)))
    (hg : ∀ c, c < numCells shape → sumTo shape.length (fun a => g c a * g c a) ≤ 1) :
    ((sumTo (numCells shape) (fun c => p c * (vol h * f c)) : Rat) : ℝ) ≤
      costR (euclid shape.length) shape h t 1 U :=
  potential_lower_bound_aux (euclid_isSeminormR shape.length) shape h hv t ht.nonneg ht.total ht.first f U p g hF hc
    (fun c hc' v => euclid_polar shape.length (g c) (hg c hc') v)

/-- **Weak duality with one dual vector per quadrature point** (exact dual of the cost for a rule with rational nodes):
non-negative weights; `g c q` in the Euclidean unit ball for every cell and quadrature point; on every face the RT0-weighted
dual field matches the potential: `vol·(Σ_q w_q pt_{q,a} g_{lo,q,a} + Σ_q w_q (1−pt_{q,a}) g_{hi,q,a}) = −area·(p_hi − p_lo)`.
Then `Σ_c p_c·vol·f_c ≤ cost(U)` for every mass-conserving flux. -/
theorem potential_lower_bound_rule (shape : List Nat) (h : List Rat) (hv : 0 ≤ vol h) (nq : Nat) (wq : Nat → Rat)
    (ptq : Nat → List Rat) (hw : ∀ q, q < nq → 0 ≤ wq q) (f U p : Nat → Rat) (g : Nat → Nat → Nat → Rat)
    (hF : Feasible shape h f U)
    (hc : ∀ k, k < numFaces shape → vol h *
        (dualHi nq wq ptq g (conn shape k).1 (faceAxis shape k) + dualLo nq wq ptq g (conn shape k).2 (faceAxis shape k)) =
        -(area h (faceAxis shape k) * (p (conn shape k).2 - p (conn shape k).1)))
    (hg : ∀ c, c < numCells shape → ∀ q, q < nq → sumTo shape.length (fun a => g c q a * g c q a) ≤ 1) :
    ((sumTo (numCells shape) (fun c => p c * (vol h * f c)) : Rat) : ℝ) ≤
      costR (euclid shape.length) shape h (ruleR nq wq ptq) 1 U :=
  potential_lower_bound_rule_aux (euclid_isSeminormR shape.length) shape h hv nq wq ptq hw f U p g hF hc
    (fun c hc' q hq v => euclid_polar shape.length (g c q) (hg c hc' q hq) v)

/-- **… for the corner rule** (CONSTANT_SUBCELL_PROJECTION): a certificate accepted by the driver's exact check `certRuleOK`
bounds the corner-rule cost of every mass-conserving flux from below — the exact dual of that cost, so the bound can be made
tight. -/
theorem potential_lower_bound_corners (shape : List Nat) (h : List Rat) (hv : 0 ≤ vol h) (f U p : Nat → Rat)
    (g : Nat → Nat → Nat → Rat) (hF : Feasible shape h f U)
    (hok : certRuleOK shape h (2 ^ shape.length) (cornerW shape.length) (cornerPt shape.length) p g = true) :
    ((sumTo (numCells shape) (fun c => p c * (vol h * f c)) : Rat) : ℝ) ≤
      costR (euclid shape.length) shape h (ruleR (2 ^ shape.length) (cornerW shape.length) (cornerPt shape.length)) 1 U := by
  simp only [certRuleOK, Bool.and_eq_true, List.all_eq_true, List.mem_range, decide_eq_true_eq] at hok
  refine potential_lower_bound_rule shape h hv _ _ _ (fun q _ => ?_) f U p g hF hok.1 hok.2
  unfold cornerW; positivity

/-- the model's corner rule has the facts of a rule on the unit cell in dimensions 1–3 (weights `2^-dim`, total 1, first
moments ½) and lists the `2^dim` corners, each once -/
theorem corner_rule_model : ∀ dim ∈ [1, 2, 3],
    sumTo (2 ^ dim) (cornerW dim) = 1 ∧
    (∀ a ∈ List.range dim, sumTo (2 ^ dim) (fun q => cornerW dim q * (cornerPt dim q).getD a 0) = 1 / 2) ∧
    ((List.range (2 ^ dim)).map (cornerPt dim)).Nodup ∧
    ∀ q ∈ List.range (2 ^ dim), (cornerPt dim q).length = dim ∧ ∀ x ∈ cornerPt dim q, x = 0 ∨ x = 1 := by
  decide +kernel

/-- the driver's exact certificate check is the hypothesis pair of `potential_lower_bound` -/
theorem certOK_sound (shape : List Nat) (h : List Rat) (p : Nat → Rat) (g : Nat → Nat → Rat)
    (hok : certOK shape h p g = true) :
    (∀ k, k < numFaces shape → vol h * (1 / 2) *
        (g (conn shape k).1 (faceAxis shape k) + g (conn shape k).2 (faceAxis shape k)) =
        -(area h (faceAxis shape k) * (p (conn shape k).2 - p (conn shape k).1))) ∧
    (∀ c, c < numCells shape → sumTo shape.length (fun a => g c a * g c a) ≤ 1) := by
  simp only [certOK, Bool.and_eq_true, List.all_eq_true, List.mem_range, decide_eq_true_eq] at hok
  exact hok

/-! ### non-vacuity -/

/-- the absolute value of one component is a seminorm (the Euclidean norm on single-component vectors) -/
example : IsSeminorm (fun v => |v 0|) := ⟨fun s v => abs_mul s (v 0), fun v w => abs_add_le (v 0) (w 0)⟩
/-- a concrete 1-D instance: 4 cells, h = 1/2, mass difference (1, -3, 0, 2): the unique flux and its feasibility -/
example : (List.range 3).map (uniqueFlux1d (1/2) (fun c => [1, -3, 0, 2].getD c 0)) = [1/2, -1, -1] := by decide +kernel
example : feasibleB [4] [1/2] (fun c => [1, -3, 0, 2].getD c 0) (fun g => [1/2, -1, -1].getD g 0) = true := by
  decide +kernel

/-- thin 2-D and 3-D instances: the prefix-sum flux conserves mass (so by `unique_flux_thin` it is THE flux) -/
example : thinB [4, 1] 0 = true ∧ feasibleB [4, 1] [1/2, 3] (fun c => [1, -3, 0, 2].getD c 0)
    (uniqueFluxThin [4, 1] [1/2, 3] 0 (fun c => [1, -3, 0, 2].getD c 0)) = true := by decide +kernel
example : thinB [1, 1, 3] 2 = true ∧ feasibleB [1, 1, 3] [2, 1/2, 1/4] (fun c => [1, 1, -2].getD c 0)
    (uniqueFluxThin [1, 1, 3] [2, 1/2, 1/4] 2 (fun c => [1, 1, -2].getD c 0)) = true := by decide +kernel
/-- a concrete dual certificate on a 2×2 grid (unit voxels): `p = (0, 1, 1, 2)·(1/2)`, `g ≡ (-1/2, -1/2)` -/
example : certOK [2, 2] [1, 1] (fun c => [0, 1/2, 1/2, 1].getD c 0) (fun _ a => if a < 2 then -1/2 else 0) = true := by
  decide +kernel
/-- a per-point certificate for the corner rule on a 2×2 grid: `g ≡ (-1/2, -1/2)` at every corner, same potential -/
example : certRuleOK [2, 2] [1, 1] 4 (cornerW 2) (cornerPt 2) (fun c => [0, 1/2, 1/2, 1].getD c 0)
    (fun _ _ a => if a < 2 then -1/2 else 0) = true := by decide +kernel
/-- the rule hypothesis of the first-moment bound is satisfiable by the code's own rules -/
example : ∃ r, Gen.corners 2 = .ok r ∧ CellRuleFacts r.real 2 := corner_rule_facts 2 (by decide)
example : ∃ r, Gen.rule 3 2 = .ok r ∧ CellRuleFacts r.toUnitCell.real 3 := gauss_cell_rule_facts (3, 2) (by decide)

end Darsia.C05
