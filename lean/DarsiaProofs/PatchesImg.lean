/-
Lemmas for C19 round 2: counting form of the tiling, blending specification, patches as sub-images.
-/
import DarsiaProofs.ImageArr
import DarsiaProofs.Patches
import DarsiaModel.PatchesImg
namespace Darsia.Patch
open Darsia Darsia.Im

theorem count_range' (s n x : Nat) : (List.range' s n).count x = if s ≤ x ∧ x < s + n then 1 else 0 := by
  induction n generalizing s with
  | zero => simp
  | succ n ih =>
    rw [List.range'_succ, List.count_cons, ih (s + 1)]
    by_cases h : s = x
    · subst h; simp
    · have : ¬ (s == x) = true := by simpa using h
      simp only [this, if_false]
      by_cases h2 : s + 1 ≤ x ∧ x < s + 1 + n
      · have : s ≤ x ∧ x < s + (n + 1) := by omega
        simp [h2, this]
      · have : ¬ (s ≤ x ∧ x < s + (n + 1)) := by omega
        simp [h2, this]

/-- COUNTING form of the tiling: every pixel of the axis lies in the interior of exactly one patch -/
theorem cover_count_one (a : Axis) (hov : a.ov ≤ a.pv) (hcover : a.N ≤ a.n * a.pv) (x : Nat) (hx : x < a.N) :
    ((List.range a.n).map fun k => (a.piece k).count x).sum = 1 := by
  have h := pieces_partition a hov hcover
  have hc : ((List.range a.n).flatMap a.piece).count x = 1 := by
    rw [h, List.range_eq_range', count_range']; simp [hx]
  rw [List.count_flatMap] at hc
  exact hc

theorem blend_sum_aux (w val : Nat → Rat) (b : Rat) (l : List Nat) (h : ∀ k ∈ l, w k ≠ 0 → val k = b) :
    (l.map fun k => w k * val k).sum = b * (l.map w).sum := by
  induction l with
  | nil => simp
  | cons k l ih =>
    simp only [List.map_cons, List.sum_cons]
    rw [ih (fun k' hk' => h k' (by simp [hk']))]
    by_cases h0 : w k = 0
    · rw [h0]; ring
    · rw [h k (by simp) h0]; ring

/-- SPEC of blending: weights that form a partition of unity at a pixel, applied to patches that all hold the
base value there, reproduce the base value -/
theorem blend_partition_of_unity (w val : Nat → Rat) (n : Nat) (b : Rat) (h1 : ((List.range n).map w).sum = 1)
    (hv : ∀ k, k < n → w k ≠ 0 → val k = b) : blendAt w val n = b := by
  unfold blendAt
  rw [blend_sum_aux w val b (List.range n) (fun k hk => hv k (by simpa using hk)), h1]; ring

theorem interiorWeight_eq_count (a : Axis) (hov : a.ov ≤ a.pv) (x k : Nat) :
    interiorWeight a x k = (((a.piece k).count x : Nat) : Rat) := by
  unfold interiorWeight
  rw [piece_eq a k hov, count_range']
  generalize min (k * a.pv) a.N = s
  generalize min ((k + 1) * a.pv) a.N - s = m
  by_cases h : s ≤ x ∧ x < s + m
  · have hm : x ∈ List.range' s m := by rw [List.mem_range'_1]; exact h
    simp only [hm, h, if_true, and_self]; norm_num
  · have hm : ¬ x ∈ List.range' s m := by rw [List.mem_range'_1]; exact h
    simp only [hm, h, if_false]; norm_num

/-- the interior indicators are a partition of unity on the image -/
theorem interiorWeight_sum_one (a : Axis) (hov : a.ov ≤ a.pv) (hcover : a.N ≤ a.n * a.pv) (x : Nat) (hx : x < a.N) :
    ((List.range a.n).map (interiorWeight a x)).sum = 1 := by
  have h := cover_count_one a hov hcover x hx
  have e : (List.range a.n).map (interiorWeight a x) = (List.range a.n).map fun k => (((a.piece k).count x : Nat) : Rat) := by
    apply List.map_congr_left; intro k _; exact interiorWeight_eq_count a hov x k
  rw [e]
  have : (((List.range a.n).map fun k => (a.piece k).count x).sum : Rat) = 1 := by exact_mod_cast h
  rw [← this]
  clear this h e
  induction (List.range a.n) with
  | nil => simp
  | cons k l ih => simp only [List.map_cons, List.sum_cons]; push_cast; rw [ih]

end Darsia.Patch
