import DarsiaProofs.HeapShare
namespace Darsia.Heap

/-- every reference stored in `h` is below `N` -/
def WFb (N : Nat) (h : Heap) : Prop := ∀ (a : Nat) (v : Val), h[a]? = some v → ∀ b ∈ v.refs, b < N

theorem wfb_of_wf {h : Heap} (wf : WF h) {N : Nat} (hN : h.length ≤ N) : WFb N h :=
  fun a v hv b hb => Nat.lt_of_lt_of_le (wf a v hv b hb) hN

theorem wf_of_wfb {h : Heap} (w : WFb h.length h) : WF h := w

theorem wfb_append {N : Nat} {h1 : Heap} (w : WFb N h1) (cs : List Val) (hc : ∀ v ∈ cs, ∀ b ∈ v.refs, b < N) :
    WFb N (h1 ++ cs) := by
  intro a v hv b hb
  by_cases hlt : a < h1.length
  · rw [List.getElem?_append_left hlt] at hv; exact w a v hv b hb
  · rw [List.getElem?_append_right (by omega)] at hv
    exact hc v (List.mem_of_getElem? hv) b hb

theorem wfb_set {N : Nat} {h1 : Heap} (w : WFb N h1) (c : Nat) (v : Val) (hv : ∀ b ∈ v.refs, b < N) :
    WFb N (h1.set c v) := by
  intro a x hx b hb
  by_cases hac : c = a
  · subst hac
    by_cases hl : c < h1.length
    · rw [List.getElem?_set_self hl] at hx; cases hx; exact hv b hb
    · rw [List.getElem?_eq_none (by simpa using hl)] at hx; contradiction
  · rw [List.getElem?_set_ne hac] at hx; exact w a x hx b hb

theorem rec_refs_lt {h : Heap} (wf : WF h) {a : Nat} {r : ImgRec} (hg : getImg h a = .ok r) :
    r.arr < h.length ∧ r.dims < h.length ∧ r.origin < h.length ∧ r.date < h.length ∧ r.time < h.length := by
  unfold getImg at hg
  split at hg
  · rename_i r' hv
    cases hg
    have := wf a _ hv
    simp only [Val.refs, List.mem_cons, List.not_mem_nil, or_false, forall_eq_or_imp, forall_eq] at this
    exact this
  · contradiction

theorem readArr_lt {h : Heap} {a : Nat} {p} (hr : readArr h a = .ok p) : a < h.length := by
  unfold readArr at hr
  split at hr
  · rename_i hv; exact (List.getElem?_eq_some_iff.mp hv).1
  · rename_i hv; exact (List.getElem?_eq_some_iff.mp hv).1
  · contradiction

theorem getT_lt {h : Heap} {a : Nat} {v} (hr : getT h a = .ok v) : a < h.length := by
  unfold getT at hr
  split at hr
  · rename_i hv; exact (List.getElem?_eq_some_iff.mp hv).1
  · rename_i hv; exact (List.getElem?_eq_some_iff.mp hv).1
  · contradiction

theorem baseOf_lt {h : Heap} (wf : WF h) {x : Nat} {p : Nat × List Nat} (hb : baseOf h x = .ok p) : p.1 < h.length := by
  unfold baseOf at hb
  split at hb
  · rename_i hv; cases hb; exact (List.getElem?_eq_some_iff.mp hv).1
  · rename_i b _ _ hv; cases hb; exact wf x _ hv b (by simp [Val.refs])
  · contradiction

theorem ctorDate_spec' {h : Heap} {c : CtorArgs} {t : Nat} {x : List Val × Nat × Val} (hd : ctorDate h c t = .ok x) :
    (∀ v ∈ x.1, v.refs = []) ∧ ((c.date = some x.2.1 ∧ x.2.1 < h.length ∧ x.1 = []) ∨ (x.2.1 = h.length + 2 ∧ x.1.length = 1)) := by
  unfold ctorDate at hd
  split at hd
  · split at hd
    · rename_i a _ _ hg
      cases hd; exact ⟨by simp, Or.inl ⟨by assumption, getT_lt hg, rfl⟩⟩
    · contradiction
  · cases hd
    refine ⟨?_, Or.inr ⟨rfl, rfl⟩⟩
    intro v hv
    simp only [List.mem_singleton] at hv
    subst hv
    split <;> rfl

theorem ctorTime_spec' {h : Heap} {c : CtorArgs} {t n2 : Nat} {rd : Option Rat} {dv : Val} {x : List Val × Nat}
    (hd : ctorTime h c t rd dv n2 = .ok x) :
    (∀ v ∈ x.1, v.refs = []) ∧ ((c.time = some x.2 ∧ x.2 < h.length ∧ x.1 = []) ∨ (x.2 = n2 ∧ x.1.length = 1)) := by
  unfold ctorTime at hd
  split at hd
  · split at hd
    · rename_i a _ _ hg
      cases hd; exact ⟨by simp, Or.inl ⟨by assumption, getT_lt hg, rfl⟩⟩
    · contradiction
  · split at hd
    · rename_i v hv
      cases hd
      refine ⟨?_, Or.inr ⟨rfl, rfl⟩⟩
      intro w hw
      simp only [List.mem_singleton] at hw
      subst hw
      exact timeFromDate_leaf hv
    · contradiction

/-- upper bounds for what the cells allocated by the constructor refer to: the array it is given and the cells it allocates -/
theorem ctorPlan_ub {h : Heap} {c : CtorArgs} {cells : List Val} (hp : ctorPlan h c = .ok cells) :
    ∀ v ∈ cells, ∀ b ∈ v.refs, b < h.length + cells.length ∨ b = c.arr := by
  simp only [ctorPlan, bind, Except.bind, pure, Except.pure] at hp
  repeat' split at hp
  all_goals first | contradiction | skip
  cases hp
  rename_i _ _ _ _ _ _ _ _ _ _ _ dt hdt _ tm htm _ _ _
  obtain ⟨ld, ad⟩ := ctorDate_spec' hdt
  obtain ⟨lt, at'⟩ := ctorTime_spec' htm
  intro v hv b hb
  simp only [List.mem_append, List.mem_cons, List.not_mem_nil, or_false] at hv
  rcases hv with (((rfl | rfl) | hv) | hv) | rfl
  · simp [Val.refs] at hb
  · simp [Val.refs] at hb
  · rw [ld v hv] at hb; simp at hb
  · rw [lt v hv] at hb; simp at hb
  · simp only [Val.refs, List.mem_cons, List.not_mem_nil, or_false] at hb
    simp only [List.length_append, List.length_cons, List.length_nil]
    rcases hb with rfl | rfl | rfl | rfl | rfl
    · exact Or.inr rfl
    · left; omega
    · left; omega
    · left
      rcases ad with ⟨_, h1, _⟩ | ⟨h1, h2⟩ <;> omega
    · left
      rcases at' with ⟨_, h1, _⟩ | ⟨h1, h2⟩
      · omega
      · rcases ad with ⟨_, _, h3⟩ | ⟨_, h3⟩
        · rw [h3] at h1; simp at h1; omega
        · omega

theorem copyCells_ub {h : Heap} {n a : Nat} {cells : List Val} (hc : copyCells h n a = .ok cells) :
    cells.length = 6 ∧ ∀ v ∈ cells, ∀ b ∈ v.refs, b < n + 6 := by
  have hrefs := copyCells_refs hc
  simp only [copyCells, bind, Except.bind, pure, Except.pure] at hc
  repeat' split at hc
  all_goals first | contradiction | skip
  cases hc
  rename_i _ _ _ _ _ _ _ _ _ dt hdt _ tm htm
  refine ⟨rfl, fun v hv b hb => ?_⟩
  simp only [List.mem_cons, List.not_mem_nil, or_false] at hv
  rcases hv with rfl | rfl | rfl | rfl | rfl | rfl
  · simp [Val.refs] at hb
  · simp [Val.refs] at hb
  · simp [Val.refs] at hb
  · rw [getT_leaf hdt] at hb; simp at hb
  · rw [getT_leaf htm] at hb; simp at hb
  · simp [Val.refs] at hb
    rcases hb with rfl | rfl | rfl | rfl | rfl <;> omega

end Darsia.Heap

namespace Darsia.Heap

macro "ctor_ub" hc:ident : tactic => `(tactic| (
  intro v hv x hx
  rcases ctorPlan_ub $hc v hv x hx with h1 | h1
  all_goals simp [fromMeta] at h1 ⊢
  all_goals omega))

/-- cells that refer to nothing -/
theorem leaf_ub {N : Nat} {cs : List Val} (hl : ∀ v ∈ cs, v.refs = []) : ∀ v ∈ cs, ∀ b ∈ v.refs, b < N := by
  intro v hv b hb; rw [hl v hv] at hb; simp at hb

theorem wfb_rebind {N : Nat} {h1 : Heap} (w : WFb N h1) {s : Nat} {r : ImgRec} (hg : getImg h1 s = .ok r) (k : Nat)
    (hk : k < N) (v : Val) (hv : v.refs = []) : WFb N ((h1 ++ [v]).set s (.img { r with arr := k })) := by
  apply wfb_set (wfb_append w _ (leaf_ub (by simp [hv])))
  unfold getImg at hg
  split at hg
  · rename_i r' hr
    cases hg
    have hr' := w s _ hr
    intro b hb
    simp only [Val.refs, List.mem_cons, List.not_mem_nil, or_false] at hb hr'
    rcases hb with rfl | rfl | rfl | rfl | rfl
    · exact hk
    all_goals exact hr' _ (by simp)
  · contradiction

theorem wfb_copy {h : Heap} (wf : WF h) {a : Nat} {cells : List Val} (hc : copyCells h h.length a = .ok cells)
    {N : Nat} (hN : h.length + 6 ≤ N) : WFb N (h ++ cells) :=
  wfb_append (wfb_of_wf wf (by omega)) _ (fun v hv b hb => Nat.lt_of_lt_of_le ((copyCells_ub hc).2 v hv b hb) hN)

theorem step_wf_simple (g) (h h' : Heap) (op : Op) (r : Nat) (wf : WF h) (hs : step g h op = .ok (h', r))
    (hk : match op with
      | .copy _ | .mul _ _ _ | .astype _ | .copyRebind _ _ _ | .weightImg _ _ _ | .weightNum _ _ | .measure _ _
      | .arrMap _ _ => True
      | _ => False) : WF h' := by
  cases op with
  | copy a =>
    ex_split hs; cases hs
    rename_i _ cells hc
    apply wf_of_wfb
    exact wfb_copy wf hc (by simp [(copyCells_ub hc).1])
  | mul a t s =>
    ex_split hs; cases hs
    have hc := ‹copyCells _ _ _ = _›
    have hr := ‹getImg _ (List.length h + 5) = _›
    apply wf_of_wfb
    exact wfb_rebind (wfb_copy wf hc (by simp [(copyCells_ub hc).1])) hr _ (by simp [(copyCells_ub hc).1]) _ rfl
  | astype a =>
    ex_split hs; cases hs
    have hc := ‹copyCells _ _ _ = _›
    have hr := ‹getImg _ (List.length h + 5) = _›
    apply wf_of_wfb
    exact wfb_rebind (wfb_copy wf hc (by simp [(copyCells_ub hc).1])) hr _ (by simp [(copyCells_ub hc).1]) _ rfl
  | copyRebind a sh vs =>
    ex_split hs; cases hs
    have hc := ‹copyCells _ _ _ = _›
    have hr := ‹getImg _ (List.length h + 5) = _›
    apply wf_of_wfb
    exact wfb_rebind (wfb_copy wf hc (by simp [(copyCells_ub hc).1])) hr _ (by simp [(copyCells_ub hc).1]) _ rfl
  | weightImg a w rz =>
    ex_split hs
    all_goals cases hs
    all_goals (
      have hc := ‹copyCells _ _ _ = _›
      have hr := ‹getImg _ (List.length h + 5) = _›
      apply wf_of_wfb
      exact wfb_rebind (wfb_copy wf hc (by simp [(copyCells_ub hc).1])) hr _ (by simp [(copyCells_ub hc).1]) _ rfl)
  | weightNum a w =>
    ex_split hs; cases hs
    have hc := ‹copyCells _ _ _ = _›
    apply wf_of_wfb
    exact wfb_set (wfb_copy wf hc (by simp [(copyCells_ub hc).1])) _ _ (by simp [Val.refs])
  | measure args v =>
    ex_split hs; cases hs
    apply wf_of_wfb
    exact wfb_append (wfb_of_wf wf (by simp)) _ (leaf_ub (by simp [Val.refs]))
  | arrMap a vs =>
    ex_split hs; cases hs
    apply wf_of_wfb
    exact wfb_append (wfb_of_wf wf (by simp)) _ (leaf_ub (by simp [Val.refs]))
  | _ => exact absurd hk (by simp)

end Darsia.Heap

namespace Darsia.Heap

theorem step_wf_meta (g) (h h' : Heap) (op : Op) (r : Nat) (wf : WF h) (hs : step g h op = .ok (h', r))
    (hk : match op with
      | .ctor _ | .add _ _ | .sub _ _ | .derive _ _ _ | .astypeClass _ _ | .reduceAxis _ _ _ _ _ | .extrude _ _ _ _
      | .superpose _ _ _ _ _ => True
      | _ => False) : WF h' := by
  cases op with
  | ctor c =>
    ex_split hs; cases hs
    have hc := ‹ctorPlan _ _ = _›
    have ha : c.arr < h.length := by
      simp only [ctorPlan, bind, Except.bind] at hc
      split at hc
      · contradiction
      · rename_i hr; exact readArr_lt hr
    apply wf_of_wfb
    apply wfb_append (wfb_of_wf wf (by simp))
    intro v hv x hx
    rcases ctorPlan_ub hc v hv x hx with h1 | h1
    · simpa using h1
    · subst h1; simp; omega
  | add a b =>
    ex_split hs; cases hs
    have hc := ‹ctorPlan _ _ = _›
    apply wf_of_wfb
    apply wfb_append (wfb_append (wfb_of_wf wf (by simp <;> omega)) _ (leaf_ub (by simp [Val.refs])))
    ctor_ub hc
  | sub a b =>
    ex_split hs; cases hs
    have hc := ‹ctorPlan _ _ = _›
    apply wf_of_wfb
    apply wfb_append (wfb_append (wfb_of_wf wf (by simp <;> omega)) _ (leaf_ub (by simp [Val.refs])))
    ctor_ub hc
  | derive a sh vs =>
    ex_split hs; cases hs
    have hc := ‹ctorPlan _ _ = _›
    apply wf_of_wfb
    apply wfb_append (wfb_append (wfb_of_wf wf (by simp <;> omega)) _ (leaf_ub (by simp [Val.refs])))
    ctor_ub hc
  | astypeClass a fs =>
    ex_split hs; cases hs
    have hc := ‹ctorPlan _ _ = _›
    apply wf_of_wfb
    apply wfb_append (wfb_append (wfb_of_wf wf (by simp <;> omega)) _ (leaf_ub (by simp [Val.refs])))
    ctor_ub hc
  | reduceAxis a ax sh vs no =>
    ex_split hs; cases hs
    have hc := ‹ctorPlan _ _ = _›
    apply wf_of_wfb
    apply wfb_append (wfb_append (wfb_of_wf wf (by simp <;> omega)) _ (leaf_ub (by simp [Val.refs])))
    ctor_ub hc
  | extrude a ht num no =>
    ex_split hs; cases hs
    have hc := ‹ctorPlan _ _ = _›
    apply wf_of_wfb
    apply wfb_append (wfb_append (wfb_of_wf wf (by simp <;> omega)) _ (leaf_ub (by simp [Val.refs])))
    ctor_ub hc
  | superpose l sh vs nd no =>
    ex_split hs
    all_goals cases hs
    have hc := ‹ctorPlan _ _ = _›
    apply wf_of_wfb
    apply wfb_append (wfb_append (wfb_of_wf wf (by simp <;> omega)) _ (leaf_ub (by simp [Val.refs])))
    ctor_ub hc
  | _ => exact absurd hk (by simp)

end Darsia.Heap

namespace Darsia.Heap

theorem step_wf_cmp (g) (h h' : Heap) (op : Op) (r : Nat) (wf : WF h) (hs : step g h op = .ok (h', r))
    (hk : match op with | .cmpImg _ _ _ | .cmpNum _ _ _ => True | _ => False) : WF h' := by
  cases op with
  | cmpNum k a s =>
    ex_split hs; cases hs
    rename_i _ ra hra _ sd hsd _ cells hc _ rr hr
    have w2 : WFb ((h ++ [Val.arr (List.take ra.spaceDim sd.fst) (List.replicate (spaceNum ra sd.fst) 0)] ++ cells).length + 1)
        (h ++ [Val.arr (List.take ra.spaceDim sd.fst) (List.replicate (spaceNum ra sd.fst) 0)] ++ cells) := by
      apply wfb_append (wfb_append (wfb_of_wf wf (by simp <;> omega)) _ (leaf_ub (by simp [Val.refs])))
      ctor_ub hc
    have w3 := wfb_rebind w2 hr _ (Nat.lt_succ_self _) (Val.arr sd.fst (List.map (fun x => k.eval x s) sd.snd)) rfl
    intro a v hv b hb
    have := w3 a v hv b hb
    simp at this ⊢; omega
  | cmpImg k a b =>
    ex_split hs; cases hs
    rename_i _ ra hra _ rb hrb _ sd hsd _ sb hsb _ cells hc _ rr hr _
    have w2 : WFb ((h ++ [Val.arr (List.take ra.spaceDim sd.fst) (List.replicate (spaceNum ra sd.fst) 0)] ++ cells).length + 1)
        (h ++ [Val.arr (List.take ra.spaceDim sd.fst) (List.replicate (spaceNum ra sd.fst) 0)] ++ cells) := by
      apply wfb_append (wfb_append (wfb_of_wf wf (by simp <;> omega)) _ (leaf_ub (by simp [Val.refs])))
      ctor_ub hc
    have w3 := wfb_rebind w2 hr _ (Nat.lt_succ_self _) (Val.arr sd.fst (zipData k.eval sd.snd sb.snd)) rfl
    intro a v hv b hb
    have := w3 a v hv b hb
    simp at this ⊢; omega
  | _ => exact absurd hk (by simp)

theorem step_wf_view (g) (h h' : Heap) (op : Op) (r : Nat) (wf : WF h) (hs : step g h op = .ok (h', r))
    (hk : match op with | .timeSlice _ _ | .timeInterval _ _ _ | .subregion _ _ _ _ => True | _ => False) : WF h' := by
  cases op with
  | timeSlice a i =>
    ex_split hs
    all_goals cases hs
    have hb := baseOf_lt wf ‹baseOf h _ = _›
    have hdv := pickT_leaf ‹pickT false _ _ = _›
    have htv := pickT_leaf ‹pickT true _ _ = _›
    have hc := ‹ctorPlan _ _ = _›
    apply wf_of_wfb
    apply wfb_append (wfb_append (wfb_of_wf wf (by simp <;> omega)) _ ?_)
    · ctor_ub hc
    · intro v hv x hx
      simp only [List.mem_cons, List.not_mem_nil, or_false] at hv
      rcases hv with rfl | rfl | rfl
      · simp [Val.refs] at hx; subst hx; simp; omega
      · rw [hdv] at hx; simp at hx
      · rw [htv] at hx; simp at hx
  | timeInterval a lo hi =>
    ex_split hs
    all_goals cases hs
    rename_i _ _ _ _ _ _ _ _ _ _ _ _ _ _ _ _ dv hdv _ tv htv _ cells hc
    have hb := baseOf_lt wf ‹baseOf h _ = _›
    apply wf_of_wfb
    apply wfb_append (wfb_append (wfb_of_wf wf (by simp <;> omega)) _ ?_)
    · ctor_ub hc
    · intro v hv x hx
      simp only [List.mem_cons, List.not_mem_nil, or_false] at hv
      rcases hv with rfl | rfl | rfl
      · simp [Val.refs] at hx; subst hx; simp; omega
      · rw [sliceT_leaf hdv] at hx; simp at hx
      · rw [sliceT_leaf htv] at hx; simp at hx
  | subregion a rg nd no =>
    ex_split hs
    all_goals cases hs
    have hb := baseOf_lt wf ‹baseOf h _ = _›
    have hc := ‹ctorPlan _ _ = _›
    apply wf_of_wfb
    apply wfb_append (wfb_append (wfb_of_wf wf (by simp <;> omega)) _ ?_)
    · ctor_ub hc
    · intro v hv x hx
      simp only [List.mem_cons, List.not_mem_nil, or_false] at hv
      rcases hv with rfl | rfl | rfl
      · simp [Val.refs] at hx; subst hx; simp; omega
      · simp [Val.refs] at hx
      · simp [Val.refs] at hx
  | _ => exact absurd hk (by simp)

end Darsia.Heap

namespace Darsia.Heap

theorem append_wf {h h1 : Heap} {s i : Nat} {off : Option Rat} (wf : WF h) (ha : append h s i off = .ok h1) : WF h1 := by
  obtain ⟨rs, v1, v2, v3, tn, hg, l1, l2, l3, rfl⟩ := append_spec ha
  obtain ⟨_, r2, r3, _, _⟩ := rec_refs_lt wf hg
  apply wf_of_wfb
  apply wfb_set (wfb_append (wfb_of_wf wf (by simp)) _ ?_)
  · intro b hb
    simp only [Val.refs, List.mem_cons, List.not_mem_nil, or_false] at hb
    simp only [List.length_set, List.length_append, List.length_cons, List.length_nil]
    rcases hb with rfl | rfl | rfl | rfl | rfl <;> omega
  · intro v hv b hb
    simp only [List.mem_cons, List.not_mem_nil, or_false] at hv
    rcases hv with rfl | rfl | rfl
    · rw [l1] at hb; simp at hb
    · rw [l2] at hb; simp at hb
    · rw [l3] at hb; simp at hb

theorem appendAll_wf {s : Nat} : ∀ (is : List Nat) {h h1 : Heap}, WF h → appendAll h s is = .ok h1 → WF h1
  | [], h, h1, wf, ha => by simp only [appendAll] at ha; cases ha; exact wf
  | i :: is, h, h1, wf, ha => by
    simp only [appendAll, bind, Except.bind] at ha
    split at ha; · contradiction
    rename_i hm hmid
    exact appendAll_wf is (append_wf wf hmid) ha

theorem step_wf_rest (g) (h h' : Heap) (op : Op) (r : Nat) (wf : WF h) (hs : step g h op = .ok (h', r))
    (hk : match op with | .stack _ | .toMono _ _ _ => True | _ => False) : WF h' := by
  cases op with
  | stack l =>
    simp only [step, bind, Except.bind, pure, Except.pure] at hs
    repeat' split at hs
    all_goals first | contradiction | skip
    cases hs
    rename_i _ cells hc _ hall
    exact appendAll_wf _ (wf_of_wfb (wfb_copy wf hc (by simp [(copyCells_ub hc).1]))) hall
  | toMono a k cv =>
    ex_split hs
    all_goals cases hs
    all_goals (
      have hcc := ‹copyCells _ _ _ = _›
      have hr := ‹getImg _ (List.length h + 5) = _›
      have hc := ‹ctorPlan _ _ = _›
      have hlen := (copyCells_ub hcc).1
      apply wf_of_wfb
      first
        | (apply wfb_append (wfb_append (wfb_rebind (wfb_copy wf hcc (by simp [hlen])) hr _ (by simp [hlen]) _ rfl) _ ?_)
           · intro v hv x hx
             rcases ctorPlan_ub hc v hv x hx with h1 | h1
             all_goals simp [fromMeta, hlen] at h1 ⊢
             all_goals omega
           · intro v hv x hx
             simp only [List.mem_singleton] at hv
             subst hv
             simp [Val.refs] at hx
             subst hx
             simp [hlen])
        | (apply wfb_append (wfb_append (wfb_copy wf hcc (by simp [hlen])) _ (leaf_ub (by simp [Val.refs])))
           intro v hv x hx
           rcases ctorPlan_ub hc v hv x hx with h1 | h1
           all_goals simp [fromMeta, hlen] at h1 ⊢
           all_goals omega))
  | _ => exact absurd hk (by simp)

/-- **Every modelled call preserves well-formedness** (no dangling references are created) -/
theorem step_wf (g) (h h' : Heap) (op : Op) (r : Nat) (wf : WF h) (hs : step g h op = .ok (h', r)) : WF h' := by
  cases op with
  | copy a => exact step_wf_simple g h h' _ r wf hs trivial
  | mul a t s => exact step_wf_simple g h h' _ r wf hs trivial
  | astype a => exact step_wf_simple g h h' _ r wf hs trivial
  | copyRebind a sh vs => exact step_wf_simple g h h' _ r wf hs trivial
  | weightImg a w rz => exact step_wf_simple g h h' _ r wf hs trivial
  | weightNum a w => exact step_wf_simple g h h' _ r wf hs trivial
  | measure args v => exact step_wf_simple g h h' _ r wf hs trivial
  | arrMap a vs => exact step_wf_simple g h h' _ r wf hs trivial
  | ctor c => exact step_wf_meta g h h' _ r wf hs trivial
  | add a b => exact step_wf_meta g h h' _ r wf hs trivial
  | sub a b => exact step_wf_meta g h h' _ r wf hs trivial
  | derive a sh vs => exact step_wf_meta g h h' _ r wf hs trivial
  | astypeClass a fs => exact step_wf_meta g h h' _ r wf hs trivial
  | reduceAxis a ax sh vs no => exact step_wf_meta g h h' _ r wf hs trivial
  | extrude a ht num no => exact step_wf_meta g h h' _ r wf hs trivial
  | superpose l sh vs nd no => exact step_wf_meta g h h' _ r wf hs trivial
  | cmpImg k a b => exact step_wf_cmp g h h' _ r wf hs trivial
  | cmpNum k a s => exact step_wf_cmp g h h' _ r wf hs trivial
  | timeSlice a i => exact step_wf_view g h h' _ r wf hs trivial
  | timeInterval a lo hi => exact step_wf_view g h h' _ r wf hs trivial
  | subregion a rg nd no => exact step_wf_view g h h' _ r wf hs trivial
  | stack l => exact step_wf_rest g h h' _ r wf hs trivial
  | toMono a k cv => exact step_wf_rest g h h' _ r wf hs trivial

theorem run_wf (g) : ∀ (ops : List Op) (h h' : Heap), WF h → run g h ops = .ok h' → WF h'
  | [], h, h', wf, hr => by simp only [run] at hr; cases hr; exact wf
  | op :: ops, h, h', wf, hr => by
    simp only [run, bind, Except.bind] at hr
    split at hr; · contradiction
    rename_i p hp
    exact run_wf g ops p.1 h' (step_wf g h p.1 op p.2 wf hp) hr

end Darsia.Heap
