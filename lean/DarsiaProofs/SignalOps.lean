/-
The operational models (label loop with mask assignment, `DarsiaModel.SignalOps`) compute the clause-shaped
pointwise forms of `DarsiaModel.SignalModels`.
-/
import DarsiaModel.SignalOps
import DarsiaProofs.SignalModels

namespace Darsia.Sig

/-! ### `np.unique` -/

theorem mem_insertSorted (x a : Nat) : ∀ ys : List Nat, a ∈ insertSorted x ys ↔ a = x ∨ a ∈ ys
  | [] => by simp [insertSorted]
  | y :: ys => by
    unfold insertSorted
    split
    · rename_i h; subst h; simp
    · split
      · simp
      · simp only [List.mem_cons, mem_insertSorted x a ys]; tauto

theorem insertSorted_pairwise (x : Nat) : ∀ ys : List Nat, ys.Pairwise (· < ·) → (insertSorted x ys).Pairwise (· < ·)
  | [], _ => by simp [insertSorted]
  | y :: ys, h => by
    have hy := List.pairwise_cons.mp h
    unfold insertSorted
    split
    · exact h
    · rename_i hne
      split
      · rename_i hlt
        refine List.pairwise_cons.mpr ⟨?_, h⟩
        intro a ha
        rcases List.mem_cons.mp ha with rfl | ha
        · exact hlt
        · exact Nat.lt_trans hlt (hy.1 a ha)
      · rename_i hnlt
        refine List.pairwise_cons.mpr ⟨?_, insertSorted_pairwise x ys hy.2⟩
        intro a ha
        rcases (mem_insertSorted x a ys).mp ha with rfl | ha
        · omega
        · exact hy.1 a ha

theorem uniqSorted_pairwise (l : List Nat) : (uniqSorted l).Pairwise (· < ·) := by
  induction l with
  | nil => simp [uniqSorted]
  | cons x l ih => exact insertSorted_pairwise x _ ih

theorem uniqSorted_nodup (l : List Nat) : (uniqSorted l).Nodup :=
  (uniqSorted_pairwise l).imp (fun h => Nat.ne_of_lt h)

theorem mem_uniqSorted (a : Nat) (l : List Nat) : a ∈ uniqSorted l ↔ a ∈ l := by
  induction l with
  | nil => simp [uniqSorted]
  | cons x l ih =>
    have : uniqSorted (x :: l) = insertSorted x (uniqSorted l) := rfl
    rw [this, mem_insertSorted, ih]; simp

theorem idxIn_isSome_of_mem : ∀ (u : List Nat) (l : Nat), l ∈ u → ∃ j, idxIn u l = some j ∧ j < u.length
  | [], _, h => by simp at h
  | y :: ys, l, h => by
    unfold idxIn
    split
    · exact ⟨0, rfl, by simp⟩
    · rename_i hne
      have : l ∈ ys := by simpa [hne] using h
      obtain ⟨j, hj, hl⟩ := idxIn_isSome_of_mem ys l this
      exact ⟨j + 1, by simp [hj], by simp; omega⟩

theorem idxIn_none_of_not_mem : ∀ (u : List Nat) (l : Nat), l ∉ u → idxIn u l = none
  | [], _, _ => rfl
  | y :: ys, l, h => by
    have h1 : l ≠ y := fun e => h (by simp [e])
    have h2 : l ∉ ys := fun e => h (by simp [e])
    simp [idxIn, h1, idxIn_none_of_not_mem ys l h2]

/-! ### the loop, pixel by pixel -/

/-- pointwise view of a three-list sweep -/
def zip3map {α β : Type} (h : α → Nat → β → α) : List α → List Nat → List β → List α
  | r :: rs, l :: ls, x :: xs => h r l x :: zip3map h rs ls xs
  | rs, _, _ => rs

theorem assignMask_eq {α β : Type} (g : β → α → α) (label : Nat) (rs : List α) (ls : List Nat) (xs : List β) :
    assignMask g label rs ls xs = zip3map (fun r l x => if l = label then g x r else r) rs ls xs := by
  induction rs generalizing ls xs with
  | nil => simp [assignMask, zip3map]
  | cons r rs ih =>
    cases ls with
    | nil => simp [assignMask, zip3map]
    | cons l ls =>
      cases xs with
      | nil => simp [assignMask, zip3map]
      | cons x xs => simp [assignMask, zip3map, ih]

theorem zip3map_comp {α β : Type} (h1 h2 : α → Nat → β → α) (rs : List α) (ls : List Nat) (xs : List β) :
    zip3map h2 (zip3map h1 rs ls xs) ls xs = zip3map (fun r l x => h2 (h1 r l x) l x) rs ls xs := by
  induction rs generalizing ls xs with
  | nil => simp [zip3map]
  | cons r rs ih =>
    cases ls with
    | nil => simp [zip3map]
    | cons l ls =>
      cases xs with
      | nil => simp [zip3map]
      | cons x xs => simp [zip3map, ih]

/-- the array loop is the pixel loop at every pixel -/
theorem loopAssign_eq {α β : Type} (f : Nat → β → α → α) (u : List Nat) (i : Nat) (res : List α) (labs : List Nat)
    (xs : List β) : loopAssign f u i res labs xs = zip3map (fun r l x => loopPix f u i r l x) res labs xs := by
  induction u generalizing i res with
  | nil =>
    simp only [loopAssign, loopPix]
    induction res generalizing labs xs with
    | nil => simp [zip3map]
    | cons r rs ih =>
      cases labs with
      | nil => simp [zip3map]
      | cons l ls => cases xs with
        | nil => simp [zip3map]
        | cons x xs => simp [zip3map, ← ih]
  | cons label rest ih =>
    simp only [loopAssign, loopPix]
    rw [ih, assignMask_eq, zip3map_comp]

/-- with distinct labels the pixel loop applies exactly the step of the pixel's own label -/
theorem loopPix_spec {α β : Type} (f : Nat → β → α → α) : ∀ (u : List Nat) (i : Nat) (r : α) (l : Nat) (x : β),
    u.Nodup → loopPix f u i r l x = match idxIn u l with | some j => f (i + j) x r | none => r
  | [], _, _, _, _, _ => rfl
  | y :: ys, i, r, l, x, hn => by
    have hn' := List.nodup_cons.mp hn
    simp only [loopPix, idxIn]
    by_cases h : l = y
    · subst h
      rw [loopPix_spec f ys (i + 1) _ l x hn'.2, idxIn_none_of_not_mem ys l hn'.1]
      simp
    · rw [loopPix_spec f ys (i + 1) _ l x hn'.2]
      simp only [h, if_false]
      cases idxIn ys l with
      | none => rfl
      | some j => simp; congr 1; omega

theorem zip3map_const {α β : Type} (h : α → Nat → β → α) (c : α) : ∀ (ls : List Nat) (xs : List β),
    ls.length = xs.length → zip3map h (xs.map fun _ => c) ls xs = List.zipWith (fun l x => h c l x) ls xs
  | [], [], _ => rfl
  | l :: ls, x :: xs, hl => by
    simp only [List.map_cons, zip3map, List.zipWith_cons_cons]
    rw [zip3map_const h c ls xs (by simpa using hl)]
  | [], _ :: _, hl => by simp at hl
  | _ :: _, [], hl => by simp at hl

/-- general form: a loop over the unique labels starting from a constant array is, pixel by pixel, the step of
the pixel's label applied to the constant -/
theorem loop_eq_pointwise {α β : Type} (f : Nat → β → α → α) (c : α) (labs : List Nat) (xs : List β)
    (hl : labs.length = xs.length) :
    loopAssign f (uniqSorted labs) 0 (xs.map fun _ => c) labs xs
      = List.zipWith (fun l x => match idxIn (uniqSorted labs) l with | some j => f j x c | none => c) labs xs := by
  rw [loopAssign_eq, zip3map_const _ c labs xs hl]
  congr 1
  funext l x
  rw [loopPix_spec f _ 0 c l x (uniqSorted_nodup labs)]
  simp

/-! ### the three label-wise classes -/

/-- **HeterogeneousLinearModel**: the label loop returns, at every pixel, the homogeneous
`LinearModel(scaling[j], offset[j])` of the pixel's label (`j` = its position among the sorted unique labels) -/
theorem hetCall_eq_pointwise (L : Nat) (s o : List Rat) (labs : List Nat) (xs : List Rat) (hl : labs.length = xs.length) :
    hetCall s o labs xs = List.zipWith (fun l x => match idxIn (uniqSorted labs) l with
      | some j => (M.het L s o).applyPix ⟨j, x⟩ | none => 0) labs xs := by
  unfold hetCall
  rw [loop_eq_pointwise _ 0 labs xs hl]
  rfl

/-- **StaticThresholdModel, label-wise**: the loop selects a pixel iff its value is strictly between the bounds
of its own label -/
theorem thrHetCall_eq_pointwise (lo : List Rat) (hi : Option (List Rat)) (labs : List Nat) (xs : List Rat)
    (hl : labs.length = xs.length) :
    thrHetCall lo hi labs xs = List.zipWith (fun l x => match idxIn (uniqSorted labs) l with
      | some j => thrHet lo hi none ⟨j, x⟩ | none => false) labs xs := by
  unfold thrHetCall
  rw [loop_eq_pointwise _ false labs xs hl]
  congr 1
  funext l x
  cases idxIn (uniqSorted labs) l with
  | none => rfl
  | some j => cases hi <;> simp [thrHet, between]

/-- **HeterogeneousModel** (generic wrapper): every pixel runs through the model stored for its label -/
theorem wrapCall_eq_pointwise (ms : List M) (labs : List Nat) (xs : List Rat) (hl : labs.length = xs.length) :
    wrapCall ms labs xs = List.zipWith (fun l x => match idxIn (uniqSorted labs) l with
      | some j => wrapApplyPix ms ⟨j, x⟩ | none => 0) labs xs := by
  unfold wrapCall
  rw [loop_eq_pointwise _ 0 labs xs hl]
  rfl

/-- **generic wrapper**: for any per-label models `g j` on pixels of any type (colour pixels through a per-label
kernel interpolation, …) every pixel of the result is the model of its own label applied to that pixel -/
theorem wrapCallG_eq_pointwise {α β : Type} (zero : α) (g : Nat → β → α) (labs : List Nat) (xs : List β)
    (hl : labs.length = xs.length) :
    wrapCallG zero g labs xs = List.zipWith (fun l x => match idxIn (uniqSorted labs) l with
      | some j => g j x | none => zero) labs xs := by
  unfold wrapCallG
  rw [loop_eq_pointwise _ zero labs xs hl]

/-- every pixel's label has a position among the unique labels (no pixel is left at the initial value) -/
theorem label_has_index (labs : List Nat) (l : Nat) (h : l ∈ labs) :
    ∃ j, idxIn (uniqSorted labs) l = some j ∧ j < (uniqSorted labs).length :=
  idxIn_isSome_of_mem _ l ((mem_uniqSorted l labs).mpr h)

/-- homogeneous thresholding and the mask / `return_float` tail: the selection is the clause form, whatever
`return_float` is -/
theorem thrHom_finish (lo : Rat) (hi : Option Rat) (rf : Bool) (xs : List Rat) :
    (thrFinish rf none (thrHomCall lo hi xs)).2 = xs.map (fun x => thrHom lo hi none ⟨0, x⟩) ∧
    ∀ mask : List Bool, (thrFinish rf (some mask) (thrHomCall lo hi xs)).2
      = List.zipWith (fun x m => thrHom lo hi (some m) ⟨0, x⟩) xs mask := by
  constructor
  · cases hi <;> simp [thrFinish, thrHomCall, thrHom, between]
  · intro mask
    cases hi <;> simp only [thrFinish, thrHomCall, thrHom, between, Option.getD_some, Bool.and_true] <;>
      · induction xs generalizing mask with
        | nil => simp
        | cons x xs ih => cases mask with
          | nil => simp
          | cons m ms => simp [ih]

end Darsia.Sig
