/-
The consumer of the quadrature rules: `transport_density` / `l1_dissipation` of
`src/darsia/measure/wasserstein.py` integrate `‖cell flux‖` over each cell with the reference-cell rule of the
L1 mode. The RT0 cell flux is affine in the reference coordinates, so

* a rule that is exact for linears returns, component by component, the mean (= midpoint) flux, and
* with non-negative weights, `‖mean flux‖ ≤ quadrature of ‖flux‖` (triangle inequality + homogeneity),

which is the hypothesis the first-moment bound of C05 needs. Part 1 is on builder b's exact model
(`DarsiaModel.Transport`, ℚ); part 2 is the same over ℝ for the Gauss rules with irrational nodes.
-/
import DarsiaProofs.Transport
import DarsiaProofs.QuadratureMain

namespace Darsia

/-! ### Part 1: on the ℚ model of `transport_density` (importable by C05) -/

/-- Jensen for a seminorm and a finite non-negative combination -/
theorem seminorm_sumTo_le {N : (Nat → Rat) → Rat} (hN : IsSeminorm N) (nq : Nat) (wq : Nat → Rat)
    (v : Nat → Nat → Rat) (hw : ∀ q, q < nq → 0 ≤ wq q) :
    N (fun a => sumTo nq (fun q => wq q * v q a)) ≤ sumTo nq (fun q => wq q * N (v q)) := by
  induction nq with
  | zero => simp only [sumTo]; exact le_of_eq hN.zero
  | succ n ih =>
    simp only [sumTo]
    have h1 := hN.add (fun a => sumTo n (fun q => wq q * v q a)) (fun a => wq n * v n a)
    have h2 := hN.smul (wq n) (v n)
    rw [abs_of_nonneg (hw n (by omega))] at h2
    have h3 := ih (fun q hq => hw q (by omega))
    linarith

/-- the weighted cell flux is affine in the quadrature point: the rule applied to the components
returns the flux at the weighted centroid `mid` of the rule (weights summing to 1) -/
theorem cellVec_quadrature (shape : List Nat) (U : Nat → Rat) (wgt : List Nat → Nat → Rat) (idx : List Nat)
    (nq : Nat) (wq : Nat → Rat) (ptq : Nat → List Rat) (mid : List Rat) (h0 : sumTo nq wq = 1)
    (hmom : ∀ a, sumTo nq (fun q => wq q * (ptq q).getD a 0) = mid.getD a 0) (a : Nat) :
    sumTo nq (fun q => wq q * cellVec shape U wgt (ptq q) idx a) = cellVec shape U wgt mid idx a := by
  unfold cellVec faceToCell
  have e : ∀ q, wq q * (wgt idx a * ((ptq q).getD a 0 * uHi shape U a idx + (1 - (ptq q).getD a 0) * uLo shape U a idx))
      = (wgt idx a * (uHi shape U a idx - uLo shape U a idx)) * (wq q * (ptq q).getD a 0)
        + (wgt idx a * uLo shape U a idx) * wq q := by intro q; ring
  rw [sumTo_congr (fun q _ => e q), sumTo_add, sumTo_mul_left, sumTo_mul_left, hmom a, h0]
  ring

/-- **‖mean flux‖ ≤ quadrature of ‖flux‖** on the exact model: for any rule with non-negative weights
summing to 1 and centroid `mid`, the seminorm of the weighted cell flux at `mid` is bounded by
`transport_density`. -/
theorem mean_le_transportDensity {N : (Nat → Rat) → Rat} (hN : IsSeminorm N) (shape : List Nat) (nq : Nat)
    (wq : Nat → Rat) (ptq : Nat → List Rat) (wgt : List Nat → Nat → Rat) (U : Nat → Rat) (c : Nat)
    (mid : List Rat) (hw : ∀ q, q < nq → 0 ≤ wq q) (h0 : sumTo nq wq = 1)
    (hmom : ∀ a, sumTo nq (fun q => wq q * (ptq q).getD a 0) = mid.getD a 0) :
    N (cellVec shape U wgt mid (decF shape c)) ≤ transportDensity N shape nq wq ptq wgt U c := by
  unfold transportDensity
  have h := seminorm_sumTo_le hN nq wq (fun q => cellVec shape U wgt (ptq q) (decF shape c)) hw
  have e : (fun a => sumTo nq (fun q => wq q * cellVec shape U wgt (ptq q) (decF shape c) a))
      = cellVec shape U wgt mid (decF shape c) := by
    funext a; exact cellVec_quadrature shape U wgt (decF shape c) nq wq ptq mid h0 hmom a
  rwa [e] at h

/-- summed over the cells: `Σ_c vol · ‖mean flux of cell c‖ ≤ l1_dissipation` -/
theorem mean_le_cost {N : (Nat → Rat) → Rat} (hN : IsSeminorm N) (shape : List Nat) (h : List Rat) (nq : Nat)
    (wq : Nat → Rat) (ptq : Nat → List Rat) (wgt : List Nat → Nat → Rat) (U : Nat → Rat) (mid : List Rat)
    (hv : 0 ≤ vol h) (hw : ∀ q, q < nq → 0 ≤ wq q) (h0 : sumTo nq wq = 1)
    (hmom : ∀ a, sumTo nq (fun q => wq q * (ptq q).getD a 0) = mid.getD a 0) :
    sumTo (numCells shape) (fun c => vol h * N (cellVec shape U wgt mid (decF shape c)))
      ≤ cost N shape h nq wq ptq wgt U := by
  unfold cost
  have : ∀ n, sumTo n (fun c => vol h * N (cellVec shape U wgt mid (decF shape c)))
      ≤ sumTo n (fun c => vol h * transportDensity N shape nq wq ptq wgt U c) := by
    intro n
    induction n with
    | zero => simp [sumTo]
    | succ n ih =>
      simp only [sumTo]
      have := mul_le_mul_of_nonneg_left (mean_le_transportDensity hN shape nq wq ptq wgt U n mid hw h0 hmom) hv
      linarith
  exact this _

end Darsia

/-! ### Part 2: over ℝ, for every reference-cell rule (Gauss rules with irrational nodes included) -/

namespace Darsia.Quad
open Real

/-- exponent list of the coordinate function `p ↦ p_a` in `d` variables -/
def unitExp : ℕ → ℕ → List ℕ
  | 0, _ => []
  | d + 1, 0 => 1 :: List.replicate d 0
  | d + 1, a + 1 => 0 :: unitExp d a

theorem unitExp_length : ∀ d a, (unitExp d a).length = d
  | 0, _ => rfl
  | d + 1, 0 => by simp [unitExp]
  | d + 1, a + 1 => by simp [unitExp, unitExp_length d a]

theorem unitExp_le_one : ∀ d a, ∀ e ∈ unitExp d a, e ≤ 1
  | 0, _ => by simp [unitExp]
  | d + 1, 0 => by
    intro e he; simp only [unitExp, List.mem_cons, List.mem_replicate] at he
    rcases he with rfl | ⟨_, rfl⟩ <;> omega
  | d + 1, a + 1 => by
    intro e he; simp only [unitExp, List.mem_cons] at he
    rcases he with rfl | he
    · omega
    · exact unitExp_le_one d a e he

theorem monoEval_unitExp : ∀ (d a : ℕ) (p : List ℝ), p.length = d → a < d → monoEval (unitExp d a) p = p.getD a 0
  | 0, _, _, _, h => by omega
  | d + 1, 0, x :: xs, _, _ => by simp [unitExp, monoEval, monoEval_zero]
  | d + 1, a + 1, x :: xs, hp, ha => by
    simp only [unitExp, monoEval, pow_zero, one_mul, List.getD_cons_succ]
    exact monoEval_unitExp d a xs (by simpa using hp) (by omega)
  | d + 1, _, [], hp, _ => by simp at hp

theorem prod_unitExp (I : ℕ → ℝ) (hI : I 0 = 1) : ∀ d a, a < d → ((unitExp d a).map I).prod = I 1
  | 0, _, h => by omega
  | d + 1, 0, _ => by simp [unitExp, hI]
  | d + 1, a + 1, h => by simp [unitExp, hI, prod_unitExp I hI d a (by omega)]

/-- what a consumer needs of a reference-cell rule on `[0,1]^dim`: non-negative weights summing to 1,
`dim` coordinates per point, centroid at the cell centre (= exact for linears) -/
structure UnitRuleFacts (t : List (List ℝ × ℝ)) (dim : ℕ) : Prop where
  nonneg : ∀ pw ∈ t, 0 ≤ pw.2
  total : (t.map Prod.snd).sum = 1
  dims : ∀ pw ∈ t, pw.1.length = dim
  centroid : ∀ a < dim, (t.map fun pw => pw.2 * pw.1.getD a 0).sum = 1 / 2

theorem unitRuleFacts_of_exact {t : List (List ℝ × ℝ)} {dim m : ℕ} (hm : 1 ≤ m)
    (hex : ExactOn t dim m (fun k => ∫ x in (0 : ℝ)..1, x ^ k)) (hpos : ∀ pw ∈ t, 0 < pw.2)
    (hd : ∀ pw ∈ t, pw.1.length = dim) : UnitRuleFacts t dim := by
  have hI0 : (fun k => ∫ x in (0 : ℝ)..1, x ^ k) 0 = 1 := by simp
  refine ⟨fun pw h => (hpos pw h).le, ?_, hd, ?_⟩
  · rw [sum_weights t dim, hex _ (by simp) (by simp), prod_replicate_map]; simp
  · intro a ha
    have := hex (unitExp dim a) (unitExp_length dim a) (fun e he => le_trans (unitExp_le_one dim a e he) hm)
    rw [prod_unitExp _ hI0 dim a ha] at this
    simp only [unit_integral] at this
    rw [← (by norm_num : (1 : ℝ) / ((1 : ℕ) + 1) = 1 / 2), ← this, momN]
    congr 1
    apply List.map_congr_left
    intro pw hpw
    rw [monoEval_unitExp dim a pw.1 (hd pw hpw) ha]

theorem realPairs_mem {pts : List (List QExpr)} {wts : List QExpr} (h : pts.length = wts.length)
    {pw : List ℝ × ℝ} (hpw : pw ∈ realPairs pts wts) : ∃ w ∈ wts, pw.2 = evalR w := by
  have : pw.2 ∈ (realPairs pts wts).map Prod.snd := List.mem_map.mpr ⟨pw, hpw, rfl⟩
  rw [realPairs_snd h] at this
  obtain ⟨w, hw, he⟩ := List.mem_map.mp this
  exact ⟨w, hw, he.symm⟩

/-- the unit-cell rule of every accepted `(dim, order)` has the facts (orders ≥ 0: degree `2n−1 ≥ 1`) -/
theorem UnitSpec.facts {r : Rule} {dim n : ℕ} (h : UnitSpec r dim n) (hn : 1 ≤ n) :
    UnitRuleFacts r.toUnitCell.real dim := by
  refine unitRuleFacts_of_exact (m := 2 * n - 1) (by omega) h.exact ?_ h.dims
  intro pw hpw
  obtain ⟨w, hw, he⟩ := realPairs_mem h.lengths hpw
  rw [he]; exact h.pos w hw

theorem CornerSpec.facts {r : Rule} {dim : ℕ} (h : CornerSpec r dim) : UnitRuleFacts r.real dim := by
  refine unitRuleFacts_of_exact (m := 1) le_rfl h.exact ?_ h.dims
  intro pw hpw
  obtain ⟨w, hw, he⟩ := realPairs_mem h.lengths hpw
  rw [he]; exact h.pos w hw

/-! #### `transport_density` of one cell over ℝ -/

structure IsSeminormR (N : (ℕ → ℝ) → ℝ) : Prop where
  smul : ∀ (s : ℝ) (v : ℕ → ℝ), N (fun a => s * v a) = |s| * N v
  add : ∀ v w : ℕ → ℝ, N (fun a => v a + w a) ≤ N v + N w

theorem IsSeminormR.zero {N} (hN : IsSeminormR N) : N (fun _ => 0) = 0 := by
  have := hN.smul 0 (fun _ => 0); simpa using this

/-- `Σ_q w_q · N(flux at p_q)`: the transport density of a cell whose (weighted) flux at reference
coordinates `p` is `flux p` -/
def density (N : (ℕ → ℝ) → ℝ) (t : List (List ℝ × ℝ)) (flux : List ℝ → ℕ → ℝ) : ℝ :=
  (t.map fun pw => pw.2 * N (flux pw.1)).sum

/-- a flux whose every component is affine in the reference coordinates (RT0: component `a` depends on
`p_a` only) -/
def IsAffineFlux (dim : ℕ) (flux : List ℝ → ℕ → ℝ) : Prop :=
  ∃ (c0 : ℕ → ℝ) (c : ℕ → ℕ → ℝ), ∀ p a, flux p a = c0 a + ∑ j ∈ Finset.range dim, c a j * p.getD j 0

theorem jensen_list {N} (hN : IsSeminormR N) (t : List (List ℝ × ℝ)) (v : List ℝ → ℕ → ℝ)
    (hw : ∀ pw ∈ t, 0 ≤ pw.2) :
    N (fun a => (t.map fun pw => pw.2 * v pw.1 a).sum) ≤ (t.map fun pw => pw.2 * N (v pw.1)).sum := by
  induction t with
  | nil => simp only [List.map_nil, List.sum_nil]; exact le_of_eq hN.zero
  | cons x t ih =>
    simp only [List.map_cons, List.sum_cons]
    have h1 := hN.add (fun a => x.2 * v x.1 a) (fun a => (t.map fun pw => pw.2 * v pw.1 a).sum)
    have h2 := hN.smul x.2 (v x.1)
    rw [abs_of_nonneg (hw x (by simp))] at h2
    have h3 := ih (fun pw h => hw pw (by simp [h]))
    linarith

/-- **the quadrature of an affine component is exact**: it returns the value at the cell centre -/
theorem quad_affine {t : List (List ℝ × ℝ)} {dim : ℕ} (hf : UnitRuleFacts t dim) (c0 : ℝ) (c : ℕ → ℝ) :
    ∀ k ≤ dim, (t.map fun pw => pw.2 * (c0 + ∑ j ∈ Finset.range k, c j * pw.1.getD j 0)).sum
      = c0 + ∑ j ∈ Finset.range k, c j * (1 / 2) := by
  intro k
  induction k with
  | zero =>
    intro _
    simp only [Finset.range_zero, Finset.sum_empty, add_zero]
    have : (t.map fun pw => pw.2 * c0) = t.map fun pw => c0 * Prod.snd pw := by
      apply List.map_congr_left; intro pw _; ring
    rw [this, list_sum_map_mul_left, hf.total, mul_one]
  | succ k ih =>
    intro hk
    have e : ∀ pw : List ℝ × ℝ, pw.2 * (c0 + ∑ j ∈ Finset.range (k + 1), c j * pw.1.getD j 0)
        = pw.2 * (c0 + ∑ j ∈ Finset.range k, c j * pw.1.getD j 0) + c k * (pw.2 * pw.1.getD k 0) := by
      intro pw; rw [Finset.sum_range_succ]; ring
    simp only [e]
    rw [list_sum_map_add, ih (by omega), list_sum_map_mul_left, hf.centroid k (by omega), Finset.sum_range_succ]
    ring

/-- **‖mean flux‖ ≤ quadrature of ‖flux‖** for every rule with the unit-cell facts and every flux that is
affine in the cell: the seminorm of the flux at the cell centre (= its mean) is bounded by the density. -/
theorem norm_mean_le_density {N} (hN : IsSeminormR N) {t : List (List ℝ × ℝ)} {dim : ℕ}
    (hf : UnitRuleFacts t dim) {flux : List ℝ → ℕ → ℝ} (ha : IsAffineFlux dim flux) :
    N (flux (List.replicate dim (1 / 2))) ≤ density N t flux := by
  obtain ⟨c0, c, hc⟩ := ha
  have h := jensen_list hN t flux hf.nonneg
  have e : (fun a => (t.map fun pw => pw.2 * flux pw.1 a).sum) = flux (List.replicate dim (1 / 2)) := by
    funext a
    simp only [hc]
    rw [quad_affine hf (c0 a) (c a) dim le_rfl]
    congr 1
    apply Finset.sum_congr rfl
    intro j hj
    have : j < dim := Finset.mem_range.mp hj
    simp [List.getD_eq_getElem?_getD, List.getElem?_replicate, this]
  rw [e] at h
  exact h

end Darsia.Quad
