/-
The reference moments are the interval integrals of the monomials; exactness for monomials extends to
every real polynomial of the same degree; the affine map to the unit cell keeps exactness.
-/
import DarsiaProofs.QuadratureRules
import Mathlib.Analysis.SpecialFunctions.Integrals.Basic
import Mathlib.Algebra.Polynomial.Eval.Degree
import Mathlib.Algebra.Polynomial.Degree.Lemmas

namespace Darsia.Quad
open Real Polynomial

theorem refMoment_eq_integral (k : ℕ) : refMoment k = ∫ x in (-1 : ℝ)..1, x ^ k := by
  rw [integral_pow, refMoment]
  rcases Nat.even_or_odd' k with ⟨m, rfl | rfl⟩
  · have h1 : (2 * m) % 2 = 0 := by omega
    have h2 : ((-1 : ℝ)) ^ (2 * m + 1) = -1 := Odd.neg_one_pow ⟨m, rfl⟩
    simp only [h1, if_true, one_pow, h2]; push_cast; ring
  · have h1 : (2 * m + 1) % 2 ≠ 0 := by omega
    have h2 : ((-1 : ℝ)) ^ (2 * m + 1 + 1) = 1 := Even.neg_one_pow ⟨m + 1, by ring⟩
    simp [h1, h2]

theorem unit_integral (k : ℕ) : ∫ x in (0 : ℝ)..1, x ^ k = 1 / ((k : ℝ) + 1) := by
  rw [integral_pow]; simp

/-- the rule applied to a polynomial: `Σ wᵢ p(xᵢ)` -/
noncomputable def quad1 (l : List (ℝ × ℝ)) (p : ℝ[X]) : ℝ := (l.map fun xw => xw.2 * p.eval xw.1).sum

theorem quad1_eq_sum (l : List (ℝ × ℝ)) (p : ℝ[X]) :
    quad1 l p = ∑ k ∈ Finset.range (p.natDegree + 1), p.coeff k * mom l k := by
  induction l with
  | nil => simp [quad1, mom]
  | cons xw l ih =>
    have h1 : quad1 (xw :: l) p = xw.2 * p.eval xw.1 + quad1 l p := by simp [quad1]
    have h2 : ∀ k, mom (xw :: l) k = xw.2 * xw.1 ^ k + mom l k := by intro k; simp [mom]
    rw [h1, ih, eval_eq_sum_range, Finset.mul_sum, ← Finset.sum_add_distrib]
    apply Finset.sum_congr rfl
    intro k _
    rw [h2]; ring

theorem integral_poly (p : ℝ[X]) (a b : ℝ) :
    ∫ x in a..b, p.eval x = ∑ k ∈ Finset.range (p.natDegree + 1), p.coeff k * ∫ x in a..b, x ^ k := by
  simp_rw [eval_eq_sum_range]
  rw [intervalIntegral.integral_finset_sum]
  · simp_rw [intervalIntegral.integral_const_mul]
  · intro i _
    exact Continuous.intervalIntegrable (by fun_prop) _ _

/-- **exactness for polynomials**: a rule that integrates the monomials `x^k`, `k ≤ m`, exactly over
`[a, b]` integrates every real polynomial of degree `≤ m` exactly. -/
theorem exact_poly {l : List (ℝ × ℝ)} {m : ℕ} {a b : ℝ} (h : ∀ k ≤ m, mom l k = ∫ x in a..b, x ^ k)
    (p : ℝ[X]) (hp : p.natDegree ≤ m) : quad1 l p = ∫ x in a..b, p.eval x := by
  rw [quad1_eq_sum, integral_poly]
  apply Finset.sum_congr rfl
  intro k hk
  rw [h k (by have := Finset.mem_range.mp hk; omega)]

/-! ### `gauss_reference_cell`: map to the unit cell -/

/-- 1-D: `x ↦ (x+1)/2`, `w ↦ w/2` -/
noncomputable def unitMap1 (l : List (ℝ × ℝ)) : List (ℝ × ℝ) := l.map fun xw => ((xw.1 + 1) / 2, xw.2 / 2)

/-- N-D: every coordinate `x ↦ (x+1)/2`, `w ↦ w/s` -/
noncomputable def unitMapN (s : ℝ) (t : List (List ℝ × ℝ)) : List (List ℝ × ℝ) :=
  t.map fun pw => (pw.1.map fun x => (x + 1) / 2, pw.2 / s)

theorem unitMap1_moments {l : List (ℝ × ℝ)} {m : ℕ} (h : ∀ k ≤ m, mom l k = ∫ x in (-1 : ℝ)..1, x ^ k) :
    ∀ k ≤ m, mom (unitMap1 l) k = ∫ x in (0 : ℝ)..1, x ^ k := by
  intro k hk
  set p : ℝ[X] := (C (1 / 2) * X + C (1 / 2)) ^ k with hp
  have hdeg : p.natDegree ≤ m := by
    refine le_trans (natDegree_pow_le) ?_
    have : (C (1 / 2 : ℝ) * X + C (1 / 2)).natDegree ≤ 1 := natDegree_linear_le
    calc k * _ ≤ k * 1 := Nat.mul_le_mul_left k this
      _ ≤ m := by omega
  have hev : ∀ x : ℝ, p.eval x = ((x + 1) / 2) ^ k := by
    intro x; simp only [hp, eval_pow, eval_add, eval_mul, eval_C, eval_X]; ring
  have h1 := exact_poly h p hdeg
  have h2 : mom (unitMap1 l) k = (1 / 2) * quad1 l p := by
    simp only [mom, unitMap1, quad1, List.map_map]
    rw [← list_sum_map_mul_left]
    congr 1
    apply List.map_congr_left
    intro xw _
    simp only [Function.comp, hev]; ring
  have h3 : ∫ x in (-1 : ℝ)..1, p.eval x = 2 * ∫ x in (0 : ℝ)..1, x ^ k := by
    simp_rw [hev]
    have := intervalIntegral.integral_comp_mul_add (f := fun t : ℝ => t ^ k) (a := -1) (b := 1)
      (c := 1 / 2) (by norm_num) (1 / 2)
    have e : ∀ x : ℝ, ((x + 1) / 2) ^ k = (1 / 2 * x + 1 / 2) ^ k := by intro x; ring_nf
    simp_rw [e]
    rw [this]
    norm_num
  rw [h2, h1, h3]; ring

theorem unitMapN_consAllR (l : List (ℝ × ℝ)) (t : List (List ℝ × ℝ)) (s : ℝ) :
    unitMapN (2 * s) (consAllR l t) = consAllR (unitMap1 l) (unitMapN s t) := by
  induction l with
  | nil => simp [consAllR, unitMapN, unitMap1]
  | cons xw l ih =>
    have ih' : List.map (fun pw => (List.map (fun x => (x + 1) / 2) pw.1, pw.2 / (2 * s))) (consAllR l t)
        = consAllR (unitMap1 l) (unitMapN s t) := ih
    simp only [consAllR, unitMapN, unitMap1, List.map_append, List.map_map, List.map_cons, ih']
    congr 1
    · apply List.map_congr_left
      intro pv _
      simp only [Function.comp, List.map_cons, Prod.mk.injEq, true_and]
      by_cases hs : s = 0
      · simp [hs]
      · field_simp

theorem unitMapN_tensorR (l : List (ℝ × ℝ)) : ∀ dim : ℕ,
    unitMapN (2 ^ dim) (tensorR l dim) = tensorR (unitMap1 l) dim := by
  intro dim
  induction dim with
  | zero => simp [tensorR, unitMapN]
  | succ k ih => simp only [tensorR, pow_succ']; rw [unitMapN_consAllR, ih]

/-- **unit_cell_map**: the mapped, renormalised rule is exact on `[0,1]^dim` to the same degree. -/
theorem unit_cell_exact {l : List (ℝ × ℝ)} {m : ℕ} (h1 : ∀ k ≤ m, mom l k = ∫ x in (-1 : ℝ)..1, x ^ k)
    {t : List (List ℝ × ℝ)} {dim : ℕ} (hp : t.Perm (tensorR l dim)) :
    ExactOn (unitMapN (2 ^ dim) t) dim m (fun k => ∫ x in (0 : ℝ)..1, x ^ k) := by
  have hp' : (unitMapN (2 ^ dim) t).Perm (tensorR (unitMap1 l) dim) := by
    rw [← unitMapN_tensorR]; exact hp.map _
  exact tensor_exact (unitMap1_moments h1) hp'

/-! ### the model's `toUnitCell` is this map -/

theorem evalR_sumE (ws : List QExpr) : evalR (sumE ws) = (ws.map evalR).sum := by
  induction ws with
  | nil => simp [sumE, evalR]
  | cons w ws ih =>
    cases ws with
    | nil => simp [sumE]
    | cons w' ws' => simp only [sumE, evalR, ih, List.map_cons, List.sum_cons]

theorem realPairs_snd {pts : List (List QExpr)} {wts : List QExpr} (h : pts.length = wts.length) :
    (realPairs pts wts).map Prod.snd = wts.map evalR := by
  induction pts generalizing wts with
  | nil => cases wts with
    | nil => simp [realPairs]
    | cons w ws => simp at h
  | cons p ps ih => cases wts with
    | nil => simp at h
    | cons w ws =>
      have := ih (wts := ws) (by simpa using h)
      simp only [realPairs, List.zipWith_cons_cons, List.map_cons] at this ⊢
      rw [this]

theorem toUnitCell_real (r : Rule) : r.toUnitCell.real = unitMapN ((r.wts.map evalR).sum) r.real := by
  simp only [Rule.real, Rule.toUnitCell, realPairs, unitMapN, List.zipWith_map_left, List.zipWith_map_right,
    List.map_zipWith]
  congr 1
  funext p w
  simp only [List.map_map, evalR, evalR_sumE, Prod.mk.injEq, and_true]
  apply List.map_congr_left
  intro x _
  simp [Function.comp, evalR]

end Darsia.Quad

namespace Darsia.Quad
open Real

/-! ### polynomials in several variables, as finite sums of monomials -/

/-- a polynomial in `dim` variables given by its terms `(coefficient, exponents)` -/
def polyEval (terms : List (ℝ × List ℕ)) (p : List ℝ) : ℝ := (terms.map fun t => t.1 * monoEval t.2 p).sum

/-- exactness for monomials extends to every polynomial whose terms have per-variable degree `≤ m`:
the rule returns the term-wise integral `Σ c · Π I(e_j)` -/
theorem list_sum_map_add {α : Type} (l : List α) (f g : α → ℝ) :
    (l.map fun a => f a + g a).sum = (l.map f).sum + (l.map g).sum := by
  induction l with
  | nil => simp
  | cons a l ih => simp only [List.map_cons, List.sum_cons]; rw [ih]; ring

theorem exact_polyN {t : List (List ℝ × ℝ)} {dim m : ℕ} {I : ℕ → ℝ} (h : ExactOn t dim m I)
    (terms : List (ℝ × List ℕ)) (hterms : ∀ c ∈ terms, c.2.length = dim ∧ ∀ e ∈ c.2, e ≤ m) :
    (t.map fun pw => pw.2 * polyEval terms pw.1).sum = (terms.map fun c => c.1 * (c.2.map I).prod).sum := by
  induction terms with
  | nil => simp [polyEval]
  | cons c cs ih =>
    have hc := hterms c (by simp)
    have ih' := ih (fun c' hc' => hterms c' (by simp [hc']))
    have hsplit : ∀ pw : List ℝ × ℝ, pw.2 * polyEval (c :: cs) pw.1
        = c.1 * (pw.2 * monoEval c.2 pw.1) + pw.2 * polyEval cs pw.1 := by
      intro pw; simp only [polyEval, List.map_cons, List.sum_cons]; ring
    simp only [hsplit, List.map_cons, List.sum_cons]
    rw [list_sum_map_add, list_sum_map_mul_left, ih']
    congr 1
    have := h c.2 hc.1 hc.2
    simp only [momN] at this
    rw [this]

/-- in two variables the product of the 1-D integrals is the iterated integral of the monomial -/
theorem iterated_integral_2d (a b : ℝ) (i j : ℕ) :
    ∫ x in a..b, ∫ y in a..b, x ^ i * y ^ j = (∫ x in a..b, x ^ i) * ∫ y in a..b, y ^ j := by
  simp_rw [intervalIntegral.integral_const_mul]
  rw [intervalIntegral.integral_mul_const]

/-- … and in three variables -/
theorem iterated_integral_3d (a b : ℝ) (i j k : ℕ) :
    ∫ x in a..b, ∫ y in a..b, ∫ z in a..b, x ^ i * y ^ j * z ^ k
      = (∫ x in a..b, x ^ i) * ((∫ y in a..b, y ^ j) * ∫ z in a..b, z ^ k) := by
  simp_rw [intervalIntegral.integral_const_mul]
  simp_rw [intervalIntegral.integral_mul_const, intervalIntegral.integral_const_mul]
  rw [intervalIntegral.integral_mul_const]
  ring

end Darsia.Quad

namespace Darsia.Quad
open Real

/-! ### the iterated interval integral of a polynomial given by its terms (d = 2, 3) -/

theorem continuous_list_sum_map {α : Type} (l : List α) (f : α → ℝ → ℝ) (hf : ∀ c ∈ l, Continuous (f c)) :
    Continuous fun x => (l.map fun c => f c x).sum := by
  induction l with
  | nil => simpa using continuous_const
  | cons c l ih =>
    simp only [List.map_cons, List.sum_cons]
    exact (hf c (by simp)).add (ih fun c' h => hf c' (by simp [h]))

/-- the interval integral of a finite sum of continuous functions, term by term -/
theorem integral_list_sum {α : Type} (l : List α) (f : α → ℝ → ℝ) (hf : ∀ c ∈ l, Continuous (f c)) (a b : ℝ) :
    ∫ x in a..b, (l.map fun c => f c x).sum = (l.map fun c => ∫ x in a..b, f c x).sum := by
  induction l with
  | nil => simp
  | cons c l ih =>
    simp only [List.map_cons, List.sum_cons]
    rw [intervalIntegral.integral_add ((hf c (by simp)).intervalIntegrable _ _)
      ((continuous_list_sum_map l f fun c' h => hf c' (by simp [h])).intervalIntegrable _ _),
      ih fun c' h => hf c' (by simp [h])]

theorem monoEval_two (es : List ℕ) (h : es.length = 2) (x y : ℝ) :
    monoEval es [x, y] = x ^ es.getD 0 0 * y ^ es.getD 1 0 := by
  match es, h with
  | [i, j], _ => simp [monoEval]

theorem monoEval_three (es : List ℕ) (h : es.length = 3) (x y z : ℝ) :
    monoEval es [x, y, z] = x ^ es.getD 0 0 * (y ^ es.getD 1 0 * z ^ es.getD 2 0) := by
  match es, h with
  | [i, j, k], _ => simp [monoEval]

theorem prod_two (es : List ℕ) (h : es.length = 2) (I : ℕ → ℝ) : (es.map I).prod = I (es.getD 0 0) * I (es.getD 1 0) := by
  match es, h with
  | [i, j], _ => simp

theorem prod_three (es : List ℕ) (h : es.length = 3) (I : ℕ → ℝ) :
    (es.map I).prod = I (es.getD 0 0) * (I (es.getD 1 0) * I (es.getD 2 0)) := by
  match es, h with
  | [i, j, k], _ => simp

/-- **d = 2**: the iterated integral of a polynomial is its term-wise integral -/
theorem integral_polyEval_2d (terms : List (ℝ × List ℕ)) (h : ∀ c ∈ terms, c.2.length = 2) (a b : ℝ) :
    ∫ x in a..b, ∫ y in a..b, polyEval terms [x, y]
      = (terms.map fun c => c.1 * (c.2.map fun k => ∫ x in a..b, x ^ k).prod).sum := by
  have e : ∀ x y : ℝ, polyEval terms [x, y]
      = (terms.map fun c => c.1 * (x ^ c.2.getD 0 0 * y ^ c.2.getD 1 0)).sum := by
    intro x y
    unfold polyEval
    congr 1
    apply List.map_congr_left
    intro c hc
    rw [monoEval_two c.2 (h c hc)]
  have inner : (fun x : ℝ => ∫ y in a..b, polyEval terms [x, y])
      = fun x => (terms.map fun c => c.1 * (∫ y in a..b, y ^ c.2.getD 1 0) * x ^ c.2.getD 0 0).sum := by
    funext x
    simp only [e]
    rw [integral_list_sum terms (fun c y => c.1 * (x ^ c.2.getD 0 0 * y ^ c.2.getD 1 0)) (fun c _ => by fun_prop)]
    congr 1
    apply List.map_congr_left
    intro c _
    rw [intervalIntegral.integral_const_mul, intervalIntegral.integral_const_mul]; ring
  rw [inner, integral_list_sum terms (fun c x => c.1 * (∫ y in a..b, y ^ c.2.getD 1 0) * x ^ c.2.getD 0 0)
    (fun c _ => by fun_prop)]
  congr 1
  apply List.map_congr_left
  intro c hc
  rw [intervalIntegral.integral_const_mul, prod_two c.2 (h c hc)]; ring

/-- **d = 3** -/
theorem integral_polyEval_3d (terms : List (ℝ × List ℕ)) (h : ∀ c ∈ terms, c.2.length = 3) (a b : ℝ) :
    ∫ x in a..b, ∫ y in a..b, ∫ z in a..b, polyEval terms [x, y, z]
      = (terms.map fun c => c.1 * (c.2.map fun k => ∫ x in a..b, x ^ k).prod).sum := by
  have e : ∀ x y z : ℝ, polyEval terms [x, y, z]
      = (terms.map fun c => c.1 * (x ^ c.2.getD 0 0 * (y ^ c.2.getD 1 0 * z ^ c.2.getD 2 0))).sum := by
    intro x y z
    unfold polyEval
    congr 1
    apply List.map_congr_left
    intro c hc
    rw [monoEval_three c.2 (h c hc)]
  have inner1 : (fun (x y : ℝ) => ∫ z in a..b, polyEval terms [x, y, z])
      = fun x y => (terms.map fun c => c.1 * (∫ z in a..b, z ^ c.2.getD 2 0) * x ^ c.2.getD 0 0 * y ^ c.2.getD 1 0).sum := by
    funext x y
    simp only [e]
    rw [integral_list_sum terms (fun c z => c.1 * (x ^ c.2.getD 0 0 * (y ^ c.2.getD 1 0 * z ^ c.2.getD 2 0)))
      (fun c _ => by fun_prop)]
    congr 1
    apply List.map_congr_left
    intro c _
    rw [intervalIntegral.integral_const_mul, intervalIntegral.integral_const_mul, intervalIntegral.integral_const_mul]
    ring
  have inner2 : (fun x : ℝ => ∫ y in a..b, ∫ z in a..b, polyEval terms [x, y, z])
      = fun x => (terms.map fun c => c.1 * (∫ z in a..b, z ^ c.2.getD 2 0) * (∫ y in a..b, y ^ c.2.getD 1 0)
          * x ^ c.2.getD 0 0).sum := by
    funext x
    have : (fun y : ℝ => ∫ z in a..b, polyEval terms [x, y, z]) = _ := congrFun inner1 x
    rw [this, integral_list_sum terms
      (fun c y => c.1 * (∫ z in a..b, z ^ c.2.getD 2 0) * x ^ c.2.getD 0 0 * y ^ c.2.getD 1 0) (fun c _ => by fun_prop)]
    congr 1
    apply List.map_congr_left
    intro c _
    rw [intervalIntegral.integral_const_mul]; ring
  rw [inner2, integral_list_sum terms
    (fun c x => c.1 * (∫ z in a..b, z ^ c.2.getD 2 0) * (∫ y in a..b, y ^ c.2.getD 1 0) * x ^ c.2.getD 0 0)
    (fun c _ => by fun_prop)]
  congr 1
  apply List.map_congr_left
  intro c hc
  rw [intervalIntegral.integral_const_mul, prod_three c.2 (h c hc)]; ring

end Darsia.Quad
