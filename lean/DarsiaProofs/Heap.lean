import DarsiaModel.Heap
namespace Darsia.Heap

theorem frame_refl (h : Heap) : Frame h h := ⟨Nat.le_refl _, fun _ _ => rfl⟩

theorem frame_trans {a b c : Heap} (h1 : Frame a b) (h2 : Frame b c) : Frame a c :=
  ⟨Nat.le_trans h1.1 h2.1, fun x hx => by rw [h2.2 x (Nat.lt_of_lt_of_le hx h1.1), h1.2 x hx]⟩

theorem frame_append (h cs : Heap) : Frame h (h ++ cs) :=
  ⟨by simp, fun a ha => by simp [List.getElem?_append_left ha]⟩

theorem frame_append' {h h1 : Heap} (f : Frame h h1) (cs : Heap) : Frame h (h1 ++ cs) :=
  frame_trans f (frame_append _ _)

theorem frame_set {h h1 : Heap} (f : Frame h h1) {c : Nat} (hc : h.length ≤ c) (v : Val) : Frame h (h1.set c v) :=
  ⟨by simpa using f.1, fun a ha => by
    rw [List.getElem?_set_ne (by omega)]; exact f.2 a ha⟩

macro "ex_split" h:ident : tactic => `(tactic| (
  simp only [step, bind, Except.bind, pure, Except.pure] at $h:ident
  repeat' split at $h:ident
  all_goals first | contradiction | skip))

theorem copyCells_spec {h : Heap} {n a : Nat} {cells : List Val} (hc : copyCells h n a = .ok cells) :
    ∃ (r0 : ImgRec) (c0 c1 c2 c3 c4 : Val), cells = [c0, c1, c2, c3, c4,
      .img { r0 with arr := n, dims := n + 1, origin := n + 2, date := n + 3, time := n + 4 }] := by
  simp only [copyCells, bind, Except.bind, pure, Except.pure] at hc
  repeat' split at hc
  all_goals first | contradiction | skip
  cases hc
  exact ⟨_, _, _, _, _, _, rfl⟩

theorem step_frame_nostack (g) (h h' : Heap) (op : Op) (r : Nat) (hns : ∀ l, op ≠ .stack l)
    (hs : step g h op = .ok (h', r)) : Frame h h' := by
  cases op with
  | stack l => exact absurd rfl (hns l)
  | ctor c => ex_split hs; all_goals cases hs; exact frame_append _ _
  | copy a => ex_split hs; all_goals cases hs; exact frame_append _ _
  | add a b => ex_split hs; all_goals cases hs; exact frame_append' (frame_append _ _) _
  | sub a b => ex_split hs; all_goals cases hs; exact frame_append' (frame_append _ _) _
  | mul a t s =>
    ex_split hs; all_goals cases hs
    all_goals exact frame_set (frame_append' (frame_append _ _) _) (by omega) _
  | cmpImg k a b =>
    ex_split hs; all_goals cases hs
    all_goals exact frame_set (frame_append' (frame_append' (frame_append _ _) _) _) (by simp <;> omega) _
  | cmpNum k a s =>
    ex_split hs; all_goals cases hs
    all_goals exact frame_set (frame_append' (frame_append' (frame_append _ _) _) _) (by simp <;> omega) _
  | astype a => 
    ex_split hs; all_goals cases hs
    all_goals exact frame_set (frame_append' (frame_append _ _) _) (by omega) _
  | timeSlice a i => ex_split hs; all_goals cases hs; exact frame_append' (frame_append _ _) _
  | timeInterval a lo hi => ex_split hs; all_goals cases hs; exact frame_append' (frame_append _ _) _
  | subregion a rg nd no => ex_split hs; all_goals cases hs; exact frame_append' (frame_append _ _) _
  | weightNum a w =>
    ex_split hs; all_goals cases hs
    rename_i cells hc _ r hr _ _ _
    obtain ⟨r0, c0, c1, c2, c3, c4, rfl⟩ := copyCells_spec hc
    simp [getImg] at hr
    subst hr
    exact frame_set (frame_append _ _) (by simp) _
  | copyRebind a sh vs =>
    ex_split hs; all_goals cases hs
    all_goals exact frame_set (frame_append' (frame_append _ _) _) (by omega) _
  | derive a sh vs => ex_split hs; all_goals cases hs; exact frame_append' (frame_append _ _) _
  | astypeClass a fs => ex_split hs; all_goals cases hs; exact frame_append' (frame_append _ _) _
  | toMono a k cv =>
    ex_split hs; all_goals cases hs
    all_goals first
      | exact frame_append' (frame_append' (frame_set (frame_append' (frame_append _ _) _) (by omega) _) _) _
      | exact frame_append' (frame_append' (frame_append _ _) _) _
  | reduceAxis a ax sh vs no => ex_split hs; all_goals cases hs; exact frame_append' (frame_append _ _) _
  | extrude a ht num no => ex_split hs; all_goals cases hs; exact frame_append' (frame_append _ _) _
  | superpose l sh vs nd no => ex_split hs; all_goals cases hs; exact frame_append' (frame_append _ _) _
  | measure args v => ex_split hs; all_goals cases hs; exact frame_append _ _
  | arrMap a vs => ex_split hs; all_goals cases hs; exact frame_append _ _
  | weightImg a w rz => 
    ex_split hs; all_goals cases hs
    all_goals exact frame_set (frame_append' (frame_append _ _) _) (by omega) _
end Darsia.Heap

namespace Darsia.Heap
theorem getImg_lt {h : Heap} {s : Nat} {r} (hg : getImg h s = .ok r) : s < h.length := by
  unfold getImg at hg
  split at hg
  · rename_i hh; exact (List.getElem?_eq_some_iff.mp hh).1
  · contradiction

theorem appendDate_spec {h1 h2 : Heap} {dA : Nat} {dS dI dV : Val}
    (ha : appendDate h1 dS dI = .ok (h2, dA, dV)) :
    ∃ v, h2 = h1 ++ [v] ∧ v.refs = [] ∧ dA = h1.length := by
  unfold appendDate at ha
  split at ha
  all_goals first | contradiction | skip
  all_goals cases ha
  all_goals exact ⟨_, rfl, rfl, rfl⟩

theorem timeFromDate_leaf {s : Bool} {n : Nat} {rd : Option Rat} {d v : Val}
    (h : timeFromDate s n rd d = .ok v) : v.refs = [] := by
  unfold timeFromDate at h
  repeat' split at h
  all_goals first | contradiction | skip
  all_goals first
    | (cases h; rfl)
    | (simp only [bind, Except.bind, pure, Except.pure] at h
       split at h
       · contradiction
       · cases h; rfl)

theorem appendTime_spec {h2 h3 : Heap} {tA : Nat} {tS tI dV : Val} {off : Option Rat} {n : Nat} {rd : Option Rat}
    {da : Bool} (ha : appendTime h2 tS tI off n rd dV da = .ok (h3, tA)) :
    ∃ v, h3 = h2 ++ [v] ∧ v.refs = [] ∧ tA = h2.length := by
  unfold appendTime at ha
  split at ha
  · split at ha
    · rename_i v hv
      cases ha
      exact ⟨v, rfl, timeFromDate_leaf hv, rfl⟩
    · contradiction
  · split at ha
    all_goals first | contradiction | skip
    all_goals cases ha
    all_goals exact ⟨_, rfl, rfl, rfl⟩

theorem appendRead_img {h : Heap} {s i : Nat} {x : AppendIn} (ha : appendRead h s i = .ok x) :
    getImg h s = .ok x.rs ∧ x.newArr.refs = [] := by
  simp only [appendRead, bind, Except.bind, pure, Except.pure] at ha
  repeat' split at ha
  all_goals first | contradiction | skip
  cases ha
  exact ⟨by assumption, rfl⟩

/-- shape of the heap after `self.append(image)`: three new leaf cells (stacked array, date list, time list /
value) and the rebound attributes of `self`; dims and origin of `self` are kept -/
theorem append_spec {h h1 : Heap} {s i : Nat} {off : Option Rat} (ha : append h s i off = .ok h1) :
    ∃ (rs : ImgRec) (v1 v2 v3 : Val) (tn : Nat), getImg h s = .ok rs ∧ v1.refs = [] ∧ v2.refs = [] ∧ v3.refs = [] ∧
      h1 = (h ++ [v1, v2, v3]).set s (.img { rs with arr := h.length, series := true, date := h.length + 1,
                                                        time := h.length + 2, timeNum := tn }) := by
  unfold append at ha
  split at ha; · contradiction
  rename_i x hx
  split at ha; · contradiction
  rename_i h2 dA dV hd
  split at ha; · contradiction
  rename_i h3 tA ht
  cases ha
  obtain ⟨v2, rfl, l2, rfl⟩ := appendDate_spec hd
  obtain ⟨v3, rfl, l3, rfl⟩ := appendTime_spec ht
  refine ⟨x.rs, x.newArr, v2, v3, x.rs.timeNum + x.ri.timeNum, (appendRead_img hx).1, (appendRead_img hx).2, l2, l3, ?_⟩
  simp [List.append_assoc]

theorem append_frame_self {h h1 : Heap} {s i : Nat} {off : Option Rat} (ha : append h s i off = .ok h1) :
    h.length ≤ h1.length ∧ ∀ a, a < h.length → a ≠ s → h1[a]? = h[a]? := by
  obtain ⟨rs, v1, v2, v3, tn, _, _, _, _, rfl⟩ := append_spec ha
  refine ⟨by simp, fun a ha hne => ?_⟩
  rw [List.getElem?_set_ne (Ne.symm hne)]
  exact List.getElem?_append_left ha

/-- appending to an object allocated after `h0` leaves `h0` untouched -/
theorem append_owned {h0 h h1 : Heap} {s i : Nat} {off : Option Rat}
    (f : Frame h0 h) (hs : h0.length ≤ s) (ha : append h s i off = .ok h1) : Frame h0 h1 := by
  obtain ⟨l, fr⟩ := append_frame_self ha
  refine ⟨by have := f.1; omega, fun a ha' => ?_⟩
  rw [fr a (by have := f.1; omega) (by omega)]
  exact f.2 a ha'

theorem appendAll_owned {h0 : Heap} {s : Nat} (hs : h0.length ≤ s) : ∀ (is : List Nat) {h h1 : Heap},
    Frame h0 h → appendAll h s is = .ok h1 → Frame h0 h1
  | [], h, h1, f, ha => by
    simp only [appendAll] at ha; cases ha; exact f
  | i :: is, h, h1, f, ha => by
    simp only [appendAll, bind, Except.bind] at ha
    split at ha; · contradiction
    rename_i hm hmid
    exact appendAll_owned hs is (append_owned f hs hmid) ha

theorem stack_frame (g) (h h' : Heap) (l r : Nat) (hs : step g h (.stack l) = .ok (h', r)) : Frame h h' := by
  simp only [step, bind, Except.bind, pure, Except.pure] at hs
  repeat' split at hs
  all_goals first | contradiction | skip
  cases hs
  rename_i _ cells hc _ hall
  exact appendAll_owned (by omega) _ (frame_append _ _) hall

theorem step_frame (g) (h h' : Heap) (op : Op) (r : Nat) (hs : step g h op = .ok (h', r)) : Frame h h' := by
  by_cases hst : ∃ l, op = .stack l
  · obtain ⟨l, rfl⟩ := hst; exact stack_frame g h h' l r hs
  · exact step_frame_nostack g h h' op r (fun l e => hst ⟨l, e⟩) hs

theorem run_frame (g) : ∀ (ops : List Op) (h h' : Heap), run g h ops = .ok h' → Frame h h'
  | [], h, h', hr => by simp only [run] at hr; cases hr; exact frame_refl _
  | op :: ops, h, h', hr => by
    simp only [run, bind, Except.bind] at hr
    split at hr; · contradiction
    rename_i p hp
    exact frame_trans (step_frame g h p.1 op p.2 hp) (run_frame g ops p.1 h' hr)

theorem reach_lt {h : Heap} (wf : WF h) {a b : Nat} (r : Reach h a b) (ha : a < h.length) : b < h.length := by
  induction r with
  | refl a => exact ha
  | step hv hb _ ih => exact ih (wf _ _ hv _ hb)

theorem frame_reach {h h' : Heap} (wf : WF h) (f : Frame h h') {a b : Nat} (ha : a < h.length) :
    Reach h' a b ↔ Reach h a b := by
  constructor
  · intro r
    induction r with
    | refl a => exact .refl a
    | step hv hb _ ih =>
      rw [f.2 _ ha] at hv
      exact .step hv hb (ih (wf _ _ hv _ hb))
  · intro r
    induction r with
    | refl a => exact .refl a
    | step hv hb _ ih =>
      have hv' := hv
      rw [← f.2 _ ha] at hv'
      exact .step hv' hb (ih (wf _ _ hv _ hb))

theorem readArr_frame {h h' : Heap} (wf : WF h) (f : Frame h h') {a : Nat} (ha : a < h.length) :
    readArr h' a = readArr h a := by
  unfold readArr
  rw [f.2 a ha]
  cases hv : h[a]? with
  | none => rfl
  | some v =>
    cases v with
    | view b s idx =>
      have hb : b < h.length := wf a _ hv b (by simp [Val.refs])
      simp only [f.2 b hb]
    | _ => rfl
end Darsia.Heap

namespace Darsia.Heap
theorem ctorPlan_last {h : Heap} {c : CtorArgs} {cells : List Val} (hp : ctorPlan h c = .ok cells) :
    ∃ pre r, cells = pre ++ [Val.img r] ∧ r.arr = c.arr := by
  simp only [ctorPlan, bind, Except.bind, pure, Except.pure] at hp
  repeat' split at hp
  all_goals first | contradiction | skip
  all_goals cases hp
  all_goals exact ⟨_, _, rfl, rfl⟩

theorem result_read {h : Heap} {s : List Nat} {d : List Rat} {cells pre : List Val} {r : ImgRec}
    (hc : cells = pre ++ [Val.img r]) (hr : r.arr = h.length) :
    getImg (h ++ [Val.arr s d] ++ cells) ((h ++ [Val.arr s d]).length + cells.length - 1) = .ok r ∧
      readArr (h ++ [Val.arr s d] ++ cells) r.arr = .ok (s, d) := by
  subst hc
  constructor
  · simp only [getImg]
    rw [← List.append_assoc, List.getElem?_append_right (by simp <;> omega)]
    have : (h ++ [Val.arr s d]).length + (pre ++ [Val.img r]).length - 1 - (h ++ [Val.arr s d] ++ pre).length = 0 := by
      simp; omega
    rw [this]; rfl
  · simp only [readArr, hr]
    rw [List.append_assoc, List.getElem?_append_right (by simp)]
    simp

theorem add_elementwise (g) (h h' : Heap) (a b r : Nat) (hs : step g h (.add a b) = .ok (h', r)) :
    ∃ ra rb sh da db rr, getImg h a = .ok ra ∧ getImg h b = .ok rb ∧ readArr h ra.arr = .ok (sh, da) ∧
      readArr h rb.arr = .ok (sh, db) ∧ getImg h' r = .ok rr ∧
      readArr h' rr.arr = .ok (sh, List.zipWith (· + ·) da db) := by
  ex_split hs; cases hs
  rename_i _ ra hra _ rb hrb _ sa hsa _ sb hsb hne _ cells hc
  obtain ⟨pre, r, hcells, harr⟩ := ctorPlan_last hc
  have hr := result_read (h := h) (s := sa.1) (d := zipData (· + ·) sa.2 sb.2) hcells harr
  have hsh : sa.1 = sb.1 := by simpa using hne
  exact ⟨ra, rb, sa.1, sa.2, sb.2, r, hra, hrb, hsa, by rw [hsb, hsh], hr.1, hr.2⟩

theorem sub_elementwise (g) (h h' : Heap) (a b r : Nat) (hs : step g h (.sub a b) = .ok (h', r)) :
    ∃ ra rb sh da db rr, getImg h a = .ok ra ∧ getImg h b = .ok rb ∧ readArr h ra.arr = .ok (sh, da) ∧
      readArr h rb.arr = .ok (sh, db) ∧ getImg h' r = .ok rr ∧
      readArr h' rr.arr = .ok (sh, List.zipWith (· - ·) da db) := by
  ex_split hs; cases hs
  rename_i _ ra hra _ rb hrb _ sa hsa _ sb hsb hne _ cells hc
  obtain ⟨pre, r, hcells, harr⟩ := ctorPlan_last hc
  have hr := result_read (h := h) (s := sa.1) (d := zipData (· - ·) sa.2 sb.2) hcells harr
  have hsh : sa.1 = sb.1 := by simpa using hne
  exact ⟨ra, rb, sa.1, sa.2, sb.2, r, hra, hrb, hsa, by rw [hsb, hsh], hr.1, hr.2⟩
end Darsia.Heap

namespace Darsia.Heap
theorem copyCells_spec' {h : Heap} {n a : Nat} {cells : List Val} (hc : copyCells h n a = .ok cells) :
    ∃ (r0 : ImgRec) (sd : List Nat × List Rat) (c1 c2 c3 c4 : Val), getImg h a = .ok r0 ∧ readArr h r0.arr = .ok sd ∧
      cells = [.arr sd.1 sd.2, c1, c2, c3, c4,
      .img { r0 with arr := n, dims := n + 1, origin := n + 2, date := n + 3, time := n + 4 }] := by
  simp only [copyCells, bind, Except.bind, pure, Except.pure] at hc
  repeat' split at hc
  all_goals first | contradiction | skip
  cases hc
  exact ⟨_, _, _, _, _, _, ‹_›, ‹_›, rfl⟩

theorem mul_elementwise (g) (h h' : Heap) (a r : Nat) (t : TyTag) (s : Rat)
    (hs : step g h (.mul a t s) = .ok (h', r)) :
    g t = .ok () ∧ ∃ ra sh da rr, getImg h a = .ok ra ∧ readArr h ra.arr = .ok (sh, da) ∧ getImg h' r = .ok rr ∧
      readArr h' rr.arr = .ok (sh, da.map (· * s)) := by
  ex_split hs; cases hs
  rename_i _ hg _ cells hc _ r hr _ sd hsd
  obtain ⟨r0, sd0, c1, c2, c3, c4, hr0, hsd0, rfl⟩ := copyCells_spec' hc
  simp [getImg] at hr
  subst hr
  simp [readArr] at hsd
  subst hsd
  refine ⟨hg, r0, sd0.1, sd0.2, ({ r0 with arr := (List.length h + 6), dims := (List.length h + 1), origin := (List.length h + 2), date := (List.length h + 3), time := (List.length h + 4) } : ImgRec), hr0, hsd0, ?_, ?_⟩
  · simp only [getImg]
    rw [List.getElem?_set_self (by simp)]
    simp
  · simp [readArr]
end Darsia.Heap
