/-
Lemmas about the sums and area weights of `DarsiaModel.Resample` (used by C03 and C11).
-/
import DarsiaModel.Resample
import Mathlib.Algebra.Order.Field.Rat
import Mathlib.Tactic.Ring
import Mathlib.Tactic.Linarith
import Mathlib.Tactic.FieldSimp
namespace Darsia

/-! ### finite sums -/

theorem sumRange_congr {n : Nat} {f g : Nat → Rat} (h : ∀ i, i < n → f i = g i) :
    sumRange n f = sumRange n g := by
  induction n with
  | zero => rfl
  | succ n ih =>
    simp only [sumRange]
    rw [ih (fun i hi => h i (by omega)), h n (by omega)]

theorem sumRange_add (n : Nat) (f g : Nat → Rat) :
    sumRange n (fun i => f i + g i) = sumRange n f + sumRange n g := by
  induction n with
  | zero => simp [sumRange]
  | succ n ih => simp only [sumRange, ih]; ring

theorem sumRange_mul_left (n : Nat) (c : Rat) (f : Nat → Rat) :
    sumRange n (fun i => c * f i) = c * sumRange n f := by
  induction n with
  | zero => simp [sumRange]
  | succ n ih => simp only [sumRange, ih]; ring

theorem sumRange_mul_right (n : Nat) (c : Rat) (f : Nat → Rat) :
    sumRange n (fun i => f i * c) = sumRange n f * c := by
  induction n with
  | zero => simp [sumRange]
  | succ n ih => simp only [sumRange, ih]; ring

theorem sumRange_zero (n : Nat) : sumRange n (fun _ => 0) = 0 := by
  induction n with
  | zero => rfl
  | succ n ih => simp [sumRange, ih]

theorem sumRange_const (n : Nat) (c : Rat) : sumRange n (fun _ => c) = (n : Rat) * c := by
  induction n with
  | zero => simp [sumRange]
  | succ n ih => simp only [sumRange, ih]; push_cast; ring

theorem sumRange_comm (n m : Nat) (f : Nat → Nat → Rat) :
    sumRange n (fun i => sumRange m fun j => f i j) = sumRange m (fun j => sumRange n fun i => f i j) := by
  induction n with
  | zero => simp [sumRange, sumRange_zero]
  | succ n ih => simp only [sumRange, ih, sumRange_add]

theorem sumRange_delta (n j : Nat) (g : Nat → Rat) (hj : j < n) :
    sumRange n (fun i => if i = j then g i else 0) = g j := by
  induction n with
  | zero => omega
  | succ n ih =>
    simp only [sumRange]
    by_cases h : j = n
    · subst h
      have : sumRange j (fun i => if i = j then g i else 0) = sumRange j (fun _ => 0) :=
        sumRange_congr (fun i hi => by simp [Nat.ne_of_lt hi])
      simp [this, sumRange_zero]
    · have hne : ¬ n = j := fun e => h e.symm
      rw [ih (by omega)]; simp [hne]

theorem sumRange_telescope (n : Nat) (F : Nat → Rat) :
    sumRange n (fun j => F (j + 1) - F j) = F n - F 0 := by
  induction n with
  | zero => simp [sumRange]
  | succ n ih => simp only [sumRange, ih]; ring

theorem sumRange_append (a b : Nat) (f : Nat → Rat) :
    sumRange (a + b) f = sumRange a f + sumRange b (fun r => f (a + r)) := by
  induction b with
  | zero => simp [sumRange]
  | succ b ih =>
    have : a + (b + 1) = (a + b) + 1 := by omega
    rw [this]; simp only [sumRange, ih]; ring

theorem sumRange_block (m k : Nat) (f : Nat → Rat) :
    sumRange (m * k) f = sumRange m (fun j => sumRange k fun r => f (j * k + r)) := by
  induction m with
  | zero => simp [sumRange]
  | succ m ih =>
    have : (m + 1) * k = m * k + k := by ring
    rw [this, sumRange_append, ih]; simp only [sumRange]

/-- a function that is constant on blocks of length `k` sums to `k` times the sum of the block values -/
theorem sumRange_div (m k : Nat) (hk : 0 < k) (F : Nat → Rat) :
    sumRange (m * k) (fun i => F (i / k)) = (k : Rat) * sumRange m F := by
  rw [sumRange_block, ← sumRange_mul_left]
  apply sumRange_congr
  intro j _
  rw [← sumRange_const]
  apply sumRange_congr
  intro r hr
  have : (j * k + r) / k = j := by
    rw [Nat.mul_comm, Nat.mul_add_div hk, Nat.div_eq_of_lt hr]; omega
  rw [this]

/-! ### sums over boxes -/

theorem sumBox_congr (s : List Nat) {f g : List Nat → Rat}
    (h : ∀ idx, inBox s idx = true → f idx = g idx) : sumBox s f = sumBox s g := by
  induction s generalizing f g with
  | nil => simp only [sumBox]; exact h [] rfl
  | cons n ns ih =>
    simp only [sumBox]
    apply sumRange_congr
    intro i hi
    apply ih
    intro is his
    apply h
    simp [inBox, hi, his]

theorem sumBox_add (s : List Nat) (f g : List Nat → Rat) :
    sumBox s (fun i => f i + g i) = sumBox s f + sumBox s g := by
  induction s generalizing f g with
  | nil => simp [sumBox]
  | cons n ns ih => simp only [sumBox, ih, sumRange_add]

theorem sumBox_mul_left (s : List Nat) (c : Rat) (f : List Nat → Rat) :
    sumBox s (fun i => c * f i) = c * sumBox s f := by
  induction s generalizing f with
  | nil => simp [sumBox]
  | cons n ns ih => simp only [sumBox, ih, sumRange_mul_left]

theorem sumBox_const (s : List Nat) (c : Rat) : sumBox s (fun _ => c) = (prodL s : Rat) * c := by
  induction s with
  | nil => simp [sumBox, prodL]
  | cons n ns ih => simp only [sumBox, ih, sumRange_const, prodL]; push_cast; ring

/-- a field that is constant on the blocks of an integer-factor refinement sums to the number of
fine cells per block times the sum over the coarse grid -/
theorem sumBox_div (ms ks : List Nat) (hlen : ms.length = ks.length) (hk : allPos ks = true)
    (F : List Nat → Rat) :
    sumBox (mulShape ms ks) (fun idx => F (divIdx idx ks)) = (prodL ks : Rat) * sumBox ms F := by
  induction ms generalizing ks F with
  | nil =>
    cases ks with
    | nil => simp [sumBox, mulShape, divIdx, prodL]
    | cons k ks => simp at hlen
  | cons m ms ih =>
    cases ks with
    | nil => simp at hlen
    | cons k ks =>
      simp only [allPos, Bool.and_eq_true, decide_eq_true_eq] at hk
      simp only [mulShape, sumBox, divIdx, prodL]
      have hlen' : ms.length = ks.length := by simpa using hlen
      have h1 : ∀ i, sumBox (mulShape ms ks) (fun is => F ((i / k) :: divIdx is ks))
          = (prodL ks : Rat) * sumBox ms (fun js => F ((i / k) :: js)) :=
        fun i => ih ks hlen' hk.2 (fun js => F ((i / k) :: js))
      simp only [h1]
      rw [sumRange_div m k hk.1 (fun j => (prodL ks : Rat) * sumBox ms (fun js => F (j :: js)))]
      rw [sumRange_mul_left]; push_cast; ring

/-! ### clamps and area weights -/

theorem clampR_of_le {lo hi x : Rat} (h : x ≤ lo) : clampR lo hi x = lo := by
  simp [clampR, h]

theorem clampR_of_ge {lo hi x : Rat} (hlh : lo < hi) (h : hi ≤ x) : clampR lo hi x = hi := by
  have : ¬ x ≤ lo := by linarith
  simp [clampR, this, h]

theorem clampR_of_mem {lo hi x : Rat} (h1 : lo ≤ x) (h2 : x ≤ hi) : clampR lo hi x = x := by
  unfold clampR
  split
  · linarith
  · split
    · linarith
    · rfl

theorem brk_zero (N M : Nat) : brk N M 0 = 0 := by simp [brk]

theorem brk_last (N M : Nat) (hM : 0 < M) : brk N M M = N := by
  have : (M : Rat) ≠ 0 := by positivity
  simp only [brk]; field_simp

/-- the destination cells tile the source axis: every source cell is covered exactly once -/
theorem areaW_sum_dst (N M i : Nat) (hM : 0 < M) (hi : i < N) :
    sumRange M (fun j => areaW N M i j) = 1 := by
  have := sumRange_telescope M (fun j => clampR (i : Rat) ((i : Rat) + 1) (brk N M j))
  simp only [areaW]
  rw [this, brk_zero, brk_last N M hM]
  have h1 : ((i : Rat) + 1) ≤ (N : Rat) := by exact_mod_cast hi
  have h0 : (0 : Rat) ≤ (i : Rat) := by positivity
  rw [clampR_of_ge (by linarith) h1, clampR_of_le h0]; ring

/-- break points for an integer coarsening factor -/
theorem brk_coarsen (m k j : Nat) (hm : 0 < m) : brk (m * k) m j = (j : Rat) * k := by
  have : (m : Rat) ≠ 0 := by positivity
  simp only [brk]; push_cast; field_simp

/-- break points for an integer refinement factor -/
theorem brk_refine (n k j : Nat) (hn : 0 < n) (hk : 0 < k) : brk n (n * k) j = (j : Rat) / k := by
  have : (n : Rat) ≠ 0 := by positivity
  have : (k : Rat) ≠ 0 := by positivity
  simp only [brk]; push_cast; field_simp

/-- integer coarsening by `k`: the weight is the indicator of the block (box filter) -/
theorem areaW_coarsen (m k i j : Nat) (hm : 0 < m) (hk : 0 < k) :
    areaW (m * k) m i j = if i / k = j then 1 else 0 := by
  simp only [areaW, brk_coarsen m k _ hm]
  have hlt : (i : Rat) < (i : Rat) + 1 := by linarith
  rcases Nat.lt_trichotomy (i / k) j with h | h | h
  · -- i < j*k : both break points are at or above i+1
    have h1 : i + 1 ≤ j * k := by
      have := (Nat.div_lt_iff_lt_mul hk).mp h; omega
    have h1q : (i : Rat) + 1 ≤ (j : Rat) * k := by exact_mod_cast h1
    have h2q : (i : Rat) + 1 ≤ ((j + 1 : Nat) : Rat) * k := by
      push_cast; have : (0 : Rat) ≤ k := by positivity
      linarith
    rw [clampR_of_ge hlt h1q, clampR_of_ge hlt h2q]
    simp [Nat.ne_of_lt h]
  · -- j*k ≤ i < (j+1)*k
    have h1 : j * k ≤ i := by
      rw [← h]; exact Nat.div_mul_le_self i k
    have h2 : i + 1 ≤ (j + 1) * k := by
      have h' : i / k < j + 1 := by omega
      exact (Nat.div_lt_iff_lt_mul hk).mp h' 
    have h1q : (j : Rat) * k ≤ (i : Rat) := by exact_mod_cast h1
    have h2q : (i : Rat) + 1 ≤ ((j + 1 : Nat) : Rat) * k := by exact_mod_cast h2
    rw [clampR_of_ge hlt h2q, clampR_of_le h1q]
    simp [h]
  · -- (j+1)*k ≤ i : both break points are at or below i
    have h1 : (j + 1) * k ≤ i := by
      have := (Nat.le_div_iff_mul_le hk).mp (Nat.succ_le_of_lt h); simpa using this
    have h1q : ((j + 1 : Nat) : Rat) * k ≤ (i : Rat) := by exact_mod_cast h1
    have h2q : (j : Rat) * k ≤ (i : Rat) := by
      push_cast at h1q; have : (0 : Rat) ≤ k := by positivity
      linarith
    rw [clampR_of_le h1q, clampR_of_le h2q]
    simp [Nat.ne_of_gt h]

/-- integer refinement by `k`: each fine cell takes `1/k` of its parent and nothing else -/
theorem areaW_refine (n k i j : Nat) (hn : 0 < n) (hk : 0 < k) :
    areaW n (n * k) i j = if j / k = i then 1 / (k : Rat) else 0 := by
  simp only [areaW, brk_refine n k _ hn hk]
  have hkq : (0 : Rat) < (k : Rat) := by exact_mod_cast hk
  have hlt : (i : Rat) < (i : Rat) + 1 := by linarith
  rcases Nat.lt_trichotomy (j / k) i with h | h | h
  · -- j + 1 ≤ i*k
    have h1 : j + 1 ≤ i * k := by
      have := (Nat.div_lt_iff_lt_mul hk).mp h; omega
    have h1q : ((j + 1 : Nat) : Rat) / k ≤ (i : Rat) := by
      rw [div_le_iff₀ hkq]; exact_mod_cast h1
    have h2q : (j : Rat) / k ≤ (i : Rat) := by
      rw [div_le_iff₀ hkq]; have : (j : Rat) + 1 ≤ (i : Rat) * k := by exact_mod_cast h1
      linarith
    rw [clampR_of_le h1q, clampR_of_le h2q]
    simp [Nat.ne_of_lt h]
  · -- i*k ≤ j < (i+1)*k
    have h1 : i * k ≤ j := by
      rw [← h]; exact Nat.div_mul_le_self j k
    have h2 : j + 1 ≤ (i + 1) * k := by
      have h' : j / k < i + 1 := by omega
      exact (Nat.div_lt_iff_lt_mul hk).mp h' 
    have h1q : (i : Rat) ≤ (j : Rat) / k := by
      rw [le_div_iff₀ hkq]; exact_mod_cast h1
    have h2q : ((j + 1 : Nat) : Rat) / k ≤ (i : Rat) + 1 := by
      rw [div_le_iff₀ hkq]; exact_mod_cast h2
    have h3q : (i : Rat) ≤ ((j + 1 : Nat) : Rat) / k := by
      have : (j : Rat) / k ≤ ((j + 1 : Nat) : Rat) / k := by
        apply div_le_div_of_nonneg_right _ hkq.le; push_cast; linarith
      linarith
    have h4q : (j : Rat) / k ≤ (i : Rat) + 1 := by
      have : (j : Rat) / k ≤ ((j + 1 : Nat) : Rat) / k := by
        apply div_le_div_of_nonneg_right _ hkq.le; push_cast; linarith
      linarith
    rw [clampR_of_mem h3q h2q, clampR_of_mem h1q h4q]
    simp only [h, if_true]; push_cast; field_simp; ring
  · -- (i+1)*k ≤ j
    have h1 : (i + 1) * k ≤ j := by
      have := (Nat.le_div_iff_mul_le hk).mp (Nat.succ_le_of_lt h); simpa using this
    have h1q : (i : Rat) + 1 ≤ (j : Rat) / k := by
      rw [le_div_iff₀ hkq]; exact_mod_cast h1
    have h2q : (i : Rat) + 1 ≤ ((j + 1 : Nat) : Rat) / k := by
      have : (j : Rat) / k ≤ ((j + 1 : Nat) : Rat) / k := by
        apply div_le_div_of_nonneg_right _ hkq.le; push_cast; linarith
      linarith
    rw [clampR_of_ge hlt h2q, clampR_of_ge hlt h1q]
    simp [Nat.ne_of_gt h]

/-! ### 1-D area resampling -/

/-- conservation: the resampled values, weighted by the cell-size ratio, have the same sum (any `N`, `M`) -/
theorem areaResample1_sum (N M : Nat) (hN : 0 < N) (hM : 0 < M) (f : Nat → Rat) :
    sumRange M (fun j => areaResample1 N M f j * ((N : Rat) / (M : Rat))) = sumRange N f := by
  have hNq : (N : Rat) ≠ 0 := by positivity
  have hMq : (M : Rat) ≠ 0 := by positivity
  have h1 : ∀ j, areaResample1 N M f j * ((N : Rat) / (M : Rat)) = sumRange N (fun i => areaW N M i j * f i) := by
    intro j; simp only [areaResample1]; field_simp
  simp only [h1]
  rw [sumRange_comm]
  apply sumRange_congr
  intro i hi
  rw [sumRange_mul_right, areaW_sum_dst N M i hM hi]; ring

/-- resampling to the same size is the identity -/
theorem areaResample1_id (N : Nat) (f : Nat → Rat) (j : Nat) (hj : j < N) :
    areaResample1 N N f j = f j := by
  have hN : 0 < N := by omega
  have hNq : (N : Rat) ≠ 0 := by positivity
  have hw : ∀ i, areaW N N i j = if i = j then 1 else 0 := by
    intro i
    have := areaW_coarsen N 1 i j hN (by omega)
    simpa using this
  simp only [areaResample1, hw]
  have : sumRange N (fun i => (if i = j then (1 : Rat) else 0) * f i) = sumRange N (fun i => if i = j then f i else 0) :=
    sumRange_congr (fun i _ => by split <;> simp)
  rw [this, sumRange_delta N j f hj]; field_simp

/-- integer coarsening: mean over the block (box filter) -/
theorem areaResample1_coarsen (m k : Nat) (hm : 0 < m) (hk : 0 < k) (f : Nat → Rat) (j : Nat) :
    areaResample1 (m * k) m f j = 1 / (k : Rat) * sumRange (m * k) (fun i => if i / k = j then f i else 0) := by
  have hmq : (m : Rat) ≠ 0 := by positivity
  have hkq : (k : Rat) ≠ 0 := by positivity
  simp only [areaResample1, areaW_coarsen m k _ _ hm hk]
  have : sumRange (m * k) (fun i => (if i / k = j then (1 : Rat) else 0) * f i)
      = sumRange (m * k) (fun i => if i / k = j then f i else 0) :=
    sumRange_congr (fun i _ => by split <;> simp)
  rw [this]; push_cast; field_simp

/-- integer refinement: replication -/
theorem areaResample1_refine (n k : Nat) (hn : 0 < n) (hk : 0 < k) (f : Nat → Rat) (j : Nat) (hj : j < n * k) :
    areaResample1 n (n * k) f j = f (j / k) := by
  have hnq : (n : Rat) ≠ 0 := by positivity
  have hkq : (k : Rat) ≠ 0 := by positivity
  simp only [areaResample1, areaW_refine n k _ _ hn hk]
  have hjk : j / k < n := (Nat.div_lt_iff_lt_mul hk).mpr hj
  have : sumRange n (fun i => (if j / k = i then 1 / (k : Rat) else 0) * f i)
      = sumRange n (fun i => if i = j / k then 1 / (k : Rat) * f i else 0) :=
    sumRange_congr (fun i _ => by
      by_cases h : i = j / k
      · simp [h]
      · have : ¬ j / k = i := fun e => h e.symm
        simp [h, this])
  rw [this, sumRange_delta n (j / k) (fun i => 1 / (k : Rat) * f i) hjk]; push_cast; field_simp

end Darsia
