import DarsiaModel.Balance
import DarsiaProofs.Affine
import Mathlib.Tactic.Ring
import Mathlib.Tactic.Positivity
import Mathlib.Tactic.Linarith
import Mathlib.Algebra.Order.Field.Basic

namespace Darsia.Balance
open Darsia.Affine

section ring
variable {α : Type} [CommRing α]

theorem vecMul_mul (v : V3 α) (A B : M3 α) : vecMul v (M3.mul A B) = vecMul (vecMul v A) B := by
  ext <;> simp only [vecMul, M3.mul] <;> ring

theorem vecMul_add (u v : V3 α) (A : M3 α) : vecMul (V3.add u v) A = V3.add (vecMul u A) (vecMul v A) := by
  ext <;> simp only [vecMul, V3.add] <;> ring

theorem vecMul_one (v : V3 α) : vecMul v M3.one = v := by
  ext <;> simp [vecMul, M3.one]

theorem vecMul_zero (A : M3 α) : vecMul (V3.zero : V3 α) A = V3.zero := by
  ext <;> simp [vecMul, V3.zero]

theorem add_zero' (v : V3 α) : V3.add v V3.zero = v := by
  ext <;> simp [V3.add, V3.zero]

theorem zero_add' (v : V3 α) : V3.add V3.zero v = v := by
  ext <;> simp [V3.add, V3.zero]

theorem add_assoc' (u v w : V3 α) : V3.add (V3.add u v) w = V3.add u (V3.add v w) := by
  ext <;> simp only [V3.add] <;> ring

theorem Bal.ext' {B C : Bal α} (hA : B.A = C.A) (hb : B.b = C.b) : B = C := by
  cases B; cases C; simp_all

theorem id_apply (x : V3 α) : (Bal.id : Bal α).apply x = x := by
  simp [Bal.apply, Bal.id, vecMul_one, add_zero']

end ring
end Darsia.Balance
