/-
From one evaluated obligation (`checkTable … = true`, `checkCorners … = true`) to the full statement
about the real rule: lengths, positivity, total weight, exactness on `[-1,1]^dim`, on the unit cell,
and for the corner rule.
-/
import DarsiaProofs.QuadratureIntegral

namespace Darsia.Quad
open Real

/-- everything C15 asks of one table on `[-1,1]^dim` -/
structure GaussSpec (r : Rule) (dim n : ℕ) : Prop where
  lengths : r.pts.length = r.wts.length
  npts : r.pts.length = n ^ dim
  pos : ∀ w ∈ r.wts, 0 < evalR w
  total : (r.wts.map evalR).sum = 2 ^ dim
  dims : ∀ pw ∈ r.real, pw.1.length = dim
  exact : ExactOn r.real dim (2 * n - 1) (fun k => ∫ x in (-1 : ℝ)..1, x ^ k)

/-- … and of the rule `gauss_reference_cell` derives from it -/
structure UnitSpec (r : Rule) (dim n : ℕ) : Prop where
  lengths : r.toUnitCell.pts.length = r.toUnitCell.wts.length
  pos : ∀ w ∈ r.toUnitCell.wts, 0 < evalR w
  total : (r.toUnitCell.wts.map evalR).sum = 1
  dims : ∀ pw ∈ r.toUnitCell.real, pw.1.length = dim
  exact : ExactOn r.toUnitCell.real dim (2 * n - 1) (fun k => ∫ x in (0 : ℝ)..1, x ^ k)

theorem single_inj : Function.Injective (fun xw : ℝ × ℝ => (([xw.1] : List ℝ), xw.2)) := by
  intro a b h
  simp only [Prod.mk.injEq, List.cons.injEq, and_true] at h
  exact Prod.ext h.1 h.2

theorem realPairs_length {pts : List (List QExpr)} {wts : List QExpr} (h : pts.length = wts.length) :
    (realPairs pts wts).length = pts.length := by
  simp [realPairs, h]

theorem prod_replicate_map (I : ℕ → ℝ) (dim : ℕ) : ((List.replicate dim 0).map I).prod = I 0 ^ dim := by
  simp

/-- facts shared by every rule that is a permutation of a product grid of a positive 1-D rule -/
theorem perm_tensor_facts {r : Rule} {l : List (ℝ × ℝ)} {dim : ℕ} (hlen : r.pts.length = r.wts.length)
    (hp : r.real.Perm (tensorR l dim)) (hpos : ∀ xw ∈ l, 0 < xw.2) :
    r.pts.length = l.length ^ dim ∧ (∀ w ∈ r.wts, 0 < evalR w) ∧
      (r.wts.map evalR).sum = momN r.real (List.replicate dim 0) ∧ ∀ pw ∈ r.real, pw.1.length = dim := by
  refine ⟨?_, ?_, ?_, fun pw hpw => tensorR_dim l dim pw (hp.subset hpw)⟩
  · rw [← realPairs_length hlen, ← tensorR_length l dim]; exact hp.length_eq
  · intro w hw
    have : evalR w ∈ r.real.map Prod.snd := by
      rw [Rule.real, realPairs_snd hlen]; exact List.mem_map.mpr ⟨w, hw, rfl⟩
    obtain ⟨pw, hpw, he⟩ := List.mem_map.mp this
    rw [← he]
    exact tensorR_pos l hpos dim pw (hp.subset hpw)
  · rw [← sum_weights, Rule.real, realPairs_snd hlen]

theorem checkTable_sound {rule : ℕ → ℕ → Except Err Rule} {p : ℕ × ℕ} (h : checkTable rule p = true) :
    ∃ r, rule p.1 p.2 = .ok r ∧ GaussSpec r p.1 (p.2 + 1) ∧ UnitSpec r p.1 (p.2 + 1) := by
  unfold checkTable at h
  split at h
  · rename_i r1 r hr1 hr
    refine ⟨r, hr, ?_⟩
    simp only [Bool.and_eq_true] at h
    obtain ⟨l, s⟩ := check1d_sound h.1
    obtain ⟨hlen, l', hl', hp⟩ := checkTensor_sound h.2
    have : l' = l := by
      apply List.map_injective_iff.mpr single_inj
      rw [← hl', s.real]
    subst this
    have hmom : ∀ k ≤ 2 * (p.2 + 1) - 1, mom l' k = ∫ x in (-1 : ℝ)..1, x ^ k := by
      intro k hk
      rw [← refMoment_eq_integral]
      exact s.moments k (by omega)
    have hex := tensor_exact hmom hp
    obtain ⟨f1, f2, f3, f4⟩ := perm_tensor_facts hlen hp s.pos
    have htot : (r.wts.map evalR).sum = 2 ^ p.1 := by
      rw [f3, hex _ (by simp) (by simp), prod_replicate_map]
      simp; norm_num
    refine ⟨⟨hlen, by rw [f1, s.npts], f2, htot, f4, hex⟩, ?_⟩
    have hu := unit_cell_exact hmom hp
    rw [← htot, ← toUnitCell_real] at hu
    have hlenU : r.toUnitCell.pts.length = r.toUnitCell.wts.length := by
      simp [Rule.toUnitCell, hlen]
    have hdimsU : ∀ pw ∈ r.toUnitCell.real, pw.1.length = p.1 := by
      intro pw hpw
      rw [toUnitCell_real] at hpw
      simp only [unitMapN, List.mem_map] at hpw
      obtain ⟨pw0, h0, rfl⟩ := hpw
      simpa using f4 pw0 h0
    refine ⟨hlenU, ?_, ?_, hdimsU, hu⟩
    · intro w hw
      simp only [Rule.toUnitCell, List.mem_map] at hw
      obtain ⟨w0, hw0, rfl⟩ := hw
      simp only [evalR, evalR_sumE, htot]
      exact div_pos (f2 w0 hw0) (by positivity)
    · have := hu (List.replicate p.1 0) (by simp) (by simp)
      rw [prod_replicate_map] at this
      rw [← realPairs_snd hlenU, ← Rule.real, sum_weights _ p.1, this]
      simp
  · cases h

/-- 1-D: exactness for every real polynomial of degree `≤ 2n−1` against the interval integral -/
theorem checkTable_sound_poly {rule : ℕ → ℕ → Except Err Rule} {o : ℕ} (h : checkTable rule (1, o) = true) :
    ∃ r l, rule 1 o = .ok r ∧ r.real = l.map (fun xw => ([xw.1], xw.2)) ∧
      ∀ q : Polynomial ℝ, q.natDegree ≤ 2 * o + 1 → quad1 l q = ∫ x in (-1 : ℝ)..1, q.eval x := by
  unfold checkTable at h
  split at h
  · rename_i r1 r hr1 hr
    simp only [Bool.and_eq_true] at h
    obtain ⟨l, s⟩ := check1d_sound h.1
    refine ⟨r1, l, hr1, s.real, ?_⟩
    intro q hq
    apply exact_poly (m := 2 * o + 1) _ q hq
    intro k hk
    rw [← refMoment_eq_integral]
    exact s.moments k (by omega)
  · cases h

/-! ### corner rule -/

theorem trapezoid_real : trapezoid.real = [((0 : ℝ), (1 / 2 : ℝ)), (1, 1 / 2)].map fun xw => ([xw.1], xw.2) := by
  simp [trapezoid, Rule.real, realPairs, evalR]

theorem trapezoid_moments : ∀ k ≤ 1, mom [((0 : ℝ), (1 / 2 : ℝ)), (1, 1 / 2)] k = ∫ x in (0 : ℝ)..1, x ^ k := by
  intro k hk
  rw [unit_integral]
  interval_cases k <;> simp [mom] <;> norm_num

/-- everything C15 asks of the corner rule: `2^dim` points, positive weights summing to 1, exact for
every multilinear monomial on `[0,1]^dim` -/
structure CornerSpec (r : Rule) (dim : ℕ) : Prop where
  lengths : r.pts.length = r.wts.length
  npts : r.pts.length = 2 ^ dim
  pos : ∀ w ∈ r.wts, 0 < evalR w
  total : (r.wts.map evalR).sum = 1
  dims : ∀ pw ∈ r.real, pw.1.length = dim
  exact : ExactOn r.real dim 1 (fun k => ∫ x in (0 : ℝ)..1, x ^ k)

theorem checkCorners_sound {corners : ℕ → Except Err Rule} {dim : ℕ} (h : checkCorners corners dim = true) :
    ∃ r, corners dim = .ok r ∧ CornerSpec r dim := by
  unfold checkCorners at h
  split at h
  · rename_i r hr
    refine ⟨r, hr, ?_⟩
    obtain ⟨hlen, l', hl', hp⟩ := checkTensor_sound h
    have : l' = [((0 : ℝ), (1 / 2 : ℝ)), (1, 1 / 2)] := by
      apply List.map_injective_iff.mpr single_inj
      rw [← hl', trapezoid_real]
    subst this
    have hex := tensor_exact trapezoid_moments hp
    obtain ⟨f1, f2, f3, f4⟩ := perm_tensor_facts hlen hp (by intro xw hxw; simp at hxw; rcases hxw with rfl | rfl <;> norm_num)
    refine ⟨hlen, by simpa using f1, f2, ?_, f4, hex⟩
    rw [f3, hex _ (by simp) (by simp), prod_replicate_map]
    simp
  · cases h

end Darsia.Quad
