/-
Finite sums `sumTo` (Σ_{i<n}) over ℚ: linearity, exchange, splitting, indicator sums, and the split of the
face range into its per-axis blocks.
-/
import DarsiaModel.Grid
import Mathlib.Tactic.Ring
import Mathlib.Tactic.Linarith
import Mathlib.Algebra.Order.Field.Rat
namespace Darsia

theorem sumTo_congr {n : Nat} {f g : Nat → Rat} (h : ∀ i, i < n → f i = g i) : sumTo n f = sumTo n g := by
  induction n with
  | zero => rfl
  | succ n ih =>
    simp only [sumTo]
    rw [ih (fun i hi => h i (by omega)), h n (by omega)]

theorem sumTo_const_zero (n : Nat) : sumTo n (fun _ => 0) = 0 := by
  induction n with
  | zero => rfl
  | succ n ih => simp [sumTo, ih]

theorem sumTo_add (n : Nat) (f g : Nat → Rat) : sumTo n (fun i => f i + g i) = sumTo n f + sumTo n g := by
  induction n with
  | zero => simp [sumTo]
  | succ n ih => simp only [sumTo, ih]; ring

theorem sumTo_sub (n : Nat) (f g : Nat → Rat) : sumTo n (fun i => f i - g i) = sumTo n f - sumTo n g := by
  induction n with
  | zero => simp [sumTo]
  | succ n ih => simp only [sumTo, ih]; ring

theorem sumTo_neg (n : Nat) (f : Nat → Rat) : sumTo n (fun i => - f i) = - sumTo n f := by
  induction n with
  | zero => simp [sumTo]
  | succ n ih => simp only [sumTo, ih]; ring

theorem sumTo_mul_left (n : Nat) (c : Rat) (f : Nat → Rat) : sumTo n (fun i => c * f i) = c * sumTo n f := by
  induction n with
  | zero => simp [sumTo]
  | succ n ih => simp only [sumTo, ih]; ring

theorem sumTo_mul_right (n : Nat) (c : Rat) (f : Nat → Rat) : sumTo n (fun i => f i * c) = sumTo n f * c := by
  induction n with
  | zero => simp [sumTo]
  | succ n ih => simp only [sumTo, ih]; ring

theorem sumTo_comm (n m : Nat) (F : Nat → Nat → Rat) :
    sumTo n (fun i => sumTo m (fun j => F i j)) = sumTo m (fun j => sumTo n (fun i => F i j)) := by
  induction n with
  | zero => simp [sumTo, sumTo_const_zero]
  | succ n ih => simp only [sumTo, ih, sumTo_add]

theorem sumTo_append (n m : Nat) (f : Nat → Rat) : sumTo (n + m) f = sumTo n f + sumTo m (fun k => f (n + k)) := by
  induction m with
  | zero => simp [sumTo]
  | succ m ih =>
    show sumTo (n + m) f + f (n + m) = _
    rw [ih]; simp only [sumTo]; ring

/-- indicator sum: only the term `k0` survives -/
theorem sumTo_ite_eq (n k0 : Nat) (g : Nat → Rat) (h : k0 < n) :
    sumTo n (fun k => if k = k0 then g k else 0) = g k0 := by
  induction n with
  | zero => omega
  | succ n ih =>
    simp only [sumTo]
    rcases Nat.lt_or_ge k0 n with h1 | h1
    · rw [ih h1, if_neg (by omega)]; ring
    · have : k0 = n := by omega
      subst this
      rw [sumTo_congr (g := fun _ => 0) (fun i hi => if_neg (by omega)), sumTo_const_zero]; simp

theorem sumTo_ite_eq_none (n k0 : Nat) (g : Nat → Rat) (h : n ≤ k0) :
    sumTo n (fun k => if k = k0 then g k else 0) = 0 := by
  rw [sumTo_congr (g := fun _ => 0) (fun i hi => if_neg (by omega)), sumTo_const_zero]

/-- the range of face numbers splits into the per-axis blocks -/
theorem sumTo_offset (shape : List Nat) (d : Nat) (g : Nat → Rat) :
    sumTo (offset shape d) g = sumTo d (fun a => sumTo (nfa shape a) (fun k => g (offset shape a + k))) := by
  induction d with
  | zero => rfl
  | succ d ih =>
    show sumTo (offset shape d + nfa shape d) g = _
    rw [sumTo_append, ih]; rfl

theorem sumTo_double (n : Nat) (g : Nat → Rat) : sumTo (2 * n) g = sumTo n (fun i => g (2 * i) + g (2 * i + 1)) := by
  induction n with
  | zero => rfl
  | succ n ih =>
    have : 2 * (n + 1) = 2 * n + 1 + 1 := by ring
    rw [this]
    simp only [sumTo, ih]; ring

end Darsia
