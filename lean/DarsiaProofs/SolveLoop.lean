/-
Invariants of the `_solve` loop skeleton (`DarsiaModel.SolveLoop`) for every code shape `c` with
`c.sound = true`, every environment `env : Nat → Event` (= every event sequence, with a fault at ANY
statement of ANY body) and every `num_iter`.
-/
import DarsiaModel.SolveLoop
namespace Darsia.SolveLoop

/-- all passes before `i` completed -/
def AllOkBefore (env : Nat → Event) (i : Nat) : Prop := ∀ j, j < i → ∃ b, env j = .ok b

/-- invariant of the repaired loop at loop index `i` -/
structure Good (env : Nat → Event) (i : Nat) (s : LoopState) : Prop where
  consistent : s.distTag = some s.solTag
  running : s.stopped = false → s.flag = false ∧ AllOkBefore env i
  flagged : s.flag = true →
    ∃ i0, i0 < i ∧ 1 < i0 ∧ env i0 = .ok true ∧ s.iter = some i0 ∧ AllOkBefore env i0

theorem Good.mono {env : Nat → Event} {i i' : Nat} {s : LoopState} (h : Good env i s)
    (hs : s.stopped = true) (hi : i ≤ i') : Good env i' s := by
  refine ⟨h.consistent, ?_, ?_⟩
  · intro h'; rw [hs] at h'; cases h'
  · intro hf
    obtain ⟨i0, h0, rest⟩ := h.flagged hf
    exact ⟨i0, Nat.lt_of_lt_of_le h0 hi, rest⟩

variable {c : LoopCode}

theorem sound_fields (hc : c.sound = true) :
    c.restoreSol = true ∧ c.restoreDist = true ∧ c.flagOnBreak = true ∧ c.distInit = true ∧ c.iterInit = true := by
  unfold LoopCode.sound at hc
  simp only [Bool.and_eq_true] at hc
  obtain ⟨⟨⟨⟨h1, h2⟩, h3⟩, h4⟩, h5⟩ := hc
  exact ⟨h1, h2, h3, h4, h5⟩

/-- a fault at any statement of any body: the handler of sound code leaves iterate and distance untouched -/
theorem step_fail (hc : c.sound = true) (s : LoopState) (i b a : Nat) :
    step c s i (.fail b a) = { s with iter := some i, stopped := true } := by
  obtain ⟨h1, h2, _, _, _⟩ := sound_fields hc
  simp [step, h1, h2]

theorem good_step (hc : c.sound = true) {env : Nat → Event} {i : Nat} {s : LoopState} (h : Good env i s)
    (hs : s.stopped = false) : Good env (i + 1) (step c s i (env i)) := by
  obtain ⟨hflag, hall⟩ := h.running hs
  have hc0 := h.consistent
  have hall' : ∀ b, env i = .ok b → AllOkBefore env (i + 1) := fun b hb j hj => by
    rcases Nat.lt_succ_iff_lt_or_eq.1 hj with hlt | rfl
    · exact hall j hlt
    · exact ⟨b, hb⟩
  cases he : env i with
  | ok met =>
    by_cases hm : 1 < i ∧ met = true
    · simp only [step, hm, and_self, if_true]
      refine ⟨rfl, ?_, ?_⟩
      · intro h'; cases h'
      · intro _
        refine ⟨i, Nat.lt_succ_self i, hm.1, ?_, rfl, hall⟩
        rw [he, hm.2]
    · simp only [step, hm, if_false]
      refine ⟨rfl, ?_, ?_⟩
      · intro _; exact ⟨hflag, hall' met he⟩
      · intro hf; simp only [hflag] at hf; cases hf
  | nan =>
    simp only [step]
    refine ⟨rfl, ?_, ?_⟩
    · intro h'; cases h'
    · intro hf; simp only [hflag] at hf; cases hf
  | fail b a =>
    rw [step_fail hc]
    refine ⟨hc0, ?_, ?_⟩
    · intro h'; cases h'
    · intro hf; simp only [hflag] at hf; cases hf

theorem good_runFrom (hc : c.sound = true) {env : Nat → Event} : ∀ (fuel i : Nat) (s : LoopState), Good env i s →
    Good env (i + fuel) (runFrom c env fuel i s)
  | 0, _, _, h => h
  | fuel + 1, i, s, h => by
    unfold runFrom
    by_cases hs : s.stopped = true
    · simp only [hs, if_true]
      exact h.mono hs (Nat.le_add_right _ _)
    · simp only [hs]
      have := good_runFrom hc fuel (i + 1) _ (good_step hc h (by simpa using hs))
      rw [Nat.add_assoc, Nat.add_comm 1 fuel] at this
      exact this

theorem good_init (hc : c.sound = true) (env : Nat → Event) : Good env 0 (init c) := by
  obtain ⟨_, _, _, h4, h5⟩ := sound_fields hc
  refine ⟨by simp [init, h4], ?_, ?_⟩
  · intro _; exact ⟨by simp [init], fun j hj => absurd hj (Nat.not_lt_zero j)⟩
  · intro hf; simp [init] at hf

theorem good_run (hc : c.sound = true) (env : Nat → Event) (n : Nat) : Good env n (run c n env) := by
  have := good_runFrom hc n 0 _ (good_init hc env)
  rw [Nat.zero_add] at this
  exact this

/-- a fault that is reached: every earlier pass completes without triggering the criteria `break` -/
def Reaches (env : Nat → Event) (j : Nat) : Prop :=
  ∀ l, l < j → ∃ b, env l = .ok b ∧ ¬(1 < l ∧ b = true)

/-- running up to a reached fault at index `j`: the loop stops there, holding iterate `j` -/
theorem runFrom_fault (hc : c.sound = true) {env : Nat → Event} {j : Nat} (hr : Reaches env j)
    (hf : (env j).isFail = true) :
    ∀ (fuel i : Nat) (s : LoopState), s.stopped = false → i ≤ j → j < i + fuel →
      s.solTag = i → s.distTag = some i → s.flag = false →
      let r := runFrom c env fuel i s
      r.solTag = j ∧ r.distTag = some j ∧ r.iter = some j ∧ r.flag = false ∧ r.stopped = true
  | 0, i, s, _, hij, hj, _, _, _ => by omega
  | fuel + 1, i, s, hs, hij, hj, hsol, hdist, hflag => by
    have stay : ∀ (t : LoopState), t.stopped = true → ∀ f i', runFrom c env f i' t = t := by
      intro t ht f i'
      cases f with
      | zero => rfl
      | succ f => unfold runFrom; simp only [ht, if_true]
    unfold runFrom
    simp only [hs]
    rcases Nat.lt_or_eq_of_le hij with hlt | rfl
    · obtain ⟨b, hb, hnb⟩ := hr i hlt
      have hstep : step c s i (env i) = { s with iter := some i, distTag := some (i + 1), solTag := i + 1 } := by
        rw [hb]; simp only [step]; rw [if_neg hnb]
      rw [hstep]
      exact runFrom_fault hc hr hf fuel (i + 1) _ hs (by omega) (by omega) rfl rfl hflag
    · cases he : env i with
      | ok m => rw [he] at hf; cases hf
      | nan => rw [he] at hf; cases hf
      | fail b a =>
        simp only [Bool.false_eq_true, if_false]
        rw [step_fail hc, stay _ rfl]
        exact ⟨hsol, hdist, rfl, hflag, rfl⟩

end Darsia.SolveLoop
