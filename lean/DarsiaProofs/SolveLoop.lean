/-
Invariants of the `_solve` loop skeleton (`DarsiaModel.SolveLoop`) for every code shape `c` with
`c.sound = true`, every environment `env : Nat → Event` (= every event sequence, with a fault at ANY
statement of ANY body) and every `num_iter`.
-/
import DarsiaModel.SolveLoop
namespace Darsia.SolveLoop

/-- all passes before `i` completed -/
def AllOkBefore (env : Nat → Event) (i : Nat) : Prop := ∀ j, j < i → ∃ br b, env j = .ok br b

/-- invariant of the repaired loop at loop index `i` -/
structure Good (c : LoopCode) (env : Nat → Event) (i : Nat) (s : LoopState) : Prop where
  consistent : s.distTag = some s.solTag
  /-- while the loop runs, what the handler would restore the distance from is the current distance (or is re-bound to it at
  the top of the next pass) -/
  saved : s.stopped = false → c.saveDistBeforeTry = false → s.savedDist = s.distTag
  running : s.stopped = false → s.flag = false ∧ AllOkBefore env i
  flagged : s.flag = true →
    ∃ i0 br, i0 < i ∧ 1 < i0 ∧ env i0 = .ok br true ∧ s.iter = some i0 ∧ AllOkBefore env i0

theorem Good.mono {c : LoopCode} {env : Nat → Event} {i i' : Nat} {s : LoopState} (h : Good c env i s)
    (hs : s.stopped = true) (hi : i ≤ i') : Good c env i' s := by
  refine ⟨h.consistent, ?_, ?_, ?_⟩
  · intro h'; rw [hs] at h'; cases h'
  · intro h'; rw [hs] at h'; cases h'
  · intro hf
    obtain ⟨i0, br, h0, rest⟩ := h.flagged hf
    exact ⟨i0, br, Nat.lt_of_lt_of_le h0 hi, rest⟩

variable {c : LoopCode}

theorem sound_fields (hc : c.sound = true) :
    c.restoreSol = true ∧ c.restoreDist = true ∧ c.flagOnBreak = true ∧ c.distInit = true ∧ c.iterInit = true ∧
      c.saveIsCopy = true := by
  unfold LoopCode.sound at hc
  simp only [Bool.and_eq_true] at hc
  obtain ⟨⟨⟨⟨⟨⟨⟨⟨h1, h2⟩, h3⟩, h4⟩, h5⟩, h6⟩, _⟩, _⟩, _⟩ := hc
  exact ⟨h1, h2, h3, h4, h5, h6⟩

theorem mem_body (hne : c.bodies ≠ []) (b : Nat) : c.body b ∈ c.bodies := by
  unfold LoopCode.body
  cases hb : c.bodies with
  | nil => exact absurd hb hne
  | cons x xs =>
    rw [List.getD_eq_getElem?_getD]
    cases hg : (x :: xs)[b]? with
    | none => simp
    | some y => simpa using List.mem_of_getElem? hg

/-- every body of sound code (also the one an out-of-range branch number selects) writes the iterate and evaluates the
distance after the last write -/
theorem sound_body (hc : c.sound = true) (b : Nat) : bodyOk (c.body b) = true := by
  unfold LoopCode.sound at hc
  simp only [Bool.and_eq_true, List.all_eq_true, Bool.not_eq_true', List.isEmpty_eq_false_iff] at hc
  obtain ⟨⟨⟨_, hne⟩, hall⟩, _⟩ := hc
  exact hall _ (mem_body hne b)

/-- how sound code keeps the saved distance fresh: re-bound at the top of every pass (and never committed by a body), or
committed by the last statement of every body -/
theorem sound_save (hc : c.sound = true) (b : Nat) :
    (c.saveDistBeforeTry = true ∧ ((c.body b).map (·.effect)).contains .commitDist = false) ∨
    (c.saveDistBeforeTry = false ∧ commitsLast (c.body b) = true) := by
  unfold LoopCode.sound at hc
  simp only [Bool.and_eq_true, List.all_eq_true, Bool.not_eq_true', List.isEmpty_eq_false_iff] at hc
  obtain ⟨⟨⟨_, hne⟩, _⟩, hsv⟩ := hc
  cases hb : c.saveDistBeforeTry with
  | true =>
    rw [hb] at hsv
    simp only [if_true, List.all_eq_true, Bool.not_eq_true'] at hsv
    exact Or.inl ⟨rfl, hsv _ (mem_body hne b)⟩
  | false =>
    rw [hb] at hsv
    simp only [Bool.false_eq_true, if_false, List.all_eq_true] at hsv
    exact Or.inr ⟨rfl, hsv _ (mem_body hne b)⟩

theorem commitsLast_contains {body : List Stmt} (h : commitsLast body = true) :
    (body.map (·.effect)).contains .commitDist = true := by
  unfold commitsLast at h
  simp only [Bool.and_eq_true, beq_iff_eq] at h
  exact List.contains_iff_mem.2 (List.mem_of_getLast? h.1)

/-- a completed pass of sound code ends with iterate `i+1`, its distance, and (unless it breaks) a fresh saved distance -/
theorem step_ok (hc : c.sound = true) (s : LoopState) (i b : Nat) (met : Bool) :
    step c s i (.ok b met) =
      if 1 < i ∧ met = true then
        { s with iter := some i, savedDist := if c.saveDistBeforeTry then s.distTag else s.savedDist,
                 solTag := i + 1, distTag := some (i + 1), flag := true, stopped := true }
      else { s with iter := some i, solTag := i + 1, distTag := some (i + 1),
                    savedDist := if c.saveDistBeforeTry then s.distTag else some (i + 1) } := by
  have hb := sound_body hc b
  unfold bodyOk at hb
  simp only [Bool.and_eq_true, Bool.not_eq_true'] at hb
  obtain ⟨⟨h1, h2⟩, h3⟩ := hb
  rcases sound_save hc b with ⟨hs1, hs2⟩ | ⟨hs1, hs2⟩
  · simp only [step, h1, h2, h3, hs1, hs2, if_true, Bool.not_false, Bool.and_self, Bool.false_eq_true, if_false]
  · have hcm := commitsLast_contains hs2
    simp only [step, h1, h2, h3, hs1, hcm, if_true, Bool.not_false, Bool.and_self, Bool.false_eq_true, if_false]

/-- a fault at any statement of any body: the handler of sound code returns to the iterate and the distance the pass
started with -/
theorem step_fail (hc : c.sound = true) (s : LoopState) (hsv : c.saveDistBeforeTry = false → s.savedDist = s.distTag)
    (i b a : Nat) :
    step c s i (.fail b a) = { s with iter := some i, savedDist := s.distTag, stopped := true } := by
  obtain ⟨h1, h2, _, _, _, h6⟩ := sound_fields hc
  cases hb : c.saveDistBeforeTry with
  | true => simp [step, h1, h2, h6, hb]
  | false => simp [step, h1, h2, h6, hb, hsv hb]

theorem good_step (hc : c.sound = true) {env : Nat → Event} {i : Nat} {s : LoopState} (h : Good c env i s)
    (hs : s.stopped = false) : Good c env (i + 1) (step c s i (env i)) := by
  obtain ⟨hflag, hall⟩ := h.running hs
  have hc0 := h.consistent
  have hall' : ∀ br b, env i = .ok br b → AllOkBefore env (i + 1) := fun br b hb j hj => by
    rcases Nat.lt_succ_iff_lt_or_eq.1 hj with hlt | rfl
    · exact hall j hlt
    · exact ⟨br, b, hb⟩
  cases he : env i with
  | ok br met =>
    rw [step_ok hc]
    by_cases hm : 1 < i ∧ met = true
    · simp only [hm, and_self, if_true]
      refine ⟨rfl, ?_, ?_, ?_⟩
      · intro h'; cases h'
      · intro h'; cases h'
      · intro _
        refine ⟨i, br, Nat.lt_succ_self i, hm.1, ?_, rfl, hall⟩
        rw [he, hm.2]
    · simp only [hm, if_false]
      refine ⟨rfl, ?_, ?_, ?_⟩
      · intro _ hb; simp [hb]
      · intro _; exact ⟨hflag, hall' br met he⟩
      · intro hf; simp only [hflag] at hf; cases hf
  | nan =>
    simp only [step]
    refine ⟨rfl, ?_, ?_, ?_⟩
    · intro h'; cases h'
    · intro h'; cases h'
    · intro hf; simp only [hflag] at hf; cases hf
  | fail b a =>
    rw [step_fail hc s (h.saved hs)]
    refine ⟨hc0, ?_, ?_, ?_⟩
    · intro h'; cases h'
    · intro h'; cases h'
    · intro hf; simp only [hflag] at hf; cases hf

theorem good_runFrom (hc : c.sound = true) {env : Nat → Event} : ∀ (fuel i : Nat) (s : LoopState), Good c env i s →
    Good c env (i + fuel) (runFrom c env fuel i s)
  | 0, _, _, h => h
  | fuel + 1, i, s, h => by
    unfold runFrom
    by_cases hs : s.stopped = true
    · simp only [hs, if_true]
      exact h.mono hs (Nat.le_add_right _ _)
    · simp only [hs]
      have := good_runFrom hc fuel (i + 1) _ (good_step hc h (by simpa using hs))
      rw [Nat.add_assoc, Nat.add_comm 1 fuel] at this
      exact this

theorem good_init (hc : c.sound = true) (env : Nat → Event) : Good c env 0 (init c) := by
  obtain ⟨_, _, _, h4, h5, _⟩ := sound_fields hc
  refine ⟨by simp [init, h4], ?_, ?_, ?_⟩
  · intro _ _; simp [init]
  · intro _; exact ⟨by simp [init], fun j hj => absurd hj (Nat.not_lt_zero j)⟩
  · intro hf; simp [init] at hf

theorem good_run (hc : c.sound = true) (env : Nat → Event) (n : Nat) : Good c env n (run c n env) := by
  have := good_runFrom hc n 0 _ (good_init hc env)
  rw [Nat.zero_add] at this
  exact this

/-- a fault that is reached: every earlier pass completes without triggering the criteria `break` -/
def Reaches (env : Nat → Event) (j : Nat) : Prop :=
  ∀ l, l < j → ∃ br b, env l = .ok br b ∧ ¬(1 < l ∧ b = true)

/-- running up to a reached fault at index `j`: the loop stops there, holding iterate `j` -/
theorem runFrom_fault (hc : c.sound = true) {env : Nat → Event} {j : Nat} (hr : Reaches env j)
    (hf : (env j).isFail = true) :
    ∀ (fuel i : Nat) (s : LoopState), s.stopped = false → i ≤ j → j < i + fuel →
      s.solTag = i → s.distTag = some i → s.flag = false → (c.saveDistBeforeTry = false → s.savedDist = s.distTag) →
      let r := runFrom c env fuel i s
      r.solTag = j ∧ r.distTag = some j ∧ r.iter = some j ∧ r.flag = false ∧ r.stopped = true
  | 0, i, s, _, hij, hj, _, _, _, _ => by omega
  | fuel + 1, i, s, hs, hij, hj, hsol, hdist, hflag, hsv => by
    have stay : ∀ (t : LoopState), t.stopped = true → ∀ f i', runFrom c env f i' t = t := by
      intro t ht f i'
      cases f with
      | zero => rfl
      | succ f => unfold runFrom; simp only [ht, if_true]
    unfold runFrom
    simp only [hs]
    rcases Nat.lt_or_eq_of_le hij with hlt | rfl
    · obtain ⟨br, b, hb, hnb⟩ := hr i hlt
      have hstep := step_ok hc s i br b
      rw [if_neg hnb] at hstep
      rw [hb, hstep]
      exact runFrom_fault hc hr hf fuel (i + 1) _ hs (by omega) (by omega) rfl rfl hflag (fun hbf => by simp [hbf])
    · cases he : env i with
      | ok br m => rw [he] at hf; cases hf
      | nan => rw [he] at hf; cases hf
      | fail b a =>
        simp only [Bool.false_eq_true, if_false]
        rw [step_fail hc s hsv, stay _ rfl]
        exact ⟨hsol, hdist, rfl, hflag, rfl⟩

/-- a guarded post-loop failure (Bregman's pressure post-processing) only replaces the pressure by the NaN marker; without a
failure the pressure belongs to the returned iterate -/
theorem finish_guarded (hp : c.post = .guarded) (s : LoopState) (postFails : Bool) :
    finish c s postFails = .ok { state := s, pressure := if postFails then none else some s.solTag } := by
  unfold finish
  cases postFails <;> simp [hp]

end Darsia.SolveLoop
