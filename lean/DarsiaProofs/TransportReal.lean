/-
C05, first-moment bound: real-valued transport cost (quadrature nodes may be irrational, fluxes / voxel sizes are the
rational data of the model) and the Jensen-type estimate `N(mean flux) ≤ cost`.
-/
import DarsiaProofs.Transport
import Mathlib.Data.Real.Basic
import Mathlib.Data.Rat.Cast.Order
import Mathlib.Algebra.BigOperators.Group.List.Basic
import Mathlib.Algebra.Order.BigOperators.Group.List
import Mathlib.Algebra.BigOperators.Ring.List
namespace Darsia

/-- what is used of the Euclidean norm on real vectors: absolute homogeneity and the triangle inequality -/
structure IsSeminormR (N : (ℕ → ℝ) → ℝ) : Prop where
  smul : ∀ (s : ℝ) (v : ℕ → ℝ), N (fun a => s * v a) = |s| * N v
  add : ∀ v w : ℕ → ℝ, N (fun a => v a + w a) ≤ N v + N w

theorem IsSeminormR.zero {N} (hN : IsSeminormR N) : N (fun _ => 0) = 0 := by
  have := hN.smul 0 (fun _ => 0)
  simpa using this

theorem IsSeminormR.neg {N} (hN : IsSeminormR N) (v : ℕ → ℝ) : N (fun a => - v a) = N v := by
  have := hN.smul (-1) v
  simpa using this

theorem IsSeminormR.nonneg {N} (hN : IsSeminormR N) (v : ℕ → ℝ) : 0 ≤ N v := by
  have h1 := hN.add v (fun a => - v a)
  rw [hN.neg] at h1
  have h3 : (fun a => v a + - v a) = fun _ => (0 : ℝ) := by funext a; ring
  rw [h3, hN.zero] at h1
  linarith

/-- Jensen for a seminorm and non-negative coefficients (finite list of terms) -/
theorem IsSeminormR.sum_le {N} (hN : IsSeminormR N) {β : Type} (l : List β) (α : β → ℝ) (v : β → ℕ → ℝ)
    (hα : ∀ b ∈ l, 0 ≤ α b) :
    N (fun a => (l.map fun b => α b * v b a).sum) ≤ (l.map fun b => α b * N (v b)).sum := by
  induction l with
  | nil => simp [hN.zero]
  | cons b bs ih =>
    simp only [List.map_cons, List.sum_cons]
    have h1 := hN.add (fun a => α b * v b a) (fun a => (bs.map fun b => α b * v b a).sum)
    have h2 := hN.smul (α b) (v b)
    rw [abs_of_nonneg (hα b (by simp))] at h2
    have h3 := ih (fun b' hb' => hα b' (by simp [hb']))
    linarith

/-- `face_to_cell(grid, U, pt)[idx]` at a real reference point -/
noncomputable def cellVecR (shape : List Nat) (U : Nat → Rat) (pt : List ℝ) (idx : List Nat) : ℕ → ℝ :=
  fun a => pt.getD a 0 * (uHi shape U a idx : ℝ) + (1 - pt.getD a 0) * (uLo shape U a idx : ℝ)

/-- `l1_dissipation(U)` for a quadrature rule with real nodes and weights `t = [(pt, w), …]` and a constant cell
weight `k` : `Σ_c vol · Σ_q w_q · N(k · rt0(U)(c, pt_q))` -/
noncomputable def costR (N : (ℕ → ℝ) → ℝ) (shape : List Nat) (h : List Rat) (t : List (List ℝ × ℝ)) (k : ℝ)
    (U : Nat → Rat) : ℝ :=
  ((List.range (numCells shape)).map fun c =>
    (vol h : ℝ) * (t.map fun pw => pw.2 * N (fun a => k * cellVecR shape U pw.1 (decF shape c) a)).sum).sum

theorem cast_sumTo (n : Nat) (f : Nat → Rat) :
    ((sumTo n f : Rat) : ℝ) = ((List.range n).map fun i => ((f i : Rat) : ℝ)).sum := by
  induction n with
  | zero => simp [sumTo]
  | succ n ih => simp [sumTo, List.range_succ, ih]

/-- value of the RT0 reconstruction at the cell centre -/
def midFlux (shape : List Nat) (U : Nat → Rat) (a : Nat) (idx : List Nat) : Rat :=
  (1 / 2 : Rat) * uHi shape U a idx + (1 / 2 : Rat) * uLo shape U a idx

theorem uHi_uLo_out (shape : List Nat) (U : Nat → Rat) (a : Nat) (idx : List Nat) (ha : shape.length ≤ a)
    (hi : idx.length = shape.length) : uHi shape U a idx = 0 ∧ uLo shape U a idx = 0 := by
  have h1 : shape.getD a 0 = 0 := by simp [List.getD, List.getElem?_eq_none ha]
  have h2 : idx.getD a 0 = 0 := by simp [List.getD, List.getElem?_eq_none (by omega : idx.length ≤ a)]
  constructor
  · unfold uHi; rw [if_neg (by omega)]
  · unfold uLo; rw [if_neg (by omega)]

/-- a rule with total weight 1 and first moments ½ averages the (affine in `pt`) reconstruction to its centre value -/
theorem quad_mean (shape : List Nat) (U : Nat → Rat) (t : List (List ℝ × ℝ)) (idx : List Nat) (a : Nat)
    (hi : idx.length = shape.length) (h0 : (t.map Prod.snd).sum = 1)
    (h1 : ∀ a, a < shape.length → (t.map fun pw => pw.2 * pw.1.getD a 0).sum = 1 / 2) :
    (t.map fun pw => pw.2 * cellVecR shape U pw.1 idx a).sum = ((midFlux shape U a idx : Rat) : ℝ) := by
  rcases Nat.lt_or_ge a shape.length with ha | ha
  · have e : ∀ pw : List ℝ × ℝ, pw.2 * cellVecR shape U pw.1 idx a =
        (pw.2 * pw.1.getD a 0) * ((uHi shape U a idx : ℝ) - (uLo shape U a idx : ℝ)) +
          pw.2 * (uLo shape U a idx : ℝ) := by
      intro pw; simp only [cellVecR]; ring
    simp only [e]
    rw [List.sum_map_add, List.sum_map_mul_right, List.sum_map_mul_right, h1 a ha]
    have : (t.map fun pw : List ℝ × ℝ => pw.2).sum = 1 := h0
    rw [this]
    simp only [midFlux]; push_cast; ring
  · obtain ⟨e1, e2⟩ := uHi_uLo_out shape U a idx ha hi
    simp [cellVecR, midFlux, e1, e2]

/-- ℚ part of the first-moment bound: the first moment of the mass difference is minus the summed centre fluxes -/
theorem moment_eq_neg_mean (shape : List Nat) (h : List Rat) (f U : Nat → Rat) (a : Nat)
    (hl : h.length = shape.length) (hF : Feasible shape h f U) :
    sumTo (numCells shape) (fun c => xcoord h a (decF shape c) * (vol h * f c)) =
      - sumTo (numCells shape) (fun c => vol h * midFlux shape U a (decF shape c)) := by
  rcases Nat.lt_or_ge a shape.length with ha | ha
  · have e : ∀ c, c < numCells shape → xcoord h a (decF shape c) * (vol h * f c) =
        xcoord h a (decF shape c) * divApply shape h U c := fun c hc => by rw [hF c hc]
    rw [sumTo_congr e, moment_identity shape h U a ha hl]
    have e2 : ∀ c, c < numCells shape → vol h * midFlux shape U a (decF shape c) =
        vol h * (1 / 2) * uHi shape U a (decF shape c) + vol h * (1 / 2) * uLo shape U a (decF shape c) := by
      intro c _; simp only [midFlux]; ring
    rw [sumTo_congr e2, sumTo_add, sumTo_mul_left, sumTo_mul_left, sum_uHi shape U a ha, sum_uLo shape U a ha]
    ring
  · have hx : ∀ c, xcoord h a (decF shape c) = 0 := by
      intro c; simp [xcoord, List.getD, List.getElem?_eq_none (by omega : h.length ≤ a)]
    have e : ∀ c, c < numCells shape → xcoord h a (decF shape c) * (vol h * f c) = 0 := by
      intro c _; rw [hx c]; ring
    have e2 : ∀ c, c < numCells shape → vol h * midFlux shape U a (decF shape c) = 0 := by
      intro c _
      obtain ⟨e1, e2⟩ := uHi_uLo_out shape U a (decF shape c) ha (decF_length shape c)
      simp [midFlux, e1, e2]
    rw [sumTo_congr e, sumTo_congr e2, sumTo_const_zero]; simp

/-- **first-moment bound** (constant weight 1): the norm of the first moment of the mass difference is at most the
cost of any mass-conserving flux -/
theorem first_moment_bound_aux {N} (hN : IsSeminormR N) (shape : List Nat) (h : List Rat)
    (hl : h.length = shape.length) (hv : 0 ≤ vol h) (t : List (List ℝ × ℝ)) (hw : ∀ pw ∈ t, 0 ≤ pw.2)
    (h0 : (t.map Prod.snd).sum = 1)
    (h1 : ∀ a, a < shape.length → (t.map fun pw => pw.2 * pw.1.getD a 0).sum = 1 / 2)
    (f U : Nat → Rat) (hF : Feasible shape h f U) :
    N (fun a => ((sumTo (numCells shape) (fun c => xcoord h a (decF shape c) * (vol h * f c)) : Rat) : ℝ)) ≤
      costR N shape h t 1 U := by
  have hvR : (0 : ℝ) ≤ (vol h : ℝ) := by exact_mod_cast hv
  -- rewrite the moment vector as minus the summed, quadrature-averaged cell fluxes
  have e : (fun a => ((sumTo (numCells shape) (fun c => xcoord h a (decF shape c) * (vol h * f c)) : Rat) : ℝ)) =
      fun a => - ((List.range (numCells shape)).map fun c =>
        (vol h : ℝ) * (t.map fun pw => pw.2 * cellVecR shape U pw.1 (decF shape c) a).sum).sum := by
    funext a
    rw [moment_eq_neg_mean shape h f U a hl hF]
    push_cast
    rw [cast_sumTo]
    congr 2
    apply List.map_congr_left
    intro c _
    rw [quad_mean shape U t (decF shape c) a (decF_length shape c) h0 h1]
    push_cast; ring
  rw [e, hN.neg]
  refine le_trans (hN.sum_le (List.range (numCells shape)) (fun _ => (vol h : ℝ))
    (fun c a => (t.map fun pw => pw.2 * cellVecR shape U pw.1 (decF shape c) a).sum) (fun _ _ => hvR)) ?_
  unfold costR
  refine List.sum_le_sum fun c _ => ?_
  refine mul_le_mul_of_nonneg_left ?_ hvR
  have := hN.sum_le t (fun pw => pw.2) (fun pw a => cellVecR shape U pw.1 (decF shape c) a) hw
  simpa using this

/-! ### weak duality (Kantorovich potential `p` with a cell-wise dual field `g`) -/

/-- pairing a cell field `g` with the centre fluxes moves `g` to the faces: each face sees the mean of `g` (component
of its normal axis) over its two cells -/
theorem pairing_identity (shape : List Nat) (h : List Rat) (U : Nat → Rat) (g : Nat → Nat → Rat) :
    sumTo (numCells shape) (fun c => vol h * sumTo shape.length (fun a => g c a * midFlux shape U a (decF shape c))) =
      sumTo (numFaces shape) (fun f => vol h * (1 / 2) *
        (g (conn shape f).1 (faceAxis shape f) + g (conn shape f).2 (faceAxis shape f)) * U f) := by
  have e1 : ∀ c, c < numCells shape →
      vol h * sumTo shape.length (fun a => g c a * midFlux shape U a (decF shape c)) =
      sumTo shape.length (fun a => vol h * (g c a * midFlux shape U a (decF shape c))) := by
    intro c _; rw [sumTo_mul_left]
  rw [sumTo_congr e1, sumTo_comm]
  unfold numFaces
  rw [sumTo_offset]
  refine sumTo_congr fun a ha => ?_
  have e2 : ∀ c, c < numCells shape → vol h * (g c a * midFlux shape U a (decF shape c)) =
      vol h * (1 / 2) * (g c a * uHi shape U a (decF shape c)) + vol h * (1 / 2) * (g c a * uLo shape U a (decF shape c)) := by
    intro c _; simp only [midFlux]; ring
  rw [sumTo_congr e2, sumTo_add, sumTo_mul_left, sumTo_mul_left,
    sum_coef_uHi shape U (fun c => g c a) a ha, sum_coef_uLo shape U (fun c => g c a) a ha,
    ← sumTo_mul_left, ← sumTo_mul_left, ← sumTo_add]
  refine sumTo_congr fun k hk => ?_
  rw [(face_block shape a k ha hk).1]; ring

/-- weak duality, exact part: for a mass-conserving flux, `Σ_c p_c · vol · f_c` equals the pairing of `g` with the
centre fluxes whenever on every face the mean of `g` is minus the difference quotient of `p` -/
theorem dual_identity (shape : List Nat) (h : List Rat) (f U p : Nat → Rat) (g : Nat → Nat → Rat)
    (hF : Feasible shape h f U)
    (hc : ∀ k, k < numFaces shape → vol h * (1 / 2) *
        (g (conn shape k).1 (faceAxis shape k) + g (conn shape k).2 (faceAxis shape k)) =
        -(area h (faceAxis shape k) * (p (conn shape k).2 - p (conn shape k).1))) :
    sumTo (numCells shape) (fun c => p c * (vol h * f c)) =
      sumTo (numCells shape) (fun c => vol h * sumTo shape.length (fun a => g c a * midFlux shape U a (decF shape c))) := by
  have e : ∀ c, c < numCells shape → p c * (vol h * f c) = p c * divApply shape h U c := fun c hc' => by rw [hF c hc']
  rw [sumTo_congr e, div_adjoint_aux, pairing_identity, ← sumTo_neg]
  refine sumTo_congr fun k hk => ?_
  rw [hc k hk]; ring

/-- **weak duality**: a potential `p` together with a cell field `g` in the polar of the norm (`⟨g_c, v⟩ ≤ N v`),
coupled on every face by `mean(g) = −Δp / h`, bounds the cost of every mass-conserving flux from below by `Σ_c p_c·vol·f_c`;
any rule with non-negative weights, total weight 1 and first moments ½. -/
theorem potential_lower_bound_aux {N} (hN : IsSeminormR N) (shape : List Nat) (h : List Rat) (hv : 0 ≤ vol h)
    (t : List (List ℝ × ℝ)) (hw : ∀ pw ∈ t, 0 ≤ pw.2) (h0 : (t.map Prod.snd).sum = 1)
    (h1 : ∀ a, a < shape.length → (t.map fun pw => pw.2 * pw.1.getD a 0).sum = 1 / 2)
    (f U p : Nat → Rat) (g : Nat → Nat → Rat) (hF : Feasible shape h f U)
    (hc : ∀ k, k < numFaces shape → vol h * (1 / 2) *
        (g (conn shape k).1 (faceAxis shape k) + g (conn shape k).2 (faceAxis shape k)) =
        -(area h (faceAxis shape k) * (p (conn shape k).2 - p (conn shape k).1)))
    (hg : ∀ c, c < numCells shape → ∀ v : ℕ → ℝ,
        ((List.range shape.length).map fun a => ((g c a : Rat) : ℝ) * v a).sum ≤ N v) :
    ((sumTo (numCells shape) (fun c => p c * (vol h * f c)) : Rat) : ℝ) ≤ costR N shape h t 1 U := by
  have hvR : (0 : ℝ) ≤ (vol h : ℝ) := by exact_mod_cast hv
  rw [dual_identity shape h f U p g hF hc, cast_sumTo]
  unfold costR
  refine List.sum_le_sum fun c hcm => ?_
  have hc' : c < numCells shape := List.mem_range.1 hcm
  push_cast
  rw [cast_sumTo]
  refine mul_le_mul_of_nonneg_left ?_ hvR
  -- ⟨g_c, m_c⟩ ≤ N(m_c) ≤ Σ_q w_q N(v_{c,q})
  have s1 := hg c hc' (fun a => ((midFlux shape U a (decF shape c) : Rat) : ℝ))
  have s2 := hN.sum_le t (fun pw => pw.2) (fun pw a => cellVecR shape U pw.1 (decF shape c) a) hw
  have e : (fun a => (t.map fun pw => pw.2 * cellVecR shape U pw.1 (decF shape c) a).sum) =
      fun a => ((midFlux shape U a (decF shape c) : Rat) : ℝ) := by
    funext a; exact quad_mean shape U t (decF shape c) a (decF_length shape c) h0 h1
  rw [e] at s2
  refine le_trans ?_ (le_trans s1 (le_trans s2 ?_))
  · refine le_of_eq (congrArg List.sum (List.map_congr_left fun a _ => ?_))
    push_cast; ring
  · refine le_of_eq (congrArg List.sum (List.map_congr_left fun pw _ => ?_))
    simp only [one_mul]

/-! ### weak duality with one dual vector per quadrature point (exact dual of a rule with rational nodes) -/

/-- a rational rule `(w_q, pt_q)_{q<nq}` as the real rule list `costR` expects -/
noncomputable def ruleR (nq : Nat) (wq : Nat → Rat) (ptq : Nat → List Rat) : List (List ℝ × ℝ) :=
  (List.range nq).map fun q => ((ptq q).map (fun x => ((x : Rat) : ℝ)), ((wq q : Rat) : ℝ))

theorem pairing_rule_cell (shape : List Nat) (U : Nat → Rat) (nq : Nat) (wq : Nat → Rat) (ptq : Nat → List Rat)
    (g : Nat → Nat → Nat → Rat) (c : Nat) :
    sumTo nq (fun q => wq q * sumTo shape.length (fun a => g c q a * faceToCell shape U (ptq q) (decF shape c) a)) =
      sumTo shape.length (fun a => dualHi nq wq ptq g c a * uHi shape U a (decF shape c) +
        dualLo nq wq ptq g c a * uLo shape U a (decF shape c)) := by
  have e1 : ∀ q, q < nq → wq q * sumTo shape.length (fun a => g c q a * faceToCell shape U (ptq q) (decF shape c) a) =
      sumTo shape.length (fun a => wq q * (g c q a * faceToCell shape U (ptq q) (decF shape c) a)) := by
    intro q _; rw [sumTo_mul_left]
  rw [sumTo_congr e1, sumTo_comm]
  refine sumTo_congr fun a _ => ?_
  simp only [dualHi, dualLo]
  rw [← sumTo_mul_right, ← sumTo_mul_right, ← sumTo_add]
  refine sumTo_congr fun q _ => ?_
  simp only [faceToCell]; ring

/-- moving the dual field to the faces: face `f` sees `α` of its lower and `β` of its upper cell -/
theorem pairing_rule_identity (shape : List Nat) (h : List Rat) (U : Nat → Rat) (A B : Nat → Nat → Rat) :
    sumTo (numCells shape) (fun c => vol h * sumTo shape.length (fun a =>
        A c a * uHi shape U a (decF shape c) + B c a * uLo shape U a (decF shape c))) =
      sumTo (numFaces shape) (fun f => vol h *
        (A (conn shape f).1 (faceAxis shape f) + B (conn shape f).2 (faceAxis shape f)) * U f) := by
  have e1 : ∀ c, c < numCells shape →
      vol h * sumTo shape.length (fun a => A c a * uHi shape U a (decF shape c) + B c a * uLo shape U a (decF shape c)) =
      sumTo shape.length (fun a => vol h * (A c a * uHi shape U a (decF shape c) + B c a * uLo shape U a (decF shape c))) := by
    intro c _; rw [sumTo_mul_left]
  rw [sumTo_congr e1, sumTo_comm]
  unfold numFaces
  rw [sumTo_offset]
  refine sumTo_congr fun a ha => ?_
  have e2 : ∀ c, c < numCells shape →
      vol h * (A c a * uHi shape U a (decF shape c) + B c a * uLo shape U a (decF shape c)) =
      vol h * (A c a * uHi shape U a (decF shape c)) + vol h * (B c a * uLo shape U a (decF shape c)) := by
    intro c _; ring
  rw [sumTo_congr e2, sumTo_add, sumTo_mul_left, sumTo_mul_left,
    sum_coef_uHi shape U (fun c => A c a) a ha, sum_coef_uLo shape U (fun c => B c a) a ha,
    ← sumTo_mul_left, ← sumTo_mul_left, ← sumTo_add]
  refine sumTo_congr fun k hk => ?_
  rw [(face_block shape a k ha hk).1]; ring

theorem cellVecR_cast (shape : List Nat) (U : Nat → Rat) (pt : List Rat) (idx : List Nat) (a : Nat) :
    cellVecR shape U (pt.map fun x => ((x : Rat) : ℝ)) idx a = ((faceToCell shape U pt idx a : Rat) : ℝ) := by
  have : (pt.map fun x => ((x : Rat) : ℝ)).getD a 0 = ((pt.getD a 0 : Rat) : ℝ) := by
    simp only [List.getD_eq_getElem?_getD, List.getElem?_map]
    cases pt[a]? <;> simp
  simp only [cellVecR, faceToCell, this]; push_cast; ring

/-- **weak duality, one dual vector per quadrature point**: for a rule with rational nodes and non-negative weights, a potential
`p` and dual vectors `g c q` in the polar of the norm, coupled on every face through the RT0 interpolation weights
(`vol·(α_lo + β_hi) = −area·Δp`), bound the cost of every mass-conserving flux from below by `Σ_c p_c·vol·f_c`. -/
theorem potential_lower_bound_rule_aux {N} (hN : IsSeminormR N) (shape : List Nat) (h : List Rat) (hv : 0 ≤ vol h)
    (nq : Nat) (wq : Nat → Rat) (ptq : Nat → List Rat) (hw : ∀ q, q < nq → 0 ≤ wq q)
    (f U p : Nat → Rat) (g : Nat → Nat → Nat → Rat) (hF : Feasible shape h f U)
    (hc : ∀ k, k < numFaces shape → vol h *
        (dualHi nq wq ptq g (conn shape k).1 (faceAxis shape k) + dualLo nq wq ptq g (conn shape k).2 (faceAxis shape k)) =
        -(area h (faceAxis shape k) * (p (conn shape k).2 - p (conn shape k).1)))
    (hg : ∀ c, c < numCells shape → ∀ q, q < nq → ∀ v : ℕ → ℝ,
        ((List.range shape.length).map fun a => ((g c q a : Rat) : ℝ) * v a).sum ≤ N v) :
    ((sumTo (numCells shape) (fun c => p c * (vol h * f c)) : Rat) : ℝ) ≤ costR N shape h (ruleR nq wq ptq) 1 U := by
  have hvR : (0 : ℝ) ≤ (vol h : ℝ) := by exact_mod_cast hv
  -- exact part in ℚ
  have idq : sumTo (numCells shape) (fun c => p c * (vol h * f c)) =
      sumTo (numCells shape) (fun c => vol h * sumTo nq (fun q => wq q *
        sumTo shape.length (fun a => g c q a * faceToCell shape U (ptq q) (decF shape c) a))) := by
    have e : ∀ c, c < numCells shape → p c * (vol h * f c) = p c * divApply shape h U c := fun c hc' => by rw [hF c hc']
    rw [sumTo_congr e, div_adjoint_aux]
    have e2 : ∀ c, c < numCells shape →
        vol h * sumTo nq (fun q => wq q * sumTo shape.length (fun a => g c q a * faceToCell shape U (ptq q) (decF shape c) a)) =
        vol h * sumTo shape.length (fun a => dualHi nq wq ptq g c a * uHi shape U a (decF shape c) +
          dualLo nq wq ptq g c a * uLo shape U a (decF shape c)) := by
      intro c _; rw [pairing_rule_cell]
    rw [sumTo_congr e2, pairing_rule_identity, ← sumTo_neg]
    refine sumTo_congr fun k hk => ?_
    rw [hc k hk]; ring
  rw [idq, cast_sumTo]
  unfold costR
  refine List.sum_le_sum fun c hcm => ?_
  have hc' : c < numCells shape := List.mem_range.1 hcm
  push_cast
  refine mul_le_mul_of_nonneg_left ?_ hvR
  rw [cast_sumTo]
  simp only [ruleR, List.map_map]
  refine List.sum_le_sum fun q hqm => ?_
  have hq : q < nq := List.mem_range.1 hqm
  simp only [Function.comp]
  push_cast
  have hwR : (0 : ℝ) ≤ ((wq q : Rat) : ℝ) := by exact_mod_cast hw q hq
  refine mul_le_mul_of_nonneg_left ?_ hwR
  rw [cast_sumTo]
  have s1 := hg c hc' q hq (fun a => cellVecR shape U ((ptq q).map fun x => ((x : Rat) : ℝ)) (decF shape c) a)
  refine le_trans (le_of_eq ?_) (le_trans s1 (le_of_eq ?_))
  · refine congrArg List.sum (List.map_congr_left fun a _ => ?_)
    rw [cellVecR_cast]; push_cast; ring
  · congr 1; funext a; ring

/-- a constant cell weight `k` scales the cost by `|k|` -/
theorem costR_weight {N} (hN : IsSeminormR N) (shape : List Nat) (h : List Rat) (t : List (List ℝ × ℝ)) (k : ℝ)
    (U : Nat → Rat) : costR N shape h t k U = |k| * costR N shape h t 1 U := by
  unfold costR
  rw [← List.sum_map_mul_left]
  refine congrArg List.sum (List.map_congr_left fun c _ => ?_)
  have : ∀ pw : List ℝ × ℝ, pw.2 * N (fun a => k * cellVecR shape U pw.1 (decF shape c) a) =
      |k| * (pw.2 * N (fun a => 1 * cellVecR shape U pw.1 (decF shape c) a)) := by
    intro pw; rw [hN.smul]; simp only [one_mul]; ring
  simp only [this]
  rw [List.sum_map_mul_left]; ring

end Darsia
