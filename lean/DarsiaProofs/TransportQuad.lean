/-
C05: the Euclidean norm as an instance of the abstract seminorm, and the facts about the quadrature rules selected by
`transport_density` (non-negative weights, total weight 1, first moments ½) derived from builder d's C15 theorems.
-/
import DarsiaProofs.TransportReal
import DarsiaProofs.QuadratureMain
import Mathlib.Analysis.Real.Sqrt
import Mathlib.Algebra.Order.BigOperators.Ring.Finset
import Mathlib.Tactic.Positivity
namespace Darsia
open Finset Darsia.Quad

/-- Euclidean norm of the first `d` components: `np.linalg.norm(·, 2, axis=-1)` -/
noncomputable def euclid (d : ℕ) (v : ℕ → ℝ) : ℝ := Real.sqrt (∑ a ∈ range d, v a ^ 2)

theorem euclid_isSeminormR (d : ℕ) : IsSeminormR (euclid d) := by
  constructor
  · intro s v
    unfold euclid
    have : ∑ a ∈ range d, (s * v a) ^ 2 = s ^ 2 * ∑ a ∈ range d, v a ^ 2 := by
      rw [Finset.mul_sum]; exact Finset.sum_congr rfl fun a _ => by ring
    rw [this, Real.sqrt_mul (sq_nonneg s), Real.sqrt_sq_eq_abs]
  · intro v w
    unfold euclid
    set A := ∑ a ∈ range d, v a ^ 2
    set B := ∑ a ∈ range d, w a ^ 2
    have hA : 0 ≤ A := Finset.sum_nonneg fun a _ => sq_nonneg _
    have hB : 0 ≤ B := Finset.sum_nonneg fun a _ => sq_nonneg _
    have cs : (∑ a ∈ range d, v a * w a) ^ 2 ≤ A * B := Finset.sum_mul_sq_le_sq_mul_sq _ _ _
    have hx : ∑ a ∈ range d, v a * w a ≤ Real.sqrt A * Real.sqrt B := by
      rw [← Real.sqrt_mul hA]
      exact Real.le_sqrt_of_sq_le cs
    have e : ∑ a ∈ range d, (v a + w a) ^ 2 = A + 2 * (∑ a ∈ range d, v a * w a) + B := by
      simp only [A, B, Finset.mul_sum, ← Finset.sum_add_distrib]
      exact Finset.sum_congr rfl fun a _ => by ring
    rw [e]
    apply Real.sqrt_le_iff.mpr
    refine ⟨by positivity, ?_⟩
    have sA := Real.sq_sqrt hA
    have sB := Real.sq_sqrt hB
    nlinarith [Real.sqrt_nonneg A, Real.sqrt_nonneg B]

theorem list_range_sum (d : ℕ) (F : ℕ → ℝ) : ((List.range d).map F).sum = ∑ a ∈ range d, F a := by
  induction d with
  | zero => simp
  | succ d ih => simp [List.range_succ, Finset.sum_range_succ, ih]

/-- the Euclidean unit ball is the polar of the Euclidean norm (Cauchy–Schwarz): a rational vector with `Σ g_a² ≤ 1`
pairs with any `v` to at most `‖v‖₂` -/
theorem euclid_polar (d : ℕ) (g : ℕ → ℚ) (hg : sumTo d (fun a => g a * g a) ≤ 1) (v : ℕ → ℝ) :
    ((List.range d).map fun a => ((g a : ℚ) : ℝ) * v a).sum ≤ euclid d v := by
  rw [list_range_sum]
  have hgR : ∑ a ∈ range d, ((g a : ℚ) : ℝ) ^ 2 ≤ 1 := by
    have : ((sumTo d (fun a => g a * g a) : ℚ) : ℝ) ≤ 1 := by exact_mod_cast hg
    rw [cast_sumTo, list_range_sum] at this
    refine le_trans (le_of_eq (Finset.sum_congr rfl fun a _ => ?_)) this
    push_cast; ring
  have cs := Finset.sum_mul_sq_le_sq_mul_sq (range d) (fun a => ((g a : ℚ) : ℝ)) v
  have hB : 0 ≤ ∑ a ∈ range d, v a ^ 2 := Finset.sum_nonneg fun a _ => sq_nonneg _
  unfold euclid
  apply Real.le_sqrt_of_sq_le
  calc (∑ a ∈ range d, ((g a : ℚ) : ℝ) * v a) ^ 2
      ≤ (∑ a ∈ range d, ((g a : ℚ) : ℝ) ^ 2) * ∑ a ∈ range d, v a ^ 2 := cs
    _ ≤ 1 * ∑ a ∈ range d, v a ^ 2 := mul_le_mul_of_nonneg_right hgR hB
    _ = ∑ a ∈ range d, v a ^ 2 := one_mul _

/-- what the first-moment bound needs of a quadrature rule on the unit cell -/
structure CellRuleFacts (t : List (List ℝ × ℝ)) (dim : ℕ) : Prop where
  nonneg : ∀ pw ∈ t, 0 ≤ pw.2
  total : (t.map Prod.snd).sum = 1
  first : ∀ a, a < dim → (t.map fun pw => pw.2 * pw.1.getD a 0).sum = 1 / 2

/-- exponent vector `e_a` -/
def axisExp (dim a : ℕ) : List ℕ := (List.replicate dim 0).set a 1

theorem monoEval_axisExp : ∀ (dim a : ℕ) (xs : List ℝ), xs.length = dim → a < dim →
    monoEval (axisExp dim a) xs = xs.getD a 0
  | 0, _, _, _, h => by omega
  | n + 1, a, [], h, _ => by simp at h
  | n + 1, 0, x :: xs, _, _ => by
    simp only [axisExp, List.replicate_succ, List.set_cons_zero, monoEval, pow_one, List.getD_cons_zero]
    rw [monoEval_zero]; ring
  | n + 1, a + 1, x :: xs, h, ha => by
    simp only [axisExp, List.replicate_succ, List.set_cons_succ, monoEval, pow_zero, one_mul, List.getD_cons_succ]
    exact monoEval_axisExp n a xs (by simpa using h) (by omega)

theorem prod_axisExp (I : ℕ → ℝ) (h0 : I 0 = 1) : ∀ (dim a : ℕ), a < dim → ((axisExp dim a).map I).prod = I 1
  | 0, _, h => by omega
  | n + 1, 0, _ => by simp [axisExp, List.replicate_succ, h0]
  | n + 1, a + 1, ha => by
    simp only [axisExp, List.replicate_succ, List.set_cons_succ, List.map_cons, List.prod_cons, h0, one_mul]
    exact prod_axisExp I h0 n a (by omega)

theorem axisExp_le (dim a : ℕ) : ∀ e ∈ axisExp dim a, e ≤ 1 := by
  intro e he
  rcases List.mem_or_eq_of_mem_set he with h | h
  · rw [List.eq_of_mem_replicate h]; omega
  · omega

theorem mem_realPairs_tq {pts : List (List QExpr)} {wts : List QExpr} {pw : List ℝ × ℝ}
    (h : pw ∈ realPairs pts wts) : ∃ p ∈ pts, ∃ w ∈ wts, pw = (p.map evalR, evalR w) := by
  unfold realPairs at h
  induction pts generalizing wts with
  | nil => simp at h
  | cons p ps ih =>
    cases wts with
    | nil => simp at h
    | cons w ws =>
      simp only [List.zipWith_cons_cons, List.mem_cons] at h
      rcases h with h | h
      · exact ⟨p, by simp, w, by simp, h⟩
      · obtain ⟨p', hp', w', hw', e⟩ := ih h
        exact ⟨p', by simp [hp'], w', by simp [hw'], e⟩

/-- generic: lengths, positive weights with total 1 and exactness for per-variable degree ≥ 1 on `[0,1]^dim` give the
three facts -/
theorem cellRuleFacts_of_exact {pts : List (List QExpr)} {wts : List QExpr} {dim m : ℕ}
    (hlen : pts.length = wts.length) (hpos : ∀ w ∈ wts, 0 < evalR w) (htot : (wts.map evalR).sum = 1)
    (hex : ExactOn (realPairs pts wts) dim m (fun k => ∫ x in (0 : ℝ)..1, x ^ k)) (hm : 1 ≤ m)
    (hpl : ∀ p ∈ pts, p.length = dim) : CellRuleFacts (realPairs pts wts) dim := by
  refine ⟨?_, ?_, ?_⟩
  · intro pw hpw
    obtain ⟨p, _, w, hw, e⟩ := mem_realPairs_tq hpw
    rw [e]; exact (hpos w hw).le
  · rw [realPairs_snd hlen, htot]
  · intro a ha
    have := hex (axisExp dim a) (by simp [axisExp]) (fun e he => le_trans (axisExp_le dim a e he) hm)
    rw [prod_axisExp _ (by rw [unit_integral]; simp) dim a ha, unit_integral] at this
    unfold momN at this
    have h2 : (1 : ℝ) / ((1 : ℕ) + 1) = 1 / 2 := by norm_num
    rw [h2] at this
    rw [← this]
    refine congrArg List.sum (List.map_congr_left fun pw hpw => ?_)
    obtain ⟨p, hp, w, _, e⟩ := mem_realPairs_tq hpw
    rw [monoEval_axisExp dim a pw.1 (by rw [e]; simp [hpl p hp]) ha]
  
theorem toUnitCell_pts_length (r : Rule) (dim : ℕ) (h : ∀ p ∈ r.pts, p.length = dim) :
    ∀ p ∈ r.toUnitCell.pts, p.length = dim := by
  intro p hp
  simp only [Rule.toUnitCell, List.mem_map] at hp
  obtain ⟨q, hq, rfl⟩ := hp
  simp [h q hq]

/-- `gauss_reference_cell` of any proved table -/
theorem cellRuleFacts_of_unitSpec {r : Rule} {dim n : ℕ} (hs : UnitSpec r dim n) (hn : 1 ≤ n)
    (hpl : ∀ p ∈ r.pts, p.length = dim) : CellRuleFacts r.toUnitCell.real dim :=
  cellRuleFacts_of_exact hs.lengths hs.pos hs.total hs.exact (by omega) (toUnitCell_pts_length r dim hpl)

/-- `reference_cell_corners` -/
theorem cellRuleFacts_of_cornerSpec {r : Rule} {dim : ℕ} (hs : CornerSpec r dim)
    (hpl : ∀ p ∈ r.pts, p.length = dim) : CellRuleFacts r.real dim :=
  cellRuleFacts_of_exact hs.lengths hs.pos hs.total hs.exact (le_refl 1) hpl

/-- decidable form of "all points have `dim` coordinates" for a generated table entry -/
def ptsLengthOk (rule : Except Err Rule) (dim : ℕ) : Bool :=
  match rule with
  | .ok r => r.pts.all fun p => p.length == dim
  | .error _ => false

theorem ptsLengthOk_sound {rule : Except Err Rule} {dim : ℕ} {r : Rule} (h : ptsLengthOk rule dim = true)
    (hr : rule = .ok r) : ∀ p ∈ r.pts, p.length = dim := by
  subst hr
  simp only [ptsLengthOk, List.all_eq_true, beq_iff_eq] at h
  exact h

end Darsia
