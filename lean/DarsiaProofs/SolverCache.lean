/-
Which system does a `linear_solve` with a cached solver solve?  (`DarsiaModel.SolverCache`)
-/
import DarsiaModel.SolverCache
namespace Darsia.SolverCache
open Darsia

variable {f : Formulation} {b : Backend}

theorem linearSolve_ok (h : ¬(f = .full ∧ b ≠ .direct)) (st : State) (m : MatId) (reuse : Bool) :
    linearSolve f b st m reuse =
      .ok ({ solver := some (if (!reuse || st.solver.isNone) then build f b m else st.solver.getD (build f b m)) },
           { used := (if (!reuse || st.solver.isNone) then build f b m else st.solver.getD (build f b m)).solves.getD m,
             precond := (if (!reuse || st.solver.isNone) then build f b m else st.solver.getD (build f b m)).precond,
             setup := (!reuse || st.solver.isNone) }) := by
  unfold linearSolve
  rw [if_neg h]

theorem build_used (f : Formulation) (b : Backend) (m : MatId) : (build f b m).solves.getD m = m := by
  unfold build
  cases b <;> simp
  split <;> simp

/-- a call that sets the solver up (no reuse requested, or first use) solves the system it is handed -/
theorem setup_solves_current (h : ¬(f = .full ∧ b ≠ .direct)) (st : State) (m : MatId) (reuse : Bool)
    (hs : (!reuse || st.solver.isNone) = true) :
    ∃ st' o, linearSolve f b st m reuse = .ok (st', o) ∧ o.used = m ∧ o.setup = true := by
  rw [linearSolve_ok h]
  refine ⟨_, _, rfl, ?_, hs⟩
  simp only [hs, if_true]
  exact build_used f b m

/-- **reuse_sound**: after a call that set the solver up on matrix `m`, any number of further calls with the SAME matrix
and `reuse_solver = True` solve the current system (with the solver of `m`) -/
theorem reuse_sound (h : ¬(f = .full ∧ b ≠ .direct)) (st : State) (m : MatId) (r0 : Bool)
    (hs : (!r0 || st.solver.isNone) = true) :
    ∀ st1 o1, linearSolve f b st m r0 = .ok (st1, o1) →
      ∀ st2 o2, linearSolve f b st1 m true = .ok (st2, o2) → o2.used = m ∧ o2.setup = false ∧ st2 = st1 := by
  intro st1 o1 h1 st2 o2 h2
  rw [linearSolve_ok h] at h1
  simp only [hs, if_true, Except.ok.injEq, Prod.mk.injEq] at h1
  obtain ⟨rfl, _⟩ := h1
  rw [linearSolve_ok h] at h2
  simp only [Bool.not_true, Option.isNone_some, Bool.or_self, Bool.false_eq_true, if_false, Option.getD_some,
    Except.ok.injEq, Prod.mk.injEq] at h2
  obtain ⟨rfl, rfl⟩ := h2
  exact ⟨build_used f b m, rfl, rfl⟩

/-- **exact characterisation of staleness**: the returned vector solves the system of the matrix handed in, unless
reuse is requested, a solver exists, and that solver holds a snapshot of a DIFFERENT matrix -/
theorem used_current_iff (h : ¬(f = .full ∧ b ≠ .direct)) (st : State) (m : MatId) (reuse : Bool) :
    ∀ st' o, linearSolve f b st m reuse = .ok (st', o) →
      (o.used = m ↔ ¬(reuse = true ∧ ∃ s m', st.solver = some s ∧ s.solves = some m' ∧ m' ≠ m)) := by
  intro st' o ho
  rw [linearSolve_ok h] at ho
  simp only [Except.ok.injEq, Prod.mk.injEq] at ho
  obtain ⟨_, rfl⟩ := ho
  cases reuse with
  | false => simp [build_used]
  | true =>
    cases hsol : st.solver with
    | none => simp [build_used]
    | some s =>
      cases hsv : s.solves with
      | none => simp [hsv]
      | some m' =>
        simp only [Bool.not_true, Option.isNone_some, Bool.or_self, Bool.false_eq_true, if_false, Option.getD_some, hsv,
          true_and]
        constructor
        · rintro rfl ⟨s', m'', hs', hm, hne⟩
          cases hs'
          rw [hsv] at hm
          cases hm
          exact hne rfl
        · intro hn
          apply Classical.byContradiction
          intro hc
          exact hn ⟨s, m', rfl, hsv, hc⟩

/-- the live-matrix solver of "pressure" × CG is the only one that can never return a stale solution: along ANY call
sequence on one object every returned vector solves the system handed in (its preconditioner may be stale) -/
theorem pressure_cg_never_stale : ∀ (calls : List (MatId × Bool)) (st : State),
    (∀ s, st.solver = some s → s.solves = none) →
    ∀ st' os, run .pressure .cg st calls = .ok (st', os) → ∀ p ∈ calls.zip os, p.2.used = p.1.1
  | [], _, _, _, _, _ => by intro p hp; simp at hp
  | (m, r) :: rest, st, hinv, st', os, hrun => by
    unfold run at hrun
    rw [linearSolve_ok (by decide)] at hrun
    simp only at hrun
    cases hrest : run Formulation.pressure Backend.cg
        { solver := some (if (!r || st.solver.isNone) = true then build .pressure .cg m else st.solver.getD (build .pressure .cg m)) }
        rest with
    | error e => rw [hrest] at hrun; cases hrun
    | ok pr =>
      rw [hrest] at hrun
      simp only [Except.ok.injEq, Prod.mk.injEq] at hrun
      obtain ⟨_, rfl⟩ := hrun
      have hnone : (if (!r || st.solver.isNone) = true then build .pressure .cg m
          else st.solver.getD (build .pressure .cg m)).solves = none := by
        split
        · simp [build]
        · rename_i hc
          cases hs : st.solver with
          | none => simp [hs] at hc
          | some s => simp [hinv s hs]
      intro p hp
      simp only [List.zip_cons_cons, List.mem_cons] at hp
      rcases hp with rfl | hp
      · show (Option.getD _ m) = m
        rw [hnone]; rfl
      · exact pressure_cg_never_stale rest _ (by intro s hs; simp only [Option.some.injEq] at hs; rw [← hs]; exact hnone)
          pr.1 pr.2 hrest p hp

/-- relation to builder e's `Stateful.WObj` (C16): for the snapshot solvers (every pair except "pressure" × CG) this
model and `WObj.linearSolve` report the same matrix and the same set-up flag, and stay related -/
def Rel (st : State) (w : Stateful.WObj) : Prop :=
  (st.solver = none ∧ w.solver = none) ∨ ∃ s m, st.solver = some s ∧ s.solves = some m ∧ w.solver = some m

theorem refines_WObj (h : ¬(f = .full ∧ b ≠ .direct)) (hlive : ¬(f = .pressure ∧ b = .cg)) (st : State)
    (w : Stateful.WObj) (hr : Rel st w) (m : MatId) (reuse : Bool) :
    ∃ st' o, linearSolve f b st m reuse = .ok (st', o) ∧
      (o.used.1, o.used.2, o.setup) = (w.linearSolve m reuse).2 ∧ Rel st' (w.linearSolve m reuse).1 := by
  have hbuild : (build f b m).solves = some m := by
    unfold build
    cases b with
    | direct => rfl
    | amg => rfl
    | cg =>
      have : f ≠ .pressure := fun hf => hlive ⟨hf, rfl⟩
      simp [this]
  rw [linearSolve_ok h]
  refine ⟨_, _, rfl, ?_, ?_⟩
  · rcases hr with ⟨h1, h2⟩ | ⟨s, m0, h1, h2, h3⟩
    · simp [Stateful.WObj.linearSolve, h1, h2, hbuild]
    · cases reuse <;> simp [Stateful.WObj.linearSolve, h1, h2, h3, hbuild]
  · rcases hr with ⟨h1, h2⟩ | ⟨s, m0, h1, h2, h3⟩
    · right
      exact ⟨build f b m, m, by simp [h1], hbuild, by simp [Stateful.WObj.linearSolve, h2]⟩
    · right
      cases reuse
      · exact ⟨build f b m, m, by simp, hbuild, by simp [Stateful.WObj.linearSolve]⟩
      · exact ⟨s, m0, by simp [h1], h2, by simp [Stateful.WObj.linearSolve, h3]⟩

end Darsia.SolverCache
