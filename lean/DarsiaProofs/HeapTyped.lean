import DarsiaProofs.HeapWF
namespace Darsia.Heap

def isTAt (H : Heap) (a : Nat) : Prop := ∃ v, H[a]? = some v ∧ v.isT = true
def isArrAt (H : Heap) (a : Nat) : Prop := ∃ s d, H[a]? = some (Val.arr s d)

/-- typing of one cell relative to a heap -/
def TypedCell (H : Heap) : Val → Prop
  | .img r => isTAt H r.date ∧ isTAt H r.time
  | .view b _ _ => isArrAt H b
  | _ => True

theorem typed_iff (H : Heap) : Typed H ↔ ∀ (a : Nat) (v : Val), H[a]? = some v → TypedCell H v := by
  constructor
  · intro ty a v hv
    cases v with
    | img r => exact ty.1 a r hv
    | view b s i => exact ty.2 a b s i hv
    | _ => trivial
  · intro h
    exact ⟨fun a r hv => h a _ hv, fun a b s i hv => h a _ hv⟩

theorem isTAt_frame {H H' : Heap} (f : Frame H H') {a : Nat} (h : isTAt H a) : isTAt H' a := by
  obtain ⟨v, hv, t⟩ := h
  have ha : a < H.length := (List.getElem?_eq_some_iff.mp hv).1
  exact ⟨v, by rw [f.2 a ha]; exact hv, t⟩

theorem isArrAt_frame {H H' : Heap} (f : Frame H H') {a : Nat} (h : isArrAt H a) : isArrAt H' a := by
  obtain ⟨s, d, hv⟩ := h
  have ha : a < H.length := (List.getElem?_eq_some_iff.mp hv).1
  exact ⟨s, d, by rw [f.2 a ha]; exact hv⟩

theorem typedCell_frame {H H' : Heap} (f : Frame H H') {v : Val} (h : TypedCell H v) : TypedCell H' v := by
  cases v with
  | img r => exact ⟨isTAt_frame f h.1, isTAt_frame f h.2⟩
  | view b s i => exact isArrAt_frame f h
  | _ => trivial

/-- appending cells that are typed in the extended heap -/
theorem typed_append {h1 : Heap} (ty : Typed h1) (cs : List Val) (hc : ∀ v ∈ cs, TypedCell (h1 ++ cs) v) :
    Typed (h1 ++ cs) := by
  rw [typed_iff] at ty ⊢
  intro a v hv
  by_cases hlt : a < h1.length
  · rw [List.getElem?_append_left hlt] at hv
    exact typedCell_frame (frame_append _ _) (ty a v hv)
  · rw [List.getElem?_append_right (by omega)] at hv
    exact hc v (List.mem_of_getElem? hv)

theorem leaf_typed {H : Heap} {v : Val} (h : v.refs = []) : TypedCell H v := by
  cases v <;> simp [Val.refs] at h <;> trivial

/-- replacing a cell by a cell of the same sort (image by image with typed date / time, array by array) -/
theorem typed_set {h1 : Heap} (ty : Typed h1) (s : Nat) (old new : Val) (ho : h1[s]? = some old)
    (hsort : (old.isT = false) ∧ (new.isT = false) ∧ ((∃ a b, old = .arr a b) ↔ (∃ a b, new = .arr a b)))
    (hn : TypedCell h1 new) : Typed (h1.set s new) := by
  rw [typed_iff] at ty ⊢
  have hs : s < h1.length := (List.getElem?_eq_some_iff.mp ho).1
  have keepT : ∀ a, isTAt h1 a → isTAt (h1.set s new) a := by
    intro a ⟨v, hv, t⟩
    by_cases e : s = a
    · subst e; rw [ho] at hv; cases hv; rw [hsort.1] at t; cases t
    · exact ⟨v, by rw [List.getElem?_set_ne e]; exact hv, t⟩
  have keepA : ∀ a, isArrAt h1 a → isArrAt (h1.set s new) a := by
    intro a ⟨x, y, hv⟩
    by_cases e : s = a
    · subst e
      rw [ho] at hv; cases hv
      obtain ⟨p, q, hnew⟩ := hsort.2.2.mp ⟨x, y, rfl⟩
      exact ⟨p, q, by rw [List.getElem?_set_self hs, hnew]⟩
    · exact ⟨x, y, by rw [List.getElem?_set_ne e]; exact hv⟩
  have lift : ∀ v, TypedCell h1 v → TypedCell (h1.set s new) v := by
    intro v hv
    cases v with
    | img r => exact ⟨keepT _ hv.1, keepT _ hv.2⟩
    | view b x y => exact keepA _ hv
    | _ => trivial
  intro a v hv
  by_cases e : s = a
  · subst e
    rw [List.getElem?_set_self hs] at hv; cases hv
    exact lift _ hn
  · rw [List.getElem?_set_ne e] at hv
    exact lift _ (ty a v hv)

end Darsia.Heap

namespace Darsia.Heap

theorem getT_isT {h : Heap} {a : Nat} {v : Val} (hg : getT h a = .ok v) : h[a]? = some v ∧ v.isT = true := by
  unfold getT at hg
  split at hg
  · rename_i x hv; cases hg; exact ⟨hv, rfl⟩
  · rename_i x hv; cases hg; exact ⟨hv, rfl⟩
  · contradiction

theorem timeFromDate_isT {s : Bool} {n : Nat} {rd : Option Rat} {d v : Val}
    (h : timeFromDate s n rd d = .ok v) : v.isT = true := by
  unfold timeFromDate at h
  repeat' split at h
  all_goals first | contradiction | skip
  all_goals first
    | (cases h; rfl)
    | (simp only [bind, Except.bind, pure, Except.pure] at h
       split at h
       · contradiction
       · cases h; rfl)

theorem ctorDate_typed {h : Heap} {c : CtorArgs} {t : Nat} {x : List Val × Nat × Val} (hd : ctorDate h c t = .ok x) :
    (x.1 = [] ∧ isTAt h x.2.1) ∨ (∃ v, x.1 = [v] ∧ v.isT = true ∧ x.2.1 = h.length + 2) := by
  unfold ctorDate at hd
  split at hd
  · split at hd
    · rename_i a _ v hg
      cases hd
      exact Or.inl ⟨rfl, v, (getT_isT hg).1, (getT_isT hg).2⟩
    · contradiction
  · cases hd
    refine Or.inr ⟨_, rfl, ?_, rfl⟩
    split <;> rfl

theorem ctorTime_typed {h : Heap} {c : CtorArgs} {t n2 : Nat} {rd : Option Rat} {dv : Val} {x : List Val × Nat}
    (hd : ctorTime h c t rd dv n2 = .ok x) :
    (x.1 = [] ∧ isTAt h x.2) ∨ (∃ v, x.1 = [v] ∧ v.isT = true ∧ x.2 = n2) := by
  unfold ctorTime at hd
  split at hd
  · split at hd
    · rename_i a _ v hg
      cases hd
      exact Or.inl ⟨rfl, _, (getT_isT hg).1, (getT_isT hg).2⟩
    · contradiction
  · split at hd
    · rename_i v hv
      cases hd
      exact Or.inr ⟨v, rfl, timeFromDate_isT hv, rfl⟩
    · contradiction

theorem isT_typedCell {H : Heap} {v : Val} (h : v.isT = true) : TypedCell H v := by
  cases v <;> simp [Val.isT] at h <;> trivial

/-- the cells allocated by the constructor are typed in the extended heap -/
theorem ctorPlan_typed {h : Heap} {c : CtorArgs} {cells : List Val} (hp : ctorPlan h c = .ok cells) :
    ∀ v ∈ cells, TypedCell (h ++ cells) v := by
  simp only [ctorPlan, bind, Except.bind, pure, Except.pure] at hp
  repeat' split at hp
  all_goals first | contradiction | skip
  cases hp
  rename_i _ _ _ _ _ _ _ _ _ _ _ dt hdt _ tm htm _ _ _
  have hd := ctorDate_typed hdt
  have ht := ctorTime_typed htm
  intro v hv
  simp only [List.mem_append, List.mem_cons, List.not_mem_nil, or_false] at hv
  rcases hv with (((rfl | rfl) | hv) | hv) | rfl
  · trivial
  · trivial
  · rcases hd with ⟨e, _⟩ | ⟨w, e, tw, _⟩
    · rw [e] at hv; simp at hv
    · rw [e] at hv; simp at hv; subst hv; exact isT_typedCell tw
  · rcases ht with ⟨e, _⟩ | ⟨w, e, tw, _⟩
    · rw [e] at hv; simp at hv
    · rw [e] at hv; simp at hv; subst hv; exact isT_typedCell tw
  · refine ⟨?_, ?_⟩
    · show isTAt _ dt.2.1
      rcases hd with ⟨e, ta⟩ | ⟨w, e, tw, ea⟩
      · exact isTAt_frame (frame_append _ _) ta
      · refine ⟨w, ?_, tw⟩
        rw [ea, e]
        simp
    · show isTAt _ tm.2
      rcases ht with ⟨e, ta⟩ | ⟨w, e, tw, ea⟩
      · exact isTAt_frame (frame_append _ _) ta
      · refine ⟨w, ?_, tw⟩
        rw [ea, e]
        rcases hd with ⟨e2, _⟩ | ⟨w2, e2, _, _⟩
        · rw [e2]; simp
        · rw [e2]
          simp only [List.length_cons, List.length_nil, List.append_assoc, List.cons_append, List.nil_append]
          rw [List.getElem?_append_right (by omega)]
          simp [show List.length h + 2 + (0 + 1) - List.length h = 3 by omega]

theorem copyCells_typed {h : Heap} {a : Nat} {cells : List Val} (hc : copyCells h h.length a = .ok cells) :
    ∀ v ∈ cells, TypedCell (h ++ cells) v := by
  simp only [copyCells, bind, Except.bind, pure, Except.pure] at hc
  repeat' split at hc
  all_goals first | contradiction | skip
  cases hc
  rename_i _ _ _ _ _ _ _ _ _ dt hdt _ tm htm
  intro v hv
  simp only [List.mem_cons, List.not_mem_nil, or_false] at hv
  rcases hv with rfl | rfl | rfl | rfl | rfl | rfl
  · trivial
  · trivial
  · trivial
  · exact isT_typedCell (getT_isT hdt).2
  · exact isT_typedCell (getT_isT htm).2
  · refine ⟨?_, ?_⟩
    · show isTAt _ (h.length + 3)
      exact ⟨dt, by simp, (getT_isT hdt).2⟩
    · show isTAt _ (h.length + 4)
      exact ⟨tm, by simp, (getT_isT htm).2⟩

end Darsia.Heap

namespace Darsia.Heap

theorem getImg_cell {h : Heap} {s : Nat} {r : ImgRec} (hg : getImg h s = .ok r) : h[s]? = some (.img r) := by
  unfold getImg at hg
  split at hg
  · rename_i r' hv; cases hg; exact hv
  · contradiction

theorem typed_rebind {h1 : Heap} (ty : Typed h1) {s : Nat} {r : ImgRec} (hg : getImg h1 s = .ok r) (v : Val)
    (hv : v.refs = []) (k : Nat) : Typed ((h1 ++ [v]).set s (.img { r with arr := k })) := by
  have ty2 : Typed (h1 ++ [v]) := typed_append ty _ (by intro w hw; simp at hw; subst hw; exact leaf_typed hv)
  have hcell := getImg_cell hg
  have hs : s < h1.length := (List.getElem?_eq_some_iff.mp hcell).1
  have hcell2 : (h1 ++ [v])[s]? = some (.img r) := by rw [List.getElem?_append_left hs]; exact hcell
  refine typed_set ty2 s (.img r) _ hcell2 ⟨rfl, rfl, ⟨(fun ⟨a, b, e⟩ => by cases e), (fun ⟨a, b, e⟩ => by cases e)⟩⟩ ?_
  exact (((typed_iff _).mp ty2) s (.img r) hcell2 : TypedCell _ (.img r))

theorem baseOf_isArr {h : Heap} (ty : Typed h) {x : Nat} {p : Nat × List Nat} (hb : baseOf h x = .ok p) :
    isArrAt h p.1 := by
  unfold baseOf at hb
  split at hb
  · rename_i s d hv; cases hb; exact ⟨s, d, hv⟩
  · rename_i b s i hv; cases hb; exact ty.2 x b s i hv
  · contradiction

theorem append_typed {h h1 : Heap} {s i : Nat} {off : Option Rat} (ty : Typed h) (ha : append h s i off = .ok h1) :
    Typed h1 := by
  unfold append at ha
  split at ha; · contradiction
  rename_i x hx
  split at ha; · contradiction
  rename_i h2 dA dV hd
  split at ha; · contradiction
  rename_i h3 tA ht
  cases ha
  -- the two new date / time cells are date / time objects
  have hdT : ∃ v, h2 = (h ++ [x.newArr]) ++ [v] ∧ v.isT = true ∧ dA = h.length + 1 := by
    unfold appendDate at hd
    split at hd
    all_goals first | contradiction | skip
    all_goals (cases hd; exact ⟨_, rfl, rfl, by simp⟩)
  obtain ⟨v2, rfl, t2, rfl⟩ := hdT
  have htT : ∃ v, h3 = (h ++ [x.newArr] ++ [v2]) ++ [v] ∧ v.isT = true ∧ tA = h.length + 2 := by
    unfold appendTime at ht
    split at ht
    · split at ht
      · rename_i v hv
        cases ht
        exact ⟨v, rfl, timeFromDate_isT hv, by simp⟩
      · contradiction
    · split at ht
      all_goals first | contradiction | skip
      all_goals (cases ht; exact ⟨_, rfl, rfl, by simp⟩)
  obtain ⟨v3, rfl, t3, rfl⟩ := htT
  have hg := (appendRead_img hx).1
  have hleaf := (appendRead_img hx).2
  have hcell := getImg_cell hg
  have hs : s < h.length := (List.getElem?_eq_some_iff.mp hcell).1
  have ty3 : Typed (h ++ [x.newArr] ++ [v2] ++ [v3]) :=
    typed_append (typed_append (typed_append ty _ (by intro w hw; simp at hw; subst hw; exact leaf_typed hleaf)) _
      (by intro w hw; simp at hw; subst hw; exact isT_typedCell t2)) _
      (by intro w hw; simp at hw; subst hw; exact isT_typedCell t3)
  have hcell3 : (h ++ [x.newArr] ++ [v2] ++ [v3])[s]? = some (.img x.rs) := by
    rw [List.getElem?_append_left (by simp; omega), List.getElem?_append_left (by simp; omega),
      List.getElem?_append_left hs]; exact hcell
  refine typed_set ty3 s (.img x.rs) _ hcell3 ⟨rfl, rfl, ⟨(fun ⟨a, b, e⟩ => by cases e), (fun ⟨a, b, e⟩ => by cases e)⟩⟩ ?_
  exact ⟨⟨v2, by simp, t2⟩, ⟨v3, by simp, t3⟩⟩

theorem appendAll_typed {s : Nat} : ∀ (is : List Nat) {h h1 : Heap}, Typed h → appendAll h s is = .ok h1 → Typed h1
  | [], h, h1, ty, ha => by simp only [appendAll] at ha; cases ha; exact ty
  | i :: is, h, h1, ty, ha => by
    simp only [appendAll, bind, Except.bind] at ha
    split at ha; · contradiction
    rename_i hm hmid
    exact appendAll_typed is (append_typed ty hmid) ha

end Darsia.Heap

namespace Darsia.Heap

theorem typed_leaf_append {h1 : Heap} (ty : Typed h1) (cs : List Val) (hl : ∀ v ∈ cs, v.refs = []) : Typed (h1 ++ cs) :=
  typed_append ty cs (fun v hv => leaf_typed (hl v hv))

/-- **Every modelled call preserves the typing of the heap** -/
theorem step_typed (g) (h h' : Heap) (op : Op) (r : Nat) (ty : Typed h) (hs : step g h op = .ok (h', r)) : Typed h' := by
  cases op with
  | ctor c => ex_split hs; cases hs; exact typed_append ty _ (ctorPlan_typed ‹ctorPlan _ _ = _›)
  | copy a => ex_split hs; cases hs; exact typed_append ty _ (copyCells_typed ‹copyCells _ _ _ = _›)
  | add a b =>
    ex_split hs; cases hs
    exact typed_append (typed_leaf_append ty _ (by simp [Val.refs])) _ (ctorPlan_typed ‹ctorPlan _ _ = _›)
  | sub a b =>
    ex_split hs; cases hs
    exact typed_append (typed_leaf_append ty _ (by simp [Val.refs])) _ (ctorPlan_typed ‹ctorPlan _ _ = _›)
  | derive a sh vs =>
    ex_split hs; cases hs
    exact typed_append (typed_leaf_append ty _ (by simp [Val.refs])) _ (ctorPlan_typed ‹ctorPlan _ _ = _›)
  | astypeClass a fs =>
    ex_split hs; cases hs
    exact typed_append (typed_leaf_append ty _ (by simp [Val.refs])) _ (ctorPlan_typed ‹ctorPlan _ _ = _›)
  | reduceAxis a ax sh vs no =>
    ex_split hs; cases hs
    exact typed_append (typed_leaf_append ty _ (by simp [Val.refs])) _ (ctorPlan_typed ‹ctorPlan _ _ = _›)
  | extrude a ht num no =>
    ex_split hs; cases hs
    exact typed_append (typed_leaf_append ty _ (by simp [Val.refs])) _ (ctorPlan_typed ‹ctorPlan _ _ = _›)
  | superpose l sh vs nd no =>
    ex_split hs
    all_goals cases hs
    exact typed_append (typed_leaf_append ty _ (by simp [Val.refs])) _ (ctorPlan_typed ‹ctorPlan _ _ = _›)
  | mul a t s =>
    ex_split hs; cases hs
    exact typed_rebind (typed_append ty _ (copyCells_typed ‹copyCells _ _ _ = _›)) ‹getImg _ (List.length h + 5) = _› _ rfl _
  | astype a =>
    ex_split hs; cases hs
    exact typed_rebind (typed_append ty _ (copyCells_typed ‹copyCells _ _ _ = _›)) ‹getImg _ (List.length h + 5) = _› _ rfl _
  | copyRebind a sh vs =>
    ex_split hs; cases hs
    exact typed_rebind (typed_append ty _ (copyCells_typed ‹copyCells _ _ _ = _›)) ‹getImg _ (List.length h + 5) = _› _ rfl _
  | weightImg a w rz =>
    ex_split hs
    all_goals cases hs
    all_goals (exact typed_rebind (typed_append ty _ (copyCells_typed ‹copyCells _ _ _ = _›)) ‹getImg _ (List.length h + 5) = _› _ rfl _)
  | weightNum a w =>
    ex_split hs; cases hs
    have hcc := ‹copyCells _ _ _ = _›
    have ty1 := typed_append ty _ (copyCells_typed hcc)
    have hr := ‹getImg _ (List.length h + 5) = _›
    obtain ⟨r0, sd0, c1, c2, c3, c4, _, _, rfl⟩ := copyCells_spec' hcc
    simp [getImg] at hr
    subst hr
    -- the array cell of the copy (an owning array) is overwritten by an array
    exact typed_set ty1 _ (.arr sd0.1 sd0.2) _ (by simp) ⟨rfl, rfl, ⟨fun _ => ⟨_, _, rfl⟩, fun _ => ⟨_, _, rfl⟩⟩⟩ trivial
  | measure args v => ex_split hs; cases hs; exact typed_leaf_append ty _ (by simp [Val.refs])
  | arrMap a vs => ex_split hs; cases hs; exact typed_leaf_append ty _ (by simp [Val.refs])
  | cmpNum k a s =>
    ex_split hs; cases hs
    exact typed_rebind (typed_append (typed_leaf_append ty _ (by simp [Val.refs])) _ (ctorPlan_typed ‹ctorPlan _ _ = _›)) ‹getImg _ _ = .ok _› _ rfl _
  | cmpImg k a b =>
    ex_split hs; cases hs
    rename_i _ ra hra _ rb hrb _ sd hsd _ sb hsb _ cells hc _ rr hr _
    exact typed_rebind (typed_append (typed_leaf_append ty _ (by simp [Val.refs])) _ (ctorPlan_typed hc)) hr _ rfl _
  | timeSlice a i =>
    ex_split hs
    all_goals cases hs
    have hb := baseOf_isArr ty ‹baseOf h _ = _›
    have hdv := pickT_leaf ‹pickT false _ _ = _›
    have htv := pickT_leaf ‹pickT true _ _ = _›
    refine typed_append (typed_append ty _ ?_) _ (ctorPlan_typed ‹ctorPlan _ _ = _›)
    intro v hv
    simp only [List.mem_cons, List.not_mem_nil, or_false] at hv
    rcases hv with rfl | rfl | rfl
    · exact isArrAt_frame (frame_append _ _) hb
    · exact leaf_typed hdv
    · exact leaf_typed htv
  | timeInterval a lo hi =>
    ex_split hs
    all_goals cases hs
    rename_i _ _ _ _ _ _ _ _ _ _ _ _ _ _ _ _ dv hdv _ tv htv _ cells hc
    have hb := baseOf_isArr ty ‹baseOf h _ = _›
    refine typed_append (typed_append ty _ ?_) _ (ctorPlan_typed hc)
    intro v hv
    simp only [List.mem_cons, List.not_mem_nil, or_false] at hv
    rcases hv with rfl | rfl | rfl
    · exact isArrAt_frame (frame_append _ _) hb
    · exact leaf_typed (sliceT_leaf hdv)
    · exact leaf_typed (sliceT_leaf htv)
  | subregion a rg nd no =>
    ex_split hs
    all_goals cases hs
    have hb := baseOf_isArr ty ‹baseOf h _ = _›
    refine typed_append (typed_append ty _ ?_) _ (ctorPlan_typed ‹ctorPlan _ _ = _›)
    intro v hv
    simp only [List.mem_cons, List.not_mem_nil, or_false] at hv
    rcases hv with rfl | rfl | rfl
    · exact isArrAt_frame (frame_append _ _) hb
    · trivial
    · trivial
  | stack l =>
    simp only [step, bind, Except.bind, pure, Except.pure] at hs
    repeat' split at hs
    all_goals first | contradiction | skip
    cases hs
    rename_i _ cells hc _ hall
    exact appendAll_typed _ (typed_append ty _ (copyCells_typed hc)) hall
  | toMono a k cv =>
    cases k with
    | none =>
      ex_split hs
      all_goals cases hs
      all_goals (
        have hcc := ‹copyCells _ _ _ = _›
        have hc := ‹ctorPlan _ _ = _›
        have ty1 := typed_append ty _ (copyCells_typed hcc)
        refine typed_append ?_ _ (ctorPlan_typed hc)
        exact typed_leaf_append ty1 _ (by simp [Val.refs]))
    | some kk =>
      ex_split hs
      all_goals cases hs
      all_goals (
        have hcc := ‹copyCells _ _ _ = _›
        have hr := ‹getImg _ (List.length h + 5) = _›
        have hc := ‹ctorPlan _ _ = _›
        have ty1 := typed_append ty _ (copyCells_typed hcc)
        have hlen := (copyCells_ub hcc).1
        refine typed_append ?_ _ (ctorPlan_typed hc)
        refine typed_append (typed_rebind ty1 hr _ rfl _) _ ?_
        intro v hv
        simp only [List.mem_singleton] at hv
        subst hv
        show isArrAt _ _
        refine ⟨(‹List Nat × List Rat›).1, cv, ?_⟩
        rw [List.getElem?_append_left (by simp [hlen]), List.getElem?_set_ne (by simp [hlen]),
          List.getElem?_append_right (by simp)]
        simp)

theorem run_typed (g) : ∀ (ops : List Op) (h h' : Heap), Typed h → run g h ops = .ok h' → Typed h'
  | [], h, h', ty, hr => by simp only [run] at hr; cases hr; exact ty
  | op :: ops, h, h', ty, hr => by
    simp only [run, bind, Except.bind] at hr
    split at hr; · contradiction
    rename_i p hp
    exact run_typed g ops p.1 h' (step_typed g h p.1 op p.2 ty hp) hr

end Darsia.Heap
