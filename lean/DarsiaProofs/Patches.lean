/-
Lemmas for C19 (patches tile the image).
-/
import Mathlib.Tactic.Ring
import Mathlib.Tactic.Linarith
import Mathlib.Tactic.FieldSimp
import Mathlib.Data.Rat.Floor
import DarsiaModel.Patches
import DarsiaProofs.Coord

namespace Darsia.Patch
open Darsia

theorem take_range'_min (a m k : Nat) : (List.range' a m).take k = List.range' a (min k m) := by
  by_cases h : m ≤ k
  · rw [List.take_range'_of_length_le h, Nat.min_eq_right h]
  · have h' : k ≤ m := Nat.le_of_lt (Nat.lt_of_not_le h)
    rw [List.take_range'_of_length_ge h', Nat.min_eq_left h']

theorem sliceL_range' (a m : Nat) (s : Nat × Nat) :
    sliceL (List.range' a m) s = List.range' (a + min s.1 m) (min s.2 m - min s.1 m) := by
  unfold sliceL
  rw [List.drop_range', take_range'_min]
  by_cases h : s.1 ≤ m
  · have e1 : min s.1 m = s.1 := Nat.min_eq_left h
    rw [e1]
    congr 1
    · omega
    · omega
  · have e2 : min (s.2 - s.1) (m - s.1) = 0 := by omega
    have e3 : min s.2 m - min s.1 m = 0 := by omega
    rw [e2, e3]; simp

theorem sliceL_range (N : Nat) (s : Nat × Nat) :
    sliceL (List.range N) s = List.range' (min s.1 N) (min s.2 N - min s.1 N) := by
  rw [List.range_eq_range', sliceL_range']; simp

/-- the interior of patch `i` along one axis, as base-image indices -/
theorem piece_eq (a : Axis) (i : Nat) (hov : a.ov ≤ a.pv) :
    a.piece i = List.range' (min (i * a.pv) a.N) (min ((i + 1) * a.pv) a.N - min (i * a.pv) a.N) := by
  unfold Axis.piece
  rw [sliceL_range, sliceL_range']
  unfold Axis.roi Axis.relRoi
  have hs : (i + 1) * a.pv = i * a.pv + a.pv := by ring
  rw [hs]
  by_cases h0 : i = 0
  · subst h0
    simp only [Nat.zero_mul, Nat.zero_add, if_true, Nat.zero_sub]
    congr 1 <;> omega
  · have hxp : a.pv ≤ i * a.pv := Nat.le_mul_of_pos_left _ (Nat.pos_of_ne_zero h0)
    generalize i * a.pv = x at *
    simp only [h0, if_false]
    congr 1 <;> omega

/-- the interiors of the first `k` patches, concatenated, are exactly the first `min (k·pv) N` indices -/
theorem pieces_prefix (a : Axis) (hov : a.ov ≤ a.pv) (k : Nat) :
    (List.range k).flatMap a.piece = List.range (min (k * a.pv) a.N) := by
  induction k with
  | zero => simp
  | succ k ih =>
    rw [List.range_succ, List.flatMap_append, ih]
    simp only [List.flatMap_cons, List.flatMap_nil, List.append_nil]
    rw [piece_eq a k hov, List.range_eq_range', List.range_eq_range']
    have hs : (k + 1) * a.pv = k * a.pv + a.pv := by ring
    rw [hs]
    generalize k * a.pv = x
    have := @List.range'_append_1 0 (min x a.N) (min (x + a.pv) a.N - min x a.N)
    simp only [Nat.zero_add] at this
    rw [this]
    congr 1
    omega

/-- the interiors of all `n` patches tile `[0, N)`: no gap, no double cover, in order -/
theorem pieces_partition (a : Axis) (hov : a.ov ≤ a.pv) (hcover : a.N ≤ a.n * a.pv) :
    (List.range a.n).flatMap a.piece = List.range a.N := by
  rw [pieces_prefix a hov, Nat.min_eq_right hcover]

theorem sliceL_map {α β} (f : α → β) (l : List α) (s : Nat × Nat) : sliceL (l.map f) s = (sliceL l s).map f := by
  unfold sliceL; rw [List.map_take, List.map_drop]

theorem sliceGrid_grid (R C : List Nat) (s0 s1 : Nat × Nat) :
    sliceGrid (grid R C) s0 s1 = grid (sliceL R s0) (sliceL C s1) := by
  unfold sliceGrid grid
  rw [sliceL_map, List.map_map]
  apply List.map_congr_left
  intro r _
  simp only [Function.comp]
  rw [sliceL_map]

theorem pieceImg_eq (a0 a1 : Axis) (i j : Nat) : pieceImg a0 a1 i j = grid (a0.piece i) (a1.piece j) := by
  unfold pieceImg patchImg baseGrid
  rw [sliceGrid_grid, sliceGrid_grid]
  rfl

theorem patchImg_eq (a0 a1 : Axis) (i j : Nat) : patchImg a0 a1 i j = grid (a0.data i) (a1.data j) := by
  unfold patchImg baseGrid
  rw [sliceGrid_grid]
  rfl

theorem hstack_grid (R C1 C2 : List Nat) : hstack (grid R C1) (grid R C2) = grid R (C1 ++ C2) := by
  unfold hstack grid
  induction R with
  | nil => rfl
  | cons r R ih => simp [List.zipWith, ih]

theorem foldl_hstack (R : List Nat) (c : Nat → List Nat) (js : List Nat) (C0 : List Nat) :
    js.foldl (fun row j => hstack row (grid R (c j))) (grid R C0) = grid R (C0 ++ js.flatMap c) := by
  induction js generalizing C0 with
  | nil => simp
  | cons j js ih =>
    simp only [List.foldl_cons, List.flatMap_cons]
    rw [hstack_grid, ih, List.append_assoc]

theorem grid_append (R1 R2 C : List Nat) : grid R1 C ++ grid R2 C = grid (R1 ++ R2) C := by
  unfold grid; rw [List.map_append]

theorem foldl_vstack (r : Nat → List Nat) (C : List Nat) (is : List Nat) (R0 : List Nat) :
    is.foldl (fun acc i => acc ++ grid (r i) C) (grid R0 C) = grid (R0 ++ is.flatMap r) C := by
  induction is generalizing R0 with
  | nil => simp
  | cons i is ih =>
    simp only [List.foldl_cons, List.flatMap_cons]
    rw [grid_append, ih, List.append_assoc]

theorem range_drop_one_flatMap (n : Nat) (hn : 0 < n) (c : Nat → List Nat) :
    c 0 ++ ((List.range n).drop 1).flatMap c = (List.range n).flatMap c := by
  cases n with
  | zero => omega
  | succ m =>
    rw [List.range_succ_eq_map]
    simp

/-- `assemble` as a grid of the concatenated interiors -/
theorem assemble_eq (a0 a1 : Axis) (h1 : 0 < a1.n) :
    assemble a0 a1 = grid ((List.range a0.n).flatMap a0.piece) ((List.range a1.n).flatMap a1.piece) := by
  unfold assemble
  have hrow : ∀ i, ((List.range a1.n).drop 1).foldl (fun row j => hstack row (pieceImg a0 a1 i j)) (pieceImg a0 a1 i 0)
      = grid (a0.piece i) ((List.range a1.n).flatMap a1.piece) := by
    intro i
    simp only [pieceImg_eq]
    rw [foldl_hstack (a0.piece i) a1.piece, range_drop_one_flatMap a1.n h1]
  simp only [hrow]
  have := foldl_vstack a0.piece ((List.range a1.n).flatMap a1.piece) (List.range a0.n) []
  simpa [grid] using this

/-! ### patch size, overlap -/

theorem pvInt_bounds (N n : Nat) (hn : 0 < n) : N ≤ n * pvInt N n ∧ n * pvInt N n < N + n := by
  unfold pvInt
  have h1 := Nat.div_add_mod (N + n - 1) n
  have h2 := Nat.mod_lt (N + n - 1) hn
  generalize (N + n - 1) / n = k at *
  generalize (N + n - 1) % n = r at *
  constructor <;> omega

theorem quot_simp (D : Rat) (N n : Nat) (hD : 0 < D) (hN : 0 < N) (hn : 0 < n) (c : Rat) :
    (c * (D / (n : Rat))) / (D / (N : Rat)) = c * ((N : Rat) / (n : Rat)) := by
  have h1 : (N : Rat) ≠ 0 := by exact_mod_cast (Nat.pos_iff_ne_zero.mp hN)
  have h2 : (n : Rat) ≠ 0 := by exact_mod_cast (Nat.pos_iff_ne_zero.mp hn)
  have h3 : D ≠ 0 := ne_of_gt hD
  field_simp

theorem ceil_eq_of_bounds {x : Rat} {k : Int} (h0 : x ≤ (k : Rat)) (h1 : (k : Rat) - 1 < x) : Rat.ceil x = k := by
  have a : x.ceil ≤ k := Rat.ceil_le_iff.mpr h0
  have b : k - 1 < x.ceil := Rat.lt_ceil_iff.mpr (by push_cast; exact h1)
  omega

/-- the patch size the code obtains from metric lengths, `ceil((D/n)/(D/N))`, is `⌈N/n⌉` — in exact
arithmetic; the float evaluation of the same quotient is NOT (see the finding), which is why the
code now uses the integer form -/
theorem pvRat_eq_pvInt (D : Rat) (N n : Nat) (hD : 0 < D) (hN : 0 < N) (hn : 0 < n) :
    pvRat D N n = (pvInt N n : Int) := by
  unfold pvRat
  have := quot_simp D N n hD hN hn 1
  simp only [one_mul] at this
  rw [this]
  obtain ⟨b1, b2⟩ := pvInt_bounds N n hn
  have hnq : (0 : Rat) < (n : Rat) := by exact_mod_cast hn
  apply ceil_eq_of_bounds
  · rw [div_le_iff₀ hnq]
    have : (N : Rat) ≤ ((n * pvInt N n : Nat) : Rat) := by exact_mod_cast b1
    push_cast at this ⊢; linarith
  · rw [lt_div_iff₀ hnq]
    have : ((n * pvInt N n : Nat) : Rat) < ((N + n : Nat) : Rat) := by exact_mod_cast b2
    push_cast at this ⊢; linarith

theorem ceil_mono {x y : Rat} (h : x ≤ y) : Rat.ceil x ≤ Rat.ceil y :=
  Rat.ceil_le_iff.mpr (le_trans h Rat.le_ceil)

theorem ceil_nonneg {x : Rat} (h : 0 ≤ x) : 0 ≤ Rat.ceil x := by
  have : ((-1 : Int) : Rat) < x := by push_cast; linarith
  have := Rat.lt_ceil_iff.mpr this
  omega

/-- for a relative overlap in [0, 1] the overlap in voxels is between 0 and the patch size -/
theorem ov_bounds (rel D : Rat) (N n : Nat) (hD : 0 < D) (hN : 0 < N) (hn : 0 < n) (h0 : 0 ≤ rel) (h1 : rel ≤ 1) :
    0 ≤ ovRat rel D N n ∧ ovRat rel D N n ≤ (pvInt N n : Int) := by
  rw [← pvRat_eq_pvInt D N n hD hN hn]
  unfold ovRat pvRat
  rw [quot_simp D N n hD hN hn rel]
  have e := quot_simp D N n hD hN hn 1
  simp only [one_mul] at e
  rw [e]
  have hq : (0 : Rat) ≤ (N : Rat) / (n : Rat) := by positivity
  constructor
  · exact ceil_nonneg (mul_nonneg h0 hq)
  · exact ceil_mono (by nlinarith)

/-! ### corners and centres -/

theorem pvInt_of_dvd (n k : Nat) (hn : 0 < n) : pvInt (n * k) n = k := by
  obtain ⟨b1, b2⟩ := pvInt_bounds (n * k) n hn
  have h1 : k ≤ pvInt (n * k) n := Nat.le_of_mul_le_mul_left b1 hn
  have h2 : pvInt (n * k) n < k + 1 := by
    have : n * pvInt (n * k) n < n * (k + 1) := by rw [Nat.mul_add, Nat.mul_one]; exact b2
    exact Nat.lt_of_mul_lt_mul_left this
  omega

/-- when the patch count divides the extent, voxel corners and physical corners coincide exactly -/
theorem corner_agree_of_dvd (D : Rat) (n k i : Nat) (hD : 0 < D) (hn : 0 < n) (hk : 0 < k) :
    cornerMetricVox D (n * k) n i = ((i * pvInt (n * k) n : Nat) : Rat) := by
  unfold cornerMetricVox
  rw [quot_simp D (n * k) n hD (Nat.mul_pos hn hk) hn, pvInt_of_dvd n k hn]
  have h2 : (n : Rat) ≠ 0 := by exact_mod_cast (Nat.pos_iff_ne_zero.mp hn)
  push_cast
  field_simp

/-- when the patch count divides the extent, the advertised voxel centre of patch `i` lies inside
the interior of patch `i` -/
theorem center_in_patch_of_dvd (n k i : Nat) (hn : 0 < n) (hk : 0 < k) :
    ((i * pvInt (n * k) n : Nat) : Int) ≤ Rat.floor (((i : Rat) + 1 / 2) * (((n * k : Nat) : Rat) / (n : Rat))) ∧
    Rat.floor (((i : Rat) + 1 / 2) * (((n * k : Nat) : Rat) / (n : Rat))) < (((i + 1) * pvInt (n * k) n : Nat) : Int) := by
  rw [pvInt_of_dvd n k hn]
  have h2 : (n : Rat) ≠ 0 := by exact_mod_cast (Nat.pos_iff_ne_zero.mp hn)
  have e : ((n * k : Nat) : Rat) / (n : Rat) = (k : Rat) := by push_cast; field_simp
  rw [e]
  have hkq : (0 : Rat) < (k : Rat) := by exact_mod_cast hk
  constructor
  · apply Rat.le_floor_iff.mpr
    push_cast; nlinarith
  · apply Rat.floor_lt_iff.mpr
    push_cast; nlinarith

end Darsia.Patch
