import DarsiaProofs.Heap
namespace Darsia.Heap

theorem fresh_base (h : Heap) (S : List Nat) : Fresh h.length h S := by
  intro a v ha hv
  rw [List.getElem?_eq_none (by omega)] at hv
  contradiction

theorem fresh_append {n : Nat} {h1 : Heap} {S : List Nat} (f : Fresh n h1 S) (cs : List Val)
    (hc : ∀ v ∈ cs, ∀ b ∈ v.refs, n ≤ b ∨ b ∈ S) : Fresh n (h1 ++ cs) S := by
  intro a v ha hv b hb
  by_cases hlt : a < h1.length
  · rw [List.getElem?_append_left hlt] at hv
    exact f a v ha hv b hb
  · rw [List.getElem?_append_right (by omega)] at hv
    exact hc v (List.mem_of_getElem? hv) b hb

theorem fresh_set {n : Nat} {h1 : Heap} {S : List Nat} (f : Fresh n h1 S) (c : Nat) (v : Val)
    (hc : ∀ b ∈ v.refs, n ≤ b ∨ b ∈ S) : Fresh n (h1.set c v) S := by
  intro a w ha hw b hb
  by_cases hac : c = a
  · subst hac
    by_cases hl : c < h1.length
    · rw [List.getElem?_set_self hl] at hw
      cases hw
      exact hc b hb
    · rw [List.getElem?_eq_none (by simpa using hl)] at hw
      contradiction
  · rw [List.getElem?_set_ne hac] at hw
    exact f a w ha hw b hb

theorem getT_leaf {h : Heap} {a : Nat} {v : Val} (hg : getT h a = .ok v) : v.refs = [] := by
  unfold getT at hg
  split at hg
  all_goals first | contradiction | (cases hg; rfl)

theorem copyCells_refs {h : Heap} {n a : Nat} {cells : List Val} (hc : copyCells h n a = .ok cells) :
    ∀ v ∈ cells, ∀ b ∈ v.refs, n ≤ b := by
  simp only [copyCells, bind, Except.bind, pure, Except.pure] at hc
  repeat' split at hc
  all_goals first | contradiction | skip
  cases hc
  rename_i _ _ _ _ _ _ _ _ _ dt hdt _ tm htm
  intro v hv b hb
  simp only [List.mem_cons, List.not_mem_nil, or_false] at hv
  rcases hv with rfl | rfl | rfl | rfl | rfl | rfl
  · simp [Val.refs] at hb
  · simp [Val.refs] at hb
  · simp [Val.refs] at hb
  · rw [getT_leaf hdt] at hb; simp at hb
  · rw [getT_leaf htm] at hb; simp at hb
  · simp [Val.refs] at hb
    rcases hb with rfl | rfl | rfl | rfl | rfl <;> omega

theorem ctorDate_spec {h : Heap} {c : CtorArgs} {t : Nat} {x : List Val × Nat × Val} (hd : ctorDate h c t = .ok x) :
    (∀ v ∈ x.1, v.refs = []) ∧ (h.length ≤ x.2.1 ∨ c.date = some x.2.1) := by
  unfold ctorDate at hd
  split at hd
  · split at hd
    · cases hd; exact ⟨by simp, Or.inr (by assumption)⟩
    · contradiction
  · cases hd
    refine ⟨?_, Or.inl (by simp)⟩
    intro v hv
    simp only [List.mem_singleton] at hv
    subst hv
    split <;> rfl

theorem ctorTime_spec {h : Heap} {c : CtorArgs} {t n2 : Nat} {rd : Option Rat} {dv : Val} {x : List Val × Nat}
    (hd : ctorTime h c t rd dv n2 = .ok x) :
    (∀ v ∈ x.1, v.refs = []) ∧ (x.2 = n2 ∨ c.time = some x.2) := by
  unfold ctorTime at hd
  split at hd
  · split at hd
    · cases hd; exact ⟨by simp, Or.inr (by assumption)⟩
    · contradiction
  · split at hd
    · rename_i v hv
      cases hd
      refine ⟨?_, Or.inl rfl⟩
      intro w hw
      simp only [List.mem_singleton] at hw
      subst hw
      exact timeFromDate_leaf hv
    · contradiction

/-- what the cells allocated by the constructor refer to -/
theorem ctorPlan_refs {h : Heap} {c : CtorArgs} {cells : List Val} (hp : ctorPlan h c = .ok cells) :
    ∀ v ∈ cells, ∀ b ∈ v.refs, h.length ≤ b ∨ b = c.arr ∨ c.date = some b ∨ c.time = some b := by
  simp only [ctorPlan, bind, Except.bind, pure, Except.pure] at hp
  repeat' split at hp
  all_goals first | contradiction | skip
  cases hp
  rename_i _ _ _ _ _ _ _ _ _ _ _ dt hdt _ tm htm _ _ _
  obtain ⟨ld, ad⟩ := ctorDate_spec hdt
  obtain ⟨lt, at'⟩ := ctorTime_spec htm
  intro v hv b hb
  simp only [List.mem_append, List.mem_cons, List.not_mem_nil, or_false] at hv
  rcases hv with (((rfl | rfl) | hv) | hv) | rfl
  · simp [Val.refs] at hb
  · simp [Val.refs] at hb
  · rw [ld v hv] at hb; simp at hb
  · rw [lt v hv] at hb; simp at hb
  · simp only [Val.refs, List.mem_cons, List.not_mem_nil, or_false] at hb
    rcases hb with rfl | rfl | rfl | rfl | rfl
    · exact Or.inr (Or.inl rfl)
    · exact Or.inl (Nat.le_refl _)
    · exact Or.inl (by omega)
    · rcases ad with h1 | h1
      · exact Or.inl h1
      · exact Or.inr (Or.inr (Or.inl h1))
    · rcases at' with h1 | h1
      · exact Or.inl (by omega)
      · exact Or.inr (Or.inr (Or.inr h1))

end Darsia.Heap

namespace Darsia.Heap

theorem getImg_recOf {h : Heap} {a : Nat} {r : ImgRec} (hg : getImg h a = .ok r) : recOf h a = some r := by
  simp [recOf, hg, Except.toOption]

theorem baseOf_baseCell {h : Heap} {a : Nat} {p : Nat × List Nat} (hb : baseOf h a = .ok p) : baseCell h a = [p.1] := by
  unfold baseOf at hb
  unfold baseCell
  split at hb
  all_goals first | contradiction | skip
  all_goals (cases hb; simp_all)

macro "ctor_side" hc:ident : tactic => `(tactic| (
  intro v hv x hx
  rcases ctorPlan_refs $hc v hv x hx with h1 | h1 | h1 | h1
  all_goals simp [fromMeta, Op.shared, *] at h1 ⊢
  all_goals omega))

theorem step_fresh_add (g) (h h' : Heap) (a b r : Nat) (hs : step g h (.add a b) = .ok (h', r)) :
    h.length ≤ r ∧ Fresh h.length h' ((Op.add a b).shared h) := by
  ex_split hs; cases hs
  rename_i _ ra hra _ rb hrb _ sa hsa _ sb hsb hne _ cells hc
  have hrec := getImg_recOf hra
  refine ⟨by simp <;> omega, ?_⟩
  apply fresh_append (fresh_append (fresh_base _ _) _ (by simp [Val.refs]))
  ctor_side hc

theorem step_fresh_sub (g) (h h' : Heap) (a b r : Nat) (hs : step g h (.sub a b) = .ok (h', r)) :
    h.length ≤ r ∧ Fresh h.length h' ((Op.sub a b).shared h) := by
  ex_split hs; cases hs
  rename_i _ ra hra _ rb hrb _ sa hsa _ sb hsb hne _ cells hc
  have hrec := getImg_recOf hra
  refine ⟨by simp <;> omega, ?_⟩
  apply fresh_append (fresh_append (fresh_base _ _) _ (by simp [Val.refs]))
  ctor_side hc

theorem step_fresh_ctor (g) (h h' : Heap) (c : CtorArgs) (r : Nat) (hs : step g h (.ctor c) = .ok (h', r)) :
    h.length ≤ r ∧ Fresh h.length h' ((Op.ctor c).shared h) := by
  ex_split hs; cases hs
  rename_i _ cells hc
  obtain ⟨pre, rr, hcells, _⟩ := ctorPlan_last hc
  refine ⟨by subst hcells; simp <;> omega, ?_⟩
  apply fresh_append (fresh_base _ _)
  intro v hv x hx
  rcases ctorPlan_refs hc v hv x hx with h1 | h1 | h1 | h1
  all_goals simp [Op.shared, *] at h1 ⊢
  all_goals first | omega | simp_all

theorem step_fresh_copy (g) (h h' : Heap) (a r : Nat) (hs : step g h (.copy a) = .ok (h', r)) :
    h.length ≤ r ∧ Fresh h.length h' ((Op.copy a).shared h) := by
  ex_split hs; cases hs
  rename_i _ cells hc
  refine ⟨by omega, ?_⟩
  apply fresh_append (fresh_base _ _)
  intro v hv x hx
  exact Or.inl (copyCells_refs hc v hv x hx)

end Darsia.Heap

namespace Darsia.Heap

theorem fresh_img {n : Nat} {h1 : Heap} {S : List Nat} (f : Fresh n h1 S) {s : Nat} (hs : n ≤ s) {r : ImgRec}
    (hg : getImg h1 s = .ok r) : ∀ b ∈ (Val.img r).refs, n ≤ b ∨ b ∈ S := by
  unfold getImg at hg
  split at hg
  · rename_i r' hr
    cases hg
    exact f s _ hs hr
  · contradiction

theorem fresh_copy {h : Heap} {a : Nat} {cells : List Val} (hc : copyCells h h.length a = .ok cells) (S : List Nat) :
    Fresh h.length (h ++ cells) S :=
  fresh_append (fresh_base _ _) _ (fun v hv b hb => Or.inl (copyCells_refs hc v hv b hb))

/-- the pattern `c = a.copy(); c.img = <new array>` -/
theorem fresh_rebind {n : Nat} {h1 : Heap} {S : List Nat} (f : Fresh n h1 S) {s : Nat} (hs : n ≤ s) {r : ImgRec}
    (hg : getImg h1 s = .ok r) (v : Val) (hv : v.refs = []) (hl : n ≤ h1.length) :
    Fresh n ((h1 ++ [v]).set s (.img { r with arr := h1.length })) S := by
  apply fresh_set (fresh_append f _ (by intro w hw; simp at hw; subst hw; simp [hv]))
  have hr := fresh_img f hs hg
  intro b hb
  simp only [Val.refs, List.mem_cons, List.not_mem_nil, or_false] at hb hr
  rcases hb with rfl | rfl | rfl | rfl | rfl
  · exact Or.inl hl
  · exact hr _ (by simp)
  · exact hr _ (by simp)
  · exact hr _ (by simp)
  · exact hr _ (by simp)

theorem step_fresh_mul (g) (h h' : Heap) (a r : Nat) (t : TyTag) (s : Rat) (hs : step g h (.mul a t s) = .ok (h', r)) :
    h.length ≤ r ∧ Fresh h.length h' ((Op.mul a t s).shared h) := by
  ex_split hs; cases hs
  rename_i _ _ _ cells hc _ rr hr _ sd hsd
  exact ⟨by omega, fresh_rebind (fresh_copy hc _) (by omega) hr _ rfl (by simp)⟩

theorem step_fresh_astype (g) (h h' : Heap) (a r : Nat) (hs : step g h (.astype a) = .ok (h', r)) :
    h.length ≤ r ∧ Fresh h.length h' ((Op.astype a).shared h) := by
  ex_split hs; cases hs
  rename_i _ cells hc _ rr hr _ sd hsd
  exact ⟨by omega, fresh_rebind (fresh_copy hc _) (by omega) hr _ rfl (by simp)⟩

theorem step_fresh_copyRebind (g) (h h' : Heap) (a r : Nat) (sh : List Nat) (vs : List Rat)
    (hs : step g h (.copyRebind a sh vs) = .ok (h', r)) :
    h.length ≤ r ∧ Fresh h.length h' ((Op.copyRebind a sh vs).shared h) := by
  ex_split hs; cases hs
  rename_i _ cells hc _ rr hr
  exact ⟨by omega, fresh_rebind (fresh_copy hc _) (by omega) hr _ rfl (by simp)⟩

theorem step_fresh_weightImg (g) (h h' : Heap) (a w r : Nat) (rz : List Rat)
    (hs : step g h (.weightImg a w rz) = .ok (h', r)) :
    h.length ≤ r ∧ Fresh h.length h' ((Op.weightImg a w rz).shared h) := by
  ex_split hs
  all_goals cases hs
  all_goals exact ⟨by omega, fresh_rebind (fresh_copy ‹copyCells _ _ _ = _› _) (by omega)
    ‹getImg _ (List.length h + 5) = _› _ rfl (by simp)⟩

theorem step_fresh_weightNum (g) (h h' : Heap) (a r : Nat) (w : Rat)
    (hs : step g h (.weightNum a w) = .ok (h', r)) :
    h.length ≤ r ∧ Fresh h.length h' ((Op.weightNum a w).shared h) := by
  ex_split hs; cases hs
  rename_i _ cells hc _ rr hr _ sd hsd
  exact ⟨by omega, fresh_set (fresh_copy hc _) _ _ (by simp [Val.refs])⟩

theorem step_fresh_measure (g) (h h' : Heap) (args : List Nat) (v : Rat) (r : Nat)
    (hs : step g h (.measure args v) = .ok (h', r)) :
    h.length ≤ r ∧ Fresh h.length h' ((Op.measure args v).shared h) := by
  ex_split hs; cases hs
  exact ⟨Nat.le_refl _, fresh_append (fresh_base _ _) _ (by simp [Val.refs])⟩

theorem step_fresh_arrMap (g) (h h' : Heap) (a : Nat) (vs : List Rat) (r : Nat)
    (hs : step g h (.arrMap a vs) = .ok (h', r)) :
    h.length ≤ r ∧ Fresh h.length h' ((Op.arrMap a vs).shared h) := by
  ex_split hs; cases hs
  exact ⟨Nat.le_refl _, fresh_append (fresh_base _ _) _ (by simp [Val.refs])⟩

end Darsia.Heap

namespace Darsia.Heap

theorem step_fresh_derive (g) (h h' : Heap) (a r : Nat) (sh : List Nat) (vs : List Rat)
    (hs : step g h (.derive a sh vs) = .ok (h', r)) :
    h.length ≤ r ∧ Fresh h.length h' ((Op.derive a sh vs).shared h) := by
  ex_split hs; cases hs
  rename_i _ ra hra _ cells hc
  have hrec := getImg_recOf hra
  refine ⟨by simp <;> omega, ?_⟩
  apply fresh_append (fresh_append (fresh_base _ _) _ (by simp [Val.refs]))
  ctor_side hc

theorem step_fresh_astypeClass (g) (h h' : Heap) (a r : Nat) (fs : Bool)
    (hs : step g h (.astypeClass a fs) = .ok (h', r)) :
    h.length ≤ r ∧ Fresh h.length h' ((Op.astypeClass a fs).shared h) := by
  ex_split hs; cases hs
  rename_i _ ra hra _ sd hsd _ cells hc
  have hrec := getImg_recOf hra
  refine ⟨by simp <;> omega, ?_⟩
  apply fresh_append (fresh_append (fresh_base _ _) _ (by simp [Val.refs]))
  ctor_side hc

theorem step_fresh_reduceAxis (g) (h h' : Heap) (a ax r : Nat) (sh : List Nat) (vs no : List Rat)
    (hs : step g h (.reduceAxis a ax sh vs no) = .ok (h', r)) :
    h.length ≤ r ∧ Fresh h.length h' ((Op.reduceAxis a ax sh vs no).shared h) := by
  ex_split hs; cases hs
  rename_i _ ra hra _ _ _ _ _ cells hc
  have hrec := getImg_recOf hra
  refine ⟨by simp <;> omega, ?_⟩
  apply fresh_append (fresh_append (fresh_base _ _) _ (by simp [Val.refs]))
  ctor_side hc

theorem step_fresh_extrude (g) (h h' : Heap) (a num r : Nat) (ht : Rat) (no : List Rat)
    (hs : step g h (.extrude a ht num no) = .ok (h', r)) :
    h.length ≤ r ∧ Fresh h.length h' ((Op.extrude a ht num no).shared h) := by
  ex_split hs; cases hs
  have hrec := getImg_recOf ‹getImg h a = _›
  have hc := ‹ctorPlan _ _ = _›
  refine ⟨by simp <;> omega, ?_⟩
  apply fresh_append (fresh_append (fresh_base _ _) _ (by simp [Val.refs]))
  ctor_side hc

theorem step_fresh_cmpNum (g) (h h' : Heap) (k : Cmp) (a r : Nat) (s : Rat)
    (hs : step g h (.cmpNum k a s) = .ok (h', r)) :
    h.length ≤ r ∧ Fresh h.length h' ((Op.cmpNum k a s).shared h) := by
  ex_split hs; cases hs
  rename_i _ ra hra _ sd hsd _ cells hc _ rr hr
  have hrec := getImg_recOf hra
  obtain ⟨pre, r0, hcells, _⟩ := ctorPlan_last hc
  have hlen : h.length + 1 ≤ (h ++ [Val.arr (List.take ra.spaceDim sd.fst) (List.replicate (spaceNum ra sd.fst) 0)] ++ cells).length - 1 := by
    subst hcells; simp
  have f2 : Fresh h.length (h ++ [Val.arr (List.take ra.spaceDim sd.fst) (List.replicate (spaceNum ra sd.fst) 0)] ++ cells)
      ((Op.cmpNum k a s).shared h) :=
    fresh_append (fresh_append (fresh_base _ _) _ (by simp [Val.refs])) _ (by ctor_side hc)
  exact ⟨by omega, fresh_rebind f2 (by omega) hr _ rfl (by simp)⟩

theorem step_fresh_cmpImg (g) (h h' : Heap) (k : Cmp) (a b r : Nat)
    (hs : step g h (.cmpImg k a b) = .ok (h', r)) :
    h.length ≤ r ∧ Fresh h.length h' ((Op.cmpImg k a b).shared h) := by
  ex_split hs; cases hs
  rename_i _ ra hra _ rb hrb _ sd hsd _ sb hsb _ cells hc _ rr hr _
  have hrec := getImg_recOf hra
  obtain ⟨pre, r0, hcells, _⟩ := ctorPlan_last hc
  have hlen : h.length + 1 ≤ (h ++ [Val.arr (List.take ra.spaceDim sd.fst) (List.replicate (spaceNum ra sd.fst) 0)] ++ cells).length - 1 := by
    subst hcells; simp
  have f2 : Fresh h.length (h ++ [Val.arr (List.take ra.spaceDim sd.fst) (List.replicate (spaceNum ra sd.fst) 0)] ++ cells)
      ((Op.cmpImg k a b).shared h) :=
    fresh_append (fresh_append (fresh_base _ _) _ (by simp [Val.refs])) _ (by ctor_side hc)
  exact ⟨by omega, fresh_rebind f2 (by omega) hr _ rfl (by simp)⟩

end Darsia.Heap

namespace Darsia.Heap

theorem pickT_leaf {b : Bool} {v w : Val} {i : Nat} (hp : pickT b v i = .ok w) : w.refs = [] := by
  unfold pickT at hp
  repeat' split at hp
  all_goals first | contradiction | (cases hp; rfl)

theorem sliceT_leaf {v w : Val} {lo hi : Nat} (hp : sliceT v lo hi = .ok w) : w.refs = [] := by
  unfold sliceT at hp
  split at hp
  all_goals first | contradiction | (cases hp; rfl)

theorem step_fresh_timeSlice (g) (h h' : Heap) (a i r : Nat)
    (hs : step g h (.timeSlice a i) = .ok (h', r)) :
    h.length ≤ r ∧ Fresh h.length h' ((Op.timeSlice a i).shared h) := by
  ex_split hs
  all_goals cases hs
  have hrec := getImg_recOf ‹getImg h a = _›
  have hbase := baseOf_baseCell ‹baseOf h _ = _›
  have hdv := ‹pickT false _ _ = _›
  have htv := ‹pickT true _ _ = _›
  have hc := ‹ctorPlan _ _ = _›
  refine ⟨by simp <;> omega, ?_⟩
  apply fresh_append (fresh_append (fresh_base _ _) _ ?_)
  · ctor_side hc
  · intro v hv x hx
    simp only [List.mem_cons, List.not_mem_nil, or_false] at hv
    rcases hv with rfl | rfl | rfl
    · simp [Val.refs] at hx; subst hx; simp [Op.shared, hrec, hbase]
    · rw [pickT_leaf hdv] at hx; simp at hx
    · rw [pickT_leaf htv] at hx; simp at hx

theorem step_fresh_timeInterval (g) (h h' : Heap) (a lo hi r : Nat)
    (hs : step g h (.timeInterval a lo hi) = .ok (h', r)) :
    h.length ≤ r ∧ Fresh h.length h' ((Op.timeInterval a lo hi).shared h) := by
  ex_split hs
  all_goals cases hs
  rename_i _ _ _ _ _ _ _ _ _ _ _ _ _ _ _ _ dv hdv _ tv htv _ cells hc
  have hrec := getImg_recOf ‹getImg h a = _›
  have hbase := baseOf_baseCell ‹baseOf h _ = _›
  refine ⟨by simp <;> omega, ?_⟩
  apply fresh_append (fresh_append (fresh_base _ _) _ ?_)
  · ctor_side hc
  · intro v hv x hx
    simp only [List.mem_cons, List.not_mem_nil, or_false] at hv
    rcases hv with rfl | rfl | rfl
    · simp [Val.refs] at hx; subst hx; simp [Op.shared, hrec, hbase]
    · rw [sliceT_leaf hdv] at hx; simp at hx
    · rw [sliceT_leaf htv] at hx; simp at hx

theorem step_fresh_subregion (g) (h h' : Heap) (a r : Nat) (rg : List (Nat × Nat)) (nd no : List Rat)
    (hs : step g h (.subregion a rg nd no) = .ok (h', r)) :
    h.length ≤ r ∧ Fresh h.length h' ((Op.subregion a rg nd no).shared h) := by
  ex_split hs
  all_goals cases hs
  have hrec := getImg_recOf ‹getImg h a = _›
  have hbase := baseOf_baseCell ‹baseOf h _ = _›
  have hc := ‹ctorPlan _ _ = _›
  refine ⟨by simp <;> omega, ?_⟩
  apply fresh_append (fresh_append (fresh_base _ _) _ ?_)
  · ctor_side hc
  · intro v hv x hx
    simp only [List.mem_cons, List.not_mem_nil, or_false] at hv
    rcases hv with rfl | rfl | rfl
    · simp [Val.refs] at hx; subst hx; simp [Op.shared, hrec, hbase]
    · simp [Val.refs] at hx
    · simp [Val.refs] at hx

end Darsia.Heap

namespace Darsia.Heap

theorem step_fresh_superpose (g) (h h' : Heap) (l r : Nat) (sh : List Nat) (vs nd no : List Rat)
    (hs : step g h (.superpose l sh vs nd no) = .ok (h', r)) :
    h.length ≤ r ∧ Fresh h.length h' ((Op.superpose l sh vs nd no).shared h) := by
  ex_split hs
  all_goals cases hs
  have hl := ‹getObjs h l = _›
  have hrec := getImg_recOf ‹getImg h _ = _›
  have hc := ‹ctorPlan _ _ = _›
  refine ⟨by simp <;> omega, ?_⟩
  apply fresh_append (fresh_append (fresh_base _ _) _ (by simp [Val.refs]))
  intro v hv x hx
  rcases ctorPlan_refs hc v hv x hx with h1 | h1 | h1 | h1
  all_goals simp [Op.shared, hl, hrec] at h1 ⊢
  all_goals omega

theorem step_fresh_toMono (g) (h h' : Heap) (a r : Nat) (k : Option Nat) (cv : List Rat)
    (hs : step g h (.toMono a k cv) = .ok (h', r)) :
    h.length ≤ r ∧ Fresh h.length h' ((Op.toMono a k cv).shared h) := by
  ex_split hs
  all_goals cases hs
  all_goals (
    have hcc := ‹copyCells _ _ _ = _›
    have hr := ‹getImg _ (List.length h + 5) = _›
    have hc := ‹ctorPlan _ _ = _›
    have f1 := fresh_copy hcc ([] : List Nat)
    have hrr := fresh_img f1 (by omega) hr
    refine ⟨by simp <;> omega, ?_⟩
    show Fresh _ _ []
    first
      | (apply fresh_append (fresh_append (fresh_rebind f1 (by omega) hr _ rfl (by simp)) _ ?_)
         · intro v hv x hx
           rcases ctorPlan_refs hc v hv x hx with h1 | h1 | h1 | h1
           all_goals simp [fromMeta] at h1
           · left; omega
           · left; omega
           · subst h1; exact hrr _ (by simp [Val.refs])
           · subst h1; exact hrr _ (by simp [Val.refs])
         · intro v hv x hx
           simp only [List.mem_singleton] at hv
           subst hv
           simp [Val.refs] at hx
           left; omega)
      | (apply fresh_append (fresh_append f1 _ (by simp [Val.refs]))
         intro v hv x hx
         rcases ctorPlan_refs hc v hv x hx with h1 | h1 | h1 | h1
         all_goals simp [fromMeta] at h1
         · left; omega
         · left; omega
         · subst h1; exact hrr _ (by simp [Val.refs])
         · subst h1; exact hrr _ (by simp [Val.refs])))

/-- `self.append(image)` on an object allocated after `n` whose cells only refer to cells after `n` -/
theorem append_fresh {n : Nat} {h h1 : Heap} {S : List Nat} {s i : Nat} {off : Option Rat}
    (f : Fresh n h S) (hs : n ≤ s) (hl : n ≤ h.length) (ha : append h s i off = .ok h1) :
    Fresh n h1 S ∧ n ≤ h1.length := by
  obtain ⟨rs, v1, v2, v3, tn, hg, l1, l2, l3, rfl⟩ := append_spec ha
  have hr := fresh_img f hs hg
  refine ⟨?_, by simp; omega⟩
  apply fresh_set (fresh_append f _ ?_)
  · intro b hb
    simp only [Val.refs, List.mem_cons, List.not_mem_nil, or_false] at hb hr
    rcases hb with rfl | rfl | rfl | rfl | rfl
    · exact Or.inl hl
    · exact hr _ (by simp)
    · exact hr _ (by simp)
    · exact Or.inl (by omega)
    · exact Or.inl (by omega)
  · intro v hv b hb
    simp only [List.mem_cons, List.not_mem_nil, or_false] at hv
    rcases hv with rfl | rfl | rfl
    · rw [l1] at hb; simp at hb
    · rw [l2] at hb; simp at hb
    · rw [l3] at hb; simp at hb

theorem appendAll_fresh {n : Nat} {S : List Nat} {s : Nat} (hs : n ≤ s) : ∀ (is : List Nat) {h h1 : Heap},
    Fresh n h S → n ≤ h.length → appendAll h s is = .ok h1 → Fresh n h1 S
  | [], h, h1, f, _, ha => by simp only [appendAll] at ha; cases ha; exact f
  | i :: is, h, h1, f, hl, ha => by
    simp only [appendAll, bind, Except.bind] at ha
    split at ha; · contradiction
    rename_i hm hmid
    obtain ⟨f', l'⟩ := append_fresh f hs hl hmid
    exact appendAll_fresh hs is f' l' ha

theorem step_fresh_stack (g) (h h' : Heap) (l r : Nat) (hs : step g h (.stack l) = .ok (h', r)) :
    h.length ≤ r ∧ Fresh h.length h' ((Op.stack l).shared h) := by
  simp only [step, bind, Except.bind, pure, Except.pure] at hs
  repeat' split at hs
  all_goals first | contradiction | skip
  cases hs
  rename_i _ cells hc _ hall
  exact ⟨by omega, appendAll_fresh (by omega) _ (fresh_copy hc _) (by simp) hall⟩

/-- every modelled call: the result is a new object, and the cells allocated by the call refer only to new
cells or to the documented shared cells -/
theorem step_fresh (g) (h h' : Heap) (op : Op) (r : Nat) (hs : step g h op = .ok (h', r)) :
    h.length ≤ r ∧ Fresh h.length h' (op.shared h) := by
  cases op with
  | ctor c => exact step_fresh_ctor g h h' c r hs
  | copy a => exact step_fresh_copy g h h' a r hs
  | add a b => exact step_fresh_add g h h' a b r hs
  | sub a b => exact step_fresh_sub g h h' a b r hs
  | mul a t s => exact step_fresh_mul g h h' a r t s hs
  | cmpImg k a b => exact step_fresh_cmpImg g h h' k a b r hs
  | cmpNum k a s => exact step_fresh_cmpNum g h h' k a r s hs
  | astype a => exact step_fresh_astype g h h' a r hs
  | timeSlice a i => exact step_fresh_timeSlice g h h' a i r hs
  | timeInterval a lo hi => exact step_fresh_timeInterval g h h' a lo hi r hs
  | subregion a rg nd no => exact step_fresh_subregion g h h' a r rg nd no hs
  | weightNum a w => exact step_fresh_weightNum g h h' a r w hs
  | weightImg a w rz => exact step_fresh_weightImg g h h' a w r rz hs
  | stack l => exact step_fresh_stack g h h' l r hs
  | copyRebind a sh vs => exact step_fresh_copyRebind g h h' a r sh vs hs
  | derive a sh vs => exact step_fresh_derive g h h' a r sh vs hs
  | astypeClass a fs => exact step_fresh_astypeClass g h h' a r fs hs
  | toMono a k cv => exact step_fresh_toMono g h h' a r k cv hs
  | reduceAxis a ax sh vs no => exact step_fresh_reduceAxis g h h' a ax r sh vs no hs
  | extrude a ht num no => exact step_fresh_extrude g h h' a num r ht no hs
  | superpose l sh vs nd no => exact step_fresh_superpose g h h' l r sh vs nd no hs
  | measure args v => exact step_fresh_measure g h h' args v r hs
  | arrMap a vs => exact step_fresh_arrMap g h h' a vs r hs

theorem reach_snoc {h : Heap} {s x y : Nat} {v : Val} (r : Reach h s x) (hv : h[x]? = some v) (hy : y ∈ v.refs) :
    Reach h s y := by
  induction r with
  | refl a => exact .step hv hy (.refl y)
  | step hv' hb _ ih => exact .step hv' hb (ih hv)

/-- from a new object one only reaches new cells, or old cells that are reachable (in the old heap) from a
documented shared cell -/
theorem reach_fresh {h h' : Heap} {S : List Nat} (wf : WF h) (fr : Frame h h') (f : Fresh h.length h' S) :
    ∀ {x b : Nat}, Reach h' x b → (h.length ≤ x ∨ ∃ s ∈ S, s < h.length ∧ Reach h s x) →
      (h.length ≤ b ∨ ∃ s ∈ S, s < h.length ∧ Reach h s b) := by
  intro x b r
  induction r with
  | refl a => exact id
  | @step x y c v hv hb hr ih =>
    intro hx
    apply ih
    rcases hx with hx | ⟨s, hs, hlt, hr'⟩
    · rcases f x v hx hv y hb with h1 | h1
      · exact Or.inl h1
      · by_cases hy : y < h.length
        · exact Or.inr ⟨y, h1, hy, .refl y⟩
        · exact Or.inl (by omega)
    · have hxl : x < h.length := reach_lt wf hr' hlt
      rw [fr.2 x hxl] at hv
      exact Or.inr ⟨s, hs, hlt, reach_snoc hr' hv hb⟩

end Darsia.Heap

namespace Darsia.Heap

/-- the cell `writePixels` writes: the array object of the image, or the buffer it is a view of -/
theorem writePixels_spec {h h2 : Heap} {s : Nat} {vals : List Rat} (hw : writePixels h s vals = .ok h2) :
    ∃ r c v, getImg h s = .ok r ∧ h2 = h.set c v ∧ v.refs = [] ∧
      ((c = r.arr ∧ ∃ sh d, h[r.arr]? = some (.arr sh d)) ∨
       (∃ sh idx bs bd, h[r.arr]? = some (.view c sh idx) ∧ h[c]? = some (.arr bs bd))) := by
  simp only [writePixels, bind, Except.bind, pure, Except.pure] at hw
  repeat' split at hw
  all_goals first | contradiction | skip
  all_goals cases hw
  · exact ⟨_, _, _, ‹_›, rfl, rfl, Or.inl ⟨rfl, _, _, ‹_›⟩⟩
  · exact ⟨_, _, _, ‹getImg _ _ = _›, rfl, rfl, Or.inr ⟨_, _, _, _, ‹_›, ‹_›⟩⟩

theorem recOf_img {h : Heap} {a : Nat} {r : ImgRec} (hr : recOf h a = some r) : h[a]? = some (.img r) := by
  unfold recOf getImg at hr
  split at hr
  · rename_i r' hh; simp [Except.toOption] at hr; subst hr; exact hh
  · simp [Except.toOption] at hr

theorem baseCell_not_view {h : Heap} (ty : Typed h) {x s : Nat} (hs : s ∈ baseCell h x) :
    ∀ c sh idx, h[s]? ≠ some (.view c sh idx) := by
  unfold baseCell at hs
  split at hs
  · rename_i b _ _ hv
    simp only [List.mem_singleton] at hs; subst hs
    obtain ⟨s', d, hb⟩ := ty.2 _ _ _ _ hv
    intro c sh idx; rw [hb]; simp
  · rename_i _ _ hv
    simp only [List.mem_singleton] at hs; subst hs
    intro c sh idx; rw [hv]; simp
  · simp at hs

theorem rec_time_not_view {h : Heap} (ty : Typed h) {a : Nat} {r : ImgRec} (hr : recOf h a = some r) {s : Nat}
    (hs : s = r.date ∨ s = r.time) : ∀ c sh idx, h[s]? ≠ some (.view c sh idx) := by
  obtain ⟨⟨v1, h1, t1⟩, ⟨v2, h2, t2⟩⟩ := ty.1 a r (recOf_img hr)
  intro c sh idx
  rcases hs with rfl | rfl
  · rw [h1]; intro e; cases e; simp [Val.isT] at t1
  · rw [h2]; intro e; cases e; simp [Val.isT] at t2

/-- except for the constructor (which wraps the array object it is given), no documented shared cell is a view -/
theorem shared_not_view {h : Heap} (ty : Typed h) (op : Op) (hnc : ∀ c, op ≠ .ctor c) {s : Nat}
    (hs : s ∈ op.shared h) : ∀ c sh idx, h[s]? ≠ some (.view c sh idx) := by
  cases op with
  | ctor c => exact absurd rfl (hnc c)
  | add a b | sub a b | cmpImg k a b | cmpNum k a x | derive a sh vs | astypeClass a fs | reduceAxis a ax sh vs no
  | extrude a ht num no =>
    simp only [Op.shared] at hs
    split at hs
    · rename_i r hr
      exact rec_time_not_view ty hr (by simpa using hs)
    · simp at hs
  | timeSlice a i | timeInterval a lo hi =>
    simp only [Op.shared] at hs
    split at hs
    · exact baseCell_not_view ty hs
    · simp at hs
  | subregion a rg nd no =>
    simp only [Op.shared] at hs
    split at hs
    · rename_i r hr
      rcases List.mem_append.mp hs with h1 | h1
      · exact baseCell_not_view ty h1
      · exact rec_time_not_view ty hr (by simpa using h1)
    · simp at hs
  | superpose l sh vs nd no =>
    simp only [Op.shared] at hs
    split at hs
    · split at hs
      · rename_i r hr
        exact rec_time_not_view ty hr (by simpa using hs)
      · simp at hs
    · simp at hs
  | _ => simp [Op.shared] at hs

/-- **Later pixel writes through a result**: after any modelled call other than the constructor,
`result.img[...] = values` can change, among the objects that existed before the call, only documented shared
cells (`Op.shared`). -/
theorem write_result_touches_only_shared (g) (h h' h2 : Heap) (op : Op) (r : Nat) (vals : List Rat) (ty : Typed h)
    (hnc : ∀ c, op ≠ .ctor c) (hs : step g h op = .ok (h', r)) (hw : writePixels h' r vals = .ok h2) :
    h.length ≤ h2.length ∧ ∀ c, c < h.length → c ∉ op.shared h → h2[c]? = h[c]? := by
  have fr := step_frame g h h' op r hs
  obtain ⟨hr, ff⟩ := step_fresh g h h' op r hs
  obtain ⟨rr, c, v, hg, rfl, _, hcase⟩ := writePixels_spec hw
  have hrr := fresh_img ff hr hg
  refine ⟨by simpa using fr.1, fun x hx hns => ?_⟩
  have hc : h.length ≤ c ∨ c ∈ op.shared h := by
    rcases hcase with ⟨rfl, _⟩ | ⟨sh, idx, bs, bd, hview, _⟩
    · exact hrr _ (by simp [Val.refs])
    · rcases hrr rr.arr (by simp [Val.refs]) with h1 | h1
      · exact ff rr.arr _ h1 hview c (by simp [Val.refs])
      · by_cases hlt : rr.arr < h.length
        · rw [fr.2 _ hlt] at hview
          exact absurd hview (shared_not_view ty op hnc h1 _ _ _)
        · exact ff rr.arr _ (by omega) hview c (by simp [Val.refs])
  rcases hc with hc | hc
  · rw [List.getElem?_set_ne (by omega)]; exact fr.2 x hx
  · rw [List.getElem?_set_ne (by intro e; subst e; exact hns hc)]; exact fr.2 x hx

/-- a shared cell of a copy-returning call is a date / time object, never a pixel buffer -/
theorem shared_copy_isT {h : Heap} (ty : Typed h) (op : Op) (hc : op.returnsCopy = true) {s : Nat}
    (hs : s ∈ op.shared h) : ∃ v, h[s]? = some v ∧ v.isT = true := by
  have key : ∀ {a r}, recOf h a = some r → s = r.date ∨ s = r.time → ∃ v, h[s]? = some v ∧ v.isT = true := by
    intro a r hr hs'
    obtain ⟨p1, p2⟩ := ty.1 a r (recOf_img hr)
    rcases hs' with rfl | rfl
    · exact p1
    · exact p2
  cases op with
  | ctor c => simp [Op.returnsCopy] at hc
  | timeSlice a i => simp [Op.returnsCopy] at hc
  | timeInterval a lo hi => simp [Op.returnsCopy] at hc
  | subregion a rg nd no => simp [Op.returnsCopy] at hc
  | add a b | sub a b | cmpImg k a b | cmpNum k a x | derive a sh vs | astypeClass a fs | reduceAxis a ax sh vs no
  | extrude a ht num no =>
    simp only [Op.shared] at hs
    split at hs
    · rename_i r hr; exact key hr (by simpa using hs)
    · simp at hs
  | superpose l sh vs nd no =>
    simp only [Op.shared] at hs
    split at hs
    · split at hs
      · rename_i r hr; exact key hr (by simpa using hs)
      · simp at hs
    · simp at hs
  | _ => simp [Op.shared] at hs

/-- **Copy-returning calls isolate their arguments from later pixel writes**: for every modelled call whose
result is documented as a new image (everything except the constructor, `time_slice`, `time_interval`,
`subregion`), `result.img[...] = values` leaves every object that existed before the call unchanged. -/
theorem write_result_isolated (g) (h h' h2 : Heap) (op : Op) (r : Nat) (vals : List Rat) (ty : Typed h)
    (hcopy : op.returnsCopy = true) (hs : step g h op = .ok (h', r)) (hw : writePixels h' r vals = .ok h2) :
    Frame h h2 := by
  have hnc : ∀ c, op ≠ .ctor c := by intro c e; subst e; simp [Op.returnsCopy] at hcopy
  obtain ⟨hl, hf⟩ := write_result_touches_only_shared g h h' h2 op r vals ty hnc hs hw
  refine ⟨hl, fun c hc => ?_⟩
  by_cases hsh : c ∈ op.shared h
  · -- a shared date / time object: `writePixels` only writes array cells
    have fr := step_frame g h h' op r hs
    obtain ⟨rr, c', v, hg, rfl, _, hcase⟩ := writePixels_spec hw
    by_cases hcc : c' = c
    · subst hcc
      obtain ⟨w, hw1, hw2⟩ := shared_copy_isT ty op hcopy hsh
      rw [← fr.2 _ hc] at hw1
      rcases hcase with ⟨_, sh, d, harr⟩ | ⟨sh, idx, bs, bd, _, harr⟩
      · rename_i e; subst e; rw [harr] at hw1; cases hw1; simp [Val.isT] at hw2
      · rw [harr] at hw1; cases hw1; simp [Val.isT] at hw2
    · rw [List.getElem?_set_ne hcc]; exact fr.2 c hc
  · exact hf c hc hsh

/-- in-place DarSIA operations on a result (`result.append(x)`, in-place `to_trichromatic`, `result.img = ...`)
rebind attributes of the result object only: every object that existed before the call is unchanged — also
for the view-returning calls. -/
theorem inplace_on_result_isolated (g) (h h' h2 : Heap) (op : Op) (r : Nat)
    (hs : step g h op = .ok (h', r)) :
    (∀ i off, append h' r i off = .ok h2 → Frame h h2) ∧
    (∀ sh vals, rebindImg h' r sh vals = .ok h2 → Frame h h2) := by
  have fr := step_frame g h h' op r hs
  obtain ⟨hr, _⟩ := step_fresh g h h' op r hs
  refine ⟨fun i off ha => append_owned fr hr ha, fun sh vals hb => ?_⟩
  simp only [rebindImg, bind, Except.bind, pure, Except.pure] at hb
  split at hb
  · contradiction
  · cases hb
    exact frame_set (frame_append' fr _) hr _

end Darsia.Heap

namespace Darsia.Heap

theorem wf_of_check {h : Heap} (hc : wfCheck h = true) : WF h := by
  intro a v hv b hb
  simp only [wfCheck, List.all_eq_true] at hc
  have := hc v (List.mem_of_getElem? hv)
  simp only [List.all_eq_true, decide_eq_true_eq] at this
  exact this b hb

theorem typed_of_check {h : Heap} (hc : typedCheck h = true) : Typed h := by
  simp only [typedCheck, List.all_eq_true] at hc
  constructor
  · intro a r hv
    have := hc _ (List.mem_of_getElem? hv)
    simp only [Bool.and_eq_true, beq_iff_eq] at this
    obtain ⟨h1, h2⟩ := this
    constructor
    · cases hd : h[r.date]? with
      | none => simp [hd] at h1
      | some v => simp [hd] at h1; exact ⟨v, rfl, h1⟩
    · cases hd : h[r.time]? with
      | none => simp [hd] at h2
      | some v => simp [hd] at h2; exact ⟨v, rfl, h2⟩
  · intro a b sh idx hv
    have := hc _ (List.mem_of_getElem? hv)
    simp only at this
    split at this
    · rename_i s d hb; exact ⟨s, d, hb⟩
    · cases this

end Darsia.Heap
