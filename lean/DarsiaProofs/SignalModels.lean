/-
Helper lemmas for C14: clip lattice facts, parameter routing of `CombinedModel`, the exponent
enumeration of the polynomial space, kernel interpolation.
-/
import DarsiaModel.SignalModels
import Mathlib.Algebra.Order.Field.Rat
import Mathlib.Data.List.Nodup
import Mathlib.Tactic.Ring
import Mathlib.Tactic.Linarith
import Mathlib.LinearAlgebra.Matrix.NonsingularInverse

namespace Darsia.Sig

/-! ### parameter routing: specification by slices -/

/-- number of parameters `update_model_parameters(·, dofs)` reads (`none`: the call raises ValueError) -/
def M.consumed : M → DofSpec → Option Nat
  | m, .all => some m.numParams
  | .clip .., .names l =>
    if sameSet l [.minValue, .maxValue] then some 2
    else if sameSet l [.minValue] then some 1 else if sameSet l [.maxValue] then some 1 else none
  | .scaling _, .names l => if sameSet l [.scaling] then some 1 else none
  | .linear .., .names l =>
    if sameSet l [.scaling, .offset] then some 2
    else if sameSet l [.scaling] then some 1 else if sameSet l [.offset] then some 1 else none
  | .het L .., .names l =>
    if sameSet l [.scaling, .offset] then some (2 * L)
    else if sameSet l [.scaling] then some L else if sameSet l [.offset] then some L else some 0

/-- what the model must be after the update, as a function of *exactly its slice* `sl` of the vector -/
def M.withDofs (m : M) (sl : List Rat) (dofs : DofSpec) : M :=
  let g (i : Nat) : Rat := listGetD sl i 0
  match m with
  | .clip lo hi =>
    let both := M.clip (g 0) (some (g 1))
    match dofs with
    | .all => both
    | .names l =>
      if sameSet l [.minValue, .maxValue] then both
      else if sameSet l [.minValue] then .clip (g 0) hi
      else if sameSet l [.maxValue] then .clip lo (some (g 0)) else m
  | .scaling s =>
    match dofs with
    | .all => .scaling (g 0)
    | .names l => if sameSet l [.scaling] then .scaling (g 0) else m
  | .linear s o =>
    let both := M.linear (g 0) (g 1)
    match dofs with
    | .all => both
    | .names l =>
      if sameSet l [.scaling, .offset] then both
      else if sameSet l [.scaling] then .linear (g 0) o
      else if sameSet l [.offset] then .linear s (g 0) else m
  | .het L s o =>
    let both := M.het L (sl.take L) (sl.drop L)
    match dofs with
    | .all => both
    | .names l =>
      if sameSet l [.scaling, .offset] then both
      else if sameSet l [.scaling] then .het L sl o
      else if sameSet l [.offset] then .het L s sl else m

theorem idx_ok {ps : List Rat} {i : Nat} (h : i < ps.length) : idx ps i = .ok (listGetD ps i 0) := by
  simp [idx, listGetD, List.getElem?_eq_getElem h]

theorem getD_take {ps : List Rat} {i k : Nat} (h : i < k) : listGetD (ps.take k) i 0 = listGetD ps i 0 := by
  simp [listGetD, List.getElem?_take, h]

theorem block_ok {ps : List Rat} {a L : Nat} (h : a + L ≤ ps.length) :
    block ps a L = .ok ((ps.drop a).take L) := by
  have : ((ps.drop a).take L).length = L := by simp; omega
  simp [block, this]

/-- one sub-model reads exactly the first `k` entries (`k` = number of selected parameters) -/
theorem M.update_eq (m : M) (ps : List Rat) (dofs : DofSpec) (k : Nat) (hk : m.consumed dofs = some k)
    (hlen : k ≤ ps.length) : m.update ps dofs = .ok (m.withDofs (ps.take k) dofs, k) := by
  cases m with
  | clip lo hi =>
    cases dofs with
    | all =>
      simp only [M.consumed, M.numParams, Option.some.injEq] at hk; subst hk
      simp [M.update, M.withDofs, idx_ok (show 0 < ps.length by omega), idx_ok (show 1 < ps.length by omega),
        getD_take, bind, Except.bind, pure, Except.pure]
    | names l =>
      simp only [M.consumed] at hk
      simp only [M.update, M.withDofs]
      split_ifs at hk ⊢ <;> simp only [Option.some.injEq] at hk <;> subst hk <;>
        simp_all [idx_ok (show 0 < ps.length by omega), getD_take, bind, Except.bind, pure, Except.pure]
      · simp [idx_ok (show 1 < ps.length by omega)]
  | scaling s =>
    cases dofs with
    | all =>
      simp only [M.consumed, M.numParams, Option.some.injEq] at hk; subst hk
      simp [M.update, M.withDofs, idx_ok (show 0 < ps.length by omega), getD_take, bind, Except.bind, pure, Except.pure]
    | names l =>
      simp only [M.consumed] at hk
      simp only [M.update, M.withDofs]
      split_ifs at hk ⊢ <;> simp only [Option.some.injEq] at hk <;> subst hk <;>
        simp_all [idx_ok (show 0 < ps.length by omega), getD_take, bind, Except.bind, pure, Except.pure]
  | linear s o =>
    cases dofs with
    | all =>
      simp only [M.consumed, M.numParams, Option.some.injEq] at hk; subst hk
      simp [M.update, M.withDofs, idx_ok (show 0 < ps.length by omega), idx_ok (show 1 < ps.length by omega),
        getD_take, bind, Except.bind, pure, Except.pure]
    | names l =>
      simp only [M.consumed] at hk
      simp only [M.update, M.withDofs]
      split_ifs at hk ⊢ <;> simp only [Option.some.injEq] at hk <;> subst hk <;>
        simp_all [idx_ok (show 0 < ps.length by omega), getD_take, bind, Except.bind, pure, Except.pure]
      · simp [idx_ok (show 1 < ps.length by omega)]
  | het L s o =>
    have hb0 : L ≤ ps.length → block ps 0 L = .ok (ps.take L) := fun h => by
      simpa using block_ok (ps := ps) (a := 0) (L := L) (by omega)
    have hbL : 2 * L ≤ ps.length → block ps L L = .ok ((ps.drop L).take L) := fun h =>
      block_ok (by omega)
    have htt : (ps.take (2 * L)).take L = ps.take L := by
      rw [List.take_take]; congr 1; omega
    have hdt : (ps.take (2 * L)).drop L = (ps.drop L).take L := by
      rw [List.drop_take]; congr 1; omega
    cases dofs with
    | all =>
      simp only [M.consumed, M.numParams, Option.some.injEq] at hk; subst hk
      simp [M.update, M.withDofs, hb0 (by omega), hbL hlen, htt, hdt, bind, Except.bind, pure, Except.pure]
    | names l =>
      simp only [M.consumed] at hk
      simp only [M.update, M.withDofs]
      split_ifs at hk ⊢ <;> simp only [Option.some.injEq] at hk <;> subst hk
      · simp [hb0 (by omega), hbL hlen, htt, hdt, bind, Except.bind, pure, Except.pure]
      · simp [hb0 hlen, bind, Except.bind, pure, Except.pure]
      · simp [hb0 hlen, bind, Except.bind, pure, Except.pure]
      · simp

/-- the kind of a model (and hence how many parameters each dof selects) does not change by updates -/
theorem M.consumed_withDofs (m : M) (sl : List Rat) (d d' : DofSpec) :
    (m.withDofs sl d).consumed d' = m.consumed d' := by
  cases m <;> cases d <;> cases d' <;> simp only [M.withDofs, M.consumed, M.numParams] <;>
    (try split_ifs) <;> simp_all [M.consumed, M.numParams]

/-- the vector cut into consecutive slices of the given lengths -/
def slices : List Nat → List Rat → List (List Rat)
  | [], _ => []
  | k :: ks, ps => ps.take k :: slices ks (ps.drop k)

theorem slices_flatten (ks : List Nat) (ps : List Rat) (h : ks.sum ≤ ps.length) :
    (slices ks ps).flatten = ps.take ks.sum := by
  induction ks generalizing ps with
  | nil => simp [slices]
  | cons k ks ih =>
    simp only [slices, List.flatten_cons, List.sum_cons] at h ⊢
    rw [ih (ps.drop k) (by simp; omega), List.take_add]

/-- specification of `dofs="all"`: model `i` gets slice `i` -/
def assignAll : List M → List Rat → List M
  | [], _ => []
  | m :: ms, ps => m.withDofs (ps.take m.numParams) .all :: assignAll ms (ps.drop m.numParams)

theorem updateAll_eq (ms : List M) (ps : List Rat) (h : (ms.map M.numParams).sum ≤ ps.length) :
    updateAll ms ps = .ok (assignAll ms ps) := by
  induction ms generalizing ps with
  | nil => rfl
  | cons m ms ih =>
    simp only [List.map_cons, List.sum_cons] at h
    have h1 := m.update_eq ps .all m.numParams rfl (by omega)
    have h2 := ih (ps.drop m.numParams) (by simp; omega)
    simp [updateAll, assignAll, h1, h2, bind, Except.bind, pure, Except.pure]

theorem assignAll_eq_zipWith (ms : List M) (ps : List Rat) :
    assignAll ms ps = List.zipWith (fun m sl => m.withDofs sl .all) ms (slices (ms.map M.numParams) ps) := by
  induction ms generalizing ps with
  | nil => rfl
  | cons m ms ih => simp [assignAll, slices, ih]

/-- specification of a subset update: entry `t = (pos, dofs)` gives model `pos` the next `k_t` entries -/
def assignSubset (ms : List M) : List (Nat × DofSpec) → List Rat → List M
  | [], _ => ms
  | (pos, spec) :: rest, ps =>
    match ms[pos]? with
    | none => ms
    | some m =>
      let k := (m.consumed spec).getD 0
      assignSubset (setAt ms pos (m.withDofs (ps.take k) spec)) rest (ps.drop k)

/-- total number of parameters a dof list selects; `none` if an entry is invalid -/
def totalSelected (ms : List M) : List (Nat × DofSpec) → Option Nat
  | [] => some 0
  | (pos, spec) :: rest =>
    match ms[pos]? with
    | none => none
    | some m => match m.consumed spec, totalSelected ms rest with
      | some k, some t => some (k + t)
      | _, _ => none

theorem setAt_getElem? {α} (l : List α) (i j : Nat) (a : α) (hi : i < l.length) :
    (setAt l i a)[j]? = if j = i then some a else l[j]? := by
  induction l generalizing i j with
  | nil => simp at hi
  | cons x xs ih =>
    cases i with
    | zero => cases j <;> simp [setAt]
    | succ i =>
      cases j with
      | zero => simp [setAt]
      | succ j =>
        simp only [setAt, List.getElem?_cons_succ]
        rw [ih i j (by simpa using hi)]
        simp

theorem totalSelected_setAt (ms : List M) (pos : Nat) (m : M) (hm : ms[pos]? = some m) (sl : List Rat)
    (d : DofSpec) (dofs : List (Nat × DofSpec)) :
    totalSelected (setAt ms pos (m.withDofs sl d)) dofs = totalSelected ms dofs := by
  have hpos : pos < ms.length := by
    by_contra hc
    rw [List.getElem?_eq_none (by omega)] at hm; cases hm
  induction dofs with
  | nil => rfl
  | cons e rest ih =>
    obtain ⟨p, spec⟩ := e
    simp only [totalSelected, setAt_getElem? ms pos p _ hpos, ih]
    by_cases hp : p = pos
    · subst hp; simp [hm, M.consumed_withDofs]
    · simp [hp]

theorem updateSubset_eq (ms : List M) (dofs : List (Nat × DofSpec)) (ps : List Rat) (t : Nat)
    (ht : totalSelected ms dofs = some t) (hlen : t ≤ ps.length) :
    updateSubset ms dofs ps = .ok (assignSubset ms dofs ps) := by
  induction dofs generalizing ms ps t with
  | nil => rfl
  | cons e rest ih =>
    obtain ⟨pos, spec⟩ := e
    simp only [totalSelected] at ht
    cases hm : ms[pos]? with
    | none => simp [hm] at ht
    | some m =>
      simp only [hm] at ht
      cases hk : m.consumed spec with
      | none => simp [hk] at ht
      | some k =>
        cases hr : totalSelected ms rest with
        | none => simp [hk, hr] at ht
        | some t' =>
          simp only [hk, hr, Option.some.injEq] at ht
          have h1 := m.update_eq ps spec k hk (by omega)
          have h2 := ih (setAt ms pos (m.withDofs (ps.take k) spec)) (ps.drop k) t'
            (by rw [totalSelected_setAt ms pos m hm]; exact hr) (by simp; omega)
          simp [updateSubset, assignSubset, hm, hk, h1, h2, bind, Except.bind]

/-! #### the same with global slices: entry `t` reads `ps[off_t : off_t + k_t]`, `off_t = Σ_{u<t} k_u` -/

/-- number of parameters each entry selects (determined by the kinds of the addressed models) -/
def ksOf (ms : List M) (dofs : List (Nat × DofSpec)) : List Nat :=
  dofs.map fun e => ((ms[e.1]?).bind fun m => m.consumed e.2).getD 0

/-- apply the entries, each with the slice it is given -/
def applyEntries (ms : List M) : List ((Nat × DofSpec) × List Rat) → List M
  | [] => ms
  | (e, sl) :: rest =>
    match ms[e.1]? with
    | none => ms
    | some m => applyEntries (setAt ms e.1 (m.withDofs sl e.2)) rest

theorem ksOf_setAt (ms : List M) (pos : Nat) (m : M) (hm : ms[pos]? = some m) (sl : List Rat)
    (d : DofSpec) (dofs : List (Nat × DofSpec)) :
    ksOf (setAt ms pos (m.withDofs sl d)) dofs = ksOf ms dofs := by
  have hpos : pos < ms.length := by
    by_contra hc
    rw [List.getElem?_eq_none (by omega)] at hm; cases hm
  unfold ksOf
  apply List.map_congr_left
  intro e _
  rw [setAt_getElem? ms pos e.1 _ hpos]
  by_cases hp : e.1 = pos
  · simp [hp, hm, M.consumed_withDofs]
  · simp [hp]

theorem totalSelected_eq_sum (ms : List M) (dofs : List (Nat × DofSpec)) (t : Nat)
    (ht : totalSelected ms dofs = some t) : (ksOf ms dofs).sum = t := by
  induction dofs generalizing t with
  | nil => simp [totalSelected] at ht; simp [ksOf, ← ht]
  | cons e rest ih =>
    obtain ⟨pos, spec⟩ := e
    simp only [totalSelected] at ht
    cases hm : ms[pos]? with
    | none => simp [hm] at ht
    | some m =>
      cases hk : m.consumed spec with
      | none => simp [hm, hk] at ht
      | some k =>
        cases hr : totalSelected ms rest with
        | none => simp [hm, hk, hr] at ht
        | some t' =>
          simp only [hm, hk, hr, Option.some.injEq] at ht
          have := ih t' hr
          simp only [ksOf, List.map_cons, List.sum_cons, hm, Option.bind_some, hk, Option.getD_some] at this ⊢
          omega

theorem assignSubset_eq_slices (ms : List M) (dofs : List (Nat × DofSpec)) (ps : List Rat) (t : Nat)
    (ht : totalSelected ms dofs = some t) :
    assignSubset ms dofs ps = applyEntries ms (dofs.zip (slices (ksOf ms dofs) ps)) := by
  induction dofs generalizing ms ps t with
  | nil => rfl
  | cons e rest ih =>
    obtain ⟨pos, spec⟩ := e
    simp only [totalSelected] at ht
    cases hm : ms[pos]? with
    | none => simp [hm] at ht
    | some m =>
      cases hk : m.consumed spec with
      | none => simp [hm, hk] at ht
      | some k =>
        cases hr : totalSelected ms rest with
        | none => simp [hm, hk, hr] at ht
        | some t' =>
          have h2 := ih (setAt ms pos (m.withDofs (ps.take k) spec)) (ps.drop k) t'
            (by rw [totalSelected_setAt ms pos m hm]; exact hr)
          rw [ksOf_setAt ms pos m hm] at h2
          simp only [assignSubset, hm, hk, Option.getD_some, h2]
          simp [ksOf, slices, applyEntries, hm, hk]

/-! ### polynomial space -/

theorem mem_polyExps (d i j : Nat) : (i, j) ∈ polyExps d ↔ i + j ≤ d := by
  simp only [polyExps, List.mem_flatMap, List.mem_range, List.mem_map, Prod.mk.injEq]
  constructor
  · rintro ⟨a, ha, b, hb, rfl, rfl⟩; omega
  · intro h; exact ⟨i, by omega, j, by omega, rfl, rfl⟩

theorem nodup_polyExps (d : Nat) : (polyExps d).Nodup := by
  unfold polyExps
  rw [List.nodup_flatMap]
  refine ⟨?_, ?_⟩
  · intro i _
    exact List.Nodup.map (fun a b h => by simpa using h) List.nodup_range
  · apply List.Pairwise.imp _ (List.pairwise_lt_range (n := d + 1))
    intro a b hab
    simp only [Function.onFun, List.disjoint_left, List.mem_map, List.mem_range]
    rintro ⟨x, y⟩ ⟨j, _, h1⟩ ⟨j', _, h2⟩
    simp only [Prod.mk.injEq] at h1 h2
    omega

theorem sum_range_rev (n : Nat) : ((List.range n).map fun i => n - i).sum * 2 = n * (n + 1) := by
  induction n with
  | zero => simp
  | succ n ih =>
    have : (List.range (n + 1)).map (fun i => n + 1 - i) = (n + 1) :: (List.range n).map (fun i => n - i) := by
      rw [List.range_succ_eq_map]
      simp only [List.map_cons, List.map_map, Nat.sub_zero, List.cons.injEq, true_and]
      apply List.map_congr_left
      intro i _
      simp [Function.comp]
    rw [this, List.sum_cons, Nat.add_mul, ih]; ring

theorem length_polyExps (d : Nat) : (polyExps d).length = polySize d := by
  unfold polyExps polySize
  rw [List.length_flatMap]
  simp only [List.length_map, List.length_range]
  have := sum_range_rev (d + 1)
  have h2 : (d + 1) * (d + 2) = (d + 1) * (d + 1 + 1) := by ring
  rw [h2, ← this]
  simp

/-! ### kernel interpolation -/

open Matrix in
/-- `K` invertible, weights `w = K⁻¹ v` ⇒ the kernel sum `Σ_j w_j k(x_i, x_j)` at support `i` is `v_i` -/
theorem interp_reproduces {F : Type} [Field F] {n : Nat} (K : Matrix (Fin n) (Fin n) F) (hK : IsUnit K.det)
    (v : Fin n → F) (i : Fin n) : ∑ j, (K⁻¹ *ᵥ v) j * K i j = v i := by
  have h : K *ᵥ (K⁻¹ *ᵥ v) = v := by
    rw [Matrix.mulVec_mulVec, Matrix.mul_nonsing_inv K hK, Matrix.one_mulVec]
  have := congrFun h i
  simp only [Matrix.mulVec, dotProduct] at this
  rw [← this]
  apply Finset.sum_congr rfl
  intro j _
  simp only [Matrix.mulVec, dotProduct]; ring

end Darsia.Sig

namespace Darsia.Sig

/-! ### nearest-neighbour resize of label maps -/

theorem nearIdx_lt {n : Nat} (N x : Nat) (hn : 0 < n) : nearIdx n N x < n := by
  unfold nearIdx; omega

theorem nearIdx_id {n x : Nat} (hx : x < n) : nearIdx n n x = x := by
  unfold nearIdx
  rw [Nat.mul_div_cancel x (by omega : 0 < n)]
  omega

theorem nearIdx_mono (n N : Nat) {x y : Nat} (h : x ≤ y) : nearIdx n N x ≤ nearIdx n N y := by
  unfold nearIdx
  have : x * n / N ≤ y * n / N := Nat.div_le_div_right (Nat.mul_le_mul_right n h)
  omega

theorem listGetD_mem {α} (l : List α) (i : Nat) (d : α) (h : i < l.length) : listGetD l i d ∈ l := by
  simp [listGetD, List.getElem?_eq_getElem h]

/-- shape of the resized map -/
theorem resizeNearest_shape (src : List (List Nat)) (H W : Nat) :
    (resizeNearest src H W).length = H ∧ ∀ row ∈ resizeNearest src H W, row.length = W := by
  constructor
  · simp [resizeNearest]
  · intro row hr
    simp only [resizeNearest, List.mem_map, List.mem_range] at hr
    obtain ⟨i, _, rfl⟩ := hr
    simp

/-- no new labels: every entry of the resized map is an entry of the source (non-empty rectangular source) -/
theorem resizeNearest_subset (src : List (List Nat)) (w H W : Nat) (hh : 0 < src.length) (hw : 0 < w)
    (hrect : ∀ row ∈ src, row.length = w) :
    ∀ row ∈ resizeNearest src H W, ∀ v ∈ row, ∃ srow ∈ src, v ∈ srow := by
  intro row hr v hv
  simp only [resizeNearest, List.mem_map, List.mem_range] at hr
  obtain ⟨i, _, rfl⟩ := hr
  simp only [List.mem_map, List.mem_range] at hv
  obtain ⟨j, _, rfl⟩ := hv
  have hrow := listGetD_mem src (nearIdx src.length H i) [] (nearIdx_lt H i hh)
  refine ⟨_, hrow, ?_⟩
  apply listGetD_mem
  rw [hrect _ hrow]
  exact nearIdx_lt W j hw

/-! ### the wrapper with linear sub-models is the label-wise linear model -/

theorem wrap_linear_eq_het (L : Nat) (s o : List Rat) (p : Pixel) (hs : p.label < s.length) (ho : p.label < o.length) :
    wrapApplyPix (List.zipWith M.linear s o) p = (M.het L s o).applyPix p := by
  have : (List.zipWith M.linear s o)[p.label]? = some (M.linear (listGetD s p.label 0) (listGetD o p.label 0)) := by
    simp [List.getElem?_zipWith, listGetD, List.getElem?_eq_getElem hs, List.getElem?_eq_getElem ho]
  simp [wrapApplyPix, this, M.applyPix]

end Darsia.Sig

namespace Darsia.Sig

/-! ### the cached label map never depends on the call history -/

theorem resizeNearest_id (src : List (List Nat)) (w : Nat) (hrect : ∀ row ∈ src, row.length = w) :
    resizeNearest src src.length w = src := by
  apply List.ext_getElem
  · simp [resizeNearest]
  · intro i h1 h2
    have hi : i < src.length := h2
    simp only [resizeNearest, List.getElem_map, List.getElem_range]
    have hrow : listGetD src (nearIdx src.length src.length i) [] = src[i] := by
      rw [nearIdx_id hi]; simp [listGetD, List.getElem?_eq_getElem hi]
    rw [hrow]
    have hlen : (src[i]).length = w := hrect _ (List.getElem_mem hi)
    apply List.ext_getElem
    · simp [hlen]
    · intro j hj1 hj2
      have hj : j < (src[i]).length := hj2
      simp only [List.getElem_map, List.getElem_range]
      rw [hlen, ← hlen, nearIdx_id hj]
      simp [listGetD, List.getElem?_eq_getElem hj]

theorem shapeOf_resize (src : List (List Nat)) (H W : Nat) (hH : 0 < H) : shapeOf (resizeNearest src H W) = (H, W) := by
  have h1 := (resizeNearest_shape src H W).1
  have h2 := (resizeNearest_shape src H W).2
  unfold shapeOf
  rw [h1]
  congr 1
  apply h2
  apply listGetD_mem
  omega

/-- the cached map is the original or a resize of the original -/
def CacheInv (orig c : List (List Nat)) : Prop := c = orig ∨ ∃ H W, 0 < H ∧ c = resizeNearest orig H W

theorem labelsFor_inv (orig : List (List Nat)) (H W : Nat) (hH : 0 < H) : CacheInv orig (labelsFor orig H W) := by
  unfold labelsFor; split
  · exact Or.inl rfl
  · exact Or.inr ⟨H, W, hH, rfl⟩

theorem cacheStep_eq (orig c : List (List Nat)) (w H W : Nat) (hrect : ∀ row ∈ orig, row.length = w)
    (hw : (listGetD orig 0 []).length = w) (hc : CacheInv orig c) (hH : 0 < H) :
    cacheStep orig c H W = labelsFor orig H W := by
  have hsame : shapeOf orig = (H, W) → resizeNearest orig H W = orig := by
    intro hs
    simp only [shapeOf, Prod.mk.injEq] at hs
    rw [← hs.1, ← hs.2, hw]
    exact resizeNearest_id orig w hrect
  have hlab : labelsFor orig H W = resizeNearest orig H W := by
    unfold labelsFor; split
    · rename_i h
      exact (hsame (by simp [shapeOf, h.1, h.2])).symm
    · rfl
  unfold cacheStep
  split
  · rename_i hs
    rcases hc with rfl | ⟨H', W', hH', rfl⟩
    · rw [hlab, hsame hs]
    · rw [shapeOf_resize orig H' W' hH'] at hs
      simp only [Prod.mk.injEq] at hs
      rw [hlab, hs.1, hs.2]
  · exact hlab.symm

theorem cacheRun_last (orig : List (List Nat)) (w : Nat) (hrect : ∀ row ∈ orig, row.length = w)
    (hw : (listGetD orig 0 []).length = w) (shapes : List (Nat × Nat)) (H W : Nat)
    (hpos : ∀ s ∈ shapes, 0 < s.1) (hH : 0 < H) :
    cacheRun orig (shapes ++ [(H, W)]) = labelsFor orig H W := by
  unfold cacheRun
  rw [List.foldl_append]
  have hinv : ∀ (l : List (Nat × Nat)) (c : List (List Nat)), CacheInv orig c → (∀ s ∈ l, 0 < s.1) →
      CacheInv orig (l.foldl (fun c hw => cacheStep orig c hw.1 hw.2) c) := by
    intro l
    induction l with
    | nil => intro c hc _; exact hc
    | cons s l ih =>
      intro c hc hp
      simp only [List.foldl_cons]
      apply ih
      · rw [cacheStep_eq orig c w s.1 s.2 hrect hw hc (hp s (by simp))]
        exact labelsFor_inv orig s.1 s.2 (hp s (by simp))
      · intro s' hs'; exact hp s' (by simp [hs'])
  simp only [List.foldl_cons, List.foldl_nil]
  exact cacheStep_eq orig _ w H W hrect hw (hinv shapes orig (Or.inl rfl) hpos) hH

end Darsia.Sig
