/-
Lemmas for C11: sums under area resampling, refinement, coarsening, reduction, extrusion, placement.
-/
import DarsiaModel.Conserve
import DarsiaProofs.Resample
namespace Darsia

/-! ### 2-D conservative resize -/

theorem conservativeResize2_sum (n1 n2 m1 m2 : Nat) (hn1 : 0 < n1) (hn2 : 0 < n2) (hm1 : 0 < m1) (hm2 : 0 < m2)
    (f : Nat → Nat → Rat) :
    sumRange m1 (fun j1 => sumRange m2 fun j2 => conservativeResize2 n1 n2 m1 m2 f j1 j2)
      = sumRange n1 (fun i1 => sumRange n2 fun i2 => f i1 i2) := by
  have q1 : (n1 : Rat) ≠ 0 := by positivity
  have q2 : (n2 : Rat) ≠ 0 := by positivity
  have q3 : (m1 : Rat) ≠ 0 := by positivity
  have q4 : (m2 : Rat) ≠ 0 := by positivity
  have step1 : ∀ j2, sumRange m1 (fun j1 => conservativeResize2 n1 n2 m1 m2 f j1 j2)
      = sumRange n1 (fun i1 => areaResample1 n2 m2 (fun i2 => f i1 i2) j2 * ((n2 : Rat) / m2)) := by
    intro j2
    rw [sumRange_mul_right,
      ← areaResample1_sum n1 m1 hn1 hm1 (fun i1 => areaResample1 n2 m2 (fun i2 => f i1 i2) j2),
      ← sumRange_mul_right]
    apply sumRange_congr
    intro j1 _
    simp only [conservativeResize2, areaResize2]
    push_cast
    field_simp
  rw [sumRange_comm]
  simp only [step1]
  rw [sumRange_comm]
  apply sumRange_congr
  intro i1 _
  exact areaResample1_sum n2 m2 hn2 hm2 (fun i2 => f i1 i2)

/-! ### refinement -/

theorem twos_length (s : List Nat) : (twos s).length = s.length := by
  induction s with
  | nil => rfl
  | cons n ns ih => simp [twos, ih]

theorem twos_pos (s : List Nat) : allPos (twos s) = true := by
  induction s with
  | nil => rfl
  | cons n ns ih => simp [twos, allPos, ih]

theorem refine_sum (shape : List Nat) (f : List Nat → Rat) :
    sumBox (refinedShape shape) (refineAll shape f) = (prodL (twos shape) : Rat) * sumBox shape f :=
  sumBox_div shape (twos shape) (twos_length shape).symm (twos_pos shape) f

theorem voxelVol_mulShape (dims : List Rat) (shape ks : List Nat) (h1 : dims.length = shape.length)
    (h2 : shape.length = ks.length) (hs : allPos shape = true) (hk : allPos ks = true) :
    voxelVol dims (mulShape shape ks) * (prodL ks : Rat) = voxelVol dims shape := by
  induction dims generalizing shape ks with
  | nil =>
    cases shape with
    | nil => cases ks with
      | nil => simp [voxelVol, mulShape, prodL]
      | cons k ks => simp at h2
    | cons n ns => simp at h1
  | cons d ds ih =>
    cases shape with
    | nil => simp at h1
    | cons n ns =>
      cases ks with
      | nil => simp at h2
      | cons k ks =>
        simp only [allPos, Bool.and_eq_true, decide_eq_true_eq] at hs hk
        have hnq : (n : Rat) ≠ 0 := by have := hs.1; positivity
        have hkq : (k : Rat) ≠ 0 := by have := hk.1; positivity
        have := ih ns ks (by simpa using h1) (by simpa using h2) hs.2 hk.2
        simp only [voxelVol, mulShape, prodL]
        rw [← this]; push_cast; field_simp

/-! ### coarsening -/

theorem coarsen1_sum_even (m : Nat) (g : Nat → Rat) :
    sumRange (halfUp (m * 2)) (coarsen1 (m * 2) g) * 2 = sumRange (m * 2) g := by
  have h1 : halfUp (m * 2) = m := by unfold halfUp; omega
  rw [h1, sumRange_block m 2 g, ← sumRange_mul_right]
  apply sumRange_congr
  intro j hj
  have : j < m * 2 / 2 := by omega
  simp only [coarsen1, this, if_true, sumRange]
  have e1 : 2 * j = j * 2 + 0 := by omega
  have e2 : 2 * j + 1 = j * 2 + 1 := by omega
  rw [e1, show j * 2 + 0 + 1 = j * 2 + 1 from by omega]; ring

theorem sumBox_div_const (s : List Nat) (f : List Nat → Rat) (c : Rat) :
    sumBox s (fun i => f i / c) = sumBox s f / c := by
  have : (fun i => f i / c) = fun i => (1 / c) * f i := by funext i; ring
  rw [this, sumBox_mul_left]; ring

theorem allEven_cons {n : Nat} {ns : List Nat} : allEven (n :: ns) = true ↔ n % 2 = 0 ∧ allEven ns = true := by
  simp [allEven]

theorem coarsen_sum (shape : List Nat) (he : allEven shape = true) (f : List Nat → Rat) :
    sumBox (coarsenedShape shape) (coarsenAll shape f) * (prodL (twos shape) : Rat) = sumBox shape f := by
  induction shape generalizing f with
  | nil => simp [coarsenedShape, coarsenAll, sumBox, twos, prodL]
  | cons n ns ih =>
    rw [allEven_cons] at he
    obtain ⟨m, rfl⟩ : ∃ m, n = m * 2 := ⟨n / 2, by omega⟩
    simp only [coarsenedShape, sumBox, twos, prodL]
    -- inner: for fixed j the sum over js of coarsen1 .. = coarsen1 of the inner sums
    have inner : ∀ j, sumBox (coarsenedShape ns) (fun js => coarsenAll (m * 2 :: ns) f (j :: js))
        = coarsen1 (m * 2) (fun i => sumBox (coarsenedShape ns) (coarsenAll ns fun is => f (i :: is))) j := by
      intro j
      simp only [coarsenAll, coarsen1]
      split
      · rw [sumBox_add, sumBox_div_const, sumBox_div_const]
      · simp only [add_zero]
        rw [sumBox_div_const]
    simp only [inner]
    have key := coarsen1_sum_even m (fun i => sumBox (coarsenedShape ns) (coarsenAll ns fun is => f (i :: is)))
    have : sumRange (m * 2) (fun i => sumBox ns fun is => f (i :: is))
        = sumRange (m * 2) (fun i => sumBox (coarsenedShape ns) (coarsenAll ns fun is => f (i :: is))) * (prodL (twos ns) : Rat) := by
      rw [← sumRange_mul_right]
      apply sumRange_congr; intro i _
      exact (ih he.2 (fun is => f (i :: is))).symm
    rw [this, ← key]; push_cast; ring

theorem voxelVol_coarsen (dims : List Rat) (shape : List Nat) (h1 : dims.length = shape.length)
    (hs : allPos shape = true) (he : allEven shape = true) :
    voxelVol dims (coarsenedShape shape) = voxelVol dims shape * (prodL (twos shape) : Rat) := by
  induction dims generalizing shape with
  | nil =>
    cases shape with
    | nil => simp [voxelVol, coarsenedShape, twos, prodL]
    | cons n ns => simp at h1
  | cons d ds ih =>
    cases shape with
    | nil => simp at h1
    | cons n ns =>
      rw [allEven_cons] at he
      simp only [allPos, Bool.and_eq_true, decide_eq_true_eq] at hs
      obtain ⟨m, rfl⟩ : ∃ m, n = m * 2 := ⟨n / 2, by omega⟩
      have hm : 0 < m := by omega
      have hmq : (m : Rat) ≠ 0 := by positivity
      have hh : halfUp (m * 2) = m := by unfold halfUp; omega
      simp only [voxelVol, coarsenedShape, twos, prodL, hh]
      rw [ih ns (by simpa using h1) hs.2 he.2]; push_cast; field_simp

/-- refining then coarsening gives the original array back -/
theorem coarsen_refine (shape : List Nat) (f : List Nat → Rat) (idx : List Nat) (h : inBox shape idx = true) :
    coarsenAll (refinedShape shape) (refineAll shape f) idx = f idx := by
  induction shape generalizing f idx with
  | nil =>
    cases idx with
    | nil => simp [refinedShape, mulShape, twos, coarsenAll, refineAll, divIdx]
    | cons j js => simp [inBox] at h
  | cons n ns ih =>
    cases idx with
    | nil => simp [inBox] at h
    | cons j js =>
      simp only [inBox, Bool.and_eq_true, decide_eq_true_eq] at h
      have hin : ∀ i, coarsenAll (refinedShape ns) (fun is => refineAll (n :: ns) f (i :: is)) js = f ((i / 2) :: js) := by
        intro i
        exact ih (fun t => f ((i / 2) :: t)) js h.2
      simp only [refinedShape, twos, mulShape, coarsenAll] at hin ⊢
      simp only [hin, coarsen1]
      have c : j < n * 2 / 2 := by omega
      have e1 : 2 * j / 2 = j := by omega
      have e2 : (2 * j + 1) / 2 = j := by omega
      simp only [c, if_true, e1, e2]; ring

theorem coarsened_refined_shape (shape : List Nat) : coarsenedShape (refinedShape shape) = shape := by
  induction shape with
  | nil => rfl
  | cons n ns ih =>
    simp only [refinedShape, twos, mulShape, coarsenedShape] at ih ⊢
    rw [ih]
    have : halfUp (n * 2) = n := by unfold halfUp; omega
    rw [this]

/-! ### reduction along an axis (Fubini for boxes) -/

theorem sumRange_sumBox_comm' (n : Nat) (t : List Nat) (G : Nat → List Nat → Rat) :
    sumRange n (fun i => sumBox t (G i)) = sumBox t (fun b => sumRange n fun i => G i b) := by
  induction t generalizing G with
  | nil => simp [sumBox]
  | cons m t ih =>
    simp only [sumBox]
    rw [sumRange_comm]
    apply sumRange_congr; intro j _
    exact ih (fun i bs => G i (j :: bs))

theorem sumBox_eraseAt (a : Nat) (shape : List Nat) (ha : a < shape.length) (f : List Nat → Rat) :
    sumBox shape f = sumBox (eraseAt a shape) (fun idx => sumRange (listGetD shape a 0) fun i => f (insertAt a i idx)) := by
  induction a generalizing shape f with
  | zero =>
    cases shape with
    | nil => simp at ha
    | cons n ns =>
      simp only [eraseAt, listGetD, insertAt, sumBox, List.getElem?_cons_zero, Option.getD_some]
      exact sumRange_sumBox_comm' n ns (fun i is => f (i :: is))
  | succ a ih =>
    cases shape with
    | nil => simp at ha
    | cons n ns =>
      have ha' : a < ns.length := by simpa using ha
      simp only [eraseAt, sumBox]
      apply sumRange_congr; intro j _
      have := ih ns ha' (fun is => f (j :: is))
      rw [this]
      apply sumBox_congr; intro idx _
      rfl

theorem voxelVol_eraseAt (a : Nat) (dims : List Rat) (shape : List Nat) (h1 : dims.length = shape.length)
    (ha : a < shape.length) :
    voxelVol dims shape = voxelVol (eraseAt a dims) (eraseAt a shape) * (listGetD dims a 0 / ((listGetD shape a 0 : Nat) : Rat)) := by
  induction a generalizing dims shape with
  | zero =>
    cases dims with
    | nil => exfalso; have : shape.length = 0 := by simpa using h1.symm
             omega
    | cons d ds =>
      cases shape with
      | nil => simp at ha
      | cons n ns => simp [voxelVol, eraseAt, listGetD]; ring
  | succ a ih =>
    cases dims with
    | nil => exfalso; have : shape.length = 0 := by simpa using h1.symm
             omega
    | cons d ds =>
      cases shape with
      | nil => simp at ha
      | cons n ns =>
        have := ih ds ns (by simpa using h1) (by simpa using ha)
        simp only [voxelVol, eraseAt, listGetD, List.getElem?_cons_succ] at this ⊢
        rw [this]; ring

/-! ### extrusion -/

theorem extrude_sum (num : Nat) (shape : List Nat) (f : List Nat → Rat) :
    sumBox (num :: shape) (extrude f) = (num : Rat) * sumBox shape f := by
  simp only [sumBox, extrude]
  exact sumRange_const num _

/-! ### placement on a canvas -/

theorem sumRange_shift (N o n : Nat) (h : o + n ≤ N) (g : Nat → Rat) :
    sumRange N (fun i => if o ≤ i ∧ i - o < n then g (i - o) else 0) = sumRange n g := by
  obtain ⟨r, rfl⟩ : ∃ r, N = o + (n + r) := ⟨N - o - n, by omega⟩
  rw [sumRange_append, sumRange_append]
  have z1 : sumRange o (fun i => if o ≤ i ∧ i - o < n then g (i - o) else 0) = 0 := by
    refine (sumRange_congr (g := fun _ => 0) ?_).trans (sumRange_zero o)
    intro i hi
    have : ¬ (o ≤ i ∧ i - o < n) := by omega
    rw [if_neg this]
  have z2 : sumRange r (fun s => if o ≤ o + (n + s) ∧ o + (n + s) - o < n then g (o + (n + s) - o) else 0) = 0 := by
    refine (sumRange_congr (g := fun _ => 0) ?_).trans (sumRange_zero r)
    intro s _
    have : ¬ (o ≤ o + (n + s) ∧ o + (n + s) - o < n) := by omega
    rw [if_neg this]
  have m : sumRange n (fun t => if o ≤ o + t ∧ o + t - o < n then g (o + t - o) else 0) = sumRange n g := by
    apply sumRange_congr; intro t ht
    have c : o ≤ o + t ∧ o + t - o < n := by omega
    have e : o + t - o = t := by omega
    rw [if_pos c, e]
  rw [z1, z2, m]; ring

/-- offsets and shapes fit into the canvas, axis by axis -/
def fits : List Nat → List Nat → List Nat → Bool
  | [], [], [] => true
  | o :: os, n :: ns, c :: cs => decide (o + n ≤ c) && fits os ns cs
  | _, _, _ => false

theorem shiftAt_sum (canvas offset shape : List Nat) (hf : fits offset shape canvas = true) (f : List Nat → Rat) :
    sumBox canvas (shiftAt offset shape f) = sumBox shape f := by
  induction canvas generalizing offset shape f with
  | nil =>
    cases offset <;> cases shape <;> simp_all [fits, sumBox, shiftAt]
  | cons c cs ih =>
    cases offset with
    | nil => cases shape <;> simp [fits] at hf
    | cons o os =>
      cases shape with
      | nil => simp [fits] at hf
      | cons n ns =>
        simp only [fits, Bool.and_eq_true, decide_eq_true_eq] at hf
        simp only [sumBox, shiftAt]
        have : ∀ i, sumBox cs (fun is => if o ≤ i ∧ i - o < n then shiftAt os ns (fun js => f ((i - o) :: js)) is else 0)
            = if o ≤ i ∧ i - o < n then (fun t => sumBox ns fun js => f (t :: js)) (i - o) else 0 := by
          intro i
          split
          · exact ih os ns hf.2 (fun js => f ((i - o) :: js))
          · rw [sumBox_const]; ring
        simp only [this]
        exact sumRange_shift c o n hf.1 (fun t => sumBox ns fun js => f (t :: js))

def zerosLike : List Nat → List Nat
  | [] => []
  | _ :: ns => 0 :: zerosLike ns

theorem shiftAt_zero (shape : List Nat) (f : List Nat → Rat) (idx : List Nat) (h : inBox shape idx = true) :
    shiftAt (zerosLike shape) shape f idx = f idx := by
  induction shape generalizing f idx with
  | nil =>
    cases idx with
    | nil => rfl
    | cons j js => simp [inBox] at h
  | cons n ns ih =>
    cases idx with
    | nil => simp [inBox] at h
    | cons j js =>
      simp only [inBox, Bool.and_eq_true, decide_eq_true_eq] at h
      simp only [zerosLike, shiftAt, Nat.zero_le, Nat.sub_zero, h.1, and_self, if_true]
      exact ih (fun t => f (j :: t)) js h.2

/-! ### coarsening as coded -/

theorem halfUp_even (m : Nat) : halfUp (2 * m) = m := by unfold halfUp; omega

theorem coarsenCoded1_even (orig m : Nat) (hm : m ≤ orig / 2) (g : Nat → Rat) :
    coarsenCoded1 orig (2 * m) g = .ok (coarsen1 (2 * m) g) := by
  have h1 : min (orig / 2) (halfUp (2 * m)) = m := by rw [halfUp_even]; omega
  have h2 : 2 * m / 2 = m := by omega
  simp only [coarsenCoded1, h1, h2, if_true]
  congr 1
  funext j
  simp only [coarsen1, h2]

/-- extents divisible by `2^levels`: the code performs exactly the ideal pairwise averaging, at every level -/
theorem coarsenCodedLevels_pow2 (orig : Nat) : ∀ (l cur : Nat) (g : Nat → Rat), 2 ^ l ∣ cur → cur ≤ orig →
    coarsenCodedLevels orig l cur g = .ok (coarsenIdeal l cur g) := by
  intro l
  induction l with
  | zero => intro cur g _ _; rfl
  | succ l ih =>
    intro cur g hd hc
    obtain ⟨q, hq⟩ := hd
    have hcur : cur = 2 * (2 ^ l * q) := by rw [hq, pow_succ]; ring
    have hm : 2 ^ l * q ≤ orig / 2 := by omega
    simp only [coarsenCodedLevels, coarsenIdeal]
    rw [hcur, coarsenCoded1_even orig _ hm g, halfUp_even]
    exact ih (2 ^ l * q) _ ⟨q, rfl⟩ (by omega)

theorem coarsen1_sum_even' (m : Nat) (g : Nat → Rat) :
    sumRange m (coarsen1 (2 * m) g) * 2 = sumRange (2 * m) g := by
  have := coarsen1_sum_even m g
  rw [show m * 2 = 2 * m from by ring, halfUp_even] at this
  exact this

theorem coarsenIdeal_sum : ∀ (l cur : Nat) (g : Nat → Rat), 2 ^ l ∣ cur →
    (coarsenIdeal l cur g).1 * 2 ^ l = cur ∧
      sumRange (coarsenIdeal l cur g).1 (coarsenIdeal l cur g).2 * (2 ^ l : Rat) = sumRange cur g := by
  intro l
  induction l with
  | zero => intro cur g _; simp [coarsenIdeal]
  | succ l ih =>
    intro cur g hd
    obtain ⟨q, hq⟩ := hd
    have hcur : cur = 2 * (2 ^ l * q) := by rw [hq, pow_succ]; ring
    simp only [coarsenIdeal]
    rw [hcur, halfUp_even]
    obtain ⟨i1, i2⟩ := ih (2 ^ l * q) (coarsen1 (2 * (2 ^ l * q)) g) ⟨q, rfl⟩
    constructor
    · rw [pow_succ]; calc _ = ((coarsenIdeal l (2 ^ l * q) (coarsen1 (2 * (2 ^ l * q)) g)).1 * 2 ^ l) * 2 := by ring
        _ = 2 * (2 ^ l * q) := by rw [i1]; ring
    · rw [← coarsen1_sum_even' (2 ^ l * q) g, ← i2, pow_succ]; ring

/-- first level, odd extent `2m+1`, constant data 1: the coarsened array sums to `m + 1/2` -/
theorem coarsen_odd_const_sum (m : Nat) :
    sumRange (m + 1) (fun j => (1 : Rat) / 2 + (if j < m then (1 : Rat) / 2 else 0)) = (m : Rat) + 1 / 2 := by
  simp only [sumRange, Nat.lt_irrefl, if_false, add_zero]
  have : sumRange m (fun j => (1 : Rat) / 2 + (if j < m then (1 : Rat) / 2 else 0)) = sumRange m (fun _ => (1 : Rat)) := by
    apply sumRange_congr; intro j hj; simp [hj]; norm_num
  rw [this, sumRange_const]; ring

/-! ### Resize metadata, equalize_voxel_size -/

theorem floor_nat_add_half (k : Nat) : Rat.floor ((k : Rat) + 1 / 2) = (k : Int) := by
  have h1 : (k : Int) ≤ Rat.floor ((k : Rat) + 1 / 2) := by
    rw [Rat.le_floor_iff]; push_cast; linarith
  have h2 : Rat.floor ((k : Rat) + 1 / 2) < (k : Int) + 1 := by
    rw [Rat.floor_lt_iff]; push_cast; linarith
  omega

/-- an extent that is an integer multiple `k` of the requested voxel size gets exactly `k` voxels -/
theorem equalizeCount_of_multiple (vs : Rat) (hv : 0 < vs) (k : Nat) : equalizeCount vs ((k : Rat) * vs) = k := by
  have : (k : Rat) * vs / vs = k := by field_simp
  simp only [equalizeCount, this, floor_nat_add_half]
  rfl

/-- in general the number of voxels is the integer nearest to `d / voxel_size` -/
theorem equalizeCount_nearest (vs d : Rat) (hq : 0 ≤ d / vs) :
    ((equalizeCount vs d : Nat) : Rat) ≤ d / vs + 1 / 2 ∧ d / vs - 1 / 2 < ((equalizeCount vs d : Nat) : Rat) := by
  have hf : 0 ≤ Rat.floor (d / vs + 1 / 2) := by
    rw [Rat.le_floor_iff]; push_cast; linarith
  have hc : ((equalizeCount vs d : Nat) : Rat) = ((Rat.floor (d / vs + 1 / 2) : Int) : Rat) := by
    simp only [equalizeCount]
    have : ((Rat.floor (d / vs + 1 / 2)).toNat : Int) = Rat.floor (d / vs + 1 / 2) := Int.toNat_of_nonneg hf
    exact_mod_cast congrArg (fun z : Int => (z : Rat)) this
  rw [hc]
  constructor
  · exact Rat.floor_le _
  · have : Rat.floor (d / vs + 1 / 2) < Rat.floor (d / vs + 1 / 2) + 1 := by omega
    have h := (Rat.floor_lt_iff (a := d / vs + 1 / 2) (x := Rat.floor (d / vs + 1 / 2) + 1)).mp this
    push_cast at h; linarith

/-! ### coarsening after the fix: every level uses its current extent -/

theorem coarsenCoded1_self (cur : Nat) (g : Nat → Rat) : coarsenCoded1 cur cur g = .ok (coarsen1 cur g) := by
  have h : min (cur / 2) (halfUp cur) = cur / 2 := by unfold halfUp; omega
  simp only [coarsenCoded1, h, if_true]
  rfl

theorem coarsenLevels_eq_ideal : ∀ (l cur : Nat) (g : Nat → Rat), coarsenLevels l cur g = .ok (coarsenIdeal l cur g) := by
  intro l
  induction l with
  | zero => intro cur g; rfl
  | succ l ih => intro cur g; simp only [coarsenLevels, coarsenIdeal, coarsenCoded1_self]; exact ih _ _

/-! ### canvas of a superposition -/

theorem minOf_le : ∀ (xs : List Int) (x : Int), x ∈ xs → minOf xs ≤ x := by
  intro xs
  induction xs with
  | nil => intro x h; simp at h
  | cons a as ih =>
    intro x h
    cases as with
    | nil => simp at h; subst h; simp [minOf]
    | cons b bs =>
      simp only [minOf]
      rcases List.mem_cons.mp h with e | e
      · subst e; exact Int.min_le_left _ _
      · exact Int.le_trans (Int.min_le_right _ _) (ih x e)

theorem le_maxOf : ∀ (xs : List Int) (x : Int), x ∈ xs → x ≤ maxOf xs := by
  intro xs
  induction xs with
  | nil => intro x h; simp at h
  | cons a as ih =>
    intro x h
    cases as with
    | nil => simp at h; subst h; simp [maxOf]
    | cons b bs =>
      simp only [maxOf]
      rcases List.mem_cons.mp h with e | e
      · subst e; exact Int.le_max_left _ _
      · exact Int.le_trans (ih x e) (Int.le_max_right _ _)

/-- every image lies inside the canvas computed from the extremal corners -/
theorem canvas_fits (imgs : List PlacedZ) (p : PlacedZ) (hp : p ∈ imgs) :
    fits (onCanvas (canvasOf imgs) p).offset (onCanvas (canvasOf imgs) p).shape (canvasOf imgs).shape = true := by
  have t1 := minOf_le (imgs.map (·.top)) p.top (List.mem_map_of_mem hp)
  have l1 := minOf_le (imgs.map (·.left)) p.left (List.mem_map_of_mem hp)
  have b1 := le_maxOf (imgs.map fun q => q.top + q.rows) (p.top + p.rows) (List.mem_map.mpr ⟨p, hp, rfl⟩)
  have r1 := le_maxOf (imgs.map fun q => q.left + q.cols) (p.left + p.cols) (List.mem_map.mpr ⟨p, hp, rfl⟩)
  simp only [onCanvas, canvasOf, fits, Bool.and_eq_true, decide_eq_true_eq, and_true]
  constructor <;> omega

end Darsia
