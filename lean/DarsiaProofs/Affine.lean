/-
Helper lemmas for C09: ring identities of the 2×2 / 3×3 matrix model over a commutative ring.
-/
import DarsiaModel.Affine
import Mathlib.Tactic.Ring
import Mathlib.Tactic.LinearCombination
import Mathlib.Tactic.FieldSimp
import Mathlib.Algebra.Field.Basic

namespace Darsia.Affine

attribute [ext] V2 V3 M2 M3

section ring
variable {α : Type} [CommRing α]

theorem M3.mul_assoc (A B C : M3 α) : M3.mul (M3.mul A B) C = M3.mul A (M3.mul B C) := by
  ext <;> simp only [M3.mul] <;> ring

theorem M3.one_mul (A : M3 α) : M3.mul M3.one A = A := by
  ext <;> simp [M3.mul, M3.one]

theorem M3.mul_one (A : M3 α) : M3.mul A M3.one = A := by
  ext <;> simp [M3.mul, M3.one]

theorem M3.transpose_mul (A B : M3 α) :
    (M3.mul A B).transpose = M3.mul B.transpose A.transpose := by
  ext <;> simp only [M3.mul, M3.transpose] <;> ring

theorem M3.transpose_one : (M3.one : M3 α).transpose = M3.one := by
  ext <;> simp [M3.transpose, M3.one]

theorem M3.det_mul (A B : M3 α) : (M3.mul A B).det = A.det * B.det := by
  simp only [M3.mul, M3.det]; ring

theorem M3.det_one : (M3.one : M3 α).det = 1 := by
  simp [M3.det, M3.one]

theorem M3.mulVec_mul (A B : M3 α) (v : V3 α) : (M3.mul A B).mulVec v = A.mulVec (B.mulVec v) := by
  ext <;> simp only [M3.mul, M3.mulVec] <;> ring

theorem M3.one_mulVec (v : V3 α) : (M3.one : M3 α).mulVec v = v := by
  ext <;> simp [M3.mulVec, M3.one]

theorem M2.mulVec_mul (A B : M2 α) (v : V2 α) : (M2.mul A B).mulVec v = A.mulVec (B.mulVec v) := by
  ext <;> simp only [M2.mul, M2.mulVec] <;> ring

theorem M2.one_mulVec (v : V2 α) : (M2.one : M2 α).mulVec v = v := by
  ext <;> simp [M2.mulVec, M2.one]

/-- an elementary rotation times the one with the opposite sine is the identity -/
theorem elem_mul_neg (k : Ax3) (c s : α) (h : c * c + s * s = 1) :
    M3.mul (elem k c s) (elem k c (-s)) = M3.one := by
  cases k <;> ext <;> simp [M3.mul, elem, M3.one] <;> first | ring1 | linear_combination h | linear_combination -h

theorem elem_neg_mul (k : Ax3) (c s : α) (h : c * c + s * s = 1) :
    M3.mul (elem k c (-s)) (elem k c s) = M3.one := by
  cases k <;> ext <;> simp [M3.mul, elem, M3.one] <;> first | ring1 | linear_combination h | linear_combination -h

theorem elem_transpose (k : Ax3) (c s : α) : (elem k c s).transpose = elem k c (-s) := by
  cases k <;> ext <;> simp [M3.transpose, elem]

theorem elem_det (k : Ax3) (c s : α) (h : c * c + s * s = 1) : (elem k c s).det = 1 := by
  cases k <;> simp [M3.det, elem] <;> first | ring1 | linear_combination h | linear_combination -h

theorem Factor.sf_sq (f : Factor α) : f.sf * f.sf = f.s * f.s := by
  unfold Factor.sf; split <;> ring

/-- recursive description of what the loop accumulates -/
def rotRec : List (Factor α) → M3 α
  | [] => M3.one
  | f :: fs => M3.mul f.fwd (rotRec fs)

def rotInvRec : List (Factor α) → M3 α
  | [] => M3.one
  | f :: fs => M3.mul (rotInvRec fs) f.inv

theorem rotationLoop_from (fs : List (Factor α)) (A B : M3 α) :
    fs.foldl (fun (p : M3 α × M3 α) f => (M3.mul p.1 f.fwd, M3.mul f.inv p.2)) (A, B)
      = (M3.mul A (rotRec fs), M3.mul (rotInvRec fs) B) := by
  induction fs generalizing A B with
  | nil => simp [rotRec, rotInvRec, M3.mul_one, M3.one_mul]
  | cons f fs ih =>
    simp only [List.foldl_cons, ih, rotRec, rotInvRec, M3.mul_assoc]

theorem rotation_eq_rec (fs : List (Factor α)) : rotation fs = rotRec fs := by
  simp [rotation, rotationLoop, rotationLoop_from, M3.one_mul]

theorem rotationInv_eq_rec (fs : List (Factor α)) : rotationInv fs = rotInvRec fs := by
  simp [rotationInv, rotationLoop, rotationLoop_from, M3.mul_one]

/-- every factor is a genuine angle -/
def UnitAngles (fs : List (Factor α)) : Prop := ∀ f ∈ fs, f.c * f.c + f.s * f.s = 1

theorem Factor.fwd_mul_inv (f : Factor α) (h : f.c * f.c + f.s * f.s = 1) :
    M3.mul f.fwd f.inv = M3.one :=
  elem_mul_neg _ _ _ (by rw [Factor.sf_sq]; exact h)

theorem Factor.inv_mul_fwd (f : Factor α) (h : f.c * f.c + f.s * f.s = 1) :
    M3.mul f.inv f.fwd = M3.one :=
  elem_neg_mul _ _ _ (by rw [Factor.sf_sq]; exact h)

theorem rotRec_mul_inv (fs : List (Factor α)) (h : UnitAngles fs) :
    M3.mul (rotRec fs) (rotInvRec fs) = M3.one := by
  induction fs with
  | nil => simp [rotRec, rotInvRec, M3.one_mul]
  | cons f fs ih =>
    have hf := h f (by simp)
    have hfs : UnitAngles fs := fun g hg => h g (by simp [hg])
    calc M3.mul (M3.mul f.fwd (rotRec fs)) (M3.mul (rotInvRec fs) f.inv)
        = M3.mul f.fwd (M3.mul (M3.mul (rotRec fs) (rotInvRec fs)) f.inv) := by
          simp only [M3.mul_assoc]
      _ = M3.one := by rw [ih hfs, M3.one_mul, Factor.fwd_mul_inv f hf]

theorem rotInvRec_mul (fs : List (Factor α)) (h : UnitAngles fs) :
    M3.mul (rotInvRec fs) (rotRec fs) = M3.one := by
  induction fs with
  | nil => simp [rotRec, rotInvRec, M3.one_mul]
  | cons f fs ih =>
    have hf := h f (by simp)
    have hfs : UnitAngles fs := fun g hg => h g (by simp [hg])
    calc M3.mul (M3.mul (rotInvRec fs) f.inv) (M3.mul f.fwd (rotRec fs))
        = M3.mul (rotInvRec fs) (M3.mul (M3.mul f.inv f.fwd) (rotRec fs)) := by
          simp only [M3.mul_assoc]
      _ = M3.one := by rw [Factor.inv_mul_fwd f hf, M3.one_mul, ih hfs]

theorem rotInvRec_eq_transpose (fs : List (Factor α)) : rotInvRec fs = (rotRec fs).transpose := by
  induction fs with
  | nil => simp [rotRec, rotInvRec, M3.transpose_one]
  | cons f fs ih =>
    simp only [rotRec, rotInvRec, M3.transpose_mul, ih, Factor.fwd, Factor.inv, elem_transpose]

theorem rotRec_det (fs : List (Factor α)) (h : UnitAngles fs) : (rotRec fs).det = 1 := by
  induction fs with
  | nil => simp [rotRec, M3.det_one]
  | cons f fs ih =>
    have hf := h f (by simp)
    have hfs : UnitAngles fs := fun g hg => h g (by simp [hg])
    rw [rotRec, M3.det_mul, ih hfs, Factor.fwd, elem_det _ _ _ (by rw [Factor.sf_sq]; exact hf), one_mul]

end ring

end Darsia.Affine

namespace Darsia.Affine
section more
variable {α : Type}

theorem M3.mulVec_smul [CommRing α] (A : M3 α) (k : α) (v : V3 α) :
    A.mulVec (V3.smul k v) = V3.smul k (A.mulVec v) := by
  ext <;> simp only [M3.mulVec, V3.smul] <;> ring

theorem M2.mulVec_smul [CommRing α] (A : M2 α) (k : α) (v : V2 α) :
    A.mulVec (V2.smul k v) = V2.smul k (A.mulVec v) := by
  ext <;> simp only [M2.mulVec, V2.smul] <;> ring

theorem M3.mulVec_sub [CommRing α] (A : M3 α) (u v : V3 α) :
    A.mulVec (V3.sub u v) = V3.sub (A.mulVec u) (A.mulVec v) := by
  ext <;> simp only [M3.mulVec, V3.sub] <;> ring

theorem M2.mulVec_sub [CommRing α] (A : M2 α) (u v : V2 α) :
    A.mulVec (V2.sub u v) = V2.sub (A.mulVec u) (A.mulVec v) := by
  ext <;> simp only [M2.mulVec, V2.sub] <;> ring

theorem M3.dot_mulVec [CommRing α] (A : M3 α) (u w : V3 α) :
    V3.dot (A.mulVec u) w = V3.dot u (A.transpose.mulVec w) := by
  simp only [M3.mulVec, V3.dot, M3.transpose]; ring

theorem M2.dot_mulVec [CommRing α] (A : M2 α) (u w : V2 α) :
    V2.dot (A.mulVec u) w = V2.dot u (A.transpose.mulVec w) := by
  simp only [M2.mulVec, V2.dot, M2.transpose]; ring

/-- a left inverse of the linear part gives inverse ∘ call = id -/
theorem inverse_call3 [Field α] (A B : M3 α) (hBA : M3.mul B A = M3.one) (t x : V3 α) (σ : α)
    (hσ : σ ≠ 0) :
    V3.smul (1 / σ) (B.mulVec (V3.sub (V3.add t (V3.smul σ (A.mulVec x))) t)) = x := by
  have key : B.mulVec (A.mulVec x) = x := by rw [← M3.mulVec_mul, hBA, M3.one_mulVec]
  have e : V3.sub (V3.add t (V3.smul σ (A.mulVec x))) t = V3.smul σ (A.mulVec x) := by
    ext <;> simp [V3.sub, V3.add]
  rw [e, M3.mulVec_smul, key]
  ext <;> simp [V3.smul, hσ]

/-- a right inverse of the linear part gives call ∘ inverse = id -/
theorem call_inverse3 [Field α] (A B : M3 α) (hAB : M3.mul A B = M3.one) (t y : V3 α) (σ : α)
    (hσ : σ ≠ 0) :
    V3.add t (V3.smul σ (A.mulVec (V3.smul (1 / σ) (B.mulVec (V3.sub y t))))) = y := by
  have key : A.mulVec (B.mulVec (V3.sub y t)) = V3.sub y t := by
    rw [← M3.mulVec_mul, hAB, M3.one_mulVec]
  rw [M3.mulVec_smul, key]
  ext <;> simp [V3.smul, V3.add, V3.sub, hσ]

theorem inverse_call2 [Field α] (A B : M2 α) (hBA : M2.mul B A = M2.one) (t x : V2 α) (σ : α)
    (hσ : σ ≠ 0) :
    V2.smul (1 / σ) (B.mulVec (V2.sub (V2.add t (V2.smul σ (A.mulVec x))) t)) = x := by
  have key : B.mulVec (A.mulVec x) = x := by rw [← M2.mulVec_mul, hBA, M2.one_mulVec]
  have e : V2.sub (V2.add t (V2.smul σ (A.mulVec x))) t = V2.smul σ (A.mulVec x) := by
    ext <;> simp [V2.sub, V2.add]
  rw [e, M2.mulVec_smul, key]
  ext <;> simp [V2.smul, hσ]

theorem call_inverse2 [Field α] (A B : M2 α) (hAB : M2.mul A B = M2.one) (t y : V2 α) (σ : α)
    (hσ : σ ≠ 0) :
    V2.add t (V2.smul σ (A.mulVec (V2.smul (1 / σ) (B.mulVec (V2.sub y t))))) = y := by
  have key : A.mulVec (B.mulVec (V2.sub y t)) = V2.sub y t := by
    rw [← M2.mulVec_mul, hAB, M2.one_mulVec]
  rw [M2.mulVec_smul, key]
  ext <;> simp [V2.smul, V2.add, V2.sub, hσ]

theorem rot2_mul_inv [CommRing α] (c s : α) (h : c * c + s * s = 1) :
    M2.mul (rot2 c s) (rot2Inv c s) = M2.one ∧ M2.mul (rot2Inv c s) (rot2 c s) = M2.one := by
  constructor <;> ext <;> simp [M2.mul, rot2, rot2Inv, M2.one] <;>
    first | ring1 | linear_combination h | linear_combination -h

end more
end Darsia.Affine
