/-
Helper lemmas for the C09 warp theorems: rounding of half-integers and integers.
-/
import DarsiaModel.Warp
import DarsiaProofs.Affine
import Mathlib.Data.Rat.Floor
import Mathlib.Algebra.Order.Floor.Ring
import Mathlib.Tactic.Ring
import Mathlib.Tactic.Linarith
import Mathlib.Tactic.NormNum
import Mathlib.Tactic.FieldSimp

namespace Darsia.Warp
open Darsia.Affine

theorem ratFloor_eq (q : Rat) : q.floor = ⌊q⌋ := rfl

theorem floor_int_add_half (n : Int) : ((n : Rat) + half).floor = n := by
  rw [ratFloor_eq, Int.floor_eq_iff]; unfold half; constructor <;> norm_num

theorem floor_int (n : Int) : ((n : Rat)).floor = n := by
  rw [ratFloor_eq]; exact Int.floor_intCast n

theorem trunc_int (n : Int) : truncRat (n : Rat) = n := by
  unfold truncRat
  split
  · exact floor_int n
  · have : (-(n : Rat)) = ((-n : Int) : Rat) := by push_cast; ring
    rw [this, floor_int]; ring

theorem trunc_nonneg_add_half (n : Int) (h : 0 ≤ n) : truncRat ((n : Rat) + half) = n := by
  unfold truncRat
  have : (0 : Rat) ≤ (n : Rat) + half := by
    have : (0 : Rat) ≤ (n : Rat) := by exact_mod_cast h
    unfold half; linarith
  rw [if_pos this]; exact floor_int_add_half n

theorem rnd_int (r : Rounding) (n : Int) : r.app (n : Rat) = n := by
  cases r
  · exact trunc_int n
  · exact floor_int n

theorem rnd_nonneg_add_half (r : Rounding) (n : Int) (h : 0 ≤ n) : r.app ((n : Rat) + half) = n := by
  cases r
  · exact trunc_nonneg_add_half n h
  · exact floor_int_add_half n

end Darsia.Warp
