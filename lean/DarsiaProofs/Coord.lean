/-
Theorems about the coordinate-system model, parametric in the axis map: they hold for every
axis map whose matrix positions are a permutation (`AxisMap.wf`), so a regenerated table only
re-runs the cheap `wf` obligation in `DarsiaProps.C01`.
-/
import DarsiaProofs.Floor
namespace Darsia

theorem len1 {α} {l : List α} (h : l.length = 1) : ∃ a, l = [a] := by
  match l, h with
  | [a], _ => exact ⟨a, rfl⟩
theorem len2 {α} {l : List α} (h : l.length = 2) : ∃ a b, l = [a, b] := by
  match l, h with
  | [a, b], _ => exact ⟨a, b, rfl⟩
theorem len3 {α} {l : List α} (h : l.length = 3) : ∃ a b c, l = [a, b, c] := by
  match l, h with
  | [a, b, c], _ => exact ⟨a, b, c, rfl⟩

theorem map_fst1 {am : AxisMap} {a : Nat} (h : am.map Prod.fst = [a]) : ∃ r0, am = [(a, r0)] := by
  match am, h with
  | [(p, r)], h => simp at h; subst h; exact ⟨r, rfl⟩
theorem map_fst2 {am : AxisMap} {a b : Nat} (h : am.map Prod.fst = [a, b]) :
    ∃ r0 r1, am = [(a, r0), (b, r1)] := by
  match am, h with
  | [(p, r), (p', r')], h => simp at h; obtain ⟨rfl, rfl⟩ := h; exact ⟨r, r', rfl⟩
theorem map_fst3 {am : AxisMap} {a b c : Nat} (h : am.map Prod.fst = [a, b, c]) :
    ∃ r0 r1 r2, am = [(a, r0), (b, r1), (c, r2)] := by
  match am, h with
  | [(p, r), (p', r'), (p'', r'')], h =>
    simp at h; obtain ⟨rfl, rfl, rfl⟩ := h; exact ⟨r, r', r'', rfl⟩

/-- the well-formed axis maps of each dimension, written out -/
theorem wf_d1 {am : AxisMap} (h : am.wf .d1 = true) : ∃ r0, am = [(0, r0)] := by
  simp only [AxisMap.wf, decide_eq_true_eq, permsOf, List.mem_cons, List.not_mem_nil, or_false] at h; exact map_fst1 h
theorem wf_d2 {am : AxisMap} (h : am.wf .d2 = true) :
    ∃ r0 r1, am = [(0, r0), (1, r1)] ∨ am = [(1, r0), (0, r1)] := by
  simp only [AxisMap.wf, decide_eq_true_eq, permsOf, List.mem_cons, List.not_mem_nil, or_false] at h
  rcases h with h | h
  · obtain ⟨r0, r1, e⟩ := map_fst2 h; exact ⟨r0, r1, .inl e⟩
  · obtain ⟨r0, r1, e⟩ := map_fst2 h; exact ⟨r0, r1, .inr e⟩
theorem wf_d3 {am : AxisMap} (h : am.wf .d3 = true) :
    ∃ r0 r1 r2, am = [(0, r0), (1, r1), (2, r2)] ∨ am = [(0, r0), (2, r1), (1, r2)] ∨
      am = [(1, r0), (0, r1), (2, r2)] ∨ am = [(1, r0), (2, r1), (0, r2)] ∨
      am = [(2, r0), (0, r1), (1, r2)] ∨ am = [(2, r0), (1, r1), (0, r2)] := by
  simp only [AxisMap.wf, decide_eq_true_eq, permsOf, List.mem_cons, List.not_mem_nil, or_false] at h
  rcases h with h | h | h | h | h | h <;> obtain ⟨r0, r1, r2, e⟩ := map_fst3 h <;>
    refine ⟨r0, r1, r2, ?_⟩ <;> simp [e]

end Darsia

namespace Darsia

/-- voxel size is positive under the guards -/
theorem CS.h_pos (cs : CS) (hcs : cs.ok) (p : Nat) (hp : p < cs.dim.toNat) : 0 < cs.h p := by
  unfold CS.h listGetD
  have hs : p < cs.shape.length := by rw [hcs.shapeLen]; exact hp
  have hd : p < cs.dims.length := by rw [hcs.dimsLen]; exact hp
  rw [List.getElem?_eq_getElem hs, List.getElem?_eq_getElem hd]
  simp only [Option.getD_some]
  have h1 := hcs.shapePos _ (List.getElem_mem hs)
  have h2 := hcs.dimsPos _ (List.getElem_mem hd)
  exact div_pos h2 (by exact_mod_cast h1)

/-- one axis: the voxel component computed from a coordinate component that came from `v + t` -/
theorem voxAx_of_coordAx (cs : CS) (x w : List Rat) (i : Nat) (pr : Nat × Bool) (v : Int) (t : Rat)
    (hx : listGetD x i 0 = coordAx cs w i pr) (hw : listGetD w pr.1 0 = (v : Rat) + t)
    (hh : 0 < cs.h pr.1) (h0 : 0 ≤ t) (h1 : t < 1) : voxAx cs x i pr = v := by
  unfold voxAx; rw [hx]; unfold coordAx; rw [hw]
  exact floor_roundtrip _ _ _ _ _ hh h0 h1

theorem listGetD_vadd (v : List Int) (t : List Rat) (p : Nat) (hp : p < v.length) (hl : v.length = t.length) :
    listGetD (vadd v t) p 0 = ((listGetD v p 0 : Int) : Rat) + listGetD t p 0 := by
  unfold listGetD vadd
  have hp' : p < t.length := hl ▸ hp
  simp [List.getElem?_zipWith, List.getElem?_eq_getElem hp, List.getElem?_eq_getElem hp']

theorem voxAx_vadd (cs : CS) (x : List Rat) (v : List Int) (t : List Rat) (i : Nat) (pr : Nat × Bool)
    (hx : listGetD x i 0 = coordAx cs (vadd v t) i pr) (hp : pr.1 < v.length) (hl : v.length = t.length)
    (hh : 0 < cs.h pr.1) (hin : ∀ x ∈ t, 0 ≤ x ∧ x < 1) : voxAx cs x i pr = listGetD v pr.1 0 := by
  have hp' : pr.1 < t.length := hl ▸ hp
  have hm : listGetD t pr.1 0 ∈ t := by
    unfold listGetD; rw [List.getElem?_eq_getElem hp']; exact List.getElem_mem hp'
  exact voxAx_of_coordAx cs x _ i pr _ _ hx (listGetD_vadd v t pr.1 hp hl) hh (hin _ hm).1 (hin _ hm).2

theorem voxel_of_inside_with (cs : CS) (hcs : cs.ok) (am : AxisMap) (hw : am.wf cs.dim = true)
    (v : List Int) (t : List Rat) (hv : v.length = cs.dim.toNat) (ht : t.length = cs.dim.toNat)
    (hin : ∀ x ∈ t, 0 ≤ x ∧ x < 1) :
    voxelWith am cs (coordWith am cs (vadd v t)) = v := by
  have hpos := CS.h_pos cs hcs
  obtain ⟨d, shape, dims, origin⟩ := cs
  cases d
  · obtain ⟨v0, rfl⟩ := len1 hv
    obtain ⟨t0, rfl⟩ := len1 ht
    obtain ⟨r0, rfl⟩ := wf_d1 hw
    simp [voxelWith, coordWith, List.zipIdx, setAt]
    exact voxAx_vadd _ _ [v0] [t0] _ _ rfl (by simp) rfl (hpos _ (by simp [Dim.toNat])) hin
  · obtain ⟨v0, v1, rfl⟩ := len2 hv
    obtain ⟨t0, t1, rfl⟩ := len2 ht
    obtain ⟨r0, r1, rfl | rfl⟩ := wf_d2 hw <;> simp [voxelWith, coordWith, List.zipIdx, setAt] <;>
      refine ⟨?_, ?_⟩ <;>
      exact voxAx_vadd _ _ [v0, v1] [t0, t1] _ _ rfl (by simp) rfl (hpos _ (by simp [Dim.toNat])) hin
  · obtain ⟨v0, v1, v2, rfl⟩ := len3 hv
    obtain ⟨t0, t1, t2, rfl⟩ := len3 ht
    obtain ⟨r0, r1, r2, rfl | rfl | rfl | rfl | rfl | rfl⟩ := wf_d3 hw <;>
      simp [voxelWith, coordWith, List.zipIdx, setAt] <;>
      refine ⟨?_, ?_, ?_⟩ <;>
      exact voxAx_vadd _ _ [v0, v1, v2] [t0, t1, t2] _ _ rfl (by simp) rfl (hpos _ (by simp [Dim.toNat])) hin

/-! ### list helpers -/

theorem listGetD_setAt_eq {α} (l : List α) (a : Nat) (x d : α) (ha : a < l.length) :
    listGetD (setAt l a x) a d = x := by
  induction l generalizing a with
  | nil => simp at ha
  | cons y ys ih =>
    cases a with
    | zero => simp [setAt, listGetD]
    | succ n =>
      have := ih n (by simpa using ha)
      simpa [setAt, listGetD] using this

theorem listGetD_setAt_ne {α} (l : List α) (a p : Nat) (x d : α) (hne : p ≠ a) :
    listGetD (setAt l a x) p d = listGetD l p d := by
  induction l generalizing a p with
  | nil => simp [setAt]
  | cons y ys ih =>
    cases a with
    | zero =>
      cases p with
      | zero => exact absurd rfl hne
      | succ m => simp [setAt, listGetD]
    | succ n =>
      cases p with
      | zero => simp [setAt, listGetD]
      | succ m =>
        have := ih n m (by omega)
        simpa [setAt, listGetD] using this

theorem zipWith_map_same {α β γ δ} (f : β → γ → δ) (g : α → β) (h : α → γ) (l : List α) :
    List.zipWith f (l.map g) (l.map h) = l.map fun a => f (g a) (h a) := by
  induction l with
  | nil => rfl
  | cons a l ih => simp [ih]

theorem map_zipIdx_fst {α β} (g : α → β) (l : List α) (k : Nat) :
    (l.zipIdx k).map (fun q => g q.1) = l.map g := by
  induction l generalizing k with
  | nil => rfl
  | cons a l ih => simp [List.zipIdx_cons, ih]

/-- positions of a well-formed axis map are matrix axes of the dimension, one per Cartesian axis -/
theorem wf_bound {am : AxisMap} {d : Dim} (h : am.wf d = true) :
    am.length = d.toNat ∧ ∀ pr ∈ am, pr.1 < d.toNat := by
  cases d
  · obtain ⟨r0, rfl⟩ := wf_d1 h; simp [Dim.toNat]
  · obtain ⟨r0, r1, rfl | rfl⟩ := wf_d2 h <;> simp [Dim.toNat]
  · obtain ⟨r0, r1, r2, rfl | rfl | rfl | rfl | rfl | rfl⟩ := wf_d3 h <;> simp [Dim.toNat]

/-! ### origin, opposite corner, unit steps -/

theorem listGetD_replicate_zero (n p : Nat) : listGetD (List.replicate n (0 : Rat)) p 0 = 0 := by
  unfold listGetD
  by_cases h : p < n <;> simp [List.getElem?_replicate, h]

theorem coordAx_zero (cs : CS) (n i : Nat) (pr : Nat × Bool) :
    coordAx cs (List.replicate n 0) i pr = listGetD cs.origin i 0 := by
  unfold coordAx; rw [listGetD_replicate_zero]; ring

/-- voxel index zero maps to the origin -/
theorem coord_zero_with (cs : CS) (hcs : cs.ok) (am : AxisMap) (hw : am.wf cs.dim = true) :
    coordWith am cs (List.replicate cs.dim.toNat 0) = cs.origin := by
  have ho := hcs.originLen
  obtain ⟨d, shape, dims, origin⟩ := cs
  cases d
  · obtain ⟨o0, rfl⟩ := len1 ho
    obtain ⟨r0, rfl⟩ := wf_d1 hw
    simp [coordWith, List.zipIdx, coordAx_zero, listGetD]
  · obtain ⟨o0, o1, rfl⟩ := len2 ho
    obtain ⟨r0, r1, rfl | rfl⟩ := wf_d2 hw <;> simp [coordWith, List.zipIdx, coordAx_zero, listGetD]
  · obtain ⟨o0, o1, o2, rfl⟩ := len3 ho
    obtain ⟨r0, r1, r2, rfl | rfl | rfl | rfl | rfl | rfl⟩ := wf_d3 hw <;>
      simp [coordWith, List.zipIdx, coordAx_zero, listGetD]

theorem coordAx_shape (cs : CS) (hcs : cs.ok) (i : Nat) (pr : Nat × Bool) (hp : pr.1 < cs.dim.toNat) :
    coordAx cs (ratsOfNats cs.shape) i pr - listGetD cs.origin i 0 = sgn pr.2 * listGetD cs.dims pr.1 0 := by
  unfold coordAx CS.h ratsOfNats listGetD
  have hs : pr.1 < cs.shape.length := by rw [hcs.shapeLen]; exact hp
  have hN := hcs.shapePos _ (List.getElem_mem hs)
  have hne : ((cs.shape[pr.1] : Nat) : Rat) ≠ 0 := by exact_mod_cast (Nat.pos_iff_ne_zero.mp hN)
  simp only [List.getElem?_map, List.getElem?_eq_getElem hs, Option.map_some, Option.getD_some]
  field_simp
  ring

/-- the opposite corner is displaced from the origin by exactly the physical dimensions: on
Cartesian axis `i` by the dimension of its matrix axis, negatively iff the axis is reversed -/
theorem coord_opposite_with (cs : CS) (hcs : cs.ok) (am : AxisMap) (hw : am.wf cs.dim = true) :
    List.zipWith (· - ·) (coordWith am cs (ratsOfNats cs.shape))
        ((am.zipIdx).map fun q => listGetD cs.origin q.2 0) =
      am.map fun pr => sgn pr.2 * listGetD cs.dims pr.1 0 := by
  unfold coordWith
  rw [zipWith_map_same]
  rw [← map_zipIdx_fst (fun pr => sgn pr.2 * listGetD cs.dims pr.1 0) am 0]
  apply List.map_congr_left
  intro q hq
  have hm : q.1 ∈ am := by
    have := List.mem_zipIdx_iff_getElem?.mp hq
    exact List.mem_of_getElem? this
  exact coordAx_shape cs hcs q.2 q.1 ((wf_bound hw).2 _ hm)

theorem coordAx_step (cs : CS) (v : List Rat) (a i : Nat) (pr : Nat × Bool) (ha : a < v.length) :
    coordAx cs (stepAt v a) i pr - coordAx cs v i pr = if pr.1 = a then sgn pr.2 * cs.h a else 0 := by
  unfold coordAx stepAt
  by_cases h : pr.1 = a
  · rw [h, listGetD_setAt_eq _ _ _ _ ha]; simp; ring
  · rw [listGetD_setAt_ne _ _ _ _ _ h]; simp [h]

/-- one voxel step along matrix axis `a` moves the coordinate by one voxel size along the
Cartesian axis mapped to `a` (sign by reversal) and along no other axis. Holds for every axis map. -/
theorem coord_step_with (cs : CS) (am : AxisMap) (v : List Rat) (a : Nat) (ha : a < v.length) :
    List.zipWith (· - ·) (coordWith am cs (stepAt v a)) (coordWith am cs v) =
      am.map fun pr => if pr.1 = a then sgn pr.2 * cs.h a else 0 := by
  unfold coordWith
  rw [zipWith_map_same]
  rw [← map_zipIdx_fst (fun pr => if pr.1 = a then sgn pr.2 * cs.h a else 0) am 0]
  apply List.map_congr_left
  intro q _
  exact coordAx_step cs v a q.2 q.1 ha

/-! ### typed points -/

theorem vadd_half (v : List Int) : vadd v (List.replicate v.length (1 / 2)) = centerOf v := by
  induction v with
  | nil => rfl
  | cons a v ih => simp [vadd, centerOf, List.replicate_succ] at ih ⊢; exact ih

theorem mkVoxel_centerOf (v : List Int) : mkVoxel (centerOf v) = v := by
  unfold mkVoxel centerOf
  rw [List.map_map]
  conv => rhs; rw [← List.map_id v]
  apply List.map_congr_left
  intro a _
  exact floor_int_add a (1 / 2) (by norm_num) (by norm_num)

theorem mkVoxel_ints (v : List Int) : mkVoxel (ratsOfInts v) = v := by
  unfold mkVoxel ratsOfInts
  rw [List.map_map]
  conv => rhs; rw [← List.map_id v]
  apply List.map_congr_left
  intro a _
  have := floor_int_add a 0 (le_refl _) (by norm_num)
  simpa using this

theorem mkCenter_ints (v : List Int) : mkCenter (ratsOfInts v) = centerOf v := by
  unfold mkCenter ratsOfInts centerOf
  rw [List.map_map]
  apply List.map_congr_left
  intro a _
  have := floor_int_add a 0 (le_refl _) (by norm_num)
  simp at this
  simp [this]

theorem mkCenter_centerOf (v : List Int) : mkCenter (centerOf v) = centerOf v := by
  unfold mkCenter centerOf
  rw [List.map_map]
  apply List.map_congr_left
  intro a _
  have := floor_int_add a (1 / 2) (by norm_num) (by norm_num)
  simp only [Function.comp]
  rw [this]

theorem mul_div_self_nat (D : Rat) (n : Nat) (hn : 0 < n) : (n : Rat) * (D / (n : Rat)) = D := by
  have : ((n : Nat) : Rat) ≠ 0 := by exact_mod_cast (Nat.pos_iff_ne_zero.mp hn)
  field_simp

/-! ### voxel ∘ coordinate = floor, for arbitrary rational voxel positions -/

theorem vadd_floor_frac (w : List Rat) :
    vadd (w.map Rat.floor) (w.map fun x => x - ((Rat.floor x : Int) : Rat)) = w := by
  induction w with
  | nil => rfl
  | cons x w ih =>
    simp only [vadd, List.map_cons, List.zipWith_cons_cons] at ih ⊢
    rw [ih]; congr 1; ring

/-- `voxel(coordinate(w))` is the componentwise floor of `w`, for every rational position `w` -/
theorem voxel_coord_floor_with (cs : CS) (hcs : cs.ok) (am : AxisMap) (hw : am.wf cs.dim = true)
    (w : List Rat) (hl : w.length = cs.dim.toNat) :
    voxelWith am cs (coordWith am cs w) = w.map Rat.floor := by
  have h := voxel_of_inside_with cs hcs am hw (w.map Rat.floor)
    (w.map fun x => x - ((Rat.floor x : Int) : Rat)) (by simp [hl]) (by simp [hl]) (by
      intro x hx
      rw [List.mem_map] at hx
      obtain ⟨y, _, rfl⟩ := hx
      have h1 := Rat.floor_le y
      have h2 := Rat.lt_floor_add_one y
      push_cast at h2
      constructor <;> linarith)
  rw [vadd_floor_frac] at h
  exact h

/-! ## round 2: coordinate_vector, length / num_voxels, bounding box, point helpers, check_equal -/
theorem listGetD_zipWith_addQ (v o : List Rat) (p : Nat) (hv : p < v.length) (ho : p < o.length) :
    listGetD (List.zipWith (· + ·) v o) p 0 = listGetD v p 0 + listGetD o p 0 := by
  unfold listGetD
  simp [List.getElem?_zipWith, List.getElem?_eq_getElem hv, List.getElem?_eq_getElem ho]

/-- `coordinate_vector` is the linear part of `coordinate` -/
theorem coordinate_vector_linear_with (cs : CS) (am : AxisMap) (v w : List Rat)
    (hb : ∀ pr ∈ am, pr.1 < v.length ∧ pr.1 < w.length) :
    List.zipWith (· - ·) (coordWith am cs (List.zipWith (· + ·) v w)) (coordWith am cs v) = coordVecWith am cs w := by
  unfold coordWith coordVecWith
  rw [zipWith_map_same]
  rw [← map_zipIdx_fst (fun pr => sgn pr.2 * listGetD w pr.1 0 * cs.h pr.1) am 0]
  apply List.map_congr_left
  intro q hq
  have hm : q.1 ∈ am := List.mem_of_getElem? (List.mem_zipIdx_iff_getElem?.mp hq)
  obtain ⟨h1, h2⟩ := hb q.1 hm
  unfold coordAx
  rw [listGetD_zipWith_addQ v w q.1.1 h1 h2]
  ring

theorem ceil_int_mul_div (n : Int) (h : Rat) (hh : 0 < h) : Rat.ceil ((n : Rat) * h / h) = n := by
  have : (n : Rat) * h / h = (n : Rat) := by field_simp
  rw [this]; exact Rat.ceil_intCast n

theorem ceil_covers (L h : Rat) (hh : 0 < h) :
    L ≤ ((Rat.ceil (L / h) : Int) : Rat) * h ∧ ((Rat.ceil (L / h) : Int) : Rat) * h < L + h := by
  have h1 : L / h ≤ ((Rat.ceil (L / h) : Int) : Rat) := Rat.le_ceil
  have h2 : ((Rat.ceil (L / h) : Int) : Rat) < L / h + 1 := Rat.ceil_lt
  constructor
  · have := (div_le_iff₀ hh).mp h1; linarith
  · have : ((Rat.ceil (L / h) : Int) : Rat) * h < (L / h + 1) * h := mul_lt_mul_of_pos_right h2 hh
    have e : (L / h + 1) * h = L + h := by field_simp
    linarith

theorem mkVoxelRev_involutive (xs : List Rat) : mkVoxelRev (ratsOfInts (mkVoxelRev xs)) = mkVoxel xs := by
  unfold mkVoxelRev
  rw [mkVoxel_ints, List.reverse_reverse]

theorem mkCenterRev_twice (xs : List Rat) : mkCenterRev (mkCenterRev xs) = mkCenter xs := by
  unfold mkCenterRev
  have h : ∀ l : List Rat, mkCenter (l.reverse) = (mkCenter l).reverse := by
    intro l; unfold mkCenter; rw [List.map_reverse]
  have hc : mkCenter (mkCenter xs) = mkCenter xs := by
    unfold mkCenter
    rw [List.map_map]
    apply List.map_congr_left
    intro a _
    have := floor_int_add (Rat.floor a) (1 / 2) (by norm_num) (by norm_num)
    simp only [Function.comp]
    rw [this]
  rw [h, List.reverse_reverse, hc]

theorem origin_as_map (cs : CS) (hcs : cs.ok) (am : AxisMap) (hw : am.wf cs.dim = true) :
    (am.zipIdx.map fun q => listGetD cs.origin q.2 0) = cs.origin := by
  have hz := coord_zero_with cs hcs am hw
  unfold coordWith at hz
  simp only [coordAx_zero] at hz
  exact hz

theorem minR_shift (o D : Rat) (r : Bool) (hD : 0 < D) : minR o (o + sgn r * D) = if r then o - D else o := by
  cases r
  · have : o ≤ o + 1 * D := by linarith
    simp only [minR, sgn, Bool.false_eq_true, if_false, this, if_true]
  · have : ¬ (o ≤ o + -1 * D) := by intro h; linarith
    simp only [minR, sgn, if_true, this, if_false]; ring
theorem maxR_shift (o D : Rat) (r : Bool) (hD : 0 < D) : maxR o (o + sgn r * D) = if r then o else o + D := by
  cases r
  · have : o ≤ o + 1 * D := by linarith
    simp only [maxR, sgn, Bool.false_eq_true, if_false, this, if_true]; ring
  · have : ¬ (o ≤ o + -1 * D) := by intro h; linarith
    simp only [maxR, sgn, if_true, this, if_false]

theorem dims_pos_get (cs : CS) (hcs : cs.ok) (p : Nat) (hp : p < cs.dim.toNat) : 0 < listGetD cs.dims p 0 := by
  unfold listGetD
  have hd : p < cs.dims.length := by rw [hcs.dimsLen]; exact hp
  rw [List.getElem?_eq_getElem hd]
  exact hcs.dimsPos _ (List.getElem_mem hd)

/-- bounding box: `min_coordinate` / `max_coordinate` per Cartesian axis -/
theorem min_max_with (cs : CS) (hcs : cs.ok) (am : AxisMap) (hw : am.wf cs.dim = true) :
    List.zipWith minR cs.origin (coordWith am cs (ratsOfNats cs.shape)) =
      (am.zipIdx.map fun q => if q.1.2 then listGetD cs.origin q.2 0 - listGetD cs.dims q.1.1 0 else listGetD cs.origin q.2 0) ∧
    List.zipWith maxR cs.origin (coordWith am cs (ratsOfNats cs.shape)) =
      (am.zipIdx.map fun q => if q.1.2 then listGetD cs.origin q.2 0 else listGetD cs.origin q.2 0 + listGetD cs.dims q.1.1 0) := by
  have ho := origin_as_map cs hcs am hw
  obtain ⟨_, hb⟩ := wf_bound hw
  have key : ∀ q ∈ am.zipIdx, coordAx cs (ratsOfNats cs.shape) q.2 q.1 = listGetD cs.origin q.2 0 + sgn q.1.2 * listGetD cs.dims q.1.1 0 := by
    intro q hq
    have hm : q.1 ∈ am := List.mem_of_getElem? (List.mem_zipIdx_iff_getElem?.mp hq)
    have := coordAx_shape cs hcs q.2 q.1 (hb _ hm)
    linarith
  constructor
  · conv => lhs; rw [← ho]
    unfold coordWith
    rw [zipWith_map_same]
    apply List.map_congr_left
    intro q hq
    have hm : q.1 ∈ am := List.mem_of_getElem? (List.mem_zipIdx_iff_getElem?.mp hq)
    rw [key q hq, minR_shift _ _ _ (dims_pos_get cs hcs _ (hb _ hm))]
  · conv => lhs; rw [← ho]
    unfold coordWith
    rw [zipWith_map_same]
    apply List.map_congr_left
    intro q hq
    have hm : q.1 ∈ am := List.mem_of_getElem? (List.mem_zipIdx_iff_getElem?.mp hq)
    rw [key q hq, maxR_shift _ _ _ (dims_pos_get cs hcs _ (hb _ hm))]

/-- every position of the image (0 ≤ v_p ≤ N_p on each matrix axis) has its coordinate inside the bounding box -/
theorem coordAx_in_box (cs : CS) (hcs : cs.ok) (v : List Rat) (i : Nat) (pr : Nat × Bool) (hp : pr.1 < cs.dim.toNat)
    (h0 : 0 ≤ listGetD v pr.1 0) (h1 : listGetD v pr.1 0 ≤ ((listGetD cs.shape pr.1 0 : Nat) : Rat)) :
    (if pr.2 then listGetD cs.origin i 0 - listGetD cs.dims pr.1 0 else listGetD cs.origin i 0) ≤ coordAx cs v i pr ∧
    coordAx cs v i pr ≤ (if pr.2 then listGetD cs.origin i 0 else listGetD cs.origin i 0 + listGetD cs.dims pr.1 0) := by
  have hh := CS.h_pos cs hcs pr.1 hp
  have hD : ((listGetD cs.shape pr.1 0 : Nat) : Rat) * cs.h pr.1 = listGetD cs.dims pr.1 0 := by
    have := coordAx_shape cs hcs 0 (pr.1, false) hp
    unfold coordAx at this
    have hs : pr.1 < cs.shape.length := by rw [hcs.shapeLen]; exact hp
    have e : listGetD (ratsOfNats cs.shape) pr.1 0 = ((listGetD cs.shape pr.1 0 : Nat) : Rat) := by
      unfold listGetD ratsOfNats; simp [List.getElem?_map, List.getElem?_eq_getElem hs]
    simp only [sgn, Bool.false_eq_true, if_false] at this
    rw [e] at this
    linarith
  have a : 0 ≤ listGetD v pr.1 0 * cs.h pr.1 := mul_nonneg h0 (le_of_lt hh)
  have b : listGetD v pr.1 0 * cs.h pr.1 ≤ listGetD cs.dims pr.1 0 := by
    rw [← hD]; exact mul_le_mul_of_nonneg_right h1 (le_of_lt hh)
  unfold coordAx
  cases pr.2 <;> simp [sgn] <;> constructor <;> linarith

theorem npClose_refl (x : Rat) : npClose x x = true := by
  unfold npClose absQ
  simp only [sub_self, le_refl, if_true, decide_eq_true_eq]
  have : (0 : Rat) ≤ if 0 ≤ x then x else -x := by split <;> linarith
  linarith

/-- `np.isclose` is NOT symmetric: 1000 is close to 1000.0100001 but not the other way round -/
theorem npClose_not_symm : npClose 1000 (10000100001 / 10000000) = true ∧ npClose (10000100001 / 10000000) 1000 = false := by
  decide +kernel

theorem zipWith_all_self (close : Rat → Rat → Bool) (hr : ∀ x, close x x = true) (a : List Rat) :
    (List.zipWith close a a).all id = true := by
  induction a with
  | nil => rfl
  | cons x a ih => simp only [List.zipWith_cons_cons, List.all_cons, hr x, id, Bool.true_and]; exact ih

theorem allcloseL_refl (close : Rat → Rat → Bool) (hr : ∀ x, close x x = true) (a : List Rat) :
    allcloseL close a a = .ok true := by
  unfold allcloseL; simp only [if_true]; rw [zipWith_all_self close hr a]

theorem zipWith_close_comm (close : Rat → Rat → Bool) (hs : ∀ x y, close x y = close y x) (a b : List Rat) :
    List.zipWith close a b = List.zipWith close b a := by
  induction a generalizing b with
  | nil => cases b <;> rfl
  | cons x a ih => cases b with
    | nil => rfl
    | cons y b => simp [hs x y, ih b]

theorem allcloseL_symm (close : Rat → Rat → Bool) (hs : ∀ x y, close x y = close y x) (a b : List Rat) :
    allcloseL close a b = allcloseL close b a := by
  unfold allcloseL
  by_cases h : a.length = b.length
  · simp [h, zipWith_close_comm close hs a b]
  · have h' : ¬ b.length = a.length := fun e => h e.symm
    simp only [h, h', if_false]
    by_cases ha : a.length = 1
    · have hb : ¬ b.length = 1 := fun e => h (by rw [ha, e])
      simp only [ha, hb, if_true, if_false]
      congr 1; congr 1; funext y; exact hs _ _
    · simp only [ha, if_false]
      by_cases hb : b.length = 1
      · simp only [hb, if_true]
        congr 1; congr 1; funext y; exact hs _ _
      · simp only [hb, if_false]
theorem axisMap_exists' (d : Dim) : ∃ am, axisMap d = .ok am := by
  cases d
  · exact ⟨[(0, false)], by decide⟩
  · exact ⟨[(1, false), (0, true)], by decide⟩
  · exact ⟨[(1, false), (2, true), (0, true)], by decide⟩

theorem foldlM_true {α} (f : Bool → α → Except Err Bool) (l : List α) (h : ∀ i ∈ l, f true i = .ok true) :
    l.foldlM f true = .ok true := by
  induction l with
  | nil => rfl
  | cons x l ih =>
    rw [List.foldlM_cons, h x (by simp)]
    exact ih (fun i hi => h i (by simp [hi]))

theorem voxelSizeClose_refl (close : Rat → Rat → Bool) (hr : ∀ x, close x x = true) (c : CS) :
    voxelSizeClose close c c = .ok true := by
  obtain ⟨am, ham⟩ := axisMap_exists' c.dim
  unfold voxelSizeClose
  simp only [ham, bind, Except.bind]
  apply foldlM_true
  intro i hi
  have : ¬ c.dim.toNat ≤ i := by simpa using hi
  simp [this, hr, pure, Except.pure]

/-- `check_equal_coordinatesystems(cs, cs)` succeeds with an empty log, for any reflexive closeness test -/
theorem checkEqualWith_refl (close : Rat → Rat → Bool) (hr : ∀ x, close x x = true) (c : CS) (ex : Bool) :
    checkEqualWith close c c ex = .ok (true, []) := by
  obtain ⟨am, ham⟩ := axisMap_exists' c.dim
  have hopp : c.opposite = .ok (coordWith am c (ratsOfNats c.shape)) := by
    simp only [CS.opposite, CS.coordinate, ham, Except.map]
  unfold checkEqualWith
  simp only [allcloseL_refl close hr, voxelSizeClose_refl close hr, hopp, bind, Except.bind, pure, Except.pure]
  cases ex <;> simp

theorem voxelSizeClose_symm (close : Rat → Rat → Bool) (hs : ∀ x y, close x y = close y x) (c1 c2 : CS)
    (hd : c1.dim = c2.dim) : voxelSizeClose close c1 c2 = voxelSizeClose close c2 c1 := by
  obtain ⟨am, ham⟩ := axisMap_exists' c1.dim
  have ham2 : axisMap c2.dim = .ok am := by rw [← hd]; exact ham
  unfold voxelSizeClose
  simp only [ham, ham2, bind, Except.bind, hd]
  congr 1
  funext ok i
  rw [hs]

/-- for images of the same dimension and a symmetric closeness test the comparison is symmetric
(result and failure log) -/
theorem checkEqualWith_symm (close : Rat → Rat → Bool) (hs : ∀ x y, close x y = close y x) (c1 c2 : CS)
    (hd : c1.dim = c2.dim) (ex : Bool) : checkEqualWith close c1 c2 ex = checkEqualWith close c2 c1 ex := by
  obtain ⟨am, ham⟩ := axisMap_exists' c1.dim
  have ham2 : axisMap c2.dim = .ok am := by rw [← hd]; exact ham
  have h1 : c1.opposite = .ok (coordWith am c1 (ratsOfNats c1.shape)) := by
    simp only [CS.opposite, CS.coordinate, ham, Except.map]
  have h2 : c2.opposite = .ok (coordWith am c2 (ratsOfNats c2.shape)) := by
    simp only [CS.opposite, CS.coordinate, ham2, Except.map]
  unfold checkEqualWith
  rw [allcloseL_symm close hs (ratsOfNats c1.shape), allcloseL_symm close hs c1.dims, allcloseL_symm close hs c1.origin,
    voxelSizeClose_symm close hs c1 c2 hd]
  simp only [h1, h2, bind, Except.bind, hd]
  rw [allcloseL_symm close hs (coordWith am c1 (ratsOfNats c1.shape))]

/-! ### in-place changes of the geometry keep it well formed -/
theorem setAt_length {α} (l : List α) (p : Nat) (x : α) : (setAt l p x).length = l.length := by
  induction l generalizing p with
  | nil => rfl
  | cons y ys ih => cases p <;> simp [setAt, ih]

theorem defaultOriginWith_length (mm : AxisMap) (dims : List Rat) : (defaultOriginWith mm dims).length = mm.length := by
  unfold defaultOriginWith
  have : ∀ (l : List ((Nat × Bool) × Nat)) (init : List Rat),
      (l.foldl (fun o q => if q.1.2 then setAt o q.1.1 (listGetD dims q.2 0) else o) init).length = init.length := by
    intro l
    induction l with
    | nil => intro init; rfl
    | cons q l ih =>
      intro init
      simp only [List.foldl_cons]
      rw [ih]
      split
      · exact setAt_length _ _ _
      · rfl
  rw [this]; simp

theorem defaultOrigin_length (d : Dim) (dims o : List Rat) (h : defaultOrigin d dims = .ok o) : o.length = d.toNat := by
  unfold defaultOrigin at h
  cases d
  · have hm : matMap .d1 = .ok [(0, false)] := by decide
    rw [hm] at h; simp only [Except.map] at h; injection h with h; rw [← h, defaultOriginWith_length]; rfl
  · have hm : matMap .d2 = .ok [(1, true), (0, false)] := by decide
    rw [hm] at h; simp only [Except.map] at h; injection h with h; rw [← h, defaultOriginWith_length]; rfl
  · have hm : matMap .d3 = .ok [(2, true), (0, false), (1, true)] := by decide
    rw [hm] at h; simp only [Except.map] at h; injection h with h; rw [← h, defaultOriginWith_length]; rfl

theorem applyOp_ok (cs cs' : CS) (op : GeomOp) (hcs : cs.ok) (hop : op.okFor cs.dim) (h : cs.applyOp op = .ok cs') :
    cs'.ok ∧ cs'.dim = cs.dim ∧ cs'.shape = cs.shape := by
  cases op with
  | touch => simp only [CS.applyOp] at h; injection h with h; subst h; exact ⟨hcs, rfl, rfl⟩
  | resetOrigin =>
    simp only [CS.applyOp] at h
    cases hd : defaultOrigin cs.dim cs.dims with
    | error e => rw [hd] at h; simp [Except.map] at h
    | ok o =>
      rw [hd] at h; simp only [Except.map] at h; injection h with h; subst h
      exact ⟨⟨hcs.shapeLen, hcs.dimsLen, defaultOrigin_length _ _ _ hd, hcs.shapePos, hcs.dimsPos⟩, rfl, rfl⟩
  | setOrigin o =>
    simp only [CS.applyOp] at h; injection h with h; subst h
    exact ⟨⟨hcs.shapeLen, hcs.dimsLen, hop, hcs.shapePos, hcs.dimsPos⟩, rfl, rfl⟩
  | setDimensions D =>
    simp only [CS.applyOp] at h; injection h with h; subst h
    exact ⟨⟨hcs.shapeLen, hop.1, hcs.originLen, hcs.shapePos, hop.2⟩, rfl, rfl⟩

theorem applyOps_ok (ops : List GeomOp) : ∀ (cs cs' : CS), cs.ok → (∀ op ∈ ops, op.okFor cs.dim) →
    cs.applyOps ops = .ok cs' → cs'.ok ∧ cs'.dim = cs.dim ∧ cs'.shape = cs.shape := by
  induction ops with
  | nil =>
    intro cs cs' hcs _ h
    simp only [CS.applyOps, List.foldlM_nil, pure, Except.pure] at h
    injection h with h; subst h; exact ⟨hcs, rfl, rfl⟩
  | cons op ops ih =>
    intro cs cs' hcs hop h
    simp only [CS.applyOps, List.foldlM_cons, bind, Except.bind] at h
    split at h
    · exact absurd h (by simp)
    · next c1 h1 =>
      obtain ⟨a, b, c⟩ := applyOp_ok cs c1 op hcs (hop op (by simp)) h1
      obtain ⟨a', b', c'⟩ := ih c1 cs' a (fun o ho => by rw [b]; exact hop o (by simp [ho])) h
      exact ⟨a', by rw [b', b], by rw [c', c]⟩

/-! ### `__getitem__` of typed point arrays -/
theorem mapM_map_comm {α β} (g : α → β) (rows : List α) (ks : List Int) :
    (ks.mapM fun k => (pyIdx (rows.map g).length k).bind fun i => match (rows.map g)[i]? with | some r => Except.ok r | none => .error .index) =
    (ks.mapM fun k => (pyIdx rows.length k).bind fun i => match rows[i]? with | some r => Except.ok r | none => .error .index).map (List.map g) := by
  induction ks with
  | nil => rfl
  | cons k ks ih =>
    rw [List.mapM_cons, List.mapM_cons, ih]
    simp only [List.length_map, List.getElem?_map]
    cases h1 : pyIdx rows.length k with
    | error e => rfl
    | ok i =>
      simp only [Except.bind, bind]
      cases h2 : rows[i]? with
      | none => rfl
      | some r =>
        simp only [Option.map_some]
        generalize List.mapM (m := Except Err) _ ks = X
        cases X <;> rfl

theorem filterMap_zip_map {α β} (g : α → β) (rows : List α) (m : List Bool) :
    List.filterMap (fun p => if p.2 = true then some p.1 else none) ((rows.map g).zip m) =
      List.map g (List.filterMap (fun p => if p.2 = true then some p.1 else none) (rows.zip m)) := by
  induction rows generalizing m with
  | nil => simp
  | cons r rows ih =>
    cases m with
    | nil => simp
    | cons b m => cases b <;> simp [List.zip_cons_cons, List.filterMap_cons, ih m]

/-- selecting rows commutes with applying a function to every row -/
theorem selectRows_map {α β} (g : α → β) (rows : List α) (key : GetKey) :
    selectRows (rows.map g) key = (selectRows rows key).map (List.map g) := by
  cases key with
  | int k =>
    simp only [selectRows, List.length_map, List.getElem?_map]
    cases pyIdx rows.length k with
    | error e => rfl
    | ok i => cases h : rows[i]? <;> simp [Except.bind, bind, Except.map, h]
  | idx ks => exact mapM_map_comm g rows ks
  | mask m =>
    simp only [selectRows, List.length_map]
    split
    · simp only [Except.map]
      congr 1
      exact filterMap_zip_map g rows m
    · rfl
  | other => rfl

theorem getItem_ctr_centres (vs : List (List Int)) (key : GetKey) :
    getItem .ctr (vs.map centerOf) key = (selectRows vs key).map fun sel => (getItemKind .ctr key, sel.map centerOf) := by
  unfold getItem
  rw [selectRows_map]
  cases selectRows vs key with
  | error e => rfl
  | ok sel =>
    simp only [Except.map, List.map_map]
    congr 2
    apply List.map_congr_left
    intro v _
    exact mkCenter_centerOf v

end Darsia
