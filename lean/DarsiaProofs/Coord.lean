/-
Theorems about the coordinate-system model, parametric in the axis map: they hold for every
axis map whose matrix positions are a permutation (`AxisMap.wf`), so a regenerated table only
re-runs the cheap `wf` obligation in `DarsiaProps.C01`.
-/
import DarsiaProofs.Floor
namespace Darsia

theorem len1 {α} {l : List α} (h : l.length = 1) : ∃ a, l = [a] := by
  match l, h with
  | [a], _ => exact ⟨a, rfl⟩
theorem len2 {α} {l : List α} (h : l.length = 2) : ∃ a b, l = [a, b] := by
  match l, h with
  | [a, b], _ => exact ⟨a, b, rfl⟩
theorem len3 {α} {l : List α} (h : l.length = 3) : ∃ a b c, l = [a, b, c] := by
  match l, h with
  | [a, b, c], _ => exact ⟨a, b, c, rfl⟩

theorem map_fst1 {am : AxisMap} {a : Nat} (h : am.map Prod.fst = [a]) : ∃ r0, am = [(a, r0)] := by
  match am, h with
  | [(p, r)], h => simp at h; subst h; exact ⟨r, rfl⟩
theorem map_fst2 {am : AxisMap} {a b : Nat} (h : am.map Prod.fst = [a, b]) :
    ∃ r0 r1, am = [(a, r0), (b, r1)] := by
  match am, h with
  | [(p, r), (p', r')], h => simp at h; obtain ⟨rfl, rfl⟩ := h; exact ⟨r, r', rfl⟩
theorem map_fst3 {am : AxisMap} {a b c : Nat} (h : am.map Prod.fst = [a, b, c]) :
    ∃ r0 r1 r2, am = [(a, r0), (b, r1), (c, r2)] := by
  match am, h with
  | [(p, r), (p', r'), (p'', r'')], h =>
    simp at h; obtain ⟨rfl, rfl, rfl⟩ := h; exact ⟨r, r', r'', rfl⟩

/-- the well-formed axis maps of each dimension, written out -/
theorem wf_d1 {am : AxisMap} (h : am.wf .d1 = true) : ∃ r0, am = [(0, r0)] := by
  simp only [AxisMap.wf, decide_eq_true_eq, permsOf, List.mem_cons, List.not_mem_nil, or_false] at h; exact map_fst1 h
theorem wf_d2 {am : AxisMap} (h : am.wf .d2 = true) :
    ∃ r0 r1, am = [(0, r0), (1, r1)] ∨ am = [(1, r0), (0, r1)] := by
  simp only [AxisMap.wf, decide_eq_true_eq, permsOf, List.mem_cons, List.not_mem_nil, or_false] at h
  rcases h with h | h
  · obtain ⟨r0, r1, e⟩ := map_fst2 h; exact ⟨r0, r1, .inl e⟩
  · obtain ⟨r0, r1, e⟩ := map_fst2 h; exact ⟨r0, r1, .inr e⟩
theorem wf_d3 {am : AxisMap} (h : am.wf .d3 = true) :
    ∃ r0 r1 r2, am = [(0, r0), (1, r1), (2, r2)] ∨ am = [(0, r0), (2, r1), (1, r2)] ∨
      am = [(1, r0), (0, r1), (2, r2)] ∨ am = [(1, r0), (2, r1), (0, r2)] ∨
      am = [(2, r0), (0, r1), (1, r2)] ∨ am = [(2, r0), (1, r1), (0, r2)] := by
  simp only [AxisMap.wf, decide_eq_true_eq, permsOf, List.mem_cons, List.not_mem_nil, or_false] at h
  rcases h with h | h | h | h | h | h <;> obtain ⟨r0, r1, r2, e⟩ := map_fst3 h <;>
    refine ⟨r0, r1, r2, ?_⟩ <;> simp [e]

end Darsia

namespace Darsia

/-- voxel size is positive under the guards -/
theorem CS.h_pos (cs : CS) (hcs : cs.ok) (p : Nat) (hp : p < cs.dim.toNat) : 0 < cs.h p := by
  unfold CS.h listGetD
  have hs : p < cs.shape.length := by rw [hcs.shapeLen]; exact hp
  have hd : p < cs.dims.length := by rw [hcs.dimsLen]; exact hp
  rw [List.getElem?_eq_getElem hs, List.getElem?_eq_getElem hd]
  simp only [Option.getD_some]
  have h1 := hcs.shapePos _ (List.getElem_mem hs)
  have h2 := hcs.dimsPos _ (List.getElem_mem hd)
  exact div_pos h2 (by exact_mod_cast h1)

/-- one axis: the voxel component computed from a coordinate component that came from `v + t` -/
theorem voxAx_of_coordAx (cs : CS) (x w : List Rat) (i : Nat) (pr : Nat × Bool) (v : Int) (t : Rat)
    (hx : listGetD x i 0 = coordAx cs w i pr) (hw : listGetD w pr.1 0 = (v : Rat) + t)
    (hh : 0 < cs.h pr.1) (h0 : 0 ≤ t) (h1 : t < 1) : voxAx cs x i pr = v := by
  unfold voxAx; rw [hx]; unfold coordAx; rw [hw]
  exact floor_roundtrip _ _ _ _ _ hh h0 h1

theorem listGetD_vadd (v : List Int) (t : List Rat) (p : Nat) (hp : p < v.length) (hl : v.length = t.length) :
    listGetD (vadd v t) p 0 = ((listGetD v p 0 : Int) : Rat) + listGetD t p 0 := by
  unfold listGetD vadd
  have hp' : p < t.length := hl ▸ hp
  simp [List.getElem?_zipWith, List.getElem?_eq_getElem hp, List.getElem?_eq_getElem hp']

theorem voxAx_vadd (cs : CS) (x : List Rat) (v : List Int) (t : List Rat) (i : Nat) (pr : Nat × Bool)
    (hx : listGetD x i 0 = coordAx cs (vadd v t) i pr) (hp : pr.1 < v.length) (hl : v.length = t.length)
    (hh : 0 < cs.h pr.1) (hin : ∀ x ∈ t, 0 ≤ x ∧ x < 1) : voxAx cs x i pr = listGetD v pr.1 0 := by
  have hp' : pr.1 < t.length := hl ▸ hp
  have hm : listGetD t pr.1 0 ∈ t := by
    unfold listGetD; rw [List.getElem?_eq_getElem hp']; exact List.getElem_mem hp'
  exact voxAx_of_coordAx cs x _ i pr _ _ hx (listGetD_vadd v t pr.1 hp hl) hh (hin _ hm).1 (hin _ hm).2

theorem voxel_of_inside_with (cs : CS) (hcs : cs.ok) (am : AxisMap) (hw : am.wf cs.dim = true)
    (v : List Int) (t : List Rat) (hv : v.length = cs.dim.toNat) (ht : t.length = cs.dim.toNat)
    (hin : ∀ x ∈ t, 0 ≤ x ∧ x < 1) :
    voxelWith am cs (coordWith am cs (vadd v t)) = v := by
  have hpos := CS.h_pos cs hcs
  obtain ⟨d, shape, dims, origin⟩ := cs
  cases d
  · obtain ⟨v0, rfl⟩ := len1 hv
    obtain ⟨t0, rfl⟩ := len1 ht
    obtain ⟨r0, rfl⟩ := wf_d1 hw
    simp [voxelWith, coordWith, List.zipIdx, setAt]
    exact voxAx_vadd _ _ [v0] [t0] _ _ rfl (by simp) rfl (hpos _ (by simp [Dim.toNat])) hin
  · obtain ⟨v0, v1, rfl⟩ := len2 hv
    obtain ⟨t0, t1, rfl⟩ := len2 ht
    obtain ⟨r0, r1, rfl | rfl⟩ := wf_d2 hw <;> simp [voxelWith, coordWith, List.zipIdx, setAt] <;>
      refine ⟨?_, ?_⟩ <;>
      exact voxAx_vadd _ _ [v0, v1] [t0, t1] _ _ rfl (by simp) rfl (hpos _ (by simp [Dim.toNat])) hin
  · obtain ⟨v0, v1, v2, rfl⟩ := len3 hv
    obtain ⟨t0, t1, t2, rfl⟩ := len3 ht
    obtain ⟨r0, r1, r2, rfl | rfl | rfl | rfl | rfl | rfl⟩ := wf_d3 hw <;>
      simp [voxelWith, coordWith, List.zipIdx, setAt] <;>
      refine ⟨?_, ?_, ?_⟩ <;>
      exact voxAx_vadd _ _ [v0, v1, v2] [t0, t1, t2] _ _ rfl (by simp) rfl (hpos _ (by simp [Dim.toNat])) hin

/-! ### list helpers -/

theorem listGetD_setAt_eq {α} (l : List α) (a : Nat) (x d : α) (ha : a < l.length) :
    listGetD (setAt l a x) a d = x := by
  induction l generalizing a with
  | nil => simp at ha
  | cons y ys ih =>
    cases a with
    | zero => simp [setAt, listGetD]
    | succ n =>
      have := ih n (by simpa using ha)
      simpa [setAt, listGetD] using this

theorem listGetD_setAt_ne {α} (l : List α) (a p : Nat) (x d : α) (hne : p ≠ a) :
    listGetD (setAt l a x) p d = listGetD l p d := by
  induction l generalizing a p with
  | nil => simp [setAt]
  | cons y ys ih =>
    cases a with
    | zero =>
      cases p with
      | zero => exact absurd rfl hne
      | succ m => simp [setAt, listGetD]
    | succ n =>
      cases p with
      | zero => simp [setAt, listGetD]
      | succ m =>
        have := ih n m (by omega)
        simpa [setAt, listGetD] using this

theorem zipWith_map_same {α β γ δ} (f : β → γ → δ) (g : α → β) (h : α → γ) (l : List α) :
    List.zipWith f (l.map g) (l.map h) = l.map fun a => f (g a) (h a) := by
  induction l with
  | nil => rfl
  | cons a l ih => simp [ih]

theorem map_zipIdx_fst {α β} (g : α → β) (l : List α) (k : Nat) :
    (l.zipIdx k).map (fun q => g q.1) = l.map g := by
  induction l generalizing k with
  | nil => rfl
  | cons a l ih => simp [List.zipIdx_cons, ih]

/-- positions of a well-formed axis map are matrix axes of the dimension, one per Cartesian axis -/
theorem wf_bound {am : AxisMap} {d : Dim} (h : am.wf d = true) :
    am.length = d.toNat ∧ ∀ pr ∈ am, pr.1 < d.toNat := by
  cases d
  · obtain ⟨r0, rfl⟩ := wf_d1 h; simp [Dim.toNat]
  · obtain ⟨r0, r1, rfl | rfl⟩ := wf_d2 h <;> simp [Dim.toNat]
  · obtain ⟨r0, r1, r2, rfl | rfl | rfl | rfl | rfl | rfl⟩ := wf_d3 h <;> simp [Dim.toNat]

/-! ### origin, opposite corner, unit steps -/

theorem listGetD_replicate_zero (n p : Nat) : listGetD (List.replicate n (0 : Rat)) p 0 = 0 := by
  unfold listGetD
  by_cases h : p < n <;> simp [List.getElem?_replicate, h]

theorem coordAx_zero (cs : CS) (n i : Nat) (pr : Nat × Bool) :
    coordAx cs (List.replicate n 0) i pr = listGetD cs.origin i 0 := by
  unfold coordAx; rw [listGetD_replicate_zero]; ring

/-- voxel index zero maps to the origin -/
theorem coord_zero_with (cs : CS) (hcs : cs.ok) (am : AxisMap) (hw : am.wf cs.dim = true) :
    coordWith am cs (List.replicate cs.dim.toNat 0) = cs.origin := by
  have ho := hcs.originLen
  obtain ⟨d, shape, dims, origin⟩ := cs
  cases d
  · obtain ⟨o0, rfl⟩ := len1 ho
    obtain ⟨r0, rfl⟩ := wf_d1 hw
    simp [coordWith, List.zipIdx, coordAx_zero, listGetD]
  · obtain ⟨o0, o1, rfl⟩ := len2 ho
    obtain ⟨r0, r1, rfl | rfl⟩ := wf_d2 hw <;> simp [coordWith, List.zipIdx, coordAx_zero, listGetD]
  · obtain ⟨o0, o1, o2, rfl⟩ := len3 ho
    obtain ⟨r0, r1, r2, rfl | rfl | rfl | rfl | rfl | rfl⟩ := wf_d3 hw <;>
      simp [coordWith, List.zipIdx, coordAx_zero, listGetD]

theorem coordAx_shape (cs : CS) (hcs : cs.ok) (i : Nat) (pr : Nat × Bool) (hp : pr.1 < cs.dim.toNat) :
    coordAx cs (ratsOfNats cs.shape) i pr - listGetD cs.origin i 0 = sgn pr.2 * listGetD cs.dims pr.1 0 := by
  unfold coordAx CS.h ratsOfNats listGetD
  have hs : pr.1 < cs.shape.length := by rw [hcs.shapeLen]; exact hp
  have hN := hcs.shapePos _ (List.getElem_mem hs)
  have hne : ((cs.shape[pr.1] : Nat) : Rat) ≠ 0 := by exact_mod_cast (Nat.pos_iff_ne_zero.mp hN)
  simp only [List.getElem?_map, List.getElem?_eq_getElem hs, Option.map_some, Option.getD_some]
  field_simp
  ring

/-- the opposite corner is displaced from the origin by exactly the physical dimensions: on
Cartesian axis `i` by the dimension of its matrix axis, negatively iff the axis is reversed -/
theorem coord_opposite_with (cs : CS) (hcs : cs.ok) (am : AxisMap) (hw : am.wf cs.dim = true) :
    List.zipWith (· - ·) (coordWith am cs (ratsOfNats cs.shape))
        ((am.zipIdx).map fun q => listGetD cs.origin q.2 0) =
      am.map fun pr => sgn pr.2 * listGetD cs.dims pr.1 0 := by
  unfold coordWith
  rw [zipWith_map_same]
  rw [← map_zipIdx_fst (fun pr => sgn pr.2 * listGetD cs.dims pr.1 0) am 0]
  apply List.map_congr_left
  intro q hq
  have hm : q.1 ∈ am := by
    have := List.mem_zipIdx_iff_getElem?.mp hq
    exact List.mem_of_getElem? this
  exact coordAx_shape cs hcs q.2 q.1 ((wf_bound hw).2 _ hm)

theorem coordAx_step (cs : CS) (v : List Rat) (a i : Nat) (pr : Nat × Bool) (ha : a < v.length) :
    coordAx cs (stepAt v a) i pr - coordAx cs v i pr = if pr.1 = a then sgn pr.2 * cs.h a else 0 := by
  unfold coordAx stepAt
  by_cases h : pr.1 = a
  · rw [h, listGetD_setAt_eq _ _ _ _ ha]; simp; ring
  · rw [listGetD_setAt_ne _ _ _ _ _ h]; simp [h]

/-- one voxel step along matrix axis `a` moves the coordinate by one voxel size along the
Cartesian axis mapped to `a` (sign by reversal) and along no other axis. Holds for every axis map. -/
theorem coord_step_with (cs : CS) (am : AxisMap) (v : List Rat) (a : Nat) (ha : a < v.length) :
    List.zipWith (· - ·) (coordWith am cs (stepAt v a)) (coordWith am cs v) =
      am.map fun pr => if pr.1 = a then sgn pr.2 * cs.h a else 0 := by
  unfold coordWith
  rw [zipWith_map_same]
  rw [← map_zipIdx_fst (fun pr => if pr.1 = a then sgn pr.2 * cs.h a else 0) am 0]
  apply List.map_congr_left
  intro q _
  exact coordAx_step cs v a q.2 q.1 ha

/-! ### typed points -/

theorem vadd_half (v : List Int) : vadd v (List.replicate v.length (1 / 2)) = centerOf v := by
  induction v with
  | nil => rfl
  | cons a v ih => simp [vadd, centerOf, List.replicate_succ] at ih ⊢; exact ih

theorem mkVoxel_centerOf (v : List Int) : mkVoxel (centerOf v) = v := by
  unfold mkVoxel centerOf
  rw [List.map_map]
  conv => rhs; rw [← List.map_id v]
  apply List.map_congr_left
  intro a _
  exact floor_int_add a (1 / 2) (by norm_num) (by norm_num)

theorem mkVoxel_ints (v : List Int) : mkVoxel (ratsOfInts v) = v := by
  unfold mkVoxel ratsOfInts
  rw [List.map_map]
  conv => rhs; rw [← List.map_id v]
  apply List.map_congr_left
  intro a _
  have := floor_int_add a 0 (le_refl _) (by norm_num)
  simpa using this

theorem mkCenter_ints (v : List Int) : mkCenter (ratsOfInts v) = centerOf v := by
  unfold mkCenter ratsOfInts centerOf
  rw [List.map_map]
  apply List.map_congr_left
  intro a _
  have := floor_int_add a 0 (le_refl _) (by norm_num)
  simp at this
  simp [this]

theorem mkCenter_centerOf (v : List Int) : mkCenter (centerOf v) = centerOf v := by
  unfold mkCenter centerOf
  rw [List.map_map]
  apply List.map_congr_left
  intro a _
  have := floor_int_add a (1 / 2) (by norm_num) (by norm_num)
  simp only [Function.comp]
  rw [this]

theorem mul_div_self_nat (D : Rat) (n : Nat) (hn : 0 < n) : (n : Rat) * (D / (n : Rat)) = D := by
  have : ((n : Nat) : Rat) ≠ 0 := by exact_mod_cast (Nat.pos_iff_ne_zero.mp hn)
  field_simp

/-! ### voxel ∘ coordinate = floor, for arbitrary rational voxel positions -/

theorem vadd_floor_frac (w : List Rat) :
    vadd (w.map Rat.floor) (w.map fun x => x - ((Rat.floor x : Int) : Rat)) = w := by
  induction w with
  | nil => rfl
  | cons x w ih =>
    simp only [vadd, List.map_cons, List.zipWith_cons_cons] at ih ⊢
    rw [ih]; congr 1; ring

/-- `voxel(coordinate(w))` is the componentwise floor of `w`, for every rational position `w` -/
theorem voxel_coord_floor_with (cs : CS) (hcs : cs.ok) (am : AxisMap) (hw : am.wf cs.dim = true)
    (w : List Rat) (hl : w.length = cs.dim.toNat) :
    voxelWith am cs (coordWith am cs w) = w.map Rat.floor := by
  have h := voxel_of_inside_with cs hcs am hw (w.map Rat.floor)
    (w.map fun x => x - ((Rat.floor x : Int) : Rat)) (by simp [hl]) (by simp [hl]) (by
      intro x hx
      rw [List.mem_map] at hx
      obtain ⟨y, _, rfl⟩ := hx
      have h1 := Rat.floor_le y
      have h2 := Rat.lt_floor_add_one y
      push_cast at h2
      constructor <;> linarith)
  rw [vadd_floor_frac] at h
  exact h

end Darsia
