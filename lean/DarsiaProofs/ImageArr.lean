/-
Lemmas for the array part of C02: every extraction program returns the root's data under the
composed index map.
-/
import DarsiaProofs.ImageMeta
import DarsiaModel.ImageArr
namespace Darsia.Im
open Darsia

/-! ### index arithmetic -/

theorem addLead_append (starts v tail : List Nat) (h : starts.length = v.length) :
    addLead starts (v ++ tail) = List.zipWith (· + ·) v starts ++ tail := by
  induction starts generalizing v with
  | nil => cases v with
    | nil => rfl
    | cons => simp at h
  | cons o os ih =>
    cases v with
    | nil => simp at h
    | cons x v =>
      simp only [List.cons_append, addLead, List.zipWith_cons_cons]
      rw [ih v (by simpa using h), Nat.add_comm]

theorem insertAt_append (v tail : List Nat) (i : Nat) : insertAt (v ++ tail) v.length i = v ++ i :: tail := by
  unfold insertAt; simp

theorem addAt_append (v tail : List Nat) (t d : Nat) : addAt (v ++ t :: tail) v.length d = v ++ (t + d) :: tail := by
  induction v with
  | nil => rfl
  | cons x v ih => simp only [List.cons_append, List.length_cons, addAt, ih]

theorem zipWith_add_assocN (v a b : List Nat) :
    List.zipWith (· + ·) (List.zipWith (· + ·) v a) b = List.zipWith (· + ·) v (List.zipWith (· + ·) b a) := by
  induction v generalizing a b with
  | nil => simp
  | cons x v ih =>
    cases a with
    | nil => cases b <;> simp
    | cons y a =>
      cases b with
      | nil => simp
      | cons z b => simp only [List.zipWith_cons_cons]; rw [ih]; congr 1; omega

theorem zipWith_add_zeroN (v : List Nat) : List.zipWith (· + ·) v (List.replicate v.length 0) = v := by
  induction v with
  | nil => rfl
  | cons x v ih => simp only [List.length_cons, List.replicate_succ, List.zipWith_cons_cons, ih]; simp

/-! ### what the metadata steps return (no guards) -/

theorem subSlices_fields (im im' : Img) (sls : List PySlice) (h : im.subSlices sls = .ok im') :
    sls.length = im.cs.dim.toNat ∧ im'.cs.dim = im.cs.dim ∧
    im'.slabs = im.slabs.map (fun sl => { sl with idx := List.zipWith Patch.sliceL sl.idx (List.zipWith sliceIdx im.cs.shape sls) }) ∧
    im'.series = im.series ∧ im'.scalar = im.scalar := by
  unfold Img.subSlices at h
  by_cases hl : sls.length = im.cs.dim.toNat
  · refine ⟨hl, ?_⟩
    simp only [hl, ne_eq, not_true_eq_false, if_false, bind, Except.bind, pure, Except.pure] at h
    split at h
    · exact absurd h (by simp)
    · split at h
      · exact absurd h (by simp)
      · split at h
        · exact absurd h (by simp)
        · injection h with h
          rw [← h]; exact ⟨rfl, rfl, rfl, rfl⟩
  · simp [hl, bind, Except.bind, throw, throwThe, MonadExceptOf.throw] at h

theorem timeSlice_fields (im im' : Img) (k : Int) (h : im.timeSlice k = .ok im') :
    ∃ i sl, pyIndex im.slabs.length k = .ok i ∧ im.slabs[i]? = some sl ∧ im'.slabs = [sl] ∧
      im.series = true ∧ im'.series = false ∧ im'.scalar = im.scalar ∧ im'.cs = im.cs := by
  unfold Img.timeSlice at h
  split at h
  · exact absurd h (by simp)
  · next hs =>
    split at h
    · exact absurd h (by simp)
    · next i hi =>
      split at h
      · exact absurd h (by simp)
      · split at h
        · exact absurd h (by simp)
        · next sl hsl =>
          injection h with h; subst h
          exact ⟨i, sl, hi, hsl, rfl, by simpa using hs, rfl, rfl, rfl⟩

theorem timeInterval_series (im im' : Img) (sl : PySlice) (h : im.timeInterval sl = .ok im') :
    im.series = true ∧ im'.series = true ∧ im'.scalar = im.scalar := by
  unfold Img.timeInterval at h
  simp only [bind, Except.bind, pure, Except.pure] at h
  split at h
  · simp [throw, throwThe, MonadExceptOf.throw] at h
  · next hs => injection h with h; subst h; exact ⟨by simpa using hs, by simpa using hs, rfl⟩

/-! ### the data invariant -/

/-- entry (t, v, c) of `im`'s pixel array is the root's entry (root time index of slab t, v + off, c) -/
def DataInv (root im : ImgA) (off : List Nat) : Prop :=
  ∀ (t : Nat) (sl : Slab), im.md.slabs[t]? = some sl → ∀ v : List Nat, v.length = root.md.cs.dim.toNat → ∀ c : List Nat,
    im.data t v c = root.data sl.t (List.zipWith (· + ·) v off) c

theorem data_sub (root im im' : ImgA) (off : List Nat) (hP : Placed root.md im.md off) (hD : DataInv root im off)
    (sls : List PySlice) (h : im.subSlices sls = .ok im') :
    DataInv root im' (List.zipWith (· + ·) off ((List.zipWith sliceIdx im.md.cs.shape sls).map (·.1))) := by
  unfold ImgA.subSlices at h
  simp only [bind, Except.bind, pure, Except.pure] at h
  split at h
  · exact absurd h (by simp)
  · next m hm =>
    injection h with h; subst h
    obtain ⟨hl, hdim, hslabs, hser, hsc⟩ := subSlices_fields im.md m sls hm
    intro t sl' hsl' v hv c
    simp only at hsl'
    rw [hslabs, List.getElem?_map] at hsl'
    cases hsk : im.md.slabs[t]? with
    | none => rw [hsk] at hsl'; simp at hsl'
    | some sl =>
      rw [hsk] at hsl'; simp at hsl'; subst hsl'
      have hlen : ((List.zipWith sliceIdx im.md.cs.shape sls).map (·.1)).length = v.length := by
        rw [List.length_map, List.length_zipWith, hP.ok.shapeLen, hl, hv, hP.dim]; simp
      have := hD t sl hsk (List.zipWith (· + ·) v ((List.zipWith sliceIdx im.md.cs.shape sls).map (·.1)))
        (by rw [List.length_zipWith, hlen, hv]; simp) c
      rw [zipWith_add_assocN] at this
      rw [← this]
      unfold ImgA.data ImgA.rawIdx NArr.sliceLead
      simp only [hser, List.append_assoc]
      rw [addLead_append _ _ _ hlen]

theorem data_timeSlice (root im im' : ImgA) (off : List Nat) (hdim : im.md.cs.dim = root.md.cs.dim) (hD : DataInv root im off) (k : Int)
    (h : im.step (.tslice k) = .ok im') : DataInv root im' off := by
  unfold ImgA.step at h
  simp only [bind, Except.bind, pure, Except.pure] at h
  split at h
  · exact absurd h (by simp)
  · next m hm =>
    obtain ⟨i, sl, hi, hsl, hslabs, hser, hser', hsc, _⟩ := timeSlice_fields im.md m k hm
    rw [hi] at h
    injection h with h; subst h
    intro t sl' hsl' v hv c
    simp only at hsl'
    rw [hslabs] at hsl'
    cases t with
    | succ t => simp at hsl'
    | zero =>
      simp only [List.getElem?_cons_zero, Option.some.injEq] at hsl'
      have e : sl = sl' := hsl'
      subst e
      rw [← hD i sl hsl v hv c]
      unfold ImgA.data ImgA.rawIdx NArr.indexAt
      simp only [hser, hser', List.append_nil, if_true, Bool.false_eq_true, if_false]
      rw [hdim, ← hv, insertAt_append]
      simp

theorem data_timeInterval (root im im' : ImgA) (off : List Nat) (hdim : im.md.cs.dim = root.md.cs.dim) (hD : DataInv root im off) (s : PySlice)
    (h : im.step (.tinterval s) = .ok im') : DataInv root im' off := by
  unfold ImgA.step at h
  simp only [bind, Except.bind, pure, Except.pure] at h
  split at h
  · exact absurd h (by simp)
  · next m hm =>
    injection h with h; subst h
    obtain ⟨_, _, hslabs, _, _⟩ := timeInterval_fields im.md m s hm
    obtain ⟨hser, hser', hsc⟩ := timeInterval_series im.md m s hm
    intro t sl hsl v hv c
    simp only at hsl
    rw [hslabs, getElem?_sliceL] at hsl
    split at hsl
    · rw [← hD _ sl hsl v hv c]
      unfold ImgA.data ImgA.rawIdx NArr.sliceAt
      simp only [hser, hser', if_true, List.append_assoc, List.singleton_append]
      rw [hdim, ← hv, addAt_append, Nat.add_comm]
    · exact absurd hsl (by simp)

theorem data_step (root im im' : ImgA) (off : List Nat) (hP : Placed root.md im.md off) (hD : DataInv root im off)
    (st : Step) (h : im.step st = .ok im') (hne : im'.md.nonempty = true) :
    ∃ off', Placed root.md im'.md off' ∧ DataInv root im' off' ∧ im.md.step st = .ok im'.md := by
  cases st with
  | sub sls =>
    have hm : im.md.subSlices sls = .ok im'.md := by
      unfold ImgA.step ImgA.subSlices at h
      simp only [bind, Except.bind, pure, Except.pure] at h
      split at h
      · exact absurd h (by simp)
      · next m hm => injection h with h; subst h; exact hm
    exact ⟨_, placed_sub root.md im.md im'.md off hP sls hm hne, data_sub root im im' off hP hD sls h, hm⟩
  | subVox pts =>
    unfold ImgA.step at h
    simp only [bind, Except.bind] at h
    split at h
    · exact absurd h (by simp)
    · next sls hb =>
      have hm : im.md.subSlices sls = .ok im'.md := by
        unfold ImgA.subSlices at h
        simp only [bind, Except.bind, pure, Except.pure] at h
        split at h
        · exact absurd h (by simp)
        · next m hm => injection h with h; subst h; exact hm
      refine ⟨_, placed_sub root.md im.md im'.md off hP sls hm hne, data_sub root im im' off hP hD sls h, ?_⟩
      show im.md.subVoxels pts = _
      unfold Img.subVoxels; simp only [bind, Except.bind, hb]; exact hm
  | subCoord pts =>
    unfold ImgA.step at h
    simp only [bind, Except.bind] at h
    split at h
    · exact absurd h (by simp)
    · next vox hv =>
      split at h
      · exact absurd h (by simp)
      · next sls hb =>
        have hm : im.md.subSlices sls = .ok im'.md := by
          unfold ImgA.subSlices at h
          simp only [bind, Except.bind, pure, Except.pure] at h
          split at h
          · exact absurd h (by simp)
          · next m hm => injection h with h; subst h; exact hm
        refine ⟨_, placed_sub root.md im.md im'.md off hP sls hm hne, data_sub root im im' off hP hD sls h, ?_⟩
        show im.md.subCoords pts = _
        unfold Img.subCoords; simp only [bind, Except.bind, hv, hb]; exact hm
  | tslice k =>
    have hm : im.md.timeSlice k = .ok im'.md := by
      unfold ImgA.step at h
      simp only [bind, Except.bind, pure, Except.pure] at h
      split at h
      · exact absurd h (by simp)
      · next m hm =>
        split at h
        · exact absurd h (by simp)
        · injection h with h; subst h; exact hm
    exact ⟨off, (placed_timeSlice root.md im.md im'.md off hP k hm).1, data_timeSlice root im im' off hP.dim hD k h, hm⟩
  | tinterval s =>
    have hm : im.md.timeInterval s = .ok im'.md := by
      unfold ImgA.step at h
      simp only [bind, Except.bind, pure, Except.pure] at h
      split at h
      · exact absurd h (by simp)
      · next m hm => injection h with h; subst h; exact hm
    exact ⟨off, placed_timeInterval root.md im.md im'.md off hP s hm, data_timeInterval root im im' off hP.dim hD s h, hm⟩

theorem data_run (root : ImgA) (steps : List Step) : ∀ (im im' : ImgA) (off : List Nat),
    Placed root.md im.md off → DataInv root im off → im.runOk steps = some im' →
    ∃ off', Placed root.md im'.md off' ∧ DataInv root im' off' ∧ im.md.runOk steps = some im'.md := by
  induction steps with
  | nil =>
    intro im im' off hP hD h
    simp only [ImgA.runOk, Option.some.injEq] at h; subst h; exact ⟨off, hP, hD, rfl⟩
  | cons st ss ih =>
    intro im im' off hP hD h
    unfold ImgA.runOk at h
    split at h
    · next im1 h1 =>
      split at h
      · next hne =>
        obtain ⟨off1, hP1, hD1, hm1⟩ := data_step root im im1 off hP hD st h1 hne
        obtain ⟨off', a, b, c⟩ := ih im1 im' off1 hP1 hD1 h
        refine ⟨off', a, b, ?_⟩
        unfold Img.runOk; rw [hm1]; simp only [hne, if_true]; exact c
      · exact absurd h (by simp)
    · exact absurd h (by simp)

/-! ### roots -/

theorem mkRootA_md (rid : Nat) (cs : CS) (series scalar : Bool) (T : Nat) (C : List Nat) (time : Option (List (Option Rat)))
    (date : List (Option Int)) (root : ImgA) (h : mkRootA rid cs series scalar T C time date = .ok root) :
    mkRoot rid cs series scalar T time date = .ok root.md ∧
    root.arr.get = fun idx => ⟨rid, if series then listGetD idx cs.dim.toNat 0 else 0, idx.take cs.dim.toNat,
      idx.drop (if series then cs.dim.toNat + 1 else cs.dim.toNat)⟩ := by
  unfold mkRootA at h
  simp only [bind, Except.bind, pure, Except.pure] at h
  split at h
  · exact absurd h (by simp)
  · next m hm => injection h with h; subst h; exact ⟨hm, rfl⟩

/-- the tag of entry (t, v, c) of a freshly constructed image names exactly that entry -/
theorem root_data_tag (rid : Nat) (cs : CS) (series scalar : Bool) (T : Nat) (C : List Nat) (time : Option (List (Option Rat)))
    (date : List (Option Int)) (root : ImgA) (h : mkRootA rid cs series scalar T C time date = .ok root)
    (t : Nat) (v : List Nat) (c : List Nat) (hv : v.length = cs.dim.toNat) :
    root.data t v c = ⟨rid, if series then t else 0, v, c⟩ := by
  obtain ⟨hm, hg⟩ := mkRootA_md rid cs series scalar T C time date root h
  have hf := mkRoot_fields rid cs series scalar T time date root.md hm
  unfold ImgA.data ImgA.rawIdx
  rw [hg, hf]
  simp only
  cases series <;> simp [listGetD, ← hv]

theorem dataInv_root (root : ImgA) (n : Nat) (hn : n = root.md.cs.dim.toNat)
    (hs : ∀ (t : Nat) (sl : Slab), root.md.slabs[t]? = some sl → sl.t = t) :
    DataInv root root (List.replicate n 0) := by
  intro t sl hsl v hv c
  rw [hs t sl hsl, hn, ← hv, zipWith_add_zeroN]

theorem mkRoot_slab_t (rid : Nat) (cs : CS) (series scalar : Bool) (T : Nat) (time : Option (List (Option Rat)))
    (date : List (Option Int)) (root : Img) (h : mkRoot rid cs series scalar T time date = .ok root) :
    ∀ (t : Nat) (sl : Slab), root.slabs[t]? = some sl → sl.t = t ∧ sl.rid = rid := by
  have hf := mkRoot_fields rid cs series scalar T time date root h
  intro t sl hsl
  rw [hf] at hsl
  simp only [List.getElem?_map] at hsl
  cases hr : (List.range T)[t]? with
  | none => rw [hr] at hsl; simp at hsl
  | some t' =>
    rw [hr] at hsl
    simp only [Option.map_some, Option.some.injEq] at hsl
    obtain ⟨_, e⟩ := List.getElem?_eq_some_iff.mp hr
    simp at e
    subst hsl; exact ⟨e.symm, rfl⟩

/-! ### append / stack on arrays -/
theorem appendChecks_ok (im other : Img) (h : appendChecks im other = .ok ()) :
    im.cs.dim = other.cs.dim ∧ im.scalar = other.scalar := by
  unfold appendChecks at h
  by_cases h1 : im.cs.dim = other.cs.dim
  · by_cases h2 : im.scalar = other.scalar
    · exact ⟨h1, h2⟩
    · simp [h1, h2, bind, Except.bind, throw, throwThe, MonadExceptOf.throw] at h
  · simp [h1, bind, Except.bind, throw, throwThe, MonadExceptOf.throw] at h

theorem append_ok_fields (im other s : Img) (off : Option Rat) (h : im.append other off = .ok s) :
    s.series = true ∧ s.scalar = im.scalar ∧ im.scalar = other.scalar ∧ im.cs.dim = other.cs.dim ∧
    s.slabs = im.slabs ++ other.slabs ∧ s.cs = im.cs ∧ s.date = im.date ++ other.date := by
  unfold Img.append at h
  simp only [bind, Except.bind, pure, Except.pure] at h
  split at h
  · exact absurd h (by simp)
  · next u hc =>
    split at h
    · exact absurd h (by simp)
    · injection h with h; subst h
      obtain ⟨a, b⟩ := appendChecks_ok im other hc
      exact ⟨rfl, rfl, b, a, rfl, rfl, rfl⟩

theorem slices_get (a : ImgA) (t : Nat) (ht : t < a.slices.length) (v : List Nat) (hv : v.length = a.md.cs.dim.toNat) (c : List Nat) :
    ∃ x, a.slices[t]? = some x ∧ x.get (v ++ c) = a.data t v c := by
  unfold ImgA.slices at ht ⊢
  cases hs : a.md.series with
  | false =>
    simp only [hs, Bool.false_eq_true, if_false, List.length_singleton] at ht ⊢
    have : t = 0 := by omega
    subst this
    refine ⟨a.arr, rfl, ?_⟩
    unfold ImgA.data ImgA.rawIdx; simp [hs]
  | true =>
    simp only [hs, if_true, List.length_map, List.length_range] at ht ⊢
    refine ⟨a.arr.indexAt a.md.cs.dim.toNat t, by simp [ht], ?_⟩
    unfold ImgA.data ImgA.rawIdx NArr.indexAt
    simp only [hs, if_true]
    rw [← hv, insertAt_append]
    simp

theorem append_data (a b s : ImgA) (off : Option Rat) (h : a.append b off = .ok s) (t : Nat) (v : List Nat) (c : List Nat)
    (hv : v.length = a.md.cs.dim.toNat) (ht : t < a.slices.length + b.slices.length) :
    s.data t v c = if t < a.slices.length then a.data t v c else b.data (t - a.slices.length) v c := by
  unfold ImgA.append at h
  simp only [bind, Except.bind, pure, Except.pure] at h
  split at h
  · exact absurd h (by simp)
  · next m hm =>
    injection h with h; subst h
    obtain ⟨hser, _, _, hdab, _, _, _⟩ := append_ok_fields a.md b.md m off hm
    unfold ImgA.data ImgA.rawIdx stackAt
    simp only [hser, if_true]
    have e1 : listGetD (v ++ [t] ++ c) a.md.cs.dim.toNat 0 = t := by
      unfold listGetD; rw [← hv]; simp
    have e2 : (v ++ [t] ++ c).eraseIdx a.md.cs.dim.toNat = v ++ c := by
      rw [← hv, List.append_assoc, List.eraseIdx_append_of_length_le (Nat.le_refl _)]; simp
    rw [e1, e2]
    by_cases hlt : t < a.slices.length
    · obtain ⟨x, hx, hg⟩ := slices_get a t hlt v hv c
      rw [List.getElem?_append_left hlt, hx]
      simp only [hlt, if_true]
      exact hg
    · have hge : a.slices.length ≤ t := Nat.le_of_not_lt hlt
      obtain ⟨x, hx, hg⟩ := slices_get b (t - a.slices.length) (by omega) v (by rw [← hdab]; exact hv) c
      rw [List.getElem?_append_right hge, hx]
      simp only [hlt, if_false]
      exact hg

theorem slices_length (a : ImgA) (h : a.md.series = false → a.md.slabs.length = 1) :
    a.slices.length = a.md.slabs.length := by
  unfold ImgA.slices
  cases hs : a.md.series with
  | false => simp [h hs]
  | true => simp

theorem stack_fold_data (d : Nat) (v : List Nat) (c : List Nat) (rest : List ImgA) :
    ∀ (acc : ImgA) (pre : List ImgA), acc.md.slabs.length = pre.length → (acc.md.series = false → pre.length = 1) →
      acc.md.cs.dim.toNat = d → v.length = d →
      (∀ t o, pre[t]? = some o → acc.data t v c = o.data 0 v c) →
      (∀ o ∈ rest, o.md.series = false ∧ o.md.slabs.length = 1) →
      ∀ s, rest.foldlM (fun a o => a.append o none) acc = .ok s →
        ∀ t o, (pre ++ rest)[t]? = some o → s.data t v c = o.data 0 v c := by
  induction rest with
  | nil =>
    intro acc pre _ _ _ _ hq _ s hs t o ho
    simp only [List.foldlM_nil, pure, Except.pure] at hs
    injection hs with hs; subst hs
    exact hq t o (by simpa using ho)
  | cons o' rest ih =>
    intro acc pre hl hser hd hv hq hr s hs t o ho
    rw [List.foldlM_cons] at hs
    simp only [bind, Except.bind] at hs
    split at hs
    · exact absurd hs (by simp)
    · next acc' ha =>
      obtain ⟨h1, h2⟩ := hr o' (by simp)
      have hm : acc.md.append o'.md none = .ok acc'.md := by
        unfold ImgA.append at ha
        simp only [bind, Except.bind, pure, Except.pure] at ha
        split at ha
        · exact absurd ha (by simp)
        · next m hm => injection ha with ha; subst ha; exact hm
      obtain ⟨f1, _, _, _, f5, f6, _⟩ := append_ok_fields acc.md o'.md acc'.md none hm
      have hla : acc.slices.length = pre.length := by
        rw [slices_length acc (fun h => by rw [hl]; exact hser h), hl]
      have hlo : o'.slices.length = 1 := by rw [slices_length o' (fun _ => h2), h2]
      have := ih acc' (pre ++ [o']) (by rw [f5]; simp [hl, h2]) (by intro h; rw [f1] at h; cases h)
        (by rw [f6]; exact hd) hv
        (by
          intro t' o'' ho''
          have ht' : t' < pre.length + 1 := by
            have := (List.getElem?_eq_some_iff.mp ho'').1
            simpa using this
          rw [append_data acc o' acc' none ha t' v c (by rw [hd]; exact hv) (by rw [hla, hlo]; exact ht')]
          by_cases hlt : t' < pre.length
          · rw [hla]; simp only [hlt, if_true]
            exact hq t' o'' (by rw [List.getElem?_append_left hlt] at ho''; exact ho'')
          · have e : t' = pre.length := by omega
            subst e
            rw [hla]; simp only [Nat.lt_irrefl, if_false, Nat.sub_self]
            rw [List.getElem?_append_right (Nat.le_refl _)] at ho''
            simp at ho''; rw [← ho''])
        (fun x hx => hr x (by simp [hx])) s hs t o (by simpa using ho)
      exact this

/-- `stack` of single-time images: slab `t` of the stacked array is the array of image `t` -/
theorem stackA_data (imgs : List ImgA) (s : ImgA) (h : stackA imgs = .ok s) (d : Nat)
    (hs : ∀ o ∈ imgs, o.md.series = false ∧ o.md.slabs.length = 1 ∧ o.md.cs.dim.toNat = d)
    (v : List Nat) (hv : v.length = d) (c : List Nat) (t : Nat) (o : ImgA) (ho : imgs[t]? = some o) :
    s.data t v c = o.data 0 v c := by
  cases imgs with
  | nil => simp at ho
  | cons a0 rest =>
    simp only [stackA] at h
    obtain ⟨s0, l0, d0⟩ := hs a0 (by simp)
    refine stack_fold_data d v c rest a0 [a0] (by simp [l0]) (fun _ => rfl) d0 hv ?_ (fun x hx => ⟨(hs x (by simp [hx])).1, (hs x (by simp [hx])).2.1⟩)
      s h t o (by simpa using ho)
    intro t' o' ho'
    cases t' with
    | zero => simp at ho'; subst ho'; rfl
    | succ n => simp at ho'

/-- `time_slice(k)` on arrays: the result (read at any time index) is slab `i` of the series -/
theorem tslice_data (im im' : ImgA) (k : Int) (h : im.step (.tslice k) = .ok im') :
    ∃ i, pyIndex im.md.slabs.length k = .ok i ∧ ∀ t v c, v.length = im.md.cs.dim.toNat → im'.data t v c = im.data i v c := by
  unfold ImgA.step at h
  simp only [bind, Except.bind, pure, Except.pure] at h
  split at h
  · exact absurd h (by simp)
  · next m hm =>
    obtain ⟨i, sl, hi, hsl, hslabs, hser, hser', hsc, _⟩ := timeSlice_fields im.md m k hm
    rw [hi] at h
    injection h with h; subst h
    refine ⟨i, hi, ?_⟩
    intro t v c hv
    unfold ImgA.data ImgA.rawIdx NArr.indexAt
    simp only [hser, hser', List.append_nil, if_true, Bool.false_eq_true, if_false]
    rw [← hv, insertAt_append]
    simp

theorem pyIndex_natCast (T i j : Nat) (h : pyIndex T (i : Int) = .ok j) : j = i := by
  unfold pyIndex at h
  split at h
  · injection h with h; omega
  · split at h
    · next hneg => omega
    · exact absurd h (by simp)

/-- one subregion on arrays, without any invariant: entry (t, v, c) of the result is entry (t, v + start, c) -/
theorem subSlices_data (im im' : ImgA) (sls : List PySlice) (h : im.subSlices sls = .ok im')
    (hs : im.md.cs.shape.length = im.md.cs.dim.toNat) (t : Nat) (v : List Nat) (hv : v.length = im.md.cs.dim.toNat) (c : List Nat) :
    im'.data t v c = im.data t (List.zipWith (· + ·) v ((List.zipWith sliceIdx im.md.cs.shape sls).map (·.1))) c := by
  unfold ImgA.subSlices at h
  simp only [bind, Except.bind, pure, Except.pure] at h
  split at h
  · exact absurd h (by simp)
  · next m hm =>
    injection h with h; subst h
    obtain ⟨hl, _, _, hser, hsc⟩ := subSlices_fields im.md m sls hm
    have hlen : ((List.zipWith sliceIdx im.md.cs.shape sls).map (·.1)).length = v.length := by
      rw [List.length_map, List.length_zipWith, hs, hl, hv]; simp
    unfold ImgA.data ImgA.rawIdx NArr.sliceLead
    simp only [hser, List.append_assoc]
    rw [addLead_append _ _ _ hlen]

theorem sliceIdx_nat (N a b : Nat) : sliceIdx N (some (a : Int), some (b : Int)) = (min a N, min b N) := by
  unfold sliceIdx
  simp only [Option.map_some, Option.getD_some]
  have h1 : ¬ ((a : Int) < 0) := by omega
  have h2 : ¬ ((b : Int) < 0) := by omega
  simp only [h1, h2, if_false, Int.toNat_natCast]

theorem foldA_cs (rest : List ImgA) : ∀ (acc s : ImgA), rest.foldlM (fun a o => a.append o none) acc = .ok s →
    s.md.cs = acc.md.cs := by
  induction rest with
  | nil => intro acc s h; simp only [List.foldlM_nil, pure, Except.pure] at h; injection h with h; rw [h]
  | cons o rest ih =>
    intro acc s h
    rw [List.foldlM_cons] at h
    simp only [bind, Except.bind] at h
    split at h
    · exact absurd h (by simp)
    · next acc' ha =>
      have hm : acc.md.append o.md none = .ok acc'.md := by
        unfold ImgA.append at ha
        simp only [bind, Except.bind, pure, Except.pure] at ha
        split at ha
        · exact absurd ha (by simp)
        · next m hm => injection ha with ha; subst ha; exact hm
      obtain ⟨_, _, _, _, _, f6, _⟩ := append_ok_fields acc.md o.md acc'.md none hm
      rw [ih acc' s h, f6]

theorem stackA_cs (a0 : ImgA) (rest : List ImgA) (s : ImgA) (h : stackA (a0 :: rest) = .ok s) : s.md.cs = a0.md.cs := by
  simp only [stackA] at h; exact foldA_cs rest a0 s h

end Darsia.Im
