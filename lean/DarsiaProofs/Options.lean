import DarsiaModel.Options
namespace Darsia.Options
variable {κ ν : Type} [DecidableEq κ]

/-- with defaults built afresh in every call, what an object resolves is a function of (defaults, its own user options)
only: no earlier object in the process matters -/
theorem fresh_no_leak (w : World κ ν) : ∀ (history : List (Opts κ ν)) (user : Opts κ ν),
    resolveAfter .fresh w history user = update w.defaults user
  | [], _ => rfl
  | _ :: hs, user => by
    simp only [resolveAfter, resolve]
    exact fresh_no_leak w hs user

end Darsia.Options
