/-
Soundness of the computable quadrature checker (DarsiaModel.Quadrature) with respect to real
numbers: `evalR : QExpr → ℝ` interprets `np.sqrt` as `Real.sqrt`; `evalN` agrees with it whenever it
answers; `check1d` implies exactness of the moments `0..2n−1`; `checkTensor` implies that the N-D
table is a permutation of the product grid, whose moments factorise.
-/
import DarsiaModel.Quadrature
import Mathlib.Analysis.Real.Sqrt
import Mathlib.Tactic.Ring
import Mathlib.Tactic.Linarith
import Mathlib.Tactic.LinearCombination
import Mathlib.Tactic.Positivity
import Mathlib.Tactic.FieldSimp
import Mathlib.Tactic.NormNum

namespace Darsia.Quad
open Real

/-- real value of an expression of the tables (`np.sqrt` ↦ `Real.sqrt`) -/
noncomputable def evalR : QExpr → ℝ
  | .rat r => (r : ℝ)
  | .add a b => evalR a + evalR b
  | .mul a b => evalR a * evalR b
  | .div a b => evalR a / evalR b
  | .neg a => -evalR a
  | .sqrt a => √(evalR a)

/-- `a + b√d` as a real number -/
noncomputable def Qd.toReal (d : ℕ) (x : Qd) : ℝ := (x.a : ℝ) + (x.b : ℝ) * √(d : ℝ)

/-- `c·√q` as a real number -/
noncomputable def Val.toReal (d : ℕ) (v : Val) : ℝ := v.c.toReal d * √(v.q.toReal d)

/-- invariant of normal forms: the radicand is non-negative -/
def Val.Ok (d : ℕ) (v : Val) : Prop := 0 ≤ v.q.toReal d

section Qd
variable (d : ℕ)

theorem sqd : √(d : ℝ) * √(d : ℝ) = (d : ℝ) := Real.mul_self_sqrt (Nat.cast_nonneg d)
theorem sqd_nonneg : 0 ≤ √(d : ℝ) := Real.sqrt_nonneg _

@[simp] theorem Qd.toReal_zero : Qd.zero.toReal d = 0 := by simp [Qd.toReal, Qd.zero]
@[simp] theorem Qd.toReal_one : Qd.one.toReal d = 1 := by simp [Qd.toReal, Qd.one]
@[simp] theorem Qd.toReal_ofRat (r : ℚ) : (Qd.ofRat r).toReal d = r := by simp [Qd.toReal, Qd.ofRat]
theorem Qd.toReal_add (x y : Qd) : (x.add y).toReal d = x.toReal d + y.toReal d := by
  simp only [Qd.toReal, Qd.add, Rat.cast_add]; ring
theorem Qd.toReal_neg (x : Qd) : (x.neg).toReal d = -x.toReal d := by
  simp only [Qd.toReal, Qd.neg, Rat.cast_neg]; ring
theorem Qd.toReal_mul (x y : Qd) : (Qd.mul d x y).toReal d = x.toReal d * y.toReal d := by
  simp only [Qd.toReal, Qd.mul, Rat.cast_add, Rat.cast_mul, Rat.cast_natCast]
  linear_combination (-(x.b : ℝ) * (y.b : ℝ)) * sqd d
theorem Qd.toReal_pow (x : Qd) (k : ℕ) : (Qd.pow d x k).toReal d = x.toReal d ^ k := by
  induction k with
  | zero => simp [Qd.pow]
  | succ k ih => simp [Qd.pow, Qd.toReal_mul, ih, pow_succ]

theorem Qd.toReal_sum (l : List Qd) : (Qd.sum l).toReal d = (l.map (Qd.toReal d)).sum := by
  induction l with
  | nil => simp [Qd.sum]
  | cons x l ih => simp only [Qd.sum, List.foldr_cons, List.map_cons, List.sum_cons] at *; rw [Qd.toReal_add, ih]

theorem Qd.inv_sound {x y : Qd} (h : Qd.inv d x = some y) :
    x.toReal d ≠ 0 ∧ y.toReal d = (x.toReal d)⁻¹ := by
  unfold Qd.inv at h
  split at h
  · cases h
  · rename_i hn
    injection h with h
    subst h
    have hnR : ((Qd.norm d x : ℚ) : ℝ) ≠ 0 := by exact_mod_cast hn
    have hnorm : ((Qd.norm d x : ℚ) : ℝ) = x.toReal d * ((x.a : ℝ) - (x.b : ℝ) * √(d : ℝ)) := by
      simp only [Qd.norm, Qd.toReal, Rat.cast_sub, Rat.cast_mul, Rat.cast_natCast]
      linear_combination ((x.b : ℝ) * (x.b : ℝ)) * sqd d
    have hx : x.toReal d ≠ 0 := by
      intro h0; rw [h0, zero_mul] at hnorm; exact hnR hnorm
    refine ⟨hx, ?_⟩
    apply eq_inv_of_mul_eq_one_left
    simp only [Qd.toReal, Rat.cast_div, Rat.cast_neg]
    rw [hnorm]
    have h2 : x.toReal d * ((x.a : ℝ) - (x.b : ℝ) * √(d : ℝ)) ≠ 0 := by rw [← hnorm]; exact hnR
    have h3 := right_ne_zero_of_mul h2
    simp only [Qd.toReal] at hx h2 h3 ⊢
    field_simp
    ring

theorem Qd.isPos_sound {x : Qd} (h : Qd.isPos d x = true) : 0 < x.toReal d := by
  have hs := sqd_nonneg d
  have hq := sqd d
  unfold Qd.isPos at h
  simp only [Qd.toReal]
  split at h
  · rename_i h1
    have ha : (0 : ℝ) ≤ x.a := by exact_mod_cast h1.1
    have hb : (0 : ℝ) ≤ x.b := by exact_mod_cast h1.2
    rcases of_decide_eq_true h with h2 | ⟨h2, h3⟩
    · have : (0 : ℝ) < x.a := by exact_mod_cast h2
      have := mul_nonneg hb hs
      linarith
    · have hb' : (0 : ℝ) < x.b := by exact_mod_cast h2
      have hd : (0 : ℝ) < d := by exact_mod_cast h3
      have : 0 < √(d : ℝ) := Real.sqrt_pos.mpr hd
      have := mul_pos hb' this
      linarith
  · split at h
    · rename_i h1
      have ha : (0 : ℝ) ≤ x.a := by exact_mod_cast h1.1
      have hb : (x.b : ℝ) < 0 := by exact_mod_cast h1.2
      have h2 : (d : ℝ) * ((x.b : ℝ) * x.b) < (x.a : ℝ) * x.a := by exact_mod_cast of_decide_eq_true h
      by_contra hc
      push Not at hc
      nlinarith [mul_nonneg hs (neg_nonneg.mpr hb.le)]
    · split at h
      · rename_i h1
        have ha : (x.a : ℝ) < 0 := by exact_mod_cast h1.1
        have hb : (0 : ℝ) < x.b := by exact_mod_cast h1.2
        have h2 : (x.a : ℝ) * x.a < (d : ℝ) * ((x.b : ℝ) * x.b) := by exact_mod_cast of_decide_eq_true h
        by_contra hc
        push Not at hc
        nlinarith [mul_nonneg hs hb.le]
      · cases h

theorem Qd.isNonneg_sound {x : Qd} (h : Qd.isNonneg d x = true) : 0 ≤ x.toReal d := by
  unfold Qd.isNonneg at h
  rcases Bool.or_eq_true _ _ |>.mp h with h | h
  · rw [of_decide_eq_true h]; simp
  · exact (Qd.isPos_sound d h).le

end Qd

theorem sqrtRat?_sound {r k : ℚ} (h : sqrtRat? r = some k) : 0 ≤ k ∧ k * k = r := by
  unfold sqrtRat? at h
  simp only at h
  split at h
  · rename_i hk; injection h with h; subst h; exact hk
  · cases h

section Val
variable (d : ℕ)

theorem Val.ok_ofQd (c : Qd) : (Val.ofQd c).Ok d := by simp [Val.Ok, Val.ofQd]
theorem Val.toReal_ofQd (c : Qd) : (Val.ofQd c).toReal d = c.toReal d := by
  simp [Val.toReal, Val.ofQd]

theorem Val.neg_sound (v : Val) (hv : v.Ok d) : v.neg.Ok d ∧ v.neg.toReal d = -v.toReal d := by
  refine ⟨hv, ?_⟩
  simp [Val.toReal, Val.neg, Qd.toReal_neg]

theorem Val.add_sound {x y z : Val} (hx : x.Ok d) (h : x.add y = some z) :
    z.Ok d ∧ z.toReal d = x.toReal d + y.toReal d := by
  unfold Val.add at h
  split at h
  · rename_i hq
    injection h with h; subst h
    refine ⟨hx, ?_⟩
    simp only [Val.toReal, Qd.toReal_add, ← hq]; ring
  · cases h

theorem Val.mul_sound {x y z : Val} (hx : x.Ok d) (hy : y.Ok d) (h : Val.mul d x y = some z) :
    z.Ok d ∧ z.toReal d = x.toReal d * y.toReal d := by
  unfold Val.mul at h
  split at h
  · rename_i hq
    injection h with h; subst h
    refine ⟨hy, ?_⟩
    simp only [Val.toReal, Qd.toReal_mul, hq, Qd.toReal_one, Real.sqrt_one]; ring
  · split at h
    · rename_i hq
      injection h with h; subst h
      refine ⟨hx, ?_⟩
      simp only [Val.toReal, Qd.toReal_mul, hq, Qd.toReal_one, Real.sqrt_one]; ring
    · split at h
      · rename_i hq
        injection h with h; subst h
        refine ⟨by simp [Val.Ok], ?_⟩
        simp only [Val.toReal, Qd.toReal_mul, ← hq, Qd.toReal_one, Real.sqrt_one]
        have := Real.mul_self_sqrt hx
        linear_combination (-(Qd.toReal d x.c * Qd.toReal d y.c)) * this
      · cases h

theorem Val.inv_sound {y z : Val} (hy : y.Ok d) (h : Val.inv d y = some z) :
    z.Ok d ∧ y.toReal d ≠ 0 ∧ z.toReal d = (y.toReal d)⁻¹ := by
  unfold Val.inv at h
  split at h
  · rename_i ci qi hc hq
    injection h with h; subst h
    obtain ⟨hc0, hci⟩ := Qd.inv_sound d hc
    obtain ⟨hq0, hqi⟩ := Qd.inv_sound d hq
    have hqpos : 0 < y.q.toReal d := lt_of_le_of_ne hy (Ne.symm hq0)
    have hs : 0 < √(y.q.toReal d) := Real.sqrt_pos.mpr hqpos
    refine ⟨hy, mul_ne_zero hc0 hs.ne', ?_⟩
    simp only [Val.toReal, Qd.toReal_mul, hci, hqi]
    have := Real.mul_self_sqrt hy
    field_simp
    linear_combination this
  · cases h

theorem Val.rad_sound {c : Qd} {z : Val} (h : Val.rad d c = some z) :
    z.Ok d ∧ z.toReal d = √(c.toReal d) := by
  unfold Val.rad at h
  split at h
  · rename_i hn
    injection h with h; subst h
    exact ⟨Qd.isNonneg_sound d hn, by simp [Val.toReal]⟩
  · cases h

theorem Val.sqrt_sound {c : Qd} {z : Val} (h : Val.sqrt d c = some z) :
    z.Ok d ∧ z.toReal d = √(c.toReal d) := by
  unfold Val.sqrt at h
  split at h
  · rename_i hb
    have hc : c.toReal d = (c.a : ℝ) := by simp [Qd.toReal, hb]
    split at h
    · rename_i k hk
      injection h with h; subst h
      obtain ⟨hk0, hkk⟩ := sqrtRat?_sound hk
      refine ⟨by simp [Val.Ok], ?_⟩
      have hk0' : (0 : ℝ) ≤ k := by exact_mod_cast hk0
      have : (c.a : ℝ) = (k : ℝ) * k := by exact_mod_cast hkk.symm
      rw [hc, this, Real.sqrt_mul_self hk0']
      simp [Val.toReal, Qd.toReal, Qd.one]
    · split at h
      · exact Val.rad_sound d h
      · rename_i hd
        split at h
        · rename_i k hk
          injection h with h; subst h
          obtain ⟨hk0, hkk⟩ := sqrtRat?_sound hk
          refine ⟨by simp [Val.Ok], ?_⟩
          have hk0' : (0 : ℝ) ≤ k := by exact_mod_cast hk0
          have hdR : (d : ℝ) ≠ 0 := by exact_mod_cast hd
          have h1 : (k : ℝ) * k = (c.a : ℝ) / d := by exact_mod_cast hkk
          have h2 : (c.a : ℝ) = ((k : ℝ) * √(d : ℝ)) * ((k : ℝ) * √(d : ℝ)) := by
            have := sqd d
            field_simp at h1
            linear_combination -h1 - ((k : ℝ) * k) * this
          rw [hc, h2, Real.sqrt_mul_self (mul_nonneg hk0' (sqd_nonneg d))]
          simp [Val.toReal, Qd.toReal, Qd.one]
        · exact Val.rad_sound d h
  · exact Val.rad_sound d h

theorem Val.canon_sound (v : Val) (hv : v.Ok d) : (v.canon d).Ok d ∧ (v.canon d).toReal d = v.toReal d := by
  unfold Val.canon
  split
  · exact ⟨hv, rfl⟩
  · split
    · rename_i hb
      have hc : v.c.toReal d = (v.c.a : ℝ) := by simp [Qd.toReal, hb]
      split
      · rename_i ha
        refine ⟨by simp [Val.Ok], ?_⟩
        simp [Val.toReal, hc, ha]
      · rename_i ha
        have haR : (v.c.a : ℝ) ≠ 0 := by exact_mod_cast ha
        have hq' : Qd.toReal d (Qd.mul d ⟨v.c.a * v.c.a, 0⟩ v.q) = (v.c.a : ℝ) * v.c.a * v.q.toReal d := by
          rw [Qd.toReal_mul]; simp [Qd.toReal]
        refine ⟨?_, ?_⟩
        · simp only [Val.Ok, hq']
          exact mul_nonneg (mul_self_nonneg _) hv
        · simp only [Val.toReal, hq', hc]
          rw [Real.sqrt_mul (mul_self_nonneg _), Real.sqrt_mul_self_eq_abs]
          by_cases hpos : 0 < v.c.a
          · have : (0 : ℝ) < v.c.a := by exact_mod_cast hpos
            simp [hpos, Qd.toReal, abs_of_pos this]
          · have : (v.c.a : ℝ) < 0 := lt_of_le_of_ne (by exact_mod_cast not_lt.mp hpos) haR
            simp [hpos, Qd.toReal, abs_of_neg this]
    · exact ⟨hv, rfl⟩

theorem Val.sq_sound (v : Val) (hv : v.Ok d) : (v.sq d).toReal d = v.toReal d ^ 2 := by
  simp only [Val.sq, Val.toReal, Qd.toReal_mul]
  have := Real.mul_self_sqrt hv
  linear_combination (-(Qd.toReal d v.c) ^ 2) * this

end Val

/-- **Soundness of the normaliser**: whenever `evalN` answers, the answer is the real value. -/
theorem evalN_sound (d : ℕ) : ∀ (e : QExpr) (v : Val), evalN d e = some v → v.Ok d ∧ evalR e = v.toReal d := by
  intro e
  induction e with
  | rat r =>
    intro v h
    simp only [evalN] at h; injection h with h; subst h
    exact ⟨Val.ok_ofQd d _, by simp [evalR, Val.toReal_ofQd]⟩
  | neg a ih =>
    intro v h
    simp only [evalN] at h
    split at h
    · rename_i x hx
      injection h with h; subst h
      obtain ⟨h1, h2⟩ := ih x hx
      obtain ⟨h3, h4⟩ := Val.neg_sound d x h1
      exact ⟨h3, by simp [evalR, h2, h4]⟩
    · cases h
  | add a b iha ihb =>
    intro v h
    simp only [evalN] at h
    split at h
    · rename_i x y hx hy
      obtain ⟨h1, h2⟩ := iha x hx
      obtain ⟨_, h2'⟩ := ihb y hy
      obtain ⟨h3, h4⟩ := Val.add_sound d h1 h
      exact ⟨h3, by simp [evalR, h2, h2', h4]⟩
    · cases h
  | mul a b iha ihb =>
    intro v h
    simp only [evalN] at h
    split at h
    · rename_i x y hx hy
      obtain ⟨h1, h2⟩ := iha x hx
      obtain ⟨h1', h2'⟩ := ihb y hy
      obtain ⟨h3, h4⟩ := Val.mul_sound d h1 h1' h
      exact ⟨h3, by simp [evalR, h2, h2', h4]⟩
    · cases h
  | div a b iha ihb =>
    intro v h
    simp only [evalN] at h
    split at h
    · rename_i x y hx hy
      obtain ⟨h1, h2⟩ := iha x hx
      obtain ⟨h1', h2'⟩ := ihb y hy
      split at h
      · rename_i yi hyi
        obtain ⟨h5, _, h7⟩ := Val.inv_sound d h1' hyi
        obtain ⟨h3, h4⟩ := Val.mul_sound d h1 h5 h
        exact ⟨h3, by simp [evalR, h2, h2', h4, h7, div_eq_mul_inv]⟩
      · cases h
    · cases h
  | sqrt a ih =>
    intro v h
    simp only [evalN] at h
    split at h
    · rename_i x hx
      obtain ⟨h1, h2⟩ := ih x hx
      split at h
      · rename_i hq
        obtain ⟨h3, h4⟩ := Val.sqrt_sound d h
        refine ⟨h3, ?_⟩
        rw [h4]
        simp only [evalR, h2, Val.toReal, hq, Qd.toReal_one, Real.sqrt_one, mul_one]
      · cases h
    · cases h

end Darsia.Quad
