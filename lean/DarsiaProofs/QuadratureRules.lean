/-
Rules as lists of real (point, weight) pairs; moments; soundness of `check1d` and `checkTensor`;
factorisation of the moments of a product grid (any dimension).
-/
import DarsiaProofs.Quadrature
import Mathlib.Algebra.BigOperators.Group.List.Basic

namespace Darsia.Quad
open Real

/-! ### real view of a table -/

/-- the table as real (point, weight) pairs; `zipWith` truncates like the consumer's `zip` -/
noncomputable def realPairs (pts : List (List QExpr)) (wts : List QExpr) : List (List ℝ × ℝ) :=
  List.zipWith (fun p w => (p.map evalR, evalR w)) pts wts

noncomputable def Rule.real (r : Rule) : List (List ℝ × ℝ) := realPairs r.pts r.wts

noncomputable def pairR (d : ℕ) (pw : List Val × Qd) : List ℝ × ℝ :=
  (pw.1.map (Val.toReal d), pw.2.toReal d)

noncomputable def pair1 (d : ℕ) (vw : Val × Qd) : ℝ × ℝ := (vw.1.toReal d, vw.2.toReal d)

theorem evalW_sound {d : ℕ} {e : QExpr} {w : Qd} (h : evalW d e = some w) : evalR e = w.toReal d := by
  unfold evalW at h
  split at h
  · rename_i v hv
    split at h
    · rename_i hq
      injection h with h; subst h
      rw [(evalN_sound d e v hv).2]; simp [Val.toReal, hq]
    · cases h
  · cases h

theorem evalPt_sound {d : ℕ} : ∀ {p : List QExpr} {vs : List Val}, evalPt d p = some vs →
    p.map evalR = vs.map (Val.toReal d) ∧ ∀ v ∈ vs, v.Ok d := by
  intro p
  induction p with
  | nil => intro vs h; simp only [evalPt] at h; injection h with h; subst h; simp
  | cons e es ih =>
    intro vs h
    simp only [evalPt] at h
    split at h
    · rename_i v vs' hv hvs
      injection h with h; subst h
      obtain ⟨h1, h2⟩ := ih hvs
      obtain ⟨h3, h4⟩ := evalN_sound d e v hv
      obtain ⟨h5, h6⟩ := Val.canon_sound d v h3
      refine ⟨by simp [h1, h4, h6], ?_⟩
      intro u hu
      rcases List.mem_cons.mp hu with rfl | hu
      · exact h5
      · exact h2 u hu
    · cases h

theorem normPairs_sound {d : ℕ} : ∀ {pts : List (List QExpr)} {wts : List QExpr} {t : List (List Val × Qd)},
    normPairs d pts wts = some t →
    pts.length = wts.length ∧ realPairs pts wts = t.map (pairR d) ∧ ∀ pw ∈ t, ∀ v ∈ pw.1, v.Ok d := by
  intro pts
  induction pts with
  | nil =>
    intro wts t h
    cases wts with
    | nil => simp only [normPairs] at h; injection h with h; subst h; simp [realPairs]
    | cons w ws => simp [normPairs] at h
  | cons p ps ih =>
    intro wts t h
    cases wts with
    | nil => simp [normPairs] at h
    | cons w ws =>
      simp only [normPairs] at h
      split at h
      · rename_i pv wv rest hp hw hrest
        injection h with h; subst h
        obtain ⟨h1, h2, h3⟩ := ih hrest
        obtain ⟨h4, h5⟩ := evalPt_sound hp
        refine ⟨by simp [h1], ?_, ?_⟩
        · simp only [realPairs, List.zipWith_cons_cons, List.map_cons] at h2 ⊢
          rw [h2, h4, evalW_sound hw]; rfl
        · intro pw hpw
          rcases List.mem_cons.mp hpw with rfl | hpw
          · exact h5
          · exact h3 pw hpw
      · cases h

theorem to1d_sound : ∀ {t : List (List Val × Qd)} {l : List (Val × Qd)}, to1d t = some l →
    t = l.map (fun vw => ([vw.1], vw.2)) := by
  intro t
  induction t with
  | nil => intro l h; simp only [to1d] at h; injection h with h; subst h; rfl
  | cons pw rest ih =>
    intro l h
    obtain ⟨p, w⟩ := pw
    match p, h with
    | [v], h =>
      simp only [to1d] at h
      split at h
      · rename_i l' hl
        injection h with h; subst h
        simp [ih hl]
      · cases h
    | [], h => simp [to1d] at h
    | _ :: _ :: _, h => simp [to1d] at h

/-! ### 1-D moments -/

theorem list_sum_map_neg {α : Type} (l : List α) (f : α → ℝ) : (l.map fun a => -f a).sum = -(l.map f).sum := by
  induction l with
  | nil => simp
  | cons a l ih => simp only [List.map_cons, List.sum_cons, ih]; ring

theorem list_sum_map_mul_left {α : Type} (l : List α) (f : α → ℝ) (c : ℝ) :
    (l.map fun a => c * f a).sum = c * (l.map f).sum := by
  induction l with
  | nil => simp
  | cons a l ih => simp only [List.map_cons, List.sum_cons, ih]; ring

/-- `Σ wᵢ xᵢ^k` -/
def mom (l : List (ℝ × ℝ)) (k : ℕ) : ℝ := (l.map fun xw => xw.2 * xw.1 ^ k).sum

/-- `∫_{-1}^{1} x^k dx` in closed form (see `refMoment_eq_integral`) -/
noncomputable def refMoment (k : ℕ) : ℝ := if k % 2 = 0 then 2 / ((k : ℝ) + 1) else 0

theorem mom_perm {l l' : List (ℝ × ℝ)} (h : l.Perm l') (k : ℕ) : mom l k = mom l' k :=
  (h.map _).sum_eq

theorem check1dN_sound {d : ℕ} {l : List (Val × Qd)} {n : ℕ} (h : check1dN d l n = true)
    (hok : ∀ vw ∈ l, vw.1.Ok d) :
    l.length = n ∧ 0 < n ∧ (∀ vw ∈ l, 0 < vw.2.toReal d) ∧
      ∀ k < 2 * n, mom (l.map (pair1 d)) k = refMoment k := by
  unfold check1dN at h
  simp only [Bool.and_eq_true, decide_eq_true_eq, List.all_eq_true, List.mem_range] at h
  obtain ⟨⟨⟨⟨hlen, hn⟩, hpos⟩, hsym⟩, heven⟩ := h
  refine ⟨hlen, hn, fun vw hvw => Qd.isPos_sound d (hpos vw hvw), ?_⟩
  intro k hk
  rcases Nat.even_or_odd' k with ⟨m, rfl | rfl⟩
  · -- even moment: exact arithmetic in ℚ(√d)
    have hm : m < n := by omega
    have he := heven m hm
    have := congrArg (Qd.toReal d) he
    rw [evenMoment, Qd.toReal_sum, List.map_map] at this
    have hr : refMoment (2 * m) = 2 / (2 * (m : ℝ) + 1) := by
      simp [refMoment]
    rw [hr]
    have h2 : Qd.toReal d ⟨2 / (2 * (m : ℚ) + 1), 0⟩ = 2 / (2 * (m : ℝ) + 1) := by
      simp [Qd.toReal]
    rw [h2] at this
    rw [← this, mom, List.map_map]
    congr 1
    apply List.map_congr_left
    intro vw hvw
    simp only [Function.comp, pair1, Qd.toReal_mul, Qd.toReal_pow, Val.sq_sound d vw.1 (hok vw hvw)]
    rw [← pow_mul]
  · -- odd moment: the rule is invariant under x ↦ -x
    have hp := List.isPerm_iff.mp hsym
    have h1 := mom_perm (hp.map (pair1 d)) (2 * m + 1)
    have h2 : mom ((l.map fun vw => (vw.1.neg, vw.2)).map (pair1 d)) (2 * m + 1)
        = - mom (l.map (pair1 d)) (2 * m + 1) := by
      simp only [mom, List.map_map]
      rw [← list_sum_map_neg]
      congr 1
      apply List.map_congr_left
      intro vw hvw
      simp only [Function.comp, pair1, (Val.neg_sound d vw.1 (hok vw hvw)).2]
      rw [Odd.neg_pow ⟨m, rfl⟩]; ring
    have hr : refMoment (2 * m + 1) = 0 := by
      have : (2 * m + 1) % 2 ≠ 0 := by omega
      simp [refMoment, this]
    rw [hr]
    linarith

/-! ### product grids -/

/-- `Π x_j^{e_j}` -/
def monoEval : List ℕ → List ℝ → ℝ
  | e :: es, x :: xs => x ^ e * monoEval es xs
  | _, _ => 1

/-- `Σ w · Π x_j^{e_j}` over the rule -/
def momN (t : List (List ℝ × ℝ)) (es : List ℕ) : ℝ := (t.map fun pw => pw.2 * monoEval es pw.1).sum

def consAllR : List (ℝ × ℝ) → List (List ℝ × ℝ) → List (List ℝ × ℝ)
  | [], _ => []
  | xw :: l, t => t.map (fun pv => (xw.1 :: pv.1, xw.2 * pv.2)) ++ consAllR l t

/-- product grid of a real 1-D rule with product weights -/
def tensorR (l : List (ℝ × ℝ)) : ℕ → List (List ℝ × ℝ)
  | 0 => [([], 1)]
  | k + 1 => consAllR l (tensorR l k)

theorem momN_perm {t t' : List (List ℝ × ℝ)} (h : t.Perm t') (es : List ℕ) : momN t es = momN t' es :=
  (h.map _).sum_eq

theorem momN_consAllR (l : List (ℝ × ℝ)) (t : List (List ℝ × ℝ)) (e : ℕ) (es : List ℕ) :
    momN (consAllR l t) (e :: es) = mom l e * momN t es := by
  induction l with
  | nil => simp [consAllR, momN, mom]
  | cons xw l ih =>
    have ih' : (List.map (fun pw => pw.2 * monoEval (e :: es) pw.1) (consAllR l t)).sum
        = (List.map (fun xw => xw.2 * xw.1 ^ e) l).sum * momN t es := ih
    simp only [consAllR, momN, mom, List.map_append, List.sum_append, List.map_map, List.map_cons,
      List.sum_cons, ih']
    rw [add_mul]
    congr 1
    rw [← list_sum_map_mul_left]
    congr 1
    apply List.map_congr_left
    intro pv _
    simp only [Function.comp, monoEval]; ring

/-- **tensor_exact (moment form)**: the moments of the product grid are products of 1-D moments,
in every dimension. -/
theorem momN_tensorR (l : List (ℝ × ℝ)) : ∀ (dim : ℕ) (es : List ℕ), es.length = dim →
    momN (tensorR l dim) es = (es.map (mom l)).prod := by
  intro dim
  induction dim with
  | zero =>
    intro es h
    have : es = [] := List.length_eq_zero_iff.mp h
    subst this
    simp [tensorR, momN, monoEval]
  | succ k ih =>
    intro es h
    match es, h with
    | e :: es, h =>
      simp only [tensorR, momN_consAllR, List.map_cons, List.prod_cons]
      rw [ih es (by simpa using h)]

theorem consAll_real (d : ℕ) (l : List (Val × Qd)) (t : List (List Val × Qd)) :
    (consAll d l t).map (pairR d) = consAllR (l.map (pair1 d)) (t.map (pairR d)) := by
  induction l with
  | nil => simp [consAll, consAllR]
  | cons xw l ih =>
    simp only [consAll, consAllR, List.map_append, List.map_map, List.map_cons, ih]
    congr 1
    apply List.map_congr_left
    intro pv _
    simp [Function.comp, pairR, pair1, Qd.toReal_mul]

theorem tensorN_real (d : ℕ) (l : List (Val × Qd)) (k : ℕ) :
    (tensorN d l k).map (pairR d) = tensorR (l.map (pair1 d)) k := by
  induction k with
  | zero => simp [tensorN, tensorR, pairR]
  | succ k ih => simp only [tensorN, tensorR, consAll_real, ih]

/-- weights of a product grid of positive weights are positive -/
theorem tensorR_pos (l : List (ℝ × ℝ)) (hl : ∀ xw ∈ l, 0 < xw.2) :
    ∀ k, ∀ pw ∈ tensorR l k, 0 < pw.2 := by
  have hc : ∀ (l' : List (ℝ × ℝ)) (t : List (List ℝ × ℝ)), (∀ xw ∈ l', 0 < xw.2) → (∀ pw ∈ t, 0 < pw.2) →
      ∀ pw ∈ consAllR l' t, 0 < pw.2 := by
    intro l'
    induction l' with
    | nil => intro t _ _ pw h; simp [consAllR] at h
    | cons xw l' ih =>
      intro t h1 h2 pw h
      simp only [consAllR, List.mem_append, List.mem_map] at h
      rcases h with ⟨pv, hpv, rfl⟩ | h
      · exact mul_pos (h1 xw (by simp)) (h2 pv hpv)
      · exact ih t (fun y hy => h1 y (by simp [hy])) h2 pw h
  intro k
  induction k with
  | zero => intro pw h; simp [tensorR] at h; subst h; norm_num
  | succ k ih => exact hc l _ hl ih

theorem tensorR_length (l : List (ℝ × ℝ)) : ∀ k, (tensorR l k).length = l.length ^ k := by
  have hc : ∀ (l' : List (ℝ × ℝ)) (t : List (List ℝ × ℝ)), (consAllR l' t).length = l'.length * t.length := by
    intro l'
    induction l' with
    | nil => intro t; simp [consAllR]
    | cons xw l' ih => intro t; simp [consAllR, ih, Nat.add_mul, Nat.add_comm]
  intro k
  induction k with
  | zero => simp [tensorR]
  | succ k ih => simp [tensorR, hc, ih, Nat.pow_succ, Nat.mul_comm]

/-- every point of the product grid has `k` coordinates -/
theorem tensorR_dim (l : List (ℝ × ℝ)) : ∀ k, ∀ pw ∈ tensorR l k, pw.1.length = k := by
  have hc : ∀ (l' : List (ℝ × ℝ)) (t : List (List ℝ × ℝ)) (k : ℕ), (∀ pw ∈ t, pw.1.length = k) →
      ∀ pw ∈ consAllR l' t, pw.1.length = k + 1 := by
    intro l'
    induction l' with
    | nil => intro t k _ pw h; simp [consAllR] at h
    | cons xw l' ih =>
      intro t k h2 pw h
      simp only [consAllR, List.mem_append, List.mem_map] at h
      rcases h with ⟨pv, hpv, rfl⟩ | h
      · simp [h2 pv hpv]
      · exact ih t k h2 pw h
  intro k
  induction k with
  | zero => intro pw h; simp [tensorR] at h; subst h; rfl
  | succ k ih => exact hc l _ k ih

/-! ### the two checkers, soundly -/

/-- what `check1d r n = true` gives about the real 1-D rule `l` behind the table -/
structure Sound1d (r : Rule) (n : ℕ) (l : List (ℝ × ℝ)) : Prop where
  lengths : r.pts.length = r.wts.length
  npts : l.length = n
  npos : 0 < n
  real : r.real = l.map fun xw => ([xw.1], xw.2)
  pos : ∀ xw ∈ l, 0 < xw.2
  moments : ∀ k < 2 * n, mom l k = refMoment k

/-- **exact_of_check1d** -/
theorem check1d_sound {r : Rule} {n : ℕ} (h : check1d r n = true) : ∃ l, Sound1d r n l := by
  unfold check1d at h
  split at h
  · rename_i t ht
    split at h
    · rename_i l hl
      obtain ⟨h1, h2, h3⟩ := normPairs_sound ht
      have hts := to1d_sound hl
      have hok : ∀ vw ∈ l, vw.1.Ok r.d := by
        intro vw hvw
        refine h3 ([vw.1], vw.2) ?_ vw.1 (by simp)
        rw [hts]; exact List.mem_map.mpr ⟨vw, hvw, rfl⟩
      obtain ⟨c1, c2, c3, c4⟩ := check1dN_sound h hok
      refine ⟨l.map (pair1 r.d), h1, by simpa using c1, c2, ?_, ?_, c4⟩
      · rw [Rule.real, h2, hts]
        simp [pairR, pair1, Function.comp]
      · intro xw hxw
        obtain ⟨vw, hvw, rfl⟩ := List.mem_map.mp hxw
        exact c3 vw hvw
    · cases h
  · cases h

/-- what `checkTensor r1 r dim = true` gives: `r` is a permutation of the product grid of `r1` -/
theorem checkTensor_sound {r1 r : Rule} {dim : ℕ} (h : checkTensor r1 r dim = true) :
    r.pts.length = r.wts.length ∧
      ∃ l, r1.real = l.map (fun xw => ([xw.1], xw.2)) ∧ r.real.Perm (tensorR l dim) := by
  unfold checkTensor at h
  split at h
  · rename_i t1 t ht1 ht
    split at h
    · rename_i l hl
      simp only [Bool.and_eq_true, decide_eq_true_eq] at h
      obtain ⟨hd, hp⟩ := h
      obtain ⟨_, h2, _⟩ := normPairs_sound ht1
      obtain ⟨g1, g2, _⟩ := normPairs_sound ht
      have hts := to1d_sound hl
      refine ⟨g1, l.map (pair1 r.d), ?_, ?_⟩
      · rw [Rule.real, h2, hts, hd]
        simp [pairR, pair1, Function.comp]
      · rw [Rule.real, g2, ← tensorN_real]
        exact (List.isPerm_iff.mp hp).map _
    · cases h
  · cases h

/-- a rule `t` of dimension `dim` integrates every monomial of per-variable degree `≤ m` to the
product of the 1-D reference integrals `I` -/
def ExactOn (t : List (List ℝ × ℝ)) (dim m : ℕ) (I : ℕ → ℝ) : Prop :=
  ∀ es : List ℕ, es.length = dim → (∀ e ∈ es, e ≤ m) → momN t es = (es.map I).prod

/-- **tensor_exact**: 1-D rule exact to degree `m` ⇒ (any permutation of) its product grid is exact
for per-variable degree `≤ m`, in every dimension. -/
theorem tensor_exact {l : List (ℝ × ℝ)} {m : ℕ} {I : ℕ → ℝ} (h1 : ∀ k ≤ m, mom l k = I k)
    {t : List (List ℝ × ℝ)} {dim : ℕ} (hp : t.Perm (tensorR l dim)) : ExactOn t dim m I := by
  intro es hlen hdeg
  rw [momN_perm hp, momN_tensorR l dim es hlen]
  congr 1
  apply List.map_congr_left
  intro e he
  exact h1 e (hdeg e he)

theorem monoEval_zero (p : List ℝ) (k : ℕ) : monoEval (List.replicate k 0) p = 1 := by
  induction k generalizing p with
  | zero => simp [monoEval]
  | succ k ih => cases p with
    | nil => simp [List.replicate, monoEval]
    | cons x xs => simp [List.replicate, monoEval, ih]

/-- sum of the weights = the moment with all exponents zero -/
theorem sum_weights (t : List (List ℝ × ℝ)) (dim : ℕ) : (t.map Prod.snd).sum = momN t (List.replicate dim 0) := by
  simp [momN, monoEval_zero]

end Darsia.Quad
