/-
Lemmas for C05: linearity of the RT0 reconstruction and of the divergence in the flux, seminorm facts,
homogeneity / evenness of the transport cost, feasibility algebra.
-/
import DarsiaModel.Transport
import DarsiaProofs.FV
import Mathlib.Algebra.Order.AbsoluteValue.Basic
namespace Darsia

/-- what is used of the Euclidean norm: absolute homogeneity and the triangle inequality -/
structure IsSeminorm (N : (Nat → Rat) → Rat) : Prop where
  smul : ∀ (s : Rat) (v : Nat → Rat), N (fun a => s * v a) = |s| * N v
  add : ∀ v w : Nat → Rat, N (fun a => v a + w a) ≤ N v + N w

theorem IsSeminorm.zero {N} (hN : IsSeminorm N) : N (fun _ => 0) = 0 := by
  have := hN.smul 0 (fun _ => 0)
  simpa using this

theorem IsSeminorm.nonneg {N} (hN : IsSeminorm N) (v : Nat → Rat) : 0 ≤ N v := by
  have h1 := hN.add v (fun a => (-1) * v a)
  have h2 := hN.smul (-1) v
  have h3 : (fun a => v a + (-1) * v a) = fun _ => (0 : Rat) := by funext a; ring
  rw [h3, hN.zero, h2] at h1
  simp at h1
  linarith

theorem uHi_smul (shape : List Nat) (U : Nat → Rat) (s : Rat) (a : Nat) (idx : List Nat) :
    uHi shape (fun f => s * U f) a idx = s * uHi shape U a idx := by
  unfold uHi; split_ifs <;> ring

theorem uLo_smul (shape : List Nat) (U : Nat → Rat) (s : Rat) (a : Nat) (idx : List Nat) :
    uLo shape (fun f => s * U f) a idx = s * uLo shape U a idx := by
  unfold uLo; split_ifs <;> ring

theorem uHi_add (shape : List Nat) (U V : Nat → Rat) (a : Nat) (idx : List Nat) :
    uHi shape (fun f => U f + V f) a idx = uHi shape U a idx + uHi shape V a idx := by
  unfold uHi; split_ifs <;> ring

theorem uLo_add (shape : List Nat) (U V : Nat → Rat) (a : Nat) (idx : List Nat) :
    uLo shape (fun f => U f + V f) a idx = uLo shape U a idx + uLo shape V a idx := by
  unfold uLo; split_ifs <;> ring

theorem cellVec_smul (shape : List Nat) (U : Nat → Rat) (wgt : List Nat → Nat → Rat) (pt : List Rat)
    (idx : List Nat) (s : Rat) :
    cellVec shape (fun f => s * U f) wgt pt idx = fun a => s * cellVec shape U wgt pt idx a := by
  funext a
  simp only [cellVec, faceToCell, uHi_smul, uLo_smul]; ring

theorem cellVec_wsmul (shape : List Nat) (U : Nat → Rat) (wgt : List Nat → Nat → Rat) (pt : List Rat)
    (idx : List Nat) (k : Rat) :
    cellVec shape U (fun i a => k * wgt i a) pt idx = fun a => k * cellVec shape U wgt pt idx a := by
  funext a
  simp only [cellVec]; ring

theorem divApply_smul (shape : List Nat) (h : List Rat) (U : Nat → Rat) (s : Rat) (c : Nat) :
    divApply shape h (fun f => s * U f) c = s * divApply shape h U c := by
  unfold divApply
  rw [← sumTo_mul_left]
  exact sumTo_congr fun f _ => by ring

theorem divApply_add (shape : List Nat) (h : List Rat) (U V : Nat → Rat) (c : Nat) :
    divApply shape h (fun f => U f + V f) c = divApply shape h U c + divApply shape h V c := by
  unfold divApply
  rw [← sumTo_add]
  exact sumTo_congr fun f _ => by ring

theorem div_is_net_outflow_aux (shape : List Nat) (h : List Rat) (U : Nat → Rat) (c : Nat) (hc : c < numCells shape) :
    divApply shape h U c = netOutflow shape h U (decF shape c) := by
  unfold divApply netOutflow numFaces
  rw [sumTo_offset]
  exact sumTo_congr fun a ha => div_block shape h U a c ha hc

theorem sumTo_nonneg (n : Nat) (f : Nat → Rat) (h : ∀ i, i < n → 0 ≤ f i) : 0 ≤ sumTo n f := by
  induction n with
  | zero => simp [sumTo]
  | succ n ih =>
    simp only [sumTo]
    have := ih (fun i hi => h i (by omega))
    have := h n (by omega)
    linarith

/-- scaling the flux by `s` scales the cost by `|s|` -/
theorem cost_smul_aux {N} (hN : IsSeminorm N) (shape : List Nat) (h : List Rat) (nq : Nat) (wq : Nat → Rat)
    (ptq : Nat → List Rat) (wgt : List Nat → Nat → Rat) (U : Nat → Rat) (s : Rat) :
    cost N shape h nq wq ptq wgt (fun f => s * U f) = |s| * cost N shape h nq wq ptq wgt U := by
  unfold cost transportDensity
  rw [← sumTo_mul_left]
  refine sumTo_congr fun c _ => ?_
  have : ∀ q, wq q * N (cellVec shape (fun f => s * U f) wgt (ptq q) (decF shape c)) =
      |s| * (wq q * N (cellVec shape U wgt (ptq q) (decF shape c))) := by
    intro q; rw [cellVec_smul, hN.smul]; ring
  rw [sumTo_congr (fun q _ => this q), sumTo_mul_left]; ring

/-- scaling a (cell, component) weight by a constant `k` scales the cost by `|k|` -/
theorem cost_wsmul_aux {N} (hN : IsSeminorm N) (shape : List Nat) (h : List Rat) (nq : Nat) (wq : Nat → Rat)
    (ptq : Nat → List Rat) (wgt : List Nat → Nat → Rat) (U : Nat → Rat) (k : Rat) :
    cost N shape h nq wq ptq (fun i a => k * wgt i a) U = |k| * cost N shape h nq wq ptq wgt U := by
  unfold cost transportDensity
  rw [← sumTo_mul_left]
  refine sumTo_congr fun c _ => ?_
  have : ∀ q, wq q * N (cellVec shape U (fun i a => k * wgt i a) (ptq q) (decF shape c)) =
      |k| * (wq q * N (cellVec shape U wgt (ptq q) (decF shape c))) := by
    intro q; rw [cellVec_wsmul, hN.smul]; ring
  rw [sumTo_congr (fun q _ => this q), sumTo_mul_left]; ring

/-- `m` is the minimum of the discrete transport cost over all mass-conserving fluxes for the mass difference `f` -/
def IsMin (N : (Nat → Rat) → Rat) (shape : List Nat) (h : List Rat) (nq : Nat) (wq : Nat → Rat)
    (ptq : Nat → List Rat) (wgt : List Nat → Nat → Rat) (f : Nat → Rat) (m : Rat) : Prop :=
  (∃ U, Feasible shape h f U ∧ cost N shape h nq wq ptq wgt U = m) ∧
  ∀ V, Feasible shape h f V → m ≤ cost N shape h nq wq ptq wgt V

/-- divergence on a 1-D grid: upper face value minus lower face value (face area 1) -/
theorem div_1d (n : Nat) (h0 : Rat) (U : Nat → Rat) (c : Nat) (hc : c < n) :
    divApply [n] [h0] U c = (if c + 1 < n then U c else 0) - (if 1 ≤ c then U (c - 1) else 0) := by
  have hc' : c < numCells [n] := by simpa [numCells, prodL] using hc
  rw [div_is_net_outflow_aux [n] [h0] U c hc']
  have e : ∀ k, encF (fshape [n] 0) [k] = k := by intro k; simp [fshape, encF]
  simp [netOutflow, sumTo, area, prodR, uHi, uLo, faceNum, offset, decF, unbump, Nat.mod_eq_of_lt hc, e]

/-! ### grids that are one cell thick in every direction but one -/

/-- all axes except `a` have extent 1 -/
def Thin (shape : List Nat) (a : Nat) : Prop :=
  a < shape.length ∧ ∀ b, b < shape.length → b ≠ a → shape.getD b 0 = 1

/-- on a thin grid only the faces of axis `a` carry flux: the net outflow is `area_a · (u_hi − u_lo)` along `a` -/
theorem netOutflow_thin (shape : List Nat) (h : List Rat) (U : Nat → Rat) (a c : Nat) (ht : Thin shape a)
    (hc : c < numCells shape) :
    netOutflow shape h U (decF shape c) =
      area h a * (uHi shape U a (decF shape c) - uLo shape U a (decF shape c)) := by
  unfold netOutflow
  have hidx := decF_inBox shape c hc
  have e : ∀ b, b < shape.length →
      area h b * (uHi shape U b (decF shape c) - uLo shape U b (decF shape c)) =
      if b = a then area h a * (uHi shape U a (decF shape c) - uLo shape U a (decF shape c)) else 0 := by
    intro b hb
    by_cases hba : b = a
    · subst hba; simp
    · rw [if_neg hba]
      have h1 := ht.2 b hb hba
      have h2 := inBox_getD_lt shape _ b hb hidx
      unfold uHi uLo
      rw [if_neg (by omega), if_neg (by omega)]; ring
  rw [sumTo_congr e]
  exact sumTo_ite_eq _ a (fun _ => area h a * (uHi shape U a (decF shape c) - uLo shape U a (decF shape c))) ht.1

/-- on a thin grid every face has normal axis `a` -/
theorem faceAxis_thin (shape : List Nat) (a g : Nat) (ht : Thin shape a) (hg : g < numFaces shape) :
    faceAxis shape g = a := by
  by_contra hne
  have sp := faceAxis_spec shape g hg
  have hb := faceIdx_inBox shape g hg
  have h1 := ((inBox_fshape shape _ _ sp.1).1 hb).2
  have h2 := ht.2 _ sp.1 hne
  omega

/-- a divergence-free flux on a thin grid vanishes (positive face area) -/
theorem divfree_thin_zero (shape : List Nat) (h : List Rat) (W : Nat → Rat) (a : Nat) (ht : Thin shape a)
    (harea : area h a ≠ 0) (hW : ∀ c, c < numCells shape → divApply shape h W c = 0) :
    ∀ g, g < numFaces shape → W g = 0 := by
  have ha := ht.1
  -- per cell: upper and lower face values agree
  have cell : ∀ idx, inBox shape idx = true → uHi shape W a idx = uLo shape W a idx := by
    intro idx hidx
    have hc := encF_lt shape idx hidx
    have := hW (encF shape idx) hc
    rw [div_is_net_outflow_aux shape h W _ hc, netOutflow_thin shape h W a _ ht hc, decF_encF _ _ hidx] at this
    rcases mul_eq_zero.1 this with h0 | h0
    · exact absurd h0 harea
    · linarith
  -- induction along the axis
  have line : ∀ j idx, inBox (fshape shape a) idx = true → idx.getD a 0 = j → W (faceNum shape a idx) = 0 := by
    intro j
    induction j with
    | zero =>
      intro idx hb hj
      have hin := (inBox_fshape shape idx a ha).1 hb
      have := cell idx hin.1
      unfold uHi uLo at this
      rw [if_pos hin.2, if_neg (by omega)] at this
      exact this
    | succ j ih =>
      intro idx hb hj
      have hin := (inBox_fshape shape idx a ha).1 hb
      have := cell idx hin.1
      unfold uHi uLo at this
      rw [if_pos hin.2, if_pos (by omega)] at this
      rw [this]
      have hb' : inBox (fshape shape a) (unbump idx a) = true := by
        rw [inBox_fshape shape _ a ha]
        have hu := inBox_unbump shape idx a ha hin.1 (by omega)
        exact ⟨inBox_of_fshape shape _ a ha hu, by rw [getD_unbump_self]; omega⟩
      exact ih (unbump idx a) hb' (by rw [getD_unbump_self]; omega)
  intro g hg
  have hax := faceAxis_thin shape a g ht hg
  have hb := faceIdx_inBox shape g hg
  have hnum := faceNum_faceIdx shape g hg
  rw [hax] at hb hnum
  rw [← hnum]
  exact line _ _ hb rfl

/-- the cost only reads the flux on existing faces -/
theorem cost_congr (N : (Nat → Rat) → Rat) (shape : List Nat) (h : List Rat) (nq : Nat) (wq : Nat → Rat)
    (ptq : Nat → List Rat) (wgt : List Nat → Nat → Rat) (U V : Nat → Rat)
    (hUV : ∀ g, g < numFaces shape → U g = V g) :
    cost N shape h nq wq ptq wgt U = cost N shape h nq wq ptq wgt V := by
  unfold cost transportDensity
  refine sumTo_congr fun c hc => ?_
  have hidx := decF_inBox shape c hc
  have hlen := decF_length shape c
  have hi : ∀ a, uHi shape U a (decF shape c) = uHi shape V a (decF shape c) := by
    intro a
    unfold uHi
    split_ifs with hlt
    · have ha : a < shape.length := by
        by_contra hge
        have : shape.getD a 0 = 0 := by simp [List.getD, List.getElem?_eq_none (by omega : shape.length ≤ a)]
        omega
      exact hUV _ (faceNum_lt shape _ a ha ((inBox_fshape shape _ a ha).2 ⟨hidx, hlt⟩))
    · rfl
  have lo : ∀ a, uLo shape U a (decF shape c) = uLo shape V a (decF shape c) := by
    intro a
    unfold uLo
    split_ifs with h1
    · have ha : a < shape.length := by
        by_contra hge
        have : (decF shape c).getD a 0 = 0 := by
          simp [List.getD, List.getElem?_eq_none (by omega : (decF shape c).length ≤ a)]
        omega
      exact hUV _ (faceNum_lt shape _ a ha (inBox_unbump shape _ a ha hidx h1))
    · rfl
  have cv : ∀ q, cellVec shape U wgt (ptq q) (decF shape c) = cellVec shape V wgt (ptq q) (decF shape c) := by
    intro q; funext a; simp only [cellVec, faceToCell, hi, lo]
  simp only [cv]

end Darsia
