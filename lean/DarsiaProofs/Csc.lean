/-
Lemmas about the array-level model of the CSC surgery (`DarsiaModel.Csc`).
-/
import DarsiaModel.Csc
namespace Darsia.Csc
open Darsia

variable {α : Type}

/-- filtering tagged positions by the tag = filtering positions by the tag function -/
theorem filter_tag {β : Type} [BEq β] (f : Nat → β) (a : β) (l : List Nat) :
    ((l.map fun p => (f p, p)).filter fun x => x.1 == a).map (·.2) = l.filter fun p => f p == a := by
  induction l with
  | nil => rfl
  | cons p l ih =>
    simp only [List.map_cons, List.filter_cons]
    by_cases h : (f p == a) = true
    · simp [h, ih]
    · simp [h, ih]

theorem filter_tag_map {β γ : Type} [BEq β] (f : Nat → β) (g : Nat → γ) (a : β) (l : List Nat) :
    ((l.map fun p => (f p, p)).filter fun x => x.1 == a).map (fun x => g x.2)
      = (l.filter fun p => f p == a).map g := by
  rw [← filter_tag f a l, List.map_map]; rfl

theorem entryPos_eq (indices indptr : List Nat) (i j : Nat) :
    entryPos indices indptr i j
      = (((arange (indptr.getD j 0) (indptr.getD (j + 1) 0)).map fun p => (indices[p]?, p)).filter
          fun x => x.1 == some i).map (·.2) := by
  unfold entryPos
  exact (filter_tag (fun p => indices[p]?) (some i) _).symm

/-- `np.delete` reads the kept positions of the original array -/
theorem deleteAt_getD [OfNat α 0] (xs : List α) (rm : List Nat) (q : Nat)
    (hq : q < (keptPos xs.length rm).length) :
    (deleteAt 0 xs rm).getD q 0 = xs.getD ((keptPos xs.length rm).getD q 0) 0 := by
  unfold deleteAt
  simp only [List.getD_eq_getElem?_getD, List.getElem?_map]
  rw [List.getElem?_eq_getElem hq]
  rfl


/-- If the per-pattern certificate holds, the surgery output represents, for ANY data (any weights, any
additive structure), the original matrix with rows/columns `k` and `last` dropped. -/
theorem surgery_dense_of_check [Add α] [OfNat α 0] (m r : CSC α) (k : Nat)
    (hlen : m.data.length = m.indices.length)
    (hs : surgery m k = .ok r) (hc : surgeryCheck m.indices m.indptr k = true) :
    ∀ i j, i < r.ncols → j < r.ncols → entry r i j = entry m (up k i) (up k j) := by
  intro i j hi hj
  unfold surgery at hs
  unfold surgeryCheck at hc
  cases hp : surgeryPattern m.indices m.indptr k with
  | error e => rw [hp] at hs; cases hs
  | ok t =>
    obtain ⟨rm, indices', indptr'⟩ := t
    rw [hp] at hs hc
    simp only [Except.ok.injEq] at hs
    subst hs
    simp only [CSC.ncols] at hi hj
    simp only [List.all_eq_true, List.mem_range, Bool.and_eq_true, beq_iff_eq] at hc
    obtain ⟨hb, he⟩ := hc j hj
    have he := he i hi
    unfold entry
    simp only
    rw [entryPos_eq indices' indptr' i j, entryPos_eq m.indices m.indptr (up k i) (up k j), ← he,
      List.map_map, List.map_map]
    congr 1
    apply List.map_congr_left
    intro x hx
    have hx' := hb x (List.mem_filter.1 hx).1
    simp only [decide_eq_true_eq] at hx'
    simp only [Function.comp]
    rw [deleteAt_getD m.data rm x.2 (by rw [hlen]; exact hx'), hlen]

end Darsia.Csc
