/-
Lemmas about Fortran numbering and the face numbering of `DarsiaModel.Grid` (all shapes, any dimension).
-/
import DarsiaModel.Grid
import Mathlib.Tactic.Ring
import Mathlib.Tactic.Linarith
namespace Darsia

/-! ### Fortran numbering is a bijection `box ↔ [0, prod)` -/

theorem inBox_length : ∀ (shape idx : List Nat), inBox shape idx = true → idx.length = shape.length
  | [], [], _ => rfl
  | [], _ :: _, h => by simp [inBox] at h
  | _ :: _, [], h => by simp [inBox] at h
  | n :: ns, i :: is, h => by
    simp only [inBox, Bool.and_eq_true, decide_eq_true_eq] at h
    simp [inBox_length ns is h.2]

theorem encF_lt : ∀ (shape idx : List Nat), inBox shape idx = true → encF shape idx < prodL shape
  | [], [], _ => by simp [encF, prodL]
  | [], _ :: _, h => by simp [inBox] at h
  | _ :: _, [], h => by simp [inBox] at h
  | n :: ns, i :: is, h => by
    simp only [inBox, Bool.and_eq_true, decide_eq_true_eq] at h
    have ih := encF_lt ns is h.2
    simp only [encF, prodL]
    calc i + n * encF ns is < n + n * encF ns is := by omega
      _ = n * (encF ns is + 1) := by ring
      _ ≤ n * prodL ns := Nat.mul_le_mul_left n ih

theorem decF_inBox : ∀ (shape : List Nat) (k : Nat), k < prodL shape → inBox shape (decF shape k) = true
  | [], _, _ => by simp [decF, inBox]
  | n :: ns, k, h => by
    simp only [prodL] at h
    have hn : 0 < n := by
      rcases Nat.eq_zero_or_pos n with h0 | h0
      · subst h0; simp at h
      · exact h0
    simp only [decF, inBox, Bool.and_eq_true, decide_eq_true_eq]
    exact ⟨Nat.mod_lt _ hn, decF_inBox ns (k / n) (Nat.div_lt_of_lt_mul h)⟩

theorem encF_decF : ∀ (shape : List Nat) (k : Nat), k < prodL shape → encF shape (decF shape k) = k
  | [], k, h => by simp only [prodL] at h; simp [encF]; omega
  | n :: ns, k, h => by
    simp only [prodL] at h
    simp only [decF, encF]
    rw [encF_decF ns (k / n) (Nat.div_lt_of_lt_mul h)]
    exact Nat.mod_add_div k n

theorem decF_encF : ∀ (shape idx : List Nat), inBox shape idx = true → decF shape (encF shape idx) = idx
  | [], [], _ => by simp [decF]
  | [], _ :: _, h => by simp [inBox] at h
  | _ :: _, [], h => by simp [inBox] at h
  | n :: ns, i :: is, h => by
    simp only [inBox, Bool.and_eq_true, decide_eq_true_eq] at h
    simp only [encF, decF]
    have h1 : (i + n * encF ns is) % n = i := by
      rw [Nat.add_mul_mod_self_left]; exact Nat.mod_eq_of_lt h.1
    have h2 : (i + n * encF ns is) / n = encF ns is := by
      rw [Nat.add_mul_div_left _ _ (by omega : 0 < n)]; simp [Nat.div_eq_of_lt h.1]
    rw [h1, h2, decF_encF ns is h.2]

theorem decF_length : ∀ (shape : List Nat) (k : Nat), (decF shape k).length = shape.length
  | [], _ => rfl
  | _ :: ns, k => by simp [decF, decF_length ns]

/-- two multi-indices of the box with the same number are equal -/
theorem encF_inj (shape idx jdx : List Nat) (hi : inBox shape idx = true) (hj : inBox shape jdx = true)
    (h : encF shape idx = encF shape jdx) : idx = jdx := by
  rw [← decF_encF shape idx hi, ← decF_encF shape jdx hj, h]


/-! ### `shape - e_a`, `idx ± e_a` -/

@[simp] theorem fshape_length (shape : List Nat) (a : Nat) : (fshape shape a).length = shape.length := by
  induction shape generalizing a with
  | nil => rfl
  | cons n ns ih => cases a <;> simp [fshape, ih]

@[simp] theorem bump_length (idx : List Nat) (a : Nat) : (bump idx a).length = idx.length := by
  induction idx generalizing a with
  | nil => rfl
  | cons n ns ih => cases a <;> simp [bump, ih]

@[simp] theorem unbump_length (idx : List Nat) (a : Nat) : (unbump idx a).length = idx.length := by
  induction idx generalizing a with
  | nil => rfl
  | cons n ns ih => cases a <;> simp [unbump, ih]

theorem getD_fshape_self (shape : List Nat) (a : Nat) :
    (fshape shape a).getD a 0 = shape.getD a 0 - 1 := by
  induction shape generalizing a with
  | nil => simp [fshape]
  | cons n ns ih =>
    cases a with
    | zero => simp [fshape]
    | succ a => simp only [fshape, List.getD_cons_succ]; exact ih a

theorem getD_fshape_ne (shape : List Nat) (a b : Nat) (h : b ≠ a) :
    (fshape shape a).getD b 0 = shape.getD b 0 := by
  induction shape generalizing a b with
  | nil => simp [fshape]
  | cons n ns ih =>
    cases a <;> cases b <;> simp_all [fshape]

theorem getD_bump_self (idx : List Nat) (a : Nat) (h : a < idx.length) :
    (bump idx a).getD a 0 = idx.getD a 0 + 1 := by
  induction idx generalizing a with
  | nil => simp at h
  | cons n ns ih =>
    cases a with
    | zero => simp [bump]
    | succ a => simp only [bump, List.getD_cons_succ]; exact ih a (by simpa using h)

theorem getD_bump_ne (idx : List Nat) (a b : Nat) (h : b ≠ a) :
    (bump idx a).getD b 0 = idx.getD b 0 := by
  induction idx generalizing a b with
  | nil => simp [bump]
  | cons n ns ih => cases a <;> cases b <;> simp_all [bump]

theorem getD_unbump_self (idx : List Nat) (a : Nat) :
    (unbump idx a).getD a 0 = idx.getD a 0 - 1 := by
  induction idx generalizing a with
  | nil => simp [unbump]
  | cons n ns ih =>
    cases a with
    | zero => simp [unbump]
    | succ a => simp only [unbump, List.getD_cons_succ]; exact ih a

theorem getD_unbump_ne (idx : List Nat) (a b : Nat) (h : b ≠ a) :
    (unbump idx a).getD b 0 = idx.getD b 0 := by
  induction idx generalizing a b with
  | nil => simp [unbump]
  | cons n ns ih => cases a <;> cases b <;> simp_all [unbump]

theorem unbump_bump (idx : List Nat) (a : Nat) : unbump (bump idx a) a = idx := by
  induction idx generalizing a with
  | nil => rfl
  | cons n ns ih => cases a <;> simp [bump, unbump, ih]

theorem bump_unbump (idx : List Nat) (a : Nat) (h : 1 ≤ idx.getD a 0) : bump (unbump idx a) a = idx := by
  induction idx generalizing a with
  | nil => simp at h
  | cons n ns ih =>
    cases a with
    | zero => simp at h; simp [bump, unbump]; omega
    | succ a => simp only [List.getD_cons_succ] at h; simp [bump, unbump, ih a h]

/-- membership in the face box of axis `a` = membership in the cell box, not in the last layer along `a` -/
theorem inBox_fshape (shape idx : List Nat) (a : Nat) (ha : a < shape.length) :
    inBox (fshape shape a) idx = true ↔ (inBox shape idx = true ∧ idx.getD a 0 + 1 < shape.getD a 0) := by
  induction shape generalizing a idx with
  | nil => simp at ha
  | cons n ns ih =>
    cases idx with
    | nil => simp [inBox, fshape]; cases a <;> simp [fshape, inBox]
    | cons i is =>
      cases a with
      | zero =>
        simp only [fshape, inBox, Bool.and_eq_true, decide_eq_true_eq, List.getD_cons_zero]
        constructor
        · rintro ⟨h1, h2⟩; exact ⟨⟨by omega, h2⟩, by omega⟩
        · rintro ⟨⟨h1, h2⟩, h3⟩; exact ⟨by omega, h2⟩
      | succ a =>
        simp only [fshape, inBox, Bool.and_eq_true, decide_eq_true_eq, List.getD_cons_succ]
        rw [ih is a (by simpa using ha)]
        tauto

theorem inBox_bump (shape idx : List Nat) (a : Nat) (ha : a < shape.length)
    (h : inBox (fshape shape a) idx = true) : inBox shape (bump idx a) = true := by
  induction shape generalizing a idx with
  | nil => simp at ha
  | cons n ns ih =>
    cases idx with
    | nil => cases a <;> simp [fshape, inBox] at h
    | cons i is =>
      cases a with
      | zero =>
        simp only [fshape, inBox, bump, Bool.and_eq_true, decide_eq_true_eq] at *
        exact ⟨by omega, h.2⟩
      | succ a =>
        simp only [fshape, inBox, bump, Bool.and_eq_true, decide_eq_true_eq] at *
        exact ⟨h.1, ih is a (by simpa using ha) h.2⟩

theorem inBox_unbump (shape idx : List Nat) (a : Nat) (ha : a < shape.length)
    (h : inBox shape idx = true) (h1 : 1 ≤ idx.getD a 0) : inBox (fshape shape a) (unbump idx a) = true := by
  induction shape generalizing a idx with
  | nil => simp at ha
  | cons n ns ih =>
    cases idx with
    | nil => simp [inBox] at h
    | cons i is =>
      cases a with
      | zero =>
        simp only [fshape, inBox, unbump, Bool.and_eq_true, decide_eq_true_eq, List.getD_cons_zero] at *
        exact ⟨by omega, h.2⟩
      | succ a =>
        simp only [fshape, inBox, unbump, Bool.and_eq_true, decide_eq_true_eq, List.getD_cons_succ] at *
        exact ⟨h.1, ih is a (by simpa using ha) h.2 h1⟩

/-- stride of axis `a` in the Fortran numbering -/
def stride (shape : List Nat) (a : Nat) : Nat := prodL (shape.take a)

theorem encF_bump (shape idx : List Nat) (a : Nat) (ha : a < shape.length) (hl : idx.length = shape.length) :
    encF shape (bump idx a) = encF shape idx + stride shape a := by
  induction shape generalizing a idx with
  | nil => simp at ha
  | cons n ns ih =>
    cases idx with
    | nil => simp at hl
    | cons i is =>
      cases a with
      | zero => simp [bump, encF, stride, prodL]; omega
      | succ a =>
        simp only [bump, encF, stride, List.take_succ_cons, prodL]
        rw [ih is a (by simpa using ha) (by simpa using hl)]
        simp only [stride]; ring

theorem stride_pos (shape : List Nat) (a : Nat) (h : 0 < prodL shape) : 0 < stride shape a := by
  induction shape generalizing a with
  | nil => simp [stride, prodL]
  | cons n ns ih =>
    cases a with
    | zero => simp [stride, prodL]
    | succ a =>
      simp only [prodL] at h
      have hn : 0 < n := Nat.pos_of_mul_pos_right h   
      have hm : 0 < prodL ns := Nat.pos_of_mul_pos_left h
      simp only [stride, List.take_succ_cons, prodL]
      exact Nat.mul_pos hn (ih a hm)

/-- face count per axis from the shape -/
theorem prodL_fshape (shape : List Nat) (a : Nat) (ha : a < shape.length) :
    prodL (fshape shape a) = (shape.getD a 0 - 1) * prodL (shape.eraseIdx a) := by
  induction shape generalizing a with
  | nil => simp at ha
  | cons n ns ih =>
    cases a with
    | zero => simp [fshape, prodL]
    | succ a =>
      simp only [fshape, prodL, List.getD_cons_succ, List.eraseIdx_cons_succ]
      rw [ih a (by simpa using ha)]; ring

/-! ### face numbering: faces ↔ `[0, numFaces)` -/

theorem offset_mono (shape : List Nat) {a b : Nat} (h : a ≤ b) : offset shape a ≤ offset shape b := by
  induction b with
  | zero => simp_all
  | succ b ih =>
    rcases Nat.lt_or_ge a (b + 1) with h1 | h1
    · have := ih (by omega); simp only [offset]; omega
    · have : a = b + 1 := by omega
      subst this; exact Nat.le_refl _

theorem faceAxisUpTo_spec (shape : List Nat) (f : Nat) (bound : Nat) :
    faceAxisUpTo shape f bound ≤ bound ∧ offset shape (faceAxisUpTo shape f bound) ≤ f ∧
      (faceAxisUpTo shape f bound < bound → f < offset shape (faceAxisUpTo shape f bound + 1)) := by
  induction bound with
  | zero => simp [faceAxisUpTo, offset]
  | succ b ih =>
    simp only [faceAxisUpTo]
    split
    · rename_i h; exact ⟨Nat.le_refl _, h, fun h' => absurd h' (Nat.lt_irrefl _)⟩
    · rename_i h
      refine ⟨by omega, ih.2.1, fun _ => ?_⟩
      rcases Nat.lt_or_ge (faceAxisUpTo shape f b) b with h1 | h1
      · exact ih.2.2 h1
      · have : faceAxisUpTo shape f b = b := by omega
        rw [this]; omega

/-- the normal axis of a face number: the unique block of the numbering containing it -/
theorem faceAxis_spec (shape : List Nat) (f : Nat) (hf : f < numFaces shape) :
    faceAxis shape f < shape.length ∧ offset shape (faceAxis shape f) ≤ f ∧
      f < offset shape (faceAxis shape f + 1) := by
  have hd : 0 < shape.length := by
    rcases Nat.eq_zero_or_pos shape.length with h0 | h0
    · simp [numFaces, h0, offset] at hf
    · exact h0
  have sp := faceAxisUpTo_spec shape f (shape.length - 1)
  refine ⟨by unfold faceAxis; omega, sp.2.1, ?_⟩
  rcases Nat.lt_or_ge (faceAxis shape f) (shape.length - 1) with h1 | h1
  · exact sp.2.2 h1
  · have : faceAxis shape f + 1 = shape.length := by unfold faceAxis at *; omega
    rw [this]; exact hf

theorem axis_unique (shape : List Nat) (f a b : Nat) (ha1 : offset shape a ≤ f) (ha2 : f < offset shape (a + 1))
    (hb1 : offset shape b ≤ f) (hb2 : f < offset shape (b + 1)) : a = b := by
  rcases Nat.lt_trichotomy a b with h | h | h
  · have := offset_mono shape (show a + 1 ≤ b by omega); omega
  · exact h
  · have := offset_mono shape (show b + 1 ≤ a by omega); omega

theorem faceNum_bounds (shape idx : List Nat) (a : Nat) (hb : inBox (fshape shape a) idx = true) :
    offset shape a ≤ faceNum shape a idx ∧ faceNum shape a idx < offset shape (a + 1) := by
  have := encF_lt _ _ hb
  simp only [faceNum, offset, nfa]; omega

/-- every face (axis, multi-index) has a number below `numFaces` … -/
theorem faceNum_lt (shape idx : List Nat) (a : Nat) (ha : a < shape.length) (hb : inBox (fshape shape a) idx = true) :
    faceNum shape a idx < numFaces shape := by
  have h1 := (faceNum_bounds shape idx a hb).2
  have h2 := offset_mono shape (show a + 1 ≤ shape.length by omega)
  unfold numFaces; omega

/-- … from which axis and multi-index are recovered … -/
theorem faceAxis_faceNum (shape idx : List Nat) (a : Nat) (ha : a < shape.length)
    (hb : inBox (fshape shape a) idx = true) : faceAxis shape (faceNum shape a idx) = a := by
  have hlt := faceNum_lt shape idx a ha hb
  have sp := faceAxis_spec shape _ hlt
  have b := faceNum_bounds shape idx a hb
  exact axis_unique shape _ _ _ sp.2.1 sp.2.2 b.1 b.2

theorem faceIdx_faceNum (shape idx : List Nat) (a : Nat) (ha : a < shape.length)
    (hb : inBox (fshape shape a) idx = true) : faceIdx shape (faceNum shape a idx) = idx := by
  unfold faceIdx
  rw [faceAxis_faceNum shape idx a ha hb]
  have : faceNum shape a idx - offset shape a = encF (fshape shape a) idx := by simp [faceNum]
  rw [this, decF_encF _ _ hb]

/-- … and every number below `numFaces` is the number of exactly that face. -/
theorem faceIdx_inBox (shape : List Nat) (f : Nat) (hf : f < numFaces shape) :
    inBox (fshape shape (faceAxis shape f)) (faceIdx shape f) = true := by
  have sp := faceAxis_spec shape f hf
  apply decF_inBox
  have : offset shape (faceAxis shape f + 1) = offset shape (faceAxis shape f) + prodL (fshape shape (faceAxis shape f)) := rfl
  omega

theorem faceNum_faceIdx (shape : List Nat) (f : Nat) (hf : f < numFaces shape) :
    faceNum shape (faceAxis shape f) (faceIdx shape f) = f := by
  have sp := faceAxis_spec shape f hf
  have : offset shape (faceAxis shape f + 1) = offset shape (faceAxis shape f) + prodL (fshape shape (faceAxis shape f)) := rfl
  unfold faceNum faceIdx
  rw [encF_decF _ _ (by omega)]; omega

theorem inBox_of_fshape (shape idx : List Nat) (a : Nat) (ha : a < shape.length)
    (hb : inBox (fshape shape a) idx = true) : inBox shape idx = true :=
  ((inBox_fshape shape idx a ha).1 hb).1

theorem inBox_getD_lt (shape idx : List Nat) (a : Nat) (ha : a < shape.length) (h : inBox shape idx = true) :
    idx.getD a 0 < shape.getD a 0 := by
  induction shape generalizing a idx with
  | nil => simp at ha
  | cons n ns ih =>
    cases idx with
    | nil => simp [inBox] at h
    | cons i is =>
      simp only [inBox, Bool.and_eq_true, decide_eq_true_eq] at h
      cases a with
      | zero => simpa using h.1
      | succ a => simp only [List.getD_cons_succ]; exact ih is a (by simpa using ha) h.2

/-! ### assignment through index arrays -/

@[simp] theorem setAt_length {α : Type} (l : List α) (k : Nat) (v : α) : (setAt l k v).length = l.length := by
  induction l generalizing k with
  | nil => rfl
  | cons x xs ih => cases k <;> simp [setAt, ih]

theorem getD_setAt_self {α : Type} (l : List α) (k : Nat) (v d : α) (hk : k < l.length) :
    (setAt l k v).getD k d = v := by
  induction l generalizing k with
  | nil => simp at hk
  | cons x xs ih =>
    cases k with
    | zero => simp [setAt]
    | succ k => simp only [setAt, List.getD_cons_succ]; exact ih k (by simpa using hk)

theorem getD_setAt_ne {α : Type} (l : List α) (k j : Nat) (v d : α) (h : j ≠ k) :
    (setAt l k v).getD j d = l.getD j d := by
  induction l generalizing k j with
  | nil => rfl
  | cons x xs ih =>
    cases k with
    | zero =>
      cases j with
      | zero => exact absurd rfl h
      | succ j => simp [setAt]
    | succ k =>
      cases j with
      | zero => simp [setAt]
      | succ j => simp only [setAt, List.getD_cons_succ]; exact ih k j (by omega)

@[simp] theorem scatterN_length {α : Type} (tbl : List α) (κ : Nat → Nat) (ν : Nat → α) (n : Nat) :
    (scatterN tbl κ ν n).length = tbl.length := by
  induction n with
  | zero => rfl
  | succ n ih => simp [scatterN, ih]

/-- an entry whose index is not among the keys keeps its value -/
theorem scatterN_miss {α : Type} (tbl : List α) (κ : Nat → Nat) (ν : Nat → α) (n j : Nat) (d : α)
    (h : ∀ i, i < n → κ i ≠ j) : (scatterN tbl κ ν n).getD j d = tbl.getD j d := by
  induction n with
  | zero => rfl
  | succ n ih =>
    simp only [scatterN]
    rw [getD_setAt_ne _ _ _ _ _ (fun e => h n (by omega) e.symm)]
    exact ih fun i hi => h i (by omega)

/-- with pairwise distinct in-range keys, entry `κ i` receives `ν i` -/
theorem scatterN_hit {α : Type} (tbl : List α) (κ : Nat → Nat) (ν : Nat → α) (n i : Nat) (d : α)
    (hinj : ∀ i i', i < n → i' < n → κ i = κ i' → i = i') (hr : ∀ i, i < n → κ i < tbl.length) (hi : i < n) :
    (scatterN tbl κ ν n).getD (κ i) d = ν i := by
  induction n with
  | zero => omega
  | succ n ih =>
    simp only [scatterN]
    rcases Nat.lt_or_ge i n with h1 | h1
    · have hne : κ i ≠ κ n := fun e => by have := hinj i n (by omega) (by omega) e; omega
      rw [getD_setAt_ne _ _ _ _ _ hne]
      exact ih (fun a b ha hb => hinj a b (by omega) (by omega)) (fun a ha => hr a (by omega)) h1
    · have : i = n := by omega
      subst this
      exact getD_setAt_self _ _ _ _ (by rw [scatterN_length]; exact hr i (by omega))

@[simp] theorem accumN_length (tbl : List Rat) (κ : Nat → Nat) (ν : Nat → Rat) (n : Nat) :
    (accumN tbl κ ν n).length = tbl.length := by
  induction n with
  | zero => rfl
  | succ n ih => simp [accumN, ih]

end Darsia
