import DarsiaModel.CorrHeap
import Mathlib.Tactic.Ring
import Mathlib.Tactic.Linarith

namespace Darsia.CorrHeap

theorem runCA_spec (e : Eff) (h : Heap) (b t : Nat) :
    (runCA e h b t).1.next = h.next ∧
    (∀ i, i ≠ b → (runCA e h b t).1.buf i = h.buf i) ∧
    ((runCA e h b t).1.buf b).len = (h.buf b).len ∧
    (∀ k, ((runCA e h b t).1.buf b).get k = if k = t then e.after ((h.buf b).get t) else (h.buf b).get k) ∧
    (runCA e h b t).2 = e.result ((h.buf b).get t) := by
  unfold runCA
  cases hw : e.w with
  | none =>
    refine ⟨rfl, fun _ _ => rfl, rfl, ?_, rfl⟩
    intro k; simp only [Eff.after, hw]; split <;> simp_all
  | some w =>
    refine ⟨rfl, ?_, ?_, ?_, rfl⟩
    · intro i hi; simp [Heap.setSlice, hi]
    · simp [Heap.setSlice]
    · intro k; simp [Heap.setSlice]

/-- the operational per-slice loop equals the pointwise description: after n iterations slices < n of the source
buffer carry `after`, all other slices and buffers are untouched, and the collected results are `result` of the
ORIGINAL contents, in order. -/
theorem sliceLoop_spec (e : Eff) (h : Heap) (b n : Nat) :
    (sliceLoop e h b n).1.next = h.next ∧
    (∀ i, i ≠ b → (sliceLoop e h b n).1.buf i = h.buf i) ∧
    ((sliceLoop e h b n).1.buf b).len = (h.buf b).len ∧
    (∀ k, ((sliceLoop e h b n).1.buf b).get k = if k < n then e.after ((h.buf b).get k) else (h.buf b).get k) ∧
    (sliceLoop e h b n).2 = (List.range n).map (fun t => e.result ((h.buf b).get t)) := by
  induction n with
  | zero => simp [sliceLoop]
  | succ n ih =>
    obtain ⟨i1, i2, i3, i4, i5⟩ := ih
    have step : sliceLoop e h b (n + 1) =
        ((runCA e (sliceLoop e h b n).1 b n).1, (sliceLoop e h b n).2 ++ [(runCA e (sliceLoop e h b n).1 b n).2]) := by
      simp only [sliceLoop, List.range_succ, List.foldl_append, List.foldl_cons, List.foldl_nil]
    obtain ⟨r1, r2, r3, r4, r5⟩ := runCA_spec e (sliceLoop e h b n).1 b n
    rw [step]
    refine ⟨by simp only [r1, i1], fun i hi => by simp only [r2 i hi, i2 i hi], by simp only [r3, i3], ?_, ?_⟩
    · intro k
      simp only [r4 k, i4]
      by_cases hk : k = n
      · subst hk; simp
      · simp only [hk, if_false]
        by_cases hlt : k < n
        · simp [hlt, Nat.lt_succ_of_lt hlt]
        · have : ¬ k < n + 1 := by omega
          simp [hlt, this]
    · simp only [r5, i5, i4, List.range_succ, List.map_append, List.map_cons, List.map_nil, Nat.lt_irrefl, if_false]

theorem alloc_spec (h : Heap) (b : Buf) :
    (h.alloc b).2 = h.next ∧ (h.alloc b).1.buf h.next = b ∧ ∀ i, i ≠ h.next → (h.alloc b).1.buf i = h.buf i := by
  refine ⟨rfl, by simp [Heap.alloc], fun i hi => by simp [Heap.alloc, hi]⟩

end Darsia.CorrHeap
