/-
Invariant of the `KernelInterpolation` state machine: whenever interpolation weights exist they are
`Xinv(key) @ values` for the key of the CURRENT kernel and the CURRENT supports and the CURRENT values — after
every sequence of updates. Together with `interp_reproduces` (DarsiaProofs.SignalModels) this gives
reproduction of the values at the current supports whenever the current kernel matrix is invertible.
-/
import DarsiaModel.KernelInterp
import DarsiaProofs.SignalModels

namespace Darsia.Kern

/-- the cached inverse belongs to the current kernel and the current supports -/
def CacheOk (st : KState) : Prop :=
  ∀ key, st.cache = some key → key.1 = st.kernel ∧ st.supports = some key.2 ∧ st.numSupports = key.2.length

/-- the weights were computed with the cached inverse from the current values -/
def WeightsOk (st : KState) : Prop :=
  ∀ key vals, st.weights = some (key, vals) →
    st.cache = some key ∧ st.values = some vals ∧ vals.length = key.2.length

def Inv (st : KState) : Prop := CacheOk st ∧ WeightsOk st

/-- between the assignments of `update` and its final recomputation: either the recomputation will run, or
the weights are already right -/
def Pre (st : KState) : Prop :=
  CacheOk st ∧ ((st.supports.isSome ∧ st.values.isSome) ∨ WeightsOk st)

theorem inv_init (k : Nat) : Inv (init k) := by
  constructor <;> intro _ <;> simp [init]

theorem setup_ok {st st' : KState} {S : List Pt} {V : List Rat} (h : setup st S V = .ok st') :
    CacheOk st' ∧ st'.cache.isSome ∧ st'.values.isSome := by
  unfold setup at h
  split at h
  · cases h
  · injection h with h; subst h
    refine ⟨?_, by simp, by simp⟩
    intro key hk
    simp only [Option.some.injEq] at hk
    subst hk
    simp

theorem computeWeights_inv {st st' : KState} (hc : CacheOk st) (h : computeWeights st = .ok st') : Inv st' := by
  unfold computeWeights at h
  split at h
  · rename_i key vals hk hv
    split at h
    · rename_i hl
      injection h with h; subst h
      refine ⟨fun key' hk' => hc key' hk', ?_⟩
      intro key' vals' hw
      simp only [Option.some.injEq, Prod.mk.injEq] at hw
      obtain ⟨rfl, rfl⟩ := hw
      exact ⟨hk, hv, hl⟩
    · cases h
  · cases h

theorem ensureCache_ok {st st1 : KState} {S : List Pt} {V : List Rat} (hc : CacheOk st)
    (h : ensureCache st S V = .ok st1) : CacheOk st1 := by
  unfold ensureCache at h
  split at h
  · injection h with h; subst h; exact hc
  · exact (setup_ok h).1

theorem updateInterpolation_inv {st st' : KState} {S : List Pt} {V : List Rat} (hc : CacheOk st)
    (h : updateInterpolation st S V = .ok st') : Inv st' := by
  unfold updateInterpolation at h
  split at h
  · rename_i st1 h1
    exact computeWeights_inv (ensureCache_ok hc h1) h
  · cases h

theorem refresh_inv {st st' : KState} (hp : Pre st) (h : refresh st = .ok st') : Inv st' := by
  unfold refresh at h
  split at h
  · exact updateInterpolation_inv hp.1 h
  · rename_i hno
    injection h with h; subst h
    refine ⟨hp.1, ?_⟩
    rcases hp.2 with ⟨h1, h2⟩ | hw
    · exfalso
      cases hs : st.supports <;> cases hv : st.values <;> simp_all
    · exact hw

/-- weights can only exist together with supports and values -/
theorem Inv.data {st : KState} (hi : Inv st) {key : Key} {vals : List Rat} (hw : st.weights = some (key, vals)) :
    st.supports = some key.2 ∧ st.values = some vals := by
  obtain ⟨h1, h2, _⟩ := hi.2 key vals hw
  exact ⟨(hi.1 key h1).2.1, h2⟩

theorem setKernel_inv {st st' : KState} {k : Nat} (hi : Inv st) (h : setKernel st k = .ok st') : Inv st' := by
  unfold setKernel at h
  split at h
  · rename_i key hk
    refine refresh_inv ⟨?_, ?_⟩ h
    · intro key' hk'; simp at hk'
    · cases hw : st.weights with
      | none => right; intro key' vals' hw'; simp [hw] at hw'
      | some kv =>
        left
        obtain ⟨h1, h2⟩ := hi.data (key := kv.1) (vals := kv.2) (by simp [hw])
        simp [h1, h2]
  · rename_i hk
    injection h with h; subst h
    refine ⟨?_, ?_⟩
    · intro key' hk'; simp [hk] at hk'
    · intro key' vals' hw'
      have := (hi.2 key' vals' hw').1
      simp [hk] at this

theorem assignSupports_pre {st : KState} (hi : Inv st) (s? : Option (List Pt)) (append : Bool) :
    Pre (assignSupports st s? append) := by
  cases s? with
  | none => exact ⟨hi.1, Or.inr hi.2⟩
  | some B =>
    refine ⟨by intro key hk'; simp [assignSupports] at hk', ?_⟩
    cases hv : st.values with
    | some V => left; simp [assignSupports, hv]
    | none =>
      right
      intro key vals hw
      have := (hi.data (key := key) (vals := vals) (by simpa [assignSupports] using hw)).2
      simp [hv] at this

theorem assignValues_pre {st : KState} (hp : Pre st) (v? : Option (List Rat)) (append : Bool) :
    Pre (assignValues st v? append) := by
  cases v? with
  | none => exact hp
  | some v =>
    refine ⟨by intro key hk'; exact hp.1 key (by simpa [assignValues] using hk'), ?_⟩
    cases hs : st.supports with
    | some S => left; simp [assignValues, hs]
    | none =>
      right
      intro key vals hw
      have hw' : st.weights = some (key, vals) := by simpa [assignValues] using hw
      rcases hp.2 with ⟨h1, _⟩ | hw2
      · simp [hs] at h1
      · have hc := (hw2 key vals hw').1
        have := (hp.1 key hc).2.1
        simp [hs] at this

theorem step_inv {st st' : KState} {op : KOp} (hi : Inv st) (h : step st op = .ok st') : Inv st' := by
  cases op with
  | updateKernel k => exact setKernel_inv hi h
  | valuesParam ps =>
    refine refresh_inv ⟨?_, ?_⟩ h
    · intro key hk; exact hi.1 key hk
    · cases hs : st.supports with
      | some S => left; simp [hs]
      | none =>
        right
        intro key vals hw
        have := (hi.data (key := key) (vals := vals) hw).1
        simp [hs] at this
  | update k? s? v? append =>
    simp only [step] at h
    split at h
    · rename_i st1 hk
      have hi1 : Inv st1 := by
        cases k? with
        | none => simp only [optKernel] at hk; injection hk with hk; subst hk; exact hi
        | some k => exact setKernel_inv hi hk
      exact refresh_inv (assignValues_pre (assignSupports_pre hi1 s? append) v? append) h
    · cases h

theorem run_inv {st st' : KState} (ops : List KOp) (hi : Inv st) (h : run st ops = .ok st') : Inv st' := by
  induction ops generalizing st with
  | nil => simp only [run] at h; injection h with h; subst h; exact hi
  | cons op ops ih =>
    simp only [run] at h
    cases hs : step st op with
    | error e => simp [hs] at h
    | ok st1 => simp only [hs] at h; exact ih (step_inv hi hs) h

/-! ### from the invariant to reproduction -/

/-- kernel matrix of kernel `k` at the supports `S` (the code's assembly `X[i, j] = kernel(S[i], S[j])`) -/
def Kmat {F : Type} (kfun : Nat → Pt → Pt → F) (k : Nat) (S : List Pt) : Matrix (Fin S.length) (Fin S.length) F :=
  fun i j => kfun k (S.get i) (S.get j)

end Darsia.Kern

namespace Darsia.Kern

/-- the accumulation loop is the plain kernel sum (any commutative semiring, any kernel function) -/
theorem kernelLoop_eq_plainSum {F : Type} [CommSemiring F] (k : Pt → Pt → F) (ws : List F) (ss : List Pt) (x : Pt)
    (h : 0 < ws.length ∧ 0 < ss.length ∨ ws = [] ∨ ss = []) : kernelLoop k ws ss x = plainSum k ws ss x := by
  have fold : ∀ (l : List (F × Pt)) (acc : F),
      l.foldl (fun acc p => acc + p.1 * k x p.2) acc = acc + (l.map fun p => p.1 * k x p.2).foldr (· + ·) 0 := by
    intro l
    induction l with
    | nil => intro acc; simp
    | cons p l ih => intro acc; simp only [List.foldl_cons, List.map_cons, List.foldr_cons, ih]; ring
  cases ws with
  | nil => simp [kernelLoop, plainSum]
  | cons w0 ws =>
    cases ss with
    | nil => simp [kernelLoop, plainSum]
    | cons s0 ss => simp only [kernelLoop, plainSum, List.zip_cons_cons, List.map_cons, List.foldr_cons, fold]

/-- … for every supported signal shape: each pixel of the result is the plain kernel sum at that pixel -/
theorem combine_eq_plainSum {F : Type} [CommSemiring F] (k : Pt → Pt → F) (ws : List F) (ss : List Pt) (sig : Signal) :
    sig.combine k ws ss = sig.pixels.map (plainSum k ws ss) := by
  have h : ∀ x, kernelLoop k ws ss x = plainSum k ws ss x := by
    intro x
    apply kernelLoop_eq_plainSum
    cases ws with
    | nil => exact Or.inr (Or.inl rfl)
    | cons w ws => cases ss with
      | nil => exact Or.inr (Or.inr rfl)
      | cons s ss => exact Or.inl ⟨by simp, by simp⟩
  cases sig with
  | pixel x => simp [Signal.combine, Signal.pixels, h]
  | list xs => simp [Signal.combine, Signal.pixels, h]
  | grid rows =>
    simp only [Signal.combine, Signal.pixels, List.map_flatten]
    congr 1
    apply List.map_congr_left
    intro r _
    apply List.map_congr_left
    intro x _
    exact h x

end Darsia.Kern

namespace Darsia.Kern

/-! ### `np.unique(supports, axis=0)`: strictly increasing rows, hence distinct supports -/

theorem ltLex_irrefl : ∀ p : Pt, ltLex p p = false
  | [] => rfl
  | a :: as => by simp [ltLex, ltLex_irrefl as]

theorem ltLex_trans : ∀ p q r : Pt, ltLex p q = true → ltLex q r = true → ltLex p r = true
  | [], [], _, h, _ => by simp [ltLex] at h
  | [], _ :: _, [], _, h => by simp [ltLex] at h
  | [], _ :: _, _ :: _, _, _ => by simp [ltLex]
  | _ :: _, [], _, h, _ => by simp [ltLex] at h
  | _ :: _, _ :: _, [], _, h => by simp [ltLex] at h
  | a :: as, b :: bs, c :: cs, h1, h2 => by
    simp only [ltLex] at h1 h2 ⊢
    by_cases hab : a < b
    · by_cases hbc : b < c
      · simp [lt_trans hab hbc]
      · by_cases hcb : c < b
        · simp [hbc, hcb] at h2
        · have : b = c := le_antisymm (not_lt.mp hcb) (not_lt.mp hbc)
          subst this; simp [hab]
    · by_cases hba : b < a
      · simp [hab, hba] at h1
      · have hab' : a = b := le_antisymm (not_lt.mp hba) (not_lt.mp hab)
        subst hab'
        simp only [hab, if_false] at h1
        by_cases hac : a < c
        · simp [hac]
        · by_cases hca : c < a
          · simp [hac, hca] at h2
          · simp only [hac, hca, if_false] at h2 ⊢
            exact ltLex_trans as bs cs h1 h2

theorem ltLex_total : ∀ p q : Pt, p ≠ q → ltLex p q = true ∨ ltLex q p = true
  | [], [], h => absurd rfl h
  | [], _ :: _, _ => Or.inl (by simp [ltLex])
  | _ :: _, [], _ => Or.inr (by simp [ltLex])
  | a :: as, b :: bs, h => by
    simp only [ltLex]
    by_cases hab : a < b
    · left; simp [hab]
    · by_cases hba : b < a
      · right; simp [hba]
      · have : a = b := le_antisymm (not_lt.mp hba) (not_lt.mp hab)
        subst this
        have hne : as ≠ bs := fun e => h (by rw [e])
        simp only [hab, if_false]
        exact ltLex_total as bs hne

/-- rows strictly increasing in the lexicographic order -/
def RowsSorted (l : List (Pt × Nat)) : Prop := l.Pairwise (fun a b => ltLex a.1 b.1 = true)

theorem mem_insertRow (p : Pt) (i : Nat) (a : Pt × Nat) : ∀ l : List (Pt × Nat),
    a ∈ insertRow p i l → a = (p, i) ∨ a ∈ l
  | [], h => by simp [insertRow] at h; exact Or.inl h
  | (q, j) :: rest, h => by
    unfold insertRow at h
    split at h
    · exact Or.inr h
    · split at h
      · rcases List.mem_cons.mp h with rfl | h'
        · exact Or.inl rfl
        · exact Or.inr h'
      · rcases List.mem_cons.mp h with rfl | h'
        · exact Or.inr (by simp)
        · rcases mem_insertRow p i a rest h' with h'' | h''
          · exact Or.inl h''
          · exact Or.inr (by simp [h''])

theorem insertRow_sorted (p : Pt) (i : Nat) : ∀ l : List (Pt × Nat), RowsSorted l → RowsSorted (insertRow p i l)
  | [], _ => by simp [insertRow, RowsSorted]
  | (q, j) :: rest, h => by
    have hq := List.pairwise_cons.mp h
    unfold insertRow
    split
    · exact h
    · rename_i hne
      split
      · rename_i hlt
        refine List.pairwise_cons.mpr ⟨?_, h⟩
        intro a ha
        rcases List.mem_cons.mp ha with rfl | ha
        · exact hlt
        · exact ltLex_trans p q a.1 hlt (hq.1 a ha)
      · rename_i hnlt
        refine List.pairwise_cons.mpr ⟨?_, insertRow_sorted p i rest hq.2⟩
        intro a ha
        rcases mem_insertRow p i a rest ha with rfl | ha
        · rcases ltLex_total p q hne with h1 | h1
          · exact absurd h1 hnlt
          · exact h1
        · exact hq.1 a ha

theorem uniqueSortAux_sorted : ∀ (l : List Pt) (i : Nat) (acc : List (Pt × Nat)), RowsSorted acc →
    RowsSorted (uniqueSortAux l i acc)
  | [], _, _, h => h
  | p :: ps, i, acc, h => uniqueSortAux_sorted ps (i + 1) _ (insertRow_sorted p i acc h)

/-- the supports kept by `setup_kernel_problem` are pairwise distinct (strictly increasing rows) -/
theorem uniqueSort_nodup (l : List Pt) : ((uniqueSort l).map (·.1)).Nodup := by
  have h : RowsSorted (uniqueSort l) := uniqueSortAux_sorted l 0 [] List.Pairwise.nil
  have h2 : ((uniqueSort l).map (·.1)).Pairwise (fun a b => ltLex a b = true) := by
    rw [List.pairwise_map]; exact h
  exact h2.imp (fun {a b} hab e => by subst e; rw [ltLex_irrefl] at hab; cases hab)

end Darsia.Kern

namespace Darsia.Kern

/-- the cached kernel matrix is always over pairwise distinct supports -/
def DistinctOk (st : KState) : Prop := ∀ key, st.cache = some key → key.2.Nodup

theorem setup_distinct {st st' : KState} {S : List Pt} {V : List Rat} (h : setup st S V = .ok st') : DistinctOk st' := by
  unfold setup at h
  split at h
  · cases h
  · injection h with h; subst h
    intro key hk
    simp only [Option.some.injEq] at hk
    subst hk
    exact uniqueSort_nodup S

theorem computeWeights_distinct {st st' : KState} (hd : DistinctOk st) (h : computeWeights st = .ok st') : DistinctOk st' := by
  unfold computeWeights at h
  split at h
  · split at h
    · injection h with h; subst h; exact hd
    · cases h
  · cases h

theorem updateInterpolation_distinct {st st' : KState} {S : List Pt} {V : List Rat} (hd : DistinctOk st)
    (h : updateInterpolation st S V = .ok st') : DistinctOk st' := by
  unfold updateInterpolation at h
  split at h
  · rename_i st1 h1
    refine computeWeights_distinct ?_ h
    unfold ensureCache at h1
    split at h1
    · injection h1 with h1; subst h1; exact hd
    · exact setup_distinct h1
  · cases h

theorem refresh_distinct {st st' : KState} (hd : DistinctOk st) (h : refresh st = .ok st') : DistinctOk st' := by
  unfold refresh at h
  split at h
  · exact updateInterpolation_distinct hd h
  · injection h with h; subst h; exact hd

theorem setKernel_distinct {st st' : KState} {k : Nat} (hd : DistinctOk st) (h : setKernel st k = .ok st') : DistinctOk st' := by
  unfold setKernel at h
  split at h
  · exact refresh_distinct (by intro key hk; simp at hk) h
  · injection h with h; subst h; exact hd

theorem step_distinct {st st' : KState} {op : KOp} (hd : DistinctOk st) (h : step st op = .ok st') : DistinctOk st' := by
  cases op with
  | updateKernel k => exact setKernel_distinct hd h
  | valuesParam ps => exact refresh_distinct (by intro key hk; exact hd key hk) h
  | update k? s? v? append =>
    simp only [step] at h
    split at h
    · rename_i st1 hk
      have hd1 : DistinctOk st1 := by
        cases k? with
        | none => simp only [optKernel] at hk; injection hk with hk; subst hk; exact hd
        | some k => exact setKernel_distinct hd hk
      refine refresh_distinct ?_ h
      intro key hkey
      cases s? with
      | none =>
        cases v? <;> exact hd1 key (by simpa [assignValues, assignSupports] using hkey)
      | some B =>
        cases v? <;> simp [assignValues, assignSupports] at hkey
    · cases h

theorem run_distinct {st st' : KState} (ops : List KOp) (hd : DistinctOk st) (h : run st ops = .ok st') : DistinctOk st' := by
  induction ops generalizing st with
  | nil => simp only [run] at h; injection h with h; subst h; exact hd
  | cons op ops ih =>
    simp only [run] at h
    cases hs : step st op with
    | error e => simp [hs] at h
    | ok st1 => simp only [hs] at h; exact ih (step_distinct hd hs) h

end Darsia.Kern
