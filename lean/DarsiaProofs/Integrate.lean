/-
Lemmas for C03: effective voxel volumes, the cache invariant of `Geometry.integrate`.
-/
import DarsiaModel.Integrate
import DarsiaProofs.Resample
namespace Darsia

theorem areaW_id (N i j : Nat) (hN : 0 < N) : areaW N N i j = if i = j then 1 else 0 := by
  have := areaW_coarsen N 1 i j hN (by omega)
  simpa using this

theorem allPos_cons {n : Nat} {ns : List Nat} : allPos (n :: ns) = true ↔ 0 < n ∧ allPos ns = true := by
  simp [allPos]

theorem ratioProd_self (ns : List Nat) (h : allPos ns = true) : ratioProd ns ns = 1 := by
  induction ns with
  | nil => rfl
  | cons n ns ih =>
    rw [allPos_cons] at h
    have : (n : Rat) ≠ 0 := by have := h.1; positivity
    simp only [ratioProd, ih h.2]; field_simp

theorem ratioProd_mulShape (nv ms ks : List Nat) (h1 : nv.length = ms.length) (h2 : ms.length = ks.length)
    (hm : allPos ms = true) (hk : allPos ks = true) :
    ratioProd nv (mulShape ms ks) * (prodL ks : Rat) = ratioProd nv ms := by
  induction nv generalizing ms ks with
  | nil =>
    cases ms with
    | nil => cases ks with
      | nil => simp [ratioProd, mulShape, prodL]
      | cons k ks => simp at h2
    | cons m ms => simp at h1
  | cons n nv ih =>
    cases ms with
    | nil => simp at h1
    | cons m ms =>
      cases ks with
      | nil => simp at h2
      | cons k ks =>
        rw [allPos_cons] at hm hk
        have hmq : (m : Rat) ≠ 0 := by have := hm.1; positivity
        have hkq : (k : Rat) ≠ 0 := by have := hk.1; positivity
        have := ih ms ks (by simpa using h1) (by simpa using h2) hm.2 hk.2
        simp only [ratioProd, mulShape, prodL]
        rw [← this]; push_cast; field_simp

/-- at the native resolution the effective volume of a cell is the native volume of that cell -/
theorem overlap_id (ns : List Nat) (vf : List Nat → Rat) (idx : List Nat)
    (h : inBox ns idx = true) :
    sumBox ns (fun i => vf i * overlapW ns ns i idx) = vf idx := by
  induction ns generalizing vf idx with
  | nil =>
    cases idx with
    | nil => simp [sumBox, overlapW]
    | cons j js => simp [inBox] at h
  | cons n ns ih =>
    cases idx with
    | nil => simp [inBox] at h
    | cons j js =>
      simp only [inBox, Bool.and_eq_true, decide_eq_true_eq] at h
      have hn : 0 < n := by omega
      simp only [sumBox, overlapW]
      have h1 : ∀ i, sumBox ns (fun is => vf (i :: is) * (areaW n n i j * overlapW ns ns is js))
          = if i = j then vf (i :: js) else 0 := by
        intro i
        have := ih (fun is => vf (i :: is)) js h.2
        rw [areaW_id n i j hn]
        by_cases hij : i = j
        · simp only [hij, if_true]
          rw [← hij, ← this]
          apply sumBox_congr; intro is _; ring
        · simp only [hij, if_false]
          have h0 : (fun is => vf (i :: is) * (0 * overlapW ns ns is js)) = fun _ => (0 : Rat) := by
            funext is; ring
          rw [h0, sumBox_const]; simp
      simp only [h1]
      exact sumRange_delta n j (fun i => vf (i :: js)) h.1

/-- in 2-D, `cv2.resize(volume, INTER_AREA) * scaling` is the overlap-weighted sum of native volumes -/
theorem resize2_eq_overlap (n1 n2 m1 m2 : Nat) (hn1 : 0 < n1) (hn2 : 0 < n2) (hm1 : 0 < m1) (hm2 : 0 < m2)
    (vf : List Nat → Rat) (j1 j2 : Nat) :
    areaResize2 n1 n2 m1 m2 (fun a b => vf [a, b]) j1 j2 * ratioProd [n1, n2] [m1, m2]
      = sumBox [n1, n2] (fun i => vf i * overlapW [n1, n2] [m1, m2] i [j1, j2]) := by
  have q1 : (n1 : Rat) ≠ 0 := by positivity
  have q2 : (n2 : Rat) ≠ 0 := by positivity
  have q3 : (m1 : Rat) ≠ 0 := by positivity
  have q4 : (m2 : Rat) ≠ 0 := by positivity
  simp only [areaResize2, areaResample1, ratioProd, sumBox, overlapW]
  have hR : sumRange n1 (fun i1 => sumRange n2 fun i2 => vf [i1, i2] * (areaW n1 m1 i1 j1 * (areaW n2 m2 i2 j2 * 1)))
      = sumRange n1 (fun i1 => areaW n1 m1 i1 j1 * sumRange n2 fun i2 => areaW n2 m2 i2 j2 * vf [i1, i2]) := by
    apply sumRange_congr; intro i1 _
    rw [← sumRange_mul_left]
    apply sumRange_congr; intro i2 _; ring
  have hL : sumRange n1 (fun i1 => areaW n1 m1 i1 j1 * ((m2 : Rat) / n2 * sumRange n2 fun i2 => areaW n2 m2 i2 j2 * vf [i1, i2]))
      = (m2 : Rat) / n2 * sumRange n1 (fun i1 => areaW n1 m1 i1 j1 * sumRange n2 fun i2 => areaW n2 m2 i2 j2 * vf [i1, i2]) := by
    rw [← sumRange_mul_left]
    apply sumRange_congr; intro i1 _; ring
  rw [hR, hL]; field_simp

/-! ### the cache invariant -/

/-- invariant of the states reachable from a fresh object `g0`: the constructor data are untouched and an
array cache holds the effective volumes of its own resolution (outside 2-D it stays native) -/
def Inv (g0 g : Geo) : Prop :=
  g.dim = g0.dim ∧ g.numVoxels = g0.numVoxels ∧ g.vol = g0.vol ∧
  ∀ vshape vf, g0.vol = .array vshape vf →
    ∃ s cf, g.cached = .array s cf ∧ (g0.dim ≠ 2 → s = vshape) ∧
      ∀ idx, inBox s idx = true → cf idx = effVol g0 s idx

theorem weightedSums_eq_spec (g0 : Geo) (v : Vol) (d : Data)
    (h : ∀ idx, inBox d.shape idx = true → v.at idx = effVol g0 d.shape idx) :
    weightedSums v d = spec g0 d := by
  unfold weightedSums spec specAt
  apply List.map_congr_left
  intro c _
  apply sumBox_congr
  intro idx hidx
  rw [h idx hidx]

theorem inv_fresh (g0 : Geo) (hwf : g0.wf) (hf : g0.fresh) : Inv g0 g0 := by
  refine ⟨rfl, rfl, rfl, ?_⟩
  intro vshape vf hv
  unfold Geo.fresh at hf
  rw [hv] at hf
  cases hc : g0.cached with
  | scalar c => rw [hc] at hf; exact hf.elim
  | array t h =>
    rw [hc] at hf
    refine ⟨t, h, rfl, fun _ => hf.1, ?_⟩
    intro idx hidx
    rw [hf.2 idx, hf.1]
    simp only [effVol, hv]
    rw [hf.1] at hidx
    exact (overlap_id vshape vf idx hidx).symm

/-- one call from any reachable state returns what the constructor data and the call's data determine,
and leads to a reachable state -/
theorem step_canonical (g0 g : Geo) (d : Data) (hwf : g0.wf) (hinv : Inv g0 g) :
    (step true g d).2 = canonical g0 d ∧ Inv g0 (step true g d).1 := by
  obtain ⟨hdim, hnv, hvol, hc⟩ := hinv
  obtain ⟨hlen0, hpos, harr⟩ := hwf
  by_cases hl : d.shape.length ≠ g0.numVoxels.length
  · have : (integrate true g d) = .error .other := by simp [integrate, hnv, hl]
    refine ⟨?_, ?_⟩
    · simp only [step, this, canonical]; rw [if_pos hl]
    · simp only [step, this]; exact ⟨hdim, hnv, hvol, hc⟩
  · have hl' : d.shape.length = g0.numVoxels.length := by simpa using hl
    cases hv0 : g0.vol with
    | scalar v =>
      have hI : integrate true g d = .ok ({ g with cached := .scalar (v * ratioProd g0.numVoxels d.shape) },
          weightedSums (.scalar (v * ratioProd g0.numVoxels d.shape)) d) := by
        simp [integrate, hnv, hl', hvol, hv0]
      simp only [step, hI, canonical, hl, if_false, hv0, Vol.isArray]
      refine ⟨?_, hdim, hnv, hvol, ?_⟩
      · simp only [Bool.false_eq_true, false_and, if_false]
        congr 1
        apply weightedSums_eq_spec
        intro idx _
        simp [Vol.at, effVol, hv0]
      · intro vshape vf h; rw [hv0] at h; cases h
    | array vshape vf =>
      obtain ⟨s, cf, hcs, hs2, hcf⟩ := hc vshape vf hv0
      have hvs : vshape = g0.numVoxels := harr vshape vf hv0
      by_cases hsh : d.shape = s
      · -- cache hit
        have hl'' : s.length = g0.numVoxels.length := hsh ▸ hl'
        have hI : integrate true g d = .ok (g, weightedSums g.cached d) := by
          simp [integrate, hnv, hl'', hvol, hv0, hcs, Vol.shape, hsh]
        have hcan : canonical g0 d = .ok (spec g0 d) := by
          simp only [canonical, hl, if_false, hv0, Vol.isArray, true_and]
          have : ¬ (g0.dim ≠ 2 ∧ d.shape ≠ g0.numVoxels) := by
            intro ⟨h2, hne⟩
            exact hne (by rw [hsh, hs2 h2, hvs])
          simp [this]
        simp only [step, hI, hcan]
        refine ⟨?_, hdim, hnv, hvol, hc⟩
        congr 1
        apply weightedSums_eq_spec
        intro idx hidx
        rw [hcs]; simp only [Vol.at]
        rw [hsh] at hidx ⊢
        exact hcf idx hidx
      · by_cases h2 : g0.dim ≠ 2
        · -- foreign resolution outside 2-D: ValueError, state kept
          have hI : integrate true g d = .error .value := by
            simp [integrate, hnv, hl', hvol, hv0, hcs, Vol.shape, hsh, hdim, h2]
          have hne : d.shape ≠ g0.numVoxels := by
            intro e; exact hsh (by rw [e, hs2 h2, hvs])
          have hcan : canonical g0 d = .error .value := by
            simp [canonical, hl', hv0, Vol.isArray, h2, hne]
          constructor
          · simp only [step, hI, hcan]
          · simp only [step, hI]; exact ⟨hdim, hnv, hvol, hc⟩
        · -- 2-D: recompute the cache by area resampling
          have h2' : g0.dim = 2 := by simpa using h2
          have hnl : g0.numVoxels.length = 2 := by rw [hlen0, h2']
          obtain ⟨n1, n2, hn⟩ := List.length_eq_two.mp hnl
          obtain ⟨m1, m2, hm⟩ := List.length_eq_two.mp (hl'.trans hnl)
          have hvs' : vshape = [n1, n2] := by rw [hvs, hn]
          have hpn : 0 < n1 ∧ 0 < n2 := by
            rw [hn] at hpos; simp [allPos] at hpos; exact hpos
          let r : List Nat → Rat := fun idx => match idx with
            | [j1, j2] => areaResize2 n1 n2 m1 m2 (fun a b => vf [a, b]) j1 j2
            | _ => 0
          let c : Vol := .array d.shape fun idx => r idx * ratioProd g0.numVoxels d.shape
          have hsh' : ¬ [m1, m2] = s := hm ▸ hsh
          have hI : integrate true g d = .ok ({ g with cached := c }, weightedSums c d) := by
            simp [integrate, hnv, hvol, hv0, hcs, Vol.shape, hsh', hdim, h2', hvs', hm, resizeVol, c, r, hn]
            exact ⟨rfl, rfl⟩
          have hcan : canonical g0 d = .ok (spec g0 d) := by
            simp [canonical, hl', hv0, Vol.isArray, h2']
          have hkey : ∀ idx, inBox d.shape idx = true → c.at idx = effVol g0 d.shape idx := by
            intro idx hidx
            rw [hm] at hidx
            match idx, hidx with
            | [j1, j2], hidx =>
              simp only [inBox, Bool.and_eq_true, decide_eq_true_eq, and_true] at hidx
              have := resize2_eq_overlap n1 n2 m1 m2 hpn.1 hpn.2 (by omega) (by omega) vf j1 j2
              simp only [c, r, Vol.at, effVol, hv0, hvs', hm, hn]
              exact this
            | [], hidx => simp [inBox] at hidx
            | [_], hidx => simp [inBox] at hidx
            | _ :: _ :: _ :: _, hidx => simp [inBox] at hidx
          simp only [step, hI, hcan]
          refine ⟨?_, hdim, hnv, hvol, ?_⟩
          · congr 1; exact weightedSums_eq_spec g0 c d hkey
          · intro vshape' vf' hv'
            rw [hv0] at hv'; cases hv'
            exact ⟨d.shape, fun idx => r idx * ratioProd g0.numVoxels d.shape, rfl, fun h => (h2 h).elim, hkey⟩

theorem inv_after (g0 : Geo) (hwf : g0.wf) (g : Geo) (hinv : Inv g0 g) (ops : List Data) :
    Inv g0 (after true g ops) := by
  induction ops generalizing g with
  | nil => exact hinv
  | cons d ds ih =>
    simp only [after, List.foldl_cons]
    exact ih _ (step_canonical g0 g d hwf hinv).2

theorem runOuts_append (r : Bool) (g : Geo) (ops : List Data) (d : Data) :
    runOuts r g (ops ++ [d]) = runOuts r g ops ++ [(step r (after r g ops) d).2] := by
  induction ops generalizing g with
  | nil => simp [runOuts, after]
  | cons x xs ih => simp [runOuts, after, ih]

theorem listGetD_map_range (n c : Nat) (f : Nat → Rat) (h : c < n) :
    listGetD ((List.range n).map f) c 0 = f c := by
  simp [listGetD, h]

/-! ### sum manipulation for the resolution theorems -/

theorem sumRange_delta' (n j : Nat) (g : Nat → Rat) (hj : j < n) :
    sumRange n (fun i => if j = i then g i else 0) = g j := by
  rw [← sumRange_delta n j g hj]
  apply sumRange_congr; intro i _
  by_cases h : i = j
  · simp [h]
  · have : ¬ j = i := fun e => h e.symm
    simp [h, this]

theorem sum4_swap (a b c d : Nat) (t : Nat → Nat → Nat → Nat → Rat) :
    sumRange a (fun x => sumRange b fun y => sumRange c fun z => sumRange d fun w => t x y z w)
      = sumRange c (fun z => sumRange d fun w => sumRange a fun x => sumRange b fun y => t x y z w) := by
  calc sumRange a (fun x => sumRange b fun y => sumRange c fun z => sumRange d fun w => t x y z w)
      = sumRange a (fun x => sumRange c fun z => sumRange b fun y => sumRange d fun w => t x y z w) := by
        apply sumRange_congr; intro x _
        exact sumRange_comm b c (fun y z => sumRange d fun w => t x y z w)
    _ = sumRange c (fun z => sumRange a fun x => sumRange b fun y => sumRange d fun w => t x y z w) :=
        sumRange_comm a c (fun x z => sumRange b fun y => sumRange d fun w => t x y z w)
    _ = sumRange c (fun z => sumRange a fun x => sumRange d fun w => sumRange b fun y => t x y z w) := by
        apply sumRange_congr; intro z _; apply sumRange_congr; intro x _
        exact sumRange_comm b d (fun y w => t x y z w)
    _ = sumRange c (fun z => sumRange d fun w => sumRange a fun x => sumRange b fun y => t x y z w) := by
        apply sumRange_congr; intro z _
        exact sumRange_comm a d (fun x w => sumRange b fun y => t x y z w)

/-- two nested indicator sums pick out one entry -/
theorem sum2_pick (m1 m2 p1 p2 : Nat) (h1 : p1 < m1) (h2 : p2 < m2) (V : Rat) (B : Nat → Nat → Rat) :
    sumRange m1 (fun J1 => sumRange m2 fun J2 =>
        V * ((if p1 = J1 then (1 : Rat) else 0) * ((if p2 = J2 then (1 : Rat) else 0) * 1)) * B J1 J2)
      = V * B p1 p2 := by
  have inner : ∀ J1, sumRange m2 (fun J2 =>
        V * ((if p1 = J1 then (1 : Rat) else 0) * ((if p2 = J2 then (1 : Rat) else 0) * 1)) * B J1 J2)
      = if p1 = J1 then V * B J1 p2 else 0 := by
    intro J1
    by_cases h : p1 = J1
    · simp only [h, if_true]
      rw [← sumRange_delta' m2 p2 (fun J2 => V * B J1 J2) h2]
      apply sumRange_congr; intro J2 _
      by_cases h' : p2 = J2 <;> simp [h']
    · simp only [h, if_false]
      refine (sumRange_congr (g := fun _ => 0) ?_).trans (sumRange_zero m2)
      intro J2 _; ring
  simp only [inner]
  exact sumRange_delta' m1 p1 (fun J1 => V * B J1 p2) h1

theorem sumRange_sumBox_comm (n : Nat) (t : List Nat) (G : Nat → List Nat → Rat) :
    sumRange n (fun i => sumBox t (G i)) = sumBox t (fun b => sumRange n fun i => G i b) := by
  induction t generalizing G with
  | nil => simp [sumBox]
  | cons m t ih =>
    simp only [sumBox]
    rw [sumRange_comm]
    apply sumRange_congr; intro j _
    exact ih (fun i bs => G i (j :: bs))

theorem sumBox_comm (s t : List Nat) (f : List Nat → List Nat → Rat) :
    sumBox s (fun a => sumBox t fun b => f a b) = sumBox t (fun b => sumBox s fun a => f a b) := by
  induction s generalizing f with
  | nil => simp [sumBox]
  | cons n s ih =>
    simp only [sumBox]
    have : ∀ i, sumBox s (fun as => sumBox t fun b => f (i :: as) b)
        = sumBox t (fun b => sumBox s fun as => f (i :: as) b) := fun i => ih (fun as b => f (i :: as) b)
    simp only [this]
    exact sumRange_sumBox_comm n t (fun i b => sumBox s fun as => f (i :: as) b)

/-- the data cells tile the geometry: the fractions of a native voxel over all data cells add up to 1 -/
theorem overlapW_sum_dst (ns ms i : List Nat) (hlen : ns.length = ms.length) (hm : allPos ms = true)
    (hi : inBox ns i = true) : sumBox ms (fun idx => overlapW ns ms i idx) = 1 := by
  induction ns generalizing ms i with
  | nil =>
    cases ms with
    | nil => simp [sumBox, overlapW]
    | cons m ms => simp at hlen
  | cons n ns ih =>
    cases ms with
    | nil => simp at hlen
    | cons m ms =>
      cases i with
      | nil => simp [inBox] at hi
      | cons i0 is =>
        rw [allPos_cons] at hm
        simp only [inBox, Bool.and_eq_true, decide_eq_true_eq] at hi
        simp only [sumBox, overlapW]
        have : ∀ j, sumBox ms (fun js => areaW n m i0 j * overlapW ns ms is js) = areaW n m i0 j := by
          intro j
          rw [sumBox_mul_left, ih ms is (by simpa using hlen) hm.2 hi.2]; ring
        simp only [this]
        exact areaW_sum_dst n m i0 hm.1 hi.1

theorem prodL_ratioProd (ns ms : List Nat) (hlen : ns.length = ms.length) (hm : allPos ms = true) :
    (prodL ms : Rat) * ratioProd ns ms = (prodL ns : Rat) := by
  induction ns generalizing ms with
  | nil =>
    cases ms with
    | nil => simp [prodL, ratioProd]
    | cons m ms => simp at hlen
  | cons n ns ih =>
    cases ms with
    | nil => simp at hlen
    | cons m ms =>
      rw [allPos_cons] at hm
      have hmq : (m : Rat) ≠ 0 := by have := hm.1; positivity
      have := ih ms (by simpa using hlen) hm.2
      simp only [prodL, ratioProd]; push_cast
      rw [← this]; field_simp

/-! ### array volumes at integer-factor resolutions, any dimension -/

theorem sumBox_delta (ms : List Nat) : ∀ (P : List Nat) (G : List Nat → Rat), inBox ms P = true →
    sumBox ms (fun J => if P = J then G J else 0) = G P := by
  induction ms with
  | nil =>
    intro P G h
    cases P with
    | nil => simp [sumBox]
    | cons p ps => simp [inBox] at h
  | cons m ms ih =>
    intro P G h
    cases P with
    | nil => simp [inBox] at h
    | cons p ps =>
      simp only [inBox, Bool.and_eq_true, decide_eq_true_eq] at h
      simp only [sumBox]
      have inner : ∀ j, sumBox ms (fun Js => if p :: ps = j :: Js then G (j :: Js) else 0)
          = if p = j then G (j :: ps) else 0 := by
        intro j
        by_cases hj : p = j
        · subst hj
          simp only [List.cons.injEq, true_and, if_true]
          exact ih ps (fun Js => G (p :: Js)) h.2
        · simp only [List.cons.injEq, hj, false_and, if_false]
          rw [sumBox_const]; ring
      simp only [inner]
      exact sumRange_delta' m p (fun j => G (j :: ps)) h.1

theorem inBox_length : ∀ (s idx : List Nat), inBox s idx = true → idx.length = s.length := by
  intro s
  induction s with
  | nil => intro idx h; cases idx with
    | nil => rfl
    | cons a b => simp [inBox] at h
  | cons n ns ih => intro idx h; cases idx with
    | nil => simp [inBox] at h
    | cons a b =>
      simp only [inBox, Bool.and_eq_true] at h
      simp [ih b h.2]

theorem inBox_divIdx : ∀ (ms ks i : List Nat), ms.length = ks.length → allPos ks = true →
    inBox (mulShape ms ks) i = true → inBox ms (divIdx i ks) = true := by
  intro ms
  induction ms with
  | nil => intro ks i hl _ h; cases ks with
    | nil => cases i with
      | nil => rfl
      | cons a b => simp [mulShape, inBox] at h
    | cons k ks => simp at hl
  | cons m ms ih =>
    intro ks i hl hk h
    cases ks with
    | nil => simp at hl
    | cons k ks =>
      cases i with
      | nil => simp [mulShape, inBox] at h
      | cons a b =>
        rw [allPos_cons] at hk
        simp only [mulShape, inBox, Bool.and_eq_true, decide_eq_true_eq] at h
        simp only [divIdx, inBox, Bool.and_eq_true, decide_eq_true_eq]
        exact ⟨(Nat.div_lt_iff_lt_mul hk.1).mpr h.1, ih ks b (by simpa using hl) hk.2 h.2⟩

/-- coarsening by integer factors: a native voxel lies entirely in the data cell that contains it -/
theorem overlapW_coarsen : ∀ (ms ks i J : List Nat), ms.length = ks.length → allPos ms = true → allPos ks = true →
    i.length = ms.length → J.length = ms.length →
    overlapW (mulShape ms ks) ms i J = if divIdx i ks = J then 1 else 0 := by
  intro ms
  induction ms with
  | nil =>
    intro ks i J hl _ _ hi hJ
    cases ks with
    | nil =>
      have : i = [] := List.eq_nil_of_length_eq_zero (by simpa using hi)
      have : J = [] := List.eq_nil_of_length_eq_zero (by simpa using hJ)
      subst_vars; simp [overlapW, mulShape, divIdx]
    | cons k ks => simp at hl
  | cons m ms ih =>
    intro ks i J hl hm hk hi hJ
    cases ks with
    | nil => simp at hl
    | cons k ks =>
      cases i with
      | nil => simp at hi
      | cons a b =>
        cases J with
        | nil => simp at hJ
        | cons c e =>
          rw [allPos_cons] at hm hk
          simp only [mulShape, overlapW, divIdx]
          rw [areaW_coarsen m k a c hm.1 hk.1,
            ih ks b e (by simpa using hl) hm.2 hk.2 (by simpa using hi) (by simpa using hJ)]
          simp only [List.cons.injEq]
          by_cases h1 : a / k = c <;> by_cases h2 : divIdx b ks = e <;> simp [h1, h2]

/-- refinement by integer factors: each data cell takes `1/Πk` of the native voxel it lies in -/
theorem overlapW_refine : ∀ (ns ks i j : List Nat), ns.length = ks.length → allPos ns = true → allPos ks = true →
    i.length = ns.length → j.length = ns.length →
    overlapW ns (mulShape ns ks) i j = if divIdx j ks = i then 1 / (prodL ks : Rat) else 0 := by
  intro ns
  induction ns with
  | nil =>
    intro ks i j hl _ _ hi hj
    cases ks with
    | nil =>
      have : i = [] := List.eq_nil_of_length_eq_zero (by simpa using hi)
      have : j = [] := List.eq_nil_of_length_eq_zero (by simpa using hj)
      subst_vars; simp [overlapW, mulShape, divIdx, prodL]
    | cons k ks => simp at hl
  | cons n ns ih =>
    intro ks i j hl hn hk hi hj
    cases ks with
    | nil => simp at hl
    | cons k ks =>
      cases i with
      | nil => simp at hi
      | cons a b =>
        cases j with
        | nil => simp at hj
        | cons c e =>
          rw [allPos_cons] at hn hk
          have hkq : (k : Rat) ≠ 0 := by have := hk.1; positivity
          simp only [mulShape, overlapW, divIdx, prodL]
          rw [areaW_refine n k a c hn.1 hk.1,
            ih ks b e (by simpa using hl) hn.2 hk.2 (by simpa using hi) (by simpa using hj)]
          simp only [List.cons.injEq]
          by_cases h1 : c / k = a <;> by_cases h2 : divIdx e ks = b <;> simp [h1, h2]
          push_cast; field_simp

theorem mulShape_length (ms ks : List Nat) (h : ms.length = ks.length) : (mulShape ms ks).length = ms.length := by
  induction ms generalizing ks with
  | nil => cases ks <;> simp [mulShape]
  | cons m ms ih =>
    cases ks with
    | nil => simp at h
    | cons k ks => simp [mulShape, ih ks (by simpa using h)]

theorem allPos_mulShape (ms ks : List Nat) (h : ms.length = ks.length) (hm : allPos ms = true) (hk : allPos ks = true) :
    allPos (mulShape ms ks) = true := by
  induction ms generalizing ks with
  | nil => cases ks <;> simp [mulShape, allPos]
  | cons m ms ih =>
    cases ks with
    | nil => simp at h
    | cons k ks =>
      rw [allPos_cons] at hm hk
      simp only [mulShape, allPos_cons]
      exact ⟨Nat.mul_pos hm.1 hk.1, ih ks (by simpa using h) hm.2 hk.2⟩

/-! ### mixed resolutions: every axis either coarsened or refined by an integer factor -/

/-- per axis at most one of the two factors differs from 1 -/
def pureAxes : List Nat → List Nat → Bool
  | a :: as, b :: bs => (decide (a = 1) || decide (b = 1)) && pureAxes as bs
  | [], [] => true
  | _, _ => false

theorem areaW_mixed (B kn kd i j : Nat) (hB : 0 < B) (hn : 0 < kn) (hd : 0 < kd) (h : kn = 1 ∨ kd = 1) :
    areaW (B * kn) (B * kd) i j = if i / kn = j / kd then 1 / (kd : Rat) else 0 := by
  rcases h with h | h
  · subst h
    have := areaW_refine B kd i j hB hd
    simp only [Nat.mul_one, Nat.div_one] at this ⊢
    rw [this]
    by_cases e : j / kd = i
    · simp [e]
    · have e' : ¬ i = j / kd := fun x => e x.symm
      simp [e, e']
  · subst h
    have := areaW_coarsen B kn i j hB hn
    simp only [Nat.mul_one, Nat.div_one] at this ⊢
    rw [this]; simp

theorem overlapW_mixed : ∀ (B kn kd i j : List Nat), B.length = kn.length → B.length = kd.length →
    allPos B = true → allPos kn = true → allPos kd = true → pureAxes kn kd = true →
    i.length = B.length → j.length = B.length →
    overlapW (mulShape B kn) (mulShape B kd) i j = if divIdx i kn = divIdx j kd then 1 / (prodL kd : Rat) else 0 := by
  intro B
  induction B with
  | nil =>
    intro kn kd i j h1 h2 _ _ _ _ hi hj
    cases kn with
    | nil => cases kd with
      | nil =>
        have : i = [] := List.eq_nil_of_length_eq_zero (by simpa using hi)
        have : j = [] := List.eq_nil_of_length_eq_zero (by simpa using hj)
        subst_vars; simp [overlapW, mulShape, divIdx, prodL]
      | cons k ks => simp at h2
    | cons k ks => simp at h1
  | cons b B ih =>
    intro kn kd i j h1 h2 hB hn hd hp hi hj
    cases kn with
    | nil => simp at h1
    | cons n kn =>
      cases kd with
      | nil => simp at h2
      | cons dd kd =>
        cases i with
        | nil => simp at hi
        | cons a as =>
          cases j with
          | nil => simp at hj
          | cons c cs =>
            rw [allPos_cons] at hB hn hd
            simp only [pureAxes, Bool.and_eq_true, Bool.or_eq_true, decide_eq_true_eq] at hp
            have hdq : (dd : Rat) ≠ 0 := by have := hd.1; positivity
            simp only [mulShape, overlapW, divIdx, prodL]
            rw [areaW_mixed b n dd a c hB.1 hn.1 hd.1 hp.1,
              ih kn kd as cs (by simpa using h1) (by simpa using h2) hB.2 hn.2 hd.2 hp.2 (by simpa using hi) (by simpa using hj)]
            simp only [List.cons.injEq]
            by_cases e1 : a / n = c / dd <;> by_cases e2 : divIdx as kn = divIdx cs kd <;> simp [e1, e2]
            push_cast; field_simp

end Darsia
