import DarsiaModel.Pipeline
import Mathlib.Algebra.Order.Field.Rat
import Mathlib.Tactic.Linarith
namespace Darsia.Pipeline

theorem posPart_zero : posPart 0 = 0 := by simp [posPart]
theorem absR_zero : absR 0 = 0 := by simp [absR]

theorem posPart_nonneg (x : Rat) : 0 ≤ posPart x := by
  unfold posPart; split <;> simp_all

theorem pos_add_neg (p b : Rat) : posPart (p - b) + posPart (b - p) = absR (p - b) := by
  unfold posPart absR
  split_ifs <;> linarith

theorem pos_sub_neg (p b : Rat) : posPart (p - b) - posPart (b - p) = p - b := by
  unfold posPart
  split_ifs <;> linarith

theorem val_self (o : DiffOpt) (x : Rat) : o.val x x = 0 := by
  cases o <;> simp [DiffOpt.val, posPart, absR]

theorem posPart_sub_nonneg {t : Rat} (ht : 0 ≤ t) : posPart (0 - t) = 0 := by
  unfold posPart
  split_ifs with h
  · linarith
  · rfl

theorem zipWith_zipWith {α β γ δ ε} (f : γ → δ → ε) (g : α → β → γ) (h : α → β → δ) :
    ∀ (p : List α) (b : List β),
      List.zipWith f (List.zipWith g p b) (List.zipWith h p b) = List.zipWith (fun x y => f (g x y) (h x y)) p b
  | [], _ => by simp
  | _ :: _, [] => by simp
  | x :: p, y :: b => by simp [zipWith_zipWith f g h p b]

/-- element-wise combination of two arrays -/
def arrZip (f : Rat → Rat → Rat) (a b : Arr) : Arr :=
  { scalar := a.scalar, px := List.zipWith (fun p q => List.zipWith f p q) a.px b.px }

theorem diff_combine (f : Rat → Rat → Rat) (o1 o2 o3 : DiffOpt)
    (hf : ∀ p b, f (o1.val p b) (o2.val p b) = o3.val p b) (base probe : Arr) :
    arrZip f (diff o1 base probe) (diff o2 base probe) = diff o3 base probe := by
  unfold arrZip diff
  simp only [Arr.mk.injEq, true_and]
  rw [zipWith_zipWith]
  congr 1
  funext p b
  rw [zipWith_zipWith]
  congr 1
  funext x y
  exact hf x y

theorem mem_zipWith' {α β γ} (f : α → β → γ) : ∀ (l : List α) (t : List β) (p : γ),
    p ∈ List.zipWith f l t → ∃ q ∈ l, ∃ u ∈ t, p = f q u
  | [], _, p, h => by simp at h
  | _ :: _, [], p, h => by simp at h
  | a :: l, b :: t, p, h => by
    simp only [List.zipWith_cons_cons, List.mem_cons] at h
    rcases h with h | h
    · exact ⟨a, by simp, b, by simp, h⟩
    · obtain ⟨q, hq, u, hu, e⟩ := mem_zipWith' f l t p h
      exact ⟨q, by simp [hq], u, by simp [hu], e⟩

theorem mem_zipWith_self {α γ} (f : α → α → γ) : ∀ (l : List α) (p : γ),
    p ∈ List.zipWith f l l → ∃ q ∈ l, p = f q q
  | [], p, h => by simp at h
  | a :: l, p, h => by
    simp only [List.zipWith_cons_cons, List.mem_cons] at h
    rcases h with h | h
    · exact ⟨a, by simp, h⟩
    · obtain ⟨q, hq, e⟩ := mem_zipWith_self f l p h
      exact ⟨q, by simp [hq], e⟩

theorem diff_self_zero (o : DiffOpt) (b : Arr) : IsZero (diff o b b) := by
  intro p hp x hx
  simp only [diff] at hp
  obtain ⟨q, _, rfl⟩ := mem_zipWith_self _ _ _ hp
  obtain ⟨y, _, rfl⟩ := mem_zipWith_self _ _ _ hx
  exact val_self o y

/-- all entries of a threshold are non-negative -/
def NonNeg (t : List Rat) : Prop := ∀ x ∈ t, 0 ≤ x

theorem maxWith_nonneg (thr : List Rat) (a : Arr) (h : NonNeg thr) : NonNeg (maxWith thr a) := by
  unfold maxWith
  generalize a.px = l
  induction thr generalizing l with
  | nil => intro x hx; simp at hx
  | cons t thr ih =>
    cases l with
    | nil => intro x hx; simp at hx
    | cons p l =>
      intro x hx
      simp only [List.zipWith_cons_cons, List.mem_cons] at hx
      have ht : 0 ≤ t := h t (by simp)
      rcases hx with hx | hx
      · rw [hx]; split_ifs with hle
        · exact le_trans ht hle
        · exact ht
      · exact ih (fun y hy => h y (by simp [hy])) l x hx

theorem foldl_maxWith_nonneg (f : Arr → Arr) : ∀ (extras : List Arr) (thr : List Rat), NonNeg thr →
    NonNeg (extras.foldl (fun thr b => maxWith thr (f b)) thr)
  | [], thr, h => h
  | b :: extras, thr, h => foldl_maxWith_nonneg f extras _ (maxWith_nonneg thr (f b) h)

theorem cleaningFilter_nonneg (c : Config) (base : Arr) (extras : List Arr) (t : List Rat)
    (h : cleaningFilter c base extras = some t) : NonNeg t := by
  unfold cleaningFilter at h
  split at h
  · contradiction
  · cases h
    apply foldl_maxWith_nonneg
    intro x hx
    simp [List.mem_replicate] at hx
    rw [hx.2]

theorem clean_zero (t : List Rat) (ht : NonNeg t) (a : Arr) (ha : IsZero a) : IsZero (clean t a) := by
  intro p hp x hx
  simp only [clean] at hp
  obtain ⟨q, hq, u, hu, rfl⟩ := mem_zipWith' _ _ _ _ hp
  simp only [List.mem_map] at hx
  obtain ⟨y, hy, rfl⟩ := hx
  rw [ha q hq y hy]
  exact posPart_sub_nonneg (ht u hu)

theorem runStages_zero : ∀ (l : List (StageName × Stage)) (a : Arr),
    (∀ s ∈ l, ∀ x, IsZero x → IsZero (s.2 x).1) → IsZero a → IsZero (runStages l a).1
  | [], a, _, ha => ha
  | (n, s) :: rest, a, h, ha => by
    simp only [runStages]
    exact runStages_zero rest _ (fun s' hs' => h s' (by simp [hs'])) (h (n, s) (by simp) a ha)

theorem runStages_names : ∀ (l : List (StageName × Stage)) (a : Arr),
    (runStages l a).2.map Prod.fst = l.map Prod.fst
  | [], _ => rfl
  | (n, s) :: rest, a => by simp [runStages, runStages_names rest]

theorem runStages_out : ∀ (l : List (StageName × Stage)) (a : Arr),
    (runStages l a).1 = l.foldl (fun x s => (s.2 x).1) a
  | [], _ => rfl
  | (n, s) :: rest, a => by simp [runStages, runStages_out rest]

/-- the array recorded for the `i`-th stage is the output of the stages before it -/
theorem runStages_inputs : ∀ (l : List (StageName × Stage)) (a : Arr) (i : Nat), i < l.length →
    ((runStages l a).2[i]?).map Prod.snd = some ((l.take i).foldl (fun x s => (s.2 x).1) a)
  | [], _, i, h => by simp at h
  | (n, s) :: rest, a, 0, _ => by simp [runStages]
  | (n, s) :: rest, a, i + 1, h => by
    simp only [runStages, List.getElem?_cons_succ, List.take_succ_cons, List.foldl_cons]
    exact runStages_inputs rest _ i (by simpa using h)

end Darsia.Pipeline
