import DarsiaModel.Pipeline
import Mathlib.Algebra.Order.Field.Rat
import Mathlib.Tactic.Linarith
namespace Darsia.Pipeline

theorem posPart_zero : posPart 0 = 0 := by simp [posPart]
theorem absR_zero : absR 0 = 0 := by simp [absR]

theorem posPart_nonneg (x : Rat) : 0 ≤ posPart x := by
  unfold posPart; split <;> simp_all

theorem pos_add_neg (p b : Rat) : posPart (p - b) + posPart (b - p) = absR (p - b) := by
  unfold posPart absR
  split_ifs <;> linarith

theorem pos_sub_neg (p b : Rat) : posPart (p - b) - posPart (b - p) = p - b := by
  unfold posPart
  split_ifs <;> linarith

theorem val_self (o : DiffOpt) (x : Rat) : o.val x x = 0 := by
  cases o <;> simp [DiffOpt.val, posPart, absR]

theorem posPart_sub_nonneg {t : Rat} (ht : 0 ≤ t) : posPart (0 - t) = 0 := by
  unfold posPart
  split_ifs with h
  · linarith
  · rfl

theorem zipWith_zipWith {α β γ δ ε} (f : γ → δ → ε) (g : α → β → γ) (h : α → β → δ) :
    ∀ (p : List α) (b : List β),
      List.zipWith f (List.zipWith g p b) (List.zipWith h p b) = List.zipWith (fun x y => f (g x y) (h x y)) p b
  | [], _ => by simp
  | _ :: _, [] => by simp
  | x :: p, y :: b => by simp [zipWith_zipWith f g h p b]

/-- element-wise combination of two arrays -/
def arrZip (f : Rat → Rat → Rat) (a b : Arr) : Arr :=
  { scalar := a.scalar, px := List.zipWith (fun p q => List.zipWith f p q) a.px b.px }

theorem diff_combine (f : Rat → Rat → Rat) (o1 o2 o3 : DiffOpt)
    (hf : ∀ p b, f (o1.val p b) (o2.val p b) = o3.val p b) (base probe : Arr) :
    arrZip f (diff o1 base probe) (diff o2 base probe) = diff o3 base probe := by
  unfold arrZip diff
  simp only [Arr.mk.injEq, true_and]
  rw [zipWith_zipWith]
  congr 1
  funext p b
  rw [zipWith_zipWith]
  congr 1
  funext x y
  exact hf x y

theorem mem_zipWith' {α β γ} (f : α → β → γ) : ∀ (l : List α) (t : List β) (p : γ),
    p ∈ List.zipWith f l t → ∃ q ∈ l, ∃ u ∈ t, p = f q u
  | [], _, p, h => by simp at h
  | _ :: _, [], p, h => by simp at h
  | a :: l, b :: t, p, h => by
    simp only [List.zipWith_cons_cons, List.mem_cons] at h
    rcases h with h | h
    · exact ⟨a, by simp, b, by simp, h⟩
    · obtain ⟨q, hq, u, hu, e⟩ := mem_zipWith' f l t p h
      exact ⟨q, by simp [hq], u, by simp [hu], e⟩

theorem mem_zipWith_self {α γ} (f : α → α → γ) : ∀ (l : List α) (p : γ),
    p ∈ List.zipWith f l l → ∃ q ∈ l, p = f q q
  | [], p, h => by simp at h
  | a :: l, p, h => by
    simp only [List.zipWith_cons_cons, List.mem_cons] at h
    rcases h with h | h
    · exact ⟨a, by simp, h⟩
    · obtain ⟨q, hq, e⟩ := mem_zipWith_self f l p h
      exact ⟨q, by simp [hq], e⟩

theorem diff_self_zero (o : DiffOpt) (b : Arr) : IsZero (diff o b b) := by
  intro p hp x hx
  simp only [diff] at hp
  obtain ⟨q, _, rfl⟩ := mem_zipWith_self _ _ _ hp
  obtain ⟨y, _, rfl⟩ := mem_zipWith_self _ _ _ hx
  exact val_self o y

/-- all entries of a threshold are non-negative -/
def NonNeg (t : List Rat) : Prop := ∀ x ∈ t, 0 ≤ x

theorem maxWith_nonneg (thr : List Rat) (a : Arr) (h : NonNeg thr) : NonNeg (maxWith thr a) := by
  unfold maxWith
  generalize a.px = l
  induction thr generalizing l with
  | nil => intro x hx; simp at hx
  | cons t thr ih =>
    cases l with
    | nil => intro x hx; simp at hx
    | cons p l =>
      intro x hx
      simp only [List.zipWith_cons_cons, List.mem_cons] at hx
      have ht : 0 ≤ t := h t (by simp)
      rcases hx with hx | hx
      · rw [hx]; split_ifs with hle
        · exact le_trans ht hle
        · exact ht
      · exact ih (fun y hy => h y (by simp [hy])) l x hx

theorem foldl_maxWith_nonneg (f : Arr → Arr) : ∀ (extras : List Arr) (thr : List Rat), NonNeg thr →
    NonNeg (extras.foldl (fun thr b => maxWith thr (f b)) thr)
  | [], thr, h => h
  | b :: extras, thr, h => foldl_maxWith_nonneg f extras _ (maxWith_nonneg thr (f b) h)

theorem cleaningFilter_nonneg (c : Config) (base : Arr) (extras : List Arr) (t : List Rat)
    (h : cleaningFilter c base extras = some t) : NonNeg t := by
  unfold cleaningFilter at h
  split at h
  · contradiction
  · cases h
    apply foldl_maxWith_nonneg
    intro x hx
    simp [List.mem_replicate] at hx
    rw [hx.2]

theorem clean_zero (t : List Rat) (ht : NonNeg t) (a : Arr) (ha : IsZero a) : IsZero (clean t a) := by
  intro p hp x hx
  simp only [clean] at hp
  obtain ⟨q, hq, u, hu, rfl⟩ := mem_zipWith' _ _ _ _ hp
  simp only [List.mem_map] at hx
  obtain ⟨y, hy, rfl⟩ := hx
  rw [ha q hq y hy]
  exact posPart_sub_nonneg (ht u hu)

theorem runStages_zero : ∀ (l : List (StageName × Stage)) (a : Arr),
    (∀ s ∈ l, ∀ x, IsZero x → IsZero (s.2 x).1) → IsZero a → IsZero (runStages l a).1
  | [], a, _, ha => ha
  | (n, s) :: rest, a, h, ha => by
    simp only [runStages]
    exact runStages_zero rest _ (fun s' hs' => h s' (by simp [hs'])) (h (n, s) (by simp) a ha)

theorem runStages_names : ∀ (l : List (StageName × Stage)) (a : Arr),
    (runStages l a).2.map Prod.fst = l.map Prod.fst
  | [], _ => rfl
  | (n, s) :: rest, a => by simp [runStages, runStages_names rest]

theorem runStages_out : ∀ (l : List (StageName × Stage)) (a : Arr),
    (runStages l a).1 = l.foldl (fun x s => (s.2 x).1) a
  | [], _ => rfl
  | (n, s) :: rest, a => by simp [runStages, runStages_out rest]

/-- the array recorded for the `i`-th stage is the output of the stages before it -/
theorem runStages_inputs : ∀ (l : List (StageName × Stage)) (a : Arr) (i : Nat), i < l.length →
    ((runStages l a).2[i]?).map Prod.snd = some ((l.take i).foldl (fun x s => (s.2 x).1) a)
  | [], _, i, h => by simp at h
  | (n, s) :: rest, a, 0, _ => by simp [runStages]
  | (n, s) :: rest, a, i + 1, h => by
    simp only [runStages, List.getElem?_cons_succ, List.take_succ_cons, List.foldl_cons]
    exact runStages_inputs rest _ i (by simpa using h)

end Darsia.Pipeline

namespace Darsia.Pipeline

theorem val_div (o : DiffOpt) (x y m : Rat) (hm : 0 < m) : o.val (x / m) (y / m) = o.val x y / m := by
  have key : ∀ z : Rat, (0 ≤ z / m ↔ 0 ≤ z) := fun z => by
    constructor
    · intro h
      by_contra hn
      have hz : z < 0 := lt_of_not_ge hn
      have : z / m * m < 0 * m := by
        rw [div_mul_cancel₀ z (ne_of_gt hm)]; simpa using hz
      have h2 : z / m < 0 := lt_of_mul_lt_mul_right this (le_of_lt hm)
      exact absurd h (not_le.mpr h2)
    · intro h; exact div_nonneg h (le_of_lt hm)
  cases o <;> simp only [DiffOpt.val, posPart, absR, ← sub_div]
  · by_cases h : 0 ≤ x - y
    · rw [if_pos h, if_pos ((key _).mpr h)]
    · rw [if_neg h, if_neg (fun h' => h ((key _).mp h'))]; simp
  · by_cases h : 0 ≤ y - x
    · rw [if_pos h, if_pos ((key _).mpr h)]
    · rw [if_neg h, if_neg (fun h' => h ((key _).mp h'))]; simp
  · by_cases h : 0 ≤ x - y
    · rw [if_pos h, if_pos ((key _).mpr h)]
    · rw [if_neg h, if_neg (fun h' => h ((key _).mp h'))]; rw [neg_div]

theorem val_bounds (o : DiffOpt) (x y m : Rat) (hx0 : 0 ≤ x) (hxm : x ≤ m) (hy0 : 0 ≤ y) (hym : y ≤ m) :
    -m ≤ o.val x y ∧ o.val x y ≤ m ∧ (o ≠ .plain → 0 ≤ o.val x y) := by
  cases o <;> simp only [DiffOpt.val, posPart, absR]
  · refine ⟨?_, ?_, fun _ => ?_⟩ <;> split_ifs <;> linarith
  · refine ⟨?_, ?_, fun _ => ?_⟩ <;> split_ifs <;> linarith
  · refine ⟨?_, ?_, fun _ => ?_⟩ <;> split_ifs <;> linarith
  · exact ⟨by linarith, by linarith, fun h => absurd rfl h⟩

theorem pow_sub_one_pos (bits : Nat) (hb : 0 < bits) : (0 : Rat) < ((2 ^ bits - 1 : Nat) : Rat) := by
  have : 2 ≤ 2 ^ bits := by
    calc 2 = 2 ^ 1 := rfl
      _ ≤ 2 ^ bits := Nat.pow_le_pow_right (by omega) hb
  exact_mod_cast (by omega : 0 < 2 ^ bits - 1)

/-- element-wise statement behind `diff_no_wrap` -/
theorem val_promote (bits : Nat) (hb : 0 < bits) (p b : Nat) (hp : p < 2 ^ bits) (hq : b < 2 ^ bits) (o : DiffOpt) :
    o.val (promote bits p) (promote bits b) = o.val (p : Rat) (b : Rat) / ((2 ^ bits - 1 : Nat) : Rat) ∧
    -1 ≤ o.val (promote bits p) (promote bits b) ∧ o.val (promote bits p) (promote bits b) ≤ 1 ∧
    (o ≠ .plain → 0 ≤ o.val (promote bits p) (promote bits b)) := by
  have hm := pow_sub_one_pos bits hb
  have e := val_div o (p : Rat) (b : Rat) _ hm
  have hpM : (p : Rat) ≤ ((2 ^ bits - 1 : Nat) : Rat) := by exact_mod_cast (by omega : p ≤ 2 ^ bits - 1)
  have hbM : (b : Rat) ≤ ((2 ^ bits - 1 : Nat) : Rat) := by exact_mod_cast (by omega : b ≤ 2 ^ bits - 1)
  obtain ⟨l, u, nn⟩ := val_bounds o (p : Rat) (b : Rat) _ (by exact_mod_cast Nat.zero_le p) hpM
    (by exact_mod_cast Nat.zero_le b) hbM
  unfold promote
  rw [e]
  refine ⟨rfl, ?_, ?_, fun h => div_nonneg (nn h) (le_of_lt hm)⟩
  · rw [le_div_iff₀ hm]; linarith
  · rw [div_le_iff₀ hm]; linarith

end Darsia.Pipeline

namespace Darsia.Pipeline

def stepMax (thr s : List Rat) : List Rat := List.zipWith (fun t x => if t ≤ x then x else t) thr s

theorem stepMax_get {thr s : List Rat} {i : Nat} {r : Rat} (h : (stepMax thr s)[i]? = some r) :
    ∃ t x, thr[i]? = some t ∧ s[i]? = some x ∧ r = (if t ≤ x then x else t) := by
  unfold stepMax at h
  rw [List.getElem?_zipWith] at h
  cases ht : thr[i]? with
  | none => simp [ht] at h
  | some t =>
    cases hx : s[i]? with
    | none => simp [ht, hx] at h
    | some x =>
      simp [ht, hx] at h
      exact ⟨t, x, rfl, rfl, h.symm⟩

theorem foldl_stepMax_mono : ∀ (signals : List (List Rat)) (acc : List Rat) (i : Nat) (r : Rat),
    (signals.foldl stepMax acc)[i]? = some r → ∃ a0, acc[i]? = some a0 ∧ a0 ≤ r
  | [], acc, i, r, h => ⟨r, h, le_refl _⟩
  | s :: rest, acc, i, r, h => by
    simp only [List.foldl_cons] at h
    obtain ⟨m, hm, hle⟩ := foldl_stepMax_mono rest _ i r h
    obtain ⟨t, x, ht, _, rfl⟩ := stepMax_get hm
    refine ⟨t, ht, le_trans ?_ hle⟩
    split_ifs with hc
    · exact hc
    · exact le_refl _

theorem foldl_stepMax_ge : ∀ (signals : List (List Rat)) (acc : List Rat) (s : List Rat), s ∈ signals →
    ∀ (i : Nat) (r x : Rat), (signals.foldl stepMax acc)[i]? = some r → s[i]? = some x → x ≤ r
  | [], _, _, hs, _, _, _, _, _ => by simp at hs
  | s0 :: rest, acc, s, hs, i, r, x, h, hx => by
    simp only [List.foldl_cons] at h
    rcases List.mem_cons.mp hs with rfl | hin
    · obtain ⟨m, hm, hle⟩ := foldl_stepMax_mono rest _ i r h
      obtain ⟨t, x', _, hx', rfl⟩ := stepMax_get hm
      rw [hx] at hx'; cases hx'
      refine le_trans ?_ hle
      split_ifs with hc
      · exact le_refl _
      · exact le_of_lt (lt_of_not_ge hc)
    · exact foldl_stepMax_ge rest _ s hin i r x h hx

/-- the accumulated threshold dominates every reduced extra-baseline signal, is non-negative, ... -/
theorem accumulate_ge (n : Nat) (signals : List (List Rat)) (s : List Rat) (hs : s ∈ signals) (i : Nat) (r x : Rat)
    (h : (accumulate n signals)[i]? = some r) (hx : s[i]? = some x) : x ≤ r :=
  foldl_stepMax_ge signals _ s hs i r x h hx

theorem accumulate_nonneg (n : Nat) (signals : List (List Rat)) (i : Nat) (r : Rat)
    (h : (accumulate n signals)[i]? = some r) : 0 ≤ r := by
  obtain ⟨a0, ha, hle⟩ := foldl_stepMax_mono signals _ i r h
  have : a0 = 0 := by
    rw [List.getElem?_replicate] at ha
    split at ha
    · cases ha; rfl
    · contradiction
  rw [this] at hle; exact hle

/-- ... and is attained: each entry is 0 or the entry of one of the signals (it is the running maximum) -/
theorem foldl_stepMax_attained : ∀ (signals : List (List Rat)) (acc : List Rat) (i : Nat) (r : Rat),
    (signals.foldl stepMax acc)[i]? = some r → acc[i]? = some r ∨ ∃ s ∈ signals, s[i]? = some r
  | [], _, _, _, h => Or.inl h
  | s0 :: rest, acc, i, r, h => by
    simp only [List.foldl_cons] at h
    rcases foldl_stepMax_attained rest _ i r h with hm | ⟨s, hs, hsr⟩
    · obtain ⟨t, x, ht, hx, e⟩ := stepMax_get hm
      split_ifs at e with hc
      · exact Or.inr ⟨s0, by simp, by rw [hx, e]⟩
      · exact Or.inl (by rw [ht, e])
    · exact Or.inr ⟨s, by simp [hs], hsr⟩

/-- `find_cleaning_filter` is this accumulation over the reduced differences of the extra baselines -/
theorem cleaningFilter_eq_accumulate (c : Config) (base : Arr) (e : Arr) (extras : List Arr) :
    cleaningFilter c base (e :: extras) =
      some (accumulate base.px.length ((e :: extras).map fun b =>
        (applyOpt c.reduction (diff c.opt base b)).px.map (·.headD 0))) := by
  simp only [cleaningFilter, accumulate, List.foldl_map]
  congr 1
  have : ∀ (l : List Arr) (acc : List Rat),
      List.foldl (fun thr b => maxWith thr (applyOpt c.reduction (diff c.opt base b))) acc l =
      List.foldl (fun thr b => List.zipWith (fun t x => if t ≤ x then x else t) thr
        ((applyOpt c.reduction (diff c.opt base b)).px.map (·.headD 0))) acc l := by
    intro l
    induction l with
    | nil => intro acc; rfl
    | cons b l ih =>
      intro acc
      simp only [List.foldl_cons]
      rw [ih]
      congr 1
      simp only [maxWith, List.zipWith_map_right]
  exact this _ _

end Darsia.Pipeline
