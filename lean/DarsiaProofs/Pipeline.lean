import DarsiaModel.Pipeline
import Mathlib.Algebra.Order.Field.Rat
import Mathlib.Tactic.Linarith
namespace Darsia.Pipeline

theorem posPart_zero : posPart 0 = 0 := by simp [posPart]
theorem absR_zero : absR 0 = 0 := by simp [absR]

theorem posPart_nonneg (x : Rat) : 0 ≤ posPart x := by
  unfold posPart; split <;> simp_all

theorem pos_add_neg (p b : Rat) : posPart (p - b) + posPart (b - p) = absR (p - b) := by
  unfold posPart absR
  split_ifs <;> linarith

theorem pos_sub_neg (p b : Rat) : posPart (p - b) - posPart (b - p) = p - b := by
  unfold posPart
  split_ifs <;> linarith

theorem val_self (o : DiffOpt) (x : Rat) : o.val x x = 0 := by
  cases o <;> simp [DiffOpt.val, posPart, absR]

theorem posPart_sub_nonneg {t : Rat} (ht : 0 ≤ t) : posPart (0 - t) = 0 := by
  unfold posPart
  split_ifs with h
  · linarith
  · rfl

theorem zipWith_zipWith {α β γ δ ε} (f : γ → δ → ε) (g : α → β → γ) (h : α → β → δ) :
    ∀ (p : List α) (b : List β),
      List.zipWith f (List.zipWith g p b) (List.zipWith h p b) = List.zipWith (fun x y => f (g x y) (h x y)) p b
  | [], _ => by simp
  | _ :: _, [] => by simp
  | x :: p, y :: b => by simp [zipWith_zipWith f g h p b]

/-- element-wise combination of two arrays -/
def arrZip (f : Rat → Rat → Rat) (a b : Arr) : Arr :=
  { scalar := a.scalar, px := List.zipWith (fun p q => List.zipWith f p q) a.px b.px }

theorem diff_combine (f : Rat → Rat → Rat) (o1 o2 o3 : DiffOpt)
    (hf : ∀ p b, f (o1.val p b) (o2.val p b) = o3.val p b) (base probe : Arr) :
    arrZip f (diff o1 base probe) (diff o2 base probe) = diff o3 base probe := by
  unfold arrZip diff
  simp only [Arr.mk.injEq, true_and]
  rw [zipWith_zipWith]
  congr 1
  funext p b
  rw [zipWith_zipWith]
  congr 1
  funext x y
  exact hf x y

theorem mem_zipWith' {α β γ} (f : α → β → γ) : ∀ (l : List α) (t : List β) (p : γ),
    p ∈ List.zipWith f l t → ∃ q ∈ l, ∃ u ∈ t, p = f q u
  | [], _, p, h => by simp at h
  | _ :: _, [], p, h => by simp at h
  | a :: l, b :: t, p, h => by
    simp only [List.zipWith_cons_cons, List.mem_cons] at h
    rcases h with h | h
    · exact ⟨a, by simp, b, by simp, h⟩
    · obtain ⟨q, hq, u, hu, e⟩ := mem_zipWith' f l t p h
      exact ⟨q, by simp [hq], u, by simp [hu], e⟩

theorem mem_zipWith_self {α γ} (f : α → α → γ) : ∀ (l : List α) (p : γ),
    p ∈ List.zipWith f l l → ∃ q ∈ l, p = f q q
  | [], p, h => by simp at h
  | a :: l, p, h => by
    simp only [List.zipWith_cons_cons, List.mem_cons] at h
    rcases h with h | h
    · exact ⟨a, by simp, h⟩
    · obtain ⟨q, hq, e⟩ := mem_zipWith_self f l p h
      exact ⟨q, by simp [hq], e⟩

theorem diff_self_zero (o : DiffOpt) (b : Arr) : IsZero (diff o b b) := by
  intro p hp x hx
  simp only [diff] at hp
  obtain ⟨q, _, rfl⟩ := mem_zipWith_self _ _ _ hp
  obtain ⟨y, _, rfl⟩ := mem_zipWith_self _ _ _ hx
  exact val_self o y

/-- all entries of a threshold are non-negative -/
def NonNeg (t : List Px) : Prop := ∀ tp ∈ t, ∀ x ∈ tp, 0 ≤ x

theorem le_maxR_left (t x : Rat) : t ≤ maxR t x := by
  unfold maxR; split_ifs with h
  · exact h
  · exact le_refl _

theorem le_maxR_right (t x : Rat) : x ≤ maxR t x := by
  unfold maxR; split_ifs with h
  · exact le_refl _
  · exact le_of_lt (lt_of_not_ge h)

theorem maxWith_nonneg (thr : List Px) (a : Arr) (h : NonNeg thr) : NonNeg (maxWith thr a) := by
  intro tp htp x hx
  obtain ⟨tp0, htp0, p, _, rfl⟩ := mem_zipWith' _ _ _ _ htp
  obtain ⟨t, ht, y, _, rfl⟩ := mem_zipWith' _ _ _ _ hx
  exact le_trans (h tp0 htp0 t ht) (le_maxR_left t y)

theorem foldl_maxWith_nonneg (f : Arr → Arr) : ∀ (extras : List Arr) (thr : List Px), NonNeg thr →
    NonNeg (extras.foldl (fun thr b => maxWith thr (f b)) thr)
  | [], thr, h => h
  | b :: extras, thr, h => foldl_maxWith_nonneg f extras _ (maxWith_nonneg thr (f b) h)

theorem zerosLike_nonneg (a : Arr) : NonNeg (zerosLike a) := by
  intro tp htp x hx
  simp only [zerosLike, List.mem_map] at htp
  obtain ⟨p, _, rfl⟩ := htp
  simp only [List.mem_map] at hx
  obtain ⟨_, _, rfl⟩ := hx
  exact le_refl _

theorem cleaningFilter_nonneg (c : Config) (base : Arr) (extras : List Arr) (t : List Px)
    (h : cleaningFilter c base extras = some t) : NonNeg t := by
  unfold cleaningFilter at h
  split at h
  · contradiction
  · cases h
    exact foldl_maxWith_nonneg (extraSignal c base) _ _ (zerosLike_nonneg _)

theorem clean_zero (t : List Px) (ht : NonNeg t) (a : Arr) (ha : IsZero a) : IsZero (clean t a) := by
  intro p hp x hx
  simp only [clean] at hp
  obtain ⟨q, hq, tp, htp, rfl⟩ := mem_zipWith' _ _ _ _ hp
  obtain ⟨y, hy, u, hu, rfl⟩ := mem_zipWith' _ _ _ _ hx
  rw [ha q hq y hy]
  exact posPart_sub_nonneg (ht tp htp u hu)

theorem runStages_zero : ∀ (l : List (StageName × Stage)) (a : Arr),
    (∀ s ∈ l, ∀ x, IsZero x → IsZero (s.2 x).1) → IsZero a → IsZero (runStages l a).1
  | [], a, _, ha => ha
  | (n, s) :: rest, a, h, ha => by
    simp only [runStages]
    exact runStages_zero rest _ (fun s' hs' => h s' (by simp [hs'])) (h (n, s) (by simp) a ha)

theorem runStages_names : ∀ (l : List (StageName × Stage)) (a : Arr),
    (runStages l a).2.map Prod.fst = l.map Prod.fst
  | [], _ => rfl
  | (n, s) :: rest, a => by simp [runStages, runStages_names rest]

theorem runStages_out : ∀ (l : List (StageName × Stage)) (a : Arr),
    (runStages l a).1 = l.foldl (fun x s => (s.2 x).1) a
  | [], _ => rfl
  | (n, s) :: rest, a => by simp [runStages, runStages_out rest]

/-- the array recorded for the `i`-th stage is the output of the stages before it -/
theorem runStages_inputs : ∀ (l : List (StageName × Stage)) (a : Arr) (i : Nat), i < l.length →
    ((runStages l a).2[i]?).map Prod.snd = some ((l.take i).foldl (fun x s => (s.2 x).1) a)
  | [], _, i, h => by simp at h
  | (n, s) :: rest, a, 0, _ => by simp [runStages]
  | (n, s) :: rest, a, i + 1, h => by
    simp only [runStages, List.getElem?_cons_succ, List.take_succ_cons, List.foldl_cons]
    exact runStages_inputs rest _ i (by simpa using h)

end Darsia.Pipeline

namespace Darsia.Pipeline

theorem val_div (o : DiffOpt) (x y m : Rat) (hm : 0 < m) : o.val (x / m) (y / m) = o.val x y / m := by
  have key : ∀ z : Rat, (0 ≤ z / m ↔ 0 ≤ z) := fun z => by
    constructor
    · intro h
      by_contra hn
      have hz : z < 0 := lt_of_not_ge hn
      have : z / m * m < 0 * m := by
        rw [div_mul_cancel₀ z (ne_of_gt hm)]; simpa using hz
      have h2 : z / m < 0 := lt_of_mul_lt_mul_right this (le_of_lt hm)
      exact absurd h (not_le.mpr h2)
    · intro h; exact div_nonneg h (le_of_lt hm)
  cases o <;> simp only [DiffOpt.val, posPart, absR, ← sub_div]
  · by_cases h : 0 ≤ x - y
    · rw [if_pos h, if_pos ((key _).mpr h)]
    · rw [if_neg h, if_neg (fun h' => h ((key _).mp h'))]; simp
  · by_cases h : 0 ≤ y - x
    · rw [if_pos h, if_pos ((key _).mpr h)]
    · rw [if_neg h, if_neg (fun h' => h ((key _).mp h'))]; simp
  · by_cases h : 0 ≤ x - y
    · rw [if_pos h, if_pos ((key _).mpr h)]
    · rw [if_neg h, if_neg (fun h' => h ((key _).mp h'))]; rw [neg_div]

theorem val_bounds (o : DiffOpt) (x y m : Rat) (hx0 : 0 ≤ x) (hxm : x ≤ m) (hy0 : 0 ≤ y) (hym : y ≤ m) :
    -m ≤ o.val x y ∧ o.val x y ≤ m ∧ (o ≠ .plain → 0 ≤ o.val x y) := by
  cases o <;> simp only [DiffOpt.val, posPart, absR]
  · refine ⟨?_, ?_, fun _ => ?_⟩ <;> split_ifs <;> linarith
  · refine ⟨?_, ?_, fun _ => ?_⟩ <;> split_ifs <;> linarith
  · refine ⟨?_, ?_, fun _ => ?_⟩ <;> split_ifs <;> linarith
  · exact ⟨by linarith, by linarith, fun h => absurd rfl h⟩

theorem pow_sub_one_pos (bits : Nat) (hb : 0 < bits) : (0 : Rat) < ((2 ^ bits - 1 : Nat) : Rat) := by
  have : 2 ≤ 2 ^ bits := by
    calc 2 = 2 ^ 1 := rfl
      _ ≤ 2 ^ bits := Nat.pow_le_pow_right (by omega) hb
  exact_mod_cast (by omega : 0 < 2 ^ bits - 1)

/-- element-wise statement behind `diff_no_wrap` -/
theorem val_promote (bits : Nat) (hb : 0 < bits) (p b : Nat) (hp : p < 2 ^ bits) (hq : b < 2 ^ bits) (o : DiffOpt) :
    o.val (promote bits p) (promote bits b) = o.val (p : Rat) (b : Rat) / ((2 ^ bits - 1 : Nat) : Rat) ∧
    -1 ≤ o.val (promote bits p) (promote bits b) ∧ o.val (promote bits p) (promote bits b) ≤ 1 ∧
    (o ≠ .plain → 0 ≤ o.val (promote bits p) (promote bits b)) := by
  have hm := pow_sub_one_pos bits hb
  have e := val_div o (p : Rat) (b : Rat) _ hm
  have hpM : (p : Rat) ≤ ((2 ^ bits - 1 : Nat) : Rat) := by exact_mod_cast (by omega : p ≤ 2 ^ bits - 1)
  have hbM : (b : Rat) ≤ ((2 ^ bits - 1 : Nat) : Rat) := by exact_mod_cast (by omega : b ≤ 2 ^ bits - 1)
  obtain ⟨l, u, nn⟩ := val_bounds o (p : Rat) (b : Rat) _ (by exact_mod_cast Nat.zero_le p) hpM
    (by exact_mod_cast Nat.zero_le b) hbM
  unfold promote
  rw [e]
  refine ⟨rfl, ?_, ?_, fun h => div_nonneg (nn h) (le_of_lt hm)⟩
  · rw [le_div_iff₀ hm]; linarith
  · rw [div_le_iff₀ hm]; linarith

end Darsia.Pipeline

namespace Darsia.Pipeline

def stepMax (thr s : List Rat) : List Rat := List.zipWith maxR thr s

theorem stepMax_get {thr s : List Rat} {i : Nat} {r : Rat} (h : (stepMax thr s)[i]? = some r) :
    ∃ t x, thr[i]? = some t ∧ s[i]? = some x ∧ r = maxR t x := by
  unfold stepMax at h
  rw [List.getElem?_zipWith] at h
  cases ht : thr[i]? with
  | none => simp [ht] at h
  | some t =>
    cases hx : s[i]? with
    | none => simp [ht, hx] at h
    | some x =>
      simp [ht, hx] at h
      exact ⟨t, x, rfl, rfl, h.symm⟩

theorem foldl_stepMax_mono : ∀ (signals : List (List Rat)) (acc : List Rat) (i : Nat) (r : Rat),
    (signals.foldl stepMax acc)[i]? = some r → ∃ a0, acc[i]? = some a0 ∧ a0 ≤ r
  | [], acc, i, r, h => ⟨r, h, le_refl _⟩
  | s :: rest, acc, i, r, h => by
    simp only [List.foldl_cons] at h
    obtain ⟨m, hm, hle⟩ := foldl_stepMax_mono rest _ i r h
    obtain ⟨t, x, ht, _, rfl⟩ := stepMax_get hm
    exact ⟨t, ht, le_trans (le_maxR_left t x) hle⟩

theorem foldl_stepMax_ge : ∀ (signals : List (List Rat)) (acc : List Rat) (s : List Rat), s ∈ signals →
    ∀ (i : Nat) (r x : Rat), (signals.foldl stepMax acc)[i]? = some r → s[i]? = some x → x ≤ r
  | [], _, _, hs, _, _, _, _, _ => by simp at hs
  | s0 :: rest, acc, s, hs, i, r, x, h, hx => by
    simp only [List.foldl_cons] at h
    rcases List.mem_cons.mp hs with rfl | hin
    · obtain ⟨m, hm, hle⟩ := foldl_stepMax_mono rest _ i r h
      obtain ⟨t, x', _, hx', rfl⟩ := stepMax_get hm
      rw [hx] at hx'; cases hx'
      exact le_trans (le_maxR_right t x) hle
    · exact foldl_stepMax_ge rest _ s hin i r x h hx

theorem foldl_stepMax_attained : ∀ (signals : List (List Rat)) (acc : List Rat) (i : Nat) (r : Rat),
    (signals.foldl stepMax acc)[i]? = some r → acc[i]? = some r ∨ ∃ s ∈ signals, s[i]? = some r
  | [], _, _, _, h => Or.inl h
  | s0 :: rest, acc, i, r, h => by
    simp only [List.foldl_cons] at h
    rcases foldl_stepMax_attained rest _ i r h with hm | ⟨s, hs, hsr⟩
    · obtain ⟨t, x, ht, hx, e⟩ := stepMax_get hm
      unfold maxR at e
      split_ifs at e with hc
      · exact Or.inr ⟨s0, by simp, by rw [hx, e]⟩
      · exact Or.inl (by rw [ht, e])
    · exact Or.inr ⟨s, by simp [hs], hsr⟩

/-- row-wise step on per-channel thresholds -/
def stepMax2 (thr s : List Px) : List Px := List.zipWith (fun tp p => List.zipWith maxR tp p) thr s

/-- pixel `i` of the accumulated threshold is the scalar accumulation over pixel `i` of all signals -/
theorem foldl_stepMax2_row : ∀ (sigs : List (List Px)) (acc : List Px) (i : Nat) (row : Px),
    (sigs.foldl stepMax2 acc)[i]? = some row →
      ∃ a0 rows, acc[i]? = some a0 ∧ List.Forall₂ (fun s r => s[i]? = some r) sigs rows ∧ row = rows.foldl stepMax a0
  | [], acc, i, row, h => ⟨row, [], h, List.Forall₂.nil, rfl⟩
  | s :: rest, acc, i, row, h => by
    simp only [List.foldl_cons] at h
    obtain ⟨a1, rows', h1, hf, rfl⟩ := foldl_stepMax2_row rest _ i row h
    unfold stepMax2 at h1
    rw [List.getElem?_zipWith] at h1
    cases ha : acc[i]? with
    | none => simp [ha] at h1
    | some a0 =>
      cases hs : s[i]? with
      | none => simp [ha, hs] at h1
      | some r0 =>
        simp [ha, hs] at h1
        subst h1
        exact ⟨a0, r0 :: rows', rfl, List.Forall₂.cons hs hf, rfl⟩

theorem forall2_mem {α β} {R : α → β → Prop} : ∀ {l : List α} {m : List β}, List.Forall₂ R l m →
    (∀ a ∈ l, ∃ b ∈ m, R a b) ∧ (∀ b ∈ m, ∃ a ∈ l, R a b)
  | _, _, .nil => ⟨by simp, by simp⟩
  | _, _, .cons h t => by
    obtain ⟨i1, i2⟩ := forall2_mem t
    constructor
    · intro a ha
      rcases List.mem_cons.mp ha with rfl | ha
      · exact ⟨_, by simp, h⟩
      · obtain ⟨b, hb, r⟩ := i1 a ha; exact ⟨b, by simp [hb], r⟩
    · intro b hb
      rcases List.mem_cons.mp hb with rfl | hb
      · exact ⟨_, by simp, h⟩
      · obtain ⟨a, ha, r⟩ := i2 b hb; exact ⟨a, by simp [ha], r⟩

/-- the accumulated threshold: entry (i, j) is non-negative, dominates entry (i, j) of every signal and is attained -/
theorem accumulate_spec (signals : List (List Px)) (i j : Nat) (row : Px) (t : Rat)
    (hrow : (accumulate signals)[i]? = some row) (ht : row[j]? = some t) :
    0 ≤ t ∧ (∀ s ∈ signals, ∀ p x, s[i]? = some p → p[j]? = some x → x ≤ t) ∧
    (t = 0 ∨ ∃ s ∈ signals, ∃ p, s[i]? = some p ∧ p[j]? = some t) := by
  obtain ⟨a0, rows, ha0, hf, rfl⟩ := foldl_stepMax2_row signals _ i row hrow
  obtain ⟨m1, m2⟩ := forall2_mem hf
  have hzero : ∀ z, a0[j]? = some z → z = 0 := by
    intro z hz
    rw [List.getElem?_map] at ha0
    cases hh : (signals.headD [])[i]? with
    | none => rw [hh] at ha0; simp at ha0
    | some p0 =>
      rw [hh] at ha0
      simp only [Option.map_some, Option.some.injEq] at ha0
      subst ha0
      rw [List.getElem?_map] at hz
      cases hp : p0[j]? with
      | none => rw [hp] at hz; simp at hz
      | some _ => rw [hp] at hz; simp at hz; exact hz.symm
  refine ⟨?_, ?_, ?_⟩
  · obtain ⟨z, hz, hle⟩ := foldl_stepMax_mono rows a0 j t ht
    rw [hzero z hz] at hle; exact hle
  · intro s hs p x hp hx
    obtain ⟨r, hr, hsr⟩ := m1 s hs
    rw [hp] at hsr; cases hsr
    exact foldl_stepMax_ge rows a0 p hr j t x ht hx
  · rcases foldl_stepMax_attained rows a0 j t ht with h | ⟨r, hr, hrt⟩
    · exact Or.inl (hzero t h)
    · obtain ⟨s, hs, hsr⟩ := m2 r hr
      exact Or.inr ⟨s, hs, r, hsr, hrt⟩

/-- `find_cleaning_filter` is this accumulation over the reduced differences of the extra baselines -/
theorem cleaningFilter_eq_accumulate (c : Config) (base : Arr) (e : Arr) (extras : List Arr) :
    cleaningFilter c base (e :: extras) =
      some (accumulate ((e :: extras).map fun b => (extraSignal c base b).px)) := by
  simp only [cleaningFilter, accumulate, List.map_cons, List.headD_cons, zerosLike, maxWith]
  congr 1
  simp only [List.foldl_cons, List.foldl_map]

end Darsia.Pipeline

namespace Darsia.Pipeline

/-! ### state machine -/

theorem updates_thr (st : AState) : ∀ us : List Arr, (us.foldl (fun s u => s.update (some u)) st).thr = st.thr
  | [] => rfl
  | u :: us => by
    simp only [List.foldl_cons]
    rw [updates_thr _ us]; rfl

theorem updates_base (st : AState) (us : List Arr) (b : Arr) :
    ((us ++ [b]).foldl (fun s u => s.update (some u)) st).base = some b := by
  rw [List.foldl_append]
  rfl

/-! ### buffers -/

theorem runStagesOp_frame : ∀ (l : List (StageName × Stage)) (h : List Arr) (cur n : Nat), n ≤ cur → cur < h.length →
    n ≤ (runStagesOp l h cur).2 ∧ (runStagesOp l h cur).2 < (runStagesOp l h cur).1.length ∧
    ∀ a, a < n → (runStagesOp l h cur).1[a]? = h[a]?
  | [], h, cur, n, h1, h2 => ⟨h1, h2, fun _ _ => rfl⟩
  | (_, s) :: rest, h, cur, n, h1, h2 => by
    simp only [runStagesOp]
    obtain ⟨r1, r2, r3⟩ := runStagesOp_frame rest (h.set cur (s ((h[cur]?).getD emptyArr)).2 ++ [(s ((h[cur]?).getD emptyArr)).1])
      h.length n (by omega) (by simp)
    refine ⟨r1, r2, fun a ha => ?_⟩
    rw [r3 a ha, List.getElem?_append_left (by simp; omega), List.getElem?_set_ne (by omega)]

theorem runStagesOp_value : ∀ (l : List (StageName × Stage)) (h : List Arr) (cur : Nat) (a : Arr), h[cur]? = some a →
    (runStagesOp l h cur).1[(runStagesOp l h cur).2]? = some (runStages l a).1
  | [], h, cur, a, ha => ha
  | (n, s) :: rest, h, cur, a, ha => by
    simp only [runStagesOp, runStages, ha, Option.getD_some]
    apply runStagesOp_value rest
    rw [List.getElem?_append_right (by simp)]
    simp

/-- with the deep copy, whatever the stages do to the buffers they are handed: the caller's probe (cell 0) and the
stored baseline (cell 1) are unchanged, and the returned array holds the value of the functional specification -/
theorem callOp_deep (c : Config) (k : Kind) (st : AState) (probe : Arr) :
    (callOp true c st probe).1[0]? = some probe ∧
    (∀ b, st.base = some b → (callOp true c st probe).1[1]? = some b) ∧
    (callOp true c st probe).1[(callOp true c st probe).2]? = some (callSt c k st probe).out := by
  unfold callOp callSt
  cases hb : st.base with
  | some b =>
    simp only [Option.toList, List.length_append, List.length_cons, List.length_nil, if_true]
    have hcp : (([probe] ++ [b]) ++ [probe])[(0 + 1 + 1)]? = some probe := by simp
    have f := runStagesOp_frame (stageList c st.thr) ([probe] ++ [b] ++ [probe] ++ [diff c.opt b probe]) 3 2 (by omega) (by simp)
    refine ⟨?_, ?_, ?_⟩
    · simpa using f.2.2 0 (by omega)
    · intro b' hb'; cases hb'
      simpa using f.2.2 1 (by omega)
    · have := runStagesOp_value (stageList c st.thr) ([probe] ++ [b] ++ [probe] ++ [diff c.opt b probe]) 3 (diff c.opt b probe) (by simp)
      simpa using this
  | none =>
    simp only [Option.toList, List.append_nil, List.length_cons, List.length_nil, if_true]
    by_cases hp : c.opt = .plain
    · simp only [hp, if_true]
      have f := runStagesOp_frame (stageList c st.thr) ([probe] ++ [probe]) 1 1 (by omega) (by simp)
      refine ⟨?_, (fun b hb' => by cases hb'), ?_⟩
      · simpa using f.2.2 0 (by omega)
      · have := runStagesOp_value (stageList c st.thr) ([probe] ++ [probe]) 1 probe (by simp)
        have hd : diffNoBase DiffOpt.plain probe = probe := by
          cases probe with
          | mk sc px =>
            simp only [diffNoBase, DiffOpt.val, sub_zero, List.map_id']
        simpa [hp, hd] using this
    · simp only [hp, if_false]
      have f := runStagesOp_frame (stageList c st.thr) ([probe] ++ [probe] ++ [diffNoBase c.opt probe]) 2 1 (by omega) (by simp)
      refine ⟨?_, (fun b hb' => by cases hb'), ?_⟩
      · simpa using f.2.2 0 (by omega)
      · have := runStagesOp_value (stageList c st.thr) ([probe] ++ [probe] ++ [diffNoBase c.opt probe]) 2 (diffNoBase c.opt probe) (by simp)
        simpa using this

end Darsia.Pipeline

namespace Darsia.Pipeline

theorem diffD_self (o : DiffOpt) (k : DKind) (bits : Nat) (x : Rat) : diffD o k bits k bits x x = 0 := val_self o _

theorem diffD_parts (kb : DKind) (bb : Nat) (kp : DKind) (bp : Nat) (b p : Rat) :
    diffD .positive kb bb kp bp b p + diffD .negative kb bb kp bp b p = diffD .absolute kb bb kp bp b p ∧
    diffD .positive kb bb kp bp b p - diffD .negative kb bb kp bp b p = diffD .plain kb bb kp bp b p :=
  ⟨pos_add_neg _ _, pos_sub_neg _ _⟩

/-- unsigned values of the type land in [0, 1] -/
theorem apply_unsigned_range (bits : Nat) (hb : 0 < bits) (x : Rat) (h0 : 0 ≤ x) (h1 : x ≤ ((2 ^ bits - 1 : Nat) : Rat)) :
    0 ≤ PRule.unsigned.apply bits x ∧ PRule.unsigned.apply bits x ≤ 1 := by
  have hm := pow_sub_one_pos bits hb
  unfold PRule.apply
  exact ⟨div_nonneg h0 (le_of_lt hm), by rw [div_le_iff₀ hm]; linarith⟩

/-- signed values of the type land in [−1, 1]; above the most negative value the rule is the plain quotient -/
theorem apply_signed_range (m x : Rat) (hm : 0 < m) (h0 : -(m + 1) ≤ x) (h1 : x ≤ m) :
    -1 ≤ maxR (-1) (x / m) ∧ maxR (-1) (x / m) ≤ 1 ∧ (-m ≤ x → maxR (-1) (x / m) = x / m) := by
  have hx1 : x / m ≤ 1 := by rw [div_le_iff₀ hm]; linarith
  unfold maxR
  refine ⟨?_, ?_, fun h => ?_⟩
  · split_ifs with h <;> linarith
  · split_ifs with h <;> linarith
  · have : -1 ≤ x / m := by rw [le_div_iff₀ hm]; linarith
    rw [if_pos this]

end Darsia.Pipeline

