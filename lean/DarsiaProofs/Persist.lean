import DarsiaModel.Persist
namespace Darsia.Persist

/-- the facts about the generated key lists the round trip needs (all decidable; discharged by `decide`
on `DarsiaGen.PersistTables`) -/
structure KeysOK (keys : Cls → List Key) : Prop where
  base : ∀ c ∈ Cls.all, ∀ k ∈ [Key.space_dim, .indexing, .dimensions, .name, .origin, .series, .scalar, .date,
    .reference_date, .time], k ∈ keys c
  known : ∀ c ∈ Cls.all, ∀ k ∈ keys c, k ∈ [Key.space_dim, .indexing, .dimensions, .name, .origin, .series, .scalar,
    .date, .reference_date, .time, .color_space]
  cs : ∀ c ∈ Cls.all, (Key.color_space ∈ keys c ↔ c = .opticalImage)
  same : keys .image = keys .scalarImage

theorem constructBase_inv {V} (S : Sem V) (kw : Kw V) :
    S.isNone (constructBase S kw .time) = true →
      S.deriveTime (constructBase S kw .series) (constructBase S kw .date) (constructBase S kw .reference_date) =
        constructBase S kw .time := by
  simp only [constructBase]
  intro h
  split at h
  · rename_i hn; rw [if_pos hn]
  · rename_i hn; exact absurd h hn

/-- the constructors establish the invariant (the `scalar=` keyword, when given, is a bool) -/
theorem construct_inv {V} (S : Sem V) (ok : S.OK) (c : Cls) (kw : Kw V)
    (hb : ∀ v, kw .scalar = some v → v = S.tru ∨ v = S.fls) : Inv S c (construct S c kw) := by
  have hsb : constructBase S kw .scalar = S.tru ∨ constructBase S kw .scalar = S.fls := by
    simp only [constructBase]
    cases h : kw .scalar with
    | none => simp
    | some v => simpa using hb v h
  cases c with
  | image => exact ⟨constructBase_inv S kw, hsb, (by intro h; cases h), (by intro h; cases h)⟩
  | other => exact ⟨constructBase_inv S kw, hsb, (by intro h; cases h), (by intro h; cases h)⟩
  | scalarImage =>
    refine ⟨constructBase_inv S _, ?_, fun _ => ?_, (by intro h; cases h)⟩
    · left; simp [construct, constructBase, Kw.set]
    · simp [construct, constructBase, Kw.set]
  | opticalImage =>
    refine ⟨?_, ?_, (by intro h; cases h), fun _ => ?_⟩
    · have := constructBase_inv S (((kw.set .space_dim S.two).set .indexing S.ij).set .scalar S.fls)
      simpa [construct] using this
    · right; simp [construct, constructBase, Kw.set]
    · simp [construct, constructBase, Kw.set, ok.up_idem]

end Darsia.Persist

namespace Darsia.Persist

def baseKeys : List Key :=
  [.space_dim, .indexing, .dimensions, .name, .origin, .series, .scalar, .date, .reference_date, .time]

/-- re-constructing from keyword arguments that carry the attributes of a consistent image reproduces them -/
theorem constructBase_md {V} (S : Sem V) (ok : S.OK) (kw : Kw V) (a : Key → V)
    (hb : ∀ k ∈ baseKeys, kw k = some (a k))
    (hn : kw .height = Option.none ∧ kw .width = Option.none ∧ kw .depth = Option.none)
    (ht : S.isNone (a .time) = true → S.deriveTime (a .series) (a .date) (a .reference_date) = a .time) :
    ∀ k ∈ baseKeys, constructBase S kw k = a k := by
  have h1 := hb .space_dim (by simp [baseKeys])
  have h2 := hb .indexing (by simp [baseKeys])
  have h3 := hb .dimensions (by simp [baseKeys])
  have h4 := hb .name (by simp [baseKeys])
  have h5 := hb .origin (by simp [baseKeys])
  have h6 := hb .series (by simp [baseKeys])
  have h7 := hb .scalar (by simp [baseKeys])
  have h8 := hb .date (by simp [baseKeys])
  have h9 := hb .reference_date (by simp [baseKeys])
  have h10 := hb .time (by simp [baseKeys])
  intro k hk
  simp only [baseKeys, List.mem_cons, List.not_mem_nil, or_false] at hk
  rcases hk with rfl | rfl | rfl | rfl | rfl | rfl | rfl | rfl | rfl | rfl
  all_goals simp only [constructBase, h1, h2, h3, h4, h5, h6, h7, h8, h9, h10, hn.1, hn.2.1, hn.2.2, Option.getD_some,
    ok.hwd_none]
  by_cases hnone : S.isNone (a .time) = true
  · rw [if_pos hnone]; exact ht hnone
  · rw [if_neg hnone]

theorem md_some {V} {keys : Cls → List Key} {c : Cls} {a : Key → V} {k : Key} (h : k ∈ keys c) :
    metadataOf keys c a k = some (a k) := by simp [metadataOf, h]

theorem md_none {V} {keys : Cls → List Key} {c : Cls} {a : Key → V} {k : Key} (h : k ∉ keys c) :
    metadataOf keys c a k = Option.none := by simp [metadataOf, h]

section
variable {V : Type} (S : Sem V) (ok : S.OK) (keys : Cls → List Key) (hk : KeysOK keys)
include ok hk

theorem keys_base_of_not_optical {c : Cls} (hc : c ∈ Cls.all) (hno : c ≠ .opticalImage) :
    ∀ k ∈ keys c, k ∈ baseKeys := by
  intro k hin
  have hkn := hk.known c hc k hin
  simp only [List.mem_cons, List.not_mem_nil, or_false] at hkn
  rcases hkn with rfl | rfl | rfl | rfl | rfl | rfl | rfl | rfl | rfl | rfl | rfl
  all_goals first
    | (simp [baseKeys]; done)
    | exact absurd ((hk.cs c hc).mp hin) hno

theorem md_facts {c : Cls} (hc : c ∈ Cls.all) (a : Key → V) :
    (∀ k ∈ baseKeys, metadataOf keys c a k = some (a k)) ∧
    (metadataOf keys c a .height = Option.none ∧ metadataOf keys c a .width = Option.none ∧
      metadataOf keys c a .depth = Option.none) := by
  refine ⟨fun k hkk => md_some (hk.base c hc k hkk), ?_, ?_, ?_⟩
  all_goals (
    apply md_none
    intro hin
    have := hk.known c hc _ hin
    simp at this)

theorem reconstruct_image {c : Cls} (hc : c ∈ Cls.all) (a : Key → V) (inv : Inv S c a) (hno : c ≠ .opticalImage) :
    ∀ k ∈ keys c, construct S .image (metadataOf keys c a) k = a k := by
  intro k hin
  obtain ⟨hb, hn⟩ := md_facts S ok keys hk hc a
  exact constructBase_md S ok _ a hb hn inv.time k (keys_base_of_not_optical S ok keys hk hc hno k hin)

theorem reconstruct_scalar {c : Cls} (hc : c ∈ Cls.all) (a : Key → V) (inv : Inv S c a) (hno : c ≠ .opticalImage)
    (hs : a .scalar = S.tru) : ∀ k ∈ keys c, construct S .scalarImage (metadataOf keys c a) k = a k := by
  intro k hin
  obtain ⟨hb, hn⟩ := md_facts S ok keys hk hc a
  refine constructBase_md S ok _ a ?_ ?_ inv.time k (keys_base_of_not_optical S ok keys hk hc hno k hin)
  · intro k' hk'
    by_cases e : k' = .scalar
    · subst e; simp [Kw.set, hs]
    · simp [Kw.set, e, hb k' hk']
  · simp [Kw.set, hn]

theorem reconstruct_optical (a : Key → V) (inv : Inv S .opticalImage a) :
    ∀ k ∈ keys .opticalImage, construct S .opticalImage (metadataOf keys .opticalImage a) k = a k := by
  intro k hin
  have hc : Cls.opticalImage ∈ Cls.all := by simp [Cls.all]
  obtain ⟨hb, hn⟩ := md_facts S ok keys hk hc a
  obtain ⟨i1, i2, i3, i4⟩ := inv.optical rfl
  by_cases hcs : k = .color_space
  · subst hcs
    simp [construct, md_some hin, i4]
  · have hkb : k ∈ baseKeys := by
      have hkn := hk.known _ hc k hin
      simp only [List.mem_cons, List.not_mem_nil, or_false] at hkn
      rcases hkn with rfl | rfl | rfl | rfl | rfl | rfl | rfl | rfl | rfl | rfl | rfl
      all_goals first | (simp [baseKeys]; done) | exact absurd rfl hcs
    simp only [construct, hcs, if_false]
    refine constructBase_md S ok _ a ?_ ?_ inv.time k hkb
    · intro k' hk'
      by_cases e1 : k' = .scalar
      · subst e1; simp [Kw.set, i1]
      · by_cases e2 : k' = .indexing
        · subst e2; simp [Kw.set, i3]
        · by_cases e3 : k' = .space_dim
          · subst e3; simp [Kw.set, i2]
          · simp [Kw.set, e1, e2, e3, hb k' hk']
    · simp [Kw.set, hn]

/-- **metadata round trip** (parametric in the key table): the reloaded object has the saved class (a plain `Image`
holding scalar data comes back as `ScalarImage`, which has the same metadata keys) and `metadata()` of the reloaded
object equals the saved `metadata()`, key by key. -/
theorem roundtrip (c : Cls) (hc : c ∈ Cls.all) (a : Key → V) (inv : Inv S c a) :
    ((c = .image ∧ a .scalar = S.tru → (reload S (metadataOf keys c a)).1 = .scalarImage) ∧
     (¬ (c = .image ∧ a .scalar = S.tru) → (reload S (metadataOf keys c a)).1 = c)) ∧
    metadataOf keys (reload S (metadataOf keys c a)).1 (reload S (metadataOf keys c a)).2 = metadataOf keys c a := by
  obtain ⟨hb, _⟩ := md_facts S ok keys hk hc a
  have hscalar := hb .scalar (by simp [baseKeys])
  have htruthy : S.truthy (a .scalar) = true ↔ a .scalar = S.tru := by
    rcases inv.scalarBool with h | h
    · simp [h, ok.truthy_tru]
    · rw [h, ok.truthy_fls]
      constructor
      · intro e; cases e
      · intro e
        have h1 := ok.truthy_tru
        rw [← e, ok.truthy_fls] at h1
        cases h1
  have hcsIff := hk.cs c hc
  have hall := hc
  simp only [Cls.all, List.mem_cons, List.not_mem_nil, or_false] at hc
  rcases hc with rfl | rfl | rfl
  · have hcs : metadataOf keys .image a .color_space = Option.none :=
      md_none (fun h => by have := hcsIff.mp h; cases this)
    by_cases hs : a .scalar = S.tru
    · have ht := htruthy.mpr hs
      have e1 : reload S (metadataOf keys .image a) = (.scalarImage, construct S .scalarImage (metadataOf keys .image a)) := by
        simp [reload, npzDispatch, hcs, hscalar, ht]
      rw [e1]
      refine ⟨⟨fun _ => rfl, fun h => absurd ⟨rfl, hs⟩ h⟩, ?_⟩
      funext k
      simp only [metadataOf, ← hk.same]
      split
      · rename_i hin
        rw [reconstruct_scalar S ok keys hk hall a inv (by simp) hs k hin]
      · rfl
    · have ht : S.truthy (a .scalar) = false := by
        cases h : S.truthy (a .scalar) with
        | false => rfl
        | true => exact absurd (htruthy.mp h) hs
      have e1 : reload S (metadataOf keys .image a) = (.image, construct S .image (metadataOf keys .image a)) := by
        simp [reload, npzDispatch, hcs, hscalar, ht]
      rw [e1]
      refine ⟨⟨fun h => absurd h.2 hs, fun _ => rfl⟩, ?_⟩
      funext k
      simp only [metadataOf]
      split
      · rename_i hin
        rw [reconstruct_image S ok keys hk hall a inv (by simp) k hin]
      · rfl
  · have hcs : metadataOf keys .scalarImage a .color_space = Option.none :=
      md_none (fun h => by have := hcsIff.mp h; cases this)
    have hs := inv.scalarCls rfl
    have ht := htruthy.mpr hs
    have e1 : reload S (metadataOf keys .scalarImage a) =
        (.scalarImage, construct S .scalarImage (metadataOf keys .scalarImage a)) := by
      simp [reload, npzDispatch, hcs, hscalar, ht]
    rw [e1]
    refine ⟨⟨fun h => (by cases h.1), fun _ => rfl⟩, ?_⟩
    funext k
    simp only [metadataOf]
    split
    · rename_i hin
      rw [reconstruct_scalar S ok keys hk hall a inv (by simp) hs k hin]
    · rfl
  · have hin : Key.color_space ∈ keys .opticalImage := hcsIff.mpr rfl
    have e1 : reload S (metadataOf keys .opticalImage a) =
        (.opticalImage, construct S .opticalImage (metadataOf keys .opticalImage a)) := by
      simp [reload, npzDispatch, md_some hin]
    rw [e1]
    refine ⟨⟨fun h => (by cases h.1), fun _ => rfl⟩, ?_⟩
    funext k
    simp only [metadataOf]
    split
    · rename_i hin'
      rw [reconstruct_optical S ok keys hk a inv k hin']
    · rfl

end

end Darsia.Persist

namespace Darsia.Persist

section
variable {V : Type} (S : Sem V) (ok : S.OK) (keys : Cls → List Key) (hk : KeysOK keys)
include ok hk

/-- `ScalarImage(array, **probe.metadata())` for a probe of ANY class (the result of a reduced concentration analysis):
every physical metadata key of the probe comes back, `scalar` is forced to `True`, a `color_space` entry is ignored -/
theorem scalar_from_any {c : Cls} (hc : c ∈ Cls.all) (a : Key → V) (inv : Inv S c a) :
    (∀ k ∈ baseKeys, k ≠ .scalar → construct S .scalarImage (metadataOf keys c a) k = a k) ∧
    construct S .scalarImage (metadataOf keys c a) .scalar = S.tru := by
  obtain ⟨hb, hn⟩ := md_facts S ok keys hk hc a
  have key := constructBase_md S ok ((metadataOf keys c a).set .scalar S.tru)
    (fun k => if k = .scalar then S.tru else a k)
    (by intro k' hk'
        by_cases e : k' = .scalar
        · subst e; simp [Kw.set]
        · simp [Kw.set, e, hb k' hk'])
    (by simp [Kw.set, hn]) (by simpa using inv.time)
  constructor
  · intro k hkb hne
    have := key k hkb
    simpa [construct, hne] using this
  · have := key .scalar (by simp [baseKeys])
    simpa [construct] using this

/-- `type(probe)(array, **probe.metadata())` (the result when nothing was reduced): all metadata keys come back -/
theorem same_class_from_metadata {c : Cls} (hc : c ∈ Cls.all) (a : Key → V) (inv : Inv S c a) :
    ∀ k ∈ keys c, construct S c (metadataOf keys c a) k = a k := by
  have hall := hc
  simp only [Cls.all, List.mem_cons, List.not_mem_nil, or_false] at hc
  rcases hc with rfl | rfl | rfl
  · exact reconstruct_image S ok keys hk hall a inv (by simp)
  · exact reconstruct_scalar S ok keys hk hall a inv (by simp) (inv.scalarCls rfl)
  · exact reconstruct_optical S ok keys hk a inv

end

end Darsia.Persist
