/-
Lemmas for C16: normalisation (forgetting every cache) commutes with every operation of the fixed code,
and outputs do not depend on what normalisation forgets.
-/
import DarsiaModel.Stateful
namespace Darsia.Stateful

/-! ### forgetting caches -/

def Jac.norm (j : Jac) : Jac := { j with cache := none }
def MG.norm (m : MG) : MG := { m with smoother := m.smoother.norm }
def AA.norm (a : AA) : AA := AA.new a.depth a.restart
def WObj.norm (_ : WObj) : WObj := ⟨none⟩

/-- for the default-argument instances the parameters are forgotten as well: every use overwrites all of them -/
def Jac.normD (j : Jac) : Jac := { j with p := ⟨0, .unset, .unset⟩, cache := none }

def World.norm (w : World) : World :=
  { h1Default := w.h1Default.normD, sbDefault := w.sbDefault.normD, jacs := w.jacs.map Jac.norm,
    mgs := w.mgs.map MG.norm, aas := w.aas.map AA.norm, ws := w.ws.map WObj.norm }

theorem setAt_map {α β} (f : α → β) (l : List α) (i : Nat) (x : α) :
    (setAt l i x).map f = setAt (l.map f) i (f x) := by
  induction l generalizing i with
  | nil => rfl
  | cons a l ih =>
    cases i with
    | zero => rfl
    | succ i => simp [setAt, ih]

/-- replacing an element by one with the same normal form does not change the normalised list -/
theorem setAt_map_same {α β} (f : α → β) (l : List α) (i : Nat) (x y : α) (h : l[i]? = some y) (hf : f x = f y) :
    (setAt l i x).map f = l.map f := by
  induction l generalizing i with
  | nil => rfl
  | cons a l ih =>
    cases i with
    | zero => simp at h; simp [setAt, hf, h]
    | succ i => simp at h; simp [setAt, ih i h]

/-! ### Jacobi -/

@[simp] theorem Jac.norm_norm (j : Jac) : j.norm.norm = j.norm := rfl

@[simp] theorem Jac.call_out (j : Jac) (h : Rat) : (j.call false h).2 = ⟨⟨j.p, h⟩, j.maxiter, j.tol⟩ := rfl

@[simp] theorem Jac.call_norm (j : Jac) (h : Rat) : (j.call false h).1.norm = j.norm := rfl

theorem Jac.call_out_norm (j : Jac) (h : Rat) : (j.norm.call false h).2 = (j.call false h).2 := rfl

@[simp] theorem Jac.update_norm (j : Jac) (d : Option Nat) (m f : Option Coef) :
    (j.update d m f).norm = j.norm.update d m f := rfl

theorem jacCalls_norm (n : Nat) : ∀ (j : Jac),
    (jacCalls false n j).1.norm = j.norm ∧
      ∀ j' : Jac, j'.norm = j.norm → (jacCalls false n j').2 = (jacCalls false n j).2 := by
  induction n with
  | zero => intro j; exact ⟨rfl, fun _ _ => rfl⟩
  | succ n ih =>
    intro j
    have i := ih (j.call false 1).1
    constructor
    · show (jacCalls false n (j.call false 1).1).1.norm = j.norm
      rw [i.1]; rfl
    · intro j' e
      have e1 : (j'.call false 1).1.norm = (j.call false 1).1.norm := by
        rw [Jac.call_norm, Jac.call_norm, e]
      have a : j'.p = j.p := by have := congrArg Jac.p e; exact this
      have b : j'.maxiter = j.maxiter := by have := congrArg Jac.maxiter e; exact this
      have c : j'.tol = j.tol := by have := congrArg Jac.tol e; exact this
      show [MGEvent.smooth (j'.call false 1).2] :: (jacCalls false n (j'.call false 1).1).2
        = [MGEvent.smooth (j.call false 1).2] :: (jacCalls false n (j.call false 1).1).2
      rw [i.2 _ e1, Jac.call_out, Jac.call_out, a, b, c]

/-! ### multigrid -/

@[simp] theorem MG.norm_norm (m : MG) : m.norm.norm = m.norm := rfl

theorem MG.norm_fields {m m' : MG} (e : m'.norm = m.norm) :
    m'.p = m.p ∧ m'.maxiter = m.maxiter ∧ m'.depth = m.depth ∧ m'.smIter = m.smIter ∧
      m'.hetero = m.hetero ∧ m'.smoother.norm = m.smoother.norm := by
  have h1 := congrArg MG.p e
  have h2 := congrArg MG.maxiter e
  have h3 := congrArg MG.depth e
  have h4 := congrArg MG.smIter e
  have h5 := congrArg MG.hetero e
  have h6 := congrArg MG.smoother e
  exact ⟨h1, h2, h3, h4, h5, h6⟩

theorem MG.norm_of_fields {m m' : MG} (h1 : m'.p = m.p) (h2 : m'.maxiter = m.maxiter) (h3 : m'.depth = m.depth)
    (h4 : m'.smIter = m.smIter) (h5 : m'.hetero = m.hetero) (h6 : m'.smoother.norm = m.smoother.norm) :
    m'.norm = m.norm := by
  rcases m with ⟨p, a, b, c, d, s⟩
  rcases m' with ⟨p', a', b', c', d', s'⟩
  simp only at h1 h2 h3 h4 h5 h6
  subst h1 h2 h3 h4 h5
  simp only [MG.norm, h6]

theorem Jac.norm_fields {j j' : Jac} (e : j'.norm = j.norm) :
    j'.p = j.p ∧ j'.maxiter = j.maxiter ∧ j'.tol = j.tol := by
  have h1 := congrArg Jac.p e
  have h2 := congrArg Jac.maxiter e
  have h3 := congrArg Jac.tol e
  exact ⟨h1, h2, h3⟩

theorem Jac.call_out_of_norm {j j' : Jac} (e : j'.norm = j.norm) (h : Rat) :
    (j'.call false h).2 = (j.call false h).2 := by
  obtain ⟨a, b, c⟩ := Jac.norm_fields e
  simp only [Jac.call_out, a, b, c]

theorem MG.smooth_norm (m : MG) (h : Rat) : (m.smooth false h).1.norm = m.norm := rfl

theorem MG.smooth_event {m m' : MG} (e : m'.norm = m.norm) (h : Rat) :
    (m'.smooth false h).2 = (m.smooth false h).2 := by
  simp only [MG.smooth, Jac.call_out_of_norm (MG.norm_fields e).2.2.2.2.2 h]

theorem MG.pre_fst_norm (m : MG) (h : Rat) : (MG.pre false m h).1.norm = m.norm := rfl

theorem MG.pre_events {m m' : MG} (e : m'.norm = m.norm) (h : Rat) :
    (MG.pre false m' h).2.2 = (MG.pre false m h).2.2 := by
  simp only [MG.pre, MG.smooth_event e h]
  have : (m'.smooth false h).1.p = (m.smooth false h).1.p := (MG.norm_fields e).1
  rw [this]

theorem MG.restrict_of_norm {m m' : MG} (e : m'.norm = m.norm) : m'.restrictParams = m.restrictParams := by
  obtain ⟨a, b, c, d, f, _⟩ := MG.norm_fields e
  rcases m with ⟨p, a0, b0, c0, d0, s⟩
  rcases m' with ⟨p', a', b', c', d', s'⟩
  simp only at a b c d f
  subst a b c d f
  rfl

theorem MG.pre_snd_norm {m m' : MG} (e : m'.norm = m.norm) (h : Rat) :
    (MG.pre false m' h).2.1.norm = (MG.pre false m h).2.1.norm := by
  have e1 : (m'.smooth false h).1.norm = (m.smooth false h).1.norm := by
    rw [MG.smooth_norm, MG.smooth_norm, e]
  have hh : (m'.smooth false h).1.hetero = (m.smooth false h).1.hetero := (MG.norm_fields e1).2.2.2.2.1
  simp only [MG.pre, hh]
  split
  · rw [MG.restrict_of_norm e1]
  · exact e1

/-- the coarse-level object handed down has the flags of the fine one -/
theorem MG.pre_snd_fields (m : MG) (h : Rat) :
    (MG.pre false m h).2.1.maxiter = m.maxiter ∧ (MG.pre false m h).2.1.depth = m.depth ∧
      (MG.pre false m h).2.1.smIter = m.smIter ∧ (MG.pre false m h).2.1.hetero = m.hetero := by
  simp only [MG.pre]
  split <;> exact ⟨rfl, rfl, rfl, rfl⟩

theorem MG.post_event {m1 m1' m3 m3' : MG} (e1 : m1'.norm = m1.norm) (e3 : m3'.norm = m3.norm) (h : Rat) :
    (MG.post true false m1' m3' h).2 = (MG.post true false m1 m3 h).2 := by
  have hh : m3'.hetero = m3.hetero := (MG.norm_fields e3).2.2.2.2.1
  simp only [MG.post, hh, if_true]
  split
  · simp only [MG.smooth, Jac.call_out_of_norm (MG.norm_fields e1).2.2.2.2.2 h]
  · exact MG.smooth_event e3 h

/-- after the fix, the object after post-smoothing is the object after pre-smoothing up to caches,
provided the coarse level kept its flags -/
theorem MG.post_norm (m1 m3 : MG) (h : Rat) (f1 : m3.maxiter = m1.maxiter) (f2 : m3.depth = m1.depth)
    (f3 : m3.smIter = m1.smIter) (f4 : m3.hetero = m1.hetero)
    (f5 : m1.hetero = false → m3.norm = m1.norm) :
    (MG.post true false m1 m3 h).1.norm = m1.norm := by
  simp only [MG.post, if_true]
  rw [MG.smooth_norm]
  cases hh : m1.hetero
  · rw [hh] at f4
    simp only [f4, Bool.false_eq_true, if_false]
    exact f5 hh
  · rw [hh] at f4
    simp only [f4, if_true]
    exact MG.norm_of_fields rfl f1 f2 f3 (by simp [hh, f4]) rfl

/-- after the fix, a V-cycle leaves everything but caches as it found it, and what it reads does not
depend on caches -/
theorem MG.vcycle_norm (d : Nat) : ∀ (m : MG) (h : Rat),
    (MG.vcycle true false d m h).1.norm = m.norm ∧
      ∀ m' : MG, m'.norm = m.norm → (MG.vcycle true false d m' h).2 = (MG.vcycle true false d m h).2 := by
  induction d with
  | zero =>
    intro m h
    have pf := MG.pre_snd_fields m h
    constructor
    · show (MG.post true false (MG.pre false m h).1 ((MG.pre false m h).2.1.smooth false (2 * h)).1 h).1.norm = m.norm
      rw [MG.post_norm (MG.pre false m h).1 ((MG.pre false m h).2.1.smooth false (2 * h)).1 h pf.1 pf.2.1 pf.2.2.1 pf.2.2.2]
      · exact MG.pre_fst_norm m h
      · intro hf
        rw [MG.smooth_norm]
        have : (MG.pre false m h).2.1 = (MG.pre false m h).1 := by
          simp only [MG.pre] at hf ⊢; simp [hf]
        rw [this]
    · intro m' e
      have e1 : (MG.pre false m' h).1.norm = (MG.pre false m h).1.norm := by
        rw [MG.pre_fst_norm, MG.pre_fst_norm, e]
      have e2 := MG.pre_snd_norm e h
      have e3 : ((MG.pre false m' h).2.1.smooth false (2 * h)).1.norm
          = ((MG.pre false m h).2.1.smooth false (2 * h)).1.norm := by
        rw [MG.smooth_norm, MG.smooth_norm, e2]
      show (MG.pre false m' h).2.2 ++ [((MG.pre false m' h).2.1.smooth false (2 * h)).2]
            ++ [(MG.post true false (MG.pre false m' h).1 ((MG.pre false m' h).2.1.smooth false (2 * h)).1 h).2]
          = (MG.pre false m h).2.2 ++ [((MG.pre false m h).2.1.smooth false (2 * h)).2]
            ++ [(MG.post true false (MG.pre false m h).1 ((MG.pre false m h).2.1.smooth false (2 * h)).1 h).2]
      rw [MG.pre_events e h, MG.smooth_event e2 (2 * h), MG.post_event e1 e3 h]
  | succ d ih =>
    intro m h
    have pf := MG.pre_snd_fields m h
    have i := ih (MG.pre false m h).2.1 (2 * h)
    obtain ⟨_, g1, g2, g3, g4, _⟩ := MG.norm_fields i.1
    constructor
    · show (MG.post true false (MG.pre false m h).1 (MG.vcycle true false d (MG.pre false m h).2.1 (2 * h)).1 h).1.norm = m.norm
      rw [MG.post_norm (MG.pre false m h).1 (MG.vcycle true false d (MG.pre false m h).2.1 (2 * h)).1 h
        (g1.trans pf.1) (g2.trans pf.2.1) (g3.trans pf.2.2.1) (g4.trans pf.2.2.2)]
      · exact MG.pre_fst_norm m h
      · intro hf
        rw [i.1]
        have : (MG.pre false m h).2.1 = (MG.pre false m h).1 := by
          simp only [MG.pre] at hf ⊢; simp [hf]
        rw [this]
    · intro m' e
      have e1 : (MG.pre false m' h).1.norm = (MG.pre false m h).1.norm := by
        rw [MG.pre_fst_norm, MG.pre_fst_norm, e]
      have e2 := MG.pre_snd_norm e h
      have i' := ih (MG.pre false m' h).2.1 (2 * h)
      have e3 : (MG.vcycle true false d (MG.pre false m' h).2.1 (2 * h)).1.norm
          = (MG.vcycle true false d (MG.pre false m h).2.1 (2 * h)).1.norm := by
        rw [i'.1, i.1, e2]
      show (MG.pre false m' h).2.2 ++ (MG.vcycle true false d (MG.pre false m' h).2.1 (2 * h)).2
            ++ [(MG.post true false (MG.pre false m' h).1 (MG.vcycle true false d (MG.pre false m' h).2.1 (2 * h)).1 h).2]
          = (MG.pre false m h).2.2 ++ (MG.vcycle true false d (MG.pre false m h).2.1 (2 * h)).2
            ++ [(MG.post true false (MG.pre false m h).1 (MG.vcycle true false d (MG.pre false m h).2.1 (2 * h)).1 h).2]
      rw [MG.pre_events e h, i.2 _ e2, MG.post_event e1 e3 h]

theorem MG.cycles_norm (n : Nat) : ∀ (m : MG),
    (MG.cycles true false n m).1.norm = m.norm ∧
      ∀ m' : MG, m'.norm = m.norm → (MG.cycles true false n m').2 = (MG.cycles true false n m).2 := by
  induction n with
  | zero => intro m; exact ⟨rfl, fun _ _ => rfl⟩
  | succ n ih =>
    intro m
    have v := MG.vcycle_norm m.depth m 1
    have i := ih (MG.vcycle true false m.depth m 1).1
    constructor
    · show (MG.cycles true false n (MG.vcycle true false m.depth m 1).1).1.norm = m.norm
      rw [i.1, v.1]
    · intro m' e
      have hd : m'.depth = m.depth := (MG.norm_fields e).2.2.1
      have v' := MG.vcycle_norm m.depth m' 1
      have e1 : (MG.vcycle true false m.depth m' 1).1.norm = (MG.vcycle true false m.depth m 1).1.norm := by
        rw [v'.1, v.1, e]
      show (MG.vcycle true false m'.depth m' 1).2 ++ (MG.cycles true false n (MG.vcycle true false m'.depth m' 1).1).2
        = (MG.vcycle true false m.depth m 1).2 ++ (MG.cycles true false n (MG.vcycle true false m.depth m 1).1).2
      rw [hd, v.2 m' e, i.2 _ e1]

theorem MG.call_norm (m : MG) :
    (m.call true false).1.norm = m.norm ∧
      ∀ m' : MG, m'.norm = m.norm → (m'.call true false).2 = (m.call true false).2 := by
  constructor
  · exact (MG.cycles_norm m.maxiter m).1
  · intro m' e
    have hm : m'.maxiter = m.maxiter := (MG.norm_fields e).2.1
    show (MG.cycles true false m'.maxiter m').2 = (MG.cycles true false m.maxiter m).2
    rw [hm]; exact (MG.cycles_norm m.maxiter m).2 m' e

@[simp] theorem MG.update_norm (m : MG) (d : Option Nat) (ma f : Option Coef) :
    (m.update d ma f).norm = m.norm.update d ma f := rfl

theorem mgCalls_norm (n : Nat) : ∀ (m : MG),
    (mgCalls true false n m).1.norm = m.norm ∧
      ∀ m' : MG, m'.norm = m.norm → (mgCalls true false n m').2 = (mgCalls true false n m).2 := by
  induction n with
  | zero => intro m; exact ⟨rfl, fun _ _ => rfl⟩
  | succ n ih =>
    intro m
    have c := MG.call_norm m
    have i := ih (m.call true false).1
    constructor
    · show (mgCalls true false n (m.call true false).1).1.norm = m.norm
      rw [i.1, c.1]
    · intro m' e
      have c' := MG.call_norm m'
      have e1 : (m'.call true false).1.norm = (m.call true false).1.norm := by rw [c'.1, c.1, e]
      show (m'.call true false).2 :: (mgCalls true false n (m'.call true false).1).2
        = (m.call true false).2 :: (mgCalls true false n (m.call true false).1).2
      rw [c.2 m' e, i.2 _ e1]

/-! ### Anderson acceleration: a run that starts at iteration 0 resets everything first -/

theorem AA.call_zero (a : AA) (d : Nat) : a.call d 0 = a.norm.call d 0 := by
  rcases a with ⟨depth, restart, ready, cols, prev⟩
  cases restart <;> simp [AA.call, AA.norm, AA.new]

theorem AA.call_fields (a : AA) (d it : Nat) :
    (a.call d it).1.depth = a.depth ∧ (a.call d it).1.restart = a.restart := by
  unfold AA.call
  dsimp only
  repeat' split
  all_goals (first | exact ⟨rfl, rfl⟩ | simp_all)

theorem AA.run_fields (a : AA) (s : Nat) (ds : List Nat) :
    (a.run s ds).1.depth = a.depth ∧ (a.run s ds).1.restart = a.restart := by
  induction ds generalizing a s with
  | nil => exact ⟨rfl, rfl⟩
  | cons d ds ih =>
    simp only [AA.run]
    have := ih (a.call d s).1 (s + 1)
    have f := AA.call_fields a d s
    exact ⟨this.1.trans f.1, this.2.trans f.2⟩

theorem AA.run_norm (a : AA) (ds : List Nat) :
    (a.run 0 ds).1.norm = a.norm ∧ (a.norm.run 0 ds).2 = (a.run 0 ds).2 := by
  constructor
  · have := AA.run_fields a 0 ds
    simp [AA.norm, this.1, this.2]
  · cases ds with
    | nil => rfl
    | cons d ds => simp only [AA.run]; rw [← AA.call_zero a d]

/-! ### Wasserstein object: the first linear solve of a distance computation sets the solver up -/

theorem WObj.solve_norm (b : Nat) (w : WObj) (data n : Nat) :
    (w.norm.solve b data 0 n).2 = (w.solve b data 0 n).2 := by
  simp [WObj.solve, WObj.linearSolve, WObj.norm]

/-! ### the process -/

theorem lookup_of_map_eq {α β} (f : α → β) {l l' : List α} (e : l'.map f = l.map f) (i : Nat) :
    (l'[i]? = none ∧ l[i]? = none) ∨ ∃ x' x, l'[i]? = some x' ∧ l[i]? = some x ∧ f x' = f x := by
  have := congrArg (fun k => k[i]?) e
  simp only [List.getElem?_map] at this
  cases h' : l'[i]? <;> cases h : l[i]? <;> simp_all

theorem setAt_map_rel {α β} (f : α → β) {l l' : List α} (e : l'.map f = l.map f) (i : Nat) {x x' : α}
    (hx : f x' = f x) : (setAt l' i x').map f = (setAt l i x).map f := by
  rw [setAt_map, setAt_map, e, hx]

theorem World.norm_fields {w w' : World} (e : w'.norm = w.norm) :
    w'.h1Default.normD = w.h1Default.normD ∧ w'.sbDefault.normD = w.sbDefault.normD ∧
    w'.jacs.map Jac.norm = w.jacs.map Jac.norm ∧ w'.mgs.map MG.norm = w.mgs.map MG.norm ∧
    w'.aas.map AA.norm = w.aas.map AA.norm ∧ w'.ws.map WObj.norm = w.ws.map WObj.norm := by
  have h1 := congrArg World.h1Default e
  have h2 := congrArg World.sbDefault e
  have h3 := congrArg World.jacs e
  have h4 := congrArg World.mgs e
  have h5 := congrArg World.aas e
  have h6 := congrArg World.ws e
  exact ⟨h1, h2, h3, h4, h5, h6⟩

theorem World.norm_of_fields {a a' b b' : Jac} {js js' : List Jac} {ms ms' : List MG} {as as' : List AA}
    {os os' : List WObj} (h1 : a'.normD = a.normD) (h2 : b'.normD = b.normD)
    (h3 : js'.map Jac.norm = js.map Jac.norm) (h4 : ms'.map MG.norm = ms.map MG.norm)
    (h5 : as'.map AA.norm = as.map AA.norm) (h6 : os'.map WObj.norm = os.map WObj.norm) :
    (World.mk a' b' js' ms' as' os').norm = (World.mk a b js ms as os).norm := by
  simp only [World.norm, h1, h2, h3, h4, h5, h6]

theorem Jac.normD_update {j j' : Jac} (e : j'.normD = j.normD) (d : Nat) (m f : Coef) :
    (j'.update (some d) (some m) (some f)).norm = (j.update (some d) (some m) (some f)).norm := by
  have h1 : j'.maxiter = j.maxiter := by have := congrArg Jac.maxiter e; exact this
  have h2 : j'.tol = j.tol := by have := congrArg Jac.tol e; exact this
  simp only [Jac.update, Params.update, Jac.norm, Option.getD_some, h1, h2]

theorem Jac.normD_of_norm {j j' : Jac} (e : j'.norm = j.norm) : j'.normD = j.normD := by
  obtain ⟨_, b, c⟩ := Jac.norm_fields e
  simp only [Jac.normD, b, c]

theorem Jac.update_rel {j j' : Jac} (e : j'.norm = j.norm) (d : Option Nat) (m f : Option Coef) :
    (j'.update d m f).norm = (j.update d m f).norm := by
  rw [Jac.update_norm, Jac.update_norm, e]

theorem MG.update_rel {m m' : MG} (e : m'.norm = m.norm) (d : Option Nat) (ma f : Option Coef) :
    (m'.update d ma f).norm = (m.update d ma f).norm := by
  rw [MG.update_norm, MG.update_norm, e]

/-- regularisers: output and new state (up to caches) depend on the old state only up to caches -/
theorem regularise_rel {w w' : World} (e : w'.norm = w.norm) (which : Bool) (s : SolverRef) (mass diff : Coef)
    (dim n : Nat) :
    (regularise true false w' which s mass diff dim n).2 = (regularise true false w which s mass diff dim n).2 ∧
    (regularise true false w' which s mass diff dim n).1.norm = (regularise true false w which s mass diff dim n).1.norm := by
  obtain ⟨e1, e2, e3, e4, e5, e6⟩ := World.norm_fields e
  cases s with
  | default =>
    cases which
    · have u := Jac.normD_update e2 dim mass diff
      have c := jacCalls_norm n (w.sbDefault.update (some dim) (some mass) (some diff))
      have c' := jacCalls_norm n (w'.sbDefault.update (some dim) (some mass) (some diff))
      constructor
      · simp only [regularise, Bool.false_eq_true, if_false]
        rw [c.2 _ u]
      · simp only [regularise, Bool.false_eq_true, if_false]
        apply World.norm_of_fields e1 _ e3 e4 e5 e6
        exact Jac.normD_of_norm (by rw [c'.1, c.1, u])
    · have u := Jac.normD_update e1 dim mass diff
      have c := jacCalls_norm n (w.h1Default.update (some dim) (some mass) (some diff))
      have c' := jacCalls_norm n (w'.h1Default.update (some dim) (some mass) (some diff))
      constructor
      · simp only [regularise, if_true]
        rw [c.2 _ u]
      · simp only [regularise, if_true]
        apply World.norm_of_fields _ e2 e3 e4 e5 e6
        exact Jac.normD_of_norm (by rw [c'.1, c.1, u])
  | jac i =>
    rcases lookup_of_map_eq Jac.norm e3 i with ⟨h', h⟩ | ⟨j', j, h', h, hj⟩
    · simp only [regularise, h', h]; exact ⟨trivial, e⟩
    · have u := Jac.update_rel hj (some dim) (some mass) (some diff)
      have c := jacCalls_norm n (j.update (some dim) (some mass) (some diff))
      have c' := jacCalls_norm n (j'.update (some dim) (some mass) (some diff))
      simp only [regularise, h', h]
      constructor
      · rw [c.2 _ u]
      · apply World.norm_of_fields e1 e2 _ e4 e5 e6
        exact setAt_map_rel Jac.norm e3 i (by rw [c'.1, c.1, u])
  | mg i =>
    rcases lookup_of_map_eq MG.norm e4 i with ⟨h', h⟩ | ⟨m', m, h', h, hm⟩
    · simp only [regularise, h', h]; exact ⟨trivial, e⟩
    · have u := MG.update_rel hm (some dim) (some mass) (some diff)
      have c := mgCalls_norm n (m.update (some dim) (some mass) (some diff))
      have c' := mgCalls_norm n (m'.update (some dim) (some mass) (some diff))
      simp only [regularise, h', h]
      constructor
      · rw [c.2 _ u]
      · apply World.norm_of_fields e1 e2 e3 _ e5 e6
        exact setAt_map_rel MG.norm e4 i (by rw [c'.1, c.1, u])

/-- every operation: output and new state (up to caches) depend on the old state only up to caches -/
theorem step_rel {w w' : World} (e : w'.norm = w.norm) (op : Op) :
    (step true false w' op).2 = (step true false w op).2 ∧
    (step true false w' op).1.norm = (step true false w op).1.norm := by
  obtain ⟨e1, e2, e3, e4, e5, e6⟩ := World.norm_fields e
  cases op with
  | jacCall i h d =>
    rcases lookup_of_map_eq Jac.norm e3 i with ⟨h', h0⟩ | ⟨j', j, h', h0, hj⟩
    · simp only [step, h', h0]; exact ⟨trivial, e⟩
    · simp only [step, h', h0]
      refine ⟨by rw [Jac.call_out_of_norm hj h], ?_⟩
      apply World.norm_of_fields e1 e2 _ e4 e5 e6
      exact setAt_map_rel Jac.norm e3 i (by rw [Jac.call_norm, Jac.call_norm, hj])
  | jacUpdate i dm ma df =>
    rcases lookup_of_map_eq Jac.norm e3 i with ⟨h', h0⟩ | ⟨j', j, h', h0, hj⟩
    · simp only [step, h', h0]; exact ⟨trivial, e⟩
    · simp only [step, h', h0]
      refine ⟨trivial, ?_⟩
      apply World.norm_of_fields e1 e2 _ e4 e5 e6
      exact setAt_map_rel Jac.norm e3 i (Jac.update_rel hj dm ma df)
  | mgCall i d =>
    rcases lookup_of_map_eq MG.norm e4 i with ⟨h', h0⟩ | ⟨m', m, h', h0, hm⟩
    · simp only [step, h', h0]; exact ⟨trivial, e⟩
    · simp only [step, h', h0]
      have c := MG.call_norm m
      have c' := MG.call_norm m'
      refine ⟨by rw [c.2 _ hm], ?_⟩
      apply World.norm_of_fields e1 e2 e3 _ e5 e6
      exact setAt_map_rel MG.norm e4 i (by rw [c'.1, c.1, hm])
  | mgUpdate i dm ma df =>
    rcases lookup_of_map_eq MG.norm e4 i with ⟨h', h0⟩ | ⟨m', m, h', h0, hm⟩
    · simp only [step, h', h0]; exact ⟨trivial, e⟩
    · simp only [step, h', h0]
      refine ⟨trivial, ?_⟩
      apply World.norm_of_fields e1 e2 e3 _ e5 e6
      exact setAt_map_rel MG.norm e4 i (MG.update_rel hm dm ma df)
  | h1 s mu omega dim ch d => exact regularise_rel e true s omega mu dim ch
  | sb s ell omega dim it d => exact regularise_rel e false s omega ell dim it
  | anderson i ds =>
    rcases lookup_of_map_eq AA.norm e5 i with ⟨h', h0⟩ | ⟨a', a, h', h0, ha⟩
    · simp only [step, h', h0]; exact ⟨trivial, e⟩
    · simp only [step, h', h0]
      have r := AA.run_norm a ds
      have r' := AA.run_norm a' ds
      refine ⟨by rw [← r'.2, ← r.2, ha], ?_⟩
      apply World.norm_of_fields e1 e2 e3 e4 _ e6
      exact setAt_map_rel AA.norm e5 i (by rw [r'.1, r.1, ha])
  | distance i b d it =>
    rcases lookup_of_map_eq WObj.norm e6 i with ⟨h', h0⟩ | ⟨o', o, h', h0, ho⟩
    · simp only [step, h', h0]; exact ⟨trivial, e⟩
    · simp only [step, h', h0]
      refine ⟨by rw [← WObj.solve_norm b o', ← WObj.solve_norm b o, ho], ?_⟩
      apply World.norm_of_fields e1 e2 e3 e4 e5 _
      exact setAt_map_rel WObj.norm e6 i rfl

theorem run_rel {w w' : World} (e : w'.norm = w.norm) (ops : List Op) :
    (run true false w' ops).norm = (run true false w ops).norm := by
  induction ops generalizing w w' with
  | nil => exact e
  | cons op ops ih => exact ih (step_rel e op).2

theorem run_append (r k : Bool) (w : World) (a b : List Op) :
    run r k w (a ++ b) = run r k (run r k w a) b := by
  induction a generalizing w with
  | nil => rfl
  | cons x xs ih => exact ih _

theorem outs_append (r k : Bool) (w : World) (ops : List Op) (op : Op) :
    outs r k w (ops ++ [op]) = outs r k w ops ++ [(step r k (run r k w ops) op).2] := by
  induction ops generalizing w with
  | nil => rfl
  | cons x xs ih => simp only [List.cons_append, outs, run, ih]

/-! ### solves leave nothing behind but what `update_params` sets -/

theorem jacCalls_normD (n : Nat) (j : Jac) (d : Nat) (m f : Coef) :
    (jacCalls false n (j.update (some d) (some m) (some f))).1.normD = j.normD := by
  have := (jacCalls_norm n (j.update (some d) (some m) (some f))).1
  rw [Jac.normD_of_norm this]; rfl

/-- the state after an operation equals, up to caches, the state after its parameter-setting part -/
theorem step_settings (w : World) (op : Op) :
    (step true false w op).1.norm = (run true false w op.settingPart).norm := by
  rcases w with ⟨a, b, js, ms, as, os⟩
  cases op with
  | jacCall i h d =>
    simp only [step, Op.settingPart, run]
    cases hj : js[i]? with
    | none => rfl
    | some j =>
      simp only
      apply World.norm_of_fields rfl rfl _ rfl rfl rfl
      exact setAt_map_same Jac.norm js i _ j hj (Jac.call_norm j h)
  | jacUpdate i dm ma df => rfl
  | mgCall i d =>
    simp only [step, Op.settingPart, run]
    cases hm : ms[i]? with
    | none => rfl
    | some m =>
      simp only
      apply World.norm_of_fields rfl rfl rfl _ rfl rfl
      exact setAt_map_same MG.norm ms i _ m hm (MG.call_norm m).1
  | mgUpdate i dm ma df => rfl
  | h1 s mu omega dim ch d =>
    cases s with
    | default =>
      simp only [step, regularise, Op.settingPart, run, if_true]
      exact World.norm_of_fields (jacCalls_normD ch a dim omega mu) rfl rfl rfl rfl rfl
    | jac i =>
      simp only [step, regularise, Op.settingPart, run]
      cases hj : js[i]? with
      | none => rfl
      | some j =>
        simp only
        apply World.norm_of_fields rfl rfl _ rfl rfl rfl
        exact setAt_map_rel Jac.norm rfl i (jacCalls_norm ch _).1
    | mg i =>
      simp only [step, regularise, Op.settingPart, run]
      cases hm : ms[i]? with
      | none => rfl
      | some m =>
        simp only
        apply World.norm_of_fields rfl rfl rfl _ rfl rfl
        exact setAt_map_rel MG.norm rfl i (mgCalls_norm ch _).1
  | sb s ell omega dim it d =>
    cases s with
    | default =>
      simp only [step, regularise, Op.settingPart, run, Bool.false_eq_true, if_false]
      exact World.norm_of_fields rfl (jacCalls_normD it b dim omega ell) rfl rfl rfl rfl
    | jac i =>
      simp only [step, regularise, Op.settingPart, run]
      cases hj : js[i]? with
      | none => rfl
      | some j =>
        simp only
        apply World.norm_of_fields rfl rfl _ rfl rfl rfl
        exact setAt_map_rel Jac.norm rfl i (jacCalls_norm it _).1
    | mg i =>
      simp only [step, regularise, Op.settingPart, run]
      cases hm : ms[i]? with
      | none => rfl
      | some m =>
        simp only
        apply World.norm_of_fields rfl rfl rfl _ rfl rfl
        exact setAt_map_rel MG.norm rfl i (mgCalls_norm it _).1
  | anderson i ds =>
    simp only [step, Op.settingPart, run]
    cases ha : as[i]? with
    | none => rfl
    | some x =>
      simp only
      apply World.norm_of_fields rfl rfl rfl rfl _ rfl
      exact setAt_map_same AA.norm as i _ x ha (AA.run_norm x ds).1
  | distance i bb d it =>
    simp only [step, Op.settingPart, run]
    cases ho : os[i]? with
    | none => rfl
    | some o =>
      simp only
      apply World.norm_of_fields rfl rfl rfl rfl rfl _
      exact setAt_map_same WObj.norm os i _ o ho rfl

theorem run_settings (w w' : World) (e : w'.norm = w.norm) (ops : List Op) :
    (run true false w' (ops.flatMap Op.settingPart)).norm = (run true false w ops).norm := by
  induction ops generalizing w w' with
  | nil => exact e
  | cons op ops ih =>
    simp only [List.flatMap_cons, run_append, run]
    apply ih
    rw [step_settings w op]
    exact run_rel e op.settingPart

/-- parameter-setting operations touch only the user's Jacobi / MG objects -/
theorem settings_frame (w : World) (ops : List Op) :
    (run true false w (ops.flatMap Op.settingPart)).h1Default = w.h1Default ∧
    (run true false w (ops.flatMap Op.settingPart)).sbDefault = w.sbDefault ∧
    (run true false w (ops.flatMap Op.settingPart)).aas = w.aas ∧
    (run true false w (ops.flatMap Op.settingPart)).ws = w.ws := by
  induction ops generalizing w with
  | nil => exact ⟨rfl, rfl, rfl, rfl⟩
  | cons op ops ih =>
    simp only [List.flatMap_cons, run_append]
    have key : (run true false w op.settingPart).h1Default = w.h1Default ∧
        (run true false w op.settingPart).sbDefault = w.sbDefault ∧
        (run true false w op.settingPart).aas = w.aas ∧ (run true false w op.settingPart).ws = w.ws := by
      cases op with
      | jacCall => exact ⟨rfl, rfl, rfl, rfl⟩
      | mgCall => exact ⟨rfl, rfl, rfl, rfl⟩
      | anderson => exact ⟨rfl, rfl, rfl, rfl⟩
      | distance => exact ⟨rfl, rfl, rfl, rfl⟩
      | jacUpdate i _ _ _ =>
        simp only [Op.settingPart, run, step]; cases w.jacs[i]? <;> exact ⟨rfl, rfl, rfl, rfl⟩
      | mgUpdate i _ _ _ =>
        simp only [Op.settingPart, run, step]; cases w.mgs[i]? <;> exact ⟨rfl, rfl, rfl, rfl⟩
      | h1 s _ _ _ _ _ =>
        cases s with
        | default => exact ⟨rfl, rfl, rfl, rfl⟩
        | jac i => simp only [Op.settingPart, run, step]; cases w.jacs[i]? <;> exact ⟨rfl, rfl, rfl, rfl⟩
        | mg i => simp only [Op.settingPart, run, step]; cases w.mgs[i]? <;> exact ⟨rfl, rfl, rfl, rfl⟩
      | sb s _ _ _ _ _ =>
        cases s with
        | default => exact ⟨rfl, rfl, rfl, rfl⟩
        | jac i => simp only [Op.settingPart, run, step]; cases w.jacs[i]? <;> exact ⟨rfl, rfl, rfl, rfl⟩
        | mg i => simp only [Op.settingPart, run, step]; cases w.mgs[i]? <;> exact ⟨rfl, rfl, rfl, rfl⟩
    have := ih (run true false w op.settingPart)
    exact ⟨this.1.trans key.1, this.2.1.trans key.2.1, this.2.2.1.trans key.2.2.1, this.2.2.2.trans key.2.2.2⟩

/-- self-contained operations read only the default instances, the Anderson and the distance objects -/
theorem selfContained_frame (w w' : World) (op : Op) (hop : op.selfContained = true)
    (h1 : w'.h1Default = w.h1Default) (h2 : w'.sbDefault = w.sbDefault) (h3 : w'.aas = w.aas) (h4 : w'.ws = w.ws) :
    (step true false w' op).2 = (step true false w op).2 := by
  cases op with
  | h1 s _ _ _ _ _ => cases s <;> simp_all [Op.selfContained, step, regularise]
  | sb s _ _ _ _ _ => cases s <;> simp_all [Op.selfContained, step, regularise]
  | anderson i ds => simp only [step, h3]; cases w.aas[i]? <;> rfl
  | distance i b d it => simp only [step, h4]; cases w.ws[i]? <;> rfl
  | jacCall => simp [Op.selfContained] at hop
  | jacUpdate => simp [Op.selfContained] at hop
  | mgCall => simp [Op.selfContained] at hop
  | mgUpdate => simp [Op.selfContained] at hop

/-! ### regularisers overwrite every parameter of the solver they are given -/

/-- forget the caches AND the parameters `dim`, `mass_coeff`, `diffusion_coeff` of every solver object -/
def MG.normP (m : MG) : MG := { m with p := ⟨0, .unset, .unset⟩, smoother := m.smoother.normD }

def World.normP (w : World) : World :=
  { h1Default := w.h1Default.normD, sbDefault := w.sbDefault.normD, jacs := w.jacs.map Jac.normD,
    mgs := w.mgs.map MG.normP, aas := w.aas.map AA.norm, ws := w.ws.map WObj.norm }

theorem Jac.normD_norm (j : Jac) : j.norm.normD = j.normD := rfl
theorem MG.normP_norm (m : MG) : m.norm.normP = m.normP := rfl

theorem World.normP_norm (w : World) : w.norm.normP = w.normP := by
  simp only [World.normP, World.norm, List.map_map]
  congr 1

theorem World.normP_of_norm {w w' : World} (e : w'.norm = w.norm) : w'.normP = w.normP := by
  rw [← World.normP_norm w', ← World.normP_norm w, e]

theorem Jac.normD_update_any (j : Jac) (d : Option Nat) (m f : Option Coef) : (j.update d m f).normD = j.normD := rfl
theorem MG.normP_update_any (m : MG) (d : Option Nat) (ma f : Option Coef) : (m.update d ma f).normP = m.normP := rfl

/-- parameter-setting operations are invisible after forgetting parameters -/
theorem setting_normP (w : World) (op : Op) : (run true false w op.settingPart).normP = w.normP := by
  rcases w with ⟨a, b, js, ms, as, os⟩
  have hj : ∀ i d m f, (run true false ⟨a, b, js, ms, as, os⟩ [Op.jacUpdate i d m f]).normP = (World.mk a b js ms as os).normP := by
    intro i d m f
    simp only [run, step]
    cases hh : js[i]? with
    | none => rfl
    | some j =>
      simp only [World.normP]
      rw [setAt_map_same Jac.normD js i _ j hh (Jac.normD_update_any j d m f)]
  have hm : ∀ i d m f, (run true false ⟨a, b, js, ms, as, os⟩ [Op.mgUpdate i d m f]).normP = (World.mk a b js ms as os).normP := by
    intro i d m f
    simp only [run, step]
    cases hh : ms[i]? with
    | none => rfl
    | some x =>
      simp only [World.normP]
      rw [setAt_map_same MG.normP ms i _ x hh (MG.normP_update_any x d m f)]
  cases op with
  | jacCall => rfl
  | mgCall => rfl
  | anderson => rfl
  | distance => rfl
  | jacUpdate i d m f => exact hj i d m f
  | mgUpdate i d m f => exact hm i d m f
  | h1 s mu om dim ch dd =>
    cases s with
    | default => rfl
    | jac i => exact hj i _ _ _
    | mg i => exact hm i _ _ _
  | sb s ell om dim it dd =>
    cases s with
    | default => rfl
    | jac i => exact hj i _ _ _
    | mg i => exact hm i _ _ _

/-- no operation changes anything but caches and parameters -/
theorem step_normP (w : World) (op : Op) : (step true false w op).1.normP = w.normP := by
  rw [World.normP_of_norm (step_settings w op), setting_normP]

theorem run_normP (w : World) (ops : List Op) : (run true false w ops).normP = w.normP := by
  induction ops generalizing w with
  | nil => rfl
  | cons op ops ih => simp only [run]; rw [ih, step_normP]

theorem World.normP_fields {w w' : World} (e : w'.normP = w.normP) :
    w'.h1Default.normD = w.h1Default.normD ∧ w'.sbDefault.normD = w.sbDefault.normD ∧
    w'.jacs.map Jac.normD = w.jacs.map Jac.normD ∧ w'.mgs.map MG.normP = w.mgs.map MG.normP := by
  have h1 := congrArg World.h1Default e
  have h2 := congrArg World.sbDefault e
  have h3 := congrArg World.jacs e
  have h4 := congrArg World.mgs e
  exact ⟨h1, h2, h3, h4⟩

theorem MG.normP_update {m m' : MG} (e : m'.normP = m.normP) (d : Nat) (ma f : Coef) :
    (m'.update (some d) (some ma) (some f)).norm = (m.update (some d) (some ma) (some f)).norm := by
  have h2 : m'.maxiter = m.maxiter := by have := congrArg MG.maxiter e; exact this
  have h3 : m'.depth = m.depth := by have := congrArg MG.depth e; exact this
  have h4 : m'.smIter = m.smIter := by have := congrArg MG.smIter e; exact this
  have h5 : m'.hetero = m.hetero := by have := congrArg MG.hetero e; exact this
  have h6 : m'.smoother.normD = m.smoother.normD := by have := congrArg MG.smoother e; exact this
  exact MG.norm_of_fields (m := m.update (some d) (some ma) (some f)) (m' := m'.update (some d) (some ma) (some f))
    rfl h2 h3 h4 h5 (Jac.normD_update h6 d ma f)

/-- a regulariser's result does not depend on the parameters (or caches) of the solver object it is given -/
theorem regularise_normP {w w' : World} (e : w'.normP = w.normP) (which : Bool) (s : SolverRef) (mass diff : Coef) (dim n : Nat) :
    (regularise true false w' which s mass diff dim n).2 = (regularise true false w which s mass diff dim n).2 := by
  obtain ⟨e1, e2, e3, e4⟩ := World.normP_fields e
  cases s with
  | default =>
    cases which
    · simp only [regularise, Bool.false_eq_true, if_false]
      rw [(jacCalls_norm n _).2 _ (Jac.normD_update e2 dim mass diff)]
    · simp only [regularise, if_true]
      rw [(jacCalls_norm n _).2 _ (Jac.normD_update e1 dim mass diff)]
  | jac i =>
    rcases lookup_of_map_eq Jac.normD e3 i with ⟨h', h⟩ | ⟨j', j, h', h, hj⟩
    · simp only [regularise, h', h]
    · simp only [regularise, h', h]
      rw [(jacCalls_norm n _).2 _ (Jac.normD_update hj dim mass diff)]
  | mg i =>
    rcases lookup_of_map_eq MG.normP e4 i with ⟨h', h⟩ | ⟨m', m, h', h, hm⟩
    · simp only [regularise, h', h]
    · simp only [regularise, h', h]
      rw [(mgCalls_norm n _).2 _ (MG.normP_update hm dim mass diff)]

end Darsia.Stateful
