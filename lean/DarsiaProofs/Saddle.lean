/-
Algebra of the mixed flux/pressure/multiplier saddle-point system used by
`darsia.measure.wasserstein.VariationalWassersteinDistance` (C08, C04).

Everything is stated over an arbitrary field `K`, arbitrary finite index types `F` (faces) and
`C` (cells), an ABSTRACT divergence matrix `D : C → F → K` and an arbitrary pinned cell `k`.
The only structural facts about `D` that are ever used are the explicit hypotheses
`ColSumZero D` (1ᵀD = 0, proved for the concrete FV divergence elsewhere) and the positivity /
invertibility of the diagonal flux block `w`.

Full block system (unknowns `u : F → K`, `p : C → K`, `lam : K`, right-hand side `(g, f, r)`):

    [ W   −Dᵀ   0  ] [u]     [g]
    [ D    0   −cᵀ ] [p]  =  [f]        W = diag w,  c = e_kᵀ
    [ 0    c    0  ] [lam]   [r]
-/
import Mathlib.Algebra.BigOperators.Ring.Finset
import Mathlib.Algebra.BigOperators.Group.Finset.Sigma
import Mathlib.Algebra.BigOperators.Group.Finset.Piecewise
import Mathlib.Algebra.Field.Basic
import Mathlib.Tactic.Ring
import Mathlib.Tactic.LinearCombination
import Mathlib.Tactic.FieldSimp

namespace Darsia.Saddle
open Finset

variable {K : Type*} [Field K] {F C : Type*} [Fintype F] [Fintype C] [DecidableEq C]

/-- `D u` : divergence of a face flux -/
def div (D : C → F → K) (u : F → K) (c : C) : K := ∑ e, D c e * u e

/-- `Dᵀ p` -/
def divT (D : C → F → K) (p : C → K) (e : F) : K := ∑ c, D c e * p c

/-- `cᵀ lam` : the multiplier enters the mass balance of the pinned cell only -/
def ind (k c : C) (x : K) : K := if c = k then x else 0

/-- `1ᵀ D = 0`: every face flux leaves one cell and enters another (or is a boundary-free interior
face); the defining structural property of a conservative divergence. -/
def ColSumZero (D : C → F → K) : Prop := ∀ e, ∑ c, D c e = 0

/-- second block row: discrete mass balance with the multiplier term -/
def Balanced (D : C → F → K) (k : C) (f : C → K) (u : F → K) (lam : K) : Prop :=
  ∀ c, div D u c - ind k c lam = f c

/-- the full 3×3 block system -/
structure Full (w : F → K) (D : C → F → K) (k : C) (g : F → K) (f : C → K) (r : K)
    (u : F → K) (p : C → K) (lam : K) : Prop where
  flux : ∀ e, w e * u e - divT D p e = g e
  mass : Balanced D k f u lam
  pin : p k = r

/-- Schur complement `D W⁻¹ Dᵀ` of the diagonal flux block -/
def schur (w : F → K) (D : C → F → K) (c c' : C) : K := ∑ e, D c e * ((w e)⁻¹ * D c' e)

/-- right-hand side after block Gauss elimination: `f − D W⁻¹ g` (`eliminate_flux`) -/
def redRhs (w : F → K) (D : C → F → K) (g : F → K) (f : C → K) (c : C) : K :=
  f c - ∑ e, D c e * ((w e)⁻¹ * g e)

/-- the flux-eliminated ("flux_reduced") system in `(p, lam)` -/
structure Reduced (w : F → K) (D : C → F → K) (k : C) (g : F → K) (f : C → K) (r : K)
    (p : C → K) (lam : K) : Prop where
  mass : ∀ c, (∑ c', schur w D c c' * p c') - ind k c lam = redRhs w D g f c
  pin : p k = r

/-- `compute_flux_update`: `u = W⁻¹ (g + Dᵀ p)` -/
def fluxUpdate (w : F → K) (D : C → F → K) (g : F → K) (p : C → K) (e : F) : K :=
  (w e)⁻¹ * (g e + divT D p e)

/-- the pure pressure ("pressure") system: row and column `k` (and the multiplier row/column) of the
reduced system dropped, `p k` pinned to zero -/
structure Pinned (w : F → K) (D : C → F → K) (k : C) (g : F → K) (f : C → K) (p : C → K) : Prop where
  eqs : ∀ c, c ≠ k → ∑ c' ∈ univ.erase k, schur w D c c' * p c' = redRhs w D g f c
  pin : p k = 0

/-! ### basic sum identities -/

omit [DecidableEq C] in
theorem sum_div (D : C → F → K) (u : F → K) : ∑ c, div D u c = ∑ e, (∑ c, D c e) * u e := by
  unfold div
  rw [sum_comm]
  exact sum_congr rfl fun e _ => (sum_mul _ _ _).symm

omit [DecidableEq C] in
theorem sum_div_zero {D : C → F → K} (hD : ColSumZero D) (u : F → K) : ∑ c, div D u c = 0 := by
  rw [sum_div]
  exact sum_eq_zero fun e _ => by rw [hD e, zero_mul]

theorem sum_ind (k : C) (x : K) : ∑ c, ind k c x = x := by
  unfold ind
  rw [sum_ite_eq' univ k (fun _ => x)]
  simp

omit [DecidableEq C] in
theorem div_add (D : C → F → K) (u v : F → K) (c : C) :
    div D (fun e => u e + v e) c = div D u c + div D v c := by
  unfold div
  rw [← sum_add_distrib]
  exact sum_congr rfl fun e _ => by ring

omit [DecidableEq C] in
theorem div_sub (D : C → F → K) (u v : F → K) (c : C) :
    div D (fun e => u e - v e) c = div D u c - div D v c := by
  unfold div
  rw [← sum_sub_distrib]
  exact sum_congr rfl fun e _ => by ring

omit [DecidableEq C] in
theorem div_smul (D : C → F → K) (a : K) (u : F → K) (c : C) :
    div D (fun e => a * u e) c = a * div D u c := by
  unfold div
  rw [mul_sum]
  exact sum_congr rfl fun e _ => by ring

omit [DecidableEq C] in
theorem div_sum {I : Type*} (s : Finset I) (D : C → F → K) (u : I → F → K) (c : C) :
    div D (fun e => ∑ i ∈ s, u i e) c = ∑ i ∈ s, div D (u i) c := by
  unfold div
  rw [sum_comm]
  exact sum_congr rfl fun e _ => by rw [mul_sum]

omit [DecidableEq C] in
/-- `D (W⁻¹ (g + Dᵀ p)) = D W⁻¹ g + (D W⁻¹ Dᵀ) p` -/
theorem div_fluxUpdate (w : F → K) (D : C → F → K) (g : F → K) (p : C → K) (c : C) :
    div D (fluxUpdate w D g p) c
      = (∑ e, D c e * ((w e)⁻¹ * g e)) + ∑ c', schur w D c c' * p c' := by
  unfold div fluxUpdate divT schur
  have h : ∀ e, D c e * ((w e)⁻¹ * (g e + ∑ c', D c' e * p c'))
      = D c e * ((w e)⁻¹ * g e) + ∑ c', D c e * ((w e)⁻¹ * D c' e) * p c' := by
    intro e
    rw [mul_add, mul_add, mul_sum, mul_sum]
    congr 1
    exact sum_congr rfl fun c' _ => by ring
  rw [sum_congr rfl fun e _ => h e, sum_add_distrib, sum_comm]
  congr 1
  exact sum_congr rfl fun c' _ => (sum_mul _ _ _).symm

/-! ### C08: Schur-complement equivalence -/

/-- first block row with invertible diagonal ⇔ explicit flux formula -/
theorem flux_row_iff {w : F → K} (hw : ∀ e, w e ≠ 0) (D : C → F → K) (g u : F → K) (p : C → K) :
    (∀ e, w e * u e - divT D p e = g e) ↔ u = fluxUpdate w D g p := by
  constructor
  · intro h
    funext e
    have := hw e
    unfold fluxUpdate
    field_simp
    linear_combination h e
  · rintro rfl e
    have := hw e
    unfold fluxUpdate
    field_simp
    ring

/-- **Schur-complement equivalence** (`eliminate_flux` / `compute_flux_update`):
`(u, p, lam)` solves the full block system iff `(p, lam)` solves the flux-eliminated system and
`u = W⁻¹ (g + Dᵀ p)`. -/
theorem flux_reduced_equiv {w : F → K} (hw : ∀ e, w e ≠ 0) (D : C → F → K) (k : C)
    (g : F → K) (f : C → K) (r : K) (u : F → K) (p : C → K) (lam : K) :
    Full w D k g f r u p lam ↔ (Reduced w D k g f r p lam ∧ u = fluxUpdate w D g p) := by
  constructor
  · intro h
    have hu : u = fluxUpdate w D g p := (flux_row_iff hw D g u p).1 h.flux
    refine ⟨⟨fun c => ?_, h.pin⟩, hu⟩
    have hm := h.mass c
    rw [hu, div_fluxUpdate] at hm
    unfold redRhs
    linear_combination hm
  · rintro ⟨h, hu⟩
    refine ⟨(flux_row_iff hw D g u p).2 hu, fun c => ?_, h.pin⟩
    have hm := h.mass c
    unfold redRhs at hm
    rw [hu, div_fluxUpdate]
    linear_combination hm

/-! ### C08: elimination of the multiplier and the pinned pressure -/

omit [DecidableEq C] in
theorem sum_schur_mul {w : F → K} {D : C → F → K} (hD : ColSumZero D) (p : C → K) :
    ∑ c, ∑ c', schur w D c c' * p c' = 0 := by
  have h : ∀ c, ∑ c', schur w D c c' * p c'
      = div D (fun e => (w e)⁻¹ * divT D p e) c := by
    intro c
    unfold schur div divT
    rw [sum_congr rfl fun c' _ => sum_mul _ _ _, sum_comm]
    refine sum_congr rfl fun e _ => ?_
    show ∑ x, D c e * ((w e)⁻¹ * D x e) * p x = D c e * ((w e)⁻¹ * ∑ c, D c e * p c)
    rw [mul_sum, mul_sum]
    exact sum_congr rfl fun c' _ => by ring
  rw [sum_congr rfl fun c _ => h c]
  exact sum_div_zero hD _

omit [DecidableEq C] in
theorem sum_redRhs {w : F → K} {D : C → F → K} (hD : ColSumZero D) (g : F → K) (f : C → K) :
    ∑ c, redRhs w D g f c = ∑ c, f c := by
  unfold redRhs
  rw [sum_sub_distrib]
  have := sum_div_zero hD (fun e => (w e)⁻¹ * g e)
  unfold div at this
  rw [this, sub_zero]

/-- In the flux-eliminated system the multiplier is minus the total source: with `1ᵀD = 0` and a
zero-mean source it vanishes. -/
theorem reduced_lambda_zero {w : F → K} {D : C → F → K} (hD : ColSumZero D) {k : C} {g : F → K}
    {f : C → K} (hf : ∑ c, f c = 0) {r : K} {p : C → K} {lam : K}
    (h : Reduced w D k g f r p lam) : lam = 0 := by
  have hs : ∑ c, ((∑ c', schur w D c c' * p c') - ind k c lam) = ∑ c, redRhs w D g f c :=
    sum_congr rfl fun c _ => h.mass c
  rw [sum_sub_distrib, sum_schur_mul hD, sum_ind, sum_redRhs hD, hf] at hs
  linear_combination -hs

/-- **pressure formulation** (`eliminate_lagrange_multiplier`): under exactly the side conditions
the code relies on (`1ᵀD = 0`, zero-mean mass source, zero last right-hand-side entry) the
flux-eliminated system is equivalent to the pinned pure-pressure system with `p k = 0`, `lam = 0`,
whose matrix is the Schur complement with row and column `k` dropped. -/
theorem pressure_equiv {w : F → K} {D : C → F → K} (hD : ColSumZero D) (k : C) (g : F → K)
    {f : C → K} (hf : ∑ c, f c = 0) (p : C → K) (lam : K) :
    Reduced w D k g f 0 p lam ↔ (lam = 0 ∧ Pinned w D k g f p) := by
  have split : ∀ c, ∑ c', schur w D c c' * p c'
      = schur w D c k * p k + ∑ c' ∈ univ.erase k, schur w D c c' * p c' := fun c =>
    (add_sum_erase univ (fun c' => schur w D c c' * p c') (mem_univ k)).symm
  constructor
  · intro h
    have hl : lam = 0 := reduced_lambda_zero hD hf h
    refine ⟨hl, fun c hc => ?_, h.pin⟩
    have hm := h.mass c
    rw [split c, h.pin] at hm
    unfold ind at hm
    rw [if_neg hc] at hm
    linear_combination hm
  · rintro ⟨rfl, h⟩
    have eqs : ∀ c, c ≠ k → ∑ c', schur w D c c' * p c' = redRhs w D g f c := by
      intro c hc
      rw [split c, h.pin, mul_zero, zero_add]
      exact h.eqs c hc
    refine ⟨fun c => ?_, h.pin⟩
    by_cases hc : c = k
    · subst hc
      -- the dropped row is implied: both sides sum to zero over all cells
      have hA := sum_schur_mul (w := w) hD p
      have hB := sum_redRhs (w := w) hD g f
      rw [hf] at hB
      rw [← add_sum_erase univ _ (mem_univ c)] at hA hB
      have hrest : ∑ c' ∈ univ.erase c, ∑ c'', schur w D c' c'' * p c''
          = ∑ c' ∈ univ.erase c, redRhs w D g f c' :=
        sum_congr rfl fun c' hc' => eqs c' (ne_of_mem_erase hc')
      unfold ind
      rw [if_pos rfl]
      linear_combination hA - hB - hrest
    · unfold ind
      rw [if_neg hc, sub_zero]
      exact eqs c hc

/-- all three formulations describe the same solutions (zero-mean source, `r = 0`) -/
theorem full_iff_pinned {w : F → K} (hw : ∀ e, w e ≠ 0) {D : C → F → K} (hD : ColSumZero D) (k : C)
    (g : F → K) {f : C → K} (hf : ∑ c, f c = 0) (u : F → K) (p : C → K) (lam : K) :
    Full w D k g f 0 u p lam ↔ (lam = 0 ∧ Pinned w D k g f p ∧ u = fluxUpdate w D g p) := by
  rw [flux_reduced_equiv hw, pressure_equiv hD k g hf]
  tauto

/-- the full system is homogeneous: scaling the right-hand side scales the solution (so a back-end must not treat a
small right-hand side as zero) -/
theorem full_homogeneous {w : F → K} {D : C → F → K} {k : C} {g : F → K} {f : C → K} {r : K}
    {u : F → K} {p : C → K} {lam : K} (a : K) (h : Full w D k g f r u p lam) :
    Full w D k (fun e => a * g e) (fun c => a * f c) (a * r) (fun e => a * u e) (fun c => a * p c) (a * lam) := by
  refine ⟨fun e => ?_, fun c => ?_, by rw [h.pin]⟩
  · have := h.flux e
    unfold divT at this ⊢
    rw [show (∑ c, D c e * (a * p c)) = a * ∑ c, D c e * p c by
      rw [mul_sum]; exact sum_congr rfl fun c _ => by ring]
    linear_combination a * this
  · have := h.mass c
    unfold div ind at this ⊢
    rw [show (∑ e, D c e * (a * u e)) = a * ∑ e, D c e * u e by
      rw [mul_sum]; exact sum_congr rfl fun e _ => by ring]
    split_ifs at this ⊢ <;> linear_combination a * this

/-! ### C04: mass balance -/

/-- `1ᵀD = 0 ∧ Σ f = 0` and the second block row ⇒ the multiplier vanishes -/
theorem lambda_zero {D : C → F → K} (hD : ColSumZero D) {k : C} {f : C → K} (hf : ∑ c, f c = 0)
    {u : F → K} {lam : K} (h : Balanced D k f u lam) : lam = 0 := by
  have hs : ∑ c, (div D u c - ind k c lam) = ∑ c, f c := sum_congr rfl fun c _ => h c
  rw [sum_sub_distrib, sum_div_zero hD, sum_ind, hf] at hs
  linear_combination -hs

/-- … and hence the flux satisfies the discrete mass balance `D u = f` exactly -/
theorem mass_balance_of_solution {D : C → F → K} (hD : ColSumZero D) {k : C} {f : C → K}
    (hf : ∑ c, f c = 0) {u : F → K} {lam : K} (h : Balanced D k f u lam) :
    ∀ c, div D u c = f c := by
  intro c
  have hl := lambda_zero hD hf h
  have := h c
  rw [hl] at this
  unfold ind at this
  simpa using this

/-- One full Newton step restores / keeps the balance: if the update solves the second block row
with the residual of the current iterate as right-hand side, the new iterate is balanced (whatever
the current one is). -/
theorem newton_step_balanced (D : C → F → K) (k : C) (f : C → K) (u du : F → K) (lam dlam : K)
    (hupd : ∀ c, div D du c - ind k c dlam = f c - (div D u c - ind k c lam)) :
    Balanced D k f (fun e => u e + du e) (lam + dlam) := by
  intro c
  rw [div_add]
  have := hupd c
  unfold ind at this ⊢
  split_ifs at this ⊢ <;> linear_combination this

/-- Invariant over ANY number of Newton updates: every iterate after the first update is balanced. -/
theorem newton_preserves_balance (D : C → F → K) (k : C) (f : C → K)
    (u du : ℕ → F → K) (lam dlam : ℕ → K)
    (hu : ∀ n, u (n + 1) = fun e => u n e + du n e) (hl : ∀ n, lam (n + 1) = lam n + dlam n)
    (hupd : ∀ n c, div D (du n) c - ind k c (dlam n) = f c - (div D (u n) c - ind k c (lam n))) :
    ∀ n, Balanced D k f (u (n + 1)) (lam (n + 1)) := by
  intro n
  rw [hu n, hl n]
  exact newton_step_balanced D k f (u n) (du n) (lam n) (dlam n) (hupd n)

omit [DecidableEq C] in
/-- Affine combinations (weights summing to one) of mass-conserving fluxes conserve mass. -/
theorem affine_comb_preserves_balance {I : Type*} (s : Finset I) (D : C → F → K) (f : C → K)
    (u : I → F → K) (a : I → K) (ha : ∑ i ∈ s, a i = 1) (hu : ∀ i ∈ s, ∀ c, div D (u i) c = f c) :
    ∀ c, div D (fun e => ∑ i ∈ s, a i * u i e) c = f c := by
  intro c
  rw [div_sum]
  have : ∀ i ∈ s, div D (fun e => a i * u i e) c = a i * f c := fun i hi => by
    rw [div_smul, hu i hi c]
  rw [sum_congr rfl this, ← sum_mul, ha, one_mul]

omit [DecidableEq C] in
/-- Anderson mixing exactly as coded (`xkp1 = gk − Gk γ`, the columns of `Gk` being differences of
earlier fixed-point images): mass-conserving whenever all images are. -/
theorem anderson_preserves_balance {I : Type*} (s : Finset I) (D : C → F → K) (f : C → K)
    (g : F → K) (a b : I → F → K) (γ : I → K) (hg : ∀ c, div D g c = f c)
    (ha : ∀ i ∈ s, ∀ c, div D (a i) c = f c) (hb : ∀ i ∈ s, ∀ c, div D (b i) c = f c) :
    ∀ c, div D (fun e => g e - ∑ i ∈ s, (a i e - b i e) * γ i) c = f c := by
  intro c
  rw [div_sub, div_sum, hg c]
  have : ∀ i ∈ s, div D (fun e => (a i e - b i e) * γ i) c = 0 := fun i hi => by
    have h1 : (fun e => (a i e - b i e) * γ i) = fun e => γ i * (a i e - b i e) := by
      funext e; ring
    rw [h1, div_smul, div_sub, ha i hi c, hb i hi c, sub_self, mul_zero]
  rw [sum_congr rfl this, sum_const_zero, sub_zero]

end Darsia.Saddle
