/-
Image.slice: addressing an axis by its Cartesian name (with a physical cut position) or by its matrix index (with a
voxel index) selects the same (axis, index) — for ALL shapes, dimensions 1–3, reversed and non-reversed axes.
-/
import DarsiaProofs.Coord
import DarsiaModel.Slice
namespace Darsia

/-- in `voxel(x)` the component at the matrix position of Cartesian axis `i` depends on `x_i` only: it is
`floor(± (x_i − origin_i) / voxel_size)` — whatever the other components of `x` are -/
theorem voxelWith_component (cs : CS) (am : AxisMap) (hw : am.wf cs.dim = true) (x : List Rat) (i : Nat)
    (pr : Nat × Bool) (hi : am[i]? = some pr) : listGetD (voxelWith am cs x) pr.1 0 = voxAx cs x i pr := by
  obtain ⟨d, shape, dims, origin⟩ := cs
  cases d
  · obtain ⟨r0, rfl⟩ := wf_d1 hw
    match i, hi with
    | 0, hi => simp at hi; subst hi; simp [voxelWith, List.zipIdx, setAt, listGetD]
  · obtain ⟨r0, r1, rfl | rfl⟩ := wf_d2 hw <;>
    match i, hi with
    | 0, hi => simp at hi; subst hi; simp [voxelWith, List.zipIdx, setAt, listGetD]
    | 1, hi => simp at hi; subst hi; simp [voxelWith, List.zipIdx, setAt, listGetD]
  · obtain ⟨r0, r1, r2, rfl | rfl | rfl | rfl | rfl | rfl⟩ := wf_d3 hw <;>
    match i, hi with
    | 0, hi => simp at hi; subst hi; simp [voxelWith, List.zipIdx, setAt, listGetD]
    | 1, hi => simp at hi; subst hi; simp [voxelWith, List.zipIdx, setAt, listGetD]
    | 2, hi => simp at hi; subst hi; simp [voxelWith, List.zipIdx, setAt, listGetD]

theorem listGetD_setAt_replicate (n i : Nat) (c : Rat) (hi : i < n) :
    listGetD (setAt (List.replicate n (0 : Rat)) i c) i 0 = c :=
  listGetD_setAt_eq _ _ _ _ (by simpa using hi)

/-- generated obligation: the axis map lists, at the position of every Cartesian axis name, what `interpret_indexing`
says about that name -/
theorem axisMap_at_name : ∀ d ∈ Dim.all, ∀ a ∈ d.cartAxes,
    a.pos < d.toNat ∧ cutComponent d a = a.pos ∧
    (axisMap d).toOption.bind (fun am => am[a.pos]?) = (Gen.interpret a d.mat).toOption := by decide

/-- core: slicing by NAME at the coordinate of any point inside voxel layer `v` selects `(p, v)` -/
theorem sliceByName_layer (cs : CS) (hcs : cs.ok) (a : Ax) (ha : a ∈ cs.dim.cartAxes) (m : Ax) (r : Bool)
    (hm : Gen.toMatrix (.name a) cs.dim.cart = .ok m) (hint : Gen.interpret a cs.dim.mat = .ok (m.pos, r))
    (hmat : m.isCart = false) (v : Nat) (t : Rat) (ht0 : 0 ≤ t) (ht1 : t < 1) :
    sliceByName cs a (layerCoordinate cs a.pos (m.pos, r) v t) = .ok (m.pos, (v : Int)) := by
  have hd : cs.dim ∈ Dim.all := by cases cs.dim <;> decide
  obtain ⟨hpos, hcut, hat⟩ := axisMap_at_name cs.dim hd a ha
  obtain ⟨am, ham, hwf⟩ : ∃ am, axisMap cs.dim = .ok am ∧ am.wf cs.dim = true := by
    cases cs.dim
    · exact ⟨[(0, false)], by decide, by decide⟩
    · exact ⟨[(1, false), (0, true)], by decide, by decide⟩
    · exact ⟨[(1, false), (2, true), (0, true)], by decide, by decide⟩
  have hget : am[a.pos]? = some (m.pos, r) := by
    rw [ham, hint] at hat; simpa [Except.toOption] using hat
  have hp : m.pos < cs.dim.toNat := (wf_bound hwf).2 _ (List.mem_of_getElem? hget)
  have hh := CS.h_pos cs hcs m.pos hp
  unfold sliceByName
  simp only [CS.voxel, ham, Except.map, hm, matIndex, hmat, bind, Except.bind, pure, Except.pure, hcut,
    Bool.false_eq_true, if_false]
  rw [voxelWith_component cs am hwf _ a.pos (m.pos, r) hget]
  unfold voxAx
  rw [listGetD_setAt_replicate _ _ _ hpos]
  unfold layerCoordinate
  have := floor_roundtrip (listGetD cs.origin a.pos 0) (cs.h m.pos) t (v : Int) r hh ht0 ht1
  simp only [Int.cast_natCast] at this
  rw [this]

/-- … and the named component is the ONLY one that matters: any coordinate vector with the cut in the named component
(zeros elsewhere in the code, lying outside the image in general) gives the same index -/
theorem voxel_named_component_only (cs : CS) (am : AxisMap) (hw : am.wf cs.dim = true) (x y : List Rat) (i : Nat)
    (pr : Nat × Bool) (hi : am[i]? = some pr) (hxy : listGetD x i 0 = listGetD y i 0) :
    listGetD (voxelWith am cs x) pr.1 0 = listGetD (voxelWith am cs y) pr.1 0 := by
  rw [voxelWith_component cs am hw x i pr hi, voxelWith_component cs am hw y i pr hi]
  unfold voxAx; rw [hxy]

end Darsia
