/-
Lemmas for C02 (sub-images keep data and placement).
-/
import DarsiaProofs.Coord
import DarsiaProofs.Patches
import DarsiaModel.ImageMeta
namespace Darsia.Im
open Darsia

theorem absR_nonneg {x : Rat} (h : 0 ≤ x) : absR x = x := by simp [absR, h]
theorem absR_nonpos {x : Rat} (h : x ≤ 0) : absR x = -x := by
  unfold absR; by_cases h0 : 0 ≤ x
  · have : x = 0 := le_antisymm h h0
    simp [this]
  · simp [h0]

/-- difference of one Cartesian component between two voxel positions -/
theorem absR_coordAx_diff (cs : CS) (A B : List Rat) (i : Nat) (pr : Nat × Bool)
    (hAB : listGetD A pr.1 0 ≤ listGetD B pr.1 0) (hh : 0 ≤ cs.h pr.1) :
    absR (coordAx cs B i pr - coordAx cs A i pr) = (listGetD B pr.1 0 - listGetD A pr.1 0) * cs.h pr.1 := by
  unfold coordAx
  have hd : 0 ≤ (listGetD B pr.1 0 - listGetD A pr.1 0) * cs.h pr.1 := mul_nonneg (by linarith) hh
  cases hr : pr.2
  · rw [absR_nonneg]
    · simp [sgn]; ring
    · simp [sgn]; linarith
  · rw [absR_nonpos]
    · simp [sgn]; ring
    · simp [sgn]; linarith

/-- what `subregion` must produce for the normalised voxel ranges `ns`: shape `stop − start`,
dimensions `(stop − start) · voxel size`, origin = coordinate of the start voxel, data = the slices -/
def subSpec (im : Img) (ns : List (Nat × Nat)) (am : AxisMap) : Img :=
  { im with
    cs := ⟨im.cs.dim, ns.map fun s => s.2 - s.1,
           ns.zipIdx.map (fun q => (((q.1.2 : Nat) : Rat) - ((q.1.1 : Nat) : Rat)) * im.cs.h q.2),
           coordWith am im.cs (ns.map fun s => ((s.1 : Nat) : Rat))⟩
    slabs := im.slabs.map fun sl => { sl with idx := List.zipWith Patch.sliceL sl.idx ns } }

theorem subSlices_spec_d1 (im : Img) (hcs : im.cs.ok) (hd : im.cs.dim = .d1) (sls : List PySlice)
    (hl : sls.length = 1) (hne : ∀ s ∈ List.zipWith sliceIdx im.cs.shape sls, s.1 ≤ s.2) :
    im.subSlices sls = .ok (subSpec im (List.zipWith sliceIdx im.cs.shape sls) [(0, false)]) := by
  have ham : axisMap .d1 = .ok [(0, false)] := by decide
  have hmm : matMap .d1 = .ok [(0, false)] := by decide
  have hpos := CS.h_pos im.cs hcs
  obtain ⟨cs, series, scalar, slabs, time, date, ref⟩ := im
  obtain ⟨d, shape, dims, origin⟩ := cs
  simp only at hd; subst hd
  have hs := hcs.shapeLen
  obtain ⟨N0, rfl⟩ := len1 hs
  obtain ⟨s0, rfl⟩ := len1 hl
  have p0 := le_of_lt (hpos 0 (by simp [Dim.toNat]))
  simp only [List.zipWith_cons_cons, List.zipWith_nil_right, List.mem_cons, List.not_mem_nil, or_false, forall_eq] at hne
  have c0 : ((sliceIdx N0 s0).1 : Rat) ≤ ((sliceIdx N0 s0).2 : Rat) := by exact_mod_cast hne
  unfold Img.subSlices subSpec
  simp only [List.length_cons, List.length_nil, Dim.toNat, CS.coordinate, ham, hmm, Except.map]
  simp [bind, Except.bind, pure, Except.pure, coordWith, List.zipIdx, absR_coordAx_diff, listGetD, p0, c0]

theorem subSlices_spec_d2 (im : Img) (hcs : im.cs.ok) (hd : im.cs.dim = .d2) (sls : List PySlice)
    (hl : sls.length = 2) (hne : ∀ s ∈ List.zipWith sliceIdx im.cs.shape sls, s.1 ≤ s.2) :
    im.subSlices sls = .ok (subSpec im (List.zipWith sliceIdx im.cs.shape sls) [(1, false), (0, true)]) := by
  have ham : axisMap .d2 = .ok [(1, false), (0, true)] := by decide
  have hmm : matMap .d2 = .ok [(1, true), (0, false)] := by decide
  have hpos := CS.h_pos im.cs hcs
  obtain ⟨cs, series, scalar, slabs, time, date, ref⟩ := im
  obtain ⟨d, shape, dims, origin⟩ := cs
  simp only at hd; subst hd
  have hs := hcs.shapeLen
  obtain ⟨N0, N1, rfl⟩ := len2 hs
  obtain ⟨s0, s1, rfl⟩ := len2 hl
  have p0 := le_of_lt (hpos 0 (by simp [Dim.toNat]))
  have p1 := le_of_lt (hpos 1 (by simp [Dim.toNat]))
  simp only [List.zipWith_cons_cons, List.zipWith_nil_right, List.mem_cons, List.not_mem_nil, or_false, forall_eq_or_imp, forall_eq] at hne
  obtain ⟨h0, h1⟩ := hne
  have c0 : ((sliceIdx N0 s0).1 : Rat) ≤ ((sliceIdx N0 s0).2 : Rat) := by exact_mod_cast h0
  have c1 : ((sliceIdx N1 s1).1 : Rat) ≤ ((sliceIdx N1 s1).2 : Rat) := by exact_mod_cast h1
  unfold Img.subSlices subSpec
  simp only [List.length_cons, List.length_nil, Dim.toNat, CS.coordinate, ham, hmm, Except.map]
  simp [bind, Except.bind, pure, Except.pure, coordWith, List.zipIdx, absR_coordAx_diff, listGetD, p0, p1, c0, c1]

theorem subSlices_spec_d3 (im : Img) (hcs : im.cs.ok) (hd : im.cs.dim = .d3) (sls : List PySlice)
    (hl : sls.length = 3) (hne : ∀ s ∈ List.zipWith sliceIdx im.cs.shape sls, s.1 ≤ s.2) :
    im.subSlices sls = .ok (subSpec im (List.zipWith sliceIdx im.cs.shape sls) [(1, false), (2, true), (0, true)]) := by
  have ham : axisMap .d3 = .ok [(1, false), (2, true), (0, true)] := by decide
  have hmm : matMap .d3 = .ok [(2, true), (0, false), (1, true)] := by decide
  have hpos := CS.h_pos im.cs hcs
  obtain ⟨cs, series, scalar, slabs, time, date, ref⟩ := im
  obtain ⟨d, shape, dims, origin⟩ := cs
  simp only at hd; subst hd
  have hs := hcs.shapeLen
  obtain ⟨N0, N1, N2, rfl⟩ := len3 hs
  obtain ⟨s0, s1, s2, rfl⟩ := len3 hl
  have p0 := le_of_lt (hpos 0 (by simp [Dim.toNat]))
  have p1 := le_of_lt (hpos 1 (by simp [Dim.toNat]))
  have p2 := le_of_lt (hpos 2 (by simp [Dim.toNat]))
  simp only [List.zipWith_cons_cons, List.zipWith_nil_right, List.mem_cons, List.not_mem_nil, or_false, forall_eq_or_imp, forall_eq] at hne
  obtain ⟨h0, h1, h2⟩ := hne
  have c0 : ((sliceIdx N0 s0).1 : Rat) ≤ ((sliceIdx N0 s0).2 : Rat) := by exact_mod_cast h0
  have c1 : ((sliceIdx N1 s1).1 : Rat) ≤ ((sliceIdx N1 s1).2 : Rat) := by exact_mod_cast h1
  have c2 : ((sliceIdx N2 s2).1 : Rat) ≤ ((sliceIdx N2 s2).2 : Rat) := by exact_mod_cast h2
  unfold Img.subSlices subSpec
  simp only [List.length_cons, List.length_nil, Dim.toNat, CS.coordinate, ham, hmm, Except.map]
  simp [bind, Except.bind, pure, Except.pure, coordWith, List.zipIdx, absR_coordAx_diff, listGetD, p0, p1, p2, c0, c1, c2]

/-- `subregion(tuple of slices)` computes exactly `subSpec`, in every dimension (the two axis
tables of the code are the generated ones; this is where their coherence is used) -/
theorem subSlices_spec (im : Img) (hcs : im.cs.ok) (sls : List PySlice) (hl : sls.length = im.cs.dim.toNat)
    (hne : ∀ s ∈ List.zipWith sliceIdx im.cs.shape sls, s.1 ≤ s.2) :
    ∃ am, axisMap im.cs.dim = .ok am ∧ am.wf im.cs.dim = true ∧
      im.subSlices sls = .ok (subSpec im (List.zipWith sliceIdx im.cs.shape sls) am) := by
  cases hd : im.cs.dim
  · exact ⟨_, by decide, by decide, subSlices_spec_d1 im hcs hd sls (by rw [hl, hd]; rfl) hne⟩
  · exact ⟨_, by decide, by decide, subSlices_spec_d2 im hcs hd sls (by rw [hl, hd]; rfl) hne⟩
  · exact ⟨_, by decide, by decide, subSlices_spec_d3 im hcs hd sls (by rw [hl, hd]; rfl) hne⟩

/-! ### consequences of `subSpec` -/

theorem listGetD_map {α β} (f : α → β) (l : List α) (p : Nat) (d : α) (e : β) (hp : p < l.length) :
    listGetD (l.map f) p e = f (listGetD l p d) := by
  unfold listGetD
  simp [List.getElem?_map, List.getElem?_eq_getElem hp]

theorem listGetD_zipIdx_map {α β} (f : α × Nat → β) (l : List α) (p : Nat) (d : α) (e : β) (hp : p < l.length) :
    listGetD (l.zipIdx.map f) p e = f (listGetD l p d, p) := by
  unfold listGetD
  simp [List.getElem?_map, List.getElem?_zipIdx, List.getElem?_eq_getElem hp]

theorem listGetD_zipWith_add (v o : List Rat) (p : Nat) (hv : p < v.length) (ho : p < o.length) :
    listGetD (List.zipWith (· + ·) v o) p 0 = listGetD v p 0 + listGetD o p 0 := by
  unfold listGetD
  simp [List.getElem?_zipWith, List.getElem?_eq_getElem hv, List.getElem?_eq_getElem ho]

/-- voxel size of the sub-image = voxel size of the parent, on every non-empty axis -/
theorem subSpec_h (im : Img) (ns : List (Nat × Nat)) (am : AxisMap) (p : Nat) (hp : p < ns.length)
    (hne : (listGetD ns p (0, 0)).1 < (listGetD ns p (0, 0)).2) :
    (subSpec im ns am).cs.h p = im.cs.h p := by
  unfold CS.h subSpec
  simp only
  rw [listGetD_zipIdx_map _ ns p (0, 0) 0 hp, listGetD_map _ ns p (0, 0) 0 hp]
  generalize listGetD ns p (0, 0) = s at hne
  have h1 : ((s.2 - s.1 : Nat) : Rat) = (s.2 : Rat) - (s.1 : Rat) := by
    rw [Nat.cast_sub (le_of_lt hne)]
  have h2 : (s.2 : Rat) - (s.1 : Rat) ≠ 0 := by
    have : (s.1 : Rat) < (s.2 : Rat) := by exact_mod_cast hne
    linarith
  rw [h1]
  field_simp
  rfl

theorem listGetD_coordWith (am : AxisMap) (cs : CS) (A : List Rat) (i : Nat) (hi : i < am.length) :
    listGetD (coordWith am cs A) i 0 = coordAx cs A i (listGetD am i (0, false)) := by
  unfold coordWith
  rw [listGetD_zipIdx_map (fun q => coordAx cs A q.2 q.1) am i (0, false) 0 hi]

/-- every voxel position `v` of the sub-image has the coordinate of parent position `v + start` -/
theorem subSpec_coord (im : Img) (ns : List (Nat × Nat)) (am : AxisMap) (v : List Rat)
    (hb : ∀ pr ∈ am, pr.1 < ns.length) (hv : v.length = ns.length)
    (hne : ∀ s ∈ ns, s.1 < s.2) :
    coordWith am (subSpec im ns am).cs v =
      coordWith am im.cs (List.zipWith (· + ·) v (ns.map fun s => ((s.1 : Nat) : Rat))) := by
  unfold coordWith
  apply List.map_congr_left
  intro q hq
  have hm : q.1 ∈ am := List.mem_of_getElem? (List.mem_zipIdx_iff_getElem?.mp hq)
  have hi : q.2 < am.length := by
    have := List.mem_zipIdx_iff_getElem?.mp hq
    exact (List.getElem?_eq_some_iff.mp this).1
  have hp := hb q.1 hm
  have hneP : (listGetD ns q.1.1 (0, 0)).1 < (listGetD ns q.1.1 (0, 0)).2 := by
    apply hne
    unfold listGetD; rw [List.getElem?_eq_getElem hp]; exact List.getElem_mem hp
  have hh := subSpec_h im ns am q.1.1 hp hneP
  have ho : listGetD (subSpec im ns am).cs.origin q.2 0 =
      coordAx im.cs (ns.map fun s => ((s.1 : Nat) : Rat)) q.2 q.1 := by
    show listGetD (coordWith am im.cs _) q.2 0 = _
    rw [listGetD_coordWith am im.cs _ q.2 hi]
    have : listGetD am q.2 (0, false) = q.1 := by
      unfold listGetD; rw [List.mem_zipIdx_iff_getElem?.mp hq]; rfl
    rw [this]
  show coordAx (subSpec im ns am).cs v q.2 q.1 = coordAx im.cs _ q.2 q.1
  unfold coordAx at ho ⊢
  rw [ho, hh, listGetD_zipWith_add v _ q.1.1 (by rw [hv]; exact hp) (by simpa using hp)]
  ring

/-! ### the placement invariant -/

def natsToRats (l : List Nat) : List Rat := l.map fun o => ((o : Nat) : Rat)

/-- `im` is the block of `root` that starts at voxel `off`: same data, same placement, same stamps -/
structure Placed (root im : Img) (off : List Nat) : Prop where
  dim : im.cs.dim = root.cs.dim
  ok : im.cs.ok
  offLen : off.length = root.cs.dim.toNat
  /-- every (possibly fractional) voxel position has the coordinate of the root position it was taken from -/
  coord : ∀ am, axisMap root.cs.dim = .ok am → ∀ v : List Rat, v.length = root.cs.dim.toNat →
    coordWith am im.cs v = coordWith am root.cs (List.zipWith (· + ·) v (natsToRats off))
  vsize : ∀ p, p < root.cs.dim.toNat → im.cs.h p = root.cs.h p
  /-- every time slab holds exactly the root indices `off .. off + shape` on every axis -/
  data : ∀ sl ∈ im.slabs, sl.idx = List.zipWith (fun o N => List.range' o N) off im.cs.shape
  lens : im.time.length = im.slabs.length ∧ im.date.length = im.slabs.length
  /-- slab `k` is the root's slab `sl.t` and carries its relative time and date -/
  stamps : ∀ (k : Nat) (sl : Slab), im.slabs[k]? = some sl →
    (∃ rsl, root.slabs[sl.t]? = some rsl ∧ rsl.rid = sl.rid ∧ rsl.t = sl.t) ∧
    im.time[k]? = root.time[sl.t]? ∧ im.date[k]? = root.date[sl.t]?
  consistent : ∀ k : Nat, im.time[k]? = some none → im.date[k]? = some none
  scalar : im.scalar = root.scalar
  ref : im.ref = root.ref

theorem subSlices_shape (im im' : Img) (sls : List PySlice) (h : im.subSlices sls = .ok im') :
    sls.length = im.cs.dim.toNat ∧
    im'.cs.shape = (List.zipWith sliceIdx im.cs.shape sls).map (fun s => s.2 - s.1) := by
  unfold Img.subSlices at h
  by_cases hl : sls.length = im.cs.dim.toNat
  · refine ⟨hl, ?_⟩
    simp only [hl, ne_eq, not_true_eq_false, if_false, bind, Except.bind, pure, Except.pure] at h
    split at h
    · exact absurd h (by simp)
    · split at h
      · exact absurd h (by simp)
      · split at h
        · exact absurd h (by simp)
        · injection h with h
          rw [← h]
  · simp [hl, bind, Except.bind, throw, throwThe, MonadExceptOf.throw] at h

theorem sliceIdx_le (N : Nat) (s : PySlice) : (sliceIdx N s).1 ≤ N ∧ (sliceIdx N s).2 ≤ N := by
  obtain ⟨a, b⟩ := s
  unfold sliceIdx
  constructor
  · cases a with
    | none => simp
    | some x =>
      simp only [Option.map_some, Option.getD_some]
      split <;> omega
  · cases b with
    | none => simp
    | some x =>
      simp only [Option.map_some, Option.getD_some]
      split <;> omega

/-- slicing a block of root indices gives the block shifted by the slice starts -/
theorem zipWith_slice_block (off shape : List Nat) (sls : List PySlice) :
    List.zipWith Patch.sliceL (List.zipWith (fun o N => List.range' o N) off shape) (List.zipWith sliceIdx shape sls) =
      List.zipWith (fun o N => List.range' o N)
        (List.zipWith (· + ·) off ((List.zipWith sliceIdx shape sls).map (·.1)))
        ((List.zipWith sliceIdx shape sls).map fun s => s.2 - s.1) := by
  induction off generalizing shape sls with
  | nil => simp
  | cons o off ih =>
    cases shape with
    | nil => simp
    | cons N shape =>
      cases sls with
      | nil => simp
      | cons s sls =>
        simp only [List.zipWith_cons_cons, List.map_cons]
        rw [ih shape sls, Patch.sliceL_range']
        obtain ⟨h1, h2⟩ := sliceIdx_le N s
        rw [Nat.min_eq_left h1, Nat.min_eq_left h2]

theorem zipWith_add_assoc (v a b : List Rat) :
    List.zipWith (· + ·) (List.zipWith (· + ·) v a) b = List.zipWith (· + ·) v (List.zipWith (· + ·) b a) := by
  induction v generalizing a b with
  | nil => simp
  | cons x v ih =>
    cases a with
    | nil => cases b <;> simp
    | cons y a =>
      cases b with
      | nil => simp
      | cons z b => simp only [List.zipWith_cons_cons]; rw [ih]; congr 1; ring

theorem natsToRats_zipWith_add (a b : List Nat) :
    natsToRats (List.zipWith (· + ·) a b) = List.zipWith (· + ·) (natsToRats a) (natsToRats b) := by
  unfold natsToRats
  induction a generalizing b with
  | nil => simp
  | cons x a ih =>
    cases b with
    | nil => simp
    | cons y b => simp only [List.zipWith_cons_cons, List.map_cons]; rw [ih]; push_cast; rfl

theorem axisMap_wf_all (d : Dim) (am : AxisMap) (h : axisMap d = .ok am) : am.wf d = true := by
  cases d
  · have : axisMap .d1 = .ok [(0, false)] := by decide
    rw [this] at h; injection h with h; subst h; decide
  · have : axisMap .d2 = .ok [(1, false), (0, true)] := by decide
    rw [this] at h; injection h with h; subst h; decide
  · have : axisMap .d3 = .ok [(1, false), (2, true), (0, true)] := by decide
    rw [this] at h; injection h with h; subst h; decide

/-- one spatial extraction keeps the image placed in the root, with the offsets added -/
theorem placed_sub (root im im' : Img) (off : List Nat) (hP : Placed root im off) (sls : List PySlice)
    (h : im.subSlices sls = .ok im') (hne : im'.nonempty = true) :
    Placed root im' (List.zipWith (· + ·) off ((List.zipWith sliceIdx im.cs.shape sls).map (·.1))) := by
  obtain ⟨hl, hshape⟩ := subSlices_shape im im' sls h
  have hnsLen : (List.zipWith sliceIdx im.cs.shape sls).length = im.cs.dim.toNat := by
    rw [List.length_zipWith, hP.ok.shapeLen, hl]; simp
  have hlt : ∀ s ∈ List.zipWith sliceIdx im.cs.shape sls, s.1 < s.2 := by
    intro s hs
    unfold Img.nonempty at hne
    rw [hshape, List.all_eq_true] at hne
    have := hne (s.2 - s.1) (List.mem_map.mpr ⟨s, hs, rfl⟩)
    simp at this; omega
  obtain ⟨am, ham, hwf, hspec⟩ := subSlices_spec im hP.ok sls hl (fun s hs => le_of_lt (hlt s hs))
  rw [hspec] at h; injection h with h; subst h
  generalize hns : List.zipWith sliceIdx im.cs.shape sls = ns at *
  obtain ⟨hamLen, hamB⟩ := wf_bound hwf
  have hdim : im.cs.dim = root.cs.dim := hP.dim
  refine
    { dim := hP.dim, ok := ?_, offLen := ?_, coord := ?_, vsize := ?_, data := ?_, lens := ?_,
      stamps := ?_, consistent := hP.consistent, scalar := hP.scalar, ref := hP.ref }
  · refine ⟨?_, ?_, ?_, ?_, ?_⟩
    · show (ns.map _).length = im.cs.dim.toNat; simp [hnsLen]
    · show (ns.zipIdx.map _).length = im.cs.dim.toNat; simp [hnsLen]
    · show (coordWith am im.cs _).length = im.cs.dim.toNat; simp [coordWith, hamLen]
    · intro x hx
      obtain ⟨s, hs, rfl⟩ := List.mem_map.mp hx
      have := hlt s hs; omega
    · intro D hD
      obtain ⟨q, hq, rfl⟩ := List.mem_map.mp hD
      have hq' := List.mem_zipIdx_iff_getElem?.mp hq
      have hqm : q.1 ∈ ns := List.mem_of_getElem? hq'
      have hqi : q.2 < im.cs.dim.toNat := by rw [← hnsLen]; exact (List.getElem?_eq_some_iff.mp hq').1
      have h1 := hlt q.1 hqm
      have h2 := CS.h_pos im.cs hP.ok q.2 hqi
      have h3 : (0 : Rat) < ((q.1.2 : Nat) : Rat) - ((q.1.1 : Nat) : Rat) := by
        have : ((q.1.1 : Nat) : Rat) < ((q.1.2 : Nat) : Rat) := by exact_mod_cast h1
        linarith
      exact mul_pos h3 h2
  · rw [List.length_zipWith, hP.offLen, List.length_map, hnsLen, hdim]; simp
  · intro am' ham' v hv
    have e : am' = am := by rw [← hdim] at ham'; rw [ham] at ham'; injection ham' with e; exact e.symm
    subst e
    rw [subSpec_coord im ns am' v (fun pr hpr => by rw [hnsLen]; exact hamB pr hpr) (by rw [hv, hnsLen, hdim]) hlt]
    rw [hP.coord am' ham' _ (by rw [List.length_zipWith, hv, List.length_map, hnsLen, hdim]; simp)]
    rw [zipWith_add_assoc, natsToRats_zipWith_add]
    simp [natsToRats, List.map_map, Function.comp_def]
  · intro p hp
    have hp' : p < ns.length := by rw [hnsLen, hdim]; exact hp
    rw [subSpec_h im ns am p hp' (by
      apply hlt; unfold listGetD; rw [List.getElem?_eq_getElem hp']; exact List.getElem_mem hp')]
    exact hP.vsize p hp
  · intro sl' hsl'
    obtain ⟨sl, hsl, rfl⟩ := List.mem_map.mp hsl'
    show List.zipWith Patch.sliceL sl.idx ns = _
    rw [hP.data sl hsl, ← hns, zipWith_slice_block]
    rfl
  · have e : (subSpec im ns am).slabs.length = im.slabs.length := by
      show (List.map _ im.slabs).length = _; rw [List.length_map]
    exact ⟨by rw [e]; exact hP.lens.1, by rw [e]; exact hP.lens.2⟩
  · intro k sl' hk
    have hk' : (im.slabs.map fun sl => ({ sl with idx := List.zipWith Patch.sliceL sl.idx ns } : Slab))[k]? = some sl' := hk
    rw [List.getElem?_map] at hk'
    cases hsk : im.slabs[k]? with
    | none => rw [hsk] at hk'; simp at hk'
    | some sl =>
      rw [hsk] at hk'; simp at hk'; subst hk'
      exact hP.stamps k sl hsk

theorem subVoxels_is_subSlices (im im' : Img) (pts : List (List Int)) (h : im.subVoxels pts = .ok im') :
    ∃ sls, im.subSlices sls = .ok im' := by
  unfold Img.subVoxels at h
  simp only [bind, Except.bind] at h
  split at h
  · exact absurd h (by simp)
  · next sls _ => exact ⟨sls, h⟩

theorem subCoords_is_subSlices (im im' : Img) (pts : List (List Rat)) (h : im.subCoords pts = .ok im') :
    ∃ sls, im.subSlices sls = .ok im' := by
  unfold Img.subCoords at h
  simp only [bind, Except.bind] at h
  split at h
  · exact absurd h (by simp)
  · split at h
    · exact absurd h (by simp)
    · next sls _ => exact ⟨sls, h⟩

theorem pyIndex_lt (T : Nat) (k : Int) (i : Nat) (h : pyIndex T k = .ok i) : i < T := by
  unfold pyIndex at h
  split at h
  · injection h with h; omega
  · split at h
    · injection h with h; omega
    · exact absurd h (by simp)

theorem sliceTime_eq (t : Option Rat) (d : Option Int) (ref : Option Int) (tm : Option Rat)
    (h : sliceTime t d ref = .ok tm) (hc : t = none → d = none) : tm = t := by
  unfold sliceTime at h
  cases t with
  | some x => injection h with h; exact h.symm
  | none =>
    rw [hc rfl] at h
    injection h with h; exact h.symm

/-- `time_slice` keeps the spatial placement and returns the selected slab with its stamps -/
theorem placed_timeSlice (root im im' : Img) (off : List Nat) (hP : Placed root im off) (k : Int)
    (h : im.timeSlice k = .ok im') : Placed root im' off ∧ im'.series = false ∧ im'.slabs.length = 1 := by
  unfold Img.timeSlice at h
  split at h
  · exact absurd h (by simp)
  · split at h
    · exact absurd h (by simp)
    · next i hi =>
      have hiT := pyIndex_lt _ _ _ hi
      have hti : i < im.time.length := by rw [hP.lens.1]; exact hiT
      have hdi : i < im.date.length := by rw [hP.lens.2]; exact hiT
      have gt : listGetD im.time i none = im.time[i] := by
        unfold listGetD; rw [List.getElem?_eq_getElem hti]; rfl
      have gd : listGetD im.date i none = im.date[i] := by
        unfold listGetD; rw [List.getElem?_eq_getElem hdi]; rfl
      have hcons : listGetD im.time i none = none → listGetD im.date i none = none := by
        intro h0
        have : im.time[i]? = some none := by rw [List.getElem?_eq_getElem hti, ← gt, h0]
        have hd := hP.consistent i this
        rw [List.getElem?_eq_getElem hdi] at hd
        rw [gd]; injection hd
      split at h
      · exact absurd h (by simp)
      · next tm htm =>
        have etm := sliceTime_eq _ _ _ _ htm hcons
        split at h
        · exact absurd h (by simp)
        · next sl hsl =>
          injection h with h; subst h
          refine ⟨{ dim := hP.dim, ok := hP.ok, offLen := hP.offLen, coord := hP.coord, vsize := hP.vsize,
                    data := ?_, lens := by simp, stamps := ?_, consistent := ?_, scalar := hP.scalar, ref := hP.ref },
                  rfl, by simp⟩
          · intro s hs
            simp only [List.mem_singleton] at hs; subst hs
            exact hP.data s (List.mem_of_getElem? hsl)
          · intro j s hj
            cases j with
            | succ j => simp at hj
            | zero =>
              simp only [List.getElem?_cons_zero, Option.some.injEq] at hj
              have hj' : sl = s := hj
              subst hj'
              obtain ⟨a, b, c⟩ := hP.stamps i sl hsl
              refine ⟨a, ?_, ?_⟩
              · simp only [List.getElem?_cons_zero]
                rw [← b, etm, gt, List.getElem?_eq_getElem hti]
              · simp only [List.getElem?_cons_zero]
                rw [← c, gd, List.getElem?_eq_getElem hdi]
          · intro j hj
            cases j with
            | succ j => simp at hj
            | zero =>
              simp only [List.getElem?_cons_zero, Option.some.injEq] at hj ⊢
              rw [etm] at hj
              exact hcons hj

theorem getElem?_sliceL {α} (l : List α) (r : Nat × Nat) (k : Nat) :
    (Patch.sliceL l r)[k]? = if k < r.2 - r.1 then l[r.1 + k]? else none := by
  unfold Patch.sliceL
  rw [List.getElem?_take]
  split
  · rw [List.getElem?_drop]
  · rfl

theorem length_sliceL {α} (l : List α) (r : Nat × Nat) :
    (Patch.sliceL l r).length = min (r.2 - r.1) (l.length - r.1) := by
  unfold Patch.sliceL; simp

theorem mem_sliceL {α} (l : List α) (r : Nat × Nat) (a : α) (h : a ∈ Patch.sliceL l r) : a ∈ l := by
  unfold Patch.sliceL at h
  exact List.mem_of_mem_drop (List.mem_of_mem_take h)

/-- `time_interval` keeps the spatial placement and the stamps of the selected slabs -/
theorem placed_timeInterval (root im im' : Img) (off : List Nat) (hP : Placed root im off) (sl : PySlice)
    (h : im.timeInterval sl = .ok im') : Placed root im' off := by
  unfold Img.timeInterval at h
  simp only [bind, Except.bind, pure, Except.pure] at h
  split at h
  · simp [throw, throwThe, MonadExceptOf.throw] at h
  · injection h with h; subst h
    generalize sliceIdx im.slabs.length sl = r
    refine { dim := hP.dim, ok := hP.ok, offLen := hP.offLen, coord := hP.coord, vsize := hP.vsize,
             data := ?_, lens := ?_, stamps := ?_, consistent := ?_, scalar := hP.scalar, ref := hP.ref }
    · intro s hs
      exact hP.data s (mem_sliceL _ _ _ hs)
    · show (Patch.sliceL im.time r).length = (Patch.sliceL im.slabs r).length ∧
        (Patch.sliceL im.date r).length = (Patch.sliceL im.slabs r).length
      rw [length_sliceL, length_sliceL, length_sliceL, hP.lens.1, hP.lens.2]; exact ⟨rfl, rfl⟩
    · intro k s hk
      have hk' : (Patch.sliceL im.slabs r)[k]? = some s := hk
      rw [getElem?_sliceL] at hk'
      split at hk'
      · next hlt =>
        obtain ⟨a, b, c⟩ := hP.stamps (r.1 + k) s hk'
        refine ⟨a, ?_, ?_⟩
        · show (Patch.sliceL im.time r)[k]? = _
          rw [getElem?_sliceL, if_pos hlt]; exact b
        · show (Patch.sliceL im.date r)[k]? = _
          rw [getElem?_sliceL, if_pos hlt]; exact c
      · exact absurd hk' (by simp)
    · intro k hk
      have hk' : (Patch.sliceL im.time r)[k]? = some none := hk
      show (Patch.sliceL im.date r)[k]? = some none
      rw [getElem?_sliceL] at hk' ⊢
      split at hk'
      · next hlt => rw [if_pos hlt]; exact hP.consistent _ hk'
      · exact absurd hk' (by simp)

/-! ### programs of extraction steps -/

theorem placed_step (root im im' : Img) (off : List Nat) (hP : Placed root im off) (st : Step)
    (h : im.step st = .ok im') (hne : im'.nonempty = true) : ∃ off', Placed root im' off' := by
  cases st with
  | sub sls => exact ⟨_, placed_sub root im im' off hP sls h hne⟩
  | subVox pts =>
    obtain ⟨sls, hs⟩ := subVoxels_is_subSlices im im' pts h
    exact ⟨_, placed_sub root im im' off hP sls hs hne⟩
  | subCoord pts =>
    obtain ⟨sls, hs⟩ := subCoords_is_subSlices im im' pts h
    exact ⟨_, placed_sub root im im' off hP sls hs hne⟩
  | tslice k => exact ⟨off, (placed_timeSlice root im im' off hP k h).1⟩
  | tinterval s => exact ⟨off, placed_timeInterval root im im' off hP s h⟩

theorem placed_run (root : Img) (steps : List Step) : ∀ (im im' : Img) (off : List Nat), Placed root im off →
    im.runOk steps = some im' → ∃ off', Placed root im' off' := by
  induction steps with
  | nil =>
    intro im im' off hP h
    simp only [Img.runOk, Option.some.injEq] at h; subst h; exact ⟨off, hP⟩
  | cons st ss ih =>
    intro im im' off hP h
    unfold Img.runOk at h
    split at h
    · next im1 h1 =>
      split at h
      · next hne =>
        obtain ⟨off1, hP1⟩ := placed_step root im im1 off hP st h1 hne
        exact ih im1 im' off1 hP1 h
      · exact absurd h (by simp)
    · exact absurd h (by simp)

theorem zipWith_add_zero (v : List Rat) (n : Nat) (h : v.length = n) :
    List.zipWith (· + ·) v (natsToRats (List.replicate n 0)) = v := by
  subst h
  induction v with
  | nil => rfl
  | cons x v ih =>
    simp only [List.length_cons, List.replicate_succ, natsToRats, List.map_cons, List.zipWith_cons_cons] at ih ⊢
    rw [ih]; simp

theorem zipWith_range'_zero (shape : List Nat) :
    List.zipWith (fun o N => List.range' o N) (List.replicate shape.length 0) shape = shape.map List.range := by
  induction shape with
  | nil => rfl
  | cons N shape ih =>
    simp only [List.length_cons, List.replicate_succ, List.zipWith_cons_cons, List.map_cons]
    rw [ih, List.range_eq_range']

theorem mkRoot_fields (rid : Nat) (cs : CS) (series scalar : Bool) (T : Nat) (time : Option (List (Option Rat)))
    (date : List (Option Int)) (root : Img) (h : mkRoot rid cs series scalar T time date = .ok root) :
    root = ⟨cs, series, scalar, (List.range T).map fun t => ⟨rid, t, cs.shape.map List.range⟩, root.time, date,
            date.headD none⟩ := by
  unfold mkRoot mkRootR at h
  cases time with
  | some l =>
    simp only [bind, Except.bind, pure, Except.pure] at h
    injection h with h; subst h; rfl
  | none =>
    simp only [bind, Except.bind, pure, Except.pure] at h
    cases ht : timesFromDates date (date.headD none) with
    | error e => rw [ht] at h; exact absurd h (by simp)
    | ok l => rw [ht] at h; injection h with h; subst h; rfl

/-- a freshly constructed image is placed in itself at offset zero -/
theorem placed_root (rid : Nat) (cs : CS) (series scalar : Bool) (T : Nat) (time : Option (List (Option Rat)))
    (date : List (Option Int)) (root : Img) (h : mkRoot rid cs series scalar T time date = .ok root)
    (hcs : cs.ok) (hT : root.time.length = T) (hD : date.length = T)
    (hc : ∀ k : Nat, root.time[k]? = some none → date[k]? = some none) :
    Placed root root (List.replicate cs.dim.toNat 0) := by
  have hf := mkRoot_fields rid cs series scalar T time date root h
  generalize root.time = tm at hf hT hc
  subst hf
  refine { dim := rfl, ok := hcs, offLen := by simp, coord := ?_, vsize := fun _ _ => rfl, data := ?_,
           lens := ⟨by simp [hT], by simp [hD]⟩, stamps := ?_, consistent := hc, scalar := rfl, ref := rfl }
  · intro am _ v hv
    rw [zipWith_add_zero v _ hv]
  · intro sl hsl
    obtain ⟨t, _, rfl⟩ := List.mem_map.mp hsl
    show cs.shape.map List.range = _
    rw [← hcs.shapeLen, zipWith_range'_zero]
  · intro k sl hk
    have hk' : ((List.range T).map fun t => (⟨rid, t, cs.shape.map List.range⟩ : Slab))[k]? = some sl := hk
    rw [List.getElem?_map] at hk'
    cases hr : (List.range T)[k]? with
    | none => rw [hr] at hk'; simp at hk'
    | some t =>
      rw [hr] at hk'
      simp only [Option.map_some, Option.some.injEq] at hk'
      have ht : t = k := by
        obtain ⟨hlt, e⟩ := List.getElem?_eq_some_iff.mp hr
        simp at e; exact e.symm
      subst hk'; subst ht
      exact ⟨⟨_, hk, rfl, rfl⟩, rfl, rfl⟩

/-! ### append / stack -/

theorem map_add_zero (l : List (Option Rat)) : l.map (fun t => t.map (· + (0 : Rat))) = l := by
  induction l with
  | nil => rfl
  | cons a l ih =>
    rw [List.map_cons, ih]
    cases a <;> simp

theorem anyNone_append {α} (a b : List (Option α)) : anyNone (a ++ b) = (anyNone a || anyNone b) := by
  unfold anyNone; rw [List.any_append]

/-- appending (no offset) an image to a series whose slabs carry relative times only -/
theorem append_rel (im other : Img) (hcs : other.cs = im.cs) (hsc : other.scalar = im.scalar)
    (hd : anyNone im.date = true) (ht : anyNone im.time = false) (ht' : anyNone other.time = false) :
    im.append other none = .ok { im with series := true, slabs := im.slabs ++ other.slabs,
                                          time := im.time ++ other.time, date := im.date ++ other.date } := by
  unfold Img.append appendChecks appendTimes
  simp [hcs, hsc, hd, ht, ht', bind, Except.bind, pure, Except.pure, map_add_zero, allcloseL_refl npClose npClose_refl]

/-- `stack` of images carrying relative times only: slabs, times and dates are concatenated -/
theorem stack_rel (rest : List Img) : ∀ (im : Img), anyNone im.date = true → anyNone im.time = false →
    (∀ o ∈ rest, o.cs = im.cs ∧ o.scalar = im.scalar ∧ anyNone o.time = false) →
    ∃ s, stack (im :: rest) = .ok s ∧ s.cs = im.cs ∧ s.scalar = im.scalar ∧ s.ref = im.ref ∧
      s.slabs = im.slabs ++ rest.flatMap (·.slabs) ∧ s.time = im.time ++ rest.flatMap (·.time) ∧
      s.date = im.date ++ rest.flatMap (·.date) ∧ (rest ≠ [] → s.series = true) := by
  induction rest with
  | nil => intro im _ _ _; exact ⟨im, rfl, rfl, rfl, rfl, by simp, by simp, by simp, by simp⟩
  | cons o rest ih =>
    intro im hd ht hr
    obtain ⟨h1, h2, h3⟩ := hr o (by simp)
    have ha := append_rel im o h1 h2 hd ht h3
    obtain ⟨s, hs, c1, c2, c3, c4, c5, c6, c7⟩ := ih
      { im with series := true, slabs := im.slabs ++ o.slabs, time := im.time ++ o.time, date := im.date ++ o.date }
      (by simp [anyNone_append, hd]) (by simp [anyNone_append, ht, h3])
      (fun x hx => hr x (by simp [hx]))
    refine ⟨s, ?_, c1, c2, c3, ?_, ?_, ?_, ?_⟩
    · simp only [stack] at hs ⊢
      rw [List.foldlM_cons, ha]
      exact hs
    · rw [c4]; simp
    · rw [c5]; simp
    · rw [c6]; simp
    · intro _
      by_cases hre : rest = []
      · subst hre
        simp only [stack, List.foldlM_nil, pure, Except.pure] at hs
        injection hs with hs; rw [← hs]
      · exact c7 hre

def appended (im other : Img) (tm : List (Option Rat)) : Img :=
  { im with series := true, slabs := im.slabs ++ other.slabs, time := tm, date := im.date ++ other.date }

@[simp] theorem secondsBetween_self (d : Int) : secondsBetween d d = 0 := by simp [secondsBetween]

def relDates (ds : List (Option Int)) (r : Int) : List (Option Rat) :=
  ds.map fun d => d.map fun x => secondsBetween x r

theorem append_dates (im other : Img) (hcs : other.cs = im.cs) (hsc : other.scalar = im.scalar)
    (hd : anyNone im.date = false) (hd' : anyNone other.date = false)
    (ht : anyNone im.time = false) (ht' : anyNone other.time = false) (r : Int) (href : im.ref = some r)
    (hord : ∀ a b, im.date.getLast? = some (some a) → other.date.head? = some (some b) → a < b) :
    im.append other none = .ok (appended im other (relDates (im.date ++ other.date) r)) := by
  have hdd : anyNone (im.date ++ other.date) = false := by rw [anyNone_append, hd, hd']; rfl
  unfold Img.append appendChecks appendTimes appended relDates
  cases h1 : im.date.getLast? with
  | none => simp [hcs, hsc, hd, hd', ht, ht', bind, Except.bind, pure, Except.pure, timesFromDates, hdd, href, allcloseL_refl npClose npClose_refl]
  | some x =>
    cases x with
    | none => simp [hcs, hsc, hd, hd', ht, ht', bind, Except.bind, pure, Except.pure, timesFromDates, hdd, href, allcloseL_refl npClose npClose_refl]
    | some a =>
      cases h2 : other.date.head? with
      | none => simp [hcs, hsc, hd, hd', ht, ht', bind, Except.bind, pure, Except.pure, timesFromDates, hdd, href, allcloseL_refl npClose npClose_refl]
      | some y =>
        cases y with
        | none => simp [hcs, hsc, hd, hd', ht, ht', bind, Except.bind, pure, Except.pure, timesFromDates, hdd, href, allcloseL_refl npClose npClose_refl]
        | some b =>
          have := hord a b h1 h2
          simp [hcs, hsc, hd, hd', ht, ht', bind, Except.bind, pure, Except.pure, timesFromDates, hdd, href, this, allcloseL_refl npClose npClose_refl]

/-- a single-time image with a date (constructed with `date=d`: reference date `d`, relative time 0) -/
def dated (cs : CS) (scalar : Bool) (x : Slab × Int) : Img :=
  ⟨cs, false, scalar, [x.1], [some 0], [some x.2], some x.2⟩

/-- a single-time image carrying only a relative time -/
def timed (cs : CS) (scalar : Bool) (x : Slab × Rat) : Img :=
  ⟨cs, false, scalar, [x.1], [some x.2], [none], none⟩

theorem anyNone_map_some {α} (l : List α) : anyNone (l.map some) = false := by
  unfold anyNone; simp

theorem anyNone_relDates (ds : List Int) (r : Int) : anyNone (relDates (ds.map some) r) = false := by
  unfold anyNone relDates; simp

theorem stack_dates_aux (cs : CS) (scalar : Bool) (xs : List (Slab × Int)) :
    ∀ (acc : Img) (ds : List Int) (r : Int), acc.cs = cs → acc.scalar = scalar → acc.date = ds.map some →
      acc.ref = some r → acc.time = relDates acc.date r → List.Pairwise (· < ·) (ds ++ xs.map (·.2)) →
      ∃ s, List.foldlM (fun a o => a.append o none) acc (xs.map (dated cs scalar)) = .ok s ∧ s.cs = cs ∧
        s.scalar = scalar ∧ s.ref = some r ∧ s.slabs = acc.slabs ++ xs.map (·.1) ∧
        s.date = (ds ++ xs.map (·.2)).map some ∧ s.time = relDates s.date r ∧ (xs ≠ [] → s.series = true) := by
  induction xs with
  | nil =>
    intro acc ds r h1 h2 h3 h4 h5 _
    exact ⟨acc, rfl, h1, h2, h4, by simp, by simp [h3], h5, by simp⟩
  | cons x xs ih =>
    intro acc ds r h1 h2 h3 h4 h5 hp
    have ha := append_dates acc (dated cs scalar x) (by simp [dated, h1]) (by simp [dated, h2])
      (by rw [h3]; exact anyNone_map_some ds) (by simp [dated, anyNone])
      (by rw [h5, h3]; exact anyNone_relDates ds r) (by simp [dated, anyNone]) r h4
      (by
        intro a b hl hh
        simp only [dated, List.head?_cons, Option.some.injEq] at hh
        subst hh
        rw [h3, List.getLast?_map] at hl
        cases hg : ds.getLast? with
        | none => rw [hg] at hl; simp at hl
        | some a' =>
          rw [hg] at hl; simp at hl; subst hl
          have hm : a' ∈ ds := List.mem_of_getLast? hg
          rw [List.pairwise_append] at hp
          exact hp.2.2 a' hm x.2 (by simp))
    obtain ⟨s, hs, c1, c2, c3, c4, c5, c6, c7⟩ := ih (appended acc (dated cs scalar x) (relDates (acc.date ++ (dated cs scalar x).date) r))
      (ds ++ [x.2]) r (by simp [appended, h1]) (by simp [appended, h2]) (by simp [appended, dated, h3])
      (by simp [appended, h4]) (by simp [appended]) (by simpa using hp)
    refine ⟨s, ?_, c1, c2, c3, ?_, ?_, c6, ?_⟩
    · rw [List.map_cons, List.foldlM_cons, ha]; exact hs
    · rw [c4]; simp [appended, dated]
    · rw [c5]; simp
    · intro _
      by_cases hre : xs = []
      · subst hre
        simp only [List.map_nil, List.foldlM_nil, pure, Except.pure] at hs
        injection hs with hs; rw [← hs]; rfl
      · exact c7 hre

theorem flatMap_map_single {α β γ} (l : List α) (g : α → β) (f : β → List γ) (h : α → γ)
    (hh : ∀ a, f (g a) = [h a]) : (l.map g).flatMap f = l.map h := by
  induction l with
  | nil => rfl
  | cons a l ih => simp [List.flatMap_cons, hh, ih]

theorem pyIndex_nat (T i : Nat) (h : i < T) : pyIndex T (i : Int) = .ok i := by
  unfold pyIndex
  have : (0 : Int) ≤ (i : Int) ∧ (i : Int) < (T : Int) := ⟨by omega, by omega⟩
  simp [this]

theorem stack_slice_rel' (cs : CS) (scalar : Bool) (xs : List (Slab × Rat)) (hn : 2 ≤ xs.length) (i : Nat)
    (hi : i < xs.length) :
    ∃ s, stack (xs.map (timed cs scalar)) = .ok s ∧ s.timeSlice (i : Int) = .ok (timed cs scalar xs[i]) := by
  cases xs with
  | nil => simp at hn
  | cons x0 rest =>
    have hr : rest ≠ [] := by intro h; subst h; simp at hn
    obtain ⟨s, hs, c1, c2, c3, c4, c5, c6, c7⟩ := stack_rel (rest.map (timed cs scalar)) (timed cs scalar x0)
      (by simp [timed, anyNone]) (by simp [timed, anyNone])
      (by intro o ho; obtain ⟨y, _, rfl⟩ := List.mem_map.mp ho; simp [timed, anyNone])
    refine ⟨s, by simpa using hs, ?_⟩
    have c7' := c7 (by simpa using hr)
    rw [flatMap_map_single rest (timed cs scalar) (·.slabs) (·.1) (fun _ => rfl)] at c4
    rw [flatMap_map_single rest (timed cs scalar) (·.time) (fun x => some x.2) (fun _ => rfl)] at c5
    rw [flatMap_map_single rest (timed cs scalar) (·.date) (fun _ => none) (fun _ => rfl)] at c6
    obtain ⟨scs, sser, ssc, sslabs, stime, sdate, sref⟩ := s
    simp only [timed] at c1 c2 c3 c4 c5 c6 c7'
    subst c1 c2 c3 c4 c5 c6 c7'
    have e1 : ([x0.1] ++ rest.map (·.1)) = (x0 :: rest).map (·.1) := rfl
    have e2 : ([some x0.2] ++ rest.map (fun x => some x.2)) = (x0 :: rest).map (fun x => some x.2) := rfl
    have e3 : ([none] ++ rest.map (fun _ => (none : Option Int))) = (x0 :: rest).map (fun _ => (none : Option Int)) := rfl
    rw [e1, e2, e3]
    generalize x0 :: rest = xs at hi
    unfold Img.timeSlice
    simp only [Bool.not_true, Bool.false_eq_true, if_false, List.length_map]
    rw [pyIndex_nat _ _ hi]
    simp [listGetD, List.getElem?_map, List.getElem?_eq_getElem hi, sliceTime, timed, List.getElem?_replicate, hi]

theorem stack_slice_dates' (cs : CS) (scalar : Bool) (x0 : Slab × Int) (rest : List (Slab × Int)) (hr : rest ≠ [])
    (hsorted : List.Pairwise (· < ·) ((x0 :: rest).map (·.2))) (i : Nat) (hi : i < (x0 :: rest).length) :
    ∃ s, stack ((x0 :: rest).map (dated cs scalar)) = .ok s ∧
      s.timeSlice (i : Int) = .ok ⟨cs, false, scalar, [((x0 :: rest)[i]).1],
        [some (secondsBetween ((x0 :: rest)[i]).2 x0.2)], [some ((x0 :: rest)[i]).2], some x0.2⟩ := by
  obtain ⟨s, hs, c1, c2, c3, c4, c5, c6, c7⟩ := stack_dates_aux cs scalar rest (dated cs scalar x0) [x0.2] x0.2
    rfl rfl rfl rfl (by simp [dated, relDates]) (by simpa using hsorted)
  refine ⟨s, by simpa [stack] using hs, ?_⟩
  have c7' := c7 hr
  obtain ⟨scs, sser, ssc, sslabs, stime, sdate, sref⟩ := s
  simp only [dated] at c1 c2 c3 c4 c5 c6 c7'
  subst c1 c2 c3 c4 c5 c7'
  subst c6
  have e1 : ([x0.1] ++ rest.map (·.1)) = (x0 :: rest).map (·.1) := rfl
  have e2 : ([x0.2] ++ rest.map (·.2)) = (x0 :: rest).map (·.2) := rfl
  rw [e1, e2]
  generalize hxs : x0 :: rest = xs at hi
  unfold Img.timeSlice
  simp only [Bool.not_true, Bool.false_eq_true, if_false, List.length_map]
  rw [pyIndex_nat _ _ hi]
  simp [listGetD, relDates, List.getElem?_map, List.getElem?_eq_getElem hi, sliceTime, hi]

theorem append_offset_fields (im other s : Img) (off : Rat) (h : im.append other (some off) = .ok s)
    (ht : anyNone im.time = false) (ht' : anyNone other.time = false) :
    s.time = im.time ++ other.time.map (fun t => t.map (· + off)) ∧ s.date = im.date ++ other.date ∧
      s.slabs = im.slabs ++ other.slabs ∧ s.cs = im.cs ∧ s.scalar = im.scalar ∧ s.ref = im.ref ∧ s.series = true := by
  unfold Img.append appendChecks appendTimes at h
  simp only [bind, Except.bind, pure, Except.pure, ht, ht', Bool.or_self, Bool.false_eq_true, if_false,
    Option.isNone_some, Bool.false_and, Option.getD_some, throw, throwThe, MonadExceptOf.throw] at h
  repeat' (split at h)
  all_goals first | (injection h with h; subst h; exact ⟨rfl, rfl, rfl, rfl, rfl, rfl, rfl⟩) | (injection h)

theorem timeInterval_fields (im im' : Img) (sl : PySlice) (h : im.timeInterval sl = .ok im') :
    im'.time = Patch.sliceL im.time (sliceIdx im.slabs.length sl) ∧
    im'.date = Patch.sliceL im.date (sliceIdx im.slabs.length sl) ∧
    im'.slabs = Patch.sliceL im.slabs (sliceIdx im.slabs.length sl) ∧ im'.ref = im.ref ∧ im'.cs = im.cs := by
  unfold Img.timeInterval at h
  simp only [bind, Except.bind, pure, Except.pure] at h
  split at h
  · simp [throw, throwThe, MonadExceptOf.throw] at h
  · injection h with h; subst h; exact ⟨rfl, rfl, rfl, rfl, rfl⟩

/-! ### point ROIs: physical box = voxel box, clipping -/
theorem coordinateB_ok (cs : CS) (am : AxisMap) (ham : axisMap cs.dim = .ok am) (ws : List (List Rat)) :
    cs.coordinateB ws = .ok (ws.map (coordWith am cs)) := by
  induction ws with
  | nil => rfl
  | cons w ws ih =>
    simp only [CS.coordinateB] at ih ⊢
    rw [List.mapM_cons, ih]
    simp only [CS.coordinate, ham, Except.map]; rfl

theorem voxelB_ok (cs : CS) (am : AxisMap) (ham : axisMap cs.dim = .ok am) (xs : List (List Rat)) :
    cs.voxelB xs = .ok (xs.map (voxelWith am cs)) := by
  induction xs with
  | nil => rfl
  | cons x xs ih =>
    simp only [CS.voxelB] at ih ⊢
    rw [List.mapM_cons, ih]
    simp only [CS.voxel, ham, Except.map]; rfl

theorem axisMap_exists (d : Dim) : ∃ am, axisMap d = .ok am ∧ am.wf d = true := by
  cases d
  · exact ⟨[(0, false)], by decide, by decide⟩
  · exact ⟨[(1, false), (0, true)], by decide, by decide⟩
  · exact ⟨[(1, false), (2, true), (0, true)], by decide, by decide⟩

/-- a physical box whose corner points are the coordinates of the (fractional) voxel positions `ws`
selects exactly what the VoxelArray of the floored positions selects -/
theorem physical_box_floor (im : Img) (hcs : im.cs.ok) (ws : List (List Rat))
    (hw : ∀ w ∈ ws, w.length = im.cs.dim.toNat) :
    ∃ pts, im.cs.coordinateB ws = .ok pts ∧ im.subCoords pts = im.subVoxels (ws.map (·.map Rat.floor)) := by
  obtain ⟨am, hd, hwf⟩ := axisMap_exists im.cs.dim
  refine ⟨_, coordinateB_ok im.cs am hd ws, ?_⟩
  unfold Img.subCoords Img.subVoxels
  rw [voxelB_ok im.cs am hd]
  simp only [bind, Except.bind]
  have : (ws.map (coordWith am im.cs)).map (voxelWith am im.cs) = ws.map (·.map Rat.floor) := by
    rw [List.map_map]
    apply List.map_congr_left
    intro w hwm
    exact voxel_coord_floor_with im.cs hcs am hwf w (hw w hwm)
  rw [this]

/-- the normalised voxel range a point ROI selects on an axis of `N` voxels when the points' indices span `[lo, hi]` -/
def boxRange (N : Nat) (lo hi : Int) : Nat × Nat := (min (max 0 lo).toNat N, (max 0 (min hi (N : Int))).toNat)

theorem sliceIdx_box (N : Nat) (lo hi : Int) :
    sliceIdx N (some (max 0 lo), some (max 0 (min hi (N : Int)))) = boxRange N lo hi := by
  unfold sliceIdx boxRange
  simp only [Option.map_some, Option.getD_some]
  have h1 : ¬ (max 0 lo < 0) := by omega
  have h2 : ¬ (max 0 (min hi (N : Int)) < 0) := by omega
  simp only [h1, h2, if_false]
  congr 1
  omega

/-- CLIPPING: voxel index `j` is selected iff it is a voxel of the image and lies in `[lo, hi)` -/
theorem clip_selects (N : Nat) (lo hi : Int) (j : Nat) :
    ((boxRange N lo hi).1 ≤ j ∧ j < (boxRange N lo hi).2) ↔ (lo ≤ (j : Int) ∧ (j : Int) < hi ∧ j < N) := by
  unfold boxRange; simp only; omega

/-- a ROI entirely outside the image on an axis (all indices ≤ 0 from below, or ≥ N) selects nothing there -/
theorem roi_outside_selects_nothing (N : Nat) (lo hi : Int) (h : hi ≤ 0 ∨ (N : Int) ≤ lo) :
    (boxRange N lo hi).2 ≤ (boxRange N lo hi).1 ∨ (boxRange N lo hi).2 = 0 := by
  unfold boxRange; simp only; omega
theorem mapM_ok_get {α β} (f : α → Except Err β) (l : List α) : ∀ (r : List β), l.mapM f = .ok r →
    r.length = l.length ∧ ∀ (i : Nat) (a : α), l[i]? = some a → ∃ b, f a = .ok b ∧ r[i]? = some b := by
  induction l with
  | nil =>
    intro r h
    simp only [List.mapM_nil, pure, Except.pure] at h
    injection h with h; subst h; simp
  | cons x l ih =>
    intro r h
    rw [List.mapM_cons] at h
    simp only [bind, Except.bind, pure, Except.pure] at h
    split at h
    · exact absurd h (by simp)
    · next b hb =>
      split at h
      · exact absurd h (by simp)
      · next bs hbs =>
        injection h with h; subst h
        obtain ⟨hl, hg⟩ := ih bs hbs
        refine ⟨by simp [hl], ?_⟩
        intro i a hi
        cases i with
        | zero => simp at hi; subst hi; exact ⟨b, hb, by simp⟩
        | succ n => simp at hi ⊢; exact hg n a hi

theorem boxSlices_ranges (shape : List Nat) (pts : List (List Int)) (sls : List PySlice)
    (h : boxSlices shape pts = .ok sls) :
    sls.length = shape.length ∧ ∀ (d N : Nat), shape[d]? = some N → ∃ lo hi, colMin pts d = some lo ∧ colMax pts d = some hi ∧
      (List.zipWith sliceIdx shape sls)[d]? = some (boxRange N lo hi) := by
  unfold boxSlices at h
  obtain ⟨hl, hg⟩ := mapM_ok_get _ _ _ h
  refine ⟨by simpa using hl, ?_⟩
  intro d N hd
  have hz : shape.zipIdx[d]? = some (N, d) := by
    rw [List.getElem?_zipIdx, hd]; simp
  obtain ⟨b, hb, hr⟩ := hg d (N, d) hz
  simp only at hb
  split at hb
  · next lo hi hlo hhi =>
    injection hb with hb; subst hb
    refine ⟨lo, hi, hlo, hhi, ?_⟩
    rw [List.getElem?_zipWith, hd, hr]
    simp only [Option.map_some, Option.bind_some, Option.some.injEq] 
    exact sliceIdx_box N lo hi
  · exact absurd hb (by simp)

/-- one subregion by arbitrary slices: everything about the result (used by C02 and C19) -/
theorem subSlices_placed (im sub : Img) (hcs : im.cs.ok) (sls : List PySlice)
    (h : im.subSlices sls = .ok sub) (hne : sub.nonempty = true) :
    let ns := List.zipWith sliceIdx im.cs.shape sls
    ∃ am, axisMap im.cs.dim = .ok am ∧
      sub.cs.shape = ns.map (fun s => s.2 - s.1) ∧
      sub.slabs = im.slabs.map (fun sl => { sl with idx := List.zipWith Patch.sliceL sl.idx ns }) ∧
      (∀ v : List Rat, v.length = im.cs.dim.toNat →
        coordWith am sub.cs v = coordWith am im.cs (List.zipWith (· + ·) v (ns.map fun s => ((s.1 : Nat) : Rat)))) ∧
      (∀ p, p < im.cs.dim.toNat → sub.cs.h p = im.cs.h p) ∧
      sub.time = im.time ∧ sub.date = im.date ∧ sub.ref = im.ref ∧ sub.series = im.series ∧ sub.scalar = im.scalar := by
  intro ns
  obtain ⟨hl, hshape⟩ := subSlices_shape im sub sls h
  have hnsLen : ns.length = im.cs.dim.toNat := by
    show (List.zipWith sliceIdx im.cs.shape sls).length = _
    rw [List.length_zipWith, hcs.shapeLen, hl]; simp
  have hlt : ∀ s ∈ ns, s.1 < s.2 := by
    intro s hs
    unfold Img.nonempty at hne
    rw [hshape, List.all_eq_true] at hne
    have := hne (s.2 - s.1) (List.mem_map.mpr ⟨s, hs, rfl⟩)
    simp at this; omega
  obtain ⟨am, ham, hwf, hspec⟩ := subSlices_spec im hcs sls hl (fun s hs => le_of_lt (hlt s hs))
  rw [hspec] at h; injection h with h; subst h
  obtain ⟨_, hamB⟩ := wf_bound hwf
  refine ⟨am, ham, rfl, rfl, ?_, ?_, rfl, rfl, rfl, rfl, rfl⟩
  · intro v hv
    exact subSpec_coord im ns am v (fun pr hpr => by rw [hnsLen]; exact hamB pr hpr) (by rw [hv, hnsLen]) hlt
  · intro p hp
    have hp' : p < ns.length := by rw [hnsLen]; exact hp
    exact subSpec_h im ns am p hp' (by
      apply hlt; unfold listGetD; rw [List.getElem?_eq_getElem hp']; exact List.getElem_mem hp')

/-! ### stack of dated images, general stored times and reference dates -/
/-- a single-time image with date `d`, stored relative time `t` (any) and reference date `rf` (any):
`x = (slab, d, t, rf)` -/
def datedG (cs : CS) (scalar : Bool) (x : Slab × Int × Rat × Int) : Img :=
  ⟨cs, false, scalar, [x.1], [some x.2.2.1], [some x.2.1], some x.2.2.2⟩

theorem stack_datesG_aux (cs : CS) (scalar : Bool) (xs : List (Slab × Int × Rat × Int)) :
    ∀ (acc : Img) (ds : List Int) (r : Int), acc.cs = cs → acc.scalar = scalar → acc.date = ds.map some →
      acc.ref = some r → anyNone acc.time = false → (xs = [] → acc.time = relDates acc.date r) →
      List.Pairwise (· < ·) (ds ++ xs.map (·.2.1)) →
      ∃ s, List.foldlM (fun a o => a.append o none) acc (xs.map (datedG cs scalar)) = .ok s ∧ s.cs = cs ∧
        s.scalar = scalar ∧ s.ref = some r ∧ s.slabs = acc.slabs ++ xs.map (·.1) ∧
        s.date = (ds ++ xs.map (·.2.1)).map some ∧ s.time = relDates s.date r ∧ (xs ≠ [] → s.series = true) := by
  induction xs with
  | nil =>
    intro acc ds r h1 h2 h3 h4 _ h5 _
    exact ⟨acc, rfl, h1, h2, h4, by simp, by simp [h3], h5 rfl, by simp⟩
  | cons x xs ih =>
    intro acc ds r h1 h2 h3 h4 ht _ hp
    have ha := append_dates acc (datedG cs scalar x) (by simp [datedG, h1]) (by simp [datedG, h2])
      (by rw [h3]; exact anyNone_map_some ds) (by simp [datedG, anyNone])
      ht (by simp [datedG, anyNone]) r h4
      (by
        intro a b hl hh
        simp only [datedG, List.head?_cons, Option.some.injEq] at hh
        subst hh
        rw [h3, List.getLast?_map] at hl
        cases hg : ds.getLast? with
        | none => rw [hg] at hl; simp at hl
        | some a' =>
          rw [hg] at hl; simp at hl; subst hl
          have hm : a' ∈ ds := List.mem_of_getLast? hg
          rw [List.pairwise_append] at hp
          exact hp.2.2 a' hm x.2.1 (by simp))
    obtain ⟨s, hs, c1, c2, c3, c4, c5, c6, c7⟩ := ih (appended acc (datedG cs scalar x) (relDates (acc.date ++ (datedG cs scalar x).date) r))
      (ds ++ [x.2.1]) r (by simp [appended, h1]) (by simp [appended, h2]) (by simp [appended, datedG, h3])
      (by simp [appended, h4])
      (by simp only [appended, datedG, h3]
          have : (List.map some ds ++ [some x.2.1]) = List.map some (ds ++ [x.2.1]) := by simp
          rw [this]; exact anyNone_relDates _ r)
      (by intro _; simp [appended]) (by simpa using hp)
    refine ⟨s, ?_, c1, c2, c3, ?_, ?_, c6, ?_⟩
    · rw [List.map_cons, List.foldlM_cons, ha]; exact hs
    · rw [c4]; simp [appended, datedG]
    · rw [c5]; simp
    · intro _
      by_cases hre : xs = []
      · subst hre
        simp only [List.map_nil, List.foldlM_nil, pure, Except.pure] at hs
        injection hs with hs; rw [← hs]; rfl
      · exact c7 hre

/-- `stack` of ≥ 2 dated single-time images (strictly increasing dates; ARBITRARY stored relative times and ARBITRARY
reference dates) then `time_slice(i)`: the data and the date of image `i`, and the relative time `date_i − ref_0`
relative to the reference date of the FIRST image, which becomes the reference date of the series -/
theorem stack_slice_datedG (cs : CS) (scalar : Bool) (x0 : Slab × Int × Rat × Int) (rest : List (Slab × Int × Rat × Int))
    (hr : rest ≠ []) (hsorted : List.Pairwise (· < ·) ((x0 :: rest).map (·.2.1))) (i : Nat) (hi : i < (x0 :: rest).length) :
    ∃ s, stack ((x0 :: rest).map (datedG cs scalar)) = .ok s ∧
      s.timeSlice (i : Int) = .ok ⟨cs, false, scalar, [((x0 :: rest)[i]).1],
        [some (secondsBetween ((x0 :: rest)[i]).2.1 x0.2.2.2)], [some ((x0 :: rest)[i]).2.1], some x0.2.2.2⟩ := by
  obtain ⟨s, hs, c1, c2, c3, c4, c5, c6, c7⟩ := stack_datesG_aux cs scalar rest (datedG cs scalar x0) [x0.2.1] x0.2.2.2
    rfl rfl rfl rfl (by simp [datedG, anyNone]) (fun h => absurd h hr) (by simpa using hsorted)
  refine ⟨s, by simpa [stack] using hs, ?_⟩
  have c7' := c7 hr
  obtain ⟨scs, sser, ssc, sslabs, stime, sdate, sref⟩ := s
  simp only [datedG] at c1 c2 c3 c4 c5 c6 c7'
  subst c1 c2 c3 c4 c5 c7'
  subst c6
  have e1 : ([x0.1] ++ rest.map (·.1)) = (x0 :: rest).map (·.1) := rfl
  have e2 : ([x0.2.1] ++ rest.map (·.2.1)) = (x0 :: rest).map (·.2.1) := rfl
  rw [e1, e2]
  generalize hxs : x0 :: rest = xs at hi
  unfold Img.timeSlice
  simp only [Bool.not_true, Bool.false_eq_true, if_false, List.length_map]
  rw [pyIndex_nat _ _ hi]
  simp [listGetD, relDates, List.getElem?_map, List.getElem?_eq_getElem hi, sliceTime, hi]

/-! ### programs with the composed offset made explicit -/
theorem zipWith_add_zero_nat (off : List Nat) (n : Nat) (h : off.length = n) :
    List.zipWith (· + ·) off (List.replicate n 0) = off := by
  subst h
  induction off with
  | nil => rfl
  | cons x l ih => simp only [List.length_cons, List.replicate_succ, List.zipWith_cons_cons, ih]; simp

theorem placed_stepOff (root im im' : Img) (off st : List Nat) (hP : Placed root im off) (s : Step)
    (h : im.step s = .ok im') (hs : im.stepStarts s = .ok st) (hne : im'.nonempty = true) :
    Placed root im' (List.zipWith (· + ·) off st) := by
  cases s with
  | sub sls =>
    simp only [Img.stepStarts] at hs; injection hs with hs; subst hs
    exact placed_sub root im im' off hP sls h hne
  | subVox pts =>
    simp only [Img.step, Img.subVoxels, bind, Except.bind] at h
    simp only [Img.stepStarts, Except.map] at hs
    cases hb : boxSlices im.cs.shape pts with
    | error e => rw [hb] at h; exact absurd h (by simp)
    | ok sls =>
      rw [hb] at h hs; simp only at h hs; injection hs with hs; subst hs
      exact placed_sub root im im' off hP sls h hne
  | subCoord pts =>
    simp only [Img.step, Img.subCoords, bind, Except.bind] at h
    simp only [Img.stepStarts, bind, Except.bind, pure, Except.pure] at hs
    cases hv : im.cs.voxelB pts with
    | error e => rw [hv] at h; exact absurd h (by simp)
    | ok vox =>
      rw [hv] at h hs; simp only at h hs
      cases hb : boxSlices im.cs.shape vox with
      | error e => rw [hb] at h; exact absurd h (by simp)
      | ok sls =>
        rw [hb] at h hs; simp only at h hs; injection hs with hs; subst hs
        exact placed_sub root im im' off hP sls h hne
  | tslice k =>
    simp only [Img.stepStarts] at hs; injection hs with hs; subst hs
    rw [zipWith_add_zero_nat off _ (by rw [hP.offLen, hP.dim])]
    exact (placed_timeSlice root im im' off hP k h).1
  | tinterval sl =>
    simp only [Img.stepStarts] at hs; injection hs with hs; subst hs
    rw [zipWith_add_zero_nat off _ (by rw [hP.offLen, hP.dim])]
    exact placed_timeInterval root im im' off hP sl h

theorem placed_runOff (root : Img) (steps : List Step) : ∀ (im im' : Img) (off off' : List Nat), Placed root im off →
    im.runOff off steps = some (im', off') → Placed root im' off' ∧ im.runOk steps = some im' := by
  induction steps with
  | nil =>
    intro im im' off off' hP h
    simp only [Img.runOff, Option.some.injEq, Prod.mk.injEq] at h
    obtain ⟨rfl, rfl⟩ := h; exact ⟨hP, rfl⟩
  | cons s ss ih =>
    intro im im' off off' hP h
    unfold Img.runOff at h
    split at h
    · next im1 st h1 h2 =>
      split at h
      · next hne =>
        obtain ⟨a, b⟩ := ih im1 im' _ off' (placed_stepOff root im im1 off st hP s h1 h2 hne) h
        refine ⟨a, ?_⟩
        unfold Img.runOk; rw [h1]; simp only [hne, if_true]; exact b
      · exact absurd h (by simp)
    · exact absurd h (by simp)

end Darsia.Im
