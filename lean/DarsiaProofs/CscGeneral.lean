/-
General correctness of the CSC surgery of `setup_eliminate_lagrange_multiplier`
(`DarsiaModel.Csc.surgery`): for every sparsity pattern satisfying `patternOk` the arrays produced by
the numpy-level operations represent the matrix with rows / columns `k` and `last` dropped.

Structure of the proof (one lemma per numpy step):
* `mem_rmIndices`      : `rm_indices` = positions of column `k` ∪ positions with row index `k`;
* `foldl_decFrom_getD` : the `indptr[row+1:] -= 1` loop subtracts, at column boundary `j`, the number
                         of removed positions below `indptr[j]`, i.e. leaves the number of KEPT positions;
* `unique_foldl_eq`    : `np.unique` of the result merges exactly the two emptied columns;
* `kept_slice`         : `np.delete` restricted to a column = the kept positions of that column;
* `entryPos_surgery`   : entry `(i, j)` of the result is stored at the (renumbered) positions at which the
                         original stores entry `(up k i, up k j)` (index shift of rows `> k`).
-/
import DarsiaProofs.Csc
import Mathlib.Data.List.Sort
set_option linter.unusedVariables false
set_option linter.unusedSimpArgs false
namespace Darsia.Csc
open Darsia

/-! ### elementary facts about the numpy primitives -/

theorem mem_arange {a b p : Nat} : p ∈ arange a b ↔ a ≤ p ∧ p < b := by
  unfold arange
  simp only [List.mem_map, List.mem_range]
  constructor
  · rintro ⟨x, hx, rfl⟩; omega
  · rintro ⟨h1, h2⟩; exact ⟨p - a, by omega, by omega⟩

theorem arange_eq_range' (a b : Nat) : arange a b = List.range' a (b - a) := by
  unfold arange
  rw [List.range'_eq_map_range]
  apply List.map_congr_left
  intro x _; omega

theorem length_arange (a b : Nat) : (arange a b).length = b - a := by
  simp [arange]

theorem mem_whereEq {xs : List Nat} {k p : Nat} :
    p ∈ whereEq xs k ↔ p < xs.length ∧ xs.getD p 0 = k := by
  unfold whereEq
  simp [List.mem_filter]

theorem foldl_max_ge (xs : List Nat) : ∀ init, init ≤ xs.foldl max init ∧ ∀ v ∈ xs, v ≤ xs.foldl max init := by
  induction xs with
  | nil => intro init; simp
  | cons x xs ih =>
    intro init
    simp only [List.foldl_cons, List.mem_cons]
    obtain ⟨h1, h2⟩ := ih (max init x)
    refine ⟨by omega, ?_⟩
    rintro v (rfl | hv)
    · omega
    · exact h2 v hv

theorem foldl_max_le (xs : List Nat) : ∀ init B, init ≤ B → (∀ v ∈ xs, v ≤ B) → xs.foldl max init ≤ B := by
  induction xs with
  | nil => intro init B h _; simpa using h
  | cons x xs ih =>
    intro init B h hx
    simp only [List.foldl_cons]
    apply ih
    · have := hx x (by simp); omega
    · intro v hv; exact hx v (by simp [hv])

theorem mem_unique {xs : List Nat} {v : Nat} : v ∈ unique xs ↔ v ∈ xs := by
  unfold unique
  simp only [List.mem_filter, List.mem_range, List.contains_iff_mem]
  constructor
  · exact fun h => h.2
  · intro h
    exact ⟨Nat.lt_succ_of_le ((foldl_max_ge xs 0).2 v h), h⟩

theorem unique_sorted (xs : List Nat) : (unique xs).Pairwise (· < ·) :=
  List.Pairwise.filter _ List.pairwise_lt_range

theorem mem_rmIndices {indices indptr : List Nat} {k p : Nat} :
    p ∈ rmIndices indices indptr k ↔
      (indptr.getD k 0 ≤ p ∧ p < indptr.getD (k + 1) 0) ∨ (p < indices.length ∧ indices.getD p 0 = k) := by
  unfold rmIndices
  rw [mem_unique, List.mem_append, mem_arange, mem_whereEq]

/-! ### counting kept / removed positions -/

/-- number of kept positions below `x` -/
def cntKept (rm : List Nat) (x : Nat) : Nat := (keptPos x rm).length

/-- number of removed positions below `x` -/
def cntRm (rm : List Nat) (x : Nat) : Nat := (rm.filter fun p => p < x).length

theorem keptPos_succ (rm : List Nat) (x : Nat) :
    keptPos (x + 1) rm = keptPos x rm ++ (if x ∈ rm then [] else [x]) := by
  unfold keptPos
  rw [List.range_succ, List.filter_append]
  by_cases h : x ∈ rm <;> simp [h]

theorem cntKept_succ (rm : List Nat) (x : Nat) :
    cntKept rm (x + 1) = cntKept rm x + (if x ∈ rm then 0 else 1) := by
  unfold cntKept
  rw [keptPos_succ, List.length_append]
  by_cases h : x ∈ rm <;> simp [h]

theorem cntRm_succ {rm : List Nat} (hnd : rm.Nodup) (x : Nat) :
    cntRm rm (x + 1) = cntRm rm x + (if x ∈ rm then 1 else 0) := by
  unfold cntRm
  simp only [← List.countP_eq_length_filter]
  induction rm with
  | nil => simp
  | cons a rm ih =>
    have hnd' := (List.nodup_cons.1 hnd)
    have ih := ih hnd'.2
    simp only [List.countP_cons, List.mem_cons, decide_eq_true_eq]
    by_cases hax : x = a
    · subst hax
      have hn : x ∉ rm := hnd'.1
      simp only [hn, if_false] at ih
      simp only [true_or, if_true, Nat.lt_irrefl, if_false, Nat.lt_succ_self]
      omega
    · by_cases hm : x ∈ rm
      · simp only [hm, if_true, or_true] at ih ⊢
        by_cases h1 : a < x
        · have h2 : a < x + 1 := by omega
          simp only [h1, h2, if_true]; omega
        · have h2 : ¬ a < x + 1 := by omega
          simp only [h1, h2, if_false]; omega
      · simp only [hm, if_false, hax, or_self] at ih ⊢
        by_cases h1 : a < x
        · have h2 : a < x + 1 := by omega
          simp only [h1, h2, if_true]; omega
        · have h2 : ¬ a < x + 1 := by omega
          simp only [h1, h2, if_false]; omega

theorem cnt_add {rm : List Nat} (hnd : rm.Nodup) : ∀ x, cntKept rm x + cntRm rm x = x := by
  intro x
  induction x with
  | zero => simp [cntKept, cntRm, keptPos]
  | succ x ih =>
    rw [cntRm_succ hnd, cntKept_succ]
    by_cases h : x ∈ rm <;> simp only [h, if_true, if_false] <;> omega

theorem cntKept_mono (rm : List Nat) {a b : Nat} (h : a ≤ b) : cntKept rm a ≤ cntKept rm b := by
  induction b with
  | zero => have : a = 0 := by omega
            subst this; exact Nat.le_refl _
  | succ b ih =>
    by_cases hab : a = b + 1
    · subst hab; exact Nat.le_refl _
    · have := ih (by omega)
      rw [cntKept_succ]
      omega

/-- a kept position in `[a, b)` makes the count strictly increase -/
theorem cntKept_lt (rm : List Nat) {a b p : Nat} (ha : a ≤ p) (hb : p < b) (hp : p ∉ rm) :
    cntKept rm a < cntKept rm b := by
  have h1 := cntKept_mono rm ha
  have h2 := cntKept_mono rm (show p + 1 ≤ b by omega)
  have h3 : cntKept rm (p + 1) = cntKept rm p + 1 := by
    rw [cntKept_succ]; simp [hp]
  omega

/-- if every position of `[a, b)` is removed the count does not change -/
theorem cntKept_eq (rm : List Nat) {a b : Nat} (hab : a ≤ b) (h : ∀ p, a ≤ p → p < b → p ∈ rm) :
    cntKept rm a = cntKept rm b := by
  induction b with
  | zero => have : a = 0 := by omega
            subst this; rfl
  | succ b ih =>
    by_cases hab' : a = b + 1
    · subst hab'; rfl
    · have h1 := ih (by omega) (fun p h1 h2 => h p h1 (by omega))
      have h2 := h b (by omega) (by omega)
      rw [cntKept_succ]
      simp [h2, h1]

/-! ### the `indptr[row+1:] -= 1` loop -/

theorem decFrom_length (P : List Nat) (r : Nat) : (decFrom P r).length = P.length := by
  simp [decFrom]

theorem decFrom_getD (P : List Nat) (r j : Nat) :
    (decFrom P r).getD j 0 = if r + 1 ≤ j then P.getD j 0 - 1 else P.getD j 0 := by
  by_cases hj : j < P.length
  · unfold decFrom
    simp [List.getD_eq_getElem?_getD, hj]
  · have hn : P[j]? = none := List.getElem?_eq_none (by omega)
    have hn' : (decFrom P r)[j]? = none := List.getElem?_eq_none (by rw [decFrom_length]; omega)
    simp [List.getD_eq_getElem?_getD, hn, hn']

theorem foldl_decFrom_length (rows : List Nat) : ∀ P : List Nat, (rows.foldl decFrom P).length = P.length := by
  induction rows with
  | nil => intro P; rfl
  | cons r rows ih => intro P; simp only [List.foldl_cons]; rw [ih, decFrom_length]

theorem foldl_decFrom_getD (rows : List Nat) (j : Nat) : ∀ P : List Nat,
    (rows.foldl decFrom P).getD j 0 = P.getD j 0 - (rows.filter fun r => r + 1 ≤ j).length := by
  induction rows with
  | nil => intro P; simp
  | cons r rows ih =>
    intro P
    simp only [List.foldl_cons, List.filter_cons]
    rw [ih, decFrom_getD]
    by_cases h : r + 1 ≤ j <;> simp [h] <;> omega

/-! ### well-formed patterns -/

/-- what `patternOk` says, as propositions (`N = P.length - 1` columns, `nnz = I.length`) -/
structure WF (I P : List Nat) (k : Nat) : Prop where
  hlen : 2 ≤ P.length
  hk : k + 1 < P.length - 1
  h0 : P.getD 0 0 = 0
  hN : P.getD (P.length - 1) 0 = I.length
  hmono : ∀ j, j < P.length - 1 → P.getD j 0 ≤ P.getD (j + 1) 0
  hlastcol : ∀ p, P.getD (P.length - 2) 0 ≤ p → p < P.getD (P.length - 1) 0 → I.getD p 0 = k
  hkeep : ∀ j, j < P.length - 1 → j ≠ k → j ≠ P.length - 2 →
    ∃ p, P.getD j 0 ≤ p ∧ p < P.getD (j + 1) 0 ∧ I.getD p 0 ≠ k

variable {I P : List Nat} {k : Nat}

theorem WF.mono_le (wf : WF I P k) : ∀ a b, a ≤ b → b ≤ P.length - 1 → P.getD a 0 ≤ P.getD b 0 := by
  intro a b hab hb
  induction b with
  | zero => have : a = 0 := by omega
            subst this; exact Nat.le_refl _
  | succ b ih =>
    by_cases h : a = b + 1
    · subst h; exact Nat.le_refl _
    · exact Nat.le_trans (ih (by omega) (by omega)) (wf.hmono b (by omega))

theorem WF.le_nnz (wf : WF I P k) {j : Nat} (hj : j ≤ P.length - 1) : P.getD j 0 ≤ I.length := by
  rw [← wf.hN]; exact wf.mono_le j _ hj (Nat.le_refl _)

theorem WF.lastLe_iff (wf : WF I P k) {idx j : Nat} (hidx : idx < I.length) (hj : j ≤ P.length - 1) :
    lastLe P idx + 1 ≤ j ↔ idx < P.getD j 0 := by
  unfold lastLe
  constructor
  · intro h
    by_contra hc
    have hm : j ∈ (List.range P.length).filter fun j => P.getD j 0 ≤ idx := by
      simp only [List.mem_filter, List.mem_range, decide_eq_true_eq]
      exact ⟨by have := wf.hlen; omega, by omega⟩
    have := (foldl_max_ge _ 0).2 j hm
    omega
  · intro h
    have hj0 : j ≠ 0 := by
      rintro rfl
      rw [wf.h0] at h; omega
    have : ((List.range P.length).filter fun j => P.getD j 0 ≤ idx).foldl max 0 ≤ j - 1 := by
      apply foldl_max_le _ 0 (j - 1) (Nat.zero_le _)
      intro m hm
      simp only [List.mem_filter, List.mem_range, decide_eq_true_eq] at hm
      by_contra hc
      have := wf.mono_le j m (by omega) (by omega)
      omega
    omega

theorem rm_nodup (I P : List Nat) (k : Nat) : (rmIndices I P k).Nodup :=
  (unique_sorted _).imp (fun h => Nat.ne_of_lt h)

theorem WF.rm_lt (wf : WF I P k) {p : Nat} (hp : p ∈ rmIndices I P k) : p < I.length := by
  rcases mem_rmIndices.1 hp with h | h
  · have := wf.le_nnz (j := k + 1) (by have := wf.hk; omega)
    omega
  · exact h.1

/-- after the loop, the entry at column boundary `j` is the number of kept positions below `indptr[j]` -/
theorem WF.loop_getD (wf : WF I P k) {j : Nat} (hj : j ≤ P.length - 1) :
    (((rmIndices I P k).map (lastLe P)).foldl decFrom P).getD j 0
      = cntKept (rmIndices I P k) (P.getD j 0) := by
  rw [foldl_decFrom_getD, List.filter_map, List.length_map]
  have hc : ((rmIndices I P k).filter ((fun r => decide (r + 1 ≤ j)) ∘ lastLe P))
      = (rmIndices I P k).filter fun p => p < P.getD j 0 := by
    apply List.filter_congr
    intro p hp
    simp only [Function.comp, decide_eq_decide]
    exact wf.lastLe_iff (wf.rm_lt hp) hj
  rw [hc]
  have := cnt_add (rm_nodup I P k) (P.getD j 0)
  unfold cntRm at this
  omega

/-! ### `np.unique(indptr)` -/

/-- number of kept positions below column boundary `j` -/
def cB (I P : List Nat) (k j : Nat) : Nat := cntKept (rmIndices I P k) (P.getD j 0)

theorem WF.cB_mono (wf : WF I P k) {a b : Nat} (hab : a ≤ b) (hb : b ≤ P.length - 1) :
    cB I P k a ≤ cB I P k b := cntKept_mono _ (wf.mono_le a b hab hb)

theorem WF.cB_k (wf : WF I P k) : cB I P k k = cB I P k (k + 1) := by
  apply cntKept_eq _ (wf.hmono k (by have := wf.hk; omega))
  intro p h1 h2
  exact mem_rmIndices.2 (Or.inl ⟨h1, h2⟩)

theorem WF.cB_last (wf : WF I P k) : cB I P k (P.length - 2) = cB I P k (P.length - 1) := by
  have hl := wf.hlen
  have h := wf.hmono (P.length - 2) (by omega)
  rw [show P.length - 2 + 1 = P.length - 1 by omega] at h
  apply cntKept_eq _ h
  intro p h1 h2
  refine mem_rmIndices.2 (Or.inr ⟨?_, wf.hlastcol p h1 h2⟩)
  rw [wf.hN] at h2; exact h2

theorem WF.cB_strict (wf : WF I P k) {j : Nat} (hj : j < P.length - 1) (hjk : j ≠ k) (hjl : j ≠ P.length - 2) :
    cB I P k j < cB I P k (j + 1) := by
  obtain ⟨p, h1, h2, h3⟩ := wf.hkeep j hj hjk hjl
  apply cntKept_lt _ h1 h2
  intro hm
  rcases mem_rmIndices.1 hm with h | h
  · rcases Nat.lt_or_gt_of_ne hjk with hlt | hgt
    · have := wf.mono_le (j + 1) k (by omega) (by have := wf.hk; omega); omega
    · have := wf.mono_le (k + 1) j (by omega) (by omega); omega
  · exact h3 h.2

theorem WF.cB_lt (wf : WF I P k) {a b : Nat} (hab : a < b) (hb : b ≤ P.length - 2)
    (ha : a ≠ k + 1) (hbk : b ≠ k + 1) : cB I P k a < cB I P k b := by
  have hl := wf.hlen
  have hk := wf.hk
  by_cases hak : a = k
  · subst hak
    have h1 := wf.cB_k
    have h2 := wf.cB_strict (j := a + 1) (by omega) (by omega) (by omega)
    have h3 := wf.cB_mono (a := a + 1 + 1) (b := b) (by omega) (by omega)
    omega
  · have h2 := wf.cB_strict (j := a) (by omega) hak (by omega)
    have h3 := wf.cB_mono (a := a + 1) (b := b) (by omega) (by omega)
    omega

/-- `np.unique` of the decremented `indptr` merges exactly the two emptied columns -/
theorem WF.unique_loop (wf : WF I P k) :
    unique (((rmIndices I P k).map (lastLe P)).foldl decFrom P)
      = (List.range (P.length - 2)).map fun j' => cB I P k (up (k + 1) j') := by
  have hl := wf.hlen
  have hk := wf.hk
  apply List.Pairwise.eq_of_mem_iff (r := (· < ·)) (unique_sorted _)
  · rw [List.pairwise_map]
    apply List.pairwise_lt_range.imp_of_mem
    intro a b ha hb hab
    simp only [List.mem_range] at ha hb
    apply wf.cB_lt <;> unfold up <;> split <;> try split
    all_goals omega
  · intro v
    rw [mem_unique]
    simp only [List.mem_map, List.mem_range]
    constructor
    · intro hv
      obtain ⟨j, hj, rfl⟩ := List.mem_iff_getElem.1 hv
      rw [foldl_decFrom_length] at hj
      have hq := wf.loop_getD (j := j) (by omega)
      rw [List.getD_eq_getElem?_getD, List.getElem?_eq_getElem (by rw [foldl_decFrom_length]; exact hj)] at hq
      simp only [Option.getD_some] at hq
      rw [hq]
      change ∃ a, a < P.length - 2 ∧ cB I P k (up (k + 1) a) = cB I P k j
      by_cases h1 : j = k + 1
      · subst h1
        exact ⟨k, by omega, by rw [← wf.cB_k]; unfold up; simp⟩
      · by_cases h2 : j = P.length - 1
        · subst h2
          by_cases h3 : P.length - 2 = k + 1
          · refine ⟨k, by omega, ?_⟩
            rw [← wf.cB_last, h3, ← wf.cB_k]; unfold up; simp
          · refine ⟨P.length - 3, by omega, ?_⟩
            rw [← wf.cB_last]
            unfold up
            rw [if_neg (by omega)]
            congr 1; omega
        · by_cases h3 : j < k + 1
          · exact ⟨j, by omega, by unfold up; rw [if_pos h3]⟩
          · refine ⟨j - 1, by omega, ?_⟩
            unfold up
            rw [if_neg (by omega)]
            congr 1; omega
    · rintro ⟨a, ha, rfl⟩
      have hu : up (k + 1) a ≤ P.length - 1 := by unfold up; split <;> omega
      have hq := wf.loop_getD (j := up (k + 1) a) hu
      have hlt : up (k + 1) a < (((rmIndices I P k).map (lastLe P)).foldl decFrom P).length := by
        rw [foldl_decFrom_length]; omega
      rw [List.getD_eq_getElem?_getD, List.getElem?_eq_getElem hlt] at hq
      simp only [Option.getD_some] at hq
      exact List.mem_iff_getElem.2 ⟨_, hlt, hq⟩

/-! ### `np.delete` restricted to a column -/

theorem slice_map (A G H : List Nat) :
    (arange A.length (A.length + G.length)).map (fun q => (A ++ G ++ H).getD q 0) = G := by
  apply List.ext_getElem
  · simp [length_arange]
  · intro t h1 h2
    simp only [List.getElem_map, arange, List.getElem_range, List.getD_eq_getElem?_getD]
    rw [List.append_assoc, List.getElem?_append_right (by omega)]
    rw [show t + A.length - A.length = t by omega, List.getElem?_append_left h2, List.getElem?_eq_getElem h2]
    rfl

theorem keptPos_split (rm : List Nat) {a n : Nat} (h : a ≤ n) :
    keptPos n rm = keptPos a rm ++ (arange a n).filter fun p => !rm.contains p := by
  unfold keptPos arange
  obtain ⟨m, rfl⟩ := Nat.exists_eq_add_of_le h
  rw [List.range_add, List.filter_append, Nat.add_sub_cancel_left]
  congr 2
  apply List.map_congr_left
  intro x _; omega

/-- `np.delete` restricted to `[a, b)`: the renumbered positions `[cnt a, cnt b)` of the shortened arrays
are the kept positions of `[a, b)`, in order -/
theorem kept_slice (rm : List Nat) {a b n : Nat} (hab : a ≤ b) (hbn : b ≤ n) :
    (arange (cntKept rm a) (cntKept rm b)).map (fun q => (keptPos n rm).getD q 0)
      = (arange a b).filter fun p => !rm.contains p := by
  have h1 := keptPos_split rm hab
  have h2 := keptPos_split rm hbn
  have hl : cntKept rm b = cntKept rm a + ((arange a b).filter fun p => !rm.contains p).length := by
    unfold cntKept; rw [h1, List.length_append]
  rw [hl, h2, h1]
  unfold cntKept
  exact slice_map _ _ _

theorem cntKept_le_length (rm : List Nat) {b n : Nat} (hbn : b ≤ n) : cntKept rm b ≤ (keptPos n rm).length :=
  cntKept_mono rm hbn

/-! ### composition -/

/-- the index shift of rows `> k` -/
def shift (k i : Nat) : Nat := if k < i then i - 1 else i

/-- the arrays the surgery produces, in closed form -/
def newIndices (I P : List Nat) (k : Nat) : List Nat :=
  (deleteAt 0 I (rmIndices I P k)).map fun i => if k < i then i - 1 else i
def newIndptr (I P : List Nat) (k : Nat) : List Nat :=
  (List.range (P.length - 2)).map fun j' => cB I P k (up (k + 1) j')

theorem WF.surgeryPattern_ok (wf : WF I P k) :
    surgeryPattern I P k = .ok (rmIndices I P k, newIndices I P k, newIndptr I P k) := by
  unfold surgeryPattern
  simp only
  rw [wf.unique_loop]
  have hl := wf.hlen
  rw [if_pos (by simp; omega)]
  rfl

theorem WF.newIndptr_col (wf : WF I P k) {j : Nat} (hj : j < P.length - 3) :
    (newIndptr I P k).getD j 0 = cB I P k (up k j) ∧
    (newIndptr I P k).getD (j + 1) 0 = cB I P k (up k j + 1) := by
  have hl := wf.hlen
  have hk := wf.hk
  have g : ∀ t, t < P.length - 2 → (newIndptr I P k).getD t 0 = cB I P k (up (k + 1) t) := by
    intro t ht
    unfold newIndptr
    simp [List.getD_eq_getElem?_getD, List.getElem?_map, List.getElem?_range ht]
  rw [g j (by omega), g (j + 1) (by omega)]
  unfold up
  by_cases h1 : j < k
  · have e1 : j < k + 1 := by omega
    have e2 : j + 1 < k + 1 := by omega
    simp only [e1, e2, h1, if_true]
    exact ⟨trivial, trivial⟩
  · by_cases h2 : j = k
    · subst h2
      have e1 : j < j + 1 := by omega
      have e2 : ¬ j + 1 < j + 1 := by omega
      have e3 : ¬ j < j := by omega
      simp only [e1, e2, e3, if_true, if_false]
      exact ⟨wf.cB_k, trivial⟩
    · have e1 : ¬ j < k + 1 := by omega
      have e2 : ¬ j + 1 < k + 1 := by omega
      simp only [e1, e2, h1, if_false]
      exact ⟨trivial, trivial⟩

theorem newIndices_get (I P : List Nat) (k : Nat) {q : Nat} (hq : q < (keptPos I.length (rmIndices I P k)).length) :
    (newIndices I P k)[q]? = some (shift k (I.getD ((keptPos I.length (rmIndices I P k)).getD q 0) 0)) := by
  unfold newIndices deleteAt shift
  simp only [List.getElem?_map, List.getElem?_eq_getElem hq, Option.map_some, List.getD_eq_getElem?_getD,
    Option.getD_some]

/-- **entry positions after the surgery**: entry `(i, j)` of the result is stored at the renumbered
positions at which the original stores entry `(up k i, up k j)` -/
theorem WF.entryPos_surgery (wf : WF I P k) (i : Nat) {j : Nat} (hj : j < P.length - 3) :
    (∀ q ∈ entryPos (newIndices I P k) (newIndptr I P k) i j, q < (keptPos I.length (rmIndices I P k)).length) ∧
    (entryPos (newIndices I P k) (newIndptr I P k) i j).map
        (fun q => (keptPos I.length (rmIndices I P k)).getD q 0)
      = entryPos I P (up k i) (up k j) := by
  have hl := wf.hlen
  have hk := wf.hk
  obtain ⟨hA, hB⟩ := wf.newIndptr_col hj
  set c := up k j with hc
  have hck : c ≠ k := by rw [hc]; unfold up; split <;> omega
  have hcN : c + 1 ≤ P.length - 1 := by rw [hc]; unfold up; split <;> omega
  have hle := wf.hmono c (by omega)
  have hnnz := wf.le_nnz (j := c + 1) hcN
  have hbound : ∀ q ∈ arange (cB I P k c) (cB I P k (c + 1)), q < (keptPos I.length (rmIndices I P k)).length := by
    intro q hq
    have := (mem_arange.1 hq).2
    have h2 : cB I P k (c + 1) ≤ (keptPos I.length (rmIndices I P k)).length := cntKept_le_length (rmIndices I P k) hnnz
    omega
  unfold entryPos
  rw [hA, hB]
  constructor
  · intro q hq
    exact hbound q (List.mem_filter.1 hq).1
  · -- rewrite the row test through the renumbering
    have hcongr : (arange (cB I P k c) (cB I P k (c + 1))).filter (fun q => (newIndices I P k)[q]? == some i)
        = (arange (cB I P k c) (cB I P k (c + 1))).filter
            ((fun p => shift k (I.getD p 0) == i) ∘ fun q => (keptPos I.length (rmIndices I P k)).getD q 0) := by
      apply List.filter_congr
      intro q hq
      rw [newIndices_get I P k (hbound q hq)]
      simp [Function.comp]
    rw [hcongr, ← List.filter_map]
    have hs := kept_slice (rmIndices I P k) hle hnnz
    unfold cB at *
    rw [hs, List.filter_filter]
    apply List.filter_congr
    intro p hp
    obtain ⟨hp1, hp2⟩ := mem_arange.1 hp
    have hpI : p < I.length := by omega
    have hget : I[p]? = some (I.getD p 0) := by
      rw [List.getD_eq_getElem?_getD, List.getElem?_eq_getElem hpI]; rfl
    rw [hget]
    -- membership in (rmIndices I P k) for a position of column c ≠ k
    have hmem : p ∈ (rmIndices I P k) ↔ I.getD p 0 = k := by
      rw [mem_rmIndices]
      constructor
      · rintro (h | h)
        · exfalso
          rcases Nat.lt_or_gt_of_ne hck with hlt | hgt
          · have := wf.mono_le (c + 1) k (by omega) (by omega); omega
          · have := wf.mono_le (k + 1) c (by omega) (by omega); omega
        · exact h.2
      · intro h; exact Or.inr ⟨hpI, h⟩
    generalize I.getD p 0 = v at hmem ⊢
    by_cases hv : v = k
    · have : p ∈ (rmIndices I P k) := hmem.2 hv
      subst hv
      have hne : ¬ (v = up v i) := by unfold up; split <;> omega
      simp [this, hne]
    · have hn : p ∉ (rmIndices I P k) := fun h => hv (hmem.1 h)
      have hiff : shift k v = i ↔ v = up k i := by
        unfold shift up; split <;> split <;> omega
      simp [hn, hiff]


variable {α : Type}

theorem wf_of_patternOk {I P : List Nat} {k : Nat} (h : patternOk I P k = true) : WF I P k := by
  unfold patternOk at h
  simp only [Bool.and_eq_true, decide_eq_true_eq, beq_iff_eq, List.all_eq_true, List.mem_range,
    List.mem_map, Bool.or_eq_true, List.any_eq_true, bne_iff_ne, ne_eq, forall_exists_index, and_imp,
    forall_apply_eq_imp_iff₂] at h
  obtain ⟨⟨⟨⟨⟨⟨⟨⟨h1, h2⟩, h3⟩, h4⟩, h5⟩, h6⟩, h7⟩, h8⟩, h9⟩ := h
  have h0 : P.getD 0 0 = 0 := by
    have : P[0]? ≠ none := by
      intro hn; rw [List.getElem?_eq_none_iff] at hn; omega
    rw [List.getD_eq_getElem?_getD] at h3 ⊢
    cases hp : P[0]? with
    | none => exact absurd hp this
    | some v => rw [hp] at h3; simpa using h3
  have wf0 : ∀ a b, a ≤ b → b ≤ P.length - 1 → P.getD a 0 ≤ P.getD b 0 := by
    intro a b hab hb
    induction b with
    | zero => have : a = 0 := by omega
              subst this; exact Nat.le_refl _
    | succ b ih =>
      by_cases hh : a = b + 1
      · subst hh; exact Nat.le_refl _
      · exact Nat.le_trans (ih (by omega) (by omega)) (h5 b (by omega))
  have hd : ∀ p, p < I.length → I.getD p (P.length - 1) = I.getD p 0 := by
    intro p hp
    simp [List.getD_eq_getElem?_getD, List.getElem?_eq_getElem hp]
  refine ⟨h1, h2, h0, h4, h5, ?_, ?_⟩
  · intro p hp1 hp2
    have := h7 p (mem_arange.2 ⟨by rw [show P.length - 1 - 1 = P.length - 2 by omega]; exact hp1,
      by rw [show P.length - 1 - 1 + 1 = P.length - 1 by omega]; exact hp2⟩)
    rw [hd p (by omega)] at this
    exact this
  · intro j hj hjk hjl
    rcases h9 j hj with (h | h) | ⟨v, ⟨p, hp, rfl⟩, hne⟩
    · exact absurd h hjk
    · exact absurd h (by omega)
    · obtain ⟨hp1, hp2⟩ := mem_arange.1 hp
      have : p < I.length := by
        have := wf0 (j + 1) (P.length - 1) (by omega) (Nat.le_refl _)
        omega
      rw [hd p this] at hne
      exact ⟨p, hp1, hp2, hne⟩

/-- **general CSC-surgery theorem**: for every well-formed pattern (`patternOk`) and arbitrary data the
array surgery succeeds, removes two columns, and entry `(i, j)` of its result is entry `(up k i, up k j)`
of the original, i.e. rows / columns `k` and `last` are dropped. -/
theorem surgery_dense [Add α] [OfNat α 0] (m : CSC α) (k : Nat)
    (hp : patternOk m.indices m.indptr k = true) (hlen : m.data.length = m.indices.length) :
    ∃ r, surgery m k = .ok r ∧ r.ncols + 2 = m.ncols ∧
      ∀ i j, j < r.ncols → entry r i j = entry m (up k i) (up k j) := by
  have wf := wf_of_patternOk hp
  have hl := wf.hlen
  have hk := wf.hk
  refine ⟨⟨deleteAt 0 m.data (rmIndices m.indices m.indptr k), newIndices m.indices m.indptr k,
    newIndptr m.indices m.indptr k⟩, ?_, ?_, ?_⟩
  · unfold surgery; rw [wf.surgeryPattern_ok]
  · simp only [CSC.ncols, newIndptr, List.length_map, List.length_range]; omega
  · intro i j hj
    simp only [CSC.ncols, newIndptr, List.length_map, List.length_range] at hj
    obtain ⟨hb, he⟩ := wf.entryPos_surgery i (j := j) (by omega)
    unfold entry
    simp only
    rw [← he, List.map_map]
    congr 1
    apply List.map_congr_left
    intro q hq
    simp only [Function.comp]
    rw [deleteAt_getD m.data _ q (by rw [hlen]; exact hb q hq), hlen]

/-! ### list form: `toDenseT (surgery m k) = dropRowCol (toDenseT m) k last` -/

theorem keptPos_pair {n k : Nat} (hk : k + 1 < n) :
    keptPos n [k, n - 1] = (List.range (n - 2)).map (up k) := by
  unfold keptPos
  apply List.Pairwise.eq_of_mem_iff (r := (· < ·)) (List.Pairwise.filter _ List.pairwise_lt_range)
  · rw [List.pairwise_map]
    apply List.pairwise_lt_range.imp
    intro a b hab
    unfold up; split <;> split <;> omega
  · intro p
    simp only [List.mem_filter, List.mem_range, List.mem_map, List.contains_cons, List.contains_nil,
      Bool.or_false, Bool.not_eq_true', Bool.or_eq_false_iff, beq_eq_false_iff_ne, ne_eq]
    constructor
    · rintro ⟨h1, h2, h3⟩
      by_cases hpk : p < k
      · exact ⟨p, by omega, by unfold up; rw [if_pos hpk]⟩
      · exact ⟨p - 1, by omega, by unfold up; rw [if_neg (by omega)]; omega⟩
    · rintro ⟨a, ha, rfl⟩
      unfold up; split <;> refine ⟨?_, ?_, ?_⟩ <;> omega

theorem deleteAt_map_range {β : Type} (d : β) (f : Nat → β) {n k : Nat} (hk : k + 1 < n) :
    deleteAt d ((List.range n).map f) [k, n - 1] = (List.range (n - 2)).map fun a => f (up k a) := by
  unfold deleteAt
  rw [List.length_map, List.length_range, keptPos_pair hk, List.map_map]
  apply List.map_congr_left
  intro a ha
  simp only [List.mem_range] at ha
  have : up k a < n := by unfold up; split <;> omega
  simp [Function.comp, List.getD_eq_getElem?_getD, List.getElem?_map, List.getElem?_range this]

/-- the statement in matrix form (column-major dense lists) -/
theorem surgery_toDense [Add α] [OfNat α 0] (m : CSC α) (k : Nat)
    (hp : patternOk m.indices m.indptr k = true) (hlen : m.data.length = m.indices.length) :
    ∃ r, surgery m k = .ok r ∧
      toDenseT r (m.ncols - 2) = dropRowCol 0 (toDenseT m m.ncols) k (m.ncols - 1) := by
  obtain ⟨r, hs, hn, he⟩ := surgery_dense m k hp hlen
  have wf := wf_of_patternOk hp
  have hk : k + 1 < m.ncols := wf.hk
  refine ⟨r, hs, ?_⟩
  unfold dropRowCol toDenseT
  have hlast : m.ncols - 1 = ((List.range m.ncols).map fun j =>
      (List.range m.ncols).map fun i => entry m i j).length - 1 := by simp
  rw [deleteAt_map_range [] _ hk, List.map_map]
  rw [show r.ncols = m.ncols - 2 by omega]
  apply List.map_congr_left
  intro j hj
  simp only [List.mem_range] at hj
  simp only [Function.comp]
  rw [deleteAt_map_range 0 _ hk]
  apply List.map_congr_left
  intro i _
  exact he i j (by omega)


end Darsia.Csc
