/-
C05, OpenCV back-end: `EMD.__call__` around an abstract `cv2.EMD`.  `E s t` stands for `cv2.EMD(sig_1, sig_2, DIST_L2)[0]` as a
function of the two weight vectors over the common pixel positions; what is assumed of it are the transport-metric facts for
unit-mass signatures (`IsW1`).
-/
import DarsiaModel.Transport
import DarsiaProofs.Sums
import DarsiaProofs.TransportReal
import Mathlib.Analysis.Real.Sqrt
import Mathlib.Tactic.FieldSimp
import Mathlib.Tactic.Positivity
namespace Darsia

/-- Euclidean distance of two signature positions -/
noncomputable def dist2 (x y : Rat × Rat) : ℝ :=
  Real.sqrt ((((x.1 - y.1 : Rat) : ℝ)) ^ 2 + (((x.2 - y.2 : Rat) : ℝ)) ^ 2)

/-- first moment of a weight vector over the positions -/
def momX (n : Nat) (pos : Nat → Rat × Rat) (s : Nat → Rat) : Rat := sumTo n (fun k => s k * (pos k).1)
def momY (n : Nat) (pos : Nat → Rat × Rat) (s : Nat → Rat) : Rat := sumTo n (fun k => s k * (pos k).2)

/-- contract of `cv2.EMD(·, ·, DIST_L2)[0]` on signatures of total weight 1 over `n` positions: symmetric, Euclidean distance
between point masses, never below the displacement of the first moment (all true of the 1-Wasserstein distance) -/
structure IsW1 (n : Nat) (pos : Nat → Rat × Rat) (E : (Nat → Rat) → (Nat → Rat) → ℝ) : Prop where
  symm : ∀ s t, E s t = E t s
  point : ∀ i j, i < n → j < n → E (fun k => if k = i then 1 else 0) (fun k => if k = j then 1 else 0) = dist2 (pos i) (pos j)
  moment : ∀ s t, sumTo n s = 1 → sumTo n t = 1 → (∀ k, k < n → 0 ≤ s k) → (∀ k, k < n → 0 ≤ t k) →
    Real.sqrt (((momX n pos s - momX n pos t : Rat) : ℝ) ^ 2 + ((momY n pos s - momY n pos t : Rat) : ℝ) ^ 2) ≤ E s t

/-- `EMD.__call__(img_1, img_2)` : `cv2.EMD(normalised signatures) · integral(img_1) · cell_volume` -/
noncomputable def emdCall (E : (Nat → Rat) → (Nat → Rat) → ℝ) (n : Nat) (vol : Rat) (a b : Nat → Rat) : ℝ :=
  E (emdWeight n a) (emdWeight n b) * ((emdIntegral n a * vol : Rat) : ℝ)

theorem emdWeight_single (n i : Nat) (v : Rat) (hi : i < n) (hv : v ≠ 0) :
    emdWeight n (fun k => if k = i then v else 0) = fun k => if k = i then 1 else 0 := by
  have hI : emdIntegral n (fun k => if k = i then v else 0) = v := by
    unfold emdIntegral; exact sumTo_ite_eq n i (fun _ => v) hi
  funext k
  simp only [emdWeight, hI]
  by_cases h : k = i
  · simp [h, hv]
  · simp [h]

theorem emdWeight_smul (n : Nat) (a : Nat → Rat) (s : Rat) (hs : s ≠ 0) :
    emdWeight n (fun k => s * a k) = emdWeight n a := by
  funext k
  simp only [emdWeight, emdIntegral]
  rw [sumTo_mul_left]
  by_cases h0 : sumTo n a = 0
  · simp [h0]
  · field_simp

theorem sumTo_div (n : Nat) (a : Nat → Rat) (c : Rat) : sumTo n (fun k => a k / c) = sumTo n a / c := by
  simp only [div_eq_mul_inv]; exact sumTo_mul_right n c⁻¹ a

theorem mom_div (n : Nat) (pos : Nat → Rat × Rat) (a : Nat → Rat) (I : Rat) :
    momX n pos (fun k => a k / I) = momX n pos a / I ∧ momY n pos (fun k => a k / I) = momY n pos a / I := by
  constructor
  · unfold momX; rw [← sumTo_div]; exact sumTo_congr fun k _ => by ring
  · unfold momY; rw [← sumTo_div]; exact sumTo_congr fun k _ => by ring

theorem sqrt_scale (u w I : ℝ) (hI : 0 < I) :
    Real.sqrt ((u / I) ^ 2 + (w / I) ^ 2) * I = Real.sqrt (u ^ 2 + w ^ 2) := by
  have e : (u / I) ^ 2 + (w / I) ^ 2 = (u ^ 2 + w ^ 2) / I ^ 2 := by field_simp
  rw [e, Real.sqrt_div (by positivity), Real.sqrt_sq hI.le]
  field_simp

theorem emdCall_first_moment {n : Nat} {pos : Nat → Rat × Rat} {E} (hE : IsW1 n pos E) (vol : Rat) (a b : Nat → Rat)
    (hv : 0 ≤ vol) (ha : ∀ k, k < n → 0 ≤ a k) (hb : ∀ k, k < n → 0 ≤ b k) (hI : 0 < emdIntegral n a)
    (hab : emdIntegral n a = emdIntegral n b) :
    Real.sqrt (((momX n pos a - momX n pos b : Rat) : ℝ) ^ 2 + ((momY n pos a - momY n pos b : Rat) : ℝ) ^ 2) *
        ((vol : Rat) : ℝ) ≤ emdCall E n vol a b := by
  set I := emdIntegral n a with hIdef
  have hIb : emdIntegral n b = I := hab.symm
  have hIR : (0 : ℝ) < ((I : Rat) : ℝ) := by exact_mod_cast hI
  have hvR : (0 : ℝ) ≤ ((vol : Rat) : ℝ) := by exact_mod_cast hv
  have w1 : sumTo n (emdWeight n a) = 1 := by
    show sumTo n (fun k => a k / emdIntegral n a) = 1
    rw [sumTo_div]; exact div_self hI.ne'
  have w2 : sumTo n (emdWeight n b) = 1 := by
    show sumTo n (fun k => b k / emdIntegral n b) = 1
    rw [sumTo_div, hIb]
    have : sumTo n b = I := hIb
    rw [this]; exact div_self hI.ne'
  have m := hE.moment (emdWeight n a) (emdWeight n b) w1 w2
    (fun k hk => div_nonneg (ha k hk) hI.le) (fun k hk => by unfold emdWeight; rw [hIb]; exact div_nonneg (hb k hk) hI.le)
  have ex : momX n pos (emdWeight n a) - momX n pos (emdWeight n b) = (momX n pos a - momX n pos b) / I := by
    have h1 := (mom_div n pos a (emdIntegral n a)).1
    have h2 := (mom_div n pos b (emdIntegral n b)).1
    show momX n pos (fun k => a k / emdIntegral n a) - momX n pos (fun k => b k / emdIntegral n b) = _
    rw [h1, h2, hIb]; ring
  have ey : momY n pos (emdWeight n a) - momY n pos (emdWeight n b) = (momY n pos a - momY n pos b) / I := by
    have h1 := (mom_div n pos a (emdIntegral n a)).2
    have h2 := (mom_div n pos b (emdIntegral n b)).2
    show momY n pos (fun k => a k / emdIntegral n a) - momY n pos (fun k => b k / emdIntegral n b) = _
    rw [h1, h2, hIb]; ring
  rw [ex, ey] at m
  push_cast at m
  unfold emdCall
  have key := sqrt_scale (((momX n pos a - momX n pos b : Rat) : ℝ)) (((momY n pos a - momY n pos b : Rat) : ℝ)) ((I : Rat) : ℝ) hIR
  push_cast at key ⊢
  calc Real.sqrt (((momX n pos a : ℝ) - (momX n pos b : ℝ)) ^ 2 + ((momY n pos a : ℝ) - (momY n pos b : ℝ)) ^ 2) * (vol : ℝ)
      = Real.sqrt ((((momX n pos a : ℝ) - (momX n pos b : ℝ)) / (I : ℝ)) ^ 2 + (((momY n pos a : ℝ) - (momY n pos b : ℝ)) / (I : ℝ)) ^ 2)
          * ((I : ℝ) * (vol : ℝ)) := by rw [← key]; ring
    _ ≤ E (emdWeight n a) (emdWeight n b) * ((I : ℝ) * (vol : ℝ)) :=
        mul_le_mul_of_nonneg_right m (mul_nonneg hIR.le hvR)

end Darsia
