/-
Anderson mixing as coded preserves every linear constraint that all fixed-point images satisfy: if `row(gk) = φ` for
every call (here: the rows of the divergence, `φ` = the mass source), then `row(xkp1) = φ` for every call, whatever the
least-squares solve returns.
-/
import DarsiaModel.Anderson
import DarsiaProofs.Sums
namespace Darsia.Anderson
open Darsia

/-- a linear functional given by coefficients on the first `n` entries (a row of the divergence matrix) -/
def row (n : Nat) (a : Nat → Rat) (v : V) : Rat := sumTo n fun e => a e * v e

theorem row_sub (n : Nat) (a : Nat → Rat) (u v : V) : row n a (vsub u v) = row n a u - row n a v := by
  unfold row vsub
  rw [← sumTo_sub]
  apply sumTo_congr; intro e _; ring

theorem row_zero (n : Nat) (a : Nat → Rat) : row n a zeroV = 0 := by
  unfold row zeroV
  rw [sumTo_congr (g := fun _ => 0) (fun e _ => by ring), sumTo_const_zero]

/-- mixing with columns on which the functional vanishes does not change its value -/
theorem row_mix (n : Nat) (a : Nat → Rat) : ∀ (cols : List V) (γ : List Rat) (g : V),
    (∀ c ∈ cols, row n a c = 0) → row n a (mix g cols γ) = row n a g
  | [], _, g, _ => by cases ‹List Rat› <;> rfl
  | c :: cs, [], g, _ => rfl
  | c :: cs, y :: ys, g, h => by
    simp only [mix]
    rw [row_mix n a cs ys _ (fun c' hc' => h c' (List.mem_cons_of_mem _ hc'))]
    have hc := h c (List.mem_cons_self ..)
    unfold row at hc ⊢
    have : sumTo n (fun e => a e * (g e - c e * y)) = sumTo n (fun e => a e * g e) - sumTo n (fun e => a e * c e) * y := by
      rw [← sumTo_mul_right, ← sumTo_sub]
      apply sumTo_congr; intro e _; ring
    rw [this, hc]; ring

/-- invariant of the stored history: the functional vanishes on every column of `G`, and has the value `φ` on the last
image -/
structure Inv (n : Nat) (a : Nat → Rat) (φ : Rat) (st : St) : Prop where
  cols : ∀ c ∈ st.G, row n a c = 0
  last : row n a st.gkm1 = φ

theorem mem_set_of {α} {l : List α} {i : Nat} {x y : α} (h : y ∈ l.set i x) : y = x ∨ y ∈ l := by
  induction l generalizing i with
  | nil => simp at h
  | cons z zs ih =>
    cases i with
    | zero =>
      simp only [List.set_cons_zero, List.mem_cons] at h
      rcases h with h | h
      · exact Or.inl h
      · exact Or.inr (List.mem_cons_of_mem _ h)
    | succ i =>
      simp only [List.set_cons_succ, List.mem_cons] at h
      rcases h with h | h
      · exact Or.inr (h ▸ List.mem_cons_self ..)
      · rcases ih h with h' | h'
        · exact Or.inl h'
        · exact Or.inr (List.mem_cons_of_mem _ h')

/-- **one call**: if the functional has the value `φ` on the new image `gk` and the stored history is consistent (or
the call resets it), the returned iterate has the value `φ` and the new history is consistent — for ANY least-squares
routine -/
theorem call_preserves (n : Nat) (a : Nat → Rat) (φ : Rat) (depth : Nat) (restart : Option Nat)
    (lstsq : List V → V → List Rat) (st : St) (gk fk : V) (iteration : Nat)
    (hg : row n a gk = φ) (hst : inner restart iteration = 0 ∨ Inv n a φ st) :
    row n a (call depth restart lstsq st gk fk iteration).1 = φ ∧
      Inv n a φ (call depth restart lstsq st gk fk iteration).2 := by
  unfold call
  by_cases h0 : inner restart iteration = 0
  · -- reset: no mixing
    have hmk : ¬ 0 < min 0 depth := by simp
    simp only [h0, if_true, hmk, if_false]
    refine ⟨hg, ⟨?_, hg⟩⟩
    intro c hc
    simp only [reset, List.mem_replicate] at hc
    rw [hc.2]; exact row_zero n a
  · have hinv : Inv n a φ st := hst.resolve_left h0
    simp only [h0, if_false]
    by_cases hmk : 0 < min (inner restart iteration) depth
    · simp only [hmk, if_true]
      have hcols : ∀ c ∈ st.G.set ((iteration - 1) % depth) (vsub gk st.gkm1), row n a c = 0 := by
        intro c hc
        rcases mem_set_of hc with rfl | h
        · rw [row_sub, hg, hinv.last]; ring
        · exact hinv.cols c h
      refine ⟨?_, ⟨hcols, hg⟩⟩
      rw [row_mix n a _ _ _ (fun c hc => hcols c (List.mem_of_mem_take hc))]
      exact hg
    · simp only [hmk, if_false]
      exact ⟨hg, ⟨hinv.cols, hg⟩⟩

theorem inner_zero (restart : Option Nat) : inner restart 0 = 0 := by
  cases restart <;> simp [inner]

/-- state before the `k`-th call of a run that starts with iteration 0 (as both `_solve` loops do) -/
def runSt (depth : Nat) (restart : Option Nat) (lstsq : List V → V → List Rat) (gs fs : Nat → V) : Nat → St
  | 0 => reset depth
  | k + 1 => (call depth restart lstsq (runSt depth restart lstsq gs fs k) (gs k) (fs k) k).2

/-- **whole run**: if every fixed-point image handed to the accelerator satisfies the linear constraint, so does every
iterate it returns -/
theorem run_preserves (n : Nat) (a : Nat → Rat) (φ : Rat) (depth : Nat) (restart : Option Nat)
    (lstsq : List V → V → List Rat) (gs fs : Nat → V) (hg : ∀ k, row n a (gs k) = φ) :
    ∀ k, row n a (call depth restart lstsq (runSt depth restart lstsq gs fs k) (gs k) (fs k) k).1 = φ := by
  have hinv : ∀ k, inner restart k = 0 ∨ Inv n a φ (runSt depth restart lstsq gs fs k) := by
    intro k
    induction k with
    | zero => exact Or.inl (inner_zero restart)
    | succ k ih => exact Or.inr (call_preserves n a φ depth restart lstsq _ (gs k) (fs k) k (hg k) ih).2
  intro k
  exact (call_preserves n a φ depth restart lstsq _ (gs k) (fs k) k (hg k) (hinv k)).1

end Darsia.Anderson
