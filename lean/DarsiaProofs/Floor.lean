/-
Floor / ceil lemmas over `Rat` (the float bridge of DESIGN §3 and the arithmetic core of C01).
-/
import Mathlib.Tactic.Ring
import Mathlib.Tactic.Linarith
import Mathlib.Tactic.FieldSimp
import Mathlib.Data.Rat.Floor
import DarsiaModel.Coord

namespace Darsia

theorem floor_eq_of_bounds {x : Rat} {v : Int} (h0 : (v : Rat) ≤ x) (h1 : x < (v : Rat) + 1) :
    Rat.floor x = v := by
  have a : v ≤ x.floor := Rat.le_floor_iff.mpr h0
  have b : x.floor < v + 1 := Rat.floor_lt_iff.mpr (by push_cast; exact h1)
  omega

theorem floor_int_add (v : Int) (t : Rat) (h0 : 0 ≤ t) (h1 : t < 1) :
    Rat.floor ((v : Rat) + t) = v :=
  floor_eq_of_bounds (by linarith) (by linarith)

/-- float bridge: a perturbation smaller than the distance to the nearest breakpoint does not
change the floor -/
theorem floor_stable (x e δ : Rat) (hlo : (x.floor : Rat) + δ ≤ x) (hhi : x ≤ (x.floor : Rat) + 1 - δ)
    (he : |e| < δ) : Rat.floor (x + e) = Rat.floor x := by
  have h := abs_lt.mp he
  exact floor_eq_of_bounds (by linarith) (by linarith)

theorem sgn_mul_self (r : Bool) : sgn r * sgn r = 1 := by
  cases r <;> simp [sgn]

/-- arithmetic core of the round trip: the affine map of one axis followed by its inverse -/
theorem axis_roundtrip (o h x : Rat) (r : Bool) (hh : 0 < h) :
    sgn r * ((o + sgn r * x * h) - o) / h = x := by
  have hne : h ≠ 0 := ne_of_gt hh
  have : sgn r * ((o + sgn r * x * h) - o) = (sgn r * sgn r) * x * h := by ring
  rw [this, sgn_mul_self]; field_simp

theorem floor_roundtrip (o h t : Rat) (v : Int) (r : Bool) (hh : 0 < h) (h0 : 0 ≤ t) (h1 : t < 1) :
    Rat.floor (sgn r * ((o + sgn r * ((v : Rat) + t) * h) - o) / h) = v := by
  rw [axis_roundtrip o h _ r hh]; exact floor_int_add v t h0 h1

/-- float bridge for `ceil` (patch sizes, `num_voxels`): note that the breakpoints of `ceil` are the integers themselves, so
an exactly integral quotient is NOT stable — the reason the float evaluation of `ceil(n·h/h)` can give `n + 1` -/
theorem ceil_stable (x e δ : Rat) (hlo : ((x.ceil : Int) : Rat) - 1 + δ ≤ x) (hhi : x ≤ ((x.ceil : Int) : Rat) - δ)
    (he : |e| < δ) : Rat.ceil (x + e) = Rat.ceil x := by
  have h := abs_lt.mp he
  have a : (x + e).ceil ≤ x.ceil := Rat.ceil_le_iff.mpr (by linarith)
  have b : x.ceil - 1 < (x + e).ceil := Rat.lt_ceil_iff.mpr (by push_cast; linarith)
  omega

end Darsia
