import DarsiaModel.Corrections
import DarsiaProofs.Warp
import Mathlib.Tactic.Ring
import Mathlib.Tactic.Linarith
import Mathlib.Tactic.NormNum

namespace Darsia.Corrections
open Darsia.Affine Darsia.Warp

theorem clipInt_bounds (x : Int) (n : Nat) (hn : 0 < n) :
    0 ≤ clipInt x 0 ((n : Int) - 1) ∧ clipInt x 0 ((n : Int) - 1) < n := by
  unfold clipInt; omega

theorem clipInt_id (x : Int) (n : Nat) (h0 : 0 ≤ x) (h1 : x < n) : clipInt x 0 ((n : Int) - 1) = x := by
  unfold clipInt; omega

theorem foldl_congr_mem {α β : Type} (f g : β → α → β) (l : List α) (b : β)
    (h : ∀ b, ∀ x ∈ l, f b x = g b x) : l.foldl f b = l.foldl g b := by
  induction l generalizing b with
  | nil => rfl
  | cons x xs ih =>
    simp only [List.foldl_cons]
    rw [h b x (by simp)]
    exact ih _ (fun b y hy => h b y (by simp [hy]))

theorem maxVal_congr (a b : Arr2 Rat) (h : a.agree b) : a.maxVal = b.maxVal := by
  obtain ⟨h0, h1, hv⟩ := h
  unfold Arr2.maxVal
  rw [← h0, ← h1]
  apply foldl_congr_mem
  intro m i hi
  apply foldl_congr_mem
  intro m' j hj
  rw [List.mem_range] at hi hj
  rw [hv i j (by omega) (by omega) (by omega) (by omega)]

theorem Arr2.agree_refl {β} (a : Arr2 β) : a.agree a := ⟨rfl, rfl, fun _ _ _ _ _ _ => rfl⟩

theorem TArr.agree_refl (a : TArr) : a.agree a := ⟨rfl, Arr2.agree_refl _⟩

end Darsia.Corrections
