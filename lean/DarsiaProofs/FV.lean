/-
Lemmas for C06: the assembled divergence matrix, column by column and block by block.
-/
import DarsiaModel.FV
import DarsiaProofs.Grid
import DarsiaProofs.Sums
namespace Darsia

theorem sumTo_ite_eq_guard (n k0 : Nat) (g : Nat → Rat) (C : Prop) [Decidable C] (h : C → k0 < n) :
    sumTo n (fun k => if k = k0 then (if C then g k else 0) else 0) = if C then g k0 else 0 := by
  by_cases hC : C
  · simp only [if_pos hC]; exact sumTo_ite_eq n k0 g (h hC)
  · simp only [if_neg hC, ite_self]; exact sumTo_const_zero n

theorem ite_algebra (A u : Rat) (p1 q1 p2 q2 : Prop) [Decidable p1] [Decidable q1] [Decidable p2] [Decidable q2] :
    ((if p1 ∧ q1 then A else 0) + (if p2 ∧ q2 then -A else 0)) * u =
      (if p1 then (if q1 then A * u else 0) else 0) + (if p2 then (if q2 then -(A * u) else 0) else 0) := by
  by_cases h1 : p1 <;> by_cases h2 : q1 <;> by_cases h3 : p2 <;> by_cases h4 : q2 <;> simp [h1, h2, h3, h4] <;> ring

/-- the faces of axis `a` contribute `area_a · (u_hi − u_lo)` to the divergence of cell `c` -/
theorem div_block (shape : List Nat) (h : List Rat) (U : Nat → Rat) (a c : Nat)
    (ha : a < shape.length) (hc : c < numCells shape) :
    sumTo (nfa shape a) (fun k => divEntry shape h c (offset shape a + k) * U (offset shape a + k)) =
      area h a * (uHi shape U a (decF shape c) - uLo shape U a (decF shape c)) := by
  have hidx := decF_inBox shape c hc
  have hec := encF_decF shape c hc
  have hlen : (decF shape c).length = shape.length := decF_length shape c
  -- pointwise form of the summand
  have key : ∀ k, k < nfa shape a →
      divEntry shape h c (offset shape a + k) * U (offset shape a + k) =
        (if k = encF (fshape shape a) (decF shape c) then
          (if (decF shape c).getD a 0 + 1 < shape.getD a 0 then area h a * U (offset shape a + k) else 0) else 0) +
        (if k = encF (fshape shape a) (unbump (decF shape c) a) then
          (if 1 ≤ (decF shape c).getD a 0 then -(area h a * U (offset shape a + k)) else 0) else 0) := by
    intro k hk
    have hb : inBox (fshape shape a) (decF (fshape shape a) k) = true := decF_inBox _ _ hk
    have hf : offset shape a + k = faceNum shape a (decF (fshape shape a) k) := by
      simp [faceNum, encF_decF _ _ hk]
    have hax : faceAxis shape (offset shape a + k) = a := by rw [hf]; exact faceAxis_faceNum shape _ a ha hb
    have hfi : faceIdx shape (offset shape a + k) = decF (fshape shape a) k := by
      rw [hf]; exact faceIdx_faceNum shape _ a ha hb
    have hlo := inBox_of_fshape shape _ a ha hb
    have hhi := inBox_bump shape _ a ha hb
    have hl2 : a < (decF (fshape shape a) k).length := by rw [decF_length, fshape_length]; exact ha
    have e1 : c = (conn shape (offset shape a + k)).1 ↔
        (k = encF (fshape shape a) (decF shape c) ∧ (decF shape c).getD a 0 + 1 < shape.getD a 0) := by
      show c = encF shape (faceIdx shape _) ↔ _
      rw [hfi]
      constructor
      · intro e
        have hd : decF shape c = decF (fshape shape a) k := by rw [e]; exact decF_encF _ _ hlo
        rw [hd]
        exact ⟨(encF_decF _ _ hk).symm, ((inBox_fshape shape _ a ha).1 hb).2⟩
      · rintro ⟨e, hlt⟩
        have hbx := (inBox_fshape shape (decF shape c) a ha).2 ⟨hidx, hlt⟩
        rw [e, decF_encF _ _ hbx, hec]
    have e2 : c = (conn shape (offset shape a + k)).2 ↔
        (k = encF (fshape shape a) (unbump (decF shape c) a) ∧ 1 ≤ (decF shape c).getD a 0) := by
      show c = encF shape (bump (faceIdx shape _) (faceAxis shape _)) ↔ _
      rw [hfi, hax]
      constructor
      · intro e
        have hd : decF shape c = bump (decF (fshape shape a) k) a := by rw [e]; exact decF_encF _ _ hhi
        rw [hd, unbump_bump, getD_bump_self _ _ hl2]
        exact ⟨(encF_decF _ _ hk).symm, by omega⟩
      · rintro ⟨e, h1⟩
        have hbx := inBox_unbump shape (decF shape c) a ha hidx h1
        rw [e, decF_encF _ _ hbx, bump_unbump _ _ h1, hec]
    simp only [divEntry, hax, e1, e2]
    exact ite_algebra _ _ _ _ _ _
  rw [sumTo_congr key, sumTo_add]
  rw [sumTo_ite_eq_guard (nfa shape a) _ (fun k => area h a * U (offset shape a + k)) _
        (fun hlt => encF_lt _ _ ((inBox_fshape shape (decF shape c) a ha).2 ⟨hidx, hlt⟩)),
      sumTo_ite_eq_guard (nfa shape a) _ (fun k => -(area h a * U (offset shape a + k))) _
        (fun h1 => encF_lt _ _ (inBox_unbump shape (decF shape c) a ha hidx h1))]
  simp only [uHi, uLo, faceNum]
  split_ifs <;> ring

theorem ite_algebra2 (A u : Rat) (p q : Prop) [Decidable p] [Decidable q] :
    u * ((if p then A else 0) + (if q then -A else 0)) =
      (if p then u * A else 0) + (if q then -(u * A) else 0) := by
  by_cases h1 : p <;> by_cases h2 : q <;> simp [h1, h2] <;> ring

theorem conn_lt (shape : List Nat) (f : Nat) (hf : f < numFaces shape) :
    (conn shape f).1 < numCells shape ∧ (conn shape f).2 < numCells shape := by
  have sp := faceAxis_spec shape f hf
  have hb := faceIdx_inBox shape f hf
  exact ⟨encF_lt shape _ (inBox_of_fshape shape _ _ sp.1 hb), encF_lt shape _ (inBox_bump shape _ _ sp.1 hb)⟩

/-- a column of the divergence matrix tested against a cell field: `area · (P_lo − P_hi)` -/
theorem div_column (shape : List Nat) (h : List Rat) (P : Nat → Rat) (f : Nat) (hf : f < numFaces shape) :
    sumTo (numCells shape) (fun c => P c * divEntry shape h c f) =
      area h (faceAxis shape f) * (P (conn shape f).1 - P (conn shape f).2) := by
  have hl := conn_lt shape f hf
  have key : ∀ c, c < numCells shape → P c * divEntry shape h c f =
      (if c = (conn shape f).1 then P c * area h (faceAxis shape f) else 0) +
      (if c = (conn shape f).2 then -(P c * area h (faceAxis shape f)) else 0) := by
    intro c _
    simp only [divEntry]
    exact ite_algebra2 _ _ _ _
  rw [sumTo_congr key, sumTo_add,
    sumTo_ite_eq _ _ (fun c => P c * area h (faceAxis shape f)) hl.1,
    sumTo_ite_eq _ _ (fun c => -(P c * area h (faceAxis shape f))) hl.2]
  ring

theorem rev_cases (shape : List Nat) (b c side : Nat) :
    rev shape b c side = -1 ∨ ∃ f : Nat, rev shape b c side = (f : Int) := by
  simp only [rev]
  by_cases h0 : side = 0
  · by_cases h1 : 1 ≤ (decF shape c).getD b 0
    · rw [if_pos h0, if_pos h1]; exact Or.inr ⟨_, rfl⟩
    · rw [if_pos h0, if_neg h1]; exact Or.inl rfl
  · by_cases h1 : (decF shape c).getD b 0 + 1 < shape.getD b 0
    · rw [if_neg h0, if_pos h1]; exact Or.inr ⟨_, rfl⟩
    · rw [if_neg h0, if_neg h1]; exact Or.inl rfl

theorem quarter_nat (U : Nat → Rat) (f : Nat) : quarter U (f : Int) = (1 / 4 : Rat) * U f := by
  unfold quarter
  rw [if_neg (by omega)]; simp

theorem otherAxis_spec (a i dim : Nat) (_ha : a < dim) (hi : i + 1 < dim) :
    otherAxis a i < dim ∧ otherAxis a i ≠ a := by
  unfold otherAxis
  split_ifs <;> omega

end Darsia
