/-
Lemmas for C06: the assembled divergence matrix, column by column and block by block.
-/
import DarsiaModel.FV
import DarsiaProofs.Grid
import DarsiaProofs.Sums
import Mathlib.Tactic.LinearCombination
namespace Darsia

theorem sumTo_ite_eq_guard (n k0 : Nat) (g : Nat → Rat) (C : Prop) [Decidable C] (h : C → k0 < n) :
    sumTo n (fun k => if k = k0 then (if C then g k else 0) else 0) = if C then g k0 else 0 := by
  by_cases hC : C
  · simp only [if_pos hC]; exact sumTo_ite_eq n k0 g (h hC)
  · simp only [if_neg hC, ite_self]; exact sumTo_const_zero n

theorem ite_algebra (A u : Rat) (p1 q1 p2 q2 : Prop) [Decidable p1] [Decidable q1] [Decidable p2] [Decidable q2] :
    ((if p1 ∧ q1 then A else 0) + (if p2 ∧ q2 then -A else 0)) * u =
      (if p1 then (if q1 then A * u else 0) else 0) + (if p2 then (if q2 then -(A * u) else 0) else 0) := by
  by_cases h1 : p1 <;> by_cases h2 : q1 <;> by_cases h3 : p2 <;> by_cases h4 : q2 <;> simp [h1, h2, h3, h4] <;> ring

theorem conn_lt (shape : List Nat) (f : Nat) (hf : f < numFaces shape) :
    (conn shape f).1 < numCells shape ∧ (conn shape f).2 < numCells shape := by
  have sp := faceAxis_spec shape f hf
  have hb := faceIdx_inBox shape f hf
  exact ⟨encF_lt shape _ (inBox_of_fshape shape _ _ sp.1 hb), encF_lt shape _ (inBox_bump shape _ _ sp.1 hb)⟩

/-- face number `offset a + k` (`k < nfa a`) is the face of axis `a` with multi-index `decF (fshape a) k` -/
theorem face_block (shape : List Nat) (a k : Nat) (ha : a < shape.length) (hk : k < nfa shape a) :
    faceAxis shape (offset shape a + k) = a ∧ faceIdx shape (offset shape a + k) = decF (fshape shape a) k ∧
      offset shape a + k < numFaces shape := by
  have hb : inBox (fshape shape a) (decF (fshape shape a) k) = true := decF_inBox _ _ hk
  have hf : offset shape a + k = faceNum shape a (decF (fshape shape a) k) := by
    simp [faceNum, encF_decF _ _ hk]
  rw [hf]
  exact ⟨faceAxis_faceNum shape _ a ha hb, faceIdx_faceNum shape _ a ha hb, faceNum_lt shape _ a ha hb⟩

/-- cell `c` is the lower cell of face `offset a + k` iff `k` is the number of `c`'s own multi-index in the face box
and `c` is not in the last layer along `a` -/
theorem conn_fst_eq_iff (shape : List Nat) (a c k : Nat) (ha : a < shape.length) (hc : c < numCells shape)
    (hk : k < nfa shape a) :
    c = (conn shape (offset shape a + k)).1 ↔
      (k = encF (fshape shape a) (decF shape c) ∧ (decF shape c).getD a 0 + 1 < shape.getD a 0) := by
  have hidx := decF_inBox shape c hc
  have hec := encF_decF shape c hc
  have hb : inBox (fshape shape a) (decF (fshape shape a) k) = true := decF_inBox _ _ hk
  have hlo := inBox_of_fshape shape _ a ha hb
  obtain ⟨_, hfi, _⟩ := face_block shape a k ha hk
  show c = encF shape (faceIdx shape _) ↔ _
  rw [hfi]
  constructor
  · intro e
    have hd : decF shape c = decF (fshape shape a) k := by rw [e]; exact decF_encF _ _ hlo
    rw [hd]
    exact ⟨(encF_decF _ _ hk).symm, ((inBox_fshape shape _ a ha).1 hb).2⟩
  · rintro ⟨e, hlt⟩
    have hbx := (inBox_fshape shape (decF shape c) a ha).2 ⟨hidx, hlt⟩
    rw [e, decF_encF _ _ hbx, hec]

/-- cell `c` is the upper cell of face `offset a + k` iff `k` is the number of `idx_c - e_a` and `c` is not in the
first layer along `a` -/
theorem conn_snd_eq_iff (shape : List Nat) (a c k : Nat) (ha : a < shape.length) (hc : c < numCells shape)
    (hk : k < nfa shape a) :
    c = (conn shape (offset shape a + k)).2 ↔
      (k = encF (fshape shape a) (unbump (decF shape c) a) ∧ 1 ≤ (decF shape c).getD a 0) := by
  have hidx := decF_inBox shape c hc
  have hec := encF_decF shape c hc
  have hb : inBox (fshape shape a) (decF (fshape shape a) k) = true := decF_inBox _ _ hk
  have hhi := inBox_bump shape _ a ha hb
  have hl2 : a < (decF (fshape shape a) k).length := by rw [decF_length, fshape_length]; exact ha
  obtain ⟨hax, hfi, _⟩ := face_block shape a k ha hk
  show c = encF shape (bump (faceIdx shape _) (faceAxis shape _)) ↔ _
  rw [hfi, hax]
  constructor
  · intro e
    have hd : decF shape c = bump (decF (fshape shape a) k) a := by rw [e]; exact decF_encF _ _ hhi
    rw [hd, unbump_bump, getD_bump_self _ _ hl2]
    exact ⟨(encF_decF _ _ hk).symm, by omega⟩
  · rintro ⟨e, h1⟩
    have hbx := inBox_unbump shape (decF shape c) a ha hidx h1
    rw [e, decF_encF _ _ hbx, bump_unbump _ _ h1, hec]

/-- the faces of axis `a` contribute `area_a · (u_hi − u_lo)` to the divergence of cell `c` -/
theorem div_block (shape : List Nat) (h : List Rat) (U : Nat → Rat) (a c : Nat)
    (ha : a < shape.length) (hc : c < numCells shape) :
    sumTo (nfa shape a) (fun k => divEntry shape h c (offset shape a + k) * U (offset shape a + k)) =
      area h a * (uHi shape U a (decF shape c) - uLo shape U a (decF shape c)) := by
  have hidx := decF_inBox shape c hc
  have key : ∀ k, k < nfa shape a →
      divEntry shape h c (offset shape a + k) * U (offset shape a + k) =
        (if k = encF (fshape shape a) (decF shape c) then
          (if (decF shape c).getD a 0 + 1 < shape.getD a 0 then area h a * U (offset shape a + k) else 0) else 0) +
        (if k = encF (fshape shape a) (unbump (decF shape c) a) then
          (if 1 ≤ (decF shape c).getD a 0 then -(area h a * U (offset shape a + k)) else 0) else 0) := by
    intro k hk
    simp only [divEntry, (face_block shape a k ha hk).1, conn_fst_eq_iff shape a c k ha hc hk,
      conn_snd_eq_iff shape a c k ha hc hk]
    exact ite_algebra _ _ _ _ _ _
  rw [sumTo_congr key, sumTo_add]
  rw [sumTo_ite_eq_guard (nfa shape a) _ (fun k => area h a * U (offset shape a + k)) _
        (fun hlt => encF_lt _ _ ((inBox_fshape shape (decF shape c) a ha).2 ⟨hidx, hlt⟩)),
      sumTo_ite_eq_guard (nfa shape a) _ (fun k => -(area h a * U (offset shape a + k))) _
        (fun h1 => encF_lt _ _ (inBox_unbump shape (decF shape c) a ha hidx h1))]
  simp only [uHi, uLo, faceNum]
  split_ifs <;> ring

/-- summing the upper-face values over all cells counts every face of the axis once … -/
theorem sum_uHi (shape : List Nat) (U : Nat → Rat) (a : Nat) (ha : a < shape.length) :
    sumTo (numCells shape) (fun c => uHi shape U a (decF shape c)) =
      sumTo (nfa shape a) (fun k => U (offset shape a + k)) := by
  have e1 : ∀ k, k < nfa shape a → U (offset shape a + k) =
      sumTo (numCells shape) (fun c => if c = (conn shape (offset shape a + k)).1 then U (offset shape a + k) else 0) := by
    intro k hk
    rw [sumTo_ite_eq _ _ (fun _ => U (offset shape a + k)) (conn_lt shape _ (face_block shape a k ha hk).2.2).1]
  rw [sumTo_congr e1, sumTo_comm]
  refine sumTo_congr fun c hc => ?_
  have hidx := decF_inBox shape c hc
  have e2 : ∀ k, k < nfa shape a →
      (if c = (conn shape (offset shape a + k)).1 then U (offset shape a + k) else 0) =
      (if k = encF (fshape shape a) (decF shape c) then
        (if (decF shape c).getD a 0 + 1 < shape.getD a 0 then U (offset shape a + k) else 0) else 0) := by
    intro k hk
    simp only [conn_fst_eq_iff shape a c k ha hc hk]
    by_cases h1 : k = encF (fshape shape a) (decF shape c) <;>
      by_cases h2 : (decF shape c).getD a 0 + 1 < shape.getD a 0 <;> simp [h1, h2]
  rw [sumTo_congr e2, sumTo_ite_eq_guard (nfa shape a) _ (fun k => U (offset shape a + k)) _
        (fun hlt => encF_lt _ _ ((inBox_fshape shape (decF shape c) a ha).2 ⟨hidx, hlt⟩))]
  simp only [uHi, faceNum]

/-- … and so does summing the lower-face values. -/
theorem sum_uLo (shape : List Nat) (U : Nat → Rat) (a : Nat) (ha : a < shape.length) :
    sumTo (numCells shape) (fun c => uLo shape U a (decF shape c)) =
      sumTo (nfa shape a) (fun k => U (offset shape a + k)) := by
  have e1 : ∀ k, k < nfa shape a → U (offset shape a + k) =
      sumTo (numCells shape) (fun c => if c = (conn shape (offset shape a + k)).2 then U (offset shape a + k) else 0) := by
    intro k hk
    rw [sumTo_ite_eq _ _ (fun _ => U (offset shape a + k)) (conn_lt shape _ (face_block shape a k ha hk).2.2).2]
  rw [sumTo_congr e1, sumTo_comm]
  refine sumTo_congr fun c hc => ?_
  have hidx := decF_inBox shape c hc
  have e2 : ∀ k, k < nfa shape a →
      (if c = (conn shape (offset shape a + k)).2 then U (offset shape a + k) else 0) =
      (if k = encF (fshape shape a) (unbump (decF shape c) a) then
        (if 1 ≤ (decF shape c).getD a 0 then U (offset shape a + k) else 0) else 0) := by
    intro k hk
    simp only [conn_snd_eq_iff shape a c k ha hc hk]
    by_cases h1 : k = encF (fshape shape a) (unbump (decF shape c) a) <;>
      by_cases h2 : 1 ≤ (decF shape c).getD a 0 <;> simp [h1, h2]
  rw [sumTo_congr e2, sumTo_ite_eq_guard (nfa shape a) _ (fun k => U (offset shape a + k)) _
        (fun h1 => encF_lt _ _ (inBox_unbump shape (decF shape c) a ha hidx h1))]
  simp only [uLo, faceNum]

theorem ite_algebra2 (A u : Rat) (p q : Prop) [Decidable p] [Decidable q] :
    u * ((if p then A else 0) + (if q then -A else 0)) =
      (if p then u * A else 0) + (if q then -(u * A) else 0) := by
  by_cases h1 : p <;> by_cases h2 : q <;> simp [h1, h2] <;> ring

/-- a column of the divergence matrix tested against a cell field: `area · (P_lo − P_hi)` -/
theorem div_column (shape : List Nat) (h : List Rat) (P : Nat → Rat) (f : Nat) (hf : f < numFaces shape) :
    sumTo (numCells shape) (fun c => P c * divEntry shape h c f) =
      area h (faceAxis shape f) * (P (conn shape f).1 - P (conn shape f).2) := by
  have hl := conn_lt shape f hf
  have key : ∀ c, c < numCells shape → P c * divEntry shape h c f =
      (if c = (conn shape f).1 then P c * area h (faceAxis shape f) else 0) +
      (if c = (conn shape f).2 then -(P c * area h (faceAxis shape f)) else 0) := by
    intro c _
    simp only [divEntry]
    exact ite_algebra2 _ _ _ _
  rw [sumTo_congr key, sumTo_add,
    sumTo_ite_eq _ _ (fun c => P c * area h (faceAxis shape f)) hl.1,
    sumTo_ite_eq _ _ (fun c => -(P c * area h (faceAxis shape f))) hl.2]
  ring

theorem rev_cases (shape : List Nat) (b c side : Nat) :
    rev shape b c side = -1 ∨ ∃ f : Nat, rev shape b c side = (f : Int) := by
  simp only [rev]
  by_cases h0 : side = 0
  · by_cases h1 : 1 ≤ (decF shape c).getD b 0
    · rw [if_pos h0, if_pos h1]; exact Or.inr ⟨_, rfl⟩
    · rw [if_pos h0, if_neg h1]; exact Or.inl rfl
  · by_cases h1 : (decF shape c).getD b 0 + 1 < shape.getD b 0
    · rw [if_neg h0, if_pos h1]; exact Or.inr ⟨_, rfl⟩
    · rw [if_neg h0, if_neg h1]; exact Or.inl rfl

theorem quarter_nat (U : Nat → Rat) (f : Nat) : quarter U (f : Int) = (1 / 4 : Rat) * U f := by
  unfold quarter
  rw [if_neg (by omega)]; simp

theorem otherAxis_spec (a i dim : Nat) (_ha : a < dim) (hi : i + 1 < dim) :
    otherAxis a i < dim ∧ otherAxis a i ≠ a := by
  unfold otherAxis
  split_ifs <;> omega

/-- weighted version of `sum_uHi`: a cell coefficient `P` travels to the lower cell of each face -/
theorem sum_coef_uHi (shape : List Nat) (U P : Nat → Rat) (a : Nat) (ha : a < shape.length) :
    sumTo (numCells shape) (fun c => P c * uHi shape U a (decF shape c)) =
      sumTo (nfa shape a) (fun k => P (conn shape (offset shape a + k)).1 * U (offset shape a + k)) := by
  have e1 : ∀ k, k < nfa shape a → P (conn shape (offset shape a + k)).1 * U (offset shape a + k) =
      sumTo (numCells shape) (fun c => if c = (conn shape (offset shape a + k)).1 then P c * U (offset shape a + k) else 0) := by
    intro k hk
    rw [sumTo_ite_eq _ _ (fun c => P c * U (offset shape a + k)) (conn_lt shape _ (face_block shape a k ha hk).2.2).1]
  rw [sumTo_congr e1, sumTo_comm]
  refine sumTo_congr fun c hc => ?_
  have hidx := decF_inBox shape c hc
  have e2 : ∀ k, k < nfa shape a →
      (if c = (conn shape (offset shape a + k)).1 then P c * U (offset shape a + k) else 0) =
      (if k = encF (fshape shape a) (decF shape c) then
        (if (decF shape c).getD a 0 + 1 < shape.getD a 0 then P c * U (offset shape a + k) else 0) else 0) := by
    intro k hk
    simp only [conn_fst_eq_iff shape a c k ha hc hk]
    by_cases h1 : k = encF (fshape shape a) (decF shape c) <;>
      by_cases h2 : (decF shape c).getD a 0 + 1 < shape.getD a 0 <;> simp [h1, h2]
  rw [sumTo_congr e2, sumTo_ite_eq_guard (nfa shape a) _ (fun k => P c * U (offset shape a + k)) _
        (fun hlt => encF_lt _ _ ((inBox_fshape shape (decF shape c) a ha).2 ⟨hidx, hlt⟩))]
  simp only [uHi, faceNum]
  split_ifs <;> ring

/-- weighted version of `sum_uLo`: the coefficient travels to the upper cell of each face -/
theorem sum_coef_uLo (shape : List Nat) (U P : Nat → Rat) (a : Nat) (ha : a < shape.length) :
    sumTo (numCells shape) (fun c => P c * uLo shape U a (decF shape c)) =
      sumTo (nfa shape a) (fun k => P (conn shape (offset shape a + k)).2 * U (offset shape a + k)) := by
  have e1 : ∀ k, k < nfa shape a → P (conn shape (offset shape a + k)).2 * U (offset shape a + k) =
      sumTo (numCells shape) (fun c => if c = (conn shape (offset shape a + k)).2 then P c * U (offset shape a + k) else 0) := by
    intro k hk
    rw [sumTo_ite_eq _ _ (fun c => P c * U (offset shape a + k)) (conn_lt shape _ (face_block shape a k ha hk).2.2).2]
  rw [sumTo_congr e1, sumTo_comm]
  refine sumTo_congr fun c hc => ?_
  have hidx := decF_inBox shape c hc
  have e2 : ∀ k, k < nfa shape a →
      (if c = (conn shape (offset shape a + k)).2 then P c * U (offset shape a + k) else 0) =
      (if k = encF (fshape shape a) (unbump (decF shape c) a) then
        (if 1 ≤ (decF shape c).getD a 0 then P c * U (offset shape a + k) else 0) else 0) := by
    intro k hk
    simp only [conn_snd_eq_iff shape a c k ha hc hk]
    by_cases h1 : k = encF (fshape shape a) (unbump (decF shape c) a) <;>
      by_cases h2 : 1 ≤ (decF shape c).getD a 0 <;> simp [h1, h2]
  rw [sumTo_congr e2, sumTo_ite_eq_guard (nfa shape a) _ (fun k => P c * U (offset shape a + k)) _
        (fun h1 => encF_lt _ _ (inBox_unbump shape (decF shape c) a ha hidx h1))]
  simp only [uLo, faceNum]
  split_ifs <;> ring

/-- divergence is the negative adjoint of the area-weighted face difference (see `C06.div_adjoint`) -/
theorem div_adjoint_aux (shape : List Nat) (h : List Rat) (U P : Nat → Rat) :
    sumTo (numCells shape) (fun c => P c * divApply shape h U c) =
      - sumTo (numFaces shape) (fun f =>
          area h (faceAxis shape f) * U f * (P (conn shape f).2 - P (conn shape f).1)) := by
  unfold divApply
  have e1 : ∀ c, c < numCells shape →
      P c * sumTo (numFaces shape) (fun f => divEntry shape h c f * U f) =
        sumTo (numFaces shape) (fun f => P c * divEntry shape h c f * U f) := by
    intro c _
    rw [← sumTo_mul_left]
    exact sumTo_congr fun f _ => by ring
  rw [sumTo_congr e1, sumTo_comm, ← sumTo_neg]
  refine sumTo_congr fun f hf => ?_
  rw [sumTo_mul_right, div_column shape h P f hf]
  ring

theorem area_mul (h : List Rat) (a : Nat) (ha : a < h.length) : area h a * h.getD a 0 = vol h := by
  unfold area vol
  induction h generalizing a with
  | nil => simp at ha
  | cons x xs ih =>
    cases a with
    | zero => simp [prodR]; ring
    | succ a =>
      simp only [List.eraseIdx_cons_succ, prodR, List.getD_cons_succ]
      rw [mul_assoc, ih a (by simpa using ha)]

/-- physical coordinate (along axis `a`) of the centre of the cell with multi-index `idx` -/
def xcoord (h : List Rat) (a : Nat) (idx : List Nat) : Rat := h.getD a 0 * ((idx.getD a 0 : Rat) + 1 / 2)

/-- discrete integration by parts for the first moment: testing the divergence with the coordinate `x_a` gives minus
the cell volume times the sum of the fluxes through all faces of axis `a` -/
theorem moment_identity (shape : List Nat) (h : List Rat) (U : Nat → Rat) (a : Nat) (ha : a < shape.length)
    (hl : h.length = shape.length) :
    sumTo (numCells shape) (fun c => xcoord h a (decF shape c) * divApply shape h U c) =
      - (vol h * sumTo (nfa shape a) (fun k => U (offset shape a + k))) := by
  rw [div_adjoint_aux shape h U (fun c => xcoord h a (decF shape c))]
  congr 1
  unfold numFaces
  rw [sumTo_offset]
  have blk : ∀ b, b < shape.length →
      sumTo (nfa shape b) (fun k => area h (faceAxis shape (offset shape b + k)) * U (offset shape b + k) *
        (xcoord h a (decF shape (conn shape (offset shape b + k)).2) -
          xcoord h a (decF shape (conn shape (offset shape b + k)).1))) =
      if b = a then vol h * sumTo (nfa shape a) (fun k => U (offset shape a + k)) else 0 := by
    intro b hb
    have term : ∀ k, k < nfa shape b →
        area h (faceAxis shape (offset shape b + k)) * U (offset shape b + k) *
          (xcoord h a (decF shape (conn shape (offset shape b + k)).2) -
            xcoord h a (decF shape (conn shape (offset shape b + k)).1)) =
        if b = a then vol h * U (offset shape b + k) else 0 := by
      intro k hk
      obtain ⟨hax, hfi, _⟩ := face_block shape b k hb hk
      have hbx : inBox (fshape shape b) (decF (fshape shape b) k) = true := decF_inBox _ _ hk
      have hlo := inBox_of_fshape shape _ b hb hbx
      have hhi := inBox_bump shape _ b hb hbx
      have hl2 : b < (decF (fshape shape b) k).length := by rw [decF_length, fshape_length]; exact hb
      have c1 : decF shape (conn shape (offset shape b + k)).1 = decF (fshape shape b) k := by
        show decF shape (encF shape (faceIdx shape _)) = _
        rw [hfi, decF_encF _ _ hlo]
      have c2 : decF shape (conn shape (offset shape b + k)).2 = bump (decF (fshape shape b) k) b := by
        show decF shape (encF shape (bump (faceIdx shape _) (faceAxis shape _))) = _
        rw [hfi, hax, decF_encF _ _ hhi]
      rw [hax, c1, c2]
      by_cases hba : b = a
      · subst hba
        rw [if_pos rfl]
        simp only [xcoord, getD_bump_self _ _ hl2]
        push_cast
        have := area_mul h b (by omega)
        linear_combination (U (offset shape b + k)) * this
      · rw [if_neg hba]
        simp only [xcoord, getD_bump_ne _ b a (Ne.symm hba)]
        ring
    rw [sumTo_congr term]
    by_cases hba : b = a
    · subst hba; simp only [if_true]; rw [sumTo_mul_left]
    · simp only [if_neg hba]; exact sumTo_const_zero _
  rw [sumTo_congr blk]
  exact sumTo_ite_eq shape.length a (fun _ => vol h * sumTo (nfa shape a) (fun k => U (offset shape a + k))) ha

/-! ### the scatter-built tables equal the pointwise ones -/

theorem cellOf_eq_conn (shape : List Nat) (a k : Nat) (ha : a < shape.length) (hk : k < nfa shape a) :
    loCellOf shape a k = (conn shape (offset shape a + k)).1 ∧ hiCellOf shape a k = (conn shape (offset shape a + k)).2 := by
  obtain ⟨hax, hfi, _⟩ := face_block shape a k ha hk
  constructor
  · show _ = encF shape (faceIdx shape _); rw [hfi]; rfl
  · show _ = encF shape (bump (faceIdx shape _) (faceAxis shape _)); rw [hfi, hax]; rfl

theorem connFold_length (shape : List Nat) (side d : Nat) : (connFold shape side d).length = numFaces shape := by
  induction d with
  | zero => simp [connFold]
  | succ d ih => simp [connFold, ih]

theorem connFold_spec (shape : List Nat) (side d : Nat) (hd : d ≤ shape.length) :
    ∀ f, f < offset shape d →
      (connFold shape side d).getD f 0 = if side = 0 then (conn shape f).1 else (conn shape f).2 := by
  induction d with
  | zero => intro f hf; simp [offset] at hf
  | succ d ih =>
    intro f hf
    have hdl : d < shape.length := by omega
    simp only [connFold]
    rcases Nat.lt_or_ge f (offset shape d) with h1 | h1
    · rw [scatterN_miss _ _ _ _ _ _ (fun i _ => by omega)]
      exact ih (by omega) f h1
    · have hk : f - offset shape d < nfa shape d := by simp only [offset] at hf; omega
      have hf' : f = offset shape d + (f - offset shape d) := by omega
      have hit := scatterN_hit (connFold shape side d) (fun k => offset shape d + k)
        (fun k => if side = 0 then loCellOf shape d k else hiCellOf shape d k) (nfa shape d) (f - offset shape d) 0
        (fun i i' _ _ e => by simpa using e)
        (fun i hi => by rw [connFold_length]; exact (face_block shape d i hdl hi).2.2) hk
      rw [← hf'] at hit
      rw [hit]
      obtain ⟨e1, e2⟩ := cellOf_eq_conn shape d _ hdl hk
      rw [e1, e2, ← hf']

/-- `connectivity` as the code assembles it (zeros + one assignment per axis and column) is the pointwise `conn` -/
theorem connTable_eq (shape : List Nat) (f : Nat) (hf : f < numFaces shape) :
    (connTable shape 0).getD f 0 = (conn shape f).1 ∧ (connTable shape 1).getD f 0 = (conn shape f).2 := by
  have h0 := connFold_spec shape 0 shape.length (Nat.le_refl _) f hf
  have h1 := connFold_spec shape 1 shape.length (Nat.le_refl _) f hf
  simp only [if_true] at h0
  simp only [Nat.one_ne_zero, if_false] at h1
  exact ⟨h0, h1⟩

/-- `reverse_connectivity[a]` as the code assembles it (`-1` + two assignments through cell index arrays) is the
pointwise `rev` -/
theorem revTable_eq (shape : List Nat) (a c : Nat) (ha : a < shape.length) (hc : c < numCells shape) :
    (revTable shape a 0).getD c (-1) = rev shape a c 0 ∧ (revTable shape a 1).getD c (-1) = rev shape a c 1 := by
  have hidx := decF_inBox shape c hc
  have inj2 : ∀ i i', i < nfa shape a → i' < nfa shape a → hiCellOf shape a i = hiCellOf shape a i' → i = i' := by
    intro i i' hi hi' e
    rw [(cellOf_eq_conn shape a i ha hi).2, (cellOf_eq_conn shape a i' ha hi').2] at e
    have hlt := (conn_lt shape _ (face_block shape a i ha hi).2.2).2
    have r1 := (conn_snd_eq_iff shape a _ i ha hlt hi).1 rfl
    have r2 := (conn_snd_eq_iff shape a _ i' ha hlt hi').1 e
    rw [r1.1, r2.1]
  have inj1 : ∀ i i', i < nfa shape a → i' < nfa shape a → loCellOf shape a i = loCellOf shape a i' → i = i' := by
    intro i i' hi hi' e
    rw [(cellOf_eq_conn shape a i ha hi).1, (cellOf_eq_conn shape a i' ha hi').1] at e
    have hlt := (conn_lt shape _ (face_block shape a i ha hi).2.2).1
    have r1 := (conn_fst_eq_iff shape a _ i ha hlt hi).1 rfl
    have r2 := (conn_fst_eq_iff shape a _ i' ha hlt hi').1 e
    rw [r1.1, r2.1]
  constructor
  · simp only [revTable, rev, if_true]
    by_cases h1 : 1 ≤ (decF shape c).getD a 0
    · rw [if_pos h1]
      have hb := inBox_unbump shape (decF shape c) a ha hidx h1
      have hk := encF_lt _ _ hb
      have hkey : hiCellOf shape a (encF (fshape shape a) (unbump (decF shape c) a)) = c := by
        rw [(cellOf_eq_conn shape a _ ha hk).2]
        exact ((conn_snd_eq_iff shape a c _ ha hc hk).2 ⟨rfl, h1⟩).symm
      have hit := scatterN_hit (List.replicate (numCells shape) (-1 : Int)) (fun k => hiCellOf shape a k)
        (fun k => ((offset shape a + k : Nat) : Int)) (nfa shape a) _ (-1) inj2
        (fun i hi => by
          rw [List.length_replicate, (cellOf_eq_conn shape a i ha hi).2]
          exact (conn_lt shape _ (face_block shape a i ha hi).2.2).2) hk
      simp only [hkey] at hit
      rw [hit]; rfl
    · rw [if_neg h1, scatterN_miss]
      · simp [List.getD, hc]
      · intro i hi e
        rw [(cellOf_eq_conn shape a i ha hi).2] at e
        exact h1 ((conn_snd_eq_iff shape a c i ha hc hi).1 e.symm).2
  · simp only [revTable, rev, Nat.one_ne_zero, if_false]
    by_cases h1 : (decF shape c).getD a 0 + 1 < shape.getD a 0
    · rw [if_pos h1]
      have hb := (inBox_fshape shape (decF shape c) a ha).2 ⟨hidx, h1⟩
      have hk := encF_lt _ _ hb
      have hkey : loCellOf shape a (encF (fshape shape a) (decF shape c)) = c := by
        rw [(cellOf_eq_conn shape a _ ha hk).1]
        exact ((conn_fst_eq_iff shape a c _ ha hc hk).2 ⟨rfl, h1⟩).symm
      have hit := scatterN_hit (List.replicate (numCells shape) (-1 : Int)) (fun k => loCellOf shape a k)
        (fun k => ((offset shape a + k : Nat) : Int)) (nfa shape a) _ (-1) inj1
        (fun i hi => by
          rw [List.length_replicate, (cellOf_eq_conn shape a i ha hi).1]
          exact (conn_lt shape _ (face_block shape a i ha hi).2.2).1) hk
      simp only [hkey] at hit
      rw [hit]; rfl
    · rw [if_neg h1, scatterN_miss]
      · simp [List.getD, hc]
      · intro i hi e
        rw [(cellOf_eq_conn shape a i ha hi).1] at e
        exact h1 ((conn_fst_eq_iff shape a c i ha hc hi).1 e.symm).2

/-! ### accumulation through index arrays: slice `+=` and COO assembly -/

theorem getD_replicate_zero (n j : Nat) : (List.replicate n (0 : Rat)).getD j 0 = 0 := by
  simp only [List.getD_eq_getElem?_getD, List.getElem?_replicate]
  split <;> rfl

/-- after the accumulation entry `j` holds its old value plus all contributions addressed to it -/
theorem accumN_getD (tbl : List Rat) (κ : Nat → Nat) (ν : Nat → Rat) (n j : Nat)
    (hr : ∀ i, i < n → κ i < tbl.length) :
    (accumN tbl κ ν n).getD j 0 = tbl.getD j 0 + sumTo n (fun i => if κ i = j then ν i else 0) := by
  induction n with
  | zero => simp [accumN, sumTo]
  | succ n ih =>
    have ih' := ih (fun i hi => hr i (by omega))
    simp only [accumN, sumTo]
    by_cases hk : κ n = j
    · subst hk
      rw [getD_setAt_self _ _ _ _ (by rw [accumN_length]; exact hr n (by omega)), ih', if_pos rfl]; ring
    · rw [getD_setAt_ne _ _ _ _ _ (fun e => hk e.symm), ih', if_neg hk]; ring

theorem sum_lo_indicator (shape : List Nat) (a c : Nat) (G : Nat → Rat) (ha : a < shape.length)
    (hc : c < numCells shape) :
    sumTo (nfa shape a) (fun k => if loCellOf shape a k = c then G k else 0) =
      if (decF shape c).getD a 0 + 1 < shape.getD a 0 then G (encF (fshape shape a) (decF shape c)) else 0 := by
  have hidx := decF_inBox shape c hc
  have e : ∀ k, k < nfa shape a → (if loCellOf shape a k = c then G k else 0) =
      (if k = encF (fshape shape a) (decF shape c) then
        (if (decF shape c).getD a 0 + 1 < shape.getD a 0 then G k else 0) else 0) := by
    intro k hk
    have h1 : loCellOf shape a k = c ↔ c = (conn shape (offset shape a + k)).1 := by
      rw [(cellOf_eq_conn shape a k ha hk).1]; exact eq_comm
    simp only [h1, conn_fst_eq_iff shape a c k ha hc hk]
    by_cases p1 : k = encF (fshape shape a) (decF shape c) <;>
      by_cases p2 : (decF shape c).getD a 0 + 1 < shape.getD a 0 <;> simp [p1, p2]
  rw [sumTo_congr e]
  exact sumTo_ite_eq_guard (nfa shape a) _ G _
    (fun hlt => encF_lt _ _ ((inBox_fshape shape (decF shape c) a ha).2 ⟨hidx, hlt⟩))

theorem sum_hi_indicator (shape : List Nat) (a c : Nat) (G : Nat → Rat) (ha : a < shape.length)
    (hc : c < numCells shape) :
    sumTo (nfa shape a) (fun k => if hiCellOf shape a k = c then G k else 0) =
      if 1 ≤ (decF shape c).getD a 0 then G (encF (fshape shape a) (unbump (decF shape c) a)) else 0 := by
  have hidx := decF_inBox shape c hc
  have e : ∀ k, k < nfa shape a → (if hiCellOf shape a k = c then G k else 0) =
      (if k = encF (fshape shape a) (unbump (decF shape c) a) then
        (if 1 ≤ (decF shape c).getD a 0 then G k else 0) else 0) := by
    intro k hk
    have h1 : hiCellOf shape a k = c ↔ c = (conn shape (offset shape a + k)).2 := by
      rw [(cellOf_eq_conn shape a k ha hk).2]; exact eq_comm
    simp only [h1, conn_snd_eq_iff shape a c k ha hc hk]
    by_cases p1 : k = encF (fshape shape a) (unbump (decF shape c) a) <;>
      by_cases p2 : 1 ≤ (decF shape c).getD a 0 <;> simp [p1, p2]
  rw [sumTo_congr e]
  exact sumTo_ite_eq_guard (nfa shape a) _ G _
    (fun h1 => encF_lt _ _ (inBox_unbump shape (decF shape c) a ha hidx h1))

/-- `face_to_cell` as coded (zeros + two slice accumulations per component) is the pointwise RT0 formula -/
theorem faceToCellTable_eq (shape : List Nat) (U : Nat → Rat) (pt : List Rat) (a c : Nat) (ha : a < shape.length)
    (hc : c < numCells shape) :
    (faceToCellTable shape U pt a).getD c 0 = faceToCell shape U pt (decF shape c) a := by
  have rlo : ∀ i, i < nfa shape a → loCellOf shape a i < numCells shape := fun i hi => by
    rw [(cellOf_eq_conn shape a i ha hi).1]; exact (conn_lt shape _ (face_block shape a i ha hi).2.2).1
  have rhi : ∀ i, i < nfa shape a → hiCellOf shape a i < numCells shape := fun i hi => by
    rw [(cellOf_eq_conn shape a i ha hi).2]; exact (conn_lt shape _ (face_block shape a i ha hi).2.2).2
  unfold faceToCellTable
  rw [accumN_getD _ _ _ _ _ (fun i hi => by rw [accumN_length, List.length_replicate]; exact rhi i hi),
    accumN_getD _ _ _ _ _ (fun i hi => by rw [List.length_replicate]; exact rlo i hi),
    sum_lo_indicator shape a c _ ha hc, sum_hi_indicator shape a c _ ha hc]
  rw [getD_replicate_zero]
  simp only [faceToCell, uHi, uLo, faceNum]
  split_ifs <;> ring

theorem key_split (n r c q f : Nat) (hq : q < n) (hf : f < n) : r * n + q = c * n + f ↔ (r = c ∧ q = f) := by
  constructor
  · intro e
    have h1 : (r * n + q) % n = (c * n + f) % n := by rw [e]
    have h2 : (r * n + q) / n = (c * n + f) / n := by rw [e]
    rw [Nat.mul_comm r n, Nat.mul_comm c n, Nat.mul_add_mod, Nat.mul_add_mod, Nat.mod_eq_of_lt hq, Nat.mod_eq_of_lt hf] at h1
    rw [Nat.mul_comm r n, Nat.mul_comm c n, Nat.mul_add_div (by omega), Nat.mul_add_div (by omega),
      Nat.div_eq_of_lt hq, Nat.div_eq_of_lt hf] at h2
    exact ⟨by omega, h1⟩
  · rintro ⟨rfl, rfl⟩; rfl

/-- `FVDivergence.mat` as coded (COO triplets summed into the matrix) has the entries `divEntry` -/
theorem divAssembled_eq (shape : List Nat) (h : List Rat) (c f : Nat) (hc : c < numCells shape)
    (hf : f < numFaces shape) :
    (divAssembled shape h).getD (c * numFaces shape + f) 0 = divEntry shape h c f := by
  unfold divAssembled
  have hr : ∀ t, t < 2 * numFaces shape →
      tripRow shape t * numFaces shape + tripCol t < (List.replicate (numCells shape * numFaces shape) (0 : Rat)).length := by
    intro t ht
    have hcol : tripCol t < numFaces shape := by unfold tripCol; omega
    have hrow : tripRow shape t < numCells shape := by
      unfold tripRow; split_ifs
      · exact (conn_lt shape _ hcol).1
      · exact (conn_lt shape _ hcol).2
    rw [List.length_replicate]
    calc tripRow shape t * numFaces shape + tripCol t < tripRow shape t * numFaces shape + numFaces shape := by omega
      _ = (tripRow shape t + 1) * numFaces shape := by ring
      _ ≤ numCells shape * numFaces shape := Nat.mul_le_mul_right _ hrow
  rw [accumN_getD _ _ _ _ _ hr]
  rw [getD_replicate_zero, zero_add, sumTo_double]
  have e : ∀ i, i < numFaces shape →
      ((if tripRow shape (2 * i) * numFaces shape + tripCol (2 * i) = c * numFaces shape + f then tripData shape h (2 * i) else 0) +
        (if tripRow shape (2 * i + 1) * numFaces shape + tripCol (2 * i + 1) = c * numFaces shape + f then
          tripData shape h (2 * i + 1) else 0)) =
      if i = f then divEntry shape h c i else 0 := by
    intro i hi
    have c0 : tripCol (2 * i) = i := by unfold tripCol; omega
    have c1 : tripCol (2 * i + 1) = i := by unfold tripCol; omega
    have r0 : tripRow shape (2 * i) = (conn shape i).1 := by
      unfold tripRow; rw [if_pos (by omega), show 2 * i / 2 = i by omega]
    have r1 : tripRow shape (2 * i + 1) = (conn shape i).2 := by
      unfold tripRow; rw [if_neg (by omega), show (2 * i + 1) / 2 = i by omega]
    have d0 : tripData shape h (2 * i) = area h (faceAxis shape i) := by
      unfold tripData; rw [if_pos (by omega), show 2 * i / 2 = i by omega]; ring
    have d1 : tripData shape h (2 * i + 1) = -area h (faceAxis shape i) := by
      unfold tripData; rw [if_neg (by omega), show (2 * i + 1) / 2 = i by omega]; ring
    rw [c0, c1, r0, r1, d0, d1]
    simp only [key_split _ _ _ _ _ hi hf, divEntry]
    by_cases p : i = f
    · subst p
      have e1 : (c = (conn shape i).1) ↔ ((conn shape i).1 = c) := eq_comm
      have e2 : (c = (conn shape i).2) ↔ ((conn shape i).2 = c) := eq_comm
      simp only [e1, e2, and_true, if_true]
    · simp [p]
  rw [sumTo_congr e]
  exact sumTo_ite_eq _ f (fun i => divEntry shape h c i) hf

end Darsia
