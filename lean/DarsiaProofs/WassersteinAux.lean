/-
The outputs of `__call__` are functions of the returned flat solution only — and of the right part of it.
-/
import DarsiaModel.WassersteinAux
import DarsiaProofs.Grid
import DarsiaProofs.Sums
namespace Darsia.WAux
open Darsia

theorem inBox_length : ∀ (shape idx : List Nat), inBox shape idx = true → idx.length = shape.length
  | [], [], _ => rfl
  | [], _ :: _, h => by simp [inBox] at h
  | _ :: _, [], h => by simp [inBox] at h
  | n :: ns, i :: is, h => by
    simp only [inBox, Bool.and_eq_true] at h
    simp [inBox_length ns is h.2]

/-- the fluxes through the two faces of a cell along axis `a` only read flux dofs -/
theorem uHi_congr {shape : List Nat} {x x' : Nat → Rat} (hx : ∀ f, f < numFaces shape → x f = x' f)
    {idx : List Nat} (hidx : inBox shape idx = true) (a : Nat) : uHi shape x a idx = uHi shape x' a idx := by
  unfold uHi
  by_cases hc : idx.getD a 0 + 1 < shape.getD a 0
  · simp only [hc, if_true]
    have ha : a < shape.length := by
      by_contra hn
      have : shape.getD a 0 = 0 := by
        rw [List.getD_eq_getElem?_getD, List.getElem?_eq_none (by omega)]; rfl
      omega
    exact hx _ (faceNum_lt shape idx a ha ((inBox_fshape shape idx a ha).2 ⟨hidx, hc⟩))
  · simp only [hc, if_false]

theorem uLo_congr {shape : List Nat} {x x' : Nat → Rat} (hx : ∀ f, f < numFaces shape → x f = x' f)
    {idx : List Nat} (hidx : inBox shape idx = true) (a : Nat) : uLo shape x a idx = uLo shape x' a idx := by
  unfold uLo
  by_cases hc : 1 ≤ idx.getD a 0
  · simp only [hc, if_true]
    have ha : a < shape.length := by
      by_contra hn
      have hl := inBox_length shape idx hidx
      have : idx.getD a 0 = 0 := by
        rw [List.getD_eq_getElem?_getD, List.getElem?_eq_none (by omega)]; rfl
      omega
    exact hx _ (faceNum_lt shape _ a ha (inBox_unbump shape idx a ha hidx hc))
  · simp only [hc, if_false]

theorem faceToCell_congr {shape : List Nat} {x x' : Nat → Rat} (hx : ∀ f, f < numFaces shape → x f = x' f)
    (pt : List Rat) {idx : List Nat} (hidx : inBox shape idx = true) (a : Nat) :
    faceToCell shape x pt idx a = faceToCell shape x' pt idx a := by
  unfold faceToCell
  rw [uHi_congr hx hidx, uLo_congr hx hidx]

theorem cellVec_congr {shape : List Nat} {x x' : Nat → Rat} (hx : ∀ f, f < numFaces shape → x f = x' f)
    (wgt : List Nat → Nat → Rat) (pt : List Rat) {idx : List Nat} (hidx : inBox shape idx = true) :
    cellVec shape x wgt pt idx = cellVec shape x' wgt pt idx := by
  funext a
  unfold cellVec
  rw [faceToCell_congr hx pt hidx]

theorem transportDensity_congr (N : (Nat → Rat) → Rat) {shape : List Nat} {x x' : Nat → Rat}
    (hx : ∀ f, f < numFaces shape → x f = x' f) (nq : Nat) (wq : Nat → Rat) (ptq : Nat → List Rat)
    (wgt : List Nat → Nat → Rat) {c : Nat} (hc : c < numCells shape) :
    transportDensity N shape nq wq ptq wgt x c = transportDensity N shape nq wq ptq wgt x' c := by
  unfold transportDensity
  apply sumTo_congr
  intro q _
  rw [cellVec_congr hx wgt (ptq q) (decF_inBox shape c hc)]

theorem cost_congr (N : (Nat → Rat) → Rat) {shape : List Nat} (h : List Rat) {x x' : Nat → Rat}
    (hx : ∀ f, f < numFaces shape → x f = x' f) (nq : Nat) (wq : Nat → Rat) (ptq : Nat → List Rat)
    (wgt : List Nat → Nat → Rat) :
    cost N shape h nq wq ptq wgt x = cost N shape h nq wq ptq wgt x' := by
  unfold cost
  apply sumTo_congr
  intro c hc
  rw [transportDensity_congr N hx nq wq ptq wgt hc]

end Darsia.WAux
