/-
Bridge between the executable saddle-point model (`DarsiaModel.Saddle`: arrays over ℚ, what the C08 driver
computes) and the abstract theorems of `DarsiaProofs.Saddle` (any field, finite index types): the model's
`assembleFull`, `eliminateFlux`, `eliminateMultiplier`, `fluxUpdateV` ARE the abstract operators for the index
sets `Fin nf`, `Fin nc`.
-/
import DarsiaModel.Saddle
import DarsiaModel.FV
import Mathlib.Tactic.Linarith
import DarsiaProofs.Saddle
import DarsiaProofs.Sums
import Mathlib.Algebra.BigOperators.Fin
import Mathlib.Algebra.Field.Rat
namespace Darsia.SaddleBridge
open Darsia Darsia.Saddle

theorem sumTo_eq_sum (n : Nat) (f : Nat → ℚ) : sumTo n f = ∑ i : Fin n, f i.val := by
  induction n with
  | zero => simp [sumTo]
  | succ n ih => rw [sumTo, ih, Fin.sum_univ_castSucc]; simp

@[simp] theorem size_tabV (n : Nat) (f : Nat → ℚ) : (tabV n f).size = n := by simp [tabV]
@[simp] theorem size_tab (n m : Nat) (f : Nat → Nat → ℚ) : (tab n m f).size = n := by simp [tab]

theorem getD_tabV (n : Nat) (f : Nat → ℚ) (i : Nat) : (tabV n f).getD i 0 = if i < n then f i else 0 := by
  unfold tabV
  by_cases h : i < n <;> simp [Array.getD_eq_getD_getElem?, h]

theorem get_tab (n m : Nat) (f : Nat → Nat → ℚ) (i j : Nat) :
    (tab n m f).get i j = if i < n ∧ j < m then f i j else 0 := by
  unfold tab Mat.get
  by_cases h : i < n
  · by_cases h2 : j < m <;> simp [Array.getD_eq_getD_getElem?, h, h2]
  · simp [Array.getD_eq_getD_getElem?, h]

theorem tabV_eq_iff (n : Nat) (f g : Nat → ℚ) : tabV n f = tabV n g ↔ ∀ i, i < n → f i = g i := by
  unfold tabV
  constructor
  · intro h i hi
    have := congrArg (fun a => a.getD i 0) h
    simpa [Array.getD_eq_getD_getElem?, hi] using this
  · intro h
    apply Array.ext
    · simp
    · intro i h1 h2
      simp only [Array.getElem_ofFn]
      exact h i (by simpa using h1)

theorem mulVec_eq (a : Mat) (x : Vec) :
    mulVec a x = tabV a.size fun i => sumTo x.size fun j => a.get i j * x.getD j 0 := rfl
/-- `[u | p | lam]` as a function of the dof number -/
def cat3 (nf nc : Nat) (u p : Nat → ℚ) (lam : ℚ) (i : Nat) : ℚ :=
  if i < nf then u i else if i < nf + nc then p (i - nf) else lam

theorem sum_cat3 (nf nc : Nat) (E u p : Nat → ℚ) (lam : ℚ) :
    sumTo (nf + nc + 1) (fun j => E j * cat3 nf nc u p lam j)
      = sumTo nf (fun e => E e * u e) + sumTo nc (fun c => E (nf + c) * p c) + E (nf + nc) * lam := by
  rw [sumTo, sumTo_append]
  congr 1
  · congr 1
    · apply sumTo_congr; intro e he; simp [cat3, he]
    · apply sumTo_congr; intro c hc
      have h1 : ¬ nf + c < nf := by omega
      have h2 : nf + c < nf + nc := by omega
      simp [cat3, h1, h2]
  · have h1 : ¬ nf + nc < nf := by omega
    simp [cat3, h1]

variable (w : Vec) (D : Mat) (k : Nat)

/-- row `i` of the assembled matrix applied to `[u | p | lam]` -/
theorem full_row (u p : Nat → ℚ) (lam : ℚ) (i : Nat) (hi : i < w.size + D.size + 1) :
    (mulVec (assembleFull w D k) (tabV (w.size + D.size + 1) (cat3 w.size D.size u p lam))).getD i 0
      = sumTo w.size (fun e => fullEntry w D k i e * u e)
        + sumTo D.size (fun c => fullEntry w D k i (w.size + c) * p c)
        + fullEntry w D k i (w.size + D.size) * lam := by
  rw [mulVec_eq, getD_tabV]
  simp only [assembleFull, size_tab, size_tabV, hi, if_true]
  rw [← sum_cat3]
  apply sumTo_congr
  intro j hj
  rw [get_tab, getD_tabV, if_pos ⟨hi, hj⟩, if_pos hj]

theorem full_row_flux (u p : Nat → ℚ) (lam : ℚ) (i : Nat) (hi : i < w.size) :
    (mulVec (assembleFull w D k) (tabV (w.size + D.size + 1) (cat3 w.size D.size u p lam))).getD i 0
      = w.getD i 0 * u i - sumTo D.size (fun c => D.get c i * p c) := by
  rw [full_row w D k u p lam i (by omega)]
  have h1 : sumTo w.size (fun e => fullEntry w D k i e * u e) = w.getD i 0 * u i := by
    rw [sumTo_congr (g := fun e => if e = i then w.getD i 0 * u e else 0)]
    · exact sumTo_ite_eq _ _ _ hi
    · intro e he
      simp only [fullEntry, hi, he, if_true]
      by_cases h : i = e
      · subst h; simp
      · have : ¬ e = i := fun h' => h h'.symm
        simp [h, this]
  have h2 : sumTo D.size (fun c => fullEntry w D k i (w.size + c) * p c)
      = - sumTo D.size (fun c => D.get c i * p c) := by
    rw [← sumTo_neg]
    apply sumTo_congr
    intro c hc
    have e1 : ¬ w.size + c < w.size := by omega
    have e2 : w.size + c < w.size + D.size := by omega
    simp only [fullEntry, hi, e1, e2, if_true, if_false, Nat.add_sub_cancel_left]
    ring
  have h3 : fullEntry w D k i (w.size + D.size) = 0 := by
    have e1 : ¬ w.size + D.size < w.size := by omega
    have e2 : ¬ w.size + D.size < w.size + D.size := by omega
    simp only [fullEntry, hi, e1, e2, if_true, if_false]
  rw [h1, h2, h3]; ring

theorem full_row_mass (u p : Nat → ℚ) (lam : ℚ) (c : Nat) (hc : c < D.size) :
    (mulVec (assembleFull w D k) (tabV (w.size + D.size + 1) (cat3 w.size D.size u p lam))).getD (w.size + c) 0
      = sumTo w.size (fun e => D.get c e * u e) - (if c = k then lam else 0) := by
  rw [full_row w D k u p lam _ (by omega)]
  have e0 : ¬ w.size + c < w.size := by omega
  have e1 : w.size + c < w.size + D.size := by omega
  have h1 : sumTo w.size (fun e => fullEntry w D k (w.size + c) e * u e) = sumTo w.size (fun e => D.get c e * u e) := by
    apply sumTo_congr
    intro e he
    simp only [fullEntry, e0, e1, he, if_true, if_false, Nat.add_sub_cancel_left]
  have h2 : sumTo D.size (fun c' => fullEntry w D k (w.size + c) (w.size + c') * p c') = 0 := by
    rw [sumTo_congr (g := fun _ => 0), sumTo_const_zero]
    intro c' hc'
    have e2 : ¬ w.size + c' < w.size := by omega
    have e3 : w.size + c' < w.size + D.size := by omega
    simp only [fullEntry, e0, e1, e2, e3, if_true, if_false, zero_mul]
  have h3 : fullEntry w D k (w.size + c) (w.size + D.size) = if c = k then -1 else 0 := by
    have e2 : ¬ w.size + D.size < w.size := by omega
    have e3 : ¬ w.size + D.size < w.size + D.size := by omega
    simp only [fullEntry, e0, e1, e2, e3, if_true, if_false, Nat.add_sub_cancel_left]
  rw [h1, h2, h3]
  by_cases h : c = k <;> simp [h] <;> ring

theorem full_row_pin (u p : Nat → ℚ) (lam : ℚ) (hk : k < D.size) :
    (mulVec (assembleFull w D k) (tabV (w.size + D.size + 1) (cat3 w.size D.size u p lam))).getD (w.size + D.size) 0
      = p k := by
  rw [full_row w D k u p lam _ (by omega)]
  have e0 : ¬ w.size + D.size < w.size := by omega
  have e1 : ¬ w.size + D.size < w.size + D.size := by omega
  have h1 : sumTo w.size (fun e => fullEntry w D k (w.size + D.size) e * u e) = 0 := by
    rw [sumTo_congr (g := fun _ => 0), sumTo_const_zero]
    intro e he
    have : ¬ w.size ≤ e := by omega
    simp only [fullEntry, e0, e1, this, false_and, if_false, zero_mul]
  have h2 : sumTo D.size (fun c => fullEntry w D k (w.size + D.size) (w.size + c) * p c) = p k := by
    rw [sumTo_congr (g := fun c => if c = k then p c else 0)]
    · exact sumTo_ite_eq _ _ _ hk
    · intro c hc
      have e2 : w.size ≤ w.size + c := by omega
      have e3 : w.size + c < w.size + D.size := by omega
      simp only [fullEntry, e0, e1, e2, e3, if_false, true_and, Nat.add_sub_cancel_left]
      by_cases h : c = k <;> simp [h]
  have h3 : fullEntry w D k (w.size + D.size) (w.size + D.size) = 0 := by
    simp only [fullEntry, e0, e1, if_false, false_and, and_false]
  rw [h1, h2, h3]; ring

theorem vec_eq_iff (a b : Vec) (n : Nat) (ha : a.size = n) (hb : b.size = n) :
    a = b ↔ ∀ i, i < n → a.getD i 0 = b.getD i 0 := by
  constructor
  · rintro rfl i _; rfl
  · intro h
    apply Array.ext (by omega)
    intro i h1 h2
    have := h i (by omega)
    simpa [Array.getD_eq_getD_getElem?, h1, h2] using this

theorem forall_lt_split (nf nc : Nat) (Q : Nat → Prop) :
    (∀ i, i < nf + nc + 1 → Q i) ↔ (∀ e, e < nf → Q e) ∧ (∀ c, c < nc → Q (nf + c)) ∧ Q (nf + nc) := by
  constructor
  · intro h
    exact ⟨fun e he => h e (by omega), fun c hc => h _ (by omega), h _ (by omega)⟩
  · rintro ⟨h1, h2, h3⟩ i hi
    by_cases a : i < nf
    · exact h1 i a
    · by_cases b : i < nf + nc
      · have := h2 (i - nf) (by omega)
        rwa [show nf + (i - nf) = i by omega] at this
      · have : i = nf + nc := by omega
        subst this; exact h3

/-- the abstract data of the executable model -/
def wF (w : Vec) : Fin w.size → ℚ := fun e => w.getD e.val 0
def DF (w : Vec) (D : Mat) : Fin D.size → Fin w.size → ℚ := fun c e => D.get c.val e.val

variable (w : Vec) (D : Mat) (k : Nat)

theorem cat3_getD (nf nc : Nat) (g f : Nat → ℚ) (r : ℚ) :
    (∀ e, e < nf → cat3 nf nc g f r e = g e) ∧ (∀ c, c < nc → cat3 nf nc g f r (nf + c) = f c) ∧
      cat3 nf nc g f r (nf + nc) = r := by
  refine ⟨fun e he => by simp [cat3, he], fun c hc => ?_, ?_⟩
  · have h1 : ¬ nf + c < nf := by omega
    have h2 : nf + c < nf + nc := by omega
    simp [cat3, h1, h2]
  · have h1 : ¬ nf + nc < nf := by omega
    simp [cat3, h1]

/-- **the assembled matrix is the abstract full block system**: the model's `A x = b` for
`x = [u | p | lam]`, `b = [g | f | r]` is exactly `Saddle.Full` over `Fin nf`, `Fin nc` -/
theorem full_iff (hk : k < D.size) (u p g f : Nat → ℚ) (lam r : ℚ) :
    mulVec (assembleFull w D k) (tabV (w.size + D.size + 1) (cat3 w.size D.size u p lam))
        = tabV (w.size + D.size + 1) (cat3 w.size D.size g f r)
      ↔ Saddle.Full (wF w) (DF w D) ⟨k, hk⟩ (fun e => g e.val) (fun c => f c.val) r
          (fun e => u e.val) (fun c => p c.val) lam := by
  rw [vec_eq_iff _ _ (w.size + D.size + 1) (by simp [mulVec_eq, assembleFull]) (by simp), forall_lt_split]
  obtain ⟨c1, c2, c3⟩ := cat3_getD w.size D.size g f r
  constructor
  · rintro ⟨h1, h2, h3⟩
    refine ⟨fun e => ?_, fun c => ?_, ?_⟩
    · have := h1 e.val e.isLt
      rw [getD_tabV, if_pos (show e.val < w.size + D.size + 1 by omega), c1 _ e.isLt, full_row_flux w D k u p lam e.val e.isLt] at this
      simp only [Saddle.divT, wF, DF, ← this, sumTo_eq_sum]
    · have := h2 c.val c.isLt
      rw [getD_tabV, if_pos (show w.size + c.val < w.size + D.size + 1 by omega), c2 _ c.isLt, full_row_mass w D k u p lam c.val c.isLt] at this
      simp only [Saddle.div, Saddle.ind, DF, ← this, sumTo_eq_sum, Fin.ext_iff]
    · rw [getD_tabV, if_pos (show w.size + D.size < w.size + D.size + 1 by omega), c3, full_row_pin w D k u p lam hk] at h3
      exact h3
  · intro h
    refine ⟨fun e he => ?_, fun c hc => ?_, ?_⟩
    · have := h.flux ⟨e, he⟩
      rw [getD_tabV, if_pos (show e < w.size + D.size + 1 by omega), c1 _ he, full_row_flux w D k u p lam e he]
      simp only [Saddle.divT, wF, DF, sumTo_eq_sum] at this ⊢
      exact this
    · have := h.mass ⟨c, hc⟩
      rw [getD_tabV, if_pos (show w.size + c < w.size + D.size + 1 by omega), c2 _ hc, full_row_mass w D k u p lam c hc]
      simp only [Saddle.div, Saddle.ind, DF, sumTo_eq_sum, Fin.ext_iff] at this ⊢
      exact this
    · rw [getD_tabV, if_pos (show w.size + D.size < w.size + D.size + 1 by omega), c3, full_row_pin w D k u p lam hk]
      exact h.pin

/-! ### entries of the assembled matrix -/
theorem A_size : (assembleFull w D k).size = w.size + D.size + 1 := by simp [assembleFull]

theorem A_get (i j : Nat) (hi : i < w.size + D.size + 1) (hj : j < w.size + D.size + 1) :
    (assembleFull w D k).get i j = fullEntry w D k i j := by
  unfold assembleFull; rw [get_tab, if_pos ⟨hi, hj⟩]

theorem A_diag (e : Nat) (he : e < w.size) : (assembleFull w D k).get e e = w.getD e 0 := by
  rw [A_get w D k e e (by omega) (by omega)]; simp [fullEntry, he]

theorem A_low (c e : Nat) (hc : c < D.size) (he : e < w.size) :
    (assembleFull w D k).get (w.size + c) e = D.get c e := by
  rw [A_get w D k _ _ (by omega) (by omega)]
  have e0 : ¬ w.size + c < w.size := by omega
  have e1 : w.size + c < w.size + D.size := by omega
  simp only [fullEntry, e0, e1, he, if_true, if_false, Nat.add_sub_cancel_left]

theorem A_low_last (e : Nat) (he : e < w.size) : (assembleFull w D k).get (w.size + D.size) e = 0 := by
  rw [A_get w D k _ _ (by omega) (by omega)]
  have e0 : ¬ w.size + D.size < w.size := by omega
  have e1 : ¬ w.size + D.size < w.size + D.size := by omega
  have e2 : ¬ w.size ≤ e := by omega
  simp only [fullEntry, e0, e1, e2, if_false, false_and]

theorem A_block (c c' : Nat) (hc : c ≤ D.size) (hc' : c' ≤ D.size) :
    (assembleFull w D k).get (w.size + c) (w.size + c')
      = if c < D.size then (if c' < D.size then 0 else if c = k then -1 else 0)
        else (if c' < D.size ∧ c' = k then 1 else 0) := by
  rw [A_get w D k _ _ (by omega) (by omega)]
  have e0 : ¬ w.size + c < w.size := by omega
  have e0' : ¬ w.size + c' < w.size := by omega
  have e2 : w.size ≤ w.size + c' := by omega
  simp only [fullEntry, e0, e0', e2, if_false, true_and, Nat.add_sub_cancel_left, Nat.add_lt_add_iff_left]

/-- Schur complement and reduced right-hand side as `sumTo` expressions -/
def schurN (c c' : Nat) : ℚ := sumTo w.size fun e => D.get c e * (1 / w.getD e 0) * D.get c' e
def redRhsN (g f : Nat → ℚ) (c : Nat) : ℚ := f c - sumTo w.size fun e => D.get c e * (1 / w.getD e 0) * g e

theorem red_entry (c c' : Nat) (hc : c ≤ D.size) (hc' : c' ≤ D.size) :
    redEntry (assembleFull w D k) (assembleFull w D k) w.size c c'
      = if c < D.size then (if c' < D.size then schurN w D c c' else if c = k then -1 else 0)
        else (if c' < D.size ∧ c' = k then 1 else 0) := by
  unfold redEntry
  rw [A_block w D k c c' hc hc']
  by_cases h1 : c < D.size
  · by_cases h2 : c' < D.size
    · simp only [h1, h2, if_true, zero_add, schurN]
      apply sumTo_congr; intro e he
      rw [A_low w D k c e h1 he, A_low w D k c' e h2 he, A_diag w D k e he]
    · have : c' = D.size := by omega
      subst this
      simp only [h1, h2, if_true, if_false]
      rw [sumTo_congr (g := fun _ => 0), sumTo_const_zero, add_zero]
      intro e he; rw [A_low_last w D k e he, mul_zero]
  · have : c = D.size := by omega
    subst this
    simp only [h1, if_false]
    rw [sumTo_congr (g := fun _ => 0), sumTo_const_zero, add_zero]
    intro e he; rw [A_low_last w D k e he]; ring

theorem redRhs_entry (g f : Nat → ℚ) (r : ℚ) (c : Nat) (hc : c ≤ D.size) :
    redRhsEntry (assembleFull w D k) (assembleFull w D k) (tabV (w.size + D.size + 1) (cat3 w.size D.size g f r)) w.size c
      = if c < D.size then redRhsN w D g f c else r := by
  obtain ⟨c1, c2, c3⟩ := cat3_getD w.size D.size g f r
  unfold redRhsEntry
  rw [getD_tabV, if_pos (by omega)]
  by_cases h1 : c < D.size
  · simp only [h1, if_true, redRhsN, c2 c h1]
    congr 1
    apply sumTo_congr; intro e he
    rw [A_low w D k c e h1 he, A_diag w D k e he, getD_tabV, if_pos (by omega), c1 e he]
  · have : c = D.size := by omega
    subst this
    simp only [h1, if_false, c3]
    rw [sumTo_congr (g := fun _ => 0), sumTo_const_zero, sub_zero]
    intro e he; rw [A_low_last w D k e he]; ring

/-- `[p | lam]` -/
def cat2 (nc : Nat) (p : Nat → ℚ) (lam : ℚ) (i : Nat) : ℚ := if i < nc then p i else lam

theorem sum_cat2 (nc : Nat) (E p : Nat → ℚ) (lam : ℚ) :
    sumTo (nc + 1) (fun j => E j * cat2 nc p lam j) = sumTo nc (fun c => E c * p c) + E nc * lam := by
  rw [sumTo]
  congr 1
  · apply sumTo_congr; intro c hc; simp [cat2, hc]
  · simp [cat2]

theorem schur_eq (hk : k < D.size) (c c' : Fin D.size) :
    Saddle.schur (wF w) (DF w D) c c' = schurN w D c.val c'.val := by
  unfold Saddle.schur schurN
  rw [sumTo_eq_sum]
  apply Finset.sum_congr rfl; intro e _
  simp only [wF, DF, one_div]; ring

theorem redRhs_eq (g f : Nat → ℚ) (c : Fin D.size) :
    Saddle.redRhs (wF w) (DF w D) (fun e => g e.val) (fun c => f c.val) c = redRhsN w D g f c.val := by
  unfold Saddle.redRhs redRhsN
  rw [sumTo_eq_sum]
  congr 1
  apply Finset.sum_congr rfl; intro e _
  simp only [wF, DF, one_div]; ring

/-- **`eliminate_flux` is the abstract Schur-complement system** -/
theorem reduced_iff (hk : k < D.size) (p g f : Nat → ℚ) (lam r : ℚ) :
    (let E := eliminateFlux (assembleFull w D k) (assembleFull w D k) (tabV (w.size + D.size + 1) (cat3 w.size D.size g f r)) w.size
     mulVec E.1 (tabV (D.size + 1) (cat2 D.size p lam)) = E.2.1)
      ↔ Saddle.Reduced (wF w) (DF w D) ⟨k, hk⟩ (fun e => g e.val) (fun c => f c.val) r (fun c => p c.val) lam := by
  simp only [eliminateFlux, A_size, show w.size + D.size + 1 - w.size = D.size + 1 by omega]
  rw [vec_eq_iff _ _ (D.size + 1) (by simp [mulVec_eq]) (by simp)]
  have row : ∀ c, c ≤ D.size →
      (mulVec (tab (D.size + 1) (D.size + 1) (redEntry (assembleFull w D k) (assembleFull w D k) w.size))
        (tabV (D.size + 1) (cat2 D.size p lam))).getD c 0
      = if c < D.size then sumTo D.size (fun c' => schurN w D c c' * p c') - (if c = k then lam else 0) else p k := by
    intro c hc
    rw [mulVec_eq, getD_tabV]
    simp only [size_tab, size_tabV, show c < D.size + 1 by omega, if_true]
    rw [sumTo_congr (g := fun j => redEntry (assembleFull w D k) (assembleFull w D k) w.size c j * cat2 D.size p lam j), sum_cat2]
    · by_cases h1 : c < D.size
      · simp only [h1, if_true]
        rw [red_entry w D k c D.size hc (Nat.le_refl _)]
        simp only [h1, if_true, Nat.lt_irrefl, if_false]
        rw [sumTo_congr (g := fun c' => schurN w D c c' * p c')]
        · by_cases h : c = k <;> simp [h] <;> ring
        · intro c' hc'
          rw [red_entry w D k c c' hc (by omega)]; simp only [h1, hc', if_true]
      · have : c = D.size := by omega
        subst this
        simp only [Nat.lt_irrefl, if_false]
        rw [red_entry w D k _ _ (Nat.le_refl _) (Nat.le_refl _)]
        simp only [Nat.lt_irrefl, if_false, false_and, zero_mul, add_zero]
        rw [sumTo_congr (g := fun c' => if c' = k then p c' else 0)]
        · exact sumTo_ite_eq _ _ _ hk
        · intro c' hc'
          rw [red_entry w D k _ c' (Nat.le_refl _) (by omega)]
          simp only [Nat.lt_irrefl, if_false, hc', true_and]
          by_cases h : c' = k <;> simp [h]
    · intro j hj
      rw [get_tab, getD_tabV, if_pos ⟨by omega, hj⟩, if_pos hj]
  constructor
  · intro h
    refine ⟨fun c => ?_, ?_⟩
    · have := h c.val (by omega)
      rw [row c.val (by omega), getD_tabV, redRhs_entry w D k g f r c.val (by omega)] at this
      simp only [c.isLt, show c.val < D.size + 1 by omega, if_true] at this
      rw [redRhs_eq, ← this]
      simp only [Saddle.ind, Fin.ext_iff, sumTo_eq_sum]
      congr 1
      apply Finset.sum_congr rfl; intro c' _
      rw [schur_eq w D k hk]
    · have := h D.size (by omega)
      rw [row D.size (Nat.le_refl _), getD_tabV, redRhs_entry w D k g f r _ (Nat.le_refl _)] at this
      simpa using this
  · intro h i hi
    rw [row i (by omega), getD_tabV, redRhs_entry w D k g f r i (by omega)]
    simp only [hi, if_true]
    by_cases h1 : i < D.size
    · simp only [h1, if_true]
      have := h.mass ⟨i, h1⟩
      rw [redRhs_eq] at this
      rw [← this]
      simp only [Saddle.ind, Fin.ext_iff, sumTo_eq_sum]
      congr 1
      apply Finset.sum_congr rfl; intro c' _
      rw [schur_eq w D k hk]
    · simp only [h1, if_false]
      exact h.pin

theorem sumTo_skip (F : Nat → ℚ) : ∀ (n k : Nat), k ≤ n →
    sumTo (n + 1) F = F k + sumTo n (fun j => F (Saddle.up k j)) := by
  intro n
  induction n with
  | zero => intro k hk; have : k = 0 := by omega
            subst this; simp [sumTo]
  | succ n ih =>
    intro k hk
    by_cases h : k ≤ n
    · have e1 : sumTo (n + 1 + 1) F = sumTo (n + 1) F + F (n + 1) := rfl
      have e2 : sumTo (n + 1) (fun j => F (Saddle.up k j))
          = sumTo n (fun j => F (Saddle.up k j)) + F (Saddle.up k n) := rfl
      have : Saddle.up k n = n + 1 := by unfold Saddle.up; rw [if_neg (by omega)]
      rw [e1, e2, ih k h, this]; ring
    · have : k = n + 1 := by omega
      subst this
      have e1 : sumTo (n + 1 + 1) F = sumTo (n + 1) F + F (n + 1) := rfl
      rw [e1]
      have : sumTo (n + 1) (fun j => F (Saddle.up (n + 1) j)) = sumTo (n + 1) F := by
        apply sumTo_congr; intro j hj; unfold Saddle.up; rw [if_pos hj]
      rw [this]; ring

/-- `compute_flux_update` is the abstract `fluxUpdate` -/
theorem flux_entry (g f p : Nat → ℚ) (r lam : ℚ) (e : Nat) (he : e < w.size) :
    fluxEntry (assembleFull w D k) (assembleFull w D k) (tabV (w.size + D.size + 1) (cat3 w.size D.size g f r))
        (tabV (D.size + 1) (cat2 D.size p lam)) w.size e
      = Saddle.fluxUpdate (wF w) (DF w D) (fun e => g e.val) (fun c => p c.val) ⟨e, he⟩ := by
  obtain ⟨c1, _, _⟩ := cat3_getD w.size D.size g f r
  unfold fluxEntry Saddle.fluxUpdate Saddle.divT
  rw [A_diag w D k e he, A_size, show w.size + D.size + 1 - w.size = D.size + 1 by omega,
    getD_tabV, if_pos (by omega), c1 e he]
  rw [sumTo_congr (g := fun i => (assembleFull w D k).get (w.size + i) e * cat2 D.size p lam i), sum_cat2,
    A_low_last w D k e he, zero_mul, add_zero]
  · rw [sumTo_congr (g := fun c => D.get c e * p c) (fun c hc => by rw [A_low w D k c e hc he]), sumTo_eq_sum]
    simp only [wF, DF, one_div]
  · intro i hi; rw [getD_tabV, if_pos hi]

theorem wF_ne (hw : ∀ e, e < w.size → w.getD e 0 ≠ 0) : ∀ e, wF w e ≠ 0 := fun e => hw e.val e.isLt

/-- **soundness of the flux-reduced branch of the model**: whatever solves the reduced system the model
builds, the vector the model returns (`[W⁻¹(g + Dᵀp) | p | lam]`) solves the assembled full system -/
theorem fluxReduced_sound (hw : ∀ e, e < w.size → w.getD e 0 ≠ 0) (hk : k < D.size)
    (p g f : Nat → ℚ) (lam r : ℚ)
    (h : let E := eliminateFlux (assembleFull w D k) (assembleFull w D k) (tabV (w.size + D.size + 1) (cat3 w.size D.size g f r)) w.size
         mulVec E.1 (tabV (D.size + 1) (cat2 D.size p lam)) = E.2.1) :
    mulVec (assembleFull w D k) (tabV (w.size + D.size + 1) (cat3 w.size D.size
        (fluxEntry (assembleFull w D k) (assembleFull w D k) (tabV (w.size + D.size + 1) (cat3 w.size D.size g f r))
          (tabV (D.size + 1) (cat2 D.size p lam)) w.size) p lam))
      = tabV (w.size + D.size + 1) (cat3 w.size D.size g f r) := by
  rw [full_iff w D k hk]
  have hR := (reduced_iff w D k hk p g f lam r).1 h
  have := (Saddle.flux_reduced_equiv (wF_ne w hw) (DF w D) ⟨k, hk⟩ (fun e => g e.val) (fun c => f c.val) r
    _ (fun c => p c.val) lam).2 ⟨hR, rfl⟩
  convert this using 2
  rename_i e
  exact flux_entry w D k g f p r lam e.val e.isLt

/-! ### `eliminate_lagrange_multiplier` -/

/-- scatter of the pure-pressure solution: `p_k = 0` -/
def scatterN (k : Nat) (y : Nat → ℚ) (c : Nat) : ℚ := if c < k then y c else if c = k then 0 else y (c - 1)

theorem scatterN_up (k : Nat) (y : Nat → ℚ) (j : Nat) : scatterN k y (Saddle.up k j) = y j := by
  unfold scatterN Saddle.up
  by_cases h : j < k
  · simp [h]
  · have h1 : ¬ j + 1 < k := by omega
    have h2 : ¬ j + 1 = k := by omega
    simp [h, h1, h2]

/-- rows of the fully reduced (pure pressure) system the model builds -/
theorem pinned_rows (hk : k < D.size) (g f y : Nat → ℚ) (r : ℚ) :
    (let E := eliminateFlux (assembleFull w D k) (assembleFull w D k) (tabV (w.size + D.size + 1) (cat3 w.size D.size g f r)) w.size
     mulVec (dropRowCol E.1 k) (tabV (D.size - 1) y) = dropVec E.2.1 k)
      ↔ ∀ i, i < D.size - 1 →
          sumTo (D.size - 1) (fun j => schurN w D (Saddle.up k i) (Saddle.up k j) * y j)
            = redRhsN w D g f (Saddle.up k i) := by
  simp only [eliminateFlux, A_size, show w.size + D.size + 1 - w.size = D.size + 1 by omega, dropRowCol, dropVec,
    size_tab, size_tabV, show D.size + 1 - 2 = D.size - 1 by omega]
  rw [vec_eq_iff _ _ (D.size - 1) (by simp [mulVec_eq]) (by simp)]
  apply forall_congr'; intro i
  apply imp_congr_right; intro hi
  have hu : ∀ j, j < D.size - 1 → Saddle.up k j < D.size := by
    intro j hj; unfold Saddle.up; split <;> omega
  rw [mulVec_eq, getD_tabV, getD_tabV]
  simp only [size_tab, size_tabV, hi, if_true]
  rw [getD_tabV, if_pos (by have := hu i hi; omega), redRhs_entry w D k g f r _ (by have := hu i hi; omega),
    if_pos (hu i hi)]
  rw [sumTo_congr (g := fun j => schurN w D (Saddle.up k i) (Saddle.up k j) * y j)]
  intro j hj
  rw [get_tab, if_pos ⟨hi, hj⟩, getD_tabV, if_pos hj, get_tab,
    if_pos ⟨by have := hu i hi; omega, by have := hu j hj; omega⟩,
    red_entry w D k _ _ (by have := hu i hi; omega) (by have := hu j hj; omega), if_pos (hu i hi), if_pos (hu j hj)]

/-- **soundness of the pressure branch of the model**: under `1ᵀD = 0`, a zero-mean source and `r = 0`, whatever
solves the pure-pressure system the model builds, the vector the model returns
(`[W⁻¹(g + Dᵀp) | p | 0]`, `p` = scatter with `p_k = 0`) solves the assembled full system -/
theorem pressure_sound (hw : ∀ e, e < w.size → w.getD e 0 ≠ 0) (hk : k < D.size)
    (hD : ∀ e, e < w.size → sumTo D.size (fun c => D.get c e) = 0)
    (g f y : Nat → ℚ) (hf : sumTo D.size f = 0)
    (h : let E := eliminateFlux (assembleFull w D k) (assembleFull w D k) (tabV (w.size + D.size + 1) (cat3 w.size D.size g f 0)) w.size
         mulVec (dropRowCol E.1 k) (tabV (D.size - 1) y) = dropVec E.2.1 k) :
    mulVec (assembleFull w D k) (tabV (w.size + D.size + 1) (cat3 w.size D.size
        (fluxEntry (assembleFull w D k) (assembleFull w D k) (tabV (w.size + D.size + 1) (cat3 w.size D.size g f 0))
          (tabV (D.size + 1) (cat2 D.size (scatterN k y) 0)) w.size) (scatterN k y) 0))
      = tabV (w.size + D.size + 1) (cat3 w.size D.size g f 0) := by
  rw [full_iff w D k hk]
  have rows := (pinned_rows w D k hk g f y 0).1 h
  have hDF : Saddle.ColSumZero (DF w D) := by
    intro e
    have := hD e.val e.isLt
    rw [sumTo_eq_sum] at this
    exact this
  have hfF : ∑ c : Fin D.size, f c.val = 0 := by rw [← sumTo_eq_sum]; exact hf
  have hP : Saddle.Pinned (wF w) (DF w D) ⟨k, hk⟩ (fun e => g e.val) (fun c => f c.val) (fun c => scatterN k y c.val) := by
    refine ⟨fun c hc => ?_, by simp [scatterN]⟩
    have hck : c.val ≠ k := fun h' => hc (Fin.ext h')
    have hpk : scatterN k y k = 0 := by simp [scatterN]
    have h1 := Finset.add_sum_erase Finset.univ
      (fun c' : Fin D.size => Saddle.schur (wF w) (DF w D) c c' * scatterN k y c'.val) (Finset.mem_univ ⟨k, hk⟩)
    simp only [hpk, mul_zero, zero_add] at h1
    rw [h1, redRhs_eq]
    -- the full sum in `sumTo` form, then skip index `k`
    have h2 : ∑ c' : Fin D.size, Saddle.schur (wF w) (DF w D) c c' * scatterN k y c'.val
        = sumTo D.size (fun c' => schurN w D c.val c' * scatterN k y c') := by
      rw [sumTo_eq_sum]
      apply Finset.sum_congr rfl; intro c' _
      rw [schur_eq w D k hk]
    rw [h2]
    have hskip := sumTo_skip (fun c' => schurN w D c.val c' * scatterN k y c') (D.size - 1) k (by omega)
    rw [show D.size - 1 + 1 = D.size by omega] at hskip
    rw [hskip, hpk, mul_zero, zero_add]
    -- `c = up k i`
    obtain ⟨i, hi, hci⟩ : ∃ i, i < D.size - 1 ∧ Saddle.up k i = c.val := by
      by_cases hlt : c.val < k
      · exact ⟨c.val, by omega, by unfold Saddle.up; rw [if_pos hlt]⟩
      · exact ⟨c.val - 1, by have := c.isLt; omega, by unfold Saddle.up; rw [if_neg (by omega)]; omega⟩
    rw [← hci, ← rows i hi]
    apply sumTo_congr; intro j hj
    rw [scatterN_up]
  have := (Saddle.full_iff_pinned (wF_ne w hw) hDF ⟨k, hk⟩ (fun e => g e.val) hfF
    _ (fun c => scatterN k y c.val) 0).2 ⟨rfl, hP, rfl⟩
  convert this using 2
  rename_i e
  exact flux_entry w D k g f (scatterN k y) 0 0 e.val e.isLt


theorem vec_tabV (y : Vec) : y = tabV y.size (fun i => y.getD i 0) := by
  rw [vec_eq_iff _ _ y.size rfl (by simp)]
  intro i hi; rw [getD_tabV, if_pos hi]

theorem vec_cat2 (y : Vec) (nc : Nat) (hy : y.size = nc + 1) :
    y = tabV (nc + 1) (cat2 nc (fun i => y.getD i 0) (y.getD nc 0)) := by
  rw [vec_eq_iff _ _ (nc + 1) hy (by simp)]
  intro i hi; rw [getD_tabV, if_pos hi]
  unfold cat2
  by_cases h : i < nc
  · simp [h]
  · have : i = nc := by omega
    subst this; simp

theorem vec_cat3 (x : Vec) (nf nc : Nat) (hx : x.size = nf + nc + 1) :
    x = tabV (nf + nc + 1) (cat3 nf nc (fun i => x.getD i 0) (fun c => x.getD (nf + c) 0) (x.getD (nf + nc) 0)) := by
  rw [vec_eq_iff _ _ (nf + nc + 1) hx (by simp)]
  intro i hi; rw [getD_tabV, if_pos hi]
  unfold cat3
  by_cases h : i < nf
  · simp [h]
  · by_cases h2 : i < nf + nc
    · simp [h, h2, show nf + (i - nf) = i by omega]
    · have : i = nf + nc := by omega
      subst this; simp [h]

theorem getD_append (a b : Vec) (i : Nat) :
    (a ++ b).getD i 0 = if i < a.size then a.getD i 0 else b.getD (i - a.size) 0 := by
  simp only [Array.getD_eq_getD_getElem?, Array.getElem?_append]
  by_cases h : i < a.size <;> simp [h]

theorem append_cat3 (a y : Vec) (nf nc : Nat) (ha : a.size = nf) (hy : y.size = nc + 1) :
    a ++ y = tabV (nf + nc + 1) (cat3 nf nc (fun i => a.getD i 0) (fun c => y.getD c 0) (y.getD nc 0)) := by
  rw [vec_eq_iff _ _ (nf + nc + 1) (by simp [ha, hy]; omega) (by simp)]
  intro i hi
  rw [getD_tabV, if_pos hi, getD_append, ha]
  unfold cat3
  by_cases h : i < nf
  · simp [h]
  · by_cases h2 : i < nf + nc
    · simp [h, h2]
    · have : i = nf + nc := by omega
      subst this; simp [h]

/-- **flux-reduced branch, at the level of the arrays the driver handles**: if `y` solves the reduced system
built by `eliminateFlux`, the returned vector `fluxUpdateV … ++ y` solves the assembled full system. -/
theorem fluxReduced_branch_sound (hw : ∀ e, e < w.size → w.getD e 0 ≠ 0) (hk : k < D.size)
    (rhs y : Vec) (hr : rhs.size = w.size + D.size + 1) (hy : y.size = D.size + 1)
    (h : mulVec (eliminateFlux (assembleFull w D k) (assembleFull w D k) rhs w.size).1 y = (eliminateFlux (assembleFull w D k) (assembleFull w D k) rhs w.size).2.1) :
    mulVec (assembleFull w D k) (fluxUpdateV (assembleFull w D k) (assembleFull w D k) rhs y w.size ++ y) = rhs := by
  have e1 := vec_cat3 rhs w.size D.size hr
  have e2 := vec_cat2 y D.size hy
  rw [append_cat3 _ y w.size D.size (by simp [fluxUpdateV]) hy]
  have key := fluxReduced_sound w D k hw hk (fun i => y.getD i 0) (fun i => rhs.getD i 0)
    (fun c => rhs.getD (w.size + c) 0) (y.getD D.size 0) (rhs.getD (w.size + D.size) 0)
    (by rw [← e1, ← e2]; exact h)
  rw [← e1, ← e2] at key
  refine Eq.trans ?_ key
  congr 1
  apply (tabV_eq_iff _ _ _).2
  intro i hi
  unfold cat3
  by_cases hi1 : i < w.size
  · simp only [hi1, if_true, fluxUpdateV, getD_tabV]
  · simp only [hi1, if_false]


theorem scatter_eq (y : Vec) (nc : Nat) (hk : k < nc) :
    scatter y k nc = tabV (nc + 1) (cat2 nc (scatterN k fun i => y.getD i 0) 0) := by
  unfold scatter
  apply (tabV_eq_iff _ _ _).2
  intro c hc
  unfold cat2 scatterN
  by_cases h1 : c < k
  · simp [h1, show c < nc by omega]
  · by_cases h2 : c = k
    · simp [h2, hk]
    · by_cases h3 : c < nc <;> simp [h1, h2, h3]

/-- **pressure branch, at the level of the arrays the driver handles** -/
theorem pressure_branch_sound (hw : ∀ e, e < w.size → w.getD e 0 ≠ 0) (hk : k < D.size)
    (hD : ∀ e, e < w.size → sumTo D.size (fun c => D.get c e) = 0)
    (rhs y : Vec) (hr : rhs.size = w.size + D.size + 1)
    (hf : sumTo D.size (fun c => rhs.getD (w.size + c) 0) = 0) (hr0 : rhs.getD (w.size + D.size) 0 = 0)
    (h : mulVec (dropRowCol (eliminateFlux (assembleFull w D k) (assembleFull w D k) rhs w.size).1 k) y
          = dropVec (eliminateFlux (assembleFull w D k) (assembleFull w D k) rhs w.size).2.1 k)
    (hy : y.size = D.size - 1) :
    mulVec (assembleFull w D k)
        (fluxUpdateV (assembleFull w D k) (assembleFull w D k) rhs (scatter y k D.size) w.size ++ scatter y k D.size) = rhs := by
  have e1 := vec_cat3 rhs w.size D.size hr
  rw [hr0] at e1
  have e2 : y = tabV (D.size - 1) (fun i => y.getD i 0) := by
    have := vec_tabV y; rw [hy] at this; exact this
  have e3 := scatter_eq k y D.size hk
  have key := pressure_sound w D k hw hk hD (fun i => rhs.getD i 0) (fun c => rhs.getD (w.size + c) 0)
    (fun i => y.getD i 0) hf (by rw [← e1, ← e2]; exact h)
  rw [← e1, ← e3] at key
  refine Eq.trans ?_ key
  congr 1
  rw [append_cat3 _ _ w.size D.size (by simp [fluxUpdateV]) (by simp [scatter])]
  apply (tabV_eq_iff _ _ _).2
  intro i hi
  have hs : ∀ c, c ≤ D.size → (scatter y k D.size).getD c 0 = cat2 D.size (scatterN k fun i => y.getD i 0) 0 c := by
    intro c hc; rw [e3, getD_tabV, if_pos (by omega)]
  unfold cat3
  by_cases hi1 : i < w.size
  · simp only [hi1, if_true, fluxUpdateV, getD_tabV]
  · by_cases hi2 : i < w.size + D.size
    · simp only [hi1, hi2, if_true, if_false]
      rw [hs _ (by omega)]; unfold cat2; rw [if_pos (by omega)]
    · simp only [hi1, hi2, if_false]
      rw [hs _ (Nat.le_refl _)]; unfold cat2; rw [if_neg (Nat.lt_irrefl _)]

/-- the checked inner solve only returns vectors that solve the system it was given -/
theorem solveChecked_sound {M : Mat} {b y : Vec} (h : solveChecked M b = some y) : mulVec M y = b ∧ y.size = M.size := by
  unfold solveChecked at h
  cases hs : solveLin M b with
  | none => rw [hs] at h; cases h
  | some z =>
    rw [hs] at h
    simp only at h
    split at h
    · rename_i hc
      cases h
      exact ⟨hc.2, hc.1⟩
    · cases h

/-- **what the driver computes solves the original full system**: for every formulation, if the model's
`linearSolve` returns `x` (unconditionally in the inner solver, whose result the model checks; for the pressure branch: `1ᵀD = 0`, zero-mean source, zero last
right-hand-side entry) then `A x = rhs` for the assembled block matrix `A`. -/
theorem linearSolve_sound (form : Form)
    (hw : ∀ e, e < w.size → w.getD e 0 ≠ 0) (hk : k < D.size)
    (hD : ∀ e, e < w.size → sumTo D.size (fun c => D.get c e) = 0)
    (rhs x : Vec) (hr : rhs.size = w.size + D.size + 1)
    (hf : sumTo D.size (fun c => rhs.getD (w.size + c) 0) = 0) (hr0 : rhs.getD (w.size + D.size) 0 = 0)
    (h : linearSolve form (assembleFull w D k) (assembleFull w D k) rhs w.size k none = .ok x) :
    mulVec (assembleFull w D k) x = rhs := by
  unfold linearSolve at h
  cases form with
  | full =>
    simp only at h
    cases hs : solveChecked (assembleFull w D k) rhs with
    | none => rw [hs] at h; cases h
    | some y => rw [hs] at h; cases h; exact (solveChecked_sound hs).1
  | fluxReduced =>
    simp only at h
    cases hs : solveChecked (eliminateFlux (assembleFull w D k) (assembleFull w D k) rhs w.size).1
        (eliminateFlux (assembleFull w D k) (assembleFull w D k) rhs w.size).2.1 with
    | none => rw [hs] at h; cases h
    | some y =>
      rw [hs] at h; cases h
      obtain ⟨h1, h2⟩ := solveChecked_sound hs
      apply fluxReduced_branch_sound w D k hw hk rhs y hr _ h1
      rw [h2]; simp [eliminateFlux, A_size]; omega
  | pressure =>
    simp only [Bool.false_eq_true, if_false] at h
    have hlast : (eliminateFlux (assembleFull w D k) (assembleFull w D k) rhs w.size).2.1.getD
        ((eliminateFlux (assembleFull w D k) (assembleFull w D k) rhs w.size).1.size - 1) 0 = 0 := by
      have e1 := vec_cat3 rhs w.size D.size hr
      simp only [eliminateFlux, A_size, size_tab, show w.size + D.size + 1 - w.size = D.size + 1 by omega,
        Nat.add_sub_cancel]
      rw [getD_tabV, if_pos (by omega)]
      rw [e1, redRhs_entry w D k _ _ _ D.size (Nat.le_refl _), if_neg (Nat.lt_irrefl _)]
      exact hr0
    unfold eliminateMultiplier at h
    simp only [hlast] at h
    rw [if_neg (by norm_num)] at h
    simp only at h
    cases hs : solveChecked (dropRowCol (eliminateFlux (assembleFull w D k) (assembleFull w D k) rhs w.size).1 k)
        (dropVec (eliminateFlux (assembleFull w D k) (assembleFull w D k) rhs w.size).2.1 k) with
    | none => rw [hs] at h; cases h
    | some y =>
      rw [hs] at h; cases h
      obtain ⟨h1, h2⟩ := solveChecked_sound hs
      have hsz : (eliminateFlux (assembleFull w D k) (assembleFull w D k) rhs w.size).1.size - 1 = D.size := by
        simp [eliminateFlux, A_size]; omega
      rw [hsz]
      apply pressure_branch_sound w D k hw hk hD rhs y hr hf hr0 h1
      rw [h2]; simp [dropRowCol, eliminateFlux, A_size]; omega


/-- the concrete finite-volume divergence of a tensor grid (builder b's `divEntry`, C06) as a matrix of the model -/
def fvDiv (shape : List Nat) (h : List Rat) : Mat := tab (numCells shape) (numFaces shape) (divEntry shape h)

theorem fvDiv_size (shape : List Nat) (h : List Rat) : (fvDiv shape h).size = numCells shape := by simp [fvDiv]

theorem fvDiv_get (shape : List Nat) (h : List Rat) (c e : Nat) (hc : c < numCells shape) (he : e < numFaces shape) :
    (fvDiv shape h).get c e = divEntry shape h c e := by
  unfold fvDiv; rw [get_tab, if_pos ⟨hc, he⟩]

/-! ### the mass-balance row is the same in every iterate (C04: `hupd`) -/

/-- `jacobian(solution)`, `_update_regularization(flux)` and `darcy_init` assemble the same block matrix with different
flux-flux blocks only: every entry outside the flux-flux block is independent of the weights -/
theorem assemble_offdiag_independent (w w' : Vec) (hw : w'.size = w.size) (D : Mat) (k : Nat) (i j : Nat)
    (hij : w.size ≤ i ∨ w.size ≤ j) : fullEntry w' D k i j = fullEntry w D k i j := by
  unfold fullEntry
  rw [hw]
  rcases hij with h | h
  · have h1 : ¬ i < w.size := by omega
    simp only [h1, if_false]
  · have h2 : ¬ j < w.size := by omega
    by_cases h1 : i < w.size
    · simp only [h1, h2, if_true, if_false]
    · simp only [h1, if_false]

/-- the mass-balance row `nf + c` of the assembled matrix applied to `[u | p | lam]` is `D u − cᵀ lam`, whatever the
weights: it is the SAME matrix row in every Newton / Bregman iterate -/
theorem mass_row_same (w w' : Vec) (hw : w'.size = w.size) (D : Mat) (k : Nat) (u p : Nat → ℚ) (lam : ℚ) (c : Nat)
    (hc : c < D.size) :
    (mulVec (assembleFull w' D k) (tabV (w'.size + D.size + 1) (cat3 w'.size D.size u p lam))).getD (w'.size + c) 0
      = (mulVec (assembleFull w D k) (tabV (w.size + D.size + 1) (cat3 w.size D.size u p lam))).getD (w.size + c) 0 := by
  rw [full_row_mass w' D k u p lam c hc, full_row_mass w D k u p lam c hc, hw]

/-- **the hypothesis `hupd` of `newton_preserves_balance`, discharged from the model** (row form): if the update
`[du | dp | dlam]` solves the model's Newton system `J(w') δ = rhs − J(w') x` (`residual` as coded: right-hand side minus
the assembled operator applied to the iterate; `w'` = the face weights of this iterate, arbitrary), then its mass-balance
rows read `D du − cᵀ dlam = f − (D u − cᵀ lam)` -/
theorem newton_update_rows (w' : Vec) (D : Mat) (k : Nat) (u p du dp g f : Nat → ℚ) (lam dlam r : ℚ)
    (h : mulVec (assembleFull w' D k) (tabV (w'.size + D.size + 1) (cat3 w'.size D.size du dp dlam))
        = tabV (w'.size + D.size + 1) (fun i =>
            cat3 w'.size D.size g f r i -
              (mulVec (assembleFull w' D k) (tabV (w'.size + D.size + 1) (cat3 w'.size D.size u p lam))).getD i 0)) :
    ∀ c, c < D.size →
      sumTo w'.size (fun e => D.get c e * du e) - (if c = k then dlam else 0)
        = f c - (sumTo w'.size (fun e => D.get c e * u e) - (if c = k then lam else 0)) := by
  intro c hc
  have hrow := congrArg (fun v => v.getD (w'.size + c) 0) h
  beta_reduce at hrow
  rw [getD_tabV, if_pos (show w'.size + c < w'.size + D.size + 1 by omega),
    full_row_mass w' D k du dp dlam c hc, full_row_mass w' D k u p lam c hc,
    (cat3_getD w'.size D.size g f r).2.1 c hc] at hrow
  exact hrow

/-- the same in the abstract vocabulary of `Saddle.newton_preserves_balance` -/
theorem newton_update_hupd (w' : Vec) (D : Mat) (k : Nat) (hk : k < D.size) (u p du dp g f : Nat → ℚ) (lam dlam r : ℚ)
    (h : mulVec (assembleFull w' D k) (tabV (w'.size + D.size + 1) (cat3 w'.size D.size du dp dlam))
        = tabV (w'.size + D.size + 1) (fun i =>
            cat3 w'.size D.size g f r i -
              (mulVec (assembleFull w' D k) (tabV (w'.size + D.size + 1) (cat3 w'.size D.size u p lam))).getD i 0)) :
    ∀ c : Fin D.size,
      Saddle.div (DF w' D) (fun e => du e.val) c - Saddle.ind ⟨k, hk⟩ c dlam
        = f c.val - (Saddle.div (DF w' D) (fun e => u e.val) c - Saddle.ind ⟨k, hk⟩ c lam) := by
  intro c
  have hrow := newton_update_rows w' D k u p du dp g f lam dlam r h c.val c.isLt
  rw [sumTo_eq_sum, sumTo_eq_sum] at hrow
  unfold Saddle.div Saddle.ind DF
  simp only [Fin.ext_iff]
  exact hrow

/-- … hence every iterate of the model's Newton iteration (any number of steps, arbitrary weights in every step) is
mass-balanced: `newton_preserves_balance` with its hypothesis derived from the assembled systems -/
theorem newton_model_preserves_balance (D : Mat) (k : Nat) (nf : Nat) (ws : Nat → Vec)
    (hws : ∀ n, (ws n).size = nf) (g f : Nat → ℚ) (r : ℚ) (u du p dp : Nat → Nat → ℚ) (lam dlam : Nat → ℚ)
    (hu : ∀ n e, u (n + 1) e = u n e + du n e) (hl : ∀ n, lam (n + 1) = lam n + dlam n)
    (hstep : ∀ n, mulVec (assembleFull (ws n) D k) (tabV (nf + D.size + 1) (cat3 nf D.size (du n) (dp n) (dlam n)))
        = tabV (nf + D.size + 1) (fun i => cat3 nf D.size g f r i -
            (mulVec (assembleFull (ws n) D k) (tabV (nf + D.size + 1) (cat3 nf D.size (u n) (p n) (lam n)))).getD i 0)) :
    ∀ n c, c < D.size →
      sumTo nf (fun e => D.get c e * u (n + 1) e) - (if c = k then lam (n + 1) else 0) = f c := by
  intro n c hc
  have h := hstep n
  have hsz := hws n
  rw [← hsz] at h
  have hup := newton_update_rows (ws n) D k (u n) (p n) (du n) (dp n) g f (lam n) (dlam n) r h c hc
  rw [hsz] at hup
  rw [hl n, sumTo_congr (g := fun e => D.get c e * u n e + D.get c e * du n e)
    (fun e _ => by rw [hu n e]; ring), sumTo_add]
  by_cases hck : c = k
  · simp only [hck, if_true] at hup ⊢
    linarith
  · simp only [hck, if_false] at hup ⊢
    linarith

end Darsia.SaddleBridge
