/-
Axis vocabulary of `darsia/image/indexing.py` (C20, C01). The *tables* are generated
(DarsiaGen.IndexingTables) by evaluating the real functions on this finite vocabulary.
-/
import DarsiaModel.Basic
namespace Darsia

inductive Ax | x | y | z | i | j | k
  deriving DecidableEq, Repr, Inhabited
inductive Ind | x | xy | xyz | i | ij | ijk
  deriving DecidableEq, Repr, Inhabited
/-- spatial dimension 1, 2, 3 -/
inductive Dim | d1 | d2 | d3
  deriving DecidableEq, Repr, Inhabited
/-- an axis argument as the Python API accepts it: a name or an integer 0..2 -/
inductive AxArg | name (a : Ax) | idx (n : Fin 3)
  deriving DecidableEq, Repr

def Dim.toNat : Dim → Nat | .d1 => 1 | .d2 => 2 | .d3 => 3
def Dim.all : List Dim := [.d1, .d2, .d3]
def Dim.cart : Dim → Ind | .d1 => .x | .d2 => .xy | .d3 => .xyz
def Dim.mat : Dim → Ind | .d1 => .i | .d2 => .ij | .d3 => .ijk
/-- Cartesian axis names of a dimension, in order: "xyz"[:d] -/
def Dim.cartAxes : Dim → List Ax | .d1 => [.x] | .d2 => [.x, .y] | .d3 => [.x, .y, .z]
/-- matrix axis names of a dimension, in order: "ijk"[:d] -/
def Dim.matAxes : Dim → List Ax | .d1 => [.i] | .d2 => [.i, .j] | .d3 => [.i, .j, .k]

/-- position of a Cartesian name in "xyz" / of a matrix name in "ijk" -/
def Ax.pos : Ax → Nat | .x => 0 | .y => 1 | .z => 2 | .i => 0 | .j => 1 | .k => 2
def Ax.isCart : Ax → Bool | .x | .y | .z => true | _ => false
def Ax.all : List Ax := [.x, .y, .z, .i, .j, .k]
def matAx : Nat → Ax | 0 => .i | 1 => .j | _ => .k
def cartAx : Nat → Ax | 0 => .x | 1 => .y | _ => .z

def Ax.show : Ax → String | .x => "x" | .y => "y" | .z => "z" | .i => "i" | .j => "j" | .k => "k"
def Ax.parse : String → Option Ax
  | "x" => some .x | "y" => some .y | "z" => some .z
  | "i" => some .i | "j" => some .j | "k" => some .k | _ => none
def Dim.parse : String → Option Dim | "1" => some .d1 | "2" => some .d2 | "3" => some .d3 | _ => none

/-- A layout conversion described axis-wise: output axis `a` is input axis `src`, flipped or not. -/
abbrev LayoutSpec := List (Nat × Bool)

/-- index map of a layout conversion: output multi-index ↦ input multi-index,
for an *input* array of shape `shape`. -/
def LayoutSpec.pull (spec : LayoutSpec) (shape : List Nat) (out : List Nat) : List Nat :=
  (List.range shape.length).map fun v =>
    -- find the output axis a whose source is v
    match (spec.zipIdx).find? (fun p => p.1.1 == v) with
    | some ((_, flip), a) =>
      let c := listGetD out a 0
      if flip then listGetD shape v 0 - 1 - c else c
    | none => 0

/-- shape of the output array -/
def LayoutSpec.outShape (spec : LayoutSpec) (shape : List Nat) : List Nat :=
  spec.map fun p => listGetD shape p.1 0

end Darsia

namespace Darsia
def Ind.parse : String → Option Ind
  | "x" => some .x | "xy" => some .xy | "xyz" => some .xyz
  | "i" => some .i | "ij" => some .ij | "ijk" => some .ijk | _ => none
def AxArg.parse : String → Option AxArg
  | "0" => some (.idx 0) | "1" => some (.idx 1) | "2" => some (.idx 2)
  | s => (Ax.parse s).map .name
def showExcept {α} (f : α → String) : Except Err α → String
  | .ok a => f a
  | .error e => e.show
end Darsia
