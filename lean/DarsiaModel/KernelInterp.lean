/-
`KernelInterpolation` (src/darsia/signals/models/kernelinterpolation.py) as a state machine (C14).

The kernel function and the matrix inverse are abstract: the model records *which* kernel matrix the cached
inverse `Xinv` was assembled for (`cache` = kernel identifier and support list) and represents the interpolation
weights symbolically as `Xinv @ values` = `(cache key, values)`. Supports are exact points (the code rounds to
5 decimals and casts to float32; the tie uses coordinates for which both are the identity). Mirrors the code
after the `fix:` commit that invalidates the cached inverse when the kernel changes.
-/
import DarsiaModel.Basic
namespace Darsia.Kern

abbrev Pt := List Rat

/-- lexicographic `<` on coordinate lists (the row order of `np.unique(..., axis=0)`) -/
def ltLex : Pt → Pt → Bool
  | [], [] => false
  | [], _ :: _ => true
  | _ :: _, [] => false
  | a :: as, b :: bs => if a < b then true else if b < a then false else ltLex as bs

/-- insert a row with the index of its first occurrence into a strictly sorted list; equal rows are dropped -/
def insertRow (p : Pt) (i : Nat) : List (Pt × Nat) → List (Pt × Nat)
  | [] => [(p, i)]
  | (q, j) :: rest =>
    if p = q then (q, j) :: rest
    else if ltLex p q then (p, i) :: (q, j) :: rest
    else (q, j) :: insertRow p i rest

/-- `np.unique(supports, return_index=True, axis=0)`: sorted distinct rows with first-occurrence indices -/
def uniqueSortAux : List Pt → Nat → List (Pt × Nat) → List (Pt × Nat)
  | [], _, acc => acc
  | p :: ps, i, acc => uniqueSortAux ps (i + 1) (insertRow p i acc)

def uniqueSort (l : List Pt) : List (Pt × Nat) := uniqueSortAux l 0 []

/-- key of a kernel matrix: kernel identifier and the supports it was assembled for -/
abbrev Key := Nat × List Pt

structure KState where
  kernel : Nat
  supports : Option (List Pt)
  values : Option (List Rat)
  numSupports : Nat
  /-- `Xinv` exists and is the inverse of the kernel matrix with this key -/
  cache : Option Key
  /-- `interpolation_weights = Xinv(key) @ vals` -/
  weights : Option (Key × List Rat)
  deriving DecidableEq, Repr

inductive KOp
  /-- `update(kernel=…, supports=…, values=…, append=…)` -/
  | update (kernel : Option Nat) (supports : Option (List Pt)) (values : Option (List Rat)) (append : Bool)
  /-- `update_kernel(kernel)` -/
  | updateKernel (k : Nat)
  /-- `update_model_parameters(ps, ["values"])` = `update(values=ps[:num_supports])` -/
  | valuesParam (ps : List Rat)
  /-- `update_model_parameters(ps)` with the default `dofs=None`: `"supports" in None` raises TypeError (known finding) -/
  | paramsDefaultDofs
  /-- `update_model_parameters(ps, dofs)` with `"kernel"` among the dofs / `"all"`: `parameters[0]`, a number, becomes the
  kernel; with data present the kernel matrix is re-assembled at once and calling the number raises TypeError (known finding) -/
  | paramsKernelDof
  deriving DecidableEq, Repr

/-- `setup_kernel_problem` -/
def setup (st : KState) (S : List Pt) (V : List Rat) : Except Err KState :=
  if V.length ≠ st.numSupports then .error .assertion
  else
    let u := uniqueSort S
    let S' := u.map (·.1)
    .ok { st with supports := some S', numSupports := S'.length, values := some (u.map fun x => listGetD V x.2 0),
                  cache := some (st.kernel, S') }

/-- `if not hasattr(self, "Xinv"): self.setup_kernel_problem()` -/
def ensureCache (st : KState) (S : List Pt) (V : List Rat) : Except Err KState :=
  match st.cache with
  | some _ => .ok st
  | none => setup st S V

/-- `self.interpolation_weights = self.Xinv @ self.values` -/
def computeWeights (st : KState) : Except Err KState :=
  match st.cache, st.values with
  | some key, some vals =>
    if vals.length = key.2.length then .ok { st with weights := some (key, vals) } else .error .value
  | _, _ => .error .other

/-- `update_interpolation` (called only when supports and values are present) -/
def updateInterpolation (st : KState) (S : List Pt) (V : List Rat) : Except Err KState :=
  match ensureCache st S V with
  | .ok st1 => computeWeights st1
  | .error e => .error e

/-- recompute if data is there (the tail of `update`) -/
def refresh (st : KState) : Except Err KState :=
  match st.supports, st.values with
  | some S, some V => updateInterpolation st S V
  | _, _ => .ok st

/-- `update_kernel`: the kernel matrix depends on the kernel — drop the cached inverse and recompute -/
def setKernel (st : KState) (k : Nat) : Except Err KState :=
  match st.cache with
  | some _ => refresh { st with kernel := k, cache := none }
  | none => .ok { st with kernel := k }

/-- the `supports` assignment of `update` (drops the cached inverse) -/
def assignSupports (st : KState) (s? : Option (List Pt)) (append : Bool) : KState :=
  match s? with
  | some B =>
    let S := match st.supports with
      | some old => if append then old ++ B else B
      | none => B
    { st with supports := some S, numSupports := S.length, cache := none }
  | none => st

/-- the `values` assignment of `update` -/
def assignValues (st : KState) (v? : Option (List Rat)) (append : Bool) : KState :=
  match v? with
  | some v =>
    let V := match st.values with
      | some old => if append then old ++ v else v
      | none => v
    { st with values := some V }
  | none => st

def optKernel (st : KState) : Option Nat → Except Err KState
  | some k => setKernel st k
  | none => .ok st

def step (st : KState) : KOp → Except Err KState
  | .updateKernel k => setKernel st k
  | .valuesParam ps => refresh { st with values := some (ps.take st.numSupports) }
  | .paramsDefaultDofs => .error .type
  | .paramsKernelDof => match st.cache with
    | some _ => .error .type
    | none => .ok st  -- no data yet: the number is stored silently; the failure comes with the first evaluation (not modelled)
  | .update k? s? v? append =>
    match optKernel st k? with
    | .ok st1 => refresh (assignValues (assignSupports st1 s? append) v? append)
    | .error e => .error e

/-- the object after `KernelInterpolation(kernel)` (no data) -/
def init (k : Nat) : KState := ⟨k, none, none, 0, none, none⟩

def run (st : KState) : List KOp → Except Err KState
  | [] => .ok st
  | op :: ops => match step st op with
    | .ok st' => run st' ops
    | .error e => .error e

end Darsia.Kern

namespace Darsia.Kern

/-! ### `linear_combination` (the numba-accelerated kernels and `BaseKernel.linear_combination` share this loop) -/

/-- one pixel: `output = w[0]·k(x, s[0]); for n in 1..len(supports): output += w[n]·k(x, s[n])`; no supports → 0 -/
def kernelLoop {F : Type} [Add F] [Mul F] [OfNat F 0] (k : Pt → Pt → F) : List F → List Pt → Pt → F
  | w0 :: ws, s0 :: ss, x => (List.zip ws ss).foldl (fun acc p => acc + p.1 * k x p.2) (w0 * k x s0)
  | _, _, _ => 0

/-- the plain kernel sum `Σ_n w_n k(x, s_n)` -/
def plainSum {F : Type} [Add F] [Mul F] [OfNat F 0] (k : Pt → Pt → F) (ws : List F) (ss : List Pt) (x : Pt) : F :=
  ((List.zip ws ss).map fun p => p.1 * k x p.2).foldr (· + ·) 0

/-- `LinearKernel(a).__call__`: `Σ_c x_c y_c + a` -/
def linK (a : Rat) (x y : Pt) : Rat := (List.zipWith (· * ·) x y).foldr (· + ·) 0 + a

/-- the three signal shapes the accelerated kernels are compiled for -/
inductive Signal
  | pixel (x : Pt)                 -- (3,)
  | list (xs : List Pt)            -- (N, 3)
  | grid (rows : List (List Pt))   -- (H, W, 3)
  deriving Repr

/-- result of `linear_combination` on a signal, flattened row-major -/
def Signal.combine {F : Type} [Add F] [Mul F] [OfNat F 0] (k : Pt → Pt → F) (ws : List F) (ss : List Pt) : Signal → List F
  | .pixel x => [kernelLoop k ws ss x]
  | .list xs => xs.map (kernelLoop k ws ss)
  | .grid rows => (rows.map fun r => r.map (kernelLoop k ws ss)).flatten

def Signal.pixels : Signal → List Pt
  | .pixel x => [x]
  | .list xs => xs
  | .grid rows => rows.flatten

end Darsia.Kern
