/-
C18 — DarSIA's own dispatch / field logic around persistence (the serialisers np.savez, pickle,
cv2.imencode/imdecode, TIFF/PNG codecs are outside any model).

* image classes, keyword vocabulary of the constructors and of `metadata()`;
* `imread_from_bytes`: decoded array shape ↦ image kind;
* channel permutations of reading / writing optical images;
* file suffix ↦ reader.
The finite data (which keys a constructor consumes, which keys `metadata()` returns, which class the npz
reader builds, which reader a suffix selects, saved / loaded fields of the corrections) is generated from the
running code / its AST into `DarsiaGen.PersistTables`. Core Lean only.
-/
import DarsiaModel.Basic
namespace Darsia.Persist
open Darsia

inductive Cls | image | scalarImage | opticalImage | other
  deriving DecidableEq, Repr

def Cls.all : List Cls := [.image, .scalarImage, .opticalImage]

def Cls.show : Cls → String
  | .image => "Image" | .scalarImage => "ScalarImage" | .opticalImage => "OpticalImage" | .other => "other"

/-- keyword vocabulary of the image constructors / `metadata()` (unknown keys are numbered) -/
inductive Key
  | space_dim | indexing | dimensions | name | height | width | depth | origin | series | date
  | reference_date | time | scalar | color_space | other (n : Nat)
  deriving DecidableEq, Repr

/-- `height`, `width`, `depth` are written into `dimensions` by the constructor: they are persisted as `dimensions` -/
def Key.canon : Key → Key
  | .height | .width | .depth => .dimensions
  | k => k

/-- shape of the array `cv2.imdecode(..., IMREAD_UNCHANGED)` returns -/
inductive Decoded | gray | chan (n : Nat)
  deriving DecidableEq, Repr

/-- `imread_from_bytes`: 2-D → scalar image; (h, w, 3) → optical image (after BGR→RGB); (h, w, 1) → scalar image
of the single channel; anything else is rejected -/
def kindRule : Decoded → Except Err Cls
  | .gray => .ok .scalarImage
  | .chan 3 => .ok .opticalImage
  | .chan 1 => .ok .scalarImage
  | .chan _ => .error .notImpl

/-- apply a channel permutation: output channel `i` is input channel `p[i]` -/
def permute {α} [Inhabited α] (p : List Nat) (xs : List α) : List α := p.map fun i => xs.getD i default

/-- readers of `darsia.imread` -/
inductive Reader | numpy | npz | optical | dicom | vtu
  deriving DecidableEq, Repr

def Reader.show : Reader → String
  | .numpy => "imread_from_numpy" | .npz => "imread_from_npz" | .optical => "imread_from_optical"
  | .dicom => "imread_from_dicom" | .vtu => "imread_from_vtu"

inductive Suffix | npy | npz | jpg | jpeg | png | tif | tiff | dcm | vtu | txt | JPG | PNG
  deriving DecidableEq, Repr

def Suffix.all : List Suffix := [.npy, .npz, .jpg, .jpeg, .png, .tif, .tiff, .dcm, .vtu, .txt, .JPG, .PNG]
/-- the suffixes the module docstring documents -/
def Suffix.documented : List Suffix := [.npy, .npz, .jpg, .jpeg, .png, .tif, .tiff, .dcm, .vtu]
/-- lossless / lossy raster formats `OpticalImage.write` produces -/
def Suffix.optical : List Suffix := [.jpg, .jpeg, .png, .tif, .tiff, .JPG, .PNG]

end Darsia.Persist
