/-
C18 — DarSIA's own dispatch / field logic around persistence (the serialisers np.savez, pickle,
cv2.imencode/imdecode, TIFF/PNG codecs are outside any model).

* image classes, keyword vocabulary of the constructors and of `metadata()`;
* `imread_from_bytes`: decoded array shape ↦ image kind;
* channel permutations of reading / writing optical images;
* file suffix ↦ reader.
The finite data (which keys a constructor consumes, which keys `metadata()` returns, which class the npz
reader builds, which reader a suffix selects, saved / loaded fields of the corrections) is generated from the
running code / its AST into `DarsiaGen.PersistTables`. Core Lean only.
-/
import DarsiaModel.Basic
namespace Darsia.Persist
open Darsia

inductive Cls | image | scalarImage | opticalImage | other
  deriving DecidableEq, Repr

def Cls.all : List Cls := [.image, .scalarImage, .opticalImage]

def Cls.show : Cls → String
  | .image => "Image" | .scalarImage => "ScalarImage" | .opticalImage => "OpticalImage" | .other => "other"

/-- keyword vocabulary of the image constructors / `metadata()` (unknown keys are numbered) -/
inductive Key
  | space_dim | indexing | dimensions | name | height | width | depth | origin | series | date
  | reference_date | time | scalar | color_space | other (n : Nat)
  deriving DecidableEq, Repr

/-- `height`, `width`, `depth` are written into `dimensions` by the constructor: they are persisted as `dimensions` -/
def Key.canon : Key → Key
  | .height | .width | .depth => .dimensions
  | k => k

/-- shape of the array `cv2.imdecode(..., IMREAD_UNCHANGED)` returns -/
inductive Decoded | gray | chan (n : Nat)
  deriving DecidableEq, Repr

/-- `imread_from_bytes`: 2-D → scalar image; (h, w, 3) → optical image (after BGR→RGB); (h, w, 1) → scalar image
of the single channel; anything else is rejected -/
def kindRule : Decoded → Except Err Cls
  | .gray => .ok .scalarImage
  | .chan 3 => .ok .opticalImage
  | .chan 1 => .ok .scalarImage
  | .chan _ => .error .notImpl

/-- apply a channel permutation: output channel `i` is input channel `p[i]` -/
def permute {α} [Inhabited α] (p : List Nat) (xs : List α) : List α := p.map fun i => xs.getD i default

/-- readers of `darsia.imread` -/
inductive Reader | numpy | npz | optical | dicom | vtu
  deriving DecidableEq, Repr

def Reader.show : Reader → String
  | .numpy => "imread_from_numpy" | .npz => "imread_from_npz" | .optical => "imread_from_optical"
  | .dicom => "imread_from_dicom" | .vtu => "imread_from_vtu"

inductive Suffix | npy | npz | jpg | jpeg | png | tif | tiff | dcm | vtu | txt | JPG | PNG
  deriving DecidableEq, Repr

def Suffix.all : List Suffix := [.npy, .npz, .jpg, .jpeg, .png, .tif, .tiff, .dcm, .vtu, .txt, .JPG, .PNG]
/-- the suffixes the module docstring documents -/
def Suffix.documented : List Suffix := [.npy, .npz, .jpg, .jpeg, .png, .tif, .tiff, .dcm, .vtu]
/-- lossless / lossy raster formats `OpticalImage.write` produces -/
def Suffix.optical : List Suffix := [.jpg, .jpeg, .png, .tif, .tiff, .JPG, .PNG]

end Darsia.Persist

namespace Darsia.Persist

/-! ### metadata round trip: `Image.save` → npz → `imread_from_npz` → constructor → `metadata()`

Values are abstract (`V`): what `np.savez` / pickle do to a value is the external contract — here the identity.
`Sem V` carries the constants and the value-level helpers the constructors use. -/

structure Sem (V : Type) where
  none : V
  two : V
  ij : V
  tru : V
  fls : V
  rgb : V
  isNone : V → Bool
  truthy : V → Bool
  /-- `str.upper` on the colour space -/
  up : V → V
  /-- `"ijk"[:space_dim]` -/
  defaultIndexing : V → V
  /-- `space_dim * [1]` -/
  defaultDims : V → V
  /-- `dimensions` after writing `height` / `width` / `depth` into the copy -/
  applyHWD : V → Option V → Option V → Option V → V
  /-- default origin from space_dim, indexing, dimensions -/
  defaultOrigin : V → V → V → V
  /-- `time_num * [None]` for series, else `None` -/
  defaultDate : V → V
  /-- `date[0]` of a list, else `date` -/
  defaultRef : V → V
  /-- `set_time(None)`: relative times from series flag, dates, reference date -/
  deriveTime : V → V → V → V

/-- keyword arguments -/
abbrev Kw (V : Type) := Key → Option V

def Kw.set {V} (kw : Kw V) (k : Key) (v : V) : Kw V := fun k' => if k' = k then some v else kw k'
def Kw.erase {V} (kw : Kw V) (k : Key) : Kw V := fun k' => if k' = k then Option.none else kw k'

/-- attributes (those that `metadata()` reports) set by `Image.__init__(img, **kw)` -/
def constructBase {V} (S : Sem V) (kw : Kw V) : Key → V :=
  let spaceDim := (kw .space_dim).getD S.two
  let indexing := (kw .indexing).getD (S.defaultIndexing spaceDim)
  let dims := S.applyHWD ((kw .dimensions).getD (S.defaultDims spaceDim)) (kw .height) (kw .width) (kw .depth)
  let series := (kw .series).getD S.fls
  let date := (kw .date).getD (S.defaultDate series)
  let ref := (kw .reference_date).getD (S.defaultRef date)
  let t := (kw .time).getD S.none
  fun
    | .space_dim => spaceDim
    | .indexing => indexing
    | .dimensions => dims
    | .name => (kw .name).getD S.none
    | .origin => (kw .origin).getD (S.defaultOrigin spaceDim indexing dims)
    | .series => series
    | .scalar => (kw .scalar).getD S.fls
    | .date => date
    | .reference_date => ref
    | .time => if S.isNone t then S.deriveTime series date ref else t
    | _ => S.none

/-- the three constructors: `ScalarImage` forces `scalar=True`; `OpticalImage` forces `space_dim=2`, `indexing="ij"`,
`scalar=False` and stores `color_space.upper()` (default `"RGB"`) -/
def construct {V} (S : Sem V) : Cls → Kw V → Key → V
  | .scalarImage, kw => constructBase S (kw.set .scalar S.tru)
  | .opticalImage, kw =>
    let a := constructBase S (((kw.set .space_dim S.two).set .indexing S.ij).set .scalar S.fls)
    fun k => if k = .color_space then S.up ((kw .color_space).getD S.rgb) else a k
  | _, kw => constructBase S kw

/-- the keywords a subclass constructor overrides (in `construct`: `Kw.set`); in the code they are `kwargs.pop`ped and
replaced before delegating to `Image.__init__` -/
def forcedKeys : Cls → List Key
  | .scalarImage => [.scalar]
  | .opticalImage => [.space_dim, .indexing, .scalar]
  | _ => []

/-- `metadata()`: the attributes under the keys of the class (key list: generated) -/
def metadataOf {V} (keys : Cls → List Key) (c : Cls) (a : Key → V) : Kw V :=
  fun k => if k ∈ keys c then some (a k) else Option.none

/-- `imread_from_npz` (fixed code): the class is decided by the stored dictionary -/
def npzDispatch (hasColorSpace scalarFlag : Bool) : Cls :=
  if hasColorSpace then .opticalImage else if scalarFlag then .scalarImage else .image

/-- `imread(path)` after `img.save(path)` on the metadata level (pickle = identity on values) -/
def reload {V} (S : Sem V) (md : Kw V) : Cls × (Key → V) :=
  let c := npzDispatch (md .color_space).isSome (S.truthy ((md .scalar).getD S.fls))
  (c, construct S c md)

/-- what every constructed image satisfies (and the round trip relies on) -/
structure Inv {V} (S : Sem V) (c : Cls) (a : Key → V) : Prop where
  time : S.isNone (a .time) = true → S.deriveTime (a .series) (a .date) (a .reference_date) = a .time
  /-- the `scalar` flag is a bool -/
  scalarBool : a .scalar = S.tru ∨ a .scalar = S.fls
  scalarCls : c = .scalarImage → a .scalar = S.tru
  optical : c = .opticalImage →
    a .scalar = S.fls ∧ a .space_dim = S.two ∧ a .indexing = S.ij ∧ S.up (a .color_space) = a .color_space

/-- well-behaved value helpers -/
structure Sem.OK {V} (S : Sem V) : Prop where
  truthy_tru : S.truthy S.tru = true
  truthy_fls : S.truthy S.fls = false
  up_idem : ∀ v, S.up (S.up v) = S.up v
  hwd_none : ∀ d, S.applyHWD d Option.none Option.none Option.none = d

end Darsia.Persist

namespace Darsia.Persist

/-! ### the savable corrections: state, `save`, `load` (incl. `_init_from_config`), on abstract values

`V` = values (arrays, numbers, strings, slices, …); np.savez / pickle are taken to return each stored value
unchanged (external contract). For each class: the attributes `correct_array` depends on, what `save` writes and
from which attribute, how `load` rebuilds the state (the generic reader first runs the constructor without
arguments, then `load`). Memoisation caches (CurvatureCorrection.cache / use_cache / cache_path: the sampling grid,
a function of `config` and the image shape) are not part of the output-relevant state. -/

structure CSem (V : Type) where
  tru : V
  zero : V
  one : V
  fls : V
  affine : V
  darsia : V
  /-- `isinstance(roi, tuple)` -/
  isTuple : V → Bool
  /-- `darsia.bounding_box(np.array(roi), padding=…, max_size=base.shape[:2])` -/
  bbox : V → V → V → V
  /-- `darsia.make_voxel(roi)` -/
  makeVoxel : V → V

/-! TypeCorrection -/
structure TypeState (V : Type) where
  dataType : V
structure TypeFile (V : Type) where
  data_type : V
def TypeState.save {V} (s : TypeState V) : TypeFile V := ⟨s.dataType⟩
def TypeFile.load {V} (f : TypeFile V) : TypeState V := ⟨f.data_type⟩

/-! DriftCorrection: `save` writes `base` and `return_config()` = {active, padding, roi}; `load` reads `base` and runs
`_init_from_config(config)` (roi: kept if it is a tuple of slices, else its bounding box) -/
structure DriftState (V : Type) where
  base : V
  active : V
  padding : V
  roi : Option V
structure DriftFile (V : Type) where
  base : V
  cfgActive : Option V
  cfgPadding : Option V
  cfgRoi : Option V
def DriftState.save {V} (s : DriftState V) : DriftFile V := ⟨s.base, some s.active, some s.padding, s.roi⟩
def DriftFile.load {V} (S : CSem V) (f : DriftFile V) : DriftState V :=
  let padding := f.cfgPadding.getD S.zero
  { base := f.base, active := f.cfgActive.getD S.tru, padding := padding,
    roi := f.cfgRoi.map fun r => if S.isTuple r then r else S.bbox r padding f.base }
/-- after `_init_from_config` the ROI is `None` or a tuple of slices -/
def DriftState.Inv {V} (S : CSem V) (s : DriftState V) : Prop := ∀ r, s.roi = some r → S.isTuple r = true

/-! CurvatureCorrection (fixed code): `config`, the memoised grid and the interpolation order -/
structure CurvState (V : Type) where
  config : V
  interpolationOrder : V
structure CurvFile (V : Type) where
  config : V
  interpolation_order : Option V
def CurvState.save {V} (s : CurvState V) : CurvFile V := ⟨s.config, some s.interpolationOrder⟩
/-- `read_correction` constructs `CurvatureCorrection()` (interpolation order 1), then `load` -/
def CurvFile.load {V} (S : CSem V) (f : CurvFile V) : CurvState V :=
  { config := f.config, interpolationOrder := f.interpolation_order.getD S.one }
/-- the code before the fix did not store the interpolation order -/
def CurvState.saveBefore {V} (s : CurvState V) : CurvFile V := ⟨s.config, none⟩

/-! IlluminationCorrection: `config = {colorspace, local_scaling}` -/
structure IllumState (V : Type) where
  colorspace : V
  localScaling : V
structure IllumFile (V : Type) where
  cfgColorspace : V
  cfgLocalScaling : V
def IllumState.save {V} (s : IllumState V) : IllumFile V := ⟨s.colorspace, s.localScaling⟩
def IllumFile.load {V} (f : IllumFile V) : IllumState V := ⟨f.cfgColorspace, f.cfgLocalScaling⟩

/-! ColorCorrection: `save` writes the reference swatches of the colour checker and `config`; `load` builds a
`CustomColorChecker(reference_colors=base)` and runs `_init_from_config`, which derives every other attribute -/
structure ColorCfg (V : Type) where
  roi : V
  active : Option V
  whitebalancing : Option V
  colorbalancing : Option V
  balancing : Option V
  clip : Option V
structure ColorState (V : Type) where
  config : ColorCfg V
  swatches : V
  active : V
  whitebalancing : V
  colorbalancing : V
  balancing : V
  clip : V
  roi : V
structure ColorFile (V : Type) where
  base : V
  config : ColorCfg V
/-- `_init_from_config` -/
def ColorState.ofConfig {V} (S : CSem V) (cfg : ColorCfg V) (swatches : V) : ColorState V :=
  { config := cfg, swatches := swatches, active := cfg.active.getD S.tru, whitebalancing := cfg.whitebalancing.getD S.tru,
    colorbalancing := cfg.colorbalancing.getD S.affine, balancing := cfg.balancing.getD S.darsia,
    clip := cfg.clip.getD S.fls, roi := S.makeVoxel cfg.roi }
def ColorState.save {V} (s : ColorState V) : ColorFile V := ⟨s.swatches, s.config⟩
def ColorFile.load {V} (S : CSem V) (f : ColorFile V) : ColorState V := ColorState.ofConfig S f.config f.base

end Darsia.Persist

namespace Darsia.Persist

/-! ### CurvatureCorrection with its persisted grid cache

`save` also writes `cache` (the precomputed sampling grid together with the input shape it was computed for) and `load`
restores it. `correct_array` reuses the cached grid only for an input of that very shape and otherwise recomputes it
from `config` (in-memory path; the on-disk cache of `use_cache` is the same memoisation, not modelled). -/

structure CurvSem (V : Type) where
  one : V
  /-- `_precompute_transformed_coordinates`: the sampling grid, a function of the configuration and the input shape -/
  grid : V → V → V

structure CurvStateC (V : Type) where
  config : V
  interpolationOrder : V
  /-- `(input_shape, grid)` once a grid has been computed -/
  cache : Option (V × V)

structure CurvFileC (V : Type) where
  config : V
  interpolation_order : Option V
  cache : Option (V × V)

def CurvStateC.save {V} (s : CurvStateC V) : CurvFileC V := ⟨s.config, some s.interpolationOrder, s.cache⟩
def CurvFileC.load {V} (S : CurvSem V) (f : CurvFileC V) : CurvStateC V :=
  { config := f.config, interpolationOrder := f.interpolation_order.getD S.one, cache := f.cache }

/-- the grid `correct_array` samples with for an input of shape `sh`, and the state afterwards -/
def CurvStateC.apply {V} [DecidableEq V] (S : CurvSem V) (s : CurvStateC V) (sh : V) : V × CurvStateC V :=
  match s.cache with
  | some (sh0, g) => if sh0 = sh then (g, s) else (S.grid s.config sh, { s with cache := some (sh, S.grid s.config sh) })
  | none => (S.grid s.config sh, { s with cache := some (sh, S.grid s.config sh) })

/-- the cache holds the grid of the object's OWN configuration -/
def CurvStateC.CacheOK {V} (S : CurvSem V) (s : CurvStateC V) : Prop :=
  ∀ sh g, s.cache = some (sh, g) → g = S.grid s.config sh

/-- a `load` that changes the configuration after restoring the cache (the double `_adapt_config` regression) -/
def CurvFileC.loadAdapting {V} (S : CurvSem V) (adapt : V → V) (f : CurvFileC V) : CurvStateC V :=
  { config := adapt f.config, interpolationOrder := f.interpolation_order.getD S.one, cache := f.cache }

end Darsia.Persist
