/-
Model of `darsia.AndersonAcceleration.__call__` (src/darsia/utils/andersonacceleration.py, C04):

    inner = iteration % restart  (or iteration);  if inner == 0: reset()            (F, G := 0)
    mk = min(inner, depth)
    if mk > 0:  col = (iteration - 1) % depth
                F[:, col] = fk - fkm1 ;  G[:, col] = gk - gkm1
                gamma = lstsq(F[:, :mk], fk)                                          (abstract solve: a parameter)
                xkp1 = gk - G[:, :mk] @ gamma
    else:       xkp1 = gk
    fkm1, gkm1 = fk, gk

Vectors are functions `Nat → Rat` (the dimension is whatever the caller uses); the least-squares solve is a parameter
returning the weights. Core Lean only.
-/
import DarsiaModel.Grid
namespace Darsia.Anderson
open Darsia

abbrev V := Nat → Rat

def zeroV : V := fun _ => 0
def vsub (a b : V) : V := fun i => a i - b i

/-- `g - cols[:, :] @ γ` (columns and weights paired up; surplus entries of the longer list are ignored) -/
def mix (g : V) : List V → List Rat → V
  | c :: cs, y :: ys => mix (fun i => g i - c i * y) cs ys
  | _, _ => g

structure St where
  F : List V
  G : List V
  fkm1 : V
  gkm1 : V

def reset (depth : Nat) : St :=
  { F := List.replicate depth zeroV, G := List.replicate depth zeroV, fkm1 := zeroV, gkm1 := zeroV }

def inner (restart : Option Nat) (iteration : Nat) : Nat :=
  match restart with
  | some r => iteration % r
  | none => iteration

/-- one call; `lstsq F fk` returns the weights `gamma` -/
def call (depth : Nat) (restart : Option Nat) (lstsq : List V → V → List Rat) (st : St) (gk fk : V)
    (iteration : Nat) : V × St :=
  let st := if inner restart iteration = 0 then reset depth else st
  let mk := min (inner restart iteration) depth
  if 0 < mk then
    let col := (iteration - 1) % depth
    let F := st.F.set col (vsub fk st.fkm1)
    let G := st.G.set col (vsub gk st.gkm1)
    let gamma := lstsq (F.take mk) fk
    (mix gk (G.take mk) gamma, { F := F, G := G, fkm1 := fk, gkm1 := gk })
  else (gk, { st with fkm1 := fk, gkm1 := gk })

/-! ### the column filter of the least-squares problem

Since `fix: AndersonAcceleration leaves out difference columns that vanish relative to the current increment`:

    Fk = F[:, :mk];  active = norm(Fk, axis=0) > 1e-10 * norm(fk)
    gamma = zeros(mk);  if any(active): gamma[active] = lstsq(Fk[:, active], fk)

i.e. `call` with the least-squares routine wrapped by `filteredLstsq` (the interface of `call` is unchanged). The norm test is
evaluated exactly on squares over the first `dim` entries. -/

def normSq (dim : Nat) (v : V) : Rat := sumTo dim fun i => v i * v i

/-- `norm(col) > 1e-10 * norm(fk)` -/
def isActive (dim : Nat) (fk col : V) : Bool := decide (normSq dim col > (1 / 100000000000000000000 : Rat) * normSq dim fk)

/-- `gamma = zeros(mk); gamma[active] = g` -/
def scatter : List Bool → List Rat → List Rat
  | [], _ => []
  | true :: m, g :: gs => g :: scatter m gs
  | true :: m, [] => 0 :: scatter m []
  | false :: m, gs => 0 :: scatter m gs

def filteredLstsq (dim : Nat) (lstsq : List V → V → List Rat) (F : List V) (fk : V) : List Rat :=
  let mask := F.map (isActive dim fk)
  if mask.any id then scatter mask (lstsq ((F.zip mask).filterMap fun p => if p.2 then some p.1 else none) fk)
  else mask.map fun _ => 0

/-- `AndersonAcceleration.__call__` as it is now -/
def callFiltered (dim depth : Nat) (restart : Option Nat) (lstsq : List V → V → List Rat) (st : St) (gk fk : V)
    (iteration : Nat) : V × St :=
  call depth restart (filteredLstsq dim lstsq) st gk fk iteration

end Darsia.Anderson
