/-
C10 (round 4) — the remaining corrections whose own arithmetic is DarSIA's:

* CurvatureCorrection: `_transform_coordinates` (bulge / stretch polynomial about the rounded image centre), the stage
  pipeline of `_precompute_transformed_coordinates` (init → crop → bulge → stretch applied to the pixel-coordinate fields X
  and Y by RESAMPLING them), `_transform_image`, `_adapt_config` (resize_factor), and the grid cache as state.
  `scipy.ndimage.map_coordinates` is a parameter (`interp`), `extract_quadrilateral_ROI` (OpenCV perspective crop) too.
* IlluminationCorrection.correct_array: per-channel multiplication with a scaling image, channel choice by colour space,
  truncating store into integer images.
* DriftCorrection (active): the estimated translation is a parameter; result = `cv2.warpAffine` onto the BASE canvas
  (whole-pixel estimates: zero-filled shift), ValueError when no translation was found.
-/
import DarsiaModel.Corrections
namespace Darsia.Corrections
open Darsia.Affine Darsia.Warp

/-! ### curvature -/

/-- one `init` / `bulge` / `stretch` entry of the config (all six keys are read by `_transform_coordinates`) -/
structure BS where
  hb : Rat    -- horizontal_bulge
  hs : Rat    -- horizontal_stretch
  hoff : Rat  -- horizontal_center_offset
  vb : Rat    -- vertical_bulge
  vs : Rat    -- vertical_stretch
  voff : Rat  -- vertical_center_offset
  deriving DecidableEq, Repr

/-- image centre in pixels: Python `round(N / 2) + offset` (round half to even) -/
def centre (N : Nat) (off : Rat) : Rat := ((rintRat ((N : Rat) / 2) : Int) : Rat) + off

/-- `_transform_coordinates` at pixel (column x, row y) of an Ny × Nx array -/
def transformCoords (c : BS) (Nx Ny : Nat) (x y : Rat) : Rat × Rat :=
  let cx := centre Nx c.hoff
  let cy := centre Ny c.voff
  let X := x - cx
  let Y := y - cy
  let maxX := (Nx : Rat) - 1 - cx
  let minX := 0 - cx
  let maxY := (Ny : Rat) - 1 - cy
  let minY := 0 - cy
  (X + c.hb * (X * ((maxY - Y) * (Y - minY))) + c.hs * X * (maxX - X) * (X - minX) + cx,
   Y + c.vb * (Y * ((maxX - X) * (X - minX))) + c.vs * Y * (maxY - Y) * (Y - minY) + cy)

/-- interpolation routine: array, (row, column) ↦ value -/
abbrev Interp := Arr2 Rat → Rat → Rat → Rat

/-- `simple_curvature_correction(field, **entry)`: resample the field on the transformed grid -/
def stageBS (interp : Interp) (c : BS) (F : Arr2 Rat) : Arr2 Rat :=
  ⟨F.n0, F.n1, fun i j =>
    let p := transformCoords c F.n1 F.n0 (j : Rat) (i : Rat)
    interp F p.2 p.1⟩

structure CurvCfg where
  init : Option BS
  crop : Bool
  bulge : Option BS
  stretch : Option BS

def optStage (interp : Interp) (o : Option BS) (F : Arr2 Rat) : Arr2 Rat :=
  match o with | some c => stageBS interp c F | none => F

/-- the stage pipeline applied to one coordinate field, in the only order the code uses -/
def curvField (interp : Interp) (crop : Arr2 Rat → Arr2 Rat) (cfg : CurvCfg) (F : Arr2 Rat) : Arr2 Rat :=
  let F1 := optStage interp cfg.init F
  let F2 := if cfg.crop then crop F1 else F1
  let F3 := optStage interp cfg.bulge F2
  optStage interp cfg.stretch F3

/-- `_precompute_transformed_coordinates`: the (row, column) source position of every output pixel, for an n0 × n1 input -/
def curvGrid (interp : Interp) (crop : Arr2 Rat → Arr2 Rat) (cfg : CurvCfg) (n0 n1 : Nat) : Arr2 Rat × Arr2 Rat :=
  (curvField interp crop cfg ⟨n0, n1, fun i _ => (i : Rat)⟩, curvField interp crop cfg ⟨n0, n1, fun _ j => (j : Rat)⟩)

/-- `_transform_image` with a given grid (one channel) -/
def curvApply (interp : Interp) (grid : Arr2 Rat × Arr2 Rat) (a : Arr2 Rat) : Arr2 Rat :=
  ⟨grid.2.n0, grid.2.n1, fun i j => interp a (grid.1.get i j) (grid.2.get i j)⟩

/-- `correct_array` of a fresh CurvatureCorrection -/
def curvCorr (interp : Interp) (crop : Arr2 Rat → Arr2 Rat) (cfg : CurvCfg) (a : Arr2 Rat) : Arr2 Rat :=
  curvApply interp (curvGrid interp crop cfg a.n0 a.n1) a

/-- the in-memory cache: input shape and grid; the grid is recomputed when the input shape differs (code after the
round-4 fix) -/
abbrev CurvCache := Nat × Nat × (Arr2 Rat × Arr2 Rat)

def curvStep (interp : Interp) (crop : Arr2 Rat → Arr2 Rat) (cfg : CurvCfg)
    (st : Option CurvCache) (a : Arr2 Rat) : Option CurvCache × Arr2 Rat :=
  let g := match st with
    | some (m0, m1, g) => if m0 = a.n0 ∧ m1 = a.n1 then g else curvGrid interp crop cfg a.n0 a.n1
    | none => curvGrid interp crop cfg a.n0 a.n1
  (some (a.n0, a.n1, g), curvApply interp g a)

def curvRun (interp : Interp) (crop : Arr2 Rat → Arr2 Rat) (cfg : CurvCfg) :
    Option CurvCache → List (Arr2 Rat) → Arr2 Rat → Arr2 Rat
  | st, [], a => (curvStep interp crop cfg st a).2
  | st, h :: hs, a => curvRun interp crop cfg (curvStep interp crop cfg st h).1 hs a

/-- `use_cache = True`: the grid is additionally kept in a FILE shared by every object with the same `cache` path. State =
(in-memory cache of the current object, file content); `fresh` = the call is made on a newly constructed object. The file
is read once per object, and a cache for another input shape (memory or file) is recomputed and rewritten. -/
def memAfterLoad (st : Option CurvCache × Option CurvCache) (fresh : Bool) : Option CurvCache :=
  match (if fresh then none else st.1) with | none => st.2 | some c => some c

def curvStepFile (interp : Interp) (crop : Arr2 Rat → Arr2 Rat) (cfg : CurvCfg)
    (st : Option CurvCache × Option CurvCache) (fresh : Bool) (a : Arr2 Rat) :
    (Option CurvCache × Option CurvCache) × Arr2 Rat :=
  let mem1 := memAfterLoad st fresh
  match mem1 with
  | some (m0, m1, g) =>
    if m0 = a.n0 ∧ m1 = a.n1 then ((mem1, st.2), curvApply interp g a)
    else
      let g' := curvGrid interp crop cfg a.n0 a.n1
      ((some (a.n0, a.n1, g'), some (a.n0, a.n1, g')), curvApply interp g' a)
  | none =>
    let g' := curvGrid interp crop cfg a.n0 a.n1
    ((some (a.n0, a.n1, g'), some (a.n0, a.n1, g')), curvApply interp g' a)

def curvRunFile (interp : Interp) (crop : Arr2 Rat → Arr2 Rat) (cfg : CurvCfg) :
    (Option CurvCache × Option CurvCache) → List (Bool × Arr2 Rat) → Bool → Arr2 Rat → Arr2 Rat
  | st, [], fresh, a => (curvStepFile interp crop cfg st fresh a).2
  | st, (f, h) :: hs, fresh, a => curvRunFile interp crop cfg (curvStepFile interp crop cfg st f h).1 hs fresh a

/-- the tree before the fix: the grid of the FIRST array is re-used whatever the shape of later arrays -/
def curvStepOld (interp : Interp) (crop : Arr2 Rat → Arr2 Rat) (cfg : CurvCfg)
    (st : Option (Arr2 Rat × Arr2 Rat)) (a : Arr2 Rat) : Option (Arr2 Rat × Arr2 Rat) × Arr2 Rat :=
  let g := match st with | some g => g | none => curvGrid interp crop cfg a.n0 a.n1
  (some g, curvApply interp g a)

/-- `_adapt_config` for resize_factor f: `init` / `bulge` entries scale the bulges and offsets, the `stretch` entry scales the
stretches and offsets -/
def adaptBulge (f : Rat) (c : BS) : BS := { c with hb := c.hb * f, vb := c.vb * f, hoff := c.hoff * f, voff := c.voff * f }
def adaptStretch (f : Rat) (c : BS) : BS := { c with hs := c.hs * f, vs := c.vs * f, hoff := c.hoff * f, voff := c.voff * f }
def adaptCfg (f : Rat) (cfg : CurvCfg) : CurvCfg :=
  ⟨cfg.init.map (adaptBulge f), cfg.crop, cfg.bulge.map (adaptBulge f), cfg.stretch.map (adaptStretch f)⟩

/-- neutral entry: zero bulge and stretch (any centre offsets) -/
def BS.neutral (c : BS) : Prop := c.hb = 0 ∧ c.hs = 0 ∧ c.vb = 0 ∧ c.vs = 0
def CurvCfg.neutral (cfg : CurvCfg) : Prop :=
  (∀ c, cfg.init = some c → c.neutral) ∧ cfg.crop = false ∧ (∀ c, cfg.bulge = some c → c.neutral) ∧
  (∀ c, cfg.stretch = some c → c.neutral)

/-- contract of the interpolation routine used for neutrality: exact at integer positions inside the array -/
def InterpExact (interp : Interp) : Prop :=
  ∀ (F : Arr2 Rat) (i j : Int), 0 ≤ i → i < F.n0 → 0 ≤ j → j < F.n1 → interp F (i : Rat) (j : Rat) = F.get i j
/-- contract used for purity: the value depends only on the observable part of the array -/
def InterpLocal (interp : Interp) : Prop := ∀ (F G : Arr2 Rat), F.agree G → ∀ r c, interp F r c = interp G r c

/-- `map_coordinates(order=0, mode="constant")`: zero for positions outside [0, n−1] in either direction (no half-pixel
margin), the nearest sample otherwise. `δ` moves every breakpoint (δ = 0 is scipy's rule; the driver uses ±δ to find the
cells that depend on which side of a breakpoint a float coordinate falls). -/
def interpNearestShift (δ : Rat) : Interp := fun F r0 c0 =>
  -- exact integer positions are not perturbed (floats represent them exactly)
  let r := if ((r0.floor : Int) : Rat) = r0 then r0 else r0 + δ
  let c := if ((c0.floor : Int) : Rat) = c0 then c0 else c0 + δ
  if 0 ≤ r ∧ r ≤ (F.n0 : Rat) - 1 ∧ 0 ≤ c ∧ c ≤ (F.n1 : Rat) - 1 then
    F.get (clipInt (r + half).floor 0 ((F.n0 : Int) - 1)) (clipInt (c + half).floor 0 ((F.n1 : Int) - 1))
  else 0

def interpNearest : Interp := interpNearestShift 0

/-- `map_coordinates(order=1, mode="constant")` (the DEFAULT `interpolation_order` of CurvatureCorrection): zero outside
[0, n−1] in either direction, bilinear interpolation of the four surrounding samples inside. `δ` moves only the domain test
(the value is continuous inside). -/
def interpLinearShift (δ : Rat) : Interp := fun F r0 c0 =>
  let r := if ((r0.floor : Int) : Rat) = r0 then r0 else r0 + δ
  let c := if ((c0.floor : Int) : Rat) = c0 then c0 else c0 + δ
  if 0 ≤ r ∧ r ≤ (F.n0 : Rat) - 1 ∧ 0 ≤ c ∧ c ≤ (F.n1 : Rat) - 1 then
    let i := r0.floor
    let j := c0.floor
    let fr := r0 - (i : Rat)
    let fc := c0 - (j : Rat)
    let g := fun (a b : Int) => F.get (clipInt a 0 ((F.n0 : Int) - 1)) (clipInt b 0 ((F.n1 : Int) - 1))
    (1 - fr) * (1 - fc) * g i j + fr * (1 - fc) * g (i + 1) j + (1 - fr) * fc * g i (j + 1) + fr * fc * g (i + 1) (j + 1)
  else 0

def interpLinear : Interp := interpLinearShift 0

/-! ### illumination -/

/-- three-channel image -/
structure Arr2C where
  dt : DT
  n0 : Nat
  n1 : Nat
  get : Int → Int → Nat → Rat      -- channel 0, 1, 2

def Arr2C.agree (a b : Arr2C) : Prop :=
  a.dt = b.dt ∧ a.n0 = b.n0 ∧ a.n1 = b.n1 ∧
    ∀ i j : Int, 0 ≤ i → i < a.n0 → 0 ≤ j → j < a.n1 → ∀ ch, ch < 3 → a.get i j ch = b.get i j ch

/-- storing a float into an array of dtype `dt` (C cast: truncation toward zero for the unsigned integer types; values in range) -/
def storeAs : DT → Rat → Rat
  | .f64, x => x
  | _, x => (truncRat x : Int)

/-- `IlluminationCorrection.correct_array`: channel i is multiplied by `local_scaling[i]` for colour space "rgb", by
`local_scaling[0]` otherwise -/
def illumCorr (rgb : Bool) (scal : Nat → Int → Int → Rat) (a : Arr2C) : Arr2C :=
  ⟨a.dt, a.n0, a.n1, fun i j ch => storeAs a.dt (a.get i j ch * scal (if rgb then ch else 0) i j)⟩

/-! ### drift (active) -/

/-- `DriftCorrection.correct_array` with `active = True`: the translation estimate (feature matching, a parameter: `none` =
no intact translation found) decides; whole-pixel estimate (tx, ty) ⇒ zero-filled shift onto the canvas of the BASE image -/
def driftActive (est : TArr → Option (Int × Int)) (b0 b1 : Nat) (a : TArr) : Except Err TArr :=
  match est a with
  | none => .error .value
  | some (tx, ty) => .ok ⟨a.dt, ⟨b0, b1, shift2 0 a.arr.n0 a.arr.n1 ty tx a.arr.get⟩⟩

/-! ### colour correction, inactive (round 6) -/

/-- the options of ColorCorrection other than `active` -/
structure ColourOpts where
  clip : Bool
  whitebalancing : Bool
  affine : Bool          -- colorbalancing = "affine" (else "linear")
  colour : Bool          -- balancing = "colour" (else "darsia")

/-- `ColorCorrection.correct_array` with `active = False`: `skimage.img_as_float(img).astype(float32)` whatever the other
options are (in particular NO clipping); values as rationals, the float32 rounding is not modelled -/
def colourInactive (_opts : ColourOpts) (a : TArr) : TArr :=
  ⟨.f64, ⟨a.arr.n0, a.arr.n1, fun i j => convVal a.dt .f64 false (a.arr.get i j)⟩⟩

end Darsia.Corrections
