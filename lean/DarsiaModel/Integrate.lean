/-
Model of `darsia.Geometry` and its subclasses (src/darsia/measure/integration.py) as a state machine.

State: the constructor's `voxel_volume` (scalar or array, never changed afterwards) and
`cached_voxel_volume`, the volume rescaled to the resolution of the data seen last.
`integrate` copies the two branches of `Geometry.integrate`:
  * array volume: recompute the cache (`cv2.resize(voxel_volume, INTER_AREA) * scaling`) iff the fetched
    shape differs from the *cached* shape; other dimensions than 2 raise `ValueError`;
  * scalar volume: `cached = voxel_volume * scaling`.  The flag `refresh` selects between the code
    after the `fix:` commit (`refresh = true`: assigned on every call) and the code before it
    (`refresh = false`: assigned only when the fetched shape differs from the native shape).
The result is `Σ cached · data` over the spatial axes, separately for every trailing index
(time step / component).
-/
import DarsiaModel.Resample
namespace Darsia

inductive Vol where
  | scalar (v : Rat)
  | array (shape : List Nat) (f : List Nat → Rat)

/-- value of a (broadcast) volume at a spatial multi-index -/
def Vol.at : Vol → List Nat → Rat
  | .scalar v, _ => v
  | .array _ f, idx => f idx

def Vol.shape : Vol → List Nat
  | .scalar _ => []
  | .array s _ => s

def Vol.isArray : Vol → Bool
  | .scalar _ => false
  | .array _ _ => true

structure Geo where
  dim : Nat
  numVoxels : List Nat
  vol : Vol
  cached : Vol

/-- data handed to `integrate`: spatial shape, number of trailing entries (time steps × components,
flattened in C order; 1 for a scalar image), values -/
structure Data where
  shape : List Nat
  ncomp : Nat
  val : List Nat → Nat → Rat

/-- weights as accepted by the constructors: a float, or an array / Image of some shape -/
inductive Weight where
  | scalar (w : Rat)
  | array (shape : List Nat) (f : List Nat → Rat)

/-- value of a (broadcast) weight at a voxel -/
def Weight.at : Weight → List Nat → Rat
  | .scalar w, _ => w
  | .array _ f, idx => f idx

def prodRat : List Rat → Rat
  | [] => 1
  | x :: xs => x * prodRat xs

/-- `Geometry.__init__`: voxel size = dimensions / num_voxels, voxel volume = product -/
def voxelVolume (numVoxels : List Nat) (dimensions : List Rat) : Rat :=
  prodRat (List.zipWith (fun (d : Rat) (n : Nat) => d / (n : Rat)) dimensions numVoxels)

def Geo.plain (dim : Nat) (numVoxels : List Nat) (dimensions : List Rat) : Geo :=
  let nv := numVoxels.take dim
  let v := voxelVolume nv dimensions
  { dim := dim, numVoxels := nv, vol := .scalar v, cached := .scalar v }

/-- `WeightedGeometry.__init__` (also Extruded / Porous): volume × weight; an array weight whose number
of axes differs from `space_dim` raises `ValueError` -/
def Geo.weighted (w : Weight) (dim : Nat) (numVoxels : List Nat) (dimensions : List Rat) : Except Err Geo :=
  let nv := numVoxels.take dim
  let v := voxelVolume nv dimensions
  match w with
  | .scalar x => .ok { dim := dim, numVoxels := nv, vol := .scalar (v * x), cached := .scalar (v * x) }
  | .array s f =>
    if s.length ≠ dim then .error .value
    else .ok { dim := dim, numVoxels := nv, vol := .array s fun i => v * f i, cached := .array s fun i => v * f i }

/-- `ExtrudedPorousGeometry.__init__`: porosity × depth is the weight (arrays must have equal shape) -/
def Weight.mul : Weight → Weight → Except Err Weight
  | .scalar a, .scalar b => .ok (.scalar (a * b))
  | .scalar a, .array s f => .ok (.array s fun i => a * f i)
  | .array s f, .scalar b => .ok (.array s fun i => f i * b)
  | .array s f, .array t g => if s = t then .ok (.array s fun i => f i * g i) else .error .value

/-- `ExtrudedGeometry(expansion, …)` and `PorousGeometry(porosity, …)` are `WeightedGeometry` with that weight -/
def Geo.extruded (expansion : Weight) := Geo.weighted expansion
def Geo.porous (porosity : Weight) := Geo.weighted porosity

def Geo.extrudedPorous (porosity depth : Weight) (dim : Nat) (numVoxels : List Nat) (dimensions : List Rat) :
    Except Err Geo := do
  let w ← porosity.mul depth
  Geo.weighted w dim numVoxels dimensions

/-- `cv2.resize(volume, INTER_AREA)` — two-dimensional arrays only -/
def resizeVol (vshape : List Nat) (f : List Nat → Rat) (target : List Nat) : Except Err (List Nat → Rat) :=
  match vshape, target with
  | [n1, n2], [m1, m2] =>
    .ok fun idx => match idx with
      | [j1, j2] => areaResize2 n1 n2 m1 m2 (fun a b => f [a, b]) j1 j2
      | _ => 0
  | _, _ => .error .other

/-- the weighted sum over the spatial axes, for every trailing index -/
def weightedSums (v : Vol) (d : Data) : List Rat :=
  (List.range d.ncomp).map fun c => sumBox d.shape fun idx => v.at idx * d.val idx c

/-- `Geometry.integrate` -/
def integrate (refresh : Bool) (g : Geo) (d : Data) : Except Err (Geo × List Rat) :=
  if d.shape.length ≠ g.numVoxels.length then .error .other else
  let sc := ratioProd g.numVoxels d.shape
  match g.vol with
  | .array vshape vf =>
    if d.shape = g.cached.shape then .ok (g, weightedSums g.cached d)
    else if g.dim ≠ 2 then .error .value
    else match resizeVol vshape vf d.shape with
      | .error e => .error e
      | .ok r =>
        let c := Vol.array d.shape fun idx => r idx * sc
        .ok ({ g with cached := c }, weightedSums c d)
  | .scalar v =>
    if refresh || d.shape ≠ g.numVoxels then
      let c := Vol.scalar (v * sc)
      .ok ({ g with cached := c }, weightedSums c d)
    else .ok (g, weightedSums g.cached d)

/-- one call on an object: new state and what the caller sees (a raising call leaves the state) -/
def step (refresh : Bool) (g : Geo) (d : Data) : Geo × Except Err (List Rat) :=
  match integrate refresh g d with
  | .ok (g', r) => (g', .ok r)
  | .error e => (g, .error e)

/-- state after a history of calls -/
def after (refresh : Bool) (g : Geo) (ops : List Data) : Geo :=
  ops.foldl (fun g d => (step refresh g d).1) g

/-- all return values of a history -/
def runOuts (refresh : Bool) : Geo → List Data → List (Except Err (List Rat))
  | _, [] => []
  | g, d :: ds => (step refresh g d).2 :: runOuts refresh (step refresh g d).1 ds

/-! ### Specification: Σ data × effective voxel volume at the data's resolution -/

/-- fraction of native cell `i` that lies inside data cell `idx` (product of the per-axis overlaps) -/
def overlapW : List Nat → List Nat → List Nat → List Nat → Rat
  | n :: ns, m :: ms, i :: is, j :: js => areaW n m i j * overlapW ns ms is js
  | _, _, _, _ => 1

/-- effective voxel volume of data cell `idx` when the data has spatial shape `shape`, in any dimension:
scalar volume: the voxel volume times the ratio of voxel counts; array volume: every native voxel
contributes its volume times the fraction of it that lies inside the data cell. -/
def effVol (g : Geo) (shape : List Nat) (idx : List Nat) : Rat :=
  match g.vol with
  | .scalar v => v * ratioProd g.numVoxels shape
  | .array vshape vf => sumBox vshape fun i => vf i * overlapW vshape shape i idx

/-- the integral of trailing index `c`: Σ data × effective voxel volume at the data's resolution -/
def specAt (g : Geo) (d : Data) (c : Nat) : Rat :=
  sumBox d.shape fun idx => effVol g d.shape idx * d.val idx c

def spec (g : Geo) (d : Data) : List Rat := (List.range d.ncomp).map (specAt g d)

/-- what a call returns, as a function of the constructor arguments and the data only:
`Err.other` = OUTSIDE THE MODELLED DOMAIN when the data have another number of axes than the geometry (the code has no guard
there: numpy broadcasts and a number comes back; not modelled, not sent), `ValueError` for array volumes at a foreign resolution outside 2-D,
the specification otherwise -/
def canonical (g0 : Geo) (d : Data) : Except Err (List Rat) :=
  if d.shape.length ≠ g0.numVoxels.length then .error .other
  else if g0.vol.isArray = true ∧ g0.dim ≠ 2 ∧ d.shape ≠ g0.numVoxels then .error .value
  else .ok (spec g0 d)

/-- guard under which `integrate` on a fresh object does not raise and the model is meaningful:
positive extents, matching number of axes, array volumes have the native shape, and foreign
resolutions with an array volume only in 2-D -/
def Geo.wf (g : Geo) : Prop :=
  g.numVoxels.length = g.dim ∧ allPos g.numVoxels = true ∧
  (∀ s f, g.vol = .array s f → s = g.numVoxels)

def Data.okFor (g : Geo) (d : Data) : Prop :=
  d.shape.length = g.dim ∧ allPos d.shape = true ∧
  (g.vol.isArray = true → d.shape ≠ g.numVoxels → g.dim = 2)

/-- a fresh object: the cache is the constructor's copy of the volume -/
def Geo.fresh (g : Geo) : Prop :=
  match g.vol, g.cached with
  | .scalar v, .scalar c => c = v
  | .array s f, .array t h => t = s ∧ ∀ i, h i = f i
  | _, _ => False

/-! ### vocabulary of the property statement -/

/-- the linear combination `a·d1 + b·d2` of two data sets on the same grid -/
def Data.lin (a : Rat) (d1 : Data) (b : Rat) (d2 : Data) : Data :=
  { shape := d1.shape, ncomp := d1.ncomp, val := fun idx c => a * d1.val idx c + b * d2.val idx c }

/-- the same piecewise-constant field supplied on a grid refined by the integer factors `ks`
(`np.repeat` along every spatial axis) -/
def Data.replicate (d : Data) (ks : List Nat) : Data :=
  { shape := mulShape d.shape ks, ncomp := d.ncomp, val := fun idx c => d.val (divIdx idx ks) c }

/-- total volume of the geometry -/
def Geo.totalVolume (g : Geo) : Rat :=
  match g.vol with
  | .scalar v => v * (prodL g.numVoxels : Rat)
  | .array s f => sumBox s f

/-! ### `Geometry.normalize` -/

/-- `normalize(img, img_ref)`: integrate both (reference first), rescale `img` by the ratio of the
integrals, per trailing index.  Returns the state after the two calls and the rescaled data. -/
def normalize (refresh : Bool) (g : Geo) (img ref : Data) : Except Err (Geo × Data) :=
  match integrate refresh g ref with
  | .error e => .error e
  | .ok (g1, iref) =>
    match integrate refresh g1 img with
    | .error e => .error e
    | .ok (g2, iimg) =>
      .ok (g2, { img with val := fun idx c => img.val idx c * (listGetD iref c 0 / listGetD iimg c 0) })

end Darsia
