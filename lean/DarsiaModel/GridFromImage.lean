/-
`darsia.generate_grid(image) = Grid(image.num_voxels, image.voxel_size)` on the image-geometry model `CS` of builder a
(`DarsiaModel.Coord`): `num_voxels = img.shape[:space_dim]` (trailing time / component axes are not part of it),
`voxel_size[p] = dimensions[p] / num_voxels[p]`.
-/
import DarsiaModel.Grid
import DarsiaModel.FV
import DarsiaModel.Coord
namespace Darsia

/-- `(grid.shape, grid.voxel_size)` of `generate_grid(image)` -/
def generateGrid (cs : CS) : List Nat × List Rat := (cs.shape, cs.voxelSize)

end Darsia
