/-
Model of the iteration skeleton shared by `WassersteinDistanceNewton._solve` and
`WassersteinDistanceBregman._solve` (C04): a `for iter in range(num_iter)` loop whose body runs in a
`try / except Exception: warn; break`, a `break` when `iter > 1` and the stopping criteria hold, and the
`info["converged"]` / returned distance / returned solution computed afterwards.

The try body is a list of *statements in source order* (extracted from the AST into
`DarsiaGen.SolveLoopGen`); each statement carries a label (which call it is: assembling, regularisation
update, inner linear solve, shrink, Anderson mixing, distance evaluation, history / timings, stopping
criteria, commit of the Bregman variables) and its effect on the two variables that are returned: it may
overwrite the iterate (`solution_i` / `flux`) or the distance (`new_distance`). An exception can be raised at
ANY statement (`Event.fail branch at`): the statements before it have taken effect, then the handler runs.
Bregman has two alternative bodies (regularisation update / relaxation step): `branch` selects one.

Iterates are numbered: iterate 0 is the initial Darcy solution, iterate `i+1` is the result of the `i`-th
successful pass through the loop body. Core Lean only.
-/
import DarsiaModel.Basic
namespace Darsia.SolveLoop
open Darsia

inductive Label
  | assemble | regularisation | linearSolve | shrink | anderson | distance | nanCheck | history | timings
  | criteria | commit | setSolution | setDistance | other
  deriving DecidableEq, Repr

inductive Effect | none | writeSol | writeDist | criteria
  deriving DecidableEq, Repr

structure Stmt where
  label : Label
  effect : Effect
  deriving DecidableEq, Repr

inductive Method | newton | bregman
  deriving DecidableEq, Repr

/-- what the AST extraction records about one `_solve` method -/
structure LoopCode where
  /-- alternative try bodies (statements in source order) -/
  bodies : List (List Stmt)
  /-- the handler re-binds the iterate to the copy saved before the `try` -/
  restoreSol : Bool
  /-- the handler re-binds the distance to the value saved before the `try` -/
  restoreDist : Bool
  /-- `converged` is a flag set only next to the criteria `break` (otherwise `iter < num_iter - 1`) -/
  flagOnBreak : Bool
  /-- `new_distance` is initialised with the cost of the initial iterate (otherwise the literal 0) -/
  distInit : Bool
  /-- the loop variable is bound before the loop -/
  iterInit : Bool
  deriving DecidableEq, Repr

/-- the shape the positive theorems need -/
def LoopCode.sound (c : LoopCode) : Bool :=
  c.restoreSol && c.restoreDist && c.flagOnBreak && c.distInit && c.iterInit

/-- what one pass through the loop body does -/
inductive Event
  | ok (criteriaMet : Bool)     -- body completes; the numeric stopping criteria evaluate to `criteriaMet`
  | fail (branch pos : Nat)     -- exception raised by statement number `pos` of body `branch`
  | nan                         -- Bregman only: distance of the new iterate is NaN → early `return`
  deriving DecidableEq, Repr

def Event.isFail : Event → Bool
  | .fail _ _ => true
  | _ => false

structure LoopState where
  /-- value of the loop variable after the loop (`none`: never bound) -/
  iter : Option Nat
  /-- iterate whose cost the reported distance is (`none`: the literal `0` initialisation) -/
  distTag : Option Nat
  /-- iterate the returned solution holds -/
  solTag : Nat
  /-- explicit flag of the repaired code -/
  flag : Bool
  stopped : Bool
  deriving DecidableEq, Repr

def init (c : LoopCode) : LoopState :=
  { iter := if c.iterInit then some 0 else none,
    distTag := if c.distInit then some 0 else none,
    solTag := 0, flag := false, stopped := false }

/-- effects of the statements executed before statement `pos` of body `branch` -/
def executed (c : LoopCode) (branch pos : Nat) : List Effect :=
  ((c.bodies.getD branch []).take pos).map (·.effect)

/-- one pass of the loop body at loop index `i` -/
def step (c : LoopCode) (s : LoopState) (i : Nat) (e : Event) : LoopState :=
  let s := { s with iter := some i }
  match e with
  | .ok met =>
    let s := { s with distTag := some (i + 1), solTag := i + 1 }
    if 1 < i ∧ met then { s with flag := true, stopped := true } else s
  | .nan => { s with distTag := some (i + 1), solTag := i + 1, stopped := true }
  | .fail b a =>
    let pre := executed c b a
    -- the iterate / the distance were already overwritten and the handler does not restore them
    let s := if pre.contains .writeSol ∧ c.restoreSol = false then { s with solTag := i + 1 } else s
    let s := if pre.contains .writeDist ∧ c.restoreDist = false then { s with distTag := some (i + 1) } else s
    { s with stopped := true }

/-- the `for` loop: indices `i, i+1, …` while fuel (= remaining `range`) lasts and no `break` -/
def runFrom (c : LoopCode) (env : Nat → Event) : Nat → Nat → LoopState → LoopState
  | 0, _, s => s
  | fuel + 1, i, s => if s.stopped then s else runFrom c env fuel (i + 1) (step c s i (env i))

def run (c : LoopCode) (numIter : Nat) (env : Nat → Event) : LoopState :=
  runFrom c env numIter 0 (init c)

/-- the early `return` of the NaN branch reports `converged = False` literally -/
def endedByNan (env : Nat → Event) (s : LoopState) : Bool :=
  match s.iter with
  | some i => s.stopped && decide (env i = .nan)
  | none => false

/-- `info["converged"]` (`.error .unbound`: `iter` never bound — Newton as found with `num_iter = 0`) -/
def converged (c : LoopCode) (numIter : Nat) (env : Nat → Event) (s : LoopState) : Except Err Bool :=
  if endedByNan env s then .ok false else
  if c.flagOnBreak then .ok s.flag else
  match s.iter with
  | none => .error .unbound
  | some i => .ok (decide ((i : Int) < (numIter : Int) - 1))

/-- the environment given by a finite list (missing entries: body completes, criteria not met) -/
def envOf (es : List Event) (i : Nat) : Event := es.getD i (.ok false)

/-- first statement with a given label in a body (`body.length` when absent) -/
def labelIndex (c : LoopCode) (branch : Nat) (l : Label) : Nat :=
  ((c.bodies.getD branch []).map (·.label)).idxOf l

/-- the two methods as they were found (before the `fix:` commit), for the negative witnesses -/
def asFoundNewton : LoopCode :=
  { bodies := [[⟨.assemble, .none⟩, ⟨.linearSolve, .none⟩, ⟨.setSolution, .writeSol⟩, ⟨.anderson, .writeSol⟩,
                ⟨.distance, .writeDist⟩, ⟨.history, .none⟩, ⟨.timings, .none⟩, ⟨.criteria, .criteria⟩]],
    restoreSol := false, restoreDist := false, flagOnBreak := false, distInit := false, iterInit := false }

def asFoundBregman : LoopCode :=
  { bodies := [[⟨.regularisation, .none⟩, ⟨.linearSolve, .writeSol⟩, ⟨.shrink, .none⟩, ⟨.anderson, .none⟩,
                ⟨.distance, .writeDist⟩, ⟨.nanCheck, .none⟩, ⟨.history, .none⟩, ⟨.timings, .none⟩,
                ⟨.criteria, .criteria⟩, ⟨.commit, .none⟩],
               [⟨.linearSolve, .writeSol⟩, ⟨.shrink, .none⟩, ⟨.anderson, .none⟩,
                ⟨.distance, .writeDist⟩, ⟨.nanCheck, .none⟩, ⟨.history, .none⟩, ⟨.timings, .none⟩,
                ⟨.criteria, .criteria⟩, ⟨.commit, .none⟩]],
    restoreSol := false, restoreDist := false, flagOnBreak := false, distInit := false, iterInit := true }

/-- the Newton body with the repaired handler / flag / initialisations (for non-vacuity examples) -/
def repairedNewton : LoopCode :=
  { asFoundNewton with restoreSol := true, restoreDist := true, flagOnBreak := true, distInit := true, iterInit := true }

end Darsia.SolveLoop
