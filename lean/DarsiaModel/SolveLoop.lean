/-
Model of the iteration skeleton shared by `WassersteinDistanceNewton._solve` and
`WassersteinDistanceBregman._solve` (C04): a `for iter in range(num_iter)` loop whose body runs in a
`try / except Exception: warn; break`, a `break` when `iter > 1` and the stopping criteria hold, and the
`info["converged"]` / returned distance / returned solution computed afterwards.

The body is abstracted to the *event* it produces; iterates are numbered: iterate 0 is the initial Darcy
solution, iterate `i+1` is the result of the `i`-th successful pass through the loop body.

Two shapes of the code are modelled (which one the running code has is *generated* from its AST,
`DarsiaGen.SolveLoopGen`):
* `asFound`  : `new_distance = 0` before the loop; the handler only breaks; `converged = iter < num_iter - 1`;
* `repaired` : distance initialised with the cost of iterate 0; the handler restores the last valid iterate
               and its distance; `converged` is a flag set only on the criteria `break`.
Core Lean only.
-/
import DarsiaModel.Basic
namespace Darsia.SolveLoop
open Darsia

/-- what one pass through the loop body does -/
inductive Event
  | ok (criteriaMet : Bool)   -- body completes; the numeric stopping criteria evaluate to `criteriaMet`
  | failBeforeUpdate          -- exception before the iterate is touched (inner linear solve fails)
  | failAfterUpdate           -- exception after the iterate was updated, before its distance is stored
  | nan                       -- Bregman only: distance of the new iterate is NaN → early `return`
  deriving DecidableEq, Repr

def Event.isFail : Event → Bool
  | .failBeforeUpdate | .failAfterUpdate => true
  | _ => false

inductive Shape | asFound | repaired | unknown
  deriving DecidableEq, Repr

inductive Method | newton | bregman
  deriving DecidableEq, Repr

structure LoopState where
  /-- value of the loop variable after the loop (`none`: never bound) -/
  iter : Option Nat
  /-- iterate whose cost the reported distance is (`none`: the literal `0` initialisation) -/
  distTag : Option Nat
  /-- iterate the returned solution holds -/
  solTag : Nat
  /-- explicit flag of the repaired code -/
  flag : Bool
  stopped : Bool
  deriving DecidableEq, Repr

def init (shape : Shape) (m : Method) : LoopState :=
  { iter := (match m with | .bregman => some 0 | .newton => if shape = .repaired then some 0 else none),
    distTag := if shape = .repaired then some 0 else none,
    solTag := 0, flag := false, stopped := false }

/-- one pass of the loop body at loop index `i` -/
def step (shape : Shape) (s : LoopState) (i : Nat) (e : Event) : LoopState :=
  let s := { s with iter := some i }
  match e with
  | .ok met =>
    let s := { s with distTag := some (i + 1), solTag := i + 1 }
    if 1 < i ∧ met then { s with flag := true, stopped := true } else s
  | .nan => { s with distTag := some (i + 1), solTag := i + 1, stopped := true }
  | .failBeforeUpdate => { s with stopped := true }
  | .failAfterUpdate =>
    if shape = .repaired then { s with stopped := true }   -- handler restores the last valid iterate
    else { s with solTag := i + 1, stopped := true }         -- iterate already overwritten, distance stale

/-- the `for` loop: indices `i, i+1, …` while fuel (= remaining `range`) lasts and no `break` -/
def runFrom (shape : Shape) (env : Nat → Event) : Nat → Nat → LoopState → LoopState
  | 0, _, s => s
  | fuel + 1, i, s => if s.stopped then s else runFrom shape env fuel (i + 1) (step shape s i (env i))

def run (shape : Shape) (m : Method) (numIter : Nat) (env : Nat → Event) : LoopState :=
  runFrom shape env numIter 0 (init shape m)

/-- the early `return` of the NaN branch reports `converged = False` literally -/
def endedByNan (env : Nat → Event) (s : LoopState) : Bool :=
  match s.iter with
  | some i => s.stopped && decide (env i = .nan)
  | none => false

/-- `info["converged"]` (`.error .unbound`: `iter` never bound — Newton as found with `num_iter = 0`) -/
def converged (shape : Shape) (numIter : Nat) (env : Nat → Event) (s : LoopState) : Except Err Bool :=
  if endedByNan env s then .ok false else
  match shape with
  | .repaired => .ok s.flag
  | _ => match s.iter with
    | none => .error .unbound
    | some i => .ok (decide ((i : Int) < (numIter : Int) - 1))

/-- the environment given by a finite list (missing entries: body completes, criteria not met) -/
def envOf (es : List Event) (i : Nat) : Event := es.getD i (.ok false)

/-- index of the last pass that was executed -/
def LoopState.lastIndex (s : LoopState) : Nat := s.iter.getD 0

end Darsia.SolveLoop
