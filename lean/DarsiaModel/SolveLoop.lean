/-
Model of the iteration skeleton shared by `WassersteinDistanceNewton._solve` and
`WassersteinDistanceBregman._solve` (C04): a `for iter in range(num_iter)` loop whose body runs in a
`try / except Exception: warn; break`, a `break` when `iter > 1` and the stopping criteria hold, and the
`info["converged"]` / returned distance / returned solution computed afterwards.

The try body is a list of *statements in source order* (extracted from the AST into
`DarsiaGen.SolveLoopGen`); each statement carries a label (which call it is: assembling, regularisation
update, inner linear solve, shrink, Anderson mixing, distance evaluation, history / timings, stopping
criteria, commit of the Bregman variables) and its effect on the two variables that are returned: it may
overwrite the iterate (`solution_i` / `flux`) or the distance (`new_distance`). An exception can be raised at
ANY statement (`Event.fail branch at`): the statements before it have taken effect, then the handler runs.
Bregman has two alternative bodies (regularisation update / relaxation step): `branch` selects one.

Iterates are numbered: iterate 0 is the initial Darcy solution, iterate `i+1` is the result of the `i`-th
successful pass through the loop body. Core Lean only.
-/
import DarsiaModel.Basic
namespace Darsia.SolveLoop
open Darsia

inductive Label
  | assemble | regularisation | linearSolve | shrink | anderson | distance | nanCheck | history | timings
  | criteria | commit | setSolution | setDistance | other
  deriving DecidableEq, Repr

inductive Effect | none | writeSol | writeDist | criteria | commitDist
  deriving DecidableEq, Repr

structure Stmt where
  label : Label
  effect : Effect
  deriving DecidableEq, Repr

inductive Method | newton | bregman
  deriving DecidableEq, Repr

inductive PostLoop | none | unguarded | guarded
  deriving DecidableEq, Repr

/-- what the AST extraction records about one `_solve` method -/
structure LoopCode where
  /-- alternative try bodies (statements in source order) -/
  bodies : List (List Stmt)
  /-- the handler re-binds the iterate to the copy saved before the `try` -/
  restoreSol : Bool
  /-- the handler re-binds the distance to the value saved before the `try` -/
  restoreDist : Bool
  /-- `converged` is a flag set only next to the criteria `break` (otherwise `iter < num_iter - 1`) -/
  flagOnBreak : Bool
  /-- `new_distance` is initialised with the cost of the initial iterate (otherwise the literal 0) -/
  distInit : Bool
  /-- the loop variable is bound before the loop -/
  iterInit : Bool
  /-- what the handler restores the iterate from is a COPY taken before the `try` (or the body never writes the iterate in
  place, so that an alias is as good as a copy) -/
  saveIsCopy : Bool
  /-- the value the handler restores the distance from is re-bound to the current distance at the top of every pass (before the
  `try`); otherwise it is only refreshed by a `commitDist` statement of the body (Bregman's `old_distance = new_distance`) -/
  saveDistBeforeTry : Bool
  /-- what follows the loop: nothing that can fail (`none`), a solve whose failure propagates (`unguarded`), or a solve inside
  `try/except` whose failure only marks the pressure as not available (`guarded`; Bregman's pressure post-processing) -/
  post : PostLoop
  deriving DecidableEq, Repr

/-- in a body, the distance is evaluated AFTER the last write of the iterate (so it is the cost of the iterate the pass
ends with), and the iterate is written at all -/
def bodyOk (body : List Stmt) : Bool :=
  let effs := body.map (·.effect)
  effs.contains .writeSol && effs.contains .writeDist &&
    !((effs.reverse.takeWhile (· != .writeDist)).contains .writeSol)

/-- the saved distance is refreshed by the body itself: its LAST statement commits the new distance (and no earlier one does) -/
def commitsLast (body : List Stmt) : Bool :=
  let effs := body.map (·.effect)
  effs.getLast? == some .commitDist && !(effs.dropLast.contains .commitDist)

/-- the shape the positive theorems need -/
def LoopCode.sound (c : LoopCode) : Bool :=
  c.restoreSol && c.restoreDist && c.flagOnBreak && c.distInit && c.iterInit && c.saveIsCopy &&
    !c.bodies.isEmpty && c.bodies.all bodyOk &&
    (if c.saveDistBeforeTry then c.bodies.all (fun b => !(b.map (·.effect)).contains .commitDist) else c.bodies.all commitsLast)

/-- body number `branch` (out-of-range numbers mean the first body) -/
def LoopCode.body (c : LoopCode) (branch : Nat) : List Stmt := c.bodies.getD branch (c.bodies.headD [])

/-- what one pass through the loop body does -/
inductive Event
  | ok (branch : Nat) (criteriaMet : Bool)  -- body `branch` completes; the stopping criteria evaluate to `criteriaMet`
  | fail (branch pos : Nat)     -- exception raised by statement number `pos` of body `branch`
  | nan                         -- Bregman only: distance of the new iterate is NaN → early `return`
  deriving DecidableEq, Repr

def Event.isFail : Event → Bool
  | .fail _ _ => true
  | _ => false

structure LoopState where
  /-- value of the loop variable after the loop (`none`: never bound) -/
  iter : Option Nat
  /-- iterate whose cost the reported distance is (`none`: the literal `0` initialisation) -/
  distTag : Option Nat
  /-- iterate the returned solution holds -/
  solTag : Nat
  /-- explicit flag of the repaired code -/
  flag : Bool
  stopped : Bool
  /-- iterate whose cost the variable the handler restores the distance from (`old_distance`) currently holds -/
  savedDist : Option Nat
  deriving DecidableEq, Repr

def init (c : LoopCode) : LoopState :=
  { iter := if c.iterInit then some 0 else none,
    distTag := if c.distInit then some 0 else none,
    solTag := 0, flag := false, stopped := false,
    savedDist := if c.distInit then some 0 else none }

/-- effects of the statements executed before statement `pos` of body `branch` (an exception is raised BY a statement, so at
most all but the last statement have completed) -/
def executed (c : LoopCode) (branch pos : Nat) : List Effect :=
  ((c.body branch).take (min pos ((c.body branch).length - 1))).map (·.effect)

/-- one pass of the loop body at loop index `i` -/
def step (c : LoopCode) (s : LoopState) (i : Nat) (e : Event) : LoopState :=
  -- top of the pass: `old_distance = new_distance` if the code saves it there
  let s := { s with iter := some i, savedDist := if c.saveDistBeforeTry then s.distTag else s.savedDist }
  match e with
  | .ok b met =>
    -- effects of the whole body, in source order: the iterate becomes iterate `i+1` once it is written; the distance is
    -- the cost of the iterate the pass ends with only if it is evaluated after the last write
    let effs := (c.body b).map (·.effect)
    let sol := if effs.contains .writeSol then i + 1 else s.solTag
    let fresh := effs.contains .writeDist && !((effs.reverse.takeWhile (· != .writeDist)).contains .writeSol)
    let dist := if fresh then some sol else s.distTag
    if 1 < i ∧ met then { s with solTag := sol, distTag := dist, flag := true, stopped := true }
    -- the commit statements follow the criteria `break`: executed only when the loop goes on
    else { s with solTag := sol, distTag := dist, savedDist := if effs.contains .commitDist then dist else s.savedDist }
  | .nan => { s with distTag := some (i + 1), solTag := i + 1, stopped := true }
  | .fail b a =>
    let pre := executed c b a
    -- the iterate was already overwritten and the handler does not (effectively) restore it
    let sol := if pre.contains .writeSol ∧ (c.restoreSol && c.saveIsCopy) = false then i + 1 else s.solTag
    -- the distance: restored from the saved value, or left as the statements before the fault made it
    let dist := if c.restoreDist then s.savedDist else (if pre.contains .writeDist then some (i + 1) else s.distTag)
    { s with solTag := sol, distTag := dist, stopped := true }

/-- the `for` loop: indices `i, i+1, …` while fuel (= remaining `range`) lasts and no `break` -/
def runFrom (c : LoopCode) (env : Nat → Event) : Nat → Nat → LoopState → LoopState
  | 0, _, s => s
  | fuel + 1, i, s => if s.stopped then s else runFrom c env fuel (i + 1) (step c s i (env i))

def run (c : LoopCode) (numIter : Nat) (env : Nat → Event) : LoopState :=
  runFrom c env numIter 0 (init c)

/-- the early `return` of the NaN branch reports `converged = False` literally -/
def endedByNan (env : Nat → Event) (s : LoopState) : Bool :=
  match s.iter with
  | some i => s.stopped && decide (env i = .nan)
  | none => false

/-- `info["converged"]` (`.error .unbound`: `iter` never bound — Newton as found with `num_iter = 0`) -/
def converged (c : LoopCode) (numIter : Nat) (env : Nat → Event) (s : LoopState) : Except Err Bool :=
  if endedByNan env s then .ok false else
  if c.flagOnBreak then .ok s.flag else
  match s.iter with
  | none => .error .unbound
  | some i => .ok (decide ((i : Int) < (numIter : Int) - 1))

/-- the environment given by a finite list (missing entries: body completes, criteria not met) -/
def envOf (es : List Event) (i : Nat) : Event := es.getD i (.ok 0 false)

/-- first statement with a given label in a body (`body.length` when absent) -/
def labelIndex (c : LoopCode) (branch : Nat) (l : Label) : Nat :=
  ((c.body branch).map (·.label)).idxOf l

/-- the two methods as they were found (before the `fix:` commit), for the negative witnesses -/
def asFoundNewton : LoopCode :=
  { bodies := [[⟨.assemble, .none⟩, ⟨.linearSolve, .none⟩, ⟨.setSolution, .writeSol⟩, ⟨.anderson, .writeSol⟩,
                ⟨.distance, .writeDist⟩, ⟨.history, .none⟩, ⟨.timings, .none⟩, ⟨.criteria, .criteria⟩]],
    restoreSol := false, restoreDist := false, flagOnBreak := false, distInit := false, iterInit := false,
    saveIsCopy := false, saveDistBeforeTry := false, post := .none }

def asFoundBregman : LoopCode :=
  { bodies := [[⟨.regularisation, .none⟩, ⟨.linearSolve, .writeSol⟩, ⟨.shrink, .none⟩, ⟨.anderson, .none⟩,
                ⟨.distance, .writeDist⟩, ⟨.nanCheck, .none⟩, ⟨.history, .none⟩, ⟨.timings, .none⟩,
                ⟨.criteria, .criteria⟩, ⟨.commit, .none⟩],
               [⟨.linearSolve, .writeSol⟩, ⟨.shrink, .none⟩, ⟨.anderson, .none⟩,
                ⟨.distance, .writeDist⟩, ⟨.nanCheck, .none⟩, ⟨.history, .none⟩, ⟨.timings, .none⟩,
                ⟨.criteria, .criteria⟩, ⟨.commit, .none⟩]],
    restoreSol := false, restoreDist := false, flagOnBreak := false, distInit := false, iterInit := true,
    saveIsCopy := false, saveDistBeforeTry := false, post := .unguarded }

/-- the Newton body with the repaired handler / flag / initialisations (for non-vacuity examples) -/
def repairedNewton : LoopCode :=
  { bodies := asFoundNewton.bodies, restoreSol := true, restoreDist := true, flagOnBreak := true, distInit := true,
    iterInit := true, saveIsCopy := true, saveDistBeforeTry := true, post := .none }

/-- what `_solve` returns after the loop, given whether the post-loop solve fails: the loop state unchanged, and the iterate
whose pressure is reported (`none`: the NaN marker); an unguarded failure propagates -/
structure Final where
  state : LoopState
  pressure : Option Nat
  deriving DecidableEq, Repr

def finish (c : LoopCode) (s : LoopState) (postFails : Bool) : Except Err Final :=
  match c.post, postFails with
  | .unguarded, true => .error .other
  | .guarded, true => .ok { state := s, pressure := none }
  | _, _ => .ok { state := s, pressure := some s.solTag }

end Darsia.SolveLoop
