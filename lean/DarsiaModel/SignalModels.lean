/-
Signal-to-data models of `darsia/signals/models/*` (C14) over exact rationals.

A signal is a list of pixels; a pixel carries its value and the index of its label among the sorted
unique labels (used only by the label-wise models). The models mirror the code after the `fix:` commits
of this property: `ClipModel`, `ScalingModel` (with its `isclose(scaling, 1)` shortcut), `LinearModel`,
`HeterogeneousLinearModel`, `CombinedModel` (sequential application; parameter routing for "all" and
for a list of `(position, dofs)` pairs), `StaticThresholdModel`, and the exponent enumeration of
`PolynomialApproximationSpace`.
-/
import DarsiaModel.Basic
namespace Darsia.Sig

/-- names of updatable parameters -/
inductive Dof | minValue | maxValue | scaling | offset
  deriving DecidableEq, Repr

/-- the `dofs` argument of `update_model_parameters`: `None`/`"all"` or a list of names -/
inductive DofSpec | all | names (l : List Dof)
  deriving DecidableEq, Repr

/-- the sub-models a `CombinedModel` may hold -/
inductive M
  | clip (lo : Rat) (hi : Option Rat)
  | scaling (s : Rat)
  | linear (s o : Rat)
  | het (L : Nat) (s o : List Rat)
  deriving DecidableEq, Repr

/-- model classes, and one instance of each (for the dispatch table) -/
inductive Kind | clip | scaling | linear | het
  deriving DecidableEq, Repr
def Kind.all : List Kind := [.clip, .scaling, .linear, .het]
def Kind.sample : Kind → M
  | .clip => .clip 0 none | .scaling => .scaling 1 | .linear => .linear 1 0 | .het => .het 2 [1, 1] [0, 0]

structure Pixel where
  label : Nat
  val : Rat
  deriving DecidableEq, Repr

/-- `np.clip(x, lo, hi) = minimum(maximum(x, lo), hi)`; `hi = None` leaves the top open -/
def clipF (lo : Rat) (hi : Option Rat) (x : Rat) : Rat :=
  match hi with
  | none => max x lo
  | some h => min (max x lo) h

/-- `np.isclose(s, 1.0)` with the default tolerances: `|s − 1| ≤ 1e-8 + 1e-5·1` -/
def absR (x : Rat) : Rat := if x < 0 then -x else x

def closeToOne (s : Rat) : Bool := decide (absR (s - 1) ≤ 1001 / 100000000)

def scaleF (s x : Rat) : Rat := if closeToOne s then x else s * x

def linF (s o x : Rat) : Rat := s * x + o

/-- one model on one pixel -/
def M.applyPix : M → Pixel → Rat
  | .clip lo hi, p => clipF lo hi p.val
  | .scaling s, p => scaleF s p.val
  | .linear s o, p => linF s o p.val
  | .het _ s o, p => linF (listGetD s p.label 0) (listGetD o p.label 0) p.val

def M.isHet : M → Bool
  | .het .. => true
  | _ => false

/-! ### the generic label-wise wrapper `HeterogeneousModel(obj, labels)` -/

/-- one (homogeneous) model per label index; pixel `p` runs through the model of its label
(`output[mask] = self[label](signal[mask])`; labels outside the list give the initial 0) -/
def wrapApplyPix (ms : List M) (p : Pixel) : Rat :=
  match ms[p.label]? with
  | some m => m.applyPix p
  | none => 0


/-! ### `cv2.resize(labels, (W, H), interpolation=cv2.INTER_NEAREST)` -/

/-- source index of destination index `x` when `n` entries are resized to `N`, in exact arithmetic: `⌊x·n/N⌋` -/
def nearIdxExact (n N x : Nat) : Nat := min (x * n / N) (n - 1)

/-- the triples `(n, N, x)` at which OpenCV's `floor(x * (1.0 / (N / n)))`, evaluated in doubles, falls one below
the exact value (tabulated from `cv2.resize` into `DarsiaGen.SignalTables.nearDev`) -/
abbrev Dev := List (Nat × Nat × Nat)

/-- the index OpenCV uses: the exact one, minus one at the listed rounding points -/
def nearIdx (dev : Dev) (n N x : Nat) : Nat := nearIdxExact n N x - (if (n, N, x) ∈ dev then 1 else 0)

/-- what the rounding points may be: exact breakpoints `N ∣ x·n` with a positive quotient, inside the range, and
never for `n = N` (decidable; checked on the generated table) -/
def DevOk (dev : Dev) : Bool :=
  dev.all fun e => decide (e.2.1 ∣ e.2.2 * e.1) && decide (0 < e.2.2 * e.1 / e.2.1) && decide (e.2.2 < e.2.1) && decide (e.1 ≠ e.2.1)

/-- nearest-neighbour resize of a row-major `h × w` map to `H × W` -/
def resizeNearest (dev : Dev) (src : List (List Nat)) (H W : Nat) : List (List Nat) :=
  let h := src.length
  (List.range H).map fun i =>
    let row := listGetD src (nearIdx dev h H i) []
    (List.range W).map fun j => listGetD row (nearIdx dev row.length W j) 0

/-- `HeterogeneousLinearModel.__call__`: the label map in force for a signal of shape `H × W` -/
def labelsFor (dev : Dev) (labels : List (List Nat)) (H W : Nat) : List (List Nat) :=
  if labels.length = H ∧ (listGetD labels 0 []).length = W then labels else resizeNearest dev labels H W

/-- `arr.shape[:2]` of a row-major map -/
def shapeOf (m : List (List Nat)) : Nat × Nat := (m.length, (listGetD m 0 []).length)

/-- one call of `HeterogeneousLinearModel` with a signal of shape `H × W`: the cached label map afterwards
(`if img.shape[:2] != cached.shape[:2]: cached = cv2.resize(self.labels, …)` — from the ORIGINAL labels) -/
def cacheStep (dev : Dev) (orig cached : List (List Nat)) (H W : Nat) : List (List Nat) :=
  if shapeOf cached = (H, W) then cached else resizeNearest dev orig H W

/-- the cached label map after a sequence of calls (initially a copy of the labels) -/
def cacheRun (dev : Dev) (orig : List (List Nat)) (shapes : List (Nat × Nat)) : List (List Nat) :=
  shapes.foldl (fun c hw => cacheStep dev orig c hw.1 hw.2) orig

/-! ### parameter routing -/

def M.numParams : M → Nat
  | .clip .. => 2 | .scaling _ => 1 | .linear .. => 2 | .het L .. => 2 * L

/-- `parameters[i]` (raises IndexError beyond the end) -/
def idx (ps : List Rat) (i : Nat) : Except Err Rat :=
  match ps[i]? with | some x => .ok x | none => .error .index

def sameSet (l : List Dof) (s : List Dof) : Bool := l.all (· ∈ s) && s.all (· ∈ l)

/-- a label-wise block `parameters[a : a+L]` must have length `L` (`_compatibility` asserts) -/
def block (ps : List Rat) (a L : Nat) : Except Err (List Rat) :=
  let b := (ps.drop a).take L
  if b.length = L then .ok b else .error .assertion

/-- `update_model_parameters(parameters, dofs)` of one sub-model: new model and the number of
parameters it consumed -/
def M.update (m : M) (ps : List Rat) (dofs : DofSpec) : Except Err (M × Nat) :=
  match m with
  | .clip lo hi =>
    let both := do let a ← idx ps 0; let b ← idx ps 1; pure (M.clip a (some b), 2)
    match dofs with
    | .all => both
    | .names l =>
      if sameSet l [.minValue, .maxValue] then both
      else if sameSet l [.minValue] then do let a ← idx ps 0; pure (.clip a hi, 1)
      else if sameSet l [.maxValue] then do let a ← idx ps 0; pure (.clip lo (some a), 1)
      else .error .value
  | .scaling s =>
    let one := do let a ← idx ps 0; pure (M.scaling a, 1)
    match dofs with
    | .all => one
    | .names l => if sameSet l [.scaling] then one else .error .value
  | .linear s o =>
    let both := do let a ← idx ps 0; let b ← idx ps 1; pure (M.linear a b, 2)
    match dofs with
    | .all => both
    | .names l =>
      if sameSet l [.scaling, .offset] then both
      else if sameSet l [.scaling] then do let a ← idx ps 0; pure (.linear a o, 1)
      else if sameSet l [.offset] then do let a ← idx ps 0; pure (.linear s a, 1)
      else .error .value
  | .het L s o =>
    let both := do let a ← block ps 0 L; let b ← block ps L L; pure (M.het L a b, 2 * L)
    match dofs with
    | .all => both
    | .names l =>
      if sameSet l [.scaling, .offset] then both
      else if sameSet l [.scaling] then do let a ← block ps 0 L; pure (.het L a o, L)
      else if sameSet l [.offset] then do let a ← block ps 0 L; pure (.het L s a, L)
      else .ok (.het L s o, 0)

/-- `CombinedModel.update_model_parameters(parameters)` / `dofs="all"`: every model reads from the
front of the cache, then its `num_parameters` are stripped -/
def updateAll : List M → List Rat → Except Err (List M)
  | [], _ => .ok []
  | m :: ms, ps => do
    let (m', _) ← m.update ps .all
    let ms' ← updateAll ms (ps.drop m.numParams)
    pure (m' :: ms')

/-- `CombinedModel.update_model_parameters(parameters, [(pos, dofs), …])`: the addressed model reads
from the front of the cache, then the parameters it consumed are stripped -/
def updateSubset (ms : List M) : List (Nat × DofSpec) → List Rat → Except Err (List M)
  | [], _ => .ok ms
  | (pos, spec) :: rest, ps =>
    match ms[pos]? with
    | none => .error .index
    | some m => do
      let (m', k) ← m.update ps spec
      updateSubset (setAt ms pos m') rest (ps.drop k)

/-! ### static thresholding -/

/-- strictly between the bounds (upper bound optional) -/
def between (lo : Rat) (hi : Option Rat) (x : Rat) : Bool :=
  decide (lo < x) && (match hi with | none => true | some h => decide (x < h))

/-- homogeneous thresholding of one pixel, restricted to an optional mask bit -/
def thrHom (lo : Rat) (hi : Option Rat) (mask : Option Bool) (p : Pixel) : Bool :=
  between lo hi p.val && mask.getD true

/-- label-wise thresholding: label index `ℓ` uses `lo[ℓ]`, `hi[ℓ]` -/
def thrHet (lo : List Rat) (hi : Option (List Rat)) (mask : Option Bool) (p : Pixel) : Bool :=
  between (listGetD lo p.label 0) (hi.map fun h => listGetD h p.label 0) p.val && mask.getD true

/-! ### polynomial approximation space -/

/-- `PolynomialApproximationSpace(d).size` -/
def polySize (d : Nat) : Nat := (d + 1) * (d + 2) / 2

/-- exponents `(i, j)` of the basis functions `x^i y^j`, in the order of the basis index:
`[(i, j) for i in range(d+1) for j in range(d+1-i)]` -/
def polyExps (d : Nat) : List (Nat × Nat) :=
  (List.range (d + 1)).flatMap fun i => (List.range (d + 1 - i)).map fun j => (i, j)

end Darsia.Sig
