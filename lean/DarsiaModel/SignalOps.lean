/-
Operational models of the label-wise classes of `darsia/signals/models` (C14): built the way the code builds
its result — a LOOP over `np.unique(labels)` with boolean-mask assignment — on label VALUES, with the element type
(dtype) of the result. `DarsiaModel.SignalModels` holds the clause-shaped (pointwise) forms; the two are proved
equal in `DarsiaProofs.SignalOps`.

* `HeterogeneousLinearModel.__call__` (after the `fix:` commit: the result takes the type of `scaling * img + offset`)
* `StaticThresholdModel.__call__` / `_call_homogeneous` / `_call_heterogeneous` incl. the mask / `return_float` tail
* `HeterogeneousModel.__call__` (generic wrapper: `output = zeros(float64)`, `output[mask] = model(signal[mask])`)
* `CombinedModel.__call__` with these
-/
import DarsiaModel.SignalModels
namespace Darsia.Sig

/-- element types that occur -/
inductive DType | u8 | u16 | u32 | u64 | i8 | i16 | i32 | i64 | f16 | f32 | f64 | bool
  deriving DecidableEq, Repr

/-- type of `python_float * array + python_float` (NEP 50: Python floats are weak) -/
def DType.floatOf : DType → DType
  | .f16 => .f16
  | .f32 => .f32
  | _ => .f64

/-- element type of the result of one model (float parameters) -/
def M.outDType : M → DType → DType
  | .clip .., d => d.floatOf
  | .scaling s, d => if closeToOne s then d else d.floatOf
  | .linear .., d => d.floatOf
  | .het .., d => d.floatOf

/-- insert into a strictly increasing list (no duplicates) -/
def insertSorted (x : Nat) : List Nat → List Nat
  | [] => [x]
  | y :: ys => if x = y then y :: ys else if x < y then x :: y :: ys else y :: insertSorted x ys

/-- `np.unique(labels)` -/
def uniqSorted (l : List Nat) : List Nat := l.foldr insertSorted []

/-- position of a label in the unique list (`l_counter`), if present -/
def idxIn : List Nat → Nat → Option Nat
  | [], _ => none
  | y :: ys, l => if l = y then some 0 else (idxIn ys l).map (· + 1)

/-- one pixel through `for i, label in enumerate(uniq): if labels == label: r = f i x r` -/
def loopPix {α β : Type} (f : Nat → β → α → α) : List Nat → Nat → α → Nat → β → α
  | [], _, r, _, _ => r
  | label :: rest, i, r, l, x => loopPix f rest (i + 1) (if l = label then f i x r else r) l x

/-- one sweep of masked assignment over the whole signal -/
def assignMask {α β : Type} (g : β → α → α) (label : Nat) : List α → List Nat → List β → List α
  | r :: rs, l :: ls, x :: xs => (if l = label then g x r else r) :: assignMask g label rs ls xs
  | rs, _, _ => rs

/-- the loop as coded: the result array is swept once per unique label -/
def loopAssign {α β : Type} (f : Nat → β → α → α) : List Nat → Nat → List α → List Nat → List β → List α
  | [], _, res, _, _ => res
  | label :: rest, i, res, labs, xs => loopAssign f rest (i + 1) (assignMask (f i) label res labs xs) labs xs

/-- `HeterogeneousLinearModel.__call__`: `result = zeros; for l_counter, label: result[labels == label] = (s*img + o)[…]` -/
def hetCall (uniq : List Nat) (s o : List Rat) (labs : List Nat) (xs : List Rat) : List Rat :=
  loopAssign (fun i x _ => linF (listGetD s i 0) (listGetD o i 0) x) uniq 0 (xs.map fun _ => 0) labs xs

/-- the whole `HeterogeneousLinearModel.__call__` on a signal of shape `H × W`: the loop enumerates the unique labels
of the ORIGINAL label map (`self.unique_labels`, fixed at construction) and masks on the label map in force
(`cached_labels` = the original or its nearest-neighbour resize) — a label that the resize drops keeps its
position, so the remaining labels keep THEIR scaling / offset -/
def hetCallResized (dev : Dev) (orig : List (List Nat)) (s o : List Rat) (H W : Nat) (xs : List Rat) : List Rat :=
  hetCall (uniqSorted orig.flatten) s o (labelsFor dev orig H W).flatten xs

/-- `HeterogeneousModel.__call__`: `output = zeros; output[mask_i] = model_i(signal[mask_i])` -/
def wrapCall (ms : List M) (labs : List Nat) (xs : List Rat) : List Rat :=
  loopAssign (fun i x r => match ms[i]? with | some m => m.applyPix ⟨i, x⟩ | none => r) (uniqSorted labs) 0
    (xs.map fun _ => 0) labs xs

/-- `HeterogeneousModel.__call__` for arbitrary per-label models `g j : β → α` on pixels of any type `β` (e.g. colour
pixels `(r, g, b)` through a per-label `KernelInterpolation`, the use in `MultichromaticTracerAnalysis`):
`output = zeros(signal.shape[:2]); output[mask_j] = model_j(signal[mask_j])` -/
def wrapCallG {α β : Type} (zero : α) (g : Nat → β → α) (labs : List Nat) (xs : List β) : List α :=
  loopAssign (fun i x _ => g i x) (uniqSorted labs) 0 (xs.map fun _ => zero) labs xs

/-- one model of a `CombinedModel` on the whole signal -/
def M.call (m : M) (labs : List Nat) (xs : List Rat) : List Rat :=
  match m with
  | .het _ s o => hetCall (uniqSorted labs) s o labs xs
  | m => xs.map fun x => m.applyPix ⟨0, x⟩

/-- `CombinedModel.__call__` with the element type of the result -/
def callAll (ms : List M) (labs : List Nat) (d : DType) (xs : List Rat) : DType × List Rat :=
  ms.foldl (fun acc m => (m.outDType acc.1, m.call labs acc.2)) (d, xs)

/-! ### static thresholding, as coded -/

/-- `_call_homogeneous`: `logical_and(img > lo, img < hi)` or `img > lo` -/
def thrHomCall (lo : Rat) (hi : Option Rat) (xs : List Rat) : List Bool :=
  match hi with
  | some h => xs.map fun x => decide (lo < x) && decide (x < h)
  | none => xs.map fun x => decide (lo < x)

/-- `_call_heterogeneous`: `mask = zeros(bool); for i, label: roi = (img > lo[i]) & (img < hi[i]) & (labels == label); mask[roi] = True` -/
def thrHetCall (lo : List Rat) (hi : Option (List Rat)) (labs : List Nat) (xs : List Rat) : List Bool :=
  loopAssign (fun i x r =>
      let t := decide (listGetD lo i 0 < x)
      let t := match hi with | some h => t && decide (x < listGetD h i 0) | none => t
      if t then true else r)
    (uniqSorted labs) 0 (xs.map fun _ => false) labs xs

/-- the tail of `__call__`: without a mask the thresholded array (as float32 if `return_float`), with a mask
`logical_and(threshold_mask, mask)` (always boolean) -/
def thrFinish (returnFloat : Bool) (mask : Option (List Bool)) (tm : List Bool) : DType × List Bool :=
  match mask with
  | none => (if returnFloat then .f32 else .bool, tm)
  | some m => (.bool, List.zipWith (· && ·) tm m)

end Darsia.Sig

namespace Darsia.Sig

/-! ### `CombinedModel.__call__(img, *args)`: sub-models whose `__call__` takes further positional arguments -/

/-- a sub-model of a `CombinedModel`: one of the parameter models (`__call__(self, img)`), or a
`StaticThresholdModel` (`__call__(self, img, mask=None)`) -/
inductive Stage
  | model (m : M)
  | thrHom (lo : Rat) (hi : Option Rat) (rf : Bool)
  | thrHet (lo : List Rat) (hi : Option (List Rat)) (rf : Bool)
  deriving Repr

/-- `model.__call__.__code__.co_argcount − 2`: how many of the extra arguments the sub-model is handed -/
def Stage.extraArity : Stage → Nat
  | .model _ => 0
  | _ => 1

def boolVals (r : DType × List Bool) : DType × List Rat := (r.1, r.2.map fun b => if b then 1 else 0)

/-- one sub-model with the extra arguments it is handed (`model(result)` or `model(result, *args[:arity])`) -/
def Stage.call (st : Stage) (labs : List Nat) (given : List (List Bool)) (d : DType) (xs : List Rat) : DType × List Rat :=
  match st with
  | .model m => (m.outDType d, m.call labs xs)
  | .thrHom lo hi rf => boolVals (thrFinish rf given.head? (thrHomCall lo hi xs))
  | .thrHet lo hi rf => boolVals (thrFinish rf given.head? (thrHetCall lo hi labs xs))

/-- `CombinedModel.__call__(img, *args)`: every sub-model gets the running result and the first `arity` extra arguments -/
def callStages (sts : List Stage) (labs : List Nat) (args : List (List Bool)) (d : DType) (xs : List Rat) : DType × List Rat :=
  sts.foldl (fun acc st => st.call labs (args.take st.extraArity) acc.1 acc.2) (d, xs)

end Darsia.Sig
