/-
C12 — model of `darsia/corrections/color/colorbalance.py`: balances are pairs (A, b) acting on colours as
row vectors, `apply_balance(img) = img @ A + b`; `AdaptiveBalance.find_balance` fits one stage on the swatches
pre-balanced with the balance accumulated so far and folds the stage into the accumulated balance.

`composeCode` is what the code accumulates (after the fix):   A ← A @ A_new,  b ← b @ A_new (+ b_new in affine mode)
`composeCodeOld` is what the unfixed tree accumulated:         A ← A_new @ A,  b ← A_new @ b + b_new in affine mode only
`composeSpec` is sequential application (first the accumulated balance, then the stage balance).
Polymorphic in the scalar type (core operation classes only); executed at `Rat` by the driver.
-/
import DarsiaModel.Affine
namespace Darsia.Balance
open Darsia.Affine

section ops
variable {α : Type} [Add α] [Sub α] [Mul α] [Neg α] [OfNat α 0] [OfNat α 1]

/-- row vector times matrix: `v @ A` -/
def vecMul (v : V3 α) (A : M3 α) : V3 α :=
  ⟨v.x * A.a11 + v.y * A.a21 + v.z * A.a31,
   v.x * A.a12 + v.y * A.a22 + v.z * A.a32,
   v.x * A.a13 + v.y * A.a23 + v.z * A.a33⟩

def V3.zero : V3 α := ⟨0, 0, 0⟩

structure Bal (α : Type) where
  A : M3 α
  b : V3 α

/-- `apply_balance` on one colour -/
def Bal.apply (B : Bal α) (x : V3 α) : V3 α := V3.add (vecMul x B.A) B.b

def Bal.id : Bal α := ⟨M3.one, V3.zero⟩

inductive StageMode | diagonal | linear | affine
  deriving DecidableEq, Repr

/-- result of one stage fit: the balance object created inside `AdaptiveBalance.find_balance`
(`WhiteBalance` / `ColorBalance` have no translation; `b` is only read in affine mode) -/
structure Stage (α : Type) where
  mode : StageMode
  A : M3 α
  b : V3 α

/-- the stage balance as a balance -/
def Stage.bal (s : Stage α) : Bal α := ⟨s.A, if s.mode = .affine then s.b else V3.zero⟩

/-- specification: sequential application, first `prev`, then the stage -/
def composeSpec (prev : Bal α) (s : Stage α) : Bal α :=
  ⟨M3.mul prev.A s.A, V3.add (vecMul prev.b s.A) s.bal.b⟩

/-- the code (fixed): `A = A @ A_new`, `b = b @ A_new`, `+ b_new` only in affine mode -/
def composeCode (prev : Bal α) (s : Stage α) : Bal α :=
  let b1 := vecMul prev.b s.A
  ⟨M3.mul prev.A s.A, if s.mode = .affine then V3.add b1 s.b else b1⟩

/-- the unfixed code: `A = A_new @ A`, `b = A_new @ b + b_new` in affine mode, `b` untouched otherwise -/
def composeCodeOld (prev : Bal α) (s : Stage α) : Bal α :=
  ⟨M3.mul s.A prev.A, if s.mode = .affine then V3.add (s.A.mulVec prev.b) s.b else prev.b⟩

/-- `AdaptiveBalance` after a sequence of `find_balance` calls (stage fits given) -/
def runCode (stages : List (Stage α)) : Bal α := stages.foldl composeCode Bal.id
def runCodeOld (stages : List (Stage α)) : Bal α := stages.foldl composeCodeOld Bal.id

/-- applying the stage balances one after the other -/
def applySeq (stages : List (Stage α)) (x : V3 α) : V3 α := stages.foldl (fun y s => s.bal.apply y) x

/-- least-squares objective of the fits: Σ_i |apply B src_i − dst_i|² -/
def residual (B : Bal α) : List (V3 α × V3 α) → α
  | [] => 0
  | (s, d) :: rest =>
    let r := V3.sub (B.apply s) d
    V3.dot r r + residual B rest

/-! ### round 2: array layouts and the ColorCorrection pipeline -/

/-- `apply_balance` on a flat N×3 array -/
def applyFlat (B : Bal α) (l : List (V3 α)) : List (V3 α) := l.map B.apply
/-- `apply_balance` on an R×C×3 array (e.g. the 4×6×3 swatch layout, or an image): numpy broadcasts over the
leading axes, the matrix acts on the last axis -/
def applyGrid (B : Bal α) (g : List (List (V3 α))) : List (List (V3 α)) := g.map fun row => row.map B.apply

/-- `reshape((-1, C, 3))` of a flat array: rows of length `n` (fuel = number of elements) -/
def chunkAux {β : Type} (n : Nat) : Nat → List β → List (List β)
  | 0, _ => []
  | fuel + 1, l => if l.isEmpty then [] else l.take n :: chunkAux n fuel (l.drop n)
def chunk {β : Type} (n : Nat) (l : List β) : List (List β) := chunkAux n l.length l

/-- `ColorCorrection.correct_array` with `balancing = "darsia"`: an AdaptiveBalance gets (optionally) a diagonal stage
fitted on the grey row `swatches[-1]` and then a linear / affine stage fitted on the colour rows `swatches[:-1]`
(pre-balanced by the first stage); the accumulated balance is applied to every pixel. The two fitted stages are given. -/
def pipelineStages (whitebalancing : Bool) (wb col : Stage α) : List (Stage α) :=
  if whitebalancing then [wb, col] else [col]

def pipeline (whitebalancing : Bool) (wb col : Stage α) (img : List (List (V3 α))) : List (List (V3 α)) :=
  applyGrid (runCode (pipelineStages whitebalancing wb col)) img

end ops
/-! ### round 6: long-lived balance objects — `reset()` between stages -/

section resetops
variable {α : Type} [Add α] [Sub α] [Mul α] [Neg α] [OfNat α 0] [OfNat α 1]

/-- operations on one AdaptiveBalance object: a stage fit (`find_balance`) or `reset()` (back to the identity: scaling AND
translation) -/
inductive BalOp (α : Type)
  | stage (s : Stage α)
  | reset

def balStep (B : Bal α) : BalOp α → Bal α
  | .stage s => composeCode B s
  | .reset => Bal.id

def runOps (ops : List (BalOp α)) : Bal α := ops.foldl balStep Bal.id

end resetops

/-! ### round 3: `clip = True` of ColorCorrection (values outside [0, 1] are clipped after balancing) -/

def clip01 (x : Rat) : Rat := max 0 (min x 1)
def clipV3 (v : V3 Rat) : V3 Rat := ⟨clip01 v.x, clip01 v.y, clip01 v.z⟩

/-- `ColorCorrection.correct_array` (balancing = "darsia") including the optional clipping; the final `.astype(float32)`
is a rounding of each value and is not modelled (the tie uses values that float32 represents exactly) -/
def pipelineClip (whitebalancing clip : Bool) (wb col : Stage Rat) (img : List (List (V3 Rat))) : List (List (V3 Rat)) :=
  let out := pipeline whitebalancing wb col img
  if clip then out.map (fun row => row.map clipV3) else out

end Darsia.Balance

