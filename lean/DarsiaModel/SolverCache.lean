/-
State logic of the cached linear solver of `VariationalWassersteinDistance.linear_solve(matrix, rhs, reuse_solver)`
(C08), refining builder e's `Stateful.WObj` (C16) by formulation and back-end:

* `setup_linear_solver = not reuse_solver or not hasattr(self, "linear_solver")`;
* `setup_direct_solver(M)`  : LU factors of a SNAPSHOT of `M`;
* `setup_amg_solver(M)`     : multigrid hierarchy of a snapshot of `M` (operator and preconditioner);
* `setup_cg_solver(M)`      : `CG(M)` keeps a REFERENCE to `M`, its AMG preconditioner is a snapshot;
* "pressure": the matrix handed to the solver is the one cached object `self.fully_reduced_jacobian`, whose `data`
  is overwritten in place by every `eliminate_lagrange_multiplier` call; "flux_reduced" / "full" hand over a new object.

A matrix is identified by an id (two calls with the same id pass the same matrix). A solve reports which matrix
the INNER solve (full matrix / Schur system in `(p, lam)` / pinned Schur system, always with the right-hand side of the
current call) uses the operator of (`used`), which matrix the preconditioner belongs to, and whether the solver
was set up in this call. Core Lean only.
-/
import DarsiaModel.Stateful
namespace Darsia.SolverCache
open Darsia

abbrev MatId := Nat × Nat

inductive Formulation | full | fluxReduced | pressure
  deriving DecidableEq, Repr
inductive Backend | direct | amg | cg
  deriving DecidableEq, Repr

/-- the cached `self.linear_solver` -/
structure Solver where
  /-- matrix whose system `solve` solves: a snapshot taken at set-up, or `none` = the live, in-place updated
  `fully_reduced_jacobian` (always the matrix of the current call) -/
  solves : Option MatId
  /-- matrix the preconditioner / hierarchy was built from (`none`: direct solver) -/
  precond : Option MatId
  deriving DecidableEq, Repr

structure State where
  solver : Option Solver
  deriving DecidableEq, Repr

def fresh : State := { solver := none }

structure Out where
  used : MatId
  precond : Option MatId
  setup : Bool
  deriving DecidableEq, Repr

/-- the solver object `setup_*_solver` builds for the matrix of this call -/
def build (f : Formulation) (b : Backend) (m : MatId) : Solver :=
  match b with
  | .direct => { solves := some m, precond := none }
  | .amg => { solves := some m, precond := some m }
  | .cg => { solves := if f = .pressure then none else some m, precond := some m }

/-- `linear_solve(matrix, rhs, reuse_solver)`; the full formulation only admits the direct back-end (assert) -/
def linearSolve (f : Formulation) (b : Backend) (st : State) (m : MatId) (reuse : Bool) : Except Err (State × Out) :=
  if f = .full ∧ b ≠ .direct then .error .assertion else
  let setup := !reuse || st.solver.isNone
  let s := if setup then build f b m else st.solver.getD (build f b m)
  .ok ({ solver := some s }, { used := s.solves.getD m, precond := s.precond, setup := setup })

/-- a sequence of calls on one object -/
def run (f : Formulation) (b : Backend) : State → List (MatId × Bool) → Except Err (State × List Out)
  | st, [] => .ok (st, [])
  | st, (m, r) :: rest =>
    match linearSolve f b st m r with
    | .error e => .error e
    | .ok (st', o) =>
      match run f b st' rest with
      | .error e => .error e
      | .ok (st'', os) => .ok (st'', o :: os)

end Darsia.SolverCache
