/-
C09 (round 2) — model of `GeneralizedPerspectiveTransformation.inverse_array`
(darsia/corrections/shape/generalizedperspective.py), as the code is:

  1. perspective     y = (A x + b) / (c·x + 1)                                   (both components divided by the same scalar)
  2. bulge           r = y − center − bulge_center_off;   rmax/rmin = max/min_coordinate − center − bulge_center_off
                     y_i += bulge_factor_i · r_i · (rmax_i − r_i) · (r_i − rmin_i)
  3. stretch         r = y − center * stretch_center_off  (sic: a product);  rmax/rmin = max/min − center − stretch_center_off
                     y_0 += stretch_factor_0 · r_0 · (rmax_1 − r_1) · (r_1 − rmin_1)
                     y_1 += stretch_factor_1 · r_1 · (rmax_0 − r_0) · (r_0 − rmin_0)

`call_array` (the forward map) raises NotImplementedError in the code and is not modelled.
Polymorphic scalar type (core operation classes), executed at `Rat` by the driver.
-/
import DarsiaModel.Affine
namespace Darsia.GenPerspective
open Darsia.Affine

structure GP (α : Type) where
  A : M2 α
  b : V2 α
  c : V2 α
  stretchFactor : V2 α
  stretchOff : V2 α
  bulgeFactor : V2 α
  bulgeOff : V2 α
  center : V2 α
  maxC : V2 α
  minC : V2 α

section ops
variable {α : Type} [Add α] [Sub α] [Mul α] [Neg α] [Div α] [OfNat α 0] [OfNat α 1]

/-- step 1 -/
def GP.perspective (p : GP α) (x : V2 α) : V2 α :=
  let y := V2.add (p.A.mulVec x) p.b
  let s := V2.dot p.c x + 1
  ⟨y.x / s, y.y / s⟩

/-- the scalar every component is divided by -/
def GP.denom (p : GP α) (x : V2 α) : α := V2.dot p.c x + 1

/-- step 2 -/
def GP.bulge (p : GP α) (y : V2 α) : V2 α :=
  let r : V2 α := ⟨y.x - p.center.x - p.bulgeOff.x, y.y - p.center.y - p.bulgeOff.y⟩
  let rmax : V2 α := ⟨p.maxC.x - p.center.x - p.bulgeOff.x, p.maxC.y - p.center.y - p.bulgeOff.y⟩
  let rmin : V2 α := ⟨p.minC.x - p.center.x - p.bulgeOff.x, p.minC.y - p.center.y - p.bulgeOff.y⟩
  ⟨y.x + p.bulgeFactor.x * r.x * (rmax.x - r.x) * (r.x - rmin.x),
   y.y + p.bulgeFactor.y * r.y * (rmax.y - r.y) * (r.y - rmin.y)⟩

/-- step 3 -/
def GP.stretch (p : GP α) (y : V2 α) : V2 α :=
  let r : V2 α := ⟨y.x - p.center.x * p.stretchOff.x, y.y - p.center.y * p.stretchOff.y⟩
  let rmax : V2 α := ⟨p.maxC.x - p.center.x - p.stretchOff.x, p.maxC.y - p.center.y - p.stretchOff.y⟩
  let rmin : V2 α := ⟨p.minC.x - p.center.x - p.stretchOff.x, p.minC.y - p.center.y - p.stretchOff.y⟩
  ⟨y.x + p.stretchFactor.x * r.x * (rmax.y - r.y) * (r.y - rmin.y),
   y.y + p.stretchFactor.y * r.y * (rmax.x - r.x) * (r.x - rmin.x)⟩

/-- `inverse_array` on one point -/
def GP.inverse (p : GP α) (x : V2 α) : V2 α := p.stretch (p.bulge (p.perspective x))

/-- the default state of the constructor (identity), with the image box given -/
def GP.default (center maxC minC : V2 α) : GP α :=
  ⟨M2.one, ⟨0, 0⟩, ⟨0, 0⟩, ⟨0, 0⟩, ⟨0, 0⟩, ⟨0, 0⟩, ⟨0, 0⟩, center, maxC, minC⟩

/-- purely affine parameters: no perspective division, no bulge, no stretch -/
def GP.affine (A : M2 α) (b center maxC minC : V2 α) : GP α :=
  ⟨A, b, ⟨0, 0⟩, ⟨0, 0⟩, ⟨0, 0⟩, ⟨0, 0⟩, ⟨0, 0⟩, center, maxC, minC⟩

/-- adjugate of a 2×2 matrix -/
def M2.adj (A : M2 α) : M2 α := ⟨A.a22, -A.a12, -A.a21, A.a11⟩

/-- the map that undoes the affine sub-case: y ↦ adj(A)·(y − b) / det A -/
def affineUndo (A : M2 α) (b : V2 α) (y : V2 α) : V2 α :=
  let z := (M2.adj A).mulVec (V2.sub y b)
  ⟨z.x / A.det, z.y / A.det⟩

end ops
end Darsia.GenPerspective
