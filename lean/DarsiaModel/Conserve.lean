/-
Models for C11 (resampling and axis reduction conserve integrals), on top of `DarsiaModel.Resample`.
Arrays are functions of a multi-index together with a shape; exact rational arithmetic.

  * `conservativeResize2` — `Resize(interpolation="inter_area", conservative)` (restoration/resize.py):
    `cv2.resize(INTER_AREA)` per channel, then `*= prod(in shape) / prod(out shape)`;
  * `refineAll`, `coarsenAll` — one level of `uniform_refinement` (`np.repeat(.., 2)` along every axis;
    pairwise weighted sum along every axis with the code's handling of odd extents:
    `array = 0.5 * a[0::2]; array[: n // 2] += 0.5 * a[1::2]`);
  * `reduceAxis` — `AxisReduction` (`np.sum(axis)`, divided by the extent for "average");
  * `extrude` — `extrude_along_axis`;
  * `superpose` — `darsia.superpose` for images on voxel-aligned grids of one voxel size (warp by an
    integer shift onto the common canvas, zero outside, then add).
-/
import DarsiaModel.Resample
namespace Darsia

/-- `Resize(... conservative)`: area resampling times the ratio of pixel counts -/
def conservativeResize2 (n1 n2 m1 m2 : Nat) (f : Nat → Nat → Rat) (j1 j2 : Nat) : Rat :=
  areaResize2 n1 n2 m1 m2 f j1 j2 * (((n1 * n2 : Nat) : Rat) / ((m1 * m2 : Nat) : Rat))

/-! ### uniform refinement / coarsening -/

def twos : List Nat → List Nat
  | [] => []
  | _ :: ns => 2 :: twos ns

/-- one refinement level: every axis repeated twice -/
def refineAll (shape : List Nat) (f : List Nat → Rat) : List Nat → Rat :=
  fun idx => f (divIdx idx (twos shape))

def refinedShape (shape : List Nat) : List Nat := mulShape shape (twos shape)

/-- extent after one coarsening step: `len(a[0::2])` -/
def halfUp (n : Nat) : Nat := (n + 1) / 2

/-- one axis: `0.5 * a[0::2]`, plus `0.5 * a[1::2]` on the first `n // 2` entries -/
def coarsen1 (n : Nat) (g : Nat → Rat) (j : Nat) : Rat :=
  g (2 * j) / 2 + (if j < n / 2 then g (2 * j + 1) / 2 else 0)

/-- one coarsening level: every axis in turn -/
def coarsenAll : List Nat → (List Nat → Rat) → List Nat → Rat
  | [], f, _ => f []
  | n :: ns, f, j :: js => coarsen1 n (fun i => coarsenAll ns (fun is => f (i :: is)) js) j
  | _ :: _, _, [] => 0

def coarsenedShape : List Nat → List Nat
  | [] => []
  | n :: ns => halfUp n :: coarsenedShape ns

def allEven : List Nat → Bool
  | [] => true
  | n :: ns => decide (n % 2 = 0) && allEven ns

/-- physical integral of an image: voxel volume × sum; voxel volume = Π dimensionsᵢ / shapeᵢ -/
def voxelVol : List Rat → List Nat → Rat
  | d :: ds, n :: ns => d / (n : Rat) * voxelVol ds ns
  | _, _ => 1

def integral (dims : List Rat) (shape : List Nat) (f : List Nat → Rat) : Rat :=
  voxelVol dims shape * sumBox shape f

/-! ### reduction along an axis, extrusion -/

def insertAt : Nat → Nat → List Nat → List Nat
  | 0, i, idx => i :: idx
  | a + 1, i, j :: js => j :: insertAt a i js
  | _ + 1, i, [] => [i]

def eraseAt {α} : Nat → List α → List α
  | 0, _ :: xs => xs
  | a + 1, x :: xs => x :: eraseAt a xs
  | _, [] => []

/-- `np.sum(img, axis=a)`, divided by the extent for mode "average" -/
def reduceAxis (average : Bool) (a : Nat) (shape : List Nat) (f : List Nat → Rat) : List Nat → Rat :=
  fun idx =>
    let s := sumRange (listGetD shape a 0) fun i => f (insertAt a i idx)
    if average then s / ((listGetD shape a 0 : Nat) : Rat) else s

/-- `extrude_along_axis(img, height, num)`: `num` copies along a new leading axis -/
def extrude (f : List Nat → Rat) : List Nat → Rat
  | _ :: idx => f idx
  | [] => 0

/-! ### superposition on a common canvas (one voxel size, voxel-aligned offsets) -/

structure Placed where
  offset : List Nat
  shape : List Nat
  val : List Nat → Rat

/-- an array of shape `shape` placed at `offset` in a larger canvas, zero elsewhere -/
def shiftAt : List Nat → List Nat → (List Nat → Rat) → List Nat → Rat
  | [], [], f, [] => f []
  | o :: os, n :: ns, f, i :: is =>
    if o ≤ i ∧ i - o < n then shiftAt os ns (fun js => f ((i - o) :: js)) is else 0
  | _, _, _, _ => 0

/-- value of a placed image at a canvas voxel: the image value if the voxel lies in the image, else 0 -/
def Placed.at (p : Placed) (idx : List Nat) : Rat := shiftAt p.offset p.shape p.val idx

/-- an image on the common voxel lattice of a 2-D superposition: position of its first row / column in voxel units
(rows counted downwards from a reference line, i.e. along matrix axis 0), shape, values -/
structure PlacedZ where
  top : Int
  left : Int
  rows : Nat
  cols : Nat
  val : List Nat → Rat

def minOf : List Int → Int
  | [] => 0
  | [x] => x
  | x :: xs => min x (minOf xs)

def maxOf : List Int → Int
  | [] => 0
  | [x] => x
  | x :: xs => max x (maxOf xs)

/-- `darsia.superpose`: the canvas spans the extremal corners of all images (origin = minimal x / maximal y, opposite
corner = maximal x / minimal y), in voxel units: first row / column and shape -/
structure Canvas where
  top : Int
  left : Int
  shape : List Nat

def canvasOf (imgs : List PlacedZ) : Canvas :=
  let t := minOf (imgs.map (·.top))
  let l := minOf (imgs.map (·.left))
  let b := maxOf (imgs.map fun p => p.top + p.rows)
  let r := maxOf (imgs.map fun p => p.left + p.cols)
  { top := t, left := l, shape := [(b - t).toNat, (r - l).toNat] }

/-- where an image lands on the canvas (`coordinatesystem.voxel(origin)` of the canvas) -/
def onCanvas (c : Canvas) (p : PlacedZ) : Placed :=
  { offset := [(p.top - c.top).toNat, (p.left - c.left).toNat], shape := [p.rows, p.cols], val := p.val }

def superpose (imgs : List Placed) (idx : List Nat) : Rat :=
  (imgs.map fun p => p.at idx).foldr (· + ·) 0

/-! ### metadata of `Resize` and `equalize_voxel_size` (restoration/resize.py) -/

/-- what `Resize.__call__` returns for an Image: the resized array with the metadata of the input
(`type(img)(resized_img_array, **img.metadata())`): dimensions and origin are kept, the voxel size follows -/
structure ImgMeta where
  shape : List Nat
  dims : List Rat
  origin : List Rat

def ImgMeta.voxelSize (m : ImgMeta) : List Rat := List.zipWith (fun (d : Rat) (n : Nat) => d / (n : Rat)) m.dims m.shape

def resizeMeta (m : ImgMeta) (target : List Nat) : ImgMeta := { m with shape := target }

def minRat : List Rat → Rat
  | [] => 0
  | [x] => x
  | x :: xs => if x ≤ minRat xs then x else minRat xs

/-- number of voxels `equalize_voxel_size` asks for along an axis of extent `d`: `int(floor(d / voxel_size + 0.5))`
(after the `fix:` commit; before it `int(d / voxel_size)`, which loses a voxel when the float quotient of an exactly
integral ratio falls below the integer) -/
def equalizeCount (vs d : Rat) : Nat := (Rat.floor (d / vs + 1 / 2)).toNat

/-- `equalize_voxel_size(image, voxel_size)`: target shape; `voxel_size = None` means the smallest voxel side -/
def equalizeShape (m : ImgMeta) (vs : Option Rat) : List Nat :=
  let v := vs.getD (minRat m.voxelSize)
  m.dims.map (equalizeCount v)

def equalizeMeta (m : ImgMeta) (vs : Option Rat) : ImgMeta := resizeMeta m (equalizeShape m vs)

/-! ### multi-level coarsening exactly as coded -/

/-- One coarsening step of `uniform_refinement` along one axis, as coded: `orig` is the extent of the ORIGINAL image
(`image.img.shape[i]`, also at later levels), `cur` the current extent.
`array = 0.5 * a[0::2]; array[0 : orig // 2] += 0.5 * a[1::2]` with numpy's rules: the left slice has
`min(orig // 2, len(a[0::2]))` entries, the right-hand side `cur // 2`; equal lengths add entry-wise, a right-hand side
of length 1 is broadcast, anything else raises `ValueError`. -/
def coarsenCoded1 (orig cur : Nat) (g : Nat → Rat) : Except Err (Nat → Rat) :=
  let l := min (orig / 2) (halfUp cur)
  let s := cur / 2
  if s = l then .ok fun j => g (2 * j) / 2 + (if j < l then g (2 * j + 1) / 2 else 0)
  else if s = 1 then .ok fun j => g (2 * j) / 2 + (if j < l then g 1 / 2 else 0)
  else .error .value

/-- `levels` coarsening steps of a 1-D array of extent `n`; returns the final extent and array -/
def coarsenCodedLevels (orig : Nat) : Nat → Nat → (Nat → Rat) → Except Err (Nat × (Nat → Rat))
  | 0, cur, g => .ok (cur, g)
  | l + 1, cur, g =>
    match coarsenCoded1 orig cur g with
    | .error e => .error e
    | .ok g' => coarsenCodedLevels orig l (halfUp cur) g'

/-- `levels` coarsening steps as coded AFTER the `fix:` commit: every level uses its current extent
(`coarsenCodedLevels` with a fixed `orig` describes the code before it) -/
def coarsenLevels : Nat → Nat → (Nat → Rat) → Except Err (Nat × (Nat → Rat))
  | 0, cur, g => .ok (cur, g)
  | l + 1, cur, g =>
    match coarsenCoded1 cur cur g with
    | .error e => .error e
    | .ok g' => coarsenLevels l (halfUp cur) g'

/-- the ideal `levels`-fold pairwise averaging of an extent divisible by `2^levels` -/
def coarsenIdeal : Nat → Nat → (Nat → Rat) → Nat × (Nat → Rat)
  | 0, cur, g => (cur, g)
  | l + 1, cur, g => coarsenIdeal l (halfUp cur) (coarsen1 cur g)

/-! ### a long-lived `Resize` object (fixed target shape, re-used on inputs of different shapes) -/

/-- the object's options and what it could remember between calls (`cachedRatio`: a ratio of voxel counts kept from an
earlier call — the committed code keeps nothing, `keep = false`; `keep = true` models a cache set in the first call) -/
structure ResizeObj where
  m1 : Nat
  m2 : Nat
  conservative : Bool
  cachedRatio : Option Rat

def ResizeObj.call (keep : Bool) (o : ResizeObj) (n1 n2 : Nat) (f : Nat → Nat → Rat) : ResizeObj × (Nat → Nat → Rat) :=
  let ratio := ((n1 * n2 : Nat) : Rat) / ((o.m1 * o.m2 : Nat) : Rat)
  let used := if keep then o.cachedRatio.getD ratio else ratio
  ({ o with cachedRatio := some used },
    fun j1 j2 => areaResize2 n1 n2 o.m1 o.m2 f j1 j2 * (if o.conservative then used else 1))

/-- the object after a history of calls -/
def ResizeObj.after (keep : Bool) (o : ResizeObj) : List (Nat × Nat × (Nat → Nat → Rat)) → ResizeObj
  | [] => o
  | (n1, n2, f) :: rest => ResizeObj.after keep (o.call keep n1 n2 f).1 rest

end Darsia
