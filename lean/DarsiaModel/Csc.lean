/-
Faithful model of the hand-written CSC surgery in
`VariationalWassersteinDistance.setup_eliminate_lagrange_multiplier` /
`eliminate_lagrange_multiplier` (C08): removal of the pinned pressure row/column (and, implicitly,
of the multiplier row/column) from the flux-eliminated matrix by editing `(data, indices, indptr)`.

The model follows the numpy operations one by one (`np.arange`, `np.where`, `np.unique`,
`np.delete`, index shift, the `indptr[row+1:] -= 1` loop, `np.unique(indptr)`, the length assert).
Core Lean only.
-/
import DarsiaModel.Basic
namespace Darsia.Csc
open Darsia

/-- a scipy `csc_matrix` as its three arrays (square, `indptr.length - 1` columns) -/
structure CSC (α : Type) where
  data : List α
  indices : List Nat
  indptr : List Nat
  deriving DecidableEq, Repr

variable {α : Type}

def CSC.ncols (m : CSC α) : Nat := m.indptr.length - 1

/-- `np.arange(a, b)` -/
def arange (a b : Nat) : List Nat := (List.range (b - a)).map (· + a)

/-- `np.where(xs == k)[0]` -/
def whereEq (xs : List Nat) (k : Nat) : List Nat :=
  (List.range xs.length).filter fun p => xs.getD p 0 == k

/-- `np.unique` on naturals: sorted, duplicates removed -/
def unique (xs : List Nat) : List Nat :=
  (List.range (xs.foldl max 0 + 1)).filter fun v => xs.contains v

/-- positions that survive `np.delete(·, rm)` on an array of length `n`, in order -/
def keptPos (n : Nat) (rm : List Nat) : List Nat := (List.range n).filter fun p => !rm.contains p

/-- `np.delete(xs, rm)`: the kept positions, in order (`d` is never used for in-range positions) -/
def deleteAt {β : Type} (d : β) (xs : List β) (rm : List Nat) : List β :=
  (keptPos xs.length rm).map fun p => xs.getD p d

/-- `np.max(np.where(indptr <= idx)[0])` (0 when empty; never empty for a valid position) -/
def lastLe (indptr : List Nat) (idx : Nat) : Nat :=
  ((List.range indptr.length).filter fun j => indptr.getD j 0 ≤ idx).foldl max 0

/-- `indptr[row+1:] -= 1` -/
def decFrom (indptr : List Nat) (row : Nat) : List Nat :=
  ((List.range indptr.length).zip indptr).map fun (j, v) => if row + 1 ≤ j then v - 1 else v

/-- `rm_indices` of `setup_eliminate_lagrange_multiplier`: all entries of column `k` and all entries
with row index `k` -/
def rmIndices (indices indptr : List Nat) (k : Nat) : List Nat :=
  unique (arange (indptr.getD k 0) (indptr.getD (k + 1) 0) ++ whereEq indices k)

/-- the structural part of the surgery (depends on the sparsity pattern only):
`(rm_indices, indices', indptr')`; `.error .assertion` mirrors
`assert len(indptr') == len(indptr) - 2`. -/
def surgeryPattern (indices indptr : List Nat) (k : Nat) : Except Err (List Nat × List Nat × List Nat) :=
  let rm := rmIndices indices indptr k
  let rmRows := rm.map (lastLe indptr)
  let indices' := (deleteAt 0 indices rm).map fun i => if k < i then i - 1 else i
  let indptr' := unique (rmRows.foldl decFrom indptr)
  if indptr'.length + 2 = indptr.length then .ok (rm, indices', indptr') else .error .assertion

/-- the whole surgery of `setup_eliminate_lagrange_multiplier` -/
def surgery [OfNat α 0] (m : CSC α) (k : Nat) : Except Err (CSC α) :=
  match surgeryPattern m.indices m.indptr k with
  | .error e => .error e
  | .ok (rm, indices', indptr') => .ok ⟨deleteAt 0 m.data rm, indices', indptr'⟩

/-- later calls (`eliminate_lagrange_multiplier`): only the data is refreshed, through the cached
`rm_indices`; indices / indptr are the cached ones -/
def refresh [OfNat α 0] (cached : CSC α) (rm : List Nat) (newData : List α) : CSC α :=
  { cached with data := deleteAt 0 newData rm }

/-! ### dense semantics -/

/-- storage positions contributing to entry `(i, j)` -/
def entryPos (indices indptr : List Nat) (i j : Nat) : List Nat :=
  (arange (indptr.getD j 0) (indptr.getD (j + 1) 0)).filter fun p => indices[p]? == some i

def sumL [Add α] [OfNat α 0] (xs : List α) : α := xs.foldl (· + ·) 0

/-- the represented matrix entry (duplicates summed, as scipy does) -/
def entry [Add α] [OfNat α 0] (m : CSC α) (i j : Nat) : α :=
  sumL ((entryPos m.indices m.indptr i j).map fun p => m.data.getD p 0)

/-- column-major dense form: list of columns -/
def toDenseT [Add α] [OfNat α 0] (m : CSC α) (nrows : Nat) : List (List α) :=
  (List.range m.ncols).map fun j => (List.range nrows).map fun i => entry m i j

/-- dense reference: drop rows and columns `k` and `last` -/
def dropRowCol {β : Type} (d : β) (a : List (List β)) (k last : Nat) : List (List β) :=
  (deleteAt [] a [k, last]).map fun row => deleteAt d row [k, last]

/-- index of the reduced system → index of the unreduced one (skips `k`) -/
def up (k i : Nat) : Nat := if i < k then i else i + 1

/-- Per-pattern certificate: the surgery succeeds and every entry `(i, j)` of the result is stored at
exactly the (kept) positions at which the original stores entry `(up i, up j)`. Depends on the
sparsity pattern only; evaluated by the driver for every grid shape. -/
def surgeryCheck (indices indptr : List Nat) (k : Nat) : Bool :=
  match surgeryPattern indices indptr k with
  | .error _ => false
  | .ok (rm, indices', indptr') =>
    let kept := keptPos indices.length rm
    let n' := indptr'.length - 1
    (List.range n').all fun j =>
      let new := (arange (indptr'.getD j 0) (indptr'.getD (j + 1) 0)).map fun q => (indices'[q]?, q)
      let old := (arange (indptr.getD (up k j) 0) (indptr.getD (up k j + 1) 0)).map fun p => (indices[p]?, p)
      new.all (fun x => x.2 < kept.length) &&
      (List.range n').all fun i =>
        ((new.filter fun x => x.1 == some i).map fun x => kept.getD x.2 0)
          == (old.filter fun x => x.1 == some (up k i)).map (·.2)

/-- well-formedness of the input CSC and of the pattern around the pinned cell, i.e. what the
surgery silently relies on (decidable; evaluated on every grid shape by the check):
* `indptr` starts at 0, is monotone and ends at `nnz`; row indices in range;
* the last column only has entries in row `k`, the last row only has entries in column `k`
  (the multiplier couples to the pinned cell only);
* every other column keeps at least one entry outside row `k` (so `np.unique(indptr)` merges exactly
  the two emptied columns). -/
def patternOk (indices indptr : List Nat) (k : Nat) : Bool :=
  let n := indptr.length - 1
  let colRows := fun j => (arange (indptr.getD j 0) (indptr.getD (j + 1) 0)).map fun p => indices.getD p n
  decide (2 ≤ indptr.length) &&
  decide (k + 1 < n) &&
  (indptr.getD 0 1 == 0) && (indptr.getD n 0 == indices.length) &&
  (List.range n).all (fun j => indptr.getD j 0 ≤ indptr.getD (j + 1) 0) &&
  indices.all (fun i => i < n) &&
  (colRows (n - 1)).all (fun i => i == k) &&
  (List.range n).all (fun j => j == k || (colRows j).all fun i => i != n - 1) &&
  (List.range n).all (fun j => j == k || j == n - 1 || (colRows j).any fun i => i != k)

end Darsia.Csc
