/-
`Image.slice(cut, axis)` (C20, round 4): which matrix axis and which index along it a slice selects, when the axis is
addressed by its Cartesian NAME with a physical cut position, and when it is addressed by its matrix INDEX with a voxel
index. Mirrors `darsia/image/image.py: Image.slice`. Built on the coordinate-system model (C01). Core Lean only.
-/
import DarsiaModel.Coord
namespace Darsia

/-- `"xyz"[:dim].find(axis)` as numpy uses it to WRITE the cut: position of a valid Cartesian name, `-1` (= last
component) for anything else -/
def cutComponent (d : Dim) (a : Ax) : Nat := if a.isCart && decide (a.pos < d.toNat) then a.pos else d.toNat - 1

/-- `"ijk".find(m)` for an axis name returned by `to_matrix_indexing` -/
def matIndex (m : Ax) : Except Err Nat := if m.isCart then .error .index else .ok m.pos

/-- `Image.slice(cut, name)`: `full_coordinate = zeros(dim); full_coordinate[find(name)] = cut;
cut_voxel = coordinatesystem.voxel(full_coordinate); axis = "ijk".find(to_matrix_indexing(name, "xyz"[:dim]));
cut = cut_voxel[axis]` → the (matrix axis, index) handed to the array indexing `img[:, …, cut]` -/
def sliceByName (cs : CS) (a : Ax) (cut : Rat) : Except Err (Nat × Int) := do
  let full := setAt (List.replicate cs.dim.toNat (0 : Rat)) (cutComponent cs.dim a) cut
  let vox ← cs.voxel full
  let m ← Gen.toMatrix (.name a) cs.dim.cart
  let p ← matIndex m
  pure (p, listGetD vox p 0)

/-- `Image.slice(v, p)` with an integer axis: the pair is used as given (`assert`ed to be a spatial axis by `reduce_axis`) -/
def sliceByIndex (cs : CS) (p : Nat) (v : Int) : Except Err (Nat × Int) :=
  if p < cs.dim.toNat then .ok (p, v) else .error .assertion

/-- the cut coordinate of a point at offset `t` inside voxel layer `v` of the matrix axis `(p, r)` that Cartesian axis
`i` maps to: `origin_i ± (v + t) · voxel_size_p` -/
def layerCoordinate (cs : CS) (i : Nat) (pr : Nat × Bool) (v : Nat) (t : Rat) : Rat :=
  listGetD cs.origin i 0 + sgn pr.2 * (((v : Nat) : Rat) + t) * cs.h pr.1

end Darsia
