/-
C10 (round 3) — OPERATIONAL model of `BaseCorrection.__call__` on a small heap, built the way the code builds its
result: array buffers with identity, the `image.img.copy()` of copy mode, the per-slice loop over `range(time_num)` handing
`correct_array` a VIEW of a buffer, `np.stack` into a fresh buffer, and `correct_array` as an EFFECTFUL routine that may
write through its argument (`w`) and may return its argument instead of a fresh array (`ret = .arg`).

`SliceSrc` records which buffer the per-slice loop takes its views from:
  `.original`  views of `image.img` even in copy mode                      (the tree before the round-3 fix)
  `.work`      views of `img` (= the copy in copy mode, image.img itself in overwrite mode)   (the code now)
-/
import DarsiaModel.Basic
namespace Darsia.CorrHeap

abbrev Slice := List Int

/-- an array buffer: `len` time slices (a single image has one) -/
structure Buf where
  len : Nat
  get : Nat → Slice

structure Heap where
  next : Nat
  buf : Nat → Buf

def Heap.alloc (h : Heap) (b : Buf) : Heap × Nat :=
  ({ next := h.next + 1, buf := fun i => if i = h.next then b else h.buf i }, h.next)

def Heap.setSlice (h : Heap) (b t : Nat) (s : Slice) : Heap :=
  { h with buf := fun i => if i = b then { (h.buf b) with get := fun k => if k = t then s else (h.buf b).get k }
                           else h.buf i }

inductive Ret | fresh | arg
  deriving DecidableEq, Repr

/-- a `correct_array`: value of the returned array as a function of the argument's contents, an optional in-place write
into the argument, and whether the returned object is the argument itself -/
structure Eff where
  f : Slice → Slice
  w : Option (Slice → Slice)
  ret : Ret

/-- contents of the argument after the call -/
def Eff.after (e : Eff) (x : Slice) : Slice := match e.w with | some w => w x | none => x
/-- contents of the returned array -/
def Eff.result (e : Eff) (x : Slice) : Slice := match e.ret with | .fresh => e.f x | .arg => e.after x

/-- `correct_array(view of slice t of buffer b)`: heap afterwards and the returned values -/
def runCA (e : Eff) (h : Heap) (b t : Nat) : Heap × Slice :=
  let x := (h.buf b).get t
  (match e.w with | some _ => h.setSlice b t (e.after x) | none => h, e.result x)

inductive SliceSrc | original | work
  deriving DecidableEq, Repr

/-- the per-slice loop: `for time_index in range(n): corrected_slices.append(correct_array(view))` -/
def sliceLoop (e : Eff) (h : Heap) (b n : Nat) : Heap × List Slice :=
  (List.range n).foldl (fun (st : Heap × List Slice) t =>
    let r := runCA e st.1 b t
    (r.1, st.2 ++ [r.2])) (h, [])

def bufOfList (l : List Slice) : Buf := ⟨l.length, fun k => l.getD k []⟩

structure Obj (Meta : Type) where
  tag : Nat
  buf : Nat
  series : Bool
  md : Meta

/-- `img = image.img if overwrite else image.img.copy()` : (heap, buffer id of `img`) -/
def workOf {Meta : Type} (h : Heap) (o : Obj Meta) (overwrite : Bool) : Heap × Nat :=
  if overwrite then (h, o.buf) else h.alloc (h.buf o.buf)

/-- the data part: per-slice loop + `np.stack` for a series, one `correct_array(img)` otherwise;
returns (heap, buffer id of the corrected data) -/
def dataStep {Meta : Type} (src : SliceSrc) (e : Eff) (h1 : Heap) (o : Obj Meta) (work : Nat) : Heap × Nat :=
  if o.series then
    let from_ := match src with | .original => o.buf | .work => work
    let l := sliceLoop e h1 from_ (h1.buf from_).len
    l.1.alloc (bufOfList l.2)
  else
    let r := runCA e h1 work 0
    match e.ret with
    | .arg => (r.1, work)
    | .fresh => r.1.alloc (bufOfList [r.2])

/-- `correction(image, overwrite)`; returns (heap, result object, the input object afterwards).
`fresh` = identity of a newly constructed image object. -/
def callImage {Meta : Type} (src : SliceSrc) (e : Eff) (g : Meta → Meta) (upd : Meta → Meta → Meta)
    (h : Heap) (o : Obj Meta) (overwrite : Bool) (fresh : Nat) : Heap × Obj Meta × Obj Meta :=
  let w := workOf h o overwrite
  let d := dataStep src e w.1 o w.2
  let m := upd o.md (g o.md)
  if overwrite then
    let o' : Obj Meta := { o with buf := d.2, md := m }
    (d.1, o', o')
  else
    (d.1, { tag := fresh, buf := d.2, series := o.series, md := m }, o)

/-- `correction(array, overwrite)`: `correct_array(array)` on the array itself (overwrite) or on `array.copy()`;
returns (heap, buffer id of the returned array) -/
def callArray (e : Eff) (h : Heap) (b : Nat) (overwrite : Bool) : Heap × Nat :=
  let w := if overwrite then (h, b) else h.alloc (h.buf b)
  let r := runCA e w.1 w.2 0
  match e.ret with
  | .arg => (r.1, w.2)
  | .fresh => r.1.alloc (bufOfList [r.2])

/-- observable contents of a buffer -/
def Buf.toList (b : Buf) : List Slice := (List.range b.len).map b.get

end Darsia.CorrHeap
