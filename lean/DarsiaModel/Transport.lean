/-
Model of the discrete Beckmann problem behind `darsia.wasserstein_distance` (src/darsia/measure/wasserstein.py):
cost functional `l1_dissipation` (= `mass_matrix_cells · transport_density`), the mass-conservation constraint
`div u = mass_matrix_cells · (m₂ − m₁)`, the closed form on 1-D grids, and the physical-unit rescaling of `cv2.EMD`
(src/darsia/measure/emd.py).  The Euclidean norm is a parameter `N` (theorems take an abstract seminorm); on grids with
a single flux component it reduces to the absolute value, which is rational.  Core Lean only.
-/
import DarsiaModel.FV
namespace Darsia

/-- `cell_weighted_flux(face_to_cell(grid, U, pt))[idx]` as a function of the component -/
def cellVec (shape : List Nat) (U : Nat → Rat) (wgt : List Nat → Nat → Rat) (pt : List Rat) (idx : List Nat) :
    Nat → Rat :=
  fun a => wgt idx a * faceToCell shape U pt idx a

/-- `transport_density(U)[c] = Σ_q w_q · N(weighted cell flux at quadrature point q)` -/
def transportDensity (N : (Nat → Rat) → Rat) (shape : List Nat) (nq : Nat) (wq : Nat → Rat) (ptq : Nat → List Rat)
    (wgt : List Nat → Nat → Rat) (U : Nat → Rat) (c : Nat) : Rat :=
  sumTo nq (fun q => wq q * N (cellVec shape U wgt (ptq q) (decF shape c)))

/-- `l1_dissipation(U) = Σ_c vol · transport_density(U)[c]` : the value returned as distance -/
def cost (N : (Nat → Rat) → Rat) (shape : List Nat) (h : List Rat) (nq : Nat) (wq : Nat → Rat)
    (ptq : Nat → List Rat) (wgt : List Nat → Nat → Rat) (U : Nat → Rat) : Rat :=
  sumTo (numCells shape) (fun c => vol h * transportDensity N shape nq wq ptq wgt U c)

/-- mass conservation: `div U = mass_matrix_cells · f`, `f = m₂ − m₁` (densities) -/
def Feasible (shape : List Nat) (h : List Rat) (f : Nat → Rat) (U : Nat → Rat) : Prop :=
  ∀ c, c < numCells shape → divApply shape h U c = vol h * f c

/-- decidable form on lists for the driver -/
def feasibleB (shape : List Nat) (h : List Rat) (f U : Nat → Rat) : Bool :=
  (List.range (numCells shape)).all fun c => decide (divApply shape h U c = vol h * f c)

def absR (x : Rat) : Rat := if x < 0 then -x else x

/-- Euclidean norm of a vector whose only non-zero component is `a` -/
def normAxis (a : Nat) (v : Nat → Rat) : Rat := absR (v a)

/-- 1-D grid `[n]`, voxel size `h0`: the only mass-conserving flux (prefix sums; face `g` lies between cells `g`, `g+1`;
face area 1, cell volume `h0`) -/
def uniqueFlux1d (h0 : Rat) (f : Nat → Rat) (g : Nat) : Rat := sumTo (g + 1) (fun j => h0 * f j)

/-- thin grid (extent 1 in every direction but `a`): face `k` of axis `a` (flat number `offset a + k`, between cells
`k` and `k+1`) carries `h_a · Σ_{j ≤ k} f_j` -/
def uniqueFluxThin (shape : List Nat) (h : List Rat) (a : Nat) (f : Nat → Rat) (g : Nat) : Rat :=
  sumTo (g - offset shape a + 1) (fun j => h.getD a 0 * f j)

/-- decidable form of `Thin shape a` -/
def thinB (shape : List Nat) (a : Nat) : Bool :=
  decide (a < shape.length) && (List.range shape.length).all fun b => b == a || shape.getD b 0 == 1

/-- exact check of a dual certificate `(p, g)` (hypotheses of `C05.potential_lower_bound`): on every face the mean of `g`
is minus the difference quotient of `p`, and `g` lies in the Euclidean unit ball in every cell -/
def certOK (shape : List Nat) (h : List Rat) (p : Nat → Rat) (g : Nat → Nat → Rat) : Bool :=
  ((List.range (numFaces shape)).all fun k =>
    decide (vol h * (1 / 2) * (g (conn shape k).1 (faceAxis shape k) + g (conn shape k).2 (faceAxis shape k)) =
      -(area h (faceAxis shape k) * (p (conn shape k).2 - p (conn shape k).1)))) &&
  ((List.range (numCells shape)).all fun c => decide (sumTo shape.length (fun a => g c a * g c a) ≤ 1))

/-- the certified lower bound `Σ_c p_c · vol · f_c` -/
def certValue (shape : List Nat) (h : List Rat) (f p : Nat → Rat) : Rat :=
  sumTo (numCells shape) (fun c => p c * (vol h * f c))

/-! ### exact dual of a rule with rational nodes: one dual vector `g c q` per cell and quadrature point -/

/-- RT0 interpolation weights of the dual field: what cell `c` contributes to its upper (`dualHi`) and lower (`dualLo`) face
of axis `a` -/
def dualHi (nq : Nat) (wq : Nat → Rat) (ptq : Nat → List Rat) (g : Nat → Nat → Nat → Rat) (c a : Nat) : Rat :=
  sumTo nq (fun q => wq q * (ptq q).getD a 0 * g c q a)
def dualLo (nq : Nat) (wq : Nat → Rat) (ptq : Nat → List Rat) (g : Nat → Nat → Nat → Rat) (c a : Nat) : Rat :=
  sumTo nq (fun q => wq q * (1 - (ptq q).getD a 0) * g c q a)

/-- exact check of a per-point dual certificate (hypotheses of `C05.potential_lower_bound_rule`) -/
def certRuleOK (shape : List Nat) (h : List Rat) (nq : Nat) (wq : Nat → Rat) (ptq : Nat → List Rat) (p : Nat → Rat)
    (g : Nat → Nat → Nat → Rat) : Bool :=
  ((List.range (numFaces shape)).all fun k =>
    decide (vol h * (dualHi nq wq ptq g (conn shape k).1 (faceAxis shape k) + dualLo nq wq ptq g (conn shape k).2 (faceAxis shape k)) =
      -(area h (faceAxis shape k) * (p (conn shape k).2 - p (conn shape k).1)))) &&
  ((List.range (numCells shape)).all fun c => (List.range nq).all fun q =>
    decide (sumTo shape.length (fun a => g c q a * g c q a) ≤ 1))

/-- the corner rule `reference_cell_corners(dim)` (CONSTANT_SUBCELL_PROJECTION): corner `q < 2^dim` has coordinate `a` = bit
`a` of `q`; every weight is `2^-dim` (the order of the corners is irrelevant for the cost) -/
def cornerPt (dim q : Nat) : List Rat := (List.range dim).map fun a => (((q / 2 ^ a) % 2 : Nat) : Rat)
def cornerW (dim : Nat) (_q : Nat) : Rat := 1 / ((2 ^ dim : Nat) : Rat)

/-! ### `EMD.__call__`'s own arithmetic (src/darsia/measure/emd.py); pixels flattened row-major, `k = row·C + col` -/

/-- `_sum(img)` -/
def emdIntegral (n : Nat) (a : Nat → Rat) : Rat := sumTo n a

/-- `_normalize(img)` : weights of the signature -/
def emdWeight (n : Nat) (a : Nat → Rat) (k : Nat) : Rat := a k / emdIntegral n a

/-- physical position stored in the signature for pixel `k`: `(col·del_x, row·del_y)` with `del_y, del_x = voxel_size` -/
def emdPos (C : Nat) (dy dx : Rat) (k : Nat) : Rat × Rat := (((k % C : Nat) : Rat) * dx, ((k / C : Nat) : Rat) * dy)

/-- `_img_to_sig(normalized, dx)` : rows `[weight, col·del_x, row·del_y]` in row-major pixel order -/
def sigOf (R C : Nat) (dy dx : Rat) (a : Nat → Rat) : List (Rat × Rat × Rat) :=
  (List.range (R * C)).map fun k => (emdWeight (R * C) a k, (emdPos C dy dx k).1, (emdPos C dy dx k).2)

/-- `EMD.__call__` for a single-cell move of `value` by (`drow`, `dcol`) voxels: `cv2.EMD` returns the displacement
length `√((dcol·dx)² + (drow·dy)²)` (total flow normalised to 1), rescaled by `integral · cell_volume`;
returned here as the square of the result. -/
def emdSingleSq (value dy dx : Rat) (drow dcol : Int) : Rat :=
  (value * (dy * dx)) ^ 2 * ((dcol * dx) ^ 2 + (drow * dy) ^ 2)

end Darsia
