/-
Quadrature rules of `darsia/utils/quadrature.py` (C15).

The literal tables of `gauss(dim, order)` are extracted from the source (G2) as symbolic
expressions `QExpr` (DarsiaGen.QuadratureTables). This file holds the *computable* part:

* exact arithmetic in ℚ(√d) (`Qd`, pairs `a + b√d`) with an exact sign test,
* a normaliser `evalN d : QExpr → Option Val` into values `c·√q` with `c, q ∈ ℚ(√d)`, `q ≥ 0`,
* `check1d` (weights positive, Σ weights = 2, symmetric, even moments exact in ℚ(√d)),
* `checkTensor` (an N-D table is a permutation of the product grid of the 1-D rule),
* the unit-cell map of `gauss_reference_cell` and the corner rule check.

Soundness of every checker w.r.t. real numbers (`Real.sqrt`) is proved in DarsiaProofs.Quadrature.
Core Lean only; everything is structurally recursive so that `decide +kernel` evaluates it.
-/
import DarsiaModel.Basic
namespace Darsia.Quad

/-- the expression language of the literal tables: `+ - * /`, unary minus, `np.sqrt`, literals -/
inductive QExpr
  | rat (r : Rat)
  | add (a b : QExpr)
  | mul (a b : QExpr)
  | div (a b : QExpr)
  | neg (a : QExpr)
  | sqrt (a : QExpr)
  deriving Repr, Inhabited

/-- `a + b√d` for the radicand `d` of the rule -/
structure Qd where
  a : Rat
  b : Rat
  deriving DecidableEq, Repr, Inhabited

namespace Qd
def ofRat (r : Rat) : Qd := ⟨r, 0⟩
def zero : Qd := ⟨0, 0⟩
def one : Qd := ⟨1, 0⟩
def add (x y : Qd) : Qd := ⟨x.a + y.a, x.b + y.b⟩
def neg (x : Qd) : Qd := ⟨-x.a, -x.b⟩
def mul (d : Nat) (x y : Qd) : Qd := ⟨x.a * y.a + d * (x.b * y.b), x.a * y.b + x.b * y.a⟩
/-- field norm `(a + b√d)(a − b√d)` -/
def norm (d : Nat) (x : Qd) : Rat := x.a * x.a - d * (x.b * x.b)
/-- inverse; `none` when the norm vanishes (then the checker gives up; never a wrong value) -/
def inv (d : Nat) (x : Qd) : Option Qd :=
  if norm d x = 0 then none else some ⟨x.a / norm d x, -x.b / norm d x⟩
def pow (d : Nat) (x : Qd) : Nat → Qd
  | 0 => one
  | k + 1 => mul d (pow d x k) x
/-- exact sign test `a + b√d > 0` -/
def isPos (d : Nat) (x : Qd) : Bool :=
  if 0 ≤ x.a ∧ 0 ≤ x.b then decide (0 < x.a ∨ (0 < x.b ∧ 0 < d))
  else if 0 ≤ x.a ∧ x.b < 0 then decide ((d : Rat) * (x.b * x.b) < x.a * x.a)
  else if x.a < 0 ∧ 0 < x.b then decide (x.a * x.a < (d : Rat) * (x.b * x.b))
  else false
def isNonneg (d : Nat) (x : Qd) : Bool := decide (x = zero) || isPos d x
def sum (l : List Qd) : Qd := l.foldr add zero
end Qd

/-! ### integer / rational square roots by bisection (structural recursion on fuel) -/

/-- invariant `lo² ≤ n < hi²`; 70 halvings cover every `n < 2^64` -/
def isqrtAux (n : Nat) : Nat → Nat → Nat → Nat
  | 0, lo, _ => lo
  | fuel + 1, lo, hi =>
    if hi ≤ lo + 1 then lo
    else
      let mid := (lo + hi) / 2
      if mid * mid ≤ n then isqrtAux n fuel mid hi else isqrtAux n fuel lo mid

def isqrt (n : Nat) : Nat := isqrtAux n 70 0 (n + 1)

/-- `some k` with `k ≥ 0`, `k·k = r` if the bisection finds a rational root -/
def sqrtRat? (r : Rat) : Option Rat :=
  let k : Rat := mkRat (isqrt r.num.toNat) (isqrt r.den)
  if 0 ≤ k ∧ k * k = r then some k else none

/-- the value `c·√q` -/
structure Val where
  c : Qd
  q : Qd
  deriving DecidableEq, Repr, Inhabited

namespace Val
def ofQd (c : Qd) : Val := ⟨c, .one⟩
def neg (v : Val) : Val := ⟨v.c.neg, v.q⟩
def add (x y : Val) : Option Val := if x.q = y.q then some ⟨x.c.add y.c, x.q⟩ else none
def mul (d : Nat) (x y : Val) : Option Val :=
  if x.q = .one then some ⟨Qd.mul d x.c y.c, y.q⟩
  else if y.q = .one then some ⟨Qd.mul d x.c y.c, x.q⟩
  else if x.q = y.q then some ⟨Qd.mul d (Qd.mul d x.c y.c) x.q, .one⟩
  else none
/-- `1/(c√q) = (c⁻¹ q⁻¹)·√q` -/
def inv (d : Nat) (y : Val) : Option Val :=
  match y.c.inv d, y.q.inv d with
  | some ci, some qi => some ⟨Qd.mul d ci qi, y.q⟩
  | _, _ => none
def rad (d : Nat) (c : Qd) : Option Val := if Qd.isNonneg d c then some ⟨.one, c⟩ else none
/-- `√c` for a field element `c`: rational root, rational multiple of `√d`, or a new radical -/
def sqrt (d : Nat) (c : Qd) : Option Val :=
  if c.b = 0 then
    match sqrtRat? c.a with
    | some k => some ⟨⟨k, 0⟩, .one⟩
    | none =>
      if d = 0 then rad d c
      else match sqrtRat? (c.a / d) with
        | some k => some ⟨⟨0, k⟩, .one⟩
        | none => rad d c
  else rad d c
/-- canonical form of a proper radical with rational coefficient: `a·√q = sign(a)·√(a²q)`, so that
`(1/3)·√3`, `√(1/3)` and `1/√3` are the same normal form -/
def canon (d : Nat) (v : Val) : Val :=
  if v.q = .one then v
  else if v.c.b = 0 then
    if v.c.a = 0 then ⟨.zero, .one⟩
    else ⟨⟨if 0 < v.c.a then 1 else -1, 0⟩, Qd.mul d ⟨v.c.a * v.c.a, 0⟩ v.q⟩
  else v
/-- `v²` as a field element: `c²·q` -/
def sq (d : Nat) (v : Val) : Qd := Qd.mul d (Qd.mul d v.c v.c) v.q
end Val

/-- normaliser: the value of an expression as `c·√q`, or `none` (outside the supported shapes) -/
def evalN (d : Nat) : QExpr → Option Val
  | .rat r => some (.ofQd (.ofRat r))
  | .neg e => match evalN d e with | some x => some x.neg | none => none
  | .add e f => match evalN d e, evalN d f with | some x, some y => x.add y | _, _ => none
  | .mul e f => match evalN d e, evalN d f with | some x, some y => Val.mul d x y | _, _ => none
  | .div e f =>
    match evalN d e, evalN d f with
    | some x, some y => match y.inv d with | some yi => Val.mul d x yi | none => none
    | _, _ => none
  | .sqrt e => match evalN d e with
    | some x => if x.q = .one then Val.sqrt d x.c else none
    | none => none

/-- a rule as the source writes it: radicand hint `d`, points (coordinate lists) and weights -/
structure Rule where
  d : Nat
  pts : List (List QExpr)
  wts : List QExpr
  deriving Repr, Inhabited

/-- a weight must be a field element (`q = 1`) -/
def evalW (d : Nat) (e : QExpr) : Option Qd :=
  match evalN d e with
  | some v => if v.q = .one then some v.c else none
  | none => none

def evalPt (d : Nat) : List QExpr → Option (List Val)
  | [] => some []
  | e :: es => match evalN d e, evalPt d es with | some v, some vs => some (v.canon d :: vs) | _, _ => none

/-- normal form of a table: `(point, weight)` pairs; `none` if lengths differ (the code would
silently `zip`) or an entry is outside the supported shapes -/
def normPairs (d : Nat) : List (List QExpr) → List QExpr → Option (List (List Val × Qd))
  | [], [] => some []
  | p :: ps, w :: ws =>
    match evalPt d p, evalW d w, normPairs d ps ws with
    | some pv, some wv, some rest => some ((pv, wv) :: rest)
    | _, _, _ => none
  | _, _ => none

def Rule.norm (r : Rule) : Option (List (List Val × Qd)) := normPairs r.d r.pts r.wts

/-- 1-D view: every point has exactly one coordinate -/
def to1d : List (List Val × Qd) → Option (List (Val × Qd))
  | [] => some []
  | ([v], w) :: rest => match to1d rest with | some l => some ((v, w) :: l) | none => none
  | _ :: _ => none

/-- `Σ wᵢ (xᵢ²)^m` in ℚ(√d) -/
def evenMoment (d : Nat) (l : List (Val × Qd)) (m : Nat) : Qd :=
  Qd.sum (l.map fun vw => Qd.mul d vw.2 (Qd.pow d (vw.1.sq d) m))

/-- the rule is invariant under `x ↦ −x` (as a multiset of (node, weight) pairs) -/
def symmetric (l : List (Val × Qd)) : Bool := (l.map fun vw => (vw.1.neg, vw.2)).isPerm l

/-- the 1-D checker on normal forms: `n` points, positive weights, Σ w = 2, moments `0..2n−1` -/
def check1dN (d : Nat) (l : List (Val × Qd)) (n : Nat) : Bool :=
  decide (l.length = n) && decide (0 < n) && l.all (fun vw => Qd.isPos d vw.2) && symmetric l &&
    (List.range n).all fun m => decide (evenMoment d l m = ⟨2 / (2 * (m : Rat) + 1), 0⟩)

def check1d (r : Rule) (n : Nat) : Bool :=
  match r.norm with
  | some t => match to1d t with | some l => check1dN r.d l n | none => false
  | none => false

/-! ### tensor rules -/

def consAll (d : Nat) : List (Val × Qd) → List (List Val × Qd) → List (List Val × Qd)
  | [], _ => []
  | xw :: l, t => t.map (fun pv => (xw.1 :: pv.1, Qd.mul d xw.2 pv.2)) ++ consAll d l t

/-- product grid of a 1-D rule with product weights -/
def tensorN (d : Nat) (l : List (Val × Qd)) : Nat → List (List Val × Qd)
  | 0 => [([], .one)]
  | k + 1 => consAll d l (tensorN d l k)

/-- the `dim`-D table `r` is a permutation of the product grid of the 1-D rule `r1` -/
def checkTensor (r1 r : Rule) (dim : Nat) : Bool :=
  match r1.norm, r.norm with
  | some t1, some t => match to1d t1 with
    | some l => decide (r1.d = r.d) && t.isPerm (tensorN r.d l dim)
    | none => false
  | _, _ => false

/-! ### `gauss_reference_cell`: affine map to the unit cell, weights normalised by their sum -/

def sumE : List QExpr → QExpr
  | [] => .rat 0
  | [e] => e
  | e :: es => .add e (sumE es)

def Rule.toUnitCell (r : Rule) : Rule :=
  { d := r.d
    pts := r.pts.map fun p => p.map fun x => .div (.add x (.rat 1)) (.rat 2)
    wts := r.wts.map fun w => .div w (sumE r.wts) }

/-! ### corner rule (`reference_cell_corners`): trapezoid rule on `[0,1]` tensorised -/

def trapezoid : Rule := ⟨1, [[.rat 0], [.rat 1]], [.rat (1 / 2), .rat (1 / 2)]⟩

/-- API order argument -/
inductive Order | n (k : Nat) | max
  deriving DecidableEq, Repr

/-- the obligation for one accepted `(dim, order)`: the 1-D rule of that order passes `check1d` with
`n = order + 1` points and the `dim`-D table is a permutation of its product grid -/
def checkTable (rule : Nat → Nat → Except Err Rule) (p : Nat × Nat) : Bool :=
  match rule 1 p.2, rule p.1 p.2 with
  | .ok r1, .ok r => check1d r1 (p.2 + 1) && checkTensor r1 r p.1
  | _, _ => false

/-- the corner table of dimension `dim` is a permutation of the product grid of the trapezoid rule -/
def checkCorners (corners : Nat → Except Err Rule) (dim : Nat) : Bool :=
  match corners dim with
  | .ok r => checkTensor trapezoid r dim
  | .error _ => false

/-- `gauss(dim, order)` as the API resolves it (`"max"` is an alias per dimension) -/
def gaussM (maxOrder : Nat → Option Nat) (rule : Nat → Nat → Except Err Rule) (dim : Nat) :
    Order → Except Err Rule
  | .n k => rule dim k
  | .max => match maxOrder dim with
    | some k => rule dim k
    | none => .error .notImpl

/-- what the API shows of a call: the error class, or the numbers of points and weights returned -/
def apiShape (r : Except Err Rule) : Except Err (Nat × Nat) := r.map fun r => (r.pts.length, r.wts.length)

/-! ### the consumer: which reference-cell rule `transport_density` integrates with -/

/-- `L1Mode` of `darsia.measure.wasserstein` -/
inductive L1Mode | raviartThomas | constantSubcell | constantCell
  deriving DecidableEq, Repr
def L1Mode.all : List L1Mode := [.raviartThomas, .constantSubcell, .constantCell]

/-- the call a branch of `transport_density` makes: `gauss_reference_cell(dim, order)` or
`reference_cell_corners(dim)` (extracted from the source into `DarsiaGen.QuadratureTables.l1Source`) -/
inductive RuleSource | cell (o : Order) | corners
  deriving DecidableEq, Repr

/-- the rule (on the unit cell) `transport_density` sums over for an L1 mode in dimension `dim` -/
def l1Rule (maxOrder : Nat → Option Nat) (rule : Nat → Nat → Except Err Rule) (corners : Nat → Except Err Rule)
    (src : L1Mode → Except Err RuleSource) (mode : L1Mode) (dim : Nat) : Except Err Rule :=
  match src mode with
  | .ok (.cell o) => (gaussM maxOrder rule dim o).map Rule.toUnitCell
  | .ok .corners => corners dim
  | .error e => .error e

/-- every L1 mode resolves, in every dimension that has Gauss tables, to a proved rule -/
def checkL1 (accepted : List (Nat × Nat)) (cornerDims : List Nat) (src : L1Mode → Except Err RuleSource) : Bool :=
  L1Mode.all.all fun mode => accepted.all fun p =>
    match src mode with
    | .ok (.cell (.n k)) => decide ((p.1, k) ∈ accepted)
    | .ok (.cell .max) => true
    | .ok .corners => decide (p.1 ∈ cornerDims)
    | .error _ => false

end Darsia.Quad
