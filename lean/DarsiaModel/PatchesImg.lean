/-
Patches as IMAGES (C19, round 2): patch (i, j) of `Patches(base, n, rel_overlap)` is
`base.subregion(rois[i][j])` — the C02 sub-image with pixel array, for scalar and vector payloads;
construction refuses space-time images and 3-D images; `blend_and_assemble` as the code stands.
Core Lean only.
-/
import DarsiaModel.Patches
import DarsiaModel.ImageArr
namespace Darsia.Patch
open Darsia Darsia.Im

/-- `rois[i][j]` as Python slices -/
def patchSlices (a0 a1 : Axis) (i j : Nat) : List PySlice :=
  [(some ((a0.roi i).1 : Int), some ((a0.roi i).2 : Int)), (some ((a1.roi j).1 : Int), some ((a1.roi j).2 : Int))]

/-- `Patches.__init__` guards: 3-D images and space-time images are refused (NotImplementedError) -/
def buildGuard (base : Img) : Except Err Unit :=
  if base.cs.dim = .d3 then .error .notImpl
  else if base.series then .error .notImpl
  else .ok ()

/-- `patches[i][j] = base.subregion(rois[i][j])` -/
def patchOf (base : ImgA) (a0 a1 : Axis) (i j : Nat) : Except Err ImgA := do
  buildGuard base.md
  base.subSlices (patchSlices a0 a1 i j)

/-- `Patches.blend_and_assemble` as the code stands: `_prepare_weights` reads attributes (`pw`, `ph`, `ow`, …,
`base.num_pixels_width`) that no longer exist — AttributeError on every call -/
def blendAndAssemble (_a0 _a1 : Axis) : Except Err Grid := .error .other

/-! ### specification of blending (what a repaired `blend_and_assemble` has to satisfy; NOT the code) -/

/-- blend of per-patch values with per-patch weights at one pixel -/
def blendAt (w : Nat → Rat) (val : Nat → Rat) (n : Nat) : Rat := ((List.range n).map fun k => w k * val k).sum

/-- indicator weight of the interior of patch `k` along one axis at pixel `x` (zero overlap blending = `assemble`) -/
def interiorWeight (a : Axis) (x k : Nat) : Rat := if x ∈ a.piece k then 1 else 0

end Darsia.Patch

namespace Darsia.Patch

/-- `Patches.position(i, j)`: ("left" | "right" | "internal", "bottom" | "top" | "internal") -/
inductive HPos | left | right | internal deriving DecidableEq, Repr
inductive VPos | bottom | top | internal deriving DecidableEq, Repr

/-- as coded: `i == 0` → left, `elif i == num_patches[0] - 1` → right, else internal; `j == 0` → bottom,
`elif j == num_patches[1] - 1` → top, else internal (Python `n - 1` on ints: for `n = 0` it is `-1`, never equal to `i ≥ 0`) -/
def position (n0 n1 i j : Nat) : HPos × VPos :=
  (if i = 0 then .left else if 0 < n0 ∧ i = n0 - 1 then .right else .internal,
   if j = 0 then .bottom else if 0 < n1 ∧ j = n1 - 1 then .top else .internal)

/-- iteration order of the public tables (`patches[i][j]`, `rois[i][j]`, corner / centre arrays): `i` (rows) outer, `j` inner -/
def patchOrder (n0 n1 : Nat) : List (Nat × Nat) := (List.range n0).flatMap fun i => (List.range n1).map fun j => (i, j)

end Darsia.Patch
