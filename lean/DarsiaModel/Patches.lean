/-
Patches of a 2-D image (C19). Mirrors `darsia/image/patches.py`: `Patches.__init__` (patch size
`pv`, overlap `ov`, `rois`, `relative_rois_without_overlap`, corner / centre tables) and
`Patches.assemble`. Image data are tracked symbolically: an array is a grid of the base image's
(row, column) indices, numpy basic slicing is `drop`/`take`, so "re-assembly reproduces the image"
is equality with the identity grid. Core Lean only.
-/
import DarsiaModel.Coord
namespace Darsia.Patch
open Darsia

/-- patch size in voxels along an axis of `N` voxels cut into `n` patches: `-(-N // n)` = ⌈N / n⌉ -/
def pvInt (N n : Nat) : Nat := (N + n - 1) / n

/-- what `coordinatesystem.num_voxels(dimensions / n)` computes, in exact arithmetic:
`ceil((D / n) / (D / N))` -/
def pvRat (D : Rat) (N n : Nat) : Int := Rat.ceil ((D / (n : Rat)) / (D / (N : Rat)))

/-- overlap in voxels: `num_voxels(rel_overlap * D / n)` = `ceil((rel * (D / n)) / (D / N))` -/
def ovRat (rel D : Rat) (N n : Nat) : Int := Rat.ceil ((rel * (D / (n : Rat))) / (D / (N : Rat)))

/-- one matrix axis of a patched image -/
structure Axis where
  /-- number of voxels -/
  N : Nat
  /-- number of patches -/
  n : Nat
  /-- patch size in voxels -/
  pv : Nat
  /-- overlap in voxels -/
  ov : Nat
  deriving Repr, DecidableEq

/-- `slice(max(i * pv - ov, 0), (i + 1) * pv + ov)` (truncated subtraction is the `max`) -/
def Axis.roi (a : Axis) (i : Nat) : Nat × Nat := (i * a.pv - a.ov, (i + 1) * a.pv + a.ov)

/-- `slice(0, pv) if i == 0 else slice(ov, pv + ov)` -/
def Axis.relRoi (a : Axis) (i : Nat) : Nat × Nat := if i = 0 then (0, a.pv) else (a.ov, a.pv + a.ov)

/-- numpy basic slicing `l[a:b]` with `0 ≤ a, b` (clipping to the length is built in) -/
def sliceL {α} (l : List α) (s : Nat × Nat) : List α := (l.drop s.1).take (s.2 - s.1)

/-- base-image indices of the interior (patch without overlap) along one axis:
`base[roi][rel_roi]` -/
def Axis.piece (a : Axis) (i : Nat) : List Nat := sliceL (sliceL (List.range a.N) (a.roi i)) (a.relRoi i)

/-- base-image indices held by patch `i` (with overlap): `base[roi]` -/
def Axis.data (a : Axis) (i : Nat) : List Nat := sliceL (List.range a.N) (a.roi i)

abbrev Grid := List (List (Nat × Nat))

/-- the array whose entry (r, c) is the base entry (R[r], C[c]) -/
def grid (R C : List Nat) : Grid := R.map fun r => C.map fun c => (r, c)

/-- `arr[s0, s1]` -/
def sliceGrid (g : Grid) (s0 s1 : Nat × Nat) : Grid := (sliceL g s0).map fun row => sliceL row s1

/-- `np.hstack((g, h))` for arrays with the same number of rows -/
def hstack (g h : Grid) : Grid := List.zipWith (· ++ ·) g h

def baseGrid (a0 a1 : Axis) : Grid := grid (List.range a0.N) (List.range a1.N)

/-- `patches[i][j].img = base.img[rois[i][j]]` -/
def patchImg (a0 a1 : Axis) (i j : Nat) : Grid := sliceGrid (baseGrid a0 a1) (a0.roi i) (a1.roi j)

/-- `patches[i][j].img[relative_rois_without_overlap[i][j]]` -/
def pieceImg (a0 a1 : Axis) (i j : Nat) : Grid := sliceGrid (patchImg a0 a1 i j) (a0.relRoi i) (a1.relRoi j)

/-- `Patches.assemble`: strips `hstack`ed over the column patches, `vstack`ed over the row patches -/
def assemble (a0 a1 : Axis) : Grid :=
  (List.range a0.n).foldl
    (fun acc i =>
      acc ++ ((List.range a1.n).drop 1).foldl (fun row j => hstack row (pieceImg a0 a1 i j)) (pieceImg a0 a1 i 0))
    []

/-! ### advertised corners and centres (one axis each; the 2-D tables are products) -/

/-- `global_corners_voxels`: lower and upper corner of patch `i`: `i * pv`, `min(N, (i + 1) * pv)` -/
def Axis.cornerLo (a : Axis) (i : Nat) : Nat := i * a.pv
def Axis.cornerHi (a : Axis) (i : Nat) : Nat := min a.N ((i + 1) * a.pv)

/-- `global_corners_cartesian` measured in voxels from the origin along this axis: `i * (D / n) / (D / N)` -/
def cornerMetricVox (D : Rat) (N n i : Nat) : Rat := ((i : Rat) * (D / (n : Rat))) / (D / (N : Rat))

/-- `global_centers_cartesian` for patch (i, j) of a 2-D image:
`origin + [(j + 0.5) * D1 / n1, -(i + 0.5) * D0 / n0]` -/
def centerCart (cs : CS) (n0 n1 i j : Nat) : List Rat :=
  [listGetD cs.origin 0 0 + ((j : Rat) + 1 / 2) * (listGetD cs.dims 1 0 / (n1 : Rat)),
   listGetD cs.origin 1 0 + -((i : Rat) + 1 / 2) * (listGetD cs.dims 0 0 / (n0 : Rat))]

/-- `global_centers_voxels = coordinatesystem.voxel(global_centers_cartesian)` -/
def centerVox (cs : CS) (n0 n1 i j : Nat) : Except Err (List Int) := cs.voxel (centerCart cs n0 n1 i j)

/-- `global_corners_cartesian` top-left corner of patch (i, j): `origin + [j * D1 / n1, -i * D0 / n0]` -/
def cornerCart (cs : CS) (n0 n1 i j : Nat) : List Rat :=
  [listGetD cs.origin 0 0 + (j : Rat) * (listGetD cs.dims 1 0 / (n1 : Rat)),
   listGetD cs.origin 1 0 + -(i : Rat) * (listGetD cs.dims 0 0 / (n0 : Rat))]

/-- the axes of `Patches(img, [n0, n1], rel_overlap = rel)` for a 2-D image -/
def axesOf (cs : CS) (n0 n1 : Nat) (rel : Rat) : Axis × Axis :=
  let N0 := listGetD cs.shape 0 0
  let N1 := listGetD cs.shape 1 0
  (⟨N0, n0, pvInt N0 n0, (ovRat rel (listGetD cs.dims 0 0) N0 n0).toNat⟩,
   ⟨N1, n1, pvInt N1 n1, (ovRat rel (listGetD cs.dims 1 0) N1 n1).toNat⟩)

end Darsia.Patch
